/-
  RS-232 segments: the decoded view of a packed segment compares equal to the packed object (C14), and
  exactly when `RS232Segment.pack` is idempotent (C13).
-/
import Acra.Lemmas.NPD2
namespace Acra.Lemmas.NPD
open Acra.Py Acra.Model.NPD Acra.Gen.NPD Acra.Lemmas.Bits

/-- what a new RS232Segment decodes from the bytes of a well-formed RS-232 segment -/
theorem decodedSeg_rs232 (g : Seg) (h : Seg_WF g) (hgk : g.kind = .rs232) :
    decodedSeg .rs232 g = { withBase (Seg.fresh .rs232) g.timedelta g.errorcode g.flags (effPayload g) with
      block_status := g.block_status % 65536 / 8 * 8 + g.sync_bytes.length, sync_bytes := g.sync_bytes, data := g.data } := by
  obtain ⟨h1, h2, h3, h4, h5, h6⟩ := h
  obtain ⟨h7, h8⟩ := h5 hgk
  have heff : effPayload g = dataRS232 (g.block_status % 65536 / 8) g.sync_bytes g.data := by
    simp [effPayload, hgk, dataRS232, wordsC, Code.size]
  have hty := unpackRS232_eq (withBase (Seg.fresh .rs232) g.timedelta g.errorcode g.flags (effPayload g))
    (g.block_status % 65536 / 8) g.sync_bytes g.data heff (by omega) h7 h8
  simp only [decodedSeg, typedUnpack]
  show (Seg.unpackRS232 _).1 = _
  rw [hty]

/-- the typed header of a well-formed RS-232 segment is always complete -/
theorem typedOK_rs232 (g : Seg) (h : Seg_WF g) (hgk : g.kind = .rs232) : TypedOK .rs232 g := by
  obtain ⟨h1, h2, h3, h4, h5, h6⟩ := h
  obtain ⟨h7, h8⟩ := h5 hgk
  have heff : effPayload g = dataRS232 (g.block_status % 65536 / 8) g.sync_bytes g.data := by
    simp [effPayload, hgk, dataRS232, wordsC, Code.size]
  have hty := unpackRS232_eq (withBase (Seg.fresh .rs232) g.timedelta g.errorcode g.flags (effPayload g))
    (g.block_status % 65536 / 8) g.sync_bytes g.data heff (by omega) h7 h8
  simp only [TypedOK, typedUnpack]
  show (Seg.unpackRS232 _).2 = _
  rw [hty]

/-- `RS232Segment.__eq__` between the decoded segment and the object `pack` left behind -/
theorem Seg_eq_decoded_rs232 (g : Seg) (h : Seg_WF g) (hgk : g.kind = .rs232) :
    Seg.eq (decodedSeg .rs232 g) (packedSeg g) = true := by
  rw [decodedSeg_rs232 g h hgk]
  simp [packedSeg, Seg.eq, Seg.eqRS232, withBase, Seg.fresh, hgk]

/-! ### idempotence of `RS232Segment.pack` -/

/-- the status word `pack` writes is a fixed point of the rewriting exactly when the sync byte count
    (mod 2¹⁶) fits the three bits the format gives it -/
theorem status_fix_iff (b n : Nat) :
    ((b &&& 0xFFF8) + n &&& 0xFFF8) + n = (b &&& 0xFFF8) + n ↔ n % 65536 ≤ 7 := by
  rw [and_FFF8, and_FFF8]; omega

theorem packRS232_fields (g : Seg) :
    (g.packRS232).1.block_status = (g.block_status &&& 0xFFF8) + g.sync_bytes.length ∧
    (g.packRS232).1.sync_bytes = g.sync_bytes ∧ (g.packRS232).1.kind = g.kind := by
  simp only [Seg.packRS232]
  repeat' split
  all_goals simp [Seg.setPayload]

theorem packRS232_idem_of_fix (g : Seg)
    (hbs : ((g.block_status &&& 0xFFF8) + g.sync_bytes.length &&& 0xFFF8) + g.sync_bytes.length =
      (g.block_status &&& 0xFFF8) + g.sync_bytes.length) :
    (g.packRS232).1.packRS232 = g.packRS232 := by
  simp only [Seg.packRS232]
  cases h1 : structPack RS232Segment_pack_fmt0 [(g.block_status &&& 0xFFF8) + g.sync_bytes.length] with
  | error e => simp only [hbs, h1]
  | ok hh =>
    cases h2 : packSync g.sync_bytes with
    | error e => simp only [Seg.setPayload, hbs, h1, h2]
    | ok sb => simp only [Seg.setPayload, hbs, h1, h2]

/-- `RS232Segment.pack` twice = once ⇔ the number of sync bytes (mod 2¹⁶) is at most seven -/
theorem packRS232_idem_iff (g : Seg) :
    (g.packRS232).1.packRS232 = g.packRS232 ↔ g.sync_bytes.length % 65536 ≤ 7 := by
  constructor
  · intro h
    have h1 := packRS232_fields g
    have h2 := packRS232_fields (g.packRS232).1
    rw [h] at h2
    rw [h1.1, h1.2.1] at h2
    exact (status_fix_iff _ _).1 h2.1.symm
  · intro h
    exact packRS232_idem_of_fix g ((status_fix_iff _ _).2 h)

end Acra.Lemmas.NPD
