/-
  Float facts used by the ptptime / nanotime theorems: the idiom `int(a / d)` (Python 3 true division of
  non-negative ints below 2^53, then truncation) is exact integer division.
-/
import Acra.Lemmas.Float
import Acra.Model.ExtraTime
import Acra.Lemmas.Ch11TimeFmt
namespace Acra.Lemmas.ExtraTime
open Acra.Py Acra.Py.Float Acra.Lemmas.Float Acra.Model.ExtraTime

/-- `⌊rne (a / d)⌋ = a / d` (integer division) for `a < 2^53`: when `d ∤ a` the exact quotient is at least
    `1/d` away from the next integers and the rounding error `q·2^-53` is below `1/d`; when `d ∣ a` the quotient
    is a natural number below 2^53, which `rne` leaves unchanged -/
theorem floorNat_rne_div (a d : ℕ) (ha : a < 2 ^ 53) (hd : 0 < d) :
    floorNat (rne ((a : ℚ) / (d : ℚ))) = a / d := by
  have hdq : (0 : ℚ) < (d : ℚ) := by exact_mod_cast hd
  have hdiv : (a : ℚ) = ((a / d : ℕ) : ℚ) * d + ((a % d : ℕ) : ℚ) := by
    have := Nat.div_add_mod a d
    have h2 : ((d * (a / d) + a % d : ℕ) : ℚ) = (a : ℚ) := by exact_mod_cast congrArg (fun n : ℕ => (n : ℚ)) this
    push_cast at h2; linarith
  by_cases hr : a % d = 0
  · -- exact quotient
    have hq : (a : ℚ) / (d : ℚ) = ((a / d : ℕ) : ℚ) := by
      rw [hdiv, hr]; field_simp; simp
    have hlt : a / d < 2 ^ 53 := lt_of_le_of_lt (Nat.div_le_self a d) ha
    rw [hq, rne_exact _ hlt]
    exact floorNat_eq _ _ (le_refl _) (by linarith)
  · have hrpos : 1 ≤ a % d := Nat.one_le_iff_ne_zero.mpr hr
    have hrlt : a % d < d := Nat.mod_lt a hd
    set q : ℚ := (a : ℚ) / (d : ℚ) with hqdef
    have hq0 : 0 ≤ q := by positivity
    have hqeq : q = ((a / d : ℕ) : ℚ) + ((a % d : ℕ) : ℚ) / d := by
      rw [hqdef, hdiv]; field_simp
    have herr := rne_err q hq0
    rw [abs_le] at herr
    have haq : (a : ℚ) < 2 ^ 53 := by exact_mod_cast ha
    have hbound : q * (1 / 2 ^ 53) < 1 / d := by
      rw [hqdef]
      rw [div_mul_eq_mul_div, div_lt_div_iff_of_pos_right hdq]
      have : (a : ℚ) * (1 / 2 ^ 53) < 1 := by
        rw [mul_one_div, div_lt_one (by positivity)]; exact haq
      linarith
    have h1 : (1 : ℚ) / d ≤ ((a % d : ℕ) : ℚ) / d := by
      apply div_le_div_of_nonneg_right _ (le_of_lt hdq)
      exact_mod_cast hrpos
    have h2 : ((a % d : ℕ) : ℚ) / d ≤ 1 - 1 / d := by
      rw [le_sub_iff_add_le, ← add_div, div_le_one hdq]
      have : a % d + 1 ≤ d := hrlt
      exact_mod_cast this
    apply floorNat_eq
    · linarith [herr.1]
    · linarith [herr.2]

theorem rne_nonneg (q : ℚ) (h : 0 ≤ q) : 0 ≤ rne q := by
  have herr := rne_err q h
  rw [abs_le] at herr
  have : q * (1 / 2 ^ 53) ≤ q := by
    have : (1 : ℚ) / 2 ^ 53 ≤ 1 := by norm_num
    nlinarith
  linarith [herr.1]

theorem rneI_nonneg (q : ℚ) (h : 0 ≤ q) : rneI q = rne q := by
  unfold rneI; rw [if_neg (not_lt.mpr h)]

theorem truncI_nonneg (x : ℚ) (h : 0 ≤ x) : truncI x = ((floorNat x : ℕ) : ℤ) := by
  unfold truncI; rw [if_neg (not_lt.mpr h)]

/-- `int(n / d)` for non-negative ints below 2^53 is integer division -/
theorem intDivF_nat (n d : ℕ) (hn : n < 2 ^ 53) (hd : 0 < d) : intDivF (n : ℤ) d = ((n / d : ℕ) : ℤ) := by
  unfold intDivF
  have hq : (0 : ℚ) ≤ (n : ℚ) / (d : ℚ) := by positivity
  have hc : (((n : ℤ) : ℚ)) = (n : ℚ) := by push_cast; rfl
  rw [hc, rneI_nonneg _ hq, truncI_nonneg _ (rne_nonneg _ hq), floorNat_rne_div n d hn hd]

/-- `int(n / 1000.0)`: the conversion of `n < 2^53` to binary64 is exact, so this is integer division too -/
theorem intDivFF_nat (n d : ℕ) (hn : n < 2 ^ 53) (hd : 0 < d) : intDivFF (n : ℤ) d = ((n / d : ℕ) : ℤ) := by
  unfold intDivFF
  have hc : (((n : ℤ) : ℚ)) = (n : ℚ) := by push_cast; rfl
  have h0 : (0 : ℚ) ≤ (n : ℚ) := by positivity
  have hq : (0 : ℚ) ≤ (n : ℚ) / (d : ℚ) := by positivity
  rw [hc, rneI_nonneg _ h0, rne_exact n hn, rneI_nonneg _ hq, truncI_nonneg _ (rne_nonneg _ hq),
    floorNat_rne_div n d hn hd]

/-! ### BCD -/

/-- decimal reading of the nibbles of `a`, least significant first -/
def nibbleVal : Nat → Nat → Nat
  | 0, _ => 0
  | fuel + 1, a => if a = 0 then 0 else a % 16 + 10 * nibbleVal fuel (a / 16)

theorem bcdToIntLoop_eq : ∀ (fuel a b i : Nat), a < fuel →
    bcdToIntLoop fuel a b i = b + 10 ^ i * nibbleVal fuel a := by
  intro fuel
  induction fuel with
  | zero => intro a b i h; omega
  | succ k ih =>
    intro a b i h
    unfold bcdToIntLoop nibbleVal
    by_cases h0 : a = 0
    · simp [h0]
    · simp only [h0, if_false]
      have hlt : a >>> 4 < k := by rw [Nat.shiftRight_eq_div_pow]; omega
      rw [ih _ _ _ hlt]
      have e1 : a &&& 0xf = a % 16 := by
        have := Nat.and_two_pow_sub_one_eq_mod a 4
        simpa using this
      have e2 : a >>> 4 = a / 16 := by rw [Nat.shiftRight_eq_div_pow]
      rw [e1, e2, Nat.pow_succ]
      ring

theorem digit_floor (a i : ℕ) (ha : a < 2 ^ 53) :
    floorNat (rne ((a : ℚ) / ((10 ^ i : ℕ) : ℚ)) -
      ((10 * (rne ((a : ℚ) / ((10 ^ i : ℕ) : ℚ)) / 10).floor.toNat : ℕ) : ℚ)) = a / 10 ^ i % 10 := by
  have hpos : 0 < 10 ^ i := Nat.pow_pos (by norm_num)
  set q := rne ((a : ℚ) / ((10 ^ i : ℕ) : ℚ)) with hq
  have hq0 : 0 ≤ q := rne_nonneg _ (by positivity)
  have hn : floorNat q = a / 10 ^ i := floorNat_rne_div a (10 ^ i) ha hpos
  set n := a / 10 ^ i with hndef
  have h1 : (n : ℚ) ≤ q := by rw [← hn]; exact floorNat_le q hq0
  have h2 : q < (n : ℚ) + 1 := by rw [← hn]; exact lt_floorNat_add_one q hq0
  have hk : (q / 10).floor = ((n / 10 : ℕ) : ℤ) := by
    show ⌊q / 10⌋ = _
    rw [Int.floor_eq_iff]
    have hd := Nat.div_add_mod n 10
    have hm := Nat.mod_lt n (show 0 < 10 by norm_num)
    have e : (n : ℚ) = 10 * ((n / 10 : ℕ) : ℚ) + ((n % 10 : ℕ) : ℚ) := by exact_mod_cast hd.symm
    have hm' : ((n % 10 : ℕ) : ℚ) ≤ 9 := by exact_mod_cast Nat.lt_succ_iff.mp hm
    have hm0 : (0 : ℚ) ≤ ((n % 10 : ℕ) : ℚ) := by positivity
    have hc : (((n / 10 : ℕ) : ℤ) : ℚ) = ((n / 10 : ℕ) : ℚ) := Int.cast_natCast _
    rw [hc]
    constructor
    · linarith
    · linarith
  rw [hk]
  simp only [Int.toNat_natCast]
  apply floorNat_eq
  · have hd := Nat.div_add_mod n 10
    have e : (n : ℚ) = 10 * ((n / 10 : ℕ) : ℚ) + ((n % 10 : ℕ) : ℚ) := by exact_mod_cast hd.symm
    rw [Nat.cast_mul]; push_cast; linarith
  · have hd := Nat.div_add_mod n 10
    have e : (n : ℚ) = 10 * ((n / 10 : ℕ) : ℚ) + ((n % 10 : ℕ) : ℚ) := by exact_mod_cast hd.symm
    push_cast; linarith

theorem nibbleVal_zero (k : Nat) : nibbleVal k 0 = 0 := by cases k <;> simp [nibbleVal]

theorem nibbleVal_unfold (fuel a : Nat) (h : a = 0 ∨ a < fuel) :
    nibbleVal fuel a = a % 16 + 10 * nibbleVal (fuel - 1) (a / 16) := by
  rcases h with h | h
  · subst h; simp [nibbleVal_zero]
  · cases fuel with
    | zero => omega
    | succ k =>
      by_cases h0 : a = 0
      · subst h0; simp [nibbleVal_zero]
      · simp [nibbleVal, h0]

/-- `bcdTointConvert` reads four nibbles as four decimal digits (any nibble values, BCD or not) -/
theorem bcdToInt_nibbles4 (a : Nat) (ha : a < 65536) :
    bcdToInt a = a % 16 + 10 * (a / 16 % 16) + 100 * (a / 256 % 16) + 1000 * (a / 4096 % 16) := by
  unfold bcdToInt
  rw [bcdToIntLoop_eq (a + 1) a 0 0 (by omega)]
  rw [nibbleVal_unfold (a + 1) a (by omega)]
  rw [nibbleVal_unfold (a + 1 - 1) (a / 16) (by omega)]
  rw [nibbleVal_unfold (a + 1 - 1 - 1) (a / 16 / 16) (by omega)]
  rw [nibbleVal_unfold (a + 1 - 1 - 1 - 1) (a / 16 / 16 / 16) (by omega)]
  have hz : a / 16 / 16 / 16 / 16 = 0 := by omega
  rw [hz, nibbleVal_zero]
  have e1 : a / 16 / 16 = a / 256 := by rw [Nat.div_div_eq_div_mul]
  have e2 : a / 16 / 16 / 16 = a / 4096 := by rw [Nat.div_div_eq_div_mul, Nat.div_div_eq_div_mul]
  rw [e2, e1]
  omega

/-! ### the PTP word and the signed carry -/

theorem ptpWord_eq (T us ns : Nat) (h : us * 1000 + ns < 2 ^ 32) : ptpWord T us ns = T * 2 ^ 32 + (us * 1000 + ns) := by
  unfold ptpWord
  rw [← Nat.shiftLeft_add_eq_or_of_lt h, Nat.shiftLeft_eq]

theorem truncI_nonpos (x : ℚ) (h : x ≤ 0) : truncI x = -((floorNat (-x) : ℕ) : ℤ) := by
  unfold truncI
  split
  · rfl
  · have : x = 0 := le_antisymm h (not_lt.mp ‹_›)
    subst this; simp [floorNat]

theorem rneI_neg (q : ℚ) (h : 0 ≤ q) : rneI (-q) = -(rne q) := by
  unfold rneI
  split
  · simp
  · have : q = 0 := by linarith
    subst this; simp [rne]

theorem intDivFF_neg (m d : ℕ) (hm : m < 2 ^ 53) (hd : 0 < d) : intDivFF (-(m : ℤ)) d = -((m / d : ℕ) : ℤ) := by
  unfold intDivFF
  have hc : (((-(m : ℤ) : ℤ)) : ℚ) = -(m : ℚ) := by push_cast; rfl
  have h0 : (0 : ℚ) ≤ (m : ℚ) := by positivity
  have hq : (0 : ℚ) ≤ (m : ℚ) / (d : ℚ) := by positivity
  rw [hc, rneI_neg _ h0, rne_exact m hm, neg_div, rneI_neg _ hq, truncI_nonpos _ (by linarith [rne_nonneg _ hq]),
    neg_neg, floorNat_rne_div m d hm hd]

/-! ### nanotime.timedelta and the seconds since the epoch -/

theorem tdCarry_nonneg (us : Int) (ns : Nat) (h : ns < 2 ^ 53) :
    tdCarry us ns = (us + ((ns / 1000 : ℕ) : ℤ), ns % 1000) := by
  unfold tdCarry
  have h1 : ¬ ((ns : ℤ) < 0) := by omega
  have h2 : ((ns : ℤ) % 1000).toNat = ns % 1000 := by omega
  simp only [h1, if_false, intDivFF_nat ns 1000 h (by norm_num), h2]

/-- the `timedelta` built from `N` microseconds (N ≥ 0, small enough) reports `N / 10^6` whole seconds -/
theorem sinceEpoch_seconds (T us ns : Nat) (hus : us < 1000000) (hns : ns < 1000) (hb : T * 1000000 + us < 9007199254740992) :
    (tdMake 0 (T : ℤ) (us : ℤ) (ns : ℤ)).map (fun d => truncI d.totalSeconds) = .ok (T : ℤ) := by
  unfold tdMake
  rw [tdCarry_nonneg _ ns (by omega)]
  have hz : ns / 1000 = 0 := by omega
  simp only [hz]
  unfold tdOfMicros
  have hN : ((0 : ℤ) * 86400 + (T : ℤ)) * 1000000 + ((us : ℤ) + ((0 : ℕ) : ℤ)) = ((T * 1000000 + us : ℕ) : ℤ) := by
    push_cast; ring
  rw [hN]
  set N := T * 1000000 + us with hNdef
  have hdays : ((N : ℤ) / 86400000000) = ((N / 86400000000 : ℕ) : ℤ) := by omega
  have hrest : ((N : ℤ) % 86400000000).toNat = N % 86400000000 := by omega
  simp only [hdays, hrest]
  have hr : ¬ ((((N / 86400000000 : ℕ) : ℤ)) < -999999999 ∨ 999999999 < (((N / 86400000000 : ℕ) : ℤ))) := by
    omega
  rw [if_neg hr]
  simp only [Except.map, TD.totalSeconds]
  have hrec : (((N / 86400000000 : ℕ) : ℤ) * 86400 + ((N % 86400000000 / 1000000 : ℕ) : ℤ)) * 1000000 +
      ((N % 86400000000 % 1000000 : ℕ) : ℤ) = (N : ℤ) := by omega
  rw [hrec]
  have hq : (0 : ℚ) ≤ (N : ℚ) / 1000000 := div_nonneg (Nat.cast_nonneg N) (by norm_num)
  have hc : (((N : ℤ) : ℚ)) = (N : ℚ) := by push_cast; rfl
  rw [hc, rneI_nonneg _ hq, truncI_nonneg _ (rne_nonneg _ hq)]
  have h53 : N < 2 ^ 53 := by rw [show (2 : ℕ) ^ 53 = 9007199254740992 by norm_num]; exact hb
  have := floorNat_rne_div N 1000000 h53 (by norm_num)
  have h6 : ((1000000 : ℕ) : ℚ) = (1000000 : ℚ) := by norm_num
  rw [h6] at this
  rw [this]
  congr 1
  have : N / 1000000 = T := by omega
  exact_mod_cast this

theorem tdCarry_neg (us : Int) (m : Nat) (hm0 : 0 < m) (h : m < 2 ^ 53) :
    tdCarry us (-(m : ℤ)) = (us - 1 - ((m / 1000 : ℕ) : ℤ), (1000 - m % 1000) % 1000) := by
  unfold tdCarry
  have h1 : (-(m : ℤ)) < 0 := by omega
  have h2 : ((-(m : ℤ)) % 1000).toNat = (1000 - m % 1000) % 1000 := by omega
  simp only [h1, if_true, intDivFF_neg m 1000 h (by norm_num), h2]
  rw [Int.sub_eq_add_neg (a := us - 1)]

/-! ### deciding concrete results (`R α` has no `DecidableEq` instance) -/

def okIs [DecidableEq α] (r : R α) (v : α) : Bool :=
  match r with
  | .ok x => decide (x = v)
  | .error _ => false

def errIs (r : R α) (e : Err) : Bool :=
  match r with
  | .ok _ => false
  | .error x => decide (x = e)

theorem okIs_iff [DecidableEq α] (r : R α) (v : α) : okIs r v = true ↔ r = .ok v := by
  cases r <;> simp [okIs]

theorem errIs_iff (r : R α) (e : Err) : errIs r e = true ↔ r = .error e := by
  cases r <;> simp [errIs]

/-! ### timefromptp on words whose time lies in 1970 … 2099 -/
section
open Acra.Model.Ch11Pay.TimeFmt Acra.Lemmas.Ch11TimeFmt Acra.Lemmas.Ch11Calendar

def dateOfSeconds (n : Nat) : Date :=
  ((civilFromDays (n / 86400 + EPOCH)).1, (civilFromDays (n / 86400 + EPOCH)).2.1,
    (civilFromDays (n / 86400 + EPOCH)).2.2, n % 86400 / 3600, n % 86400 / 60 % 60, n % 86400 % 60)

theorem in_range (n : Nat) (h : n < 4102444800) : n < 86400 * DAYS := by unfold DAYS; omega

theorem fromTimestamp_date (n : Nat) (h : n < 4102444800) : fromTimestamp (n : Int) = .ok (dateOfSeconds n) := by
  rw [fromTimestamp_eq n (in_range n h)]
  rfl

theorem intDivF_1000 (x : Nat) (hx : x < 1000000000) : (intDivF (x : Int) 1000).toNat = x / 1000 := by
  have hx53 : x < 2 ^ 53 := by rw [show (2 : Nat) ^ 53 = 9007199254740992 by norm_num]; omega
  rw [intDivF_nat x 1000 hx53 (by norm_num)]
  exact Int.toNat_natCast _

theorem timefromptpParts_eq (T x L : Nat) (hT : T < 4102444800) (hL : L ≤ T) (hx : x < 1000000000) :
    timefromptpParts T x (L : Int) = .ok (ptOfDate (dateOfSeconds (T - L)) (x / 1000) (x % 1000) (.int L)) := by
  have hn : T - L < 4102444800 := by omega
  have hsub : ((T : Int) - (L : Int)) = ((T - L : Nat) : Int) := by omega
  have hle : ¬ ((L : Int) ≤ -1) := by omega
  have hu2 : ¬ (1000000 ≤ x / 1000) := by omega
  unfold timefromptpParts
  rw [fromTimestamp_date T hT]
  unfold tfpOffset
  dsimp only
  rw [if_neg hle, hsub, fromTimestamp_date (T - L) hn]
  unfold tfpFinish
  dsimp only
  rw [intDivF_1000 x hx, if_neg hu2]

theorem word_hi (T x : Nat) (hx : x < 1000000000) : (T * 4294967296 + x) >>> 32 = T := by
  rw [Nat.shiftRight_eq_div_pow, show (2 : Nat) ^ 32 = 4294967296 by norm_num]; omega

theorem word_lo (T x : Nat) (hx : x < 1000000000) : (T * 4294967296 + x) &&& 0xffffffff = x := by
  have hm := Nat.and_two_pow_sub_one_eq_mod (T * 4294967296 + x) 32
  rw [show (2 : Nat) ^ 32 - 1 = 0xffffffff by norm_num, show (2 : Nat) ^ 32 = 4294967296 by norm_num] at hm
  rw [hm]; omega

/-- the seconds since the epoch of the date `fromTimestamp n` returns are `n` again -/
theorem ptOfDate_epoch (n us ns : Nat) (l : Leap) (h : n < 4102444800) :
    (ptOfDate (dateOfSeconds n) us ns l).epochSeconds = (n : Int) := by
  have hf := (day_facts n (in_range n h)).1
  have h1 := (day_facts n (in_range n h)).2.2.2.2.2.2.2.1
  simp only [ptOfDate, dateOfSeconds, PT.epochSeconds, toTimestamp, hf]
  clear hf
  generalize daysFromCivil (civilFromDays (n / 86400 + EPOCH)).1 1 1 = z at h1
  unfold EPOCH at *
  omega

end

end Acra.Lemmas.ExtraTime
