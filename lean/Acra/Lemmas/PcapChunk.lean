/-
  `Pcap.next` reads a record's data in bounded pieces (fix 0e0a76e).  The loop `Model.Pcap.readLoop`
  (`while _todo > 0: _chunk = read(min(_todo, CHUNK)); if not _chunk: break; …`) with a positive piece size:
  * never runs out of the fuel `bytes left + 1` (every iteration but the last consumes ≥ 1 byte of the file);
  * returns exactly what one `read(_todo)` would: the next `min _todo (bytes left)` bytes, file position after them;
  * never asks `read()` for more than the piece size, nor for more than is still wanted, nor for 0 bytes;
  * makes at most `min _todo (bytes left) / CHUNK + 2` calls of `read()`.
  Hence `nextRecChunked = nextRec` (the one-`take` model used everywhere else).
-/
import Acra.Model.Pcap
namespace Acra.Lemmas.Pcap
open Acra.Py Acra.Model.Pcap Acra.Gen.Pcap

/-- bound on the number of `read()` calls for `m` bytes actually delivered -/
def readCalls (chunk m : Nat) : Nat := if m = 0 then 1 else m / chunk + 2

theorem readLoop_spec (chunk : Nat) (hc : 0 < chunk) :
    ∀ (fuel : Nat) (rest : Bytes) (todo : Nat) (acc : Bytes) (asks : List Nat), rest.length + 1 ≤ fuel →
      ∃ asks', readLoop chunk fuel rest todo acc asks = .ok (acc ++ rest.take todo, rest.drop todo, asks ++ asks') ∧
        (∀ a ∈ asks', 0 < a ∧ a ≤ chunk ∧ a ≤ todo) ∧
        asks'.length ≤ readCalls chunk (min todo rest.length) ∧ (todo = 0 → asks' = []) := by
  intro fuel
  induction fuel with
  | zero => intro rest todo acc asks h; omega
  | succ fuel ih =>
    intro rest todo acc asks hf
    unfold readLoop
    by_cases ht : todo > 0
    · rw [if_pos ht]
      simp only
      have hask : 0 < min todo chunk := by omega
      by_cases hr : rest = []
      · subst hr
        refine ⟨[min todo chunk], by simp, ?_, by simp [readCalls], by omega⟩
        intro a ha
        simp only [List.mem_singleton] at ha; subst ha
        omega
      · have hlen : 0 < rest.length := List.length_pos_iff.2 hr
        have hcl : (rest.take (min todo chunk)).length = min (min todo chunk) rest.length := List.length_take
        have hne : (rest.take (min todo chunk)).isEmpty = false := by
          cases h : rest.take (min todo chunk) with
          | nil => rw [h] at hcl; simp at hcl; omega
          | cons _ _ => rfl
        rw [hne]
        simp only [Bool.false_eq_true, if_false]
        generalize hcldef : (rest.take (min todo chunk)).length = cl at hcl
        have hcl1 : 1 ≤ cl := by omega
        have hcl2 : cl ≤ todo := by omega
        obtain ⟨asks', h, hall, hcnt, hz⟩ := ih (rest.drop cl) (todo - cl) (acc ++ rest.take (min todo chunk))
          (asks ++ [min todo chunk]) (by rw [List.length_drop]; omega)
        refine ⟨min todo chunk :: asks', ?_, ?_, ?_, by omega⟩
        · rw [h]
          have e1 : rest.take (min todo chunk) = rest.take cl := by
            rw [hcl]
            rw [List.take_eq_take_min (i := min todo chunk)]
          have e2 : rest.take cl ++ (rest.drop cl).take (todo - cl) = rest.take todo := by
            rw [← List.take_add]; congr 1; omega
          have e3 : (rest.drop cl).drop (todo - cl) = rest.drop todo := by
            rw [List.drop_drop]; congr 1; omega
          rw [e1, List.append_assoc, e2, e3, List.append_assoc]
          rfl
        · intro a ha
          simp only [List.mem_cons] at ha
          rcases ha with rfl | ha
          · omega
          · have := hall a ha; omega
        · simp only [List.length_cons]
          simp only [List.length_drop] at hcnt
          -- m = bytes delivered from here on; this iteration delivers cl = min chunk m of them
          have hm' : min (todo - cl) (rest.length - cl) = min todo rest.length - cl := by omega
          rw [hm'] at hcnt
          have hcl3 : cl = min chunk (min todo rest.length) := by omega
          by_cases hfull : chunk ≤ min todo rest.length
          · have hclc : cl = chunk := by omega
            have hdiv : min todo rest.length / chunk = (min todo rest.length - chunk) / chunk + 1 := by
              rw [Nat.div_eq (min todo rest.length) chunk, if_pos ⟨hc, hfull⟩]
            unfold readCalls at hcnt ⊢
            rw [hclc] at hcnt
            have hpos : min todo rest.length ≠ 0 := by omega
            rw [if_neg hpos, hdiv]
            generalize (min todo rest.length - chunk) / chunk = q at hcnt ⊢
            split at hcnt <;> omega
          · have hm0 : min todo rest.length - cl = 0 := by omega
            unfold readCalls at hcnt ⊢
            rw [hm0] at hcnt
            simp only [if_true] at hcnt
            have hpos : min todo rest.length ≠ 0 := by omega
            rw [if_neg hpos]
            generalize min todo rest.length / chunk = q
            omega
    · rw [if_neg ht]
      have : todo = 0 := by omega
      subst this
      exact ⟨[], by simp, by simp, by simp, fun _ => rfl⟩

/-- `Pcap.next` with the read loop spelled out is `nextRec` -/
theorem nextRecChunked_spec (rest : Bytes) :
    ∃ asks, nextRecChunked rest = .ok (nextRec rest, asks) ∧ (∀ a ∈ asks, 0 < a ∧ a ≤ READ_CHUNK) ∧
      asks.length ≤ (rest.length - 16) / READ_CHUNK + 2 := by
  unfold nextRecChunked nextRec
  simp only
  cases hu : Rec.unpack Rec.fresh (List.take RECORD_HEADER_SIZE rest) with
  | mk r res =>
    cases res with
    | error e => exact ⟨[], rfl, by simp, by simp⟩
    | ok u =>
      simp only
      have hlen : (List.take RECORD_HEADER_SIZE rest).length = 16 := by
        unfold Rec.unpack at hu
        split at hu
        · simp at hu
        · rename_i h; simp only [ne_eq, Decidable.not_not] at h; rw [← h]; rfl
      obtain ⟨asks, h, hall, hcnt, _⟩ := readLoop_spec READ_CHUNK (by decide)
        ((rest.drop (List.take RECORD_HEADER_SIZE rest).length).length + 1)
        (rest.drop (List.take RECORD_HEADER_SIZE rest).length) r.incl_len [] [] (Nat.le_refl _)
      rw [h]
      simp only [List.nil_append]
      refine ⟨asks, rfl, fun a ha => ⟨(hall a ha).1, (hall a ha).2.1⟩, ?_⟩
      refine Nat.le_trans hcnt ?_
      rw [hlen, List.length_drop]
      unfold readCalls
      split
      · generalize (rest.length - 16) / READ_CHUNK = q2
        omega
      · have : min r.incl_len (rest.length - 16) / READ_CHUNK ≤ (rest.length - 16) / READ_CHUNK :=
          Nat.div_le_div_right (Nat.min_le_right _ _)
        generalize min r.incl_len (rest.length - 16) / READ_CHUNK = q1 at this ⊢
        generalize (rest.length - 16) / READ_CHUNK = q2 at this ⊢
        omega

end Acra.Lemmas.Pcap
