/-
  Helper lemmas for the `net` family (SimpleEthernet): bit-operation identities, pack48/unpack48,
  closed forms of the decoders on buffers that are long enough, and the bytes the encoders emit under
  the well-formedness predicates.  Property theorems are in Acra/Props.
-/
import Acra.Model.Net
namespace Acra.Lemmas.Net
open Acra.Py Acra.Model.Net Acra.Gen.Net

/-! ### bit operations as arithmetic -/

theorem and_mask32 (x : Nat) : x &&& 0xFFFFFFFF = x % 4294967296 := by
  simpa using Nat.and_two_pow_sub_one_eq_mod x 32
theorem and_mask16 (x : Nat) : x &&& 0xFFFF = x % 65536 := by
  simpa using Nat.and_two_pow_sub_one_eq_mod x 16
theorem and_mask8 (x : Nat) : x &&& 0xFF = x % 256 := by
  simpa using Nat.and_two_pow_sub_one_eq_mod x 8
theorem and_mask5 (x : Nat) : x &&& 0x1F = x % 32 := by
  simpa using Nat.and_two_pow_sub_one_eq_mod x 5
theorem and_mask4 (x : Nat) : x &&& 0xF = x % 16 := by
  simpa using Nat.and_two_pow_sub_one_eq_mod x 4
theorem and_mask3 (x : Nat) : x &&& 0x7 = x % 8 := by
  simpa using Nat.and_two_pow_sub_one_eq_mod x 3
theorem shr32 (x : Nat) : x >>> 32 = x / 4294967296 := by simp [Nat.shiftRight_eq_div_pow]
theorem shr16 (x : Nat) : x >>> 16 = x / 65536 := by simp [Nat.shiftRight_eq_div_pow]
theorem shr8 (x : Nat) : x >>> 8 = x / 256 := by simp [Nat.shiftRight_eq_div_pow]
theorem shr5 (x : Nat) : x >>> 5 = x / 32 := by simp [Nat.shiftRight_eq_div_pow]
theorem shr4 (x : Nat) : x >>> 4 = x / 16 := by simp [Nat.shiftRight_eq_div_pow]
theorem shl32 (x : Nat) : x <<< 32 = x * 4294967296 := by simp [Nat.shiftLeft_eq]
theorem shl8 (x : Nat) : x <<< 8 = x * 256 := by simp [Nat.shiftLeft_eq]
theorem shl5 (x : Nat) : x <<< 5 = x * 32 := by simp [Nat.shiftLeft_eq]

/-- `lo | (hi << 32)` is `hi * 2^32 + lo` when `lo` fits 32 bits -/
theorem or_shl32 (hi lo : Nat) (h : lo < 4294967296) : lo ||| (hi <<< 32) = hi * 4294967296 + lo := by
  rw [Nat.or_comm, ← Nat.shiftLeft_add_eq_or_of_lt (i := 32) (by simpa using h), shl32]

/-- `(a << 5) | b` is `a * 32 + b` when `b` fits 5 bits -/
theorem shl5_or (a b : Nat) (h : b < 32) : (a <<< 5) ||| b = a * 32 + b := by
  rw [← Nat.shiftLeft_add_eq_or_of_lt (i := 5) (by simpa using h), shl5]

/-! ### pack48 / unpack48 -/

theorem beBytes6_split (x : Nat) :
    beBytes 6 x = encInt true 2 (x / 4294967296) ++ encInt true 4 (x % 4294967296) := by
  simpa [encInt] using beBytes_add 2 4 x

theorem pack48_eq (x : Nat) (h : x < 2 ^ 48) : pack48 x = .ok (beBytes 6 x) := by
  have hf : Fits pack48_fmt0.codes [x >>> 32, x &&& 0xFFFFFFFF] := by
    simp only [shr32, and_mask32]
    simp [Fits, pack48_fmt0, Code.bound]; omega
  simp only [pack48, structPack_eq _ _ hf]
  simp [pack48_fmt0, encCodes, Code.size, shr32, and_mask32, beBytes6_split]

theorem pack48_error (x : Nat) (h : 2 ^ 48 ≤ x) : pack48 x = .error .struct := by
  have : ¬ (x / 4294967296 < 65536) := by omega
  simp [pack48, structPack, pack48_fmt0, packCodes, Code.bound, shr32, this]

/-- `unpack48` of exactly six bytes is their big-endian value -/
theorem unpack48_eq (b : Bytes) (h : b.length = 6) : unpack48 b = .ok (beNat b) := by
  have hb := beBytes_beNat b
  rw [h, beBytes6_split] at hb
  have h4 : decInt true (List.take 4 (List.drop 2 b)) < 4294967296 := by
    have := decInt_lt true (List.take 4 (List.drop 2 b))
    simp at this
    have e : min 4 (b.length - 2) = 4 := by omega
    rw [e] at this; simpa using this
  simp only [unpack48, structUnpack, unpack48_fmt0, Fmt.size, codesSize, Code.size, h, if_true, unpackCodes]
  rw [or_shl32 _ _ h4]
  -- b = enc2 (hi) ++ enc4 (lo)
  have e1 : List.take 2 b = encInt true 2 (beNat b / 4294967296) := by
    have := congrArg (List.take 2) hb; simpa using this.symm
  have e2 : List.take 4 (List.drop 2 b) = encInt true 4 (beNat b % 4294967296) := by
    have := congrArg (fun l => List.take 4 (List.drop 2 l)) hb; simpa using this.symm
  have hlt : beNat b < 256 ^ 6 := by have := beNat_lt b; rwa [h] at this
  rw [e1, e2, decInt_encInt2 _ _ (by omega), decInt_encInt4 _ _ (by omega)]
  congr 1
  omega

theorem unpack48_error (b : Bytes) (h : b.length ≠ 6) : unpack48 b = .error .struct := by
  simp [unpack48, structUnpack, unpack48_fmt0, Fmt.size, codesSize, Code.size, h]

theorem unpack48_beBytes (x : Nat) (h : x < 2 ^ 48) : unpack48 (beBytes 6 x) = .ok x := by
  rw [unpack48_eq _ (by simp), beNat_beBytes_of_lt 6 x (by simpa using h)]

/-! ### Ethernet: closed form of the decoder on buffers holding the 14-byte header -/

/-- the big-endian field `buf[lo:hi]` -/
def fld (buf : Bytes) (lo hi : Nat) : Nat := beNat (slice buf lo hi)

theorem take2_drop (buf : Bytes) (n : Nat) : List.take 2 (List.drop n buf) = slice buf n (n + 2) := by
  simp [slice, List.take_drop]
theorem take4_drop (buf : Bytes) (n : Nat) : List.take 4 (List.drop n buf) = slice buf n (n + 4) := by
  simp [slice, List.take_drop]
theorem take1_drop (buf : Bytes) (n : Nat) : List.take 1 (List.drop n buf) = slice buf n (n + 1) := by
  simp [slice, List.take_drop]

/-- reading a slice past a prefix (a conditional simp lemma: lengths of encoded fields are literals) -/
theorem slice_skip (a b : List α) (lo hi : Nat) (h : a.length ≤ lo) :
    slice (a ++ b) lo hi = slice b (lo - a.length) (hi - a.length) := by
  simp only [slice, List.take_append, List.drop_append]
  rw [List.drop_eq_nil_of_le (by simp; omega)]
  by_cases hh : a.length ≤ hi
  · simp [Nat.min_eq_right hh]
  · have : hi - a.length = 0 := by omega
    simp [this]

theorem slice_prefix (a b : List α) (n : Nat) (h : n = a.length) : slice (a ++ b) 0 n = a := by
  subst h; simp [slice]

theorem slice_all (a : List α) (n : Nat) (h : a.length ≤ n) : slice a 0 n = a := by
  simp [slice, List.take_of_length_le h]

theorem drop_skip (a b : List α) (n : Nat) (h : a.length ≤ n) : List.drop n (a ++ b) = List.drop (n - a.length) b := by
  rw [List.drop_append, List.drop_eq_nil_of_le h]; simp

/-- what `Ethernet.unpack` does after the header: payload and the optional FCS check -/
def ethFinish (s : Eth) (buf : Bytes) (hdrLen : Nat) (fcs : Bool) : Eth × R Unit :=
  if fcs then
    if crc32 (buf.take (buf.length - 4)) ≠ leNat (buf.drop (buf.length - 4)) then
      ({ s with payload := slice buf hdrLen (buf.length - 4) }, .error .generic)
    else ({ s with payload := slice buf hdrLen (buf.length - 4) }, .ok ())
  else ({ s with payload := buf.drop hdrLen }, .ok ())

theorem Eth_unpack_eq (t : Eth) (buf : Bytes) (fcs : Bool) (h : 14 ≤ buf.length) :
    Eth.unpack t buf fcs =
      if fld buf 12 14 = ETH_TYPE_VLAN then
        if 18 ≤ buf.length then
          ethFinish { t with dstmac := fld buf 0 6, srcmac := fld buf 6 12, vlan := true,
                             vlantag := fld buf 14 16, type := fld buf 16 18 } buf 18 fcs
        else ({ t with dstmac := fld buf 0 6, srcmac := fld buf 6 12, vlan := true }, .error .struct)
      else
        ethFinish { t with dstmac := fld buf 0 6, srcmac := fld buf 6 12, vlan := false, vlantag := 0xFFFF,
                           type := fld buf 12 14 } buf 14 fcs := by
  have h0 : unpack48 (List.take 6 buf) = .ok (beNat (slice buf 0 6)) := by
    rw [unpack48_eq _ (by simp; omega)]; simp [slice]
  have h1 : unpack48 (slice buf 6 12) = .ok (beNat (slice buf 6 12)) := unpack48_eq _ (by simp; omega)
  have hty : structUnpackFrom Eth_unpack_fmt0 buf 12 = .ok [fld buf 12 14] := by
    have : 12 + 2 ≤ buf.length := by omega
    simp [structUnpackFrom, Eth_unpack_fmt0, Fmt.size, codesSize, Code.size, unpackCodes, decInt, this, take2_drop, fld]
  have hfcs : structUnpack Eth_unpack_fmt2 (buf.drop (buf.length - 4)) = .ok [leNat (buf.drop (buf.length - 4))] := by
    have hl : (List.drop (buf.length - 4) buf).length = 4 := by simp; omega
    simp only [structUnpack, Eth_unpack_fmt2, Fmt.size, codesSize, Code.size, hl, if_true, unpackCodes, decInt]
    rw [List.take_of_length_le (by omega)]
    simp
  simp only [Eth.unpack, h0, h1, hty, fld]
  by_cases hv : beNat (slice buf 12 14) = ETH_TYPE_VLAN
  · simp only [hv, if_true]
    by_cases h18 : 18 ≤ buf.length
    · have htag : structUnpackFrom Eth_unpack_fmt1 buf 14 = .ok [beNat (slice buf 14 16), beNat (slice buf 16 18)] := by
        have : 14 + (2 + (2 + 0)) ≤ buf.length := by omega
        simp [structUnpackFrom, Eth_unpack_fmt1, Fmt.size, codesSize, Code.size, unpackCodes, decInt, this,
          take2_drop, List.drop_drop]
      simp only [htag, h18, if_true, ETH_HEADERLEN_VLAN, ethFinish, hfcs]
    · have htag : structUnpackFrom Eth_unpack_fmt1 buf 14 = .error .struct := by
        have : ¬ (14 + (2 + (2 + 0)) ≤ buf.length) := by omega
        simp [structUnpackFrom, Eth_unpack_fmt1, Fmt.size, codesSize, Code.size, this]
      simp [htag, h18]
  · simp only [hv, if_false, ETH_HEADERLEN, ethFinish, hfcs]

/-! ### Ethernet: the bytes `pack` emits, and what `unpack` makes of them -/

/-- every field fits the width the frame format allots; an untagged frame cannot carry ethertype
    0x8100 (the decoder would read a tag) -/
def Eth_WF (s : Eth) : Prop :=
  s.dstmac < 2 ^ 48 ∧ s.srcmac < 2 ^ 48 ∧ s.type < 2 ^ 16 ∧ (s.vlan = true → s.vlantag < 2 ^ 16) ∧
  (s.vlan = false → s.type ≠ ETH_TYPE_VLAN)

/-- the optional 802.1Q part and the ethertype -/
def ethTypePart (s : Eth) : Bytes :=
  if s.vlan then encInt true 2 ETH_TYPE_VLAN ++ (encInt true 2 s.vlantag ++ encInt true 2 s.type)
  else encInt true 2 s.type

def ethHdr (s : Eth) : Bytes := beBytes 6 s.dstmac ++ (beBytes 6 s.srcmac ++ ethTypePart s)

def ethFcs (s : Eth) (fcs : Bool) : Bytes :=
  if fcs then leBytes 4 (Spec.crc32 (ethHdr s ++ s.payload)) else []

/-- the frame `Ethernet.pack(fcs)` emits for a well-formed object -/
def ethFrame (s : Eth) (fcs : Bool) : Bytes := ethHdr s ++ (s.payload ++ ethFcs s fcs)

theorem ethTypePart_length (s : Eth) : (ethTypePart s).length = if s.vlan then 6 else 2 := by
  unfold ethTypePart; split <;> simp

theorem ethHdr_length (s : Eth) : (ethHdr s).length = if s.vlan then 18 else 14 := by
  simp only [ethHdr, List.length_append, beBytes_length, ethTypePart_length]; split <;> rfl

theorem crc32_lt (bs : Bytes) : crc32 bs < 4294967296 := by
  unfold crc32; rw [and_mask32]; omega

theorem leBytes4_crc32 (bs : Bytes) : leBytes 4 (crc32 bs) = leBytes 4 (Spec.crc32 bs) := by
  unfold crc32; rw [and_mask32]
  simpa using leBytes_mod 4 (Spec.crc32 bs)

theorem Eth_pack_eq (s : Eth) (fcs : Bool) (h : Eth_WF s) : Eth.pack s fcs = (s, .ok (ethFrame s fcs)) := by
  obtain ⟨h1, h2, h3, h4, _⟩ := h
  have hc : Fits Eth_pack_fmt2.codes [crc32 (ethHdr s ++ s.payload)] := by
    have := crc32_lt (ethHdr s ++ s.payload)
    simp [Fits, Eth_pack_fmt2, Code.bound, this]
  have hcb : encCodes Eth_pack_fmt2.big Eth_pack_fmt2.codes [crc32 (ethHdr s ++ s.payload)] =
      leBytes 4 (Spec.crc32 (ethHdr s ++ s.payload)) := by
    simp [Eth_pack_fmt2, encCodes, Code.size, encInt, leBytes4_crc32]
  cases hv : s.vlan
  · have hf : Fits Eth_pack_fmt1.codes [s.dstmac >>> 32, s.dstmac &&& 0xFFFFFFFF, s.srcmac >>> 32,
        s.srcmac &&& 0xFFFFFFFF, s.type] := by
      simp only [shr32, and_mask32]
      simp [Fits, Eth_pack_fmt1, Code.bound]; omega
    have hh : encCodes Eth_pack_fmt1.big Eth_pack_fmt1.codes [s.dstmac >>> 32, s.dstmac &&& 0xFFFFFFFF, s.srcmac >>> 32,
        s.srcmac &&& 0xFFFFFFFF, s.type] = ethHdr s := by
      simp [Eth_pack_fmt1, encCodes, Code.size, shr32, and_mask32, ethHdr, ethTypePart, hv, beBytes6_split]
    simp only [Eth.pack, hv, structPack_eq _ _ hf, hh, Bool.false_eq_true, if_false]
    cases fcs
    · simp [ethFrame, ethFcs]
    · simp only [if_true, structPack_eq _ _ hc, hcb]
      simp [ethFrame, ethFcs]
  · have h4' := h4 hv
    have hf : Fits Eth_pack_fmt0.codes [s.dstmac >>> 32, s.dstmac &&& 0xFFFFFFFF, s.srcmac >>> 32,
        s.srcmac &&& 0xFFFFFFFF, ETH_TYPE_VLAN, s.vlantag, s.type] := by
      simp only [shr32, and_mask32]
      simp [Fits, Eth_pack_fmt0, Code.bound, ETH_TYPE_VLAN]; omega
    have hh : encCodes Eth_pack_fmt0.big Eth_pack_fmt0.codes [s.dstmac >>> 32, s.dstmac &&& 0xFFFFFFFF, s.srcmac >>> 32,
        s.srcmac &&& 0xFFFFFFFF, ETH_TYPE_VLAN, s.vlantag, s.type] = ethHdr s := by
      simp [Eth_pack_fmt0, encCodes, Code.size, shr32, and_mask32, ethHdr, ethTypePart, hv, beBytes6_split]
    simp only [Eth.pack, hv, structPack_eq _ _ hf, hh, if_true]
    cases fcs
    · simp [ethFrame, ethFcs]
    · simp only [if_true, structPack_eq _ _ hc, hcb]
      simp [ethFrame, ethFcs]

theorem ethFcs_length (s : Eth) (fcs : Bool) : (ethFcs s fcs).length = if fcs then 4 else 0 := by
  unfold ethFcs; split <;> simp

theorem ethFrame_length (s : Eth) (fcs : Bool) :
    (ethFrame s fcs).length = (if s.vlan then 18 else 14) + s.payload.length + (if fcs then 4 else 0) := by
  simp only [ethFrame, List.length_append, ethHdr_length, ethFcs_length]; omega

/-- what a decoded frame holds: an untagged frame decodes with the tag sentinel 0xFFFF -/
def ethDecoded (s : Eth) : Eth := { s with vlantag := if s.vlan then s.vlantag else 0xFFFF }

theorem Eth_unpack_frame (s t : Eth) (fcs : Bool) (h : Eth_WF s) :
    Eth.unpack t (ethFrame s fcs) fcs = (ethDecoded s, .ok ()) := by
  obtain ⟨h1, h2, h3, h4, h5⟩ := h
  have hlen := ethFrame_length s fcs
  rw [Eth_unpack_eq _ _ _ (by rw [hlen]; split <;> omega)]
  have hd : fld (ethFrame s fcs) 0 6 = s.dstmac := by
    simp [fld, ethFrame, ethHdr, slice_prefix, beNat_beBytes_of_lt 6 _ (show s.dstmac < 256 ^ 6 by omega)]
  have hs : fld (ethFrame s fcs) 6 12 = s.srcmac := by
    simp [fld, ethFrame, ethHdr, slice_skip, slice_prefix, beNat_beBytes_of_lt 6 _ (show s.srcmac < 256 ^ 6 by omega)]
  have hcrc : ∀ (b : Bytes), leNat (leBytes 4 (Spec.crc32 b)) = crc32 b := by
    intro b; rw [leNat_leBytes, crc32, and_mask32]
  have e1 : List.take ((ethFrame s true).length - 4) (ethFrame s true) = ethHdr s ++ s.payload := by
    simp only [ethFrame, ← List.append_assoc]
    apply take_append_len; simp [ethFcs]; omega
  have e2 : List.drop ((ethFrame s true).length - 4) (ethFrame s true) =
      leBytes 4 (Spec.crc32 (ethHdr s ++ s.payload)) := by
    simp only [ethFrame, ← List.append_assoc]
    rw [drop_append_len _ _ _ (by simp [ethFcs]; omega)]; simp [ethFcs]
  have e3 : slice (ethFrame s true) (ethHdr s).length ((ethFrame s true).length - 4) = s.payload := by
    simp only [ethFrame]
    apply slice_mid
    · rfl
    · simp [ethFcs]; omega
  have e4 : List.drop (ethHdr s).length (ethFrame s false) = s.payload := by
    simp [ethFrame, ethFcs]
  cases hv : s.vlan
  · have h5' := h5 hv
    have hl : (ethHdr s).length = 14 := by simp [ethHdr_length, hv]
    rw [hl] at e3 e4
    have hty : fld (ethFrame s fcs) 12 14 = s.type := by
      simp [fld, ethFrame, ethHdr, ethTypePart, hv, slice_skip, slice_prefix, encInt,
        beNat_beBytes_of_lt 2 _ (show s.type < 256 ^ 2 by omega)]
    simp only [hd, hs, hty, h5', if_false, ethFinish, ethDecoded, hv, Bool.false_eq_true]
    cases fcs
    · simp [e4]
    · simp only [if_true, e1, e2, e3, hcrc, ne_eq, not_true_eq_false, if_false]
  · have h4' := h4 hv
    have hl : (ethHdr s).length = 18 := by simp [ethHdr_length, hv]
    rw [hl] at e3 e4
    have hty : fld (ethFrame s fcs) 12 14 = ETH_TYPE_VLAN := by
      simp [fld, ethFrame, ethHdr, ethTypePart, hv, slice_skip, slice_prefix, encInt, ETH_TYPE_VLAN,
        beNat_beBytes_of_lt 2 33024 (by omega)]
    have htag : fld (ethFrame s fcs) 14 16 = s.vlantag := by
      simp [fld, ethFrame, ethHdr, ethTypePart, hv, slice_skip, slice_prefix, encInt,
        beNat_beBytes_of_lt 2 _ (show s.vlantag < 256 ^ 2 by omega)]
    have hty2 : fld (ethFrame s fcs) 16 18 = s.type := by
      simp [fld, ethFrame, ethHdr, ethTypePart, hv, slice_skip, slice_prefix, encInt,
        beNat_beBytes_of_lt 2 _ (show s.type < 256 ^ 2 by omega)]
    have h18 : 18 ≤ (ethFrame s fcs).length := by rw [hlen, hv]; simp; omega
    simp only [hd, hs, hty, htag, hty2, h18, if_true, ethFinish, ethDecoded, hv]
    cases fcs
    · simp [e4]
    · simp only [if_true, e1, e2, e3, hcrc, ne_eq, not_true_eq_false, if_false]

end Acra.Lemmas.Net
