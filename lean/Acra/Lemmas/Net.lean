/-
  Helper lemmas for the `net` family (SimpleEthernet): bit-operation identities, pack48/unpack48,
  closed forms of the decoders on buffers that are long enough, and the bytes the encoders emit under
  the well-formedness predicates.  Property theorems are in Acra/Props.
-/
import Acra.Model.Net
import Acra.Lemmas.Sum16
namespace Acra.Lemmas.Net
open Acra.Py Acra.Model.Net Acra.Gen.Net

/-! ### bit operations as arithmetic -/

theorem and_mask32 (x : Nat) : x &&& 0xFFFFFFFF = x % 4294967296 := by
  simpa using Nat.and_two_pow_sub_one_eq_mod x 32
theorem and_mask16 (x : Nat) : x &&& 0xFFFF = x % 65536 := by
  simpa using Nat.and_two_pow_sub_one_eq_mod x 16
theorem and_mask8 (x : Nat) : x &&& 0xFF = x % 256 := by
  simpa using Nat.and_two_pow_sub_one_eq_mod x 8
theorem and_mask5 (x : Nat) : x &&& 0x1F = x % 32 := by
  simpa using Nat.and_two_pow_sub_one_eq_mod x 5
theorem and_mask4 (x : Nat) : x &&& 0xF = x % 16 := by
  simpa using Nat.and_two_pow_sub_one_eq_mod x 4
theorem and_mask3 (x : Nat) : x &&& 0x7 = x % 8 := by
  simpa using Nat.and_two_pow_sub_one_eq_mod x 3
theorem shr32 (x : Nat) : x >>> 32 = x / 4294967296 := by simp [Nat.shiftRight_eq_div_pow]
theorem shr16 (x : Nat) : x >>> 16 = x / 65536 := by simp [Nat.shiftRight_eq_div_pow]
theorem shr8 (x : Nat) : x >>> 8 = x / 256 := by simp [Nat.shiftRight_eq_div_pow]
theorem shr5 (x : Nat) : x >>> 5 = x / 32 := by simp [Nat.shiftRight_eq_div_pow]
theorem shr4 (x : Nat) : x >>> 4 = x / 16 := by simp [Nat.shiftRight_eq_div_pow]
theorem shl32 (x : Nat) : x <<< 32 = x * 4294967296 := by simp [Nat.shiftLeft_eq]
theorem shl8 (x : Nat) : x <<< 8 = x * 256 := by simp [Nat.shiftLeft_eq]
theorem shl5 (x : Nat) : x <<< 5 = x * 32 := by simp [Nat.shiftLeft_eq]

/-- `lo | (hi << 32)` is `hi * 2^32 + lo` when `lo` fits 32 bits -/
theorem or_shl32 (hi lo : Nat) (h : lo < 4294967296) : lo ||| (hi <<< 32) = hi * 4294967296 + lo := by
  rw [Nat.or_comm, ← Nat.shiftLeft_add_eq_or_of_lt (i := 32) (by simpa using h), shl32]

/-- `(a << 5) | b` is `a * 32 + b` when `b` fits 5 bits -/
theorem shl5_or (a b : Nat) (h : b < 32) : (a <<< 5) ||| b = a * 32 + b := by
  rw [← Nat.shiftLeft_add_eq_or_of_lt (i := 5) (by simpa using h), shl5]

/-! ### pack48 / unpack48 -/

theorem beBytes6_split (x : Nat) :
    beBytes 6 x = encInt true 2 (x / 4294967296) ++ encInt true 4 (x % 4294967296) := by
  simpa [encInt] using beBytes_add 2 4 x

theorem pack48_eq (x : Nat) (h : x < 2 ^ 48) : pack48 x = .ok (beBytes 6 x) := by
  have hf : Fits pack48_fmt0.codes [x >>> 32, x &&& 0xFFFFFFFF] := by
    simp only [shr32, and_mask32]
    simp [Fits, pack48_fmt0, Code.bound]; omega
  simp only [pack48, structPack_eq _ _ hf]
  simp [pack48_fmt0, encCodes, Code.size, shr32, and_mask32, beBytes6_split]

theorem pack48_error (x : Nat) (h : 2 ^ 48 ≤ x) : pack48 x = .error .struct := by
  have : ¬ (x / 4294967296 < 65536) := by omega
  simp [pack48, structPack, pack48_fmt0, packCodes, Code.bound, shr32, this]

/-- `unpack48` of exactly six bytes is their big-endian value -/
theorem unpack48_eq (b : Bytes) (h : b.length = 6) : unpack48 b = .ok (beNat b) := by
  have hb := beBytes_beNat b
  rw [h, beBytes6_split] at hb
  have h4 : decInt true (List.take 4 (List.drop 2 b)) < 4294967296 := by
    have := decInt_lt true (List.take 4 (List.drop 2 b))
    simp at this
    have e : min 4 (b.length - 2) = 4 := by omega
    rw [e] at this; simpa using this
  simp only [unpack48, structUnpack, unpack48_fmt0, Fmt.size, codesSize, Code.size, h, if_true, unpackCodes]
  rw [or_shl32 _ _ h4]
  -- b = enc2 (hi) ++ enc4 (lo)
  have e1 : List.take 2 b = encInt true 2 (beNat b / 4294967296) := by
    have := congrArg (List.take 2) hb; simpa using this.symm
  have e2 : List.take 4 (List.drop 2 b) = encInt true 4 (beNat b % 4294967296) := by
    have := congrArg (fun l => List.take 4 (List.drop 2 l)) hb; simpa using this.symm
  have hlt : beNat b < 256 ^ 6 := by have := beNat_lt b; rwa [h] at this
  rw [e1, e2, decInt_encInt2 _ _ (by omega), decInt_encInt4 _ _ (by omega)]
  congr 1
  omega

theorem unpack48_error (b : Bytes) (h : b.length ≠ 6) : unpack48 b = .error .struct := by
  simp [unpack48, structUnpack, unpack48_fmt0, Fmt.size, codesSize, Code.size, h]

theorem unpack48_beBytes (x : Nat) (h : x < 2 ^ 48) : unpack48 (beBytes 6 x) = .ok x := by
  rw [unpack48_eq _ (by simp), beNat_beBytes_of_lt 6 x (by simpa using h)]

/-! ### Ethernet: closed form of the decoder on buffers holding the 14-byte header -/

/-- the big-endian field `buf[lo:hi]` -/
def fld (buf : Bytes) (lo hi : Nat) : Nat := beNat (slice buf lo hi)

theorem take2_drop (buf : Bytes) (n : Nat) : List.take 2 (List.drop n buf) = slice buf n (n + 2) := by
  simp [slice, List.take_drop]
theorem take4_drop (buf : Bytes) (n : Nat) : List.take 4 (List.drop n buf) = slice buf n (n + 4) := by
  simp [slice, List.take_drop]
theorem take1_drop (buf : Bytes) (n : Nat) : List.take 1 (List.drop n buf) = slice buf n (n + 1) := by
  simp [slice, List.take_drop]

/-- reading a slice past a prefix (a conditional simp lemma: lengths of encoded fields are literals) -/
theorem slice_skip (a b : List α) (lo hi : Nat) (h : a.length ≤ lo) :
    slice (a ++ b) lo hi = slice b (lo - a.length) (hi - a.length) := by
  simp only [slice, List.take_append, List.drop_append]
  rw [List.drop_eq_nil_of_le (by simp; omega)]
  by_cases hh : a.length ≤ hi
  · simp [Nat.min_eq_right hh]
  · have : hi - a.length = 0 := by omega
    simp [this]

theorem slice_prefix (a b : List α) (n : Nat) (h : n = a.length) : slice (a ++ b) 0 n = a := by
  subst h; simp [slice]

theorem slice_all (a : List α) (n : Nat) (h : a.length ≤ n) : slice a 0 n = a := by
  simp [slice, List.take_of_length_le h]

theorem drop_skip (a b : List α) (n : Nat) (h : a.length ≤ n) : List.drop n (a ++ b) = List.drop (n - a.length) b := by
  rw [List.drop_append, List.drop_eq_nil_of_le h]; simp

/-- what `Ethernet.unpack` does after the header: payload and the optional FCS check -/
def ethFinish (s : Eth) (buf : Bytes) (hdrLen : Nat) (fcs : Bool) : Eth × R Unit :=
  if fcs then
    if crc32 (buf.take (buf.length - 4)) ≠ leNat (buf.drop (buf.length - 4)) then
      ({ s with payload := slice buf hdrLen (buf.length - 4) }, .error .generic)
    else ({ s with payload := slice buf hdrLen (buf.length - 4) }, .ok ())
  else ({ s with payload := buf.drop hdrLen }, .ok ())

theorem Eth_unpack_eq (t : Eth) (buf : Bytes) (fcs : Bool) (h : 14 ≤ buf.length) :
    Eth.unpack t buf fcs =
      if fld buf 12 14 = ETH_TYPE_VLAN then
        if 18 ≤ buf.length then
          ethFinish { t with dstmac := fld buf 0 6, srcmac := fld buf 6 12, vlan := true,
                             vlantag := fld buf 14 16, type := fld buf 16 18 } buf 18 fcs
        else ({ t with dstmac := fld buf 0 6, srcmac := fld buf 6 12, vlan := true }, .error .struct)
      else
        ethFinish { t with dstmac := fld buf 0 6, srcmac := fld buf 6 12, vlan := false, vlantag := 0xFFFF,
                           type := fld buf 12 14 } buf 14 fcs := by
  have h0 : unpack48 (List.take 6 buf) = .ok (beNat (slice buf 0 6)) := by
    rw [unpack48_eq _ (by simp; omega)]; simp [slice]
  have h1 : unpack48 (slice buf 6 12) = .ok (beNat (slice buf 6 12)) := unpack48_eq _ (by simp; omega)
  have hty : structUnpackFrom Eth_unpack_fmt0 buf 12 = .ok [fld buf 12 14] := by
    have : 12 + 2 ≤ buf.length := by omega
    simp [structUnpackFrom, Eth_unpack_fmt0, Fmt.size, codesSize, Code.size, unpackCodes, decInt, this, take2_drop, fld]
  have hfcs : structUnpack Eth_unpack_fmt2 (buf.drop (buf.length - 4)) = .ok [leNat (buf.drop (buf.length - 4))] := by
    have hl : (List.drop (buf.length - 4) buf).length = 4 := by simp; omega
    simp only [structUnpack, Eth_unpack_fmt2, Fmt.size, codesSize, Code.size, hl, if_true, unpackCodes, decInt]
    rw [List.take_of_length_le (by omega)]
    simp
  simp only [Eth.unpack, h0, h1, hty, fld]
  by_cases hv : beNat (slice buf 12 14) = ETH_TYPE_VLAN
  · simp only [hv, if_true]
    by_cases h18 : 18 ≤ buf.length
    · have htag : structUnpackFrom Eth_unpack_fmt1 buf 14 = .ok [beNat (slice buf 14 16), beNat (slice buf 16 18)] := by
        have : 14 + (2 + (2 + 0)) ≤ buf.length := by omega
        simp [structUnpackFrom, Eth_unpack_fmt1, Fmt.size, codesSize, Code.size, unpackCodes, decInt, this,
          take2_drop, List.drop_drop]
      simp only [htag, h18, if_true, ETH_HEADERLEN_VLAN, ethFinish, hfcs]
    · have htag : structUnpackFrom Eth_unpack_fmt1 buf 14 = .error .struct := by
        have : ¬ (14 + (2 + (2 + 0)) ≤ buf.length) := by omega
        simp [structUnpackFrom, Eth_unpack_fmt1, Fmt.size, codesSize, Code.size, this]
      simp [htag, h18]
  · simp only [hv, if_false, ETH_HEADERLEN, ethFinish, hfcs]

/-! ### Ethernet: the bytes `pack` emits, and what `unpack` makes of them -/

/-- every field fits the width the frame format allots; an untagged frame cannot carry ethertype
    0x8100 (the decoder would read a tag) -/
def Eth_WF (s : Eth) : Prop :=
  s.dstmac < 2 ^ 48 ∧ s.srcmac < 2 ^ 48 ∧ s.type < 2 ^ 16 ∧ (s.vlan = true → s.vlantag < 2 ^ 16) ∧
  (s.vlan = false → s.type ≠ ETH_TYPE_VLAN)

/-- the optional 802.1Q part and the ethertype -/
def ethTypePart (s : Eth) : Bytes :=
  if s.vlan then encInt true 2 ETH_TYPE_VLAN ++ (encInt true 2 s.vlantag ++ encInt true 2 s.type)
  else encInt true 2 s.type

def ethHdr (s : Eth) : Bytes := beBytes 6 s.dstmac ++ (beBytes 6 s.srcmac ++ ethTypePart s)

def ethFcs (s : Eth) (fcs : Bool) : Bytes :=
  if fcs then leBytes 4 (Spec.crc32 (ethHdr s ++ s.payload)) else []

/-- the frame `Ethernet.pack(fcs)` emits for a well-formed object -/
def ethFrame (s : Eth) (fcs : Bool) : Bytes := ethHdr s ++ (s.payload ++ ethFcs s fcs)

theorem ethTypePart_length (s : Eth) : (ethTypePart s).length = if s.vlan then 6 else 2 := by
  unfold ethTypePart; split <;> simp

theorem ethHdr_length (s : Eth) : (ethHdr s).length = if s.vlan then 18 else 14 := by
  simp only [ethHdr, List.length_append, beBytes_length, ethTypePart_length]; split <;> rfl

theorem crc32_lt (bs : Bytes) : crc32 bs < 4294967296 := by
  unfold crc32; rw [and_mask32]; omega

theorem leBytes4_crc32 (bs : Bytes) : leBytes 4 (crc32 bs) = leBytes 4 (Spec.crc32 bs) := by
  unfold crc32; rw [and_mask32]
  simpa using leBytes_mod 4 (Spec.crc32 bs)

theorem Eth_pack_eq (s : Eth) (fcs : Bool) (h : Eth_WF s) : Eth.pack s fcs = (s, .ok (ethFrame s fcs)) := by
  obtain ⟨h1, h2, h3, h4, _⟩ := h
  have hc : Fits Eth_pack_fmt2.codes [crc32 (ethHdr s ++ s.payload)] := by
    have := crc32_lt (ethHdr s ++ s.payload)
    simp [Fits, Eth_pack_fmt2, Code.bound, this]
  have hcb : encCodes Eth_pack_fmt2.big Eth_pack_fmt2.codes [crc32 (ethHdr s ++ s.payload)] =
      leBytes 4 (Spec.crc32 (ethHdr s ++ s.payload)) := by
    simp [Eth_pack_fmt2, encCodes, Code.size, encInt, leBytes4_crc32]
  cases hv : s.vlan
  · have hf : Fits Eth_pack_fmt1.codes [s.dstmac >>> 32, s.dstmac &&& 0xFFFFFFFF, s.srcmac >>> 32,
        s.srcmac &&& 0xFFFFFFFF, s.type] := by
      simp only [shr32, and_mask32]
      simp [Fits, Eth_pack_fmt1, Code.bound]; omega
    have hh : encCodes Eth_pack_fmt1.big Eth_pack_fmt1.codes [s.dstmac >>> 32, s.dstmac &&& 0xFFFFFFFF, s.srcmac >>> 32,
        s.srcmac &&& 0xFFFFFFFF, s.type] = ethHdr s := by
      simp [Eth_pack_fmt1, encCodes, Code.size, shr32, and_mask32, ethHdr, ethTypePart, hv, beBytes6_split]
    simp only [Eth.pack, hv, structPack_eq _ _ hf, hh, Bool.false_eq_true, if_false]
    cases fcs
    · simp [ethFrame, ethFcs]
    · simp only [if_true, structPack_eq _ _ hc, hcb]
      simp [ethFrame, ethFcs]
  · have h4' := h4 hv
    have hf : Fits Eth_pack_fmt0.codes [s.dstmac >>> 32, s.dstmac &&& 0xFFFFFFFF, s.srcmac >>> 32,
        s.srcmac &&& 0xFFFFFFFF, ETH_TYPE_VLAN, s.vlantag, s.type] := by
      simp only [shr32, and_mask32]
      simp [Fits, Eth_pack_fmt0, Code.bound, ETH_TYPE_VLAN]; omega
    have hh : encCodes Eth_pack_fmt0.big Eth_pack_fmt0.codes [s.dstmac >>> 32, s.dstmac &&& 0xFFFFFFFF, s.srcmac >>> 32,
        s.srcmac &&& 0xFFFFFFFF, ETH_TYPE_VLAN, s.vlantag, s.type] = ethHdr s := by
      simp [Eth_pack_fmt0, encCodes, Code.size, shr32, and_mask32, ethHdr, ethTypePart, hv, beBytes6_split]
    simp only [Eth.pack, hv, structPack_eq _ _ hf, hh, if_true]
    cases fcs
    · simp [ethFrame, ethFcs]
    · simp only [if_true, structPack_eq _ _ hc, hcb]
      simp [ethFrame, ethFcs]

theorem ethFcs_length (s : Eth) (fcs : Bool) : (ethFcs s fcs).length = if fcs then 4 else 0 := by
  unfold ethFcs; split <;> simp

theorem ethFrame_length (s : Eth) (fcs : Bool) :
    (ethFrame s fcs).length = (if s.vlan then 18 else 14) + s.payload.length + (if fcs then 4 else 0) := by
  simp only [ethFrame, List.length_append, ethHdr_length, ethFcs_length]; omega

/-- what a decoded frame holds: an untagged frame decodes with the tag sentinel 0xFFFF -/
def ethDecoded (s : Eth) : Eth := { s with vlantag := if s.vlan then s.vlantag else 0xFFFF }

theorem Eth_unpack_frame (s t : Eth) (fcs : Bool) (h : Eth_WF s) :
    Eth.unpack t (ethFrame s fcs) fcs = (ethDecoded s, .ok ()) := by
  obtain ⟨h1, h2, h3, h4, h5⟩ := h
  have hlen := ethFrame_length s fcs
  rw [Eth_unpack_eq _ _ _ (by rw [hlen]; split <;> omega)]
  have hd : fld (ethFrame s fcs) 0 6 = s.dstmac := by
    simp [fld, ethFrame, ethHdr, slice_prefix, beNat_beBytes_of_lt 6 _ (show s.dstmac < 256 ^ 6 by omega)]
  have hs : fld (ethFrame s fcs) 6 12 = s.srcmac := by
    simp [fld, ethFrame, ethHdr, slice_skip, slice_prefix, beNat_beBytes_of_lt 6 _ (show s.srcmac < 256 ^ 6 by omega)]
  have hcrc : ∀ (b : Bytes), leNat (leBytes 4 (Spec.crc32 b)) = crc32 b := by
    intro b; rw [leNat_leBytes, crc32, and_mask32]
  have e1 : List.take ((ethFrame s true).length - 4) (ethFrame s true) = ethHdr s ++ s.payload := by
    simp only [ethFrame, ← List.append_assoc]
    apply take_append_len; simp [ethFcs]; omega
  have e2 : List.drop ((ethFrame s true).length - 4) (ethFrame s true) =
      leBytes 4 (Spec.crc32 (ethHdr s ++ s.payload)) := by
    simp only [ethFrame, ← List.append_assoc]
    rw [drop_append_len _ _ _ (by simp [ethFcs]; omega)]; simp [ethFcs]
  have e3 : slice (ethFrame s true) (ethHdr s).length ((ethFrame s true).length - 4) = s.payload := by
    simp only [ethFrame]
    apply slice_mid
    · rfl
    · simp [ethFcs]; omega
  have e4 : List.drop (ethHdr s).length (ethFrame s false) = s.payload := by
    simp [ethFrame, ethFcs]
  cases hv : s.vlan
  · have h5' := h5 hv
    have hl : (ethHdr s).length = 14 := by simp [ethHdr_length, hv]
    rw [hl] at e3 e4
    have hty : fld (ethFrame s fcs) 12 14 = s.type := by
      simp [fld, ethFrame, ethHdr, ethTypePart, hv, slice_skip, slice_prefix, encInt,
        beNat_beBytes_of_lt 2 _ (show s.type < 256 ^ 2 by omega)]
    simp only [hd, hs, hty, h5', if_false, ethFinish, ethDecoded, hv, Bool.false_eq_true]
    cases fcs
    · simp [e4]
    · simp only [if_true, e1, e2, e3, hcrc, ne_eq, not_true_eq_false, if_false]
  · have h4' := h4 hv
    have hl : (ethHdr s).length = 18 := by simp [ethHdr_length, hv]
    rw [hl] at e3 e4
    have hty : fld (ethFrame s fcs) 12 14 = ETH_TYPE_VLAN := by
      simp [fld, ethFrame, ethHdr, ethTypePart, hv, slice_skip, slice_prefix, encInt, ETH_TYPE_VLAN,
        beNat_beBytes_of_lt 2 33024 (by omega)]
    have htag : fld (ethFrame s fcs) 14 16 = s.vlantag := by
      simp [fld, ethFrame, ethHdr, ethTypePart, hv, slice_skip, slice_prefix, encInt,
        beNat_beBytes_of_lt 2 _ (show s.vlantag < 256 ^ 2 by omega)]
    have hty2 : fld (ethFrame s fcs) 16 18 = s.type := by
      simp [fld, ethFrame, ethHdr, ethTypePart, hv, slice_skip, slice_prefix, encInt,
        beNat_beBytes_of_lt 2 _ (show s.type < 256 ^ 2 by omega)]
    have h18 : 18 ≤ (ethFrame s fcs).length := by rw [hlen, hv]; simp; omega
    simp only [hd, hs, hty, htag, hty2, h18, if_true, ethFinish, ethDecoded, hv]
    cases fcs
    · simp [e4]
    · simp only [if_true, e1, e2, e3, hcrc, ne_eq, not_true_eq_false, if_false]

/-! ### ip_calc_checksum -/
open Acra.Lemmas.Sum16 in
theorem codesSize_replicate_u16 (n : Nat) : codesSize (List.replicate n Code.u16) = 2 * n := by
  induction n with
  | zero => rfl
  | succ n ih => simp only [List.replicate_succ, codesSize, Code.size, ih]; omega

open Acra.Lemmas.Sum16 in
theorem unpackCodes_u16_le : ∀ (n : Nat) (bs : Bytes), bs.length = 2 * n →
    unpackCodes false (List.replicate n Code.u16) bs = wordsLE bs
  | 0, bs, h => by
    have : bs = [] := List.eq_nil_of_length_eq_zero (by omega)
    subst this; rfl
  | n + 1, [], h => by simp at h
  | n + 1, [a], h => by simp at h; omega
  | n + 1, a :: b :: rest, h => by
    have ih := unpackCodes_u16_le n rest (by simp at h; omega)
    simp only [List.replicate_succ, unpackCodes, Code.size, List.take_succ_cons, List.take_zero, List.drop_succ_cons,
      List.drop_zero, ih, wordsLE, decInt, leNat]
    simp

open Acra.Lemmas.Sum16 in
theorem wordsLE_pad : ∀ (bs : Bytes), bs.length % 2 = 1 → wordsLE (bs ++ [0]) = wordsLE bs
  | [], h => by simp at h
  | [a], _ => by simp [wordsLE]
  | a :: b :: rest, h => by
    have ih := wordsLE_pad rest (by simp at h; omega)
    simp only [List.cons_append, wordsLE, ih]

open Acra.Lemmas.Sum16 in
/-- `ip_calc_checksum` never fails and computes the folded, complemented little-endian word sum -/
theorem ipCalcChecksum_eq (pkt : Bytes) :
    ipCalcChecksum pkt = .ok (65535 - sumFold (wordsLE pkt).sum) := by
  unfold ipCalcChecksum
  by_cases hodd : pkt.length % 2 = 1
  · have hl : (pkt ++ [0]).length = 2 * ((pkt ++ [0]).length / 2) := by simp; omega
    simp only [hodd, beq_self_eq_true, if_true, structUnpack, ipcs_fmt0, Fmt.size, codesSize_replicate_u16]
    rw [if_pos hl, unpackCodes_u16_le _ _ hl, wordsLE_pad _ hodd]
    simp only [shr16, and_mask16, sumFold]
  · have hl : pkt.length = 2 * (pkt.length / 2) := by omega
    have hb : (pkt.length % 2 == 1) = false := by simp; omega
    simp only [hb, Bool.false_eq_true, if_false, structUnpack, ipcs_fmt0, Fmt.size, codesSize_replicate_u16]
    rw [if_pos hl, unpackCodes_u16_le _ _ hl]
    simp only [shr16, and_mask16, sumFold]

/-! ### IP: closed form of the decoder on buffers holding the 20-byte header -/

theorem take_eq_slice0 (buf : Bytes) (n : Nat) : List.take n buf = slice buf 0 n := by simp [slice]

theorem slice_drop (buf : Bytes) (n lo hi : Nat) : slice (List.drop n buf) lo hi = slice buf (n + lo) (n + hi) := by
  simp [slice, List.take_drop, List.drop_drop]

theorem IP_unpack_eq (t : IP) (buf : Bytes) (h : 20 ≤ buf.length) :
    IP.unpack t buf =
      ({ t with dscp := fld buf 1 2, len := fld buf 2 4, ident := fld buf 4 6, ttl := fld buf 8 9,
                protocol := fld buf 9 10,
                fragment_offset := (fld buf 6 7 % 32 * 256 + fld buf 7 8) * 8,
                flags := fld buf 6 7 / 32, version := fld buf 0 1 / 16, ihl := fld buf 0 1 % 16,
                srcip := some (fld buf 12 16), dstip := some (fld buf 16 20),
                payload := slice buf 20 (fld buf 2 4) }, .ok ()) := by
  have h1 : ¬ buf.length < 20 := by omega
  simp only [IP.unpack, IP_HEADER_SIZE, h1, if_false, structUnpackFrom, IP_HEADER_FORMAT, Fmt.size, codesSize, Code.size,
    Nat.zero_add, h, if_true, List.drop_zero, unpackCodes, List.drop_drop, decInt,
    take_eq_slice0, slice_drop, Nat.reduceAdd, and_mask5, and_mask4, shl8, shr5, shr4, fld]

/-! ### IP: the bytes `pack` emits, and what `unpack` makes of them -/

/-- every field fits the width the IPv4 header allots: 3 flag bits, a 13-bit offset in 8-byte units,
    a 16-bit total length -/
def IP_WF (s : IP) (src dst : Nat) : Prop :=
  s.srcip = some src ∧ s.dstip = some dst ∧ src < 2 ^ 32 ∧ dst < 2 ^ 32 ∧
  s.dscp < 256 ∧ s.ident < 65536 ∧ s.ttl < 256 ∧ s.protocol < 256 ∧ s.flags < 8 ∧
  s.fragment_offset % 8 = 0 ∧ s.fragment_offset < 65536 ∧ 20 + s.payload.length < 65536

/-- header bytes 0..9 -/
def ipFront (s : IP) : Bytes :=
  encInt true 1 0x45 ++ (encInt true 1 s.dscp ++ (encInt true 2 (20 + s.payload.length) ++ (encInt true 2 s.ident ++
    (encInt true 1 (s.flags * 32 + s.fragment_offset / 8 / 256) ++ (encInt true 1 (s.fragment_offset / 8 % 256) ++
    (encInt true 1 s.ttl ++ encInt true 1 s.protocol))))))

/-- header bytes 12..19 -/
def ipBack (src dst : Nat) : Bytes := encInt true 4 src ++ encInt true 4 dst

/-- the 20-byte header with the two checksum bytes `c` -/
def ipHeader (s : IP) (c : Bytes) (src dst : Nat) : Bytes := ipFront s ++ (c ++ ipBack src dst)

@[simp] theorem ipFront_length (s : IP) : (ipFront s).length = 10 := by simp [ipFront]
@[simp] theorem ipBack_length (a b : Nat) : (ipBack a b).length = 8 := by simp [ipBack]
theorem ipHeader_length (s : IP) (c : Bytes) (a b : Nat) (h : c.length = 2) : (ipHeader s c a b).length = 20 := by
  simp [ipHeader, h]

/-- the value `ip_calc_checksum` returns for the header with a zero checksum field -/
def ipCksum (s : IP) (src dst : Nat) : Nat :=
  65535 - Sum16.sumFold (Sum16.wordsLE (ipHeader s [0, 0] src dst)).sum

theorem encInt_be2_zero : encInt true 2 0 = [0, 0] := by decide

theorem sumFold_lt (x : Nat) : Sum16.sumFold x < 65536 := by unfold Sum16.sumFold; omega

theorem IP_pack_eq (s : IP) (src dst : Nat) (h : IP_WF s src dst) :
    IP.pack s = ({ s with len := 20 + s.payload.length },
                 .ok (ipHeader s (leBytes 2 (ipCksum s src dst)) src dst ++ s.payload)) := by
  obtain ⟨hs, hd, h1, h2, h3, h4, h5, h6, h7, h8, h9, h10⟩ := h
  have hfb : ((s.flags &&& 0x7) <<< 5) ||| ((s.fragment_offset / 8) >>> 8 &&& 0x1F) =
      s.flags * 32 + s.fragment_offset / 8 / 256 := by
    rw [and_mask3, and_mask5, shr8, shl5_or _ _ (by omega)]
    have : s.flags % 8 = s.flags := by omega
    have : s.fragment_offset / 8 / 256 % 32 = s.fragment_offset / 8 / 256 := by omega
    omega
  have hf : Fits IP_HEADER_FORMAT.codes [0x45, s.dscp, (20 + s.payload.length) % 65536, s.ident,
      s.flags * 32 + s.fragment_offset / 8 / 256, s.fragment_offset / 8 % 256, s.ttl, s.protocol, 0, src, dst] := by
    simp [Fits, IP_HEADER_FORMAT, Code.bound]; omega
  have hh : encCodes IP_HEADER_FORMAT.big IP_HEADER_FORMAT.codes [0x45, s.dscp, (20 + s.payload.length) % 65536, s.ident,
      s.flags * 32 + s.fragment_offset / 8 / 256, s.fragment_offset / 8 % 256, s.ttl, s.protocol, 0, src, dst] =
      ipHeader s [0, 0] src dst := by
    have : (20 + s.payload.length) % 65536 = 20 + s.payload.length := by omega
    rw [this]
    simp [IP_HEADER_FORMAT, encCodes, Code.size, ipHeader, ipFront, ipBack, encInt_be2_zero]
  have hc : Fits IP_pack_fmt2.codes [65535 - Sum16.sumFold (Sum16.wordsLE (ipHeader s [0, 0] src dst)).sum] := by
    simp [Fits, IP_pack_fmt2, Code.bound]; omega
  have ht : List.take 10 (ipHeader s [0, 0] src dst) = ipFront s := by
    simp only [ipHeader]; exact take_append_len _ _ _ (by simp)
  have hdr : List.drop 12 (ipHeader s [0, 0] src dst) = ipBack src dst := by
    simp only [ipHeader, ← List.append_assoc]; exact drop_append_len _ _ _ (by simp)
  simp only [IP.pack, hs, hd, IP_HEADER_SIZE, and_mask8, hfb, structPack_eq _ _ hf, hh, ipCalcChecksum_eq,
    structPack_eq _ _ hc, ht, hdr]
  simp [IP_pack_fmt2, encCodes, Code.size, encInt, ipHeader, ipCksum]

/-- decoding what `pack` emitted — with any two checksum bytes and any trailing bytes (link-layer padding)
    after the datagram — gives the fields back; version and IHL read 4 and 5 -/
theorem IP_unpack_packed (s t : IP) (src dst : Nat) (c pad : Bytes) (hc : c.length = 2) (h : IP_WF s src dst) :
    IP.unpack t (ipHeader s c src dst ++ (s.payload ++ pad)) =
      ({ s with len := 20 + s.payload.length, version := 4, ihl := 5 }, .ok ()) := by
  obtain ⟨hs, hd, h1, h2, h3, h4, h5, h6, h7, h8, h9, h10⟩ := h
  have hlen : (ipHeader s c src dst).length = 20 := ipHeader_length s c src dst hc
  rw [IP_unpack_eq _ _ (by simp [hlen])]
  have e0 : fld (ipHeader s c src dst ++ (s.payload ++ pad)) 0 1 = 0x45 := by
    simp [fld, ipHeader, ipFront, slice_prefix, encInt, beNat_beBytes_of_lt 1 69 (by omega)]
  have e1 : fld (ipHeader s c src dst ++ (s.payload ++ pad)) 1 2 = s.dscp := by
    simp [fld, ipHeader, ipFront, slice_skip, slice_prefix, encInt, beNat_beBytes_of_lt 1 _ (show s.dscp < 256 ^ 1 by omega)]
  have e2 : fld (ipHeader s c src dst ++ (s.payload ++ pad)) 2 4 = 20 + s.payload.length := by
    simp [fld, ipHeader, ipFront, slice_skip, slice_prefix, encInt,
      beNat_beBytes_of_lt 2 _ (show 20 + s.payload.length < 256 ^ 2 by omega)]
  have e4 : fld (ipHeader s c src dst ++ (s.payload ++ pad)) 4 6 = s.ident := by
    simp [fld, ipHeader, ipFront, slice_skip, slice_prefix, encInt, beNat_beBytes_of_lt 2 _ (show s.ident < 256 ^ 2 by omega)]
  have e6 : fld (ipHeader s c src dst ++ (s.payload ++ pad)) 6 7 = s.flags * 32 + s.fragment_offset / 8 / 256 := by
    simp [fld, ipHeader, ipFront, slice_skip, slice_prefix, encInt,
      beNat_beBytes_of_lt 1 _ (show s.flags * 32 + s.fragment_offset / 8 / 256 < 256 ^ 1 by omega)]
  have e7 : fld (ipHeader s c src dst ++ (s.payload ++ pad)) 7 8 = s.fragment_offset / 8 % 256 := by
    simp [fld, ipHeader, ipFront, slice_skip, slice_prefix, encInt,
      beNat_beBytes_of_lt 1 _ (show s.fragment_offset / 8 % 256 < 256 ^ 1 by omega)]
  have e8 : fld (ipHeader s c src dst ++ (s.payload ++ pad)) 8 9 = s.ttl := by
    simp [fld, ipHeader, ipFront, slice_skip, slice_prefix, encInt, beNat_beBytes_of_lt 1 _ (show s.ttl < 256 ^ 1 by omega)]
  have e9 : fld (ipHeader s c src dst ++ (s.payload ++ pad)) 9 10 = s.protocol := by
    simp [fld, ipHeader, ipFront, slice_skip, slice_prefix, encInt, beNat_beBytes_of_lt 1 _ (show s.protocol < 256 ^ 1 by omega)]
  have e12 : fld (ipHeader s c src dst ++ (s.payload ++ pad)) 12 16 = src := by
    simp [fld, ipHeader, ipFront, ipBack, slice_skip, slice_prefix, hc, encInt, beNat_beBytes_of_lt 4 _ (show src < 256 ^ 4 by omega)]
  have e16 : fld (ipHeader s c src dst ++ (s.payload ++ pad)) 16 20 = dst := by
    simp [fld, ipHeader, ipFront, ipBack, slice_skip, slice_prefix, hc, encInt, beNat_beBytes_of_lt 4 _ (show dst < 256 ^ 4 by omega)]
  have ep : slice (ipHeader s c src dst ++ (s.payload ++ pad)) 20 (20 + s.payload.length) = s.payload :=
    slice_mid _ _ _ _ _ hlen.symm (by rw [hlen])
  simp only [e0, e1, e2, e4, e6, e7, e8, e9, e12, e16, ep]
  have a1 : (s.flags * 32 + s.fragment_offset / 8 / 256) / 32 = s.flags := by omega
  have a2 : ((s.flags * 32 + s.fragment_offset / 8 / 256) % 32 * 256 + s.fragment_offset / 8 % 256) * 8 = s.fragment_offset := by omega
  rw [a1, a2]
  simp [hs, hd]

/-! ### IP: re-encoding a decoded wire header -/

theorem slice_cat (b : List α) (i j k : Nat) (hij : i ≤ j) (hjk : j ≤ k) : slice b i j ++ slice b j k = slice b i k := by
  simp only [slice]
  have e : List.take j b = List.take j (List.take k b) := by rw [List.take_take, Nat.min_eq_left hjk]
  rw [e]
  generalize List.take k b = c
  by_cases hh : j ≤ c.length
  · have hl : i ≤ (List.take j c).length := by simp; omega
    rw [← List.drop_append_of_le_length hl, List.take_append_drop]
  · rw [List.take_of_length_le (show c.length ≤ j by omega), List.drop_eq_nil_of_le (show c.length ≤ j by omega)]; simp

theorem encInt_fld (h : Bytes) (a b k : Nat) (hl : (slice h a b).length = k) : encInt true k (fld h a b) = slice h a b := by
  have := encInt_decInt true (slice h a b)
  rw [hl] at this
  simpa [decInt, fld] using this

theorem fld_lt (h : Bytes) (a b : Nat) : fld h a b < 256 ^ (min b h.length - a) := by
  have := beNat_lt (slice h a b)
  simpa [fld] using this

/-- the checksum field of a 20-byte header is the RFC 1071 checksum of the header with that field zeroed -/
def ipChecksumValid (h : Bytes) : Prop :=
  slice h 10 12 = beBytes 2 (Spec.rfc1071 (List.take 10 h ++ ([0, 0] ++ List.drop 12 h)))

/-- what decoding the wire header `h` (followed by payload `p`) leaves in the object -/
def ipFromWire (t : IP) (h p : Bytes) : IP :=
  { t with dscp := fld h 1 2, len := fld h 2 4, ident := fld h 4 6, ttl := fld h 8 9,
           protocol := fld h 9 10,
           fragment_offset := (fld h 6 7 % 32 * 256 + fld h 7 8) * 8,
           flags := fld h 6 7 / 32, version := fld h 0 1 / 16, ihl := fld h 0 1 % 16,
           srcip := some (fld h 12 16), dstip := some (fld h 16 20),
           payload := p }

theorem IP_reencode (t : IP) (h p pad : Bytes) (hlen : h.length = 20) (h0 : fld h 0 1 = 0x45)
    (hck : ipChecksumValid h) (htot : fld h 2 4 = 20 + p.length) :
    (IP.pack (IP.unpack t (h ++ (p ++ pad))).1).2 = .ok (h ++ p) := by
  have hb : ∀ a b, b ≤ 20 → fld (h ++ (p ++ pad)) a b = fld h a b := by
    intro a b hb; simp only [fld]; rw [slice_append_left _ _ (by omega)]
  rw [IP_unpack_eq _ _ (by simp [hlen])]
  simp only [hb _ _ (Nat.le_refl 20), hb 1 2 (by omega), hb 2 4 (by omega), hb 4 6 (by omega), hb 8 9 (by omega),
    hb 9 10 (by omega), hb 6 7 (by omega), hb 7 8 (by omega), hb 0 1 (by omega), hb 12 16 (by omega)]
  have hp : slice (h ++ (p ++ pad)) 20 (fld h 2 4) = p := by
    rw [htot]; exact slice_mid _ _ _ _ _ hlen.symm (by rw [hlen])
  rw [hp]
  -- bounds of the decoded fields
  have l1 := fld_lt h 1 2
  have l4 := fld_lt h 4 6
  have l6 := fld_lt h 6 7
  have l7 := fld_lt h 7 8
  have l8 := fld_lt h 8 9
  have l9 := fld_lt h 9 10
  have l12 := fld_lt h 12 16
  have l16 := fld_lt h 16 20
  have l2 := fld_lt h 2 4
  simp only [hlen] at l1 l4 l6 l7 l8 l9 l12 l16 l2
  simp at l1 l4 l6 l7 l8 l9 l12 l16 l2
  show (IP.pack (ipFromWire t h p)).2 = .ok (h ++ p)
  generalize hq : ipFromWire t h p = q
  unfold ipFromWire at hq
  have hwf : IP_WF q (fld h 12 16) (fld h 16 20) := by
    subst hq
    refine ⟨rfl, rfl, ?_, ?_, ?_, ?_, ?_, ?_, ?_, ?_, ?_, ?_⟩ <;> (try simp only) <;> omega
  rw [IP_pack_eq q _ _ hwf]
  simp only
  -- the re-encoded header is h
  have sl : ∀ a b, a ≤ b → b ≤ 20 → (slice h a b).length = b - a := by
    intro a b _ _; simp [hlen]; omega
  have f0 : encInt true 1 0x45 = slice h 0 1 := by rw [← h0]; exact encInt_fld h 0 1 1 (sl 0 1 (by omega) (by omega))
  have fe : ipFront q = slice h 0 10 := by
    subst hq
    have a1 : fld h 6 7 / 32 * 32 + (fld h 6 7 % 32 * 256 + fld h 7 8) * 8 / 8 / 256 = fld h 6 7 := by omega
    have a2 : (fld h 6 7 % 32 * 256 + fld h 7 8) * 8 / 8 % 256 = fld h 7 8 := by omega
    simp only [ipFront, a1, a2, ← htot, f0]
    rw [encInt_fld h 1 2 1 (sl _ _ (by omega) (by omega)), encInt_fld h 2 4 2 (sl _ _ (by omega) (by omega)),
      encInt_fld h 4 6 2 (sl _ _ (by omega) (by omega)), encInt_fld h 6 7 1 (sl _ _ (by omega) (by omega)),
      encInt_fld h 7 8 1 (sl _ _ (by omega) (by omega)), encInt_fld h 8 9 1 (sl _ _ (by omega) (by omega)),
      encInt_fld h 9 10 1 (sl _ _ (by omega) (by omega))]
    rw [slice_cat h 8 9 10 (by omega) (by omega), slice_cat h 7 8 10 (by omega) (by omega),
      slice_cat h 6 7 10 (by omega) (by omega), slice_cat h 4 6 10 (by omega) (by omega),
      slice_cat h 2 4 10 (by omega) (by omega), slice_cat h 1 2 10 (by omega) (by omega),
      slice_cat h 0 1 10 (by omega) (by omega)]
  have be : ipBack (fld h 12 16) (fld h 16 20) = slice h 12 20 := by
    simp only [ipBack]
    rw [encInt_fld h 12 16 4 (sl _ _ (by omega) (by omega)), encInt_fld h 16 20 4 (sl _ _ (by omega) (by omega)),
      slice_cat h 12 16 20 (by omega) (by omega)]
  have t10 : List.take 10 h = slice h 0 10 := by simp [slice]
  have d12 : List.drop 12 h = slice h 12 20 := by simp [slice, List.take_of_length_le (show h.length ≤ 20 by omega)]
  have hc : leBytes 2 (ipCksum q (fld h 12 16) (fld h 16 20)) = slice h 10 12 := by
    rw [hck, t10, d12]
    simp only [ipCksum, ipHeader, fe, be]
    rw [Sum16.stored_bytes_eq _ (by simp [hlen])]
  have hpl : q.payload = p := by subst hq; rfl
  rw [hc, hpl]
  simp only [ipHeader, fe, be]
  rw [slice_cat h 10 12 20 (by omega) (by omega), slice_cat h 0 10 20 (by omega) (by omega)]
  simp [slice, List.take_of_length_le (show h.length ≤ 20 by omega)]

/-! ### UDP -/

def UDP_WF (s : UDP) : Prop := s.srcport < 65536 ∧ s.dstport < 65536 ∧ s.payload.length + 8 < 65536

def udpBytes (s : UDP) : Bytes :=
  encInt true 2 s.srcport ++ (encInt true 2 s.dstport ++ (encInt true 2 (s.payload.length + 8) ++ (encInt true 2 0 ++ s.payload)))

theorem UDP_pack_eq (s : UDP) (h : UDP_WF s) :
    UDP.pack s = ({ s with len := s.payload.length + 8 }, .ok (udpBytes s)) := by
  obtain ⟨h1, h2, h3⟩ := h
  have hm : (s.payload.length + 8) % 65536 = s.payload.length + 8 := by omega
  have hf : Fits UDP_HEADER_FORMAT.codes [s.srcport, s.dstport, s.payload.length + 8, 0] := by
    simp [Fits, UDP_HEADER_FORMAT, Code.bound]; omega
  simp only [UDP.pack, UDP_HEADER_SIZE, hm, structPack_eq _ _ hf]
  simp [UDP_HEADER_FORMAT, encCodes, Code.size, udpBytes]

theorem UDP_unpack_packed (s t : UDP) (h : UDP_WF s) :
    UDP.unpack t (udpBytes s) = ({ s with len := s.payload.length + 8 }, .ok ()) := by
  obtain ⟨h1, h2, h3⟩ := h
  have hf : Fits UDP_HEADER_FORMAT.codes [s.srcport, s.dstport, s.payload.length + 8, 0] := by
    simp [Fits, UDP_HEADER_FORMAT, Code.bound]; omega
  have hb : udpBytes s = encCodes UDP_HEADER_FORMAT.big UDP_HEADER_FORMAT.codes
      [s.srcport, s.dstport, s.payload.length + 8, 0] ++ s.payload := by
    simp [UDP_HEADER_FORMAT, encCodes, Code.size, udpBytes]
  have hl : ¬ (udpBytes s).length < 8 := by simp [udpBytes]; omega
  have hd : List.drop 8 (udpBytes s) = s.payload := by
    rw [hb]; exact drop_append_len _ _ _ (by rw [encCodes_length _ _ _ hf]; rfl)
  simp only [UDP.unpack, UDP_HEADER_SIZE, hl, if_false, hd]
  rw [hb, structUnpackFrom_enc0 _ _ _ hf]

/-! ### ARP -/

def ARP_WF (s : ARP) (sip dip : Nat) : Prop :=
  s.srcip = some sip ∧ s.dstip = some dip ∧ sip < 2 ^ 32 ∧ dip < 2 ^ 32 ∧
  s.hardware_type < 65536 ∧ s.protocol_type < 65536 ∧ s.hardware_length < 256 ∧ s.protocol_length < 256 ∧
  s.operation < 65536 ∧ s.srcmac < 2 ^ 48 ∧ s.dstmac < 2 ^ 48

def arpBytes (s : ARP) (sip dip : Nat) : Bytes :=
  encInt true 2 s.hardware_type ++ (encInt true 2 s.protocol_type ++ (encInt true 1 s.hardware_length ++
  (encInt true 1 s.protocol_length ++ (encInt true 2 s.operation ++ (beBytes 6 s.srcmac ++ (beBytes 4 sip ++
  (beBytes 6 s.dstmac ++ beBytes 4 dip)))))))

theorem arpBytes_length (s : ARP) (a b : Nat) : (arpBytes s a b).length = 28 := by simp [arpBytes]

theorem ARP_pack_eq (s : ARP) (sip dip : Nat) (h : ARP_WF s sip dip) : ARP.pack s = (s, .ok (arpBytes s sip dip)) := by
  obtain ⟨hs, hd, h1, h2, h3, h4, h5, h6, h7, h8, h9⟩ := h
  have hf : Fits ARP_pack_fmt0.codes [s.hardware_type, s.protocol_type, s.hardware_length, s.protocol_length,
      s.operation] := by
    simp [Fits, ARP_pack_fmt0, Code.bound]; omega
  simp only [ARP.pack, structPack_eq _ _ hf, pack48_eq _ h8, pack48_eq _ h9, hs, hd, inetAton]
  simp [ARP_pack_fmt0, encCodes, Code.size, arpBytes]

theorem ARP_unpack_eq (t : ARP) (buf : Bytes) (h : 28 ≤ buf.length) :
    ARP.unpack t buf =
      ({ hardware_type := fld buf 0 2, protocol_type := fld buf 2 4, hardware_length := fld buf 4 5,
         protocol_length := fld buf 5 6, operation := fld buf 6 8, srcmac := fld buf 8 14,
         dstmac := fld buf 18 24, srcip := some (fld buf 14 18), dstip := some (fld buf 24 28) }, .ok ()) := by
  have h0 : structUnpackFrom ARP_unpack_fmt0 buf 0 =
      .ok [fld buf 0 2, fld buf 2 4, fld buf 4 5, fld buf 5 6, fld buf 6 8] := by
    have : 2 + (2 + (1 + (1 + (2 + 0)))) ≤ buf.length := by omega
    simp only [structUnpackFrom, ARP_unpack_fmt0, Fmt.size, codesSize, Code.size, Nat.zero_add, this, if_true,
      List.drop_zero, unpackCodes, List.drop_drop, decInt, take_eq_slice0, slice_drop, Nat.reduceAdd, fld]
  have e1 : unpack48 (slice buf 8 14) = .ok (fld buf 8 14) := unpack48_eq _ (by simp; omega)
  have e2 : unpack48 (slice buf 18 24) = .ok (fld buf 18 24) := unpack48_eq _ (by simp; omega)
  have e3 : inetNtoa (slice buf 14 18) = .ok (fld buf 14 18) := by
    have : (slice buf 14 18).length = 4 := by simp; omega
    simp [inetNtoa, this, fld]
  have e4 : inetNtoa (slice buf 24 28) = .ok (fld buf 24 28) := by
    have : (slice buf 24 28).length = 4 := by simp; omega
    simp [inetNtoa, this, fld]
  simp only [ARP.unpack, h0, e1, e2, e3, e4]

theorem ARP_unpack_packed (s t : ARP) (sip dip : Nat) (h : ARP_WF s sip dip) :
    ARP.unpack t (arpBytes s sip dip) = (s, .ok ()) := by
  obtain ⟨hs, hd, h1, h2, h3, h4, h5, h6, h7, h8, h9⟩ := h
  rw [ARP_unpack_eq _ _ (by rw [arpBytes_length]; omega)]
  have f0 : fld (arpBytes s sip dip) 0 2 = s.hardware_type := by
    simp [fld, arpBytes, slice_prefix, encInt, beNat_beBytes_of_lt 2 _ (show s.hardware_type < 256 ^ 2 by omega)]
  have f2 : fld (arpBytes s sip dip) 2 4 = s.protocol_type := by
    simp [fld, arpBytes, slice_skip, slice_prefix, encInt, beNat_beBytes_of_lt 2 _ (show s.protocol_type < 256 ^ 2 by omega)]
  have f4 : fld (arpBytes s sip dip) 4 5 = s.hardware_length := by
    simp [fld, arpBytes, slice_skip, slice_prefix, encInt, beNat_beBytes_of_lt 1 _ (show s.hardware_length < 256 ^ 1 by omega)]
  have f5 : fld (arpBytes s sip dip) 5 6 = s.protocol_length := by
    simp [fld, arpBytes, slice_skip, slice_prefix, encInt, beNat_beBytes_of_lt 1 _ (show s.protocol_length < 256 ^ 1 by omega)]
  have f6 : fld (arpBytes s sip dip) 6 8 = s.operation := by
    simp [fld, arpBytes, slice_skip, slice_prefix, encInt, beNat_beBytes_of_lt 2 _ (show s.operation < 256 ^ 2 by omega)]
  have f8 : fld (arpBytes s sip dip) 8 14 = s.srcmac := by
    simp [fld, arpBytes, slice_skip, slice_prefix, beNat_beBytes_of_lt 6 _ (show s.srcmac < 256 ^ 6 by omega)]
  have f14 : fld (arpBytes s sip dip) 14 18 = sip := by
    simp [fld, arpBytes, slice_skip, slice_prefix, beNat_beBytes_of_lt 4 _ (show sip < 256 ^ 4 by omega)]
  have f18 : fld (arpBytes s sip dip) 18 24 = s.dstmac := by
    simp [fld, arpBytes, slice_skip, slice_prefix, beNat_beBytes_of_lt 6 _ (show s.dstmac < 256 ^ 6 by omega)]
  have f24 : fld (arpBytes s sip dip) 24 28 = dip := by
    simp [fld, arpBytes, slice_skip, slice_all, beNat_beBytes_of_lt 4 _ (show dip < 256 ^ 4 by omega)]
  simp only [f0, f2, f4, f5, f6, f8, f14, f18, f24, ← hs, ← hd]

/-! ### ICMP -/

def ICMP_WF (s : ICMP) : Prop :=
  s.type < 256 ∧ s.code < 256 ∧ s.request_id < 65536 ∧ s.request_sequence < 65536 ∧ s.payload.length + 8 < 131072

/-- the ICMP message with the two checksum bytes `c` -/
def icmpBytes (s : ICMP) (c : Bytes) : Bytes :=
  (encInt true 1 s.type ++ encInt true 1 s.code) ++ (c ++ ((encInt true 2 s.request_id ++ encInt true 2 s.request_sequence) ++ s.payload))

theorem ICMP_pack_eq (s : ICMP) (h : ICMP_WF s) :
    ICMP.pack s = (s, .ok (icmpBytes s (leBytes 2 (65535 - Sum16.sumFold (Sum16.wordsLE (icmpBytes s [0, 0])).sum)))) := by
  obtain ⟨h1, h2, h3, h4, h5⟩ := h
  have hf : Fits ICMP_pack_fmt0.codes [s.type, s.code, 0, s.request_id, s.request_sequence] := by
    simp [Fits, ICMP_pack_fmt0, Code.bound]; omega
  have hh : encCodes ICMP_pack_fmt0.big ICMP_pack_fmt0.codes [s.type, s.code, 0, s.request_id, s.request_sequence] =
      (encInt true 1 s.type ++ encInt true 1 s.code) ++ ([0, 0] ++ (encInt true 2 s.request_id ++ encInt true 2 s.request_sequence)) := by
    simp [ICMP_pack_fmt0, encCodes, Code.size, encInt_be2_zero]
  have ht : List.take 2 ((encInt true 1 s.type ++ encInt true 1 s.code) ++ ([0, 0] ++ (encInt true 2 s.request_id ++ encInt true 2 s.request_sequence))) =
      encInt true 1 s.type ++ encInt true 1 s.code := take_append_len _ _ _ (by simp)
  have hd : List.drop 4 ((encInt true 1 s.type ++ encInt true 1 s.code) ++ ([0, 0] ++ (encInt true 2 s.request_id ++ encInt true 2 s.request_sequence))) =
      encInt true 2 s.request_id ++ encInt true 2 s.request_sequence := by
    rw [← List.append_assoc]; exact drop_append_len _ _ _ (by simp)
  have hm : ((encInt true 1 s.type ++ encInt true 1 s.code) ++ ([0, 0] ++ (encInt true 2 s.request_id ++ encInt true 2 s.request_sequence))) ++ s.payload =
      icmpBytes s [0, 0] := by simp [icmpBytes]
  have hc : Fits ICMP_pack_fmt1.codes [65535 - Sum16.sumFold (Sum16.wordsLE (icmpBytes s [0, 0])).sum] := by
    simp [Fits, ICMP_pack_fmt1, Code.bound]; omega
  simp only [ICMP.pack, structPack_eq _ _ hf, hh, ipCalcChecksum_eq, hm, structPack_eq _ _ hc, ht, hd]
  simp [ICMP_pack_fmt1, encCodes, Code.size, encInt, icmpBytes]

/-! ### IGMPv3 join -/

theorem unpackCodes_u16_be : ∀ (n : Nat) (bs : Bytes), bs.length = 2 * n →
    unpackCodes true (List.replicate n Code.u16) bs = Spec.wordsBE bs
  | 0, bs, h => by
    have : bs = [] := List.eq_nil_of_length_eq_zero (by omega)
    subst this; rfl
  | n + 1, [], h => by simp at h
  | n + 1, [a], h => by simp at h; omega
  | n + 1, a :: b :: rest, h => by
    have ih := unpackCodes_u16_be n rest (by simp at h; omega)
    simp only [List.replicate_succ, unpackCodes, Code.size, List.take_succ_cons, List.take_zero, List.drop_succ_cons,
      List.drop_zero, ih, Spec.wordsBE, decInt, beNat, List.reverse_cons, List.reverse_nil, List.nil_append,
      List.cons_append, leNat]
    simp; omega

theorem onesCompAdd16_eq (a b : Nat) (ha : a ≤ 65535) (hb : b ≤ 65535) : onesCompAdd16 a b = Spec.onesAdd a b := by
  by_cases h : a + b < 65536
  · simp [onesCompAdd16, IGMP_MOD, Spec.onesAdd, h]
  · simp only [onesCompAdd16, IGMP_MOD, Spec.onesAdd, h, if_false]; omega

theorem onesAdd_le (a b : Nat) (ha : a ≤ 65535) (hb : b ≤ 65535) : Spec.onesAdd a b ≤ 65535 := by
  simp only [Spec.onesAdd]; split <;> omega

theorem foldl_onesCompAdd16 (ws : List Nat) (acc : Nat) (hacc : acc ≤ 65535) (hw : ∀ w ∈ ws, w ≤ 65535) :
    ws.foldl onesCompAdd16 acc = ws.foldl Spec.onesAdd acc ∧ ws.foldl Spec.onesAdd acc ≤ 65535 := by
  induction ws generalizing acc with
  | nil => exact ⟨by simp only [List.foldl_nil], by simpa only [List.foldl_nil] using hacc⟩
  | cons w ws ih =>
    have hw1 := hw w List.mem_cons_self
    rw [List.foldl_cons, List.foldl_cons, onesCompAdd16_eq _ _ hacc hw1]
    exact ih _ (onesAdd_le _ _ hacc hw1) (fun x hx => hw x (List.mem_cons_of_mem _ hx))

/-- the group records `join_groups` appends -/
def joinRecords (mode : Nat) (gs : List Nat) : Bytes :=
  gs.flatMap fun g => (encInt true 1 mode ++ (encInt true 1 0 ++ encInt true 2 0)) ++ beBytes 4 g

theorem joinBody_eq (mode : Nat) (gs : List Nat) (hm : mode < 256) :
    joinBody mode (gs.map some) = .ok (joinRecords mode gs) := by
  have hf : Fits IGMP_join_fmt1.codes [mode, 0, 0] := by simp [Fits, IGMP_join_fmt1, Code.bound, hm]
  induction gs with
  | nil => rfl
  | cons g gs ih =>
    simp only [List.map_cons, joinBody, structPack_eq _ _ hf, ih, joinRecords, List.flatMap_cons]
    simp [IGMP_join_fmt1, encCodes, Code.size]

theorem joinRecords_length (mode : Nat) (gs : List Nat) : (joinRecords mode gs).length = 8 * gs.length := by
  induction gs with
  | nil => rfl
  | cons g gs ih =>
    simp only [joinRecords, List.flatMap_cons, List.length_append, encInt_length, beBytes_length, List.length_cons] at ih ⊢
    omega

/-! ### links to the declarative layouts -/

theorem ethFrame_eq_spec (s : Eth) (fcs : Bool) :
    ethFrame s fcs = Spec.Ethernet.encode s.dstmac s.srcmac (if s.vlan then some s.vlantag else none) s.type s.payload fcs := by
  have hb : ethHdr s ++ s.payload =
      Spec.Ethernet.body s.dstmac s.srcmac (if s.vlan then some s.vlantag else none) s.type s.payload := by
    cases hv : s.vlan <;> simp [ethHdr, ethTypePart, Spec.Ethernet.body, hv, encInt, ETH_TYPE_VLAN]
  cases fcs
  · simp [ethFrame, ethFcs, Spec.Ethernet.encode, ← hb]
  · simp [ethFrame, ethFcs, Spec.Ethernet.encode, ← hb]

theorem be2_split (n : Nat) : beBytes 2 n = beBytes 1 (n / 256) ++ beBytes 1 (n % 256) := by
  simpa using beBytes_add 1 1 n

theorem ipHeader_eq_spec (s : IP) (src dst c : Nat) (h : IP_WF s src dst) :
    ipHeader s (beBytes 2 c) src dst =
      Spec.IPv4.header s.dscp (20 + s.payload.length) s.ident s.flags (s.fragment_offset / 8) s.ttl s.protocol c src dst := by
  obtain ⟨hs, hd, h1, h2, h3, h4, h5, h6, h7, h8, h9, h10⟩ := h
  have e1 : (s.flags * 8192 + s.fragment_offset / 8) / 256 = s.flags * 32 + s.fragment_offset / 8 / 256 := by omega
  have e2 : (s.flags * 8192 + s.fragment_offset / 8) % 256 = s.fragment_offset / 8 % 256 := by omega
  simp only [ipHeader, ipFront, ipBack, Spec.IPv4.header, encInt, if_true, be2_split (s.flags * 8192 + s.fragment_offset / 8), e1, e2]
  have : beBytes 1 69 = [0x45] := by decide
  simp [this]

/-- fewer than 14 bytes: one of the three header reads raises struct.error -/
theorem Eth_unpack_short (t : Eth) (buf : Bytes) (fcs : Bool) (h : buf.length < 14) :
    (Eth.unpack t buf fcs).2 = .error .struct := by
  by_cases h6 : buf.length < 6
  · rw [Eth.unpack, unpack48_error _ (by simp; omega)]
  · by_cases h12 : buf.length < 12
    · rw [Eth.unpack, unpack48_eq _ (by simp; omega)]
      simp only
      rw [unpack48_error _ (by simp; omega)]
    · rw [Eth.unpack, unpack48_eq _ (by simp; omega)]
      simp only
      rw [unpack48_eq _ (by simp; omega)]
      have : ¬ (12 + (2 + 0) ≤ buf.length) := by omega
      simp [structUnpackFrom, Eth_unpack_fmt0, Fmt.size, codesSize, Code.size, this]

end Acra.Lemmas.Net
