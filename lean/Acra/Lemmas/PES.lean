/-
  Helper lemmas for MPEG/PES.py: closed form of `PES.pack`, and what `PES.unpack` makes of it.
-/
import Acra.Lemmas.MPEGTS
import Acra.Model.PES
import Acra.Lemmas.CRCMpeg
namespace Acra.Lemmas.PES
open Acra.Py Acra.Model.MPEGTS Acra.Model.PES Acra.Gen.PES Acra.Lemmas.MPEGTS

abbrev PES_ext (s : PES) : Option (Nat × Nat × Bytes) := PES.ext s

def PES_extBytes (s : PES) : Bytes :=
  match PES_ext s with
  | some (w1, w2, hd) => encInt true 1 w1 ++ (encInt true 1 w2 ++ (encInt true 1 hd.length ++ hd))
  | none => []

/-- PES_packet_length as the library computes it -/
def PES_len (s : PES) : Nat := (PES_extBytes s).length + s.pesdata.length

def PES_prefix (s : PES) : Bytes :=
  encInt true 1 0 ++ (encInt true 2 1 ++ (encInt true 1 s.streamid ++ encInt true 2 (PES_len s)))
@[simp] theorem PES_prefix_length (s : PES) : (PES_prefix s).length = 6 := by simp [PES_prefix]

/-- the TS payload `PES.pack` builds -/
def PES_payload (s : PES) : Bytes := PES_prefix s ++ (PES_extBytes s ++ s.pesdata)

/-- the TS packet `PES.pack` hands to `MPEGPacket.pack` -/
def PES_pkt (s : PES) : Pkt := { s.pkt with payload := PES_payload s }

def PES_WF (s : PES) : Prop :=
  Pkt_WF s.pkt ∧ s.streamid < 256 ∧ PES_len s < 65536 ∧
  (∀ w1 w2 hd, PES_ext s = some (w1, w2, hd) → w1 < 256 ∧ w2 < 256 ∧ hd.length < 256)

theorem PES_pack_eq (s : PES) (h : PES_WF s) :
    PES.pack s = ({ s with pkt := Pkt_packed (PES_pkt s) }, .ok (Pkt_bytes (PES_pkt s))) := by
  obtain ⟨hw, hs, hl, hx⟩ := h
  have hwp : Pkt_WF (PES_pkt s) := hw
  unfold PES.pack
  cases he : PES_ext s with
  | none =>
    have he' : PES.ext s = none := he
    have hlen : PES_len s = s.pesdata.length := by simp [PES_len, PES_extBytes, he]
    have hfit : Fits PES_pack_fmt0.codes [0, 1, s.streamid, s.pesdata.length] := by
      simp [Fits, PES_pack_fmt0, Code.bound]; omega
    simp only [he', structPack_eq _ _ hfit]
    have hpay : encCodes PES_pack_fmt0.big PES_pack_fmt0.codes [0, 1, s.streamid, s.pesdata.length] ++ [] ++ s.pesdata
        = PES_payload s := by
      simp [PES_payload, PES_prefix, PES_extBytes, he, hlen, encCodes, PES_pack_fmt0, Code.size]
    rw [hpay]
    show ({ s with pkt := (Pkt.pack (PES_pkt s)).1 }, (Pkt.pack (PES_pkt s)).2) = _
    rw [Pkt_pack_eq' _ false hwp]; rfl
  | some x =>
    obtain ⟨w1, w2, hd⟩ := x
    have he' : PES.ext s = some (w1, w2, hd) := he
    obtain ⟨b1, b2, b3⟩ := hx w1 w2 hd he
    have hlen : PES_len s = 3 + s.pesdata.length + hd.length := by simp [PES_len, PES_extBytes, he]; omega
    have hfit : Fits PES_pack_fmt0.codes [0, 1, s.streamid, 3 + s.pesdata.length + hd.length] := by
      simp [Fits, PES_pack_fmt0, Code.bound]; omega
    have hfit1 : Fits PES_pack_fmt1.codes [w1, w2, hd.length] := by
      simp [Fits, PES_pack_fmt1, Code.bound]; omega
    simp only [he', structPack_eq _ _ hfit, structPack_eq _ _ hfit1]
    have hpay : encCodes PES_pack_fmt0.big PES_pack_fmt0.codes [0, 1, s.streamid, 3 + s.pesdata.length + hd.length] ++
        (encCodes PES_pack_fmt1.big PES_pack_fmt1.codes [w1, w2, hd.length] ++ hd) ++ s.pesdata = PES_payload s := by
      simp [PES_payload, PES_prefix, PES_extBytes, he, hlen, encCodes, PES_pack_fmt0, PES_pack_fmt1, Code.size]
    rw [hpay]
    show ({ s with pkt := (Pkt.pack (PES_pkt s)).1 }, (Pkt.pack (PES_pkt s)).2) = _
    rw [Pkt_pack_eq' _ false hwp]; rfl

/-- what follows the 6-byte PES prefix in the decoded TS payload -/
def PES_tail (s : PES) : Bytes := PES_extBytes s ++ (s.pesdata ++ Pkt_stuffing (PES_pkt s))

/-- first byte after the prefix (0 when there is none) -/
def PES_firstByte (s : PES) : Nat := decInt true ((PES_tail s).take 1)

/-- the decoder's heuristic for "an optional header is present": high nibble 8 and the PES packet
    ends exactly where the TS packet ends -/
def looksLikeHeader (s : PES) : Prop := PES_firstByte s / 16 = 8 ∧ (Pkt_stuffing (PES_pkt s)).length = 0
instance (s : PES) : Decidable (looksLikeHeader s) := by unfold looksLikeHeader; infer_instance

theorem PES_decoded_payload (s : PES) (hafc : s.pkt.adaption_ctrl = 1 ∨ s.pkt.adaption_ctrl = 3) :
    (Pkt_decoded (PES_pkt s)).payload = PES_prefix s ++ PES_tail s := by
  have : (PES_pkt s).adaption_ctrl = 1 ∨ (PES_pkt s).adaption_ctrl = 3 := hafc
  have e : (Pkt_decoded (PES_pkt s)).payload = (PES_pkt s).payload ++ Pkt_stuffing (PES_pkt s) := by
    simp only [Pkt_decoded, if_pos this]
  rw [e]
  simp [PES_pkt, PES_payload, PES_tail, List.append_assoc]

/-- decoding a packed header-less PES packet: same stream id, the data followed by the stuffing,
    no optional header — PROVIDED the heuristic does not fire -/
theorem PES_unpack_headerless (s t : PES) (h : PES_WF s) (hs : s.pkt.sync = 0x47)
    (hafc : s.pkt.adaption_ctrl = 1 ∨ s.pkt.adaption_ctrl = 3) (hne : PES.ext s = none)
    (h9 : 3 ≤ (PES_tail s).length) (hnl : ¬ looksLikeHeader s) :
    PES.unpack t (Pkt_bytes (PES_pkt s)) =
      ({ pkt := Pkt_decoded (PES_pkt s), streamid := s.streamid, pesdata := s.pesdata ++ Pkt_stuffing (PES_pkt s),
         extension_w1 := none, extension_w2 := none, header_data := none }, .ok ()) := by
  obtain ⟨hw, hsid, hl, hx⟩ := h
  have hwp : Pkt_WF (PES_pkt s) := hw
  have h2af : (PES_pkt s).adaption_ctrl = 2 → (PES_pkt s).adaption_field.isSome = true := by
    intro c; have : s.pkt.adaption_ctrl = 2 := c; omega
  have hpl := PES_decoded_payload s hafc
  have hext : PES_extBytes s = [] := by simp [PES_extBytes, PES_ext, hne]
  unfold PES.unpack
  rw [Pkt_unpack_bytes (PES_pkt s) t.pkt hwp hs h2af]
  simp only [hpl]
  have hfit : Fits PES_unpack_fmt0.codes [0, 1, s.streamid, PES_len s] := by
    simp [Fits, PES_unpack_fmt0, Code.bound]; omega
  have h0 : structUnpackFrom PES_unpack_fmt0 (PES_prefix s ++ PES_tail s) 0 = .ok [0, 1, s.streamid, PES_len s] := by
    have := structUnpackFrom_enc0 PES_unpack_fmt0 [0, 1, s.streamid, PES_len s] (PES_tail s) hfit
    simpa [encCodes, PES_unpack_fmt0, Code.size, PES_prefix, List.append_assoc] using this
  have h1 : structUnpackFrom PES_unpack_fmt1 (PES_prefix s ++ PES_tail s) 6 =
      .ok (unpackCodes true PES_unpack_fmt1.codes (PES_tail s)) := by
    have hsz : 6 + PES_unpack_fmt1.size ≤ (PES_prefix s ++ PES_tail s).length := by
      simp [PES_unpack_fmt1, Fmt.size, codesSize, Code.size]; omega
    simp only [structUnpackFrom, hsz, if_true]
    rw [drop_append_len _ _ _ (by simp)]
    rfl
  simp only [h0, h1]
  have hlen : (PES_prefix s ++ PES_tail s).length = PES_len s + 6 + (Pkt_stuffing (PES_pkt s)).length := by
    simp [PES_tail, PES_len]; omega
  have hcond : ¬ (decInt true (List.take 1 (PES_tail s)) / 16 = 8 ∧
      (PES_prefix s ++ PES_tail s).length = PES_len s + 6) := by
    intro ⟨c1, c2⟩
    exact hnl ⟨c1, by omega⟩
  simp only [PES_unpack_fmt1, unpackCodes, Code.size, hcond, if_false]
  have hdrop : List.drop 6 (PES_prefix s ++ PES_tail s) = s.pesdata ++ Pkt_stuffing (PES_pkt s) := by
    rw [drop_append_len _ _ _ (by simp)]; simp [PES_tail, hext]
  simp [hdrop]

/-- the same when fewer than 3 bytes follow the 6-byte prefix (a short header-less packet filled by adaptation
    stuffing): since the `fix:` commit da005f6 the decoder does not peek for the optional header there -/
theorem PES_unpack_headerless_short (s t : PES) (h : PES_WF s) (hs : s.pkt.sync = 0x47)
    (hafc : s.pkt.adaption_ctrl = 1 ∨ s.pkt.adaption_ctrl = 3) (hne : PES.ext s = none)
    (h8 : (PES_tail s).length < 3) :
    PES.unpack t (Pkt_bytes (PES_pkt s)) =
      ({ pkt := Pkt_decoded (PES_pkt s), streamid := s.streamid, pesdata := s.pesdata ++ Pkt_stuffing (PES_pkt s),
         extension_w1 := none, extension_w2 := none, header_data := none }, .ok ()) := by
  obtain ⟨hw, hsid, hl, hx⟩ := h
  have hwp : Pkt_WF (PES_pkt s) := hw
  have h2af : (PES_pkt s).adaption_ctrl = 2 → (PES_pkt s).adaption_field.isSome = true := by
    intro c; have : s.pkt.adaption_ctrl = 2 := c; omega
  have hpl := PES_decoded_payload s hafc
  have hext : PES_extBytes s = [] := by simp [PES_extBytes, PES_ext, hne]
  unfold PES.unpack
  rw [Pkt_unpack_bytes (PES_pkt s) t.pkt hwp hs h2af]
  simp only [hpl]
  have hfit : Fits PES_unpack_fmt0.codes [0, 1, s.streamid, PES_len s] := by
    simp [Fits, PES_unpack_fmt0, Code.bound]; omega
  have h0 : structUnpackFrom PES_unpack_fmt0 (PES_prefix s ++ PES_tail s) 0 = .ok [0, 1, s.streamid, PES_len s] := by
    have := structUnpackFrom_enc0 PES_unpack_fmt0 [0, 1, s.streamid, PES_len s] (PES_tail s) hfit
    simpa [encCodes, PES_unpack_fmt0, Code.size, PES_prefix, List.append_assoc] using this
  have hlt : (PES_prefix s ++ PES_tail s).length < 9 := by simp; omega
  simp only [h0, hlt, if_true]
  have hdrop : List.drop 6 (PES_prefix s ++ PES_tail s) = s.pesdata ++ Pkt_stuffing (PES_pkt s) := by
    rw [drop_append_len _ _ _ (by simp)]; simp [PES_tail, hext]
  simp [hdrop]

/-- header-less packets of every size: the heuristic must not fire when there is room for it to look -/
theorem PES_unpack_headerless_any (s t : PES) (h : PES_WF s) (hs : s.pkt.sync = 0x47)
    (hafc : s.pkt.adaption_ctrl = 1 ∨ s.pkt.adaption_ctrl = 3) (hne : PES.ext s = none)
    (hnl : 3 ≤ (PES_tail s).length → ¬ looksLikeHeader s) :
    PES.unpack t (Pkt_bytes (PES_pkt s)) =
      ({ pkt := Pkt_decoded (PES_pkt s), streamid := s.streamid, pesdata := s.pesdata ++ Pkt_stuffing (PES_pkt s),
         extension_w1 := none, extension_w2 := none, header_data := none }, .ok ()) := by
  by_cases h9 : 3 ≤ (PES_tail s).length
  · exact PES_unpack_headerless s t h hs hafc hne h9 (hnl h9)
  · exact PES_unpack_headerless_short s t h hs hafc hne (by omega)

/-- decoding a packed PES packet WITH the optional header: recognised when the first flag byte has
    high nibble 8 and the PES packet fills the TS packet exactly; all fields come back -/
theorem PES_unpack_header (s t : PES) (h : PES_WF s) (hs : s.pkt.sync = 0x47)
    (hafc : s.pkt.adaption_ctrl = 1 ∨ s.pkt.adaption_ctrl = 3) (w1 w2 : Nat) (hd : Bytes)
    (he : PES.ext s = some (w1, w2, hd)) (hw1 : w1 / 16 = 8) (hfull : (Pkt_stuffing (PES_pkt s)).length = 0) :
    PES.unpack t (Pkt_bytes (PES_pkt s)) =
      ({ pkt := Pkt_decoded (PES_pkt s), streamid := s.streamid, pesdata := s.pesdata,
         extension_w1 := some w1, extension_w2 := some w2, header_data := some hd }, .ok ()) := by
  obtain ⟨hw, hsid, hl, hx⟩ := h
  obtain ⟨b1, b2, b3⟩ := hx w1 w2 hd he
  have hwp : Pkt_WF (PES_pkt s) := hw
  have h2af : (PES_pkt s).adaption_ctrl = 2 → (PES_pkt s).adaption_field.isSome = true := by
    intro c; have : s.pkt.adaption_ctrl = 2 := c; omega
  have hpl := PES_decoded_payload s hafc
  have hst : Pkt_stuffing (PES_pkt s) = [] := List.eq_nil_of_length_eq_zero hfull
  have hext : PES_extBytes s = encInt true 1 w1 ++ (encInt true 1 w2 ++ (encInt true 1 hd.length ++ hd)) := by
    simp [PES_extBytes, PES_ext, he]
  have htail : PES_tail s = encInt true 1 w1 ++ (encInt true 1 w2 ++ (encInt true 1 hd.length ++ (hd ++ s.pesdata))) := by
    simp [PES_tail, hext, hst, List.append_assoc]
  unfold PES.unpack
  rw [Pkt_unpack_bytes (PES_pkt s) t.pkt hwp hs h2af]
  simp only [hpl]
  have hfit : Fits PES_unpack_fmt0.codes [0, 1, s.streamid, PES_len s] := by
    simp [Fits, PES_unpack_fmt0, Code.bound]; omega
  have h0 : structUnpackFrom PES_unpack_fmt0 (PES_prefix s ++ PES_tail s) 0 = .ok [0, 1, s.streamid, PES_len s] := by
    have := structUnpackFrom_enc0 PES_unpack_fmt0 [0, 1, s.streamid, PES_len s] (PES_tail s) hfit
    simpa [encCodes, PES_unpack_fmt0, Code.size, PES_prefix, List.append_assoc] using this
  have hfit1 : Fits PES_unpack_fmt1.codes [w1, w2, hd.length] := by
    simp [Fits, PES_unpack_fmt1, Code.bound]; omega
  have h1 : structUnpackFrom PES_unpack_fmt1 (PES_prefix s ++ PES_tail s) 6 = .ok [w1, w2, hd.length] := by
    have := structUnpackFrom_enc PES_unpack_fmt1 [w1, w2, hd.length] (PES_prefix s) (hd ++ s.pesdata) hfit1 6 (by simp)
    simpa [encCodes, PES_unpack_fmt1, Code.size, htail, List.append_assoc] using this
  have h2 : structUnpackFrom PES_unpack_fmt2 (PES_prefix s ++ PES_tail s) 6 = .ok [w1, w2, hd.length] := h1
  have hlen : (PES_prefix s ++ PES_tail s).length = PES_len s + 6 := by
    simp [PES_tail, PES_len, hst]; omega
  have h3 : ¬ (PES_len s + 6 < 9) := by
    have : 3 ≤ PES_len s := by simp [PES_len, hext]; omega
    omega
  simp only [h0, h1, h2, hw1, hlen, h3, if_false]
  have hsl : slice (PES_prefix s ++ PES_tail s) 9 (9 + hd.length) = hd := by
    rw [htail, ← List.append_assoc (encInt true 1 w2), ← List.append_assoc (encInt true 1 w1),
      ← List.append_assoc (PES_prefix s)]
    exact slice_mid _ _ _ _ _ (by simp) (by simp)
  have hdr : List.drop (9 + hd.length) (PES_prefix s ++ PES_tail s) = s.pesdata := by
    rw [htail, ← List.append_assoc (encInt true 1 hd.length), ← List.append_assoc (encInt true 1 w2),
      ← List.append_assoc (encInt true 1 w1), ← List.append_assoc (PES_prefix s)]
    exact drop_append_len _ _ _ (by simp; omega)
  simp [hsl, hdr]

/-- the bytes summed by the checksum: key, BER length, tag 2 / length 8 / time, tag 1 / length 2 -/
def STANAG_prot (tm : Nat) : Bytes :=
  STANAG4609_UNIVERSAL_KEY ++ (encInt true 1 STANAG4609_LEN ++ (encInt true 1 STANAG4609_DATA_TAG ++
    (encInt true 1 STANAG4609_DTAG_LEN ++ (encInt true 8 tm ++ (encInt true 1 STANAG4609_TIME_TAG ++
      encInt true 1 STANAG4609_TTAG_LEN)))))

theorem STANAG_prot_length (tm : Nat) : (STANAG_prot tm).length = 29 := by
  simp [STANAG_prot, STANAG4609_UNIVERSAL_KEY]

/-- the 36 bytes of PES data `STANAG4609.pack` builds -/
def STANAG_data (c u1 u2 tm : Nat) : Bytes :=
  (encInt true 2 c ++ (encInt true 1 u1 ++ encInt true 2 u2)) ++ (STANAG_prot tm ++
    encInt true 2 (checksum_stanag (STANAG_prot tm)))

theorem STANAG_data_length (c u1 u2 tm : Nat) : (STANAG_data c u1 u2 tm).length = 36 := by
  simp [STANAG_data, STANAG_prot_length]

/-- the checks `STANAG4609.unpack` performs after `PES.unpack`, on the metadata `pack` builds -/
theorem STANAG_tail (t : STANAG) (buf : Bytes) (p : PES) (c u1 u2 tm : Nat)
    (hc : c < 65536) (hu1 : u1 < 256) (hu2 : u2 < 65536) (htm : tm < 18446744073709551616)
    (hp : PES.unpack t.pes buf = (p, .ok ())) (hpid : p.pkt.pid = 260) (hd : p.pesdata = STANAG_data c u1 u2 tm) :
    STANAG.unpack t buf = ({ pes := p, stanag_counter := c, unknown := u1, unknown2 := u2, time_us := tm }, .ok ()) := by
  have hcs : checksum_stanag (STANAG_prot tm) < 65536 := by unfold checksum_stanag; omega
  have hpl := STANAG_prot_length tm
  unfold STANAG.unpack
  rw [hp]
  simp only [hpid, hd, STANAG4609_PID]
  have f0 : Fits STANAG_unpack_fmt0.codes [c, u1, u2] := by simp [Fits, STANAG_unpack_fmt0, Code.bound]; omega
  have h0 : structUnpackFrom STANAG_unpack_fmt0 (STANAG_data c u1 u2 tm) 0 = .ok [c, u1, u2] := by
    have := structUnpackFrom_enc0 STANAG_unpack_fmt0 [c, u1, u2]
      (STANAG_prot tm ++ encInt true 2 (checksum_stanag (STANAG_prot tm))) f0
    simpa [encCodes, STANAG_unpack_fmt0, Code.size, STANAG_data, List.append_assoc] using this
  have hkey : slice (STANAG_data c u1 u2 tm) STANAG4609_UNKNOWN_OFFSET (STANAG4609_UNIVERSAL_KEY.length + STANAG4609_UNKNOWN_OFFSET)
      = STANAG4609_UNIVERSAL_KEY := by
    unfold STANAG_data STANAG_prot
    simp only [List.append_assoc]
    rw [← List.append_assoc (encInt true 1 u1), ← List.append_assoc (encInt true 2 c)]
    exact slice_mid _ _ _ _ _ (by simp [STANAG4609_UNKNOWN_OFFSET]) (by simp [STANAG4609_UNKNOWN_OFFSET]; omega)
  have f1 : Fits STANAG_unpack_fmt1.codes [STANAG4609_LEN, STANAG4609_DATA_TAG, STANAG4609_DTAG_LEN] := by decide
  have h1 : structUnpackFrom STANAG_unpack_fmt1 (STANAG_data c u1 u2 tm) (STANAG4609_UNIVERSAL_KEY.length + STANAG4609_UNKNOWN_OFFSET)
      = .ok [STANAG4609_LEN, STANAG4609_DATA_TAG, STANAG4609_DTAG_LEN] := by
    have := structUnpackFrom_enc STANAG_unpack_fmt1 [STANAG4609_LEN, STANAG4609_DATA_TAG, STANAG4609_DTAG_LEN]
      (encInt true 2 c ++ (encInt true 1 u1 ++ encInt true 2 u2) ++ STANAG4609_UNIVERSAL_KEY)
      (encInt true 8 tm ++ (encInt true 1 STANAG4609_TIME_TAG ++ (encInt true 1 STANAG4609_TTAG_LEN ++
        encInt true 2 (checksum_stanag (STANAG_prot tm))))) f1
      (STANAG4609_UNIVERSAL_KEY.length + STANAG4609_UNKNOWN_OFFSET) (by simp [STANAG4609_UNKNOWN_OFFSET]; omega)
    simpa [encCodes, STANAG_unpack_fmt1, Code.size, STANAG_data, STANAG_prot, List.append_assoc] using this
  have f2 : Fits STANAG_unpack_fmt2.codes [tm, STANAG4609_TIME_TAG, STANAG4609_TTAG_LEN, checksum_stanag (STANAG_prot tm)] := by
    simp [Fits, STANAG_unpack_fmt2, Code.bound, STANAG4609_TIME_TAG, STANAG4609_TTAG_LEN]; omega
  have h2 : structUnpackFrom STANAG_unpack_fmt2 (STANAG_data c u1 u2 tm) (STANAG4609_UNIVERSAL_KEY.length + STANAG4609_UNKNOWN_OFFSET + 3)
      = .ok [tm, STANAG4609_TIME_TAG, STANAG4609_TTAG_LEN, checksum_stanag (STANAG_prot tm)] := by
    have := structUnpackFrom_enc STANAG_unpack_fmt2 [tm, STANAG4609_TIME_TAG, STANAG4609_TTAG_LEN, checksum_stanag (STANAG_prot tm)]
      (encInt true 2 c ++ (encInt true 1 u1 ++ encInt true 2 u2) ++ STANAG4609_UNIVERSAL_KEY ++
        (encInt true 1 STANAG4609_LEN ++ (encInt true 1 STANAG4609_DATA_TAG ++ encInt true 1 STANAG4609_DTAG_LEN)))
      [] f2
      (STANAG4609_UNIVERSAL_KEY.length + STANAG4609_UNKNOWN_OFFSET + 3) (by simp [STANAG4609_UNKNOWN_OFFSET]; omega)
    simpa [encCodes, STANAG_unpack_fmt2, Code.size, STANAG_data, STANAG_prot, List.append_assoc] using this
  have hsl : slice (STANAG_data c u1 u2 tm) STANAG4609_UNKNOWN_OFFSET ((STANAG_data c u1 u2 tm).length - 2) = STANAG_prot tm := by
    rw [STANAG_data_length]
    unfold STANAG_data
    exact slice_mid _ _ _ _ _ (by simp [STANAG4609_UNKNOWN_OFFSET]) (by simp [hpl])
  simp only [h0, hkey, h1, h2, hsl]
  simp [STANAG4609_DATA_TAG, STANAG4609_DTAG_LEN]

def STANAG_WF (s : STANAG) : Prop :=
  s.stanag_counter < 65536 ∧ s.unknown < 256 ∧ s.unknown2 < 65536 ∧ s.time_us < 18446744073709551616
instance (s : STANAG) : Decidable (STANAG_WF s) := by unfold STANAG_WF; infer_instance

/-- the PES object `STANAG4609.pack` hands to `PES.pack`: PID forced, metadata rebuilt -/
def STANAG_pes (s : STANAG) : PES :=
  { s.pes with pkt := { s.pes.pkt with pid := STANAG4609_PID },
               pesdata := STANAG_data s.stanag_counter s.unknown s.unknown2 s.time_us }

theorem STANAG_pack_eq (s : STANAG) (h : STANAG_WF s) :
    STANAG.pack s = ({ s with pes := (PES.pack (STANAG_pes s)).1 }, (PES.pack (STANAG_pes s)).2) := by
  obtain ⟨h1, h2, h3, h4⟩ := h
  have f0 : Fits STANAG_pack_fmt0.codes [s.stanag_counter, s.unknown, s.unknown2] := by
    simp [Fits, STANAG_pack_fmt0, Code.bound]; omega
  have f1 : Fits STANAG_pack_fmt1.codes [STANAG4609_LEN, STANAG4609_DATA_TAG, STANAG4609_DTAG_LEN] := by decide
  have f2 : Fits STANAG_pack_fmt2.codes [s.time_us] := by simp [Fits, STANAG_pack_fmt2, Code.bound]; omega
  have f3 : Fits STANAG_pack_fmt3.codes [STANAG4609_TIME_TAG, STANAG4609_TTAG_LEN] := by decide
  unfold STANAG.pack
  simp only [structPack_eq _ _ f0, structPack_eq _ _ f1, structPack_eq _ _ f2, structPack_eq _ _ f3]
  have hD : encCodes STANAG_pack_fmt0.big STANAG_pack_fmt0.codes [s.stanag_counter, s.unknown, s.unknown2] ++
      STANAG4609_UNIVERSAL_KEY ++
      encCodes STANAG_pack_fmt1.big STANAG_pack_fmt1.codes [STANAG4609_LEN, STANAG4609_DATA_TAG, STANAG4609_DTAG_LEN] ++
      encCodes STANAG_pack_fmt2.big STANAG_pack_fmt2.codes [s.time_us] ++
      encCodes STANAG_pack_fmt3.big STANAG_pack_fmt3.codes [STANAG4609_TIME_TAG, STANAG4609_TTAG_LEN] =
      (encInt true 2 s.stanag_counter ++ (encInt true 1 s.unknown ++ encInt true 2 s.unknown2)) ++ STANAG_prot s.time_us := by
    simp [encCodes, STANAG_pack_fmt0, STANAG_pack_fmt1, STANAG_pack_fmt2, STANAG_pack_fmt3, Code.size, STANAG_prot,
      List.append_assoc]
  rw [hD]
  have hdrop : List.drop STANAG4609_UNKNOWN_OFFSET
      ((encInt true 2 s.stanag_counter ++ (encInt true 1 s.unknown ++ encInt true 2 s.unknown2)) ++ STANAG_prot s.time_us)
      = STANAG_prot s.time_us := drop_append_len _ _ _ (by simp [STANAG4609_UNKNOWN_OFFSET])
  rw [hdrop]
  have hcs : checksum_stanag (STANAG_prot s.time_us) < 65536 := by unfold checksum_stanag; omega
  have f4 : Fits STANAG_pack_fmt4.codes [checksum_stanag (STANAG_prot s.time_us)] := by
    simp only [Fits, STANAG_pack_fmt4, Code.bound, and_true]; exact hcs
  simp only [structPack_eq _ _ f4]
  have : (encInt true 2 s.stanag_counter ++ (encInt true 1 s.unknown ++ encInt true 2 s.unknown2)) ++ STANAG_prot s.time_us ++
      encCodes STANAG_pack_fmt4.big STANAG_pack_fmt4.codes [checksum_stanag (STANAG_prot s.time_us)]
      = STANAG_data s.stanag_counter s.unknown s.unknown2 s.time_us := by
    simp [STANAG_data, encCodes, STANAG_pack_fmt4, Code.size, List.append_assoc]
  rw [this]
  rfl

/-- what decoding the packed STANAG packet gives -/
def STANAG_decoded (s : STANAG) (w : Option (Nat × Nat × Bytes)) : STANAG :=
  { pes := { pkt := Pkt_decoded (PES_pkt (STANAG_pes s)), streamid := s.pes.streamid,
             pesdata := STANAG_data s.stanag_counter s.unknown s.unknown2 s.time_us,
             extension_w1 := w.map (·.1), extension_w2 := w.map (·.2.1), header_data := w.map (·.2.2) },
    stanag_counter := s.stanag_counter, unknown := s.unknown, unknown2 := s.unknown2, time_us := s.time_us }

theorem STANAG_unpack_headerless (s t : STANAG) (h : STANAG_WF s) (hw : PES_WF (STANAG_pes s))
    (hs : s.pes.pkt.sync = 0x47) (hafc : s.pes.pkt.adaption_ctrl = 1 ∨ s.pes.pkt.adaption_ctrl = 3)
    (hne : PES.ext s.pes = none) (hfull : Pkt_used (PES_pkt (STANAG_pes s)) = 188)
    (hnl : ¬ looksLikeHeader (STANAG_pes s)) :
    STANAG.unpack t (Pkt_bytes (PES_pkt (STANAG_pes s))) = (STANAG_decoded s none, .ok ()) := by
  obtain ⟨h1, h2, h3, h4⟩ := h
  have hst : Pkt_stuffing (PES_pkt (STANAG_pes s)) = [] := by simp [Pkt_stuffing, hfull]
  have hne' : PES.ext (STANAG_pes s) = none := hne
  have h9 : 3 ≤ (PES_tail (STANAG_pes s)).length := by
    simp [PES_tail, STANAG_pes, STANAG_data_length]; omega
  have hp := PES_unpack_headerless (STANAG_pes s) t.pes hw hs hafc hne' h9 hnl
  rw [hst, List.append_nil] at hp
  exact STANAG_tail t _ _ _ _ _ _ h1 h2 h3 h4 hp rfl rfl

theorem STANAG_unpack_header (s t : STANAG) (h : STANAG_WF s) (hw : PES_WF (STANAG_pes s))
    (hs : s.pes.pkt.sync = 0x47) (hafc : s.pes.pkt.adaption_ctrl = 1 ∨ s.pes.pkt.adaption_ctrl = 3)
    (w1 w2 : Nat) (hd : Bytes) (he : PES.ext s.pes = some (w1, w2, hd)) (hw1 : w1 / 16 = 8)
    (hfull : Pkt_used (PES_pkt (STANAG_pes s)) = 188) :
    STANAG.unpack t (Pkt_bytes (PES_pkt (STANAG_pes s))) = (STANAG_decoded s (some (w1, w2, hd)), .ok ()) := by
  obtain ⟨h1, h2, h3, h4⟩ := h
  have he' : PES.ext (STANAG_pes s) = some (w1, w2, hd) := he
  have hp := PES_unpack_header (STANAG_pes s) t.pes hw hs hafc w1 w2 hd he' hw1 (by simp [Pkt_stuffing, hfull])
  exact STANAG_tail t _ _ _ _ _ _ h1 h2 h3 h4 hp rfl rfl

end Acra.Lemmas.PES
