/-
  Declarative wire layouts written from the format descriptions (field order, widths, byte
  order, length rules).  Independent of the models and NOT regenerated from the source.
-/
import Acra.Py.Basic
namespace Acra.Spec
open Acra.Py

/-- iNET-X: seven big-endian 32-bit words (control, stream id, sequence, total length in bytes,
    PTP seconds, PTP nanoseconds, PIF) followed by the payload; the length counts the 28-byte header. -/
def iNetX.encode (control streamid sequence secs nanos pif : Nat) (payload : Bytes) : Bytes :=
  beBytes 4 control ++ beBytes 4 streamid ++ beBytes 4 sequence ++ beBytes 4 (28 + payload.length) ++
  beBytes 4 secs ++ beBytes 4 nanos ++ beBytes 4 pif ++ payload

end Acra.Spec
