/-
  Declarative wire layouts written from the format descriptions (field order, widths, byte
  order, length rules).  Independent of the models and NOT regenerated from the source.
-/
import Acra.Py.Basic
namespace Acra.Spec
open Acra.Py

/-- iNET-X: seven big-endian 32-bit words (control, stream id, sequence, total length in bytes,
    PTP seconds, PTP nanoseconds, PIF) followed by the payload; the length counts the 28-byte header. -/
def iNetX.encode (control streamid sequence secs nanos pif : Nat) (payload : Bytes) : Bytes :=
  beBytes 4 control ++ beBytes 4 streamid ++ beBytes 4 sequence ++ beBytes 4 (28 + payload.length) ++
  beBytes 4 secs ++ beBytes 4 nanos ++ beBytes 4 pif ++ payload

end Acra.Spec

namespace Acra.Spec
open Acra.Py

/-- IENA: key(16) size-in-16-bit-words(16) time-of-year-in-µs(48) key-status(8) N2-status(8)
    sequence(16), parameters, end field(16); all big-endian; size counts header and trailer. -/
def IENA.encode (key timeusec keystatus status sequence endfield : Nat) (payload : Bytes) : Bytes :=
  beBytes 2 key ++ beBytes 2 ((16 + payload.length) / 2) ++ beBytes 6 timeusec ++ beBytes 1 keystatus ++
  beBytes 1 status ++ beBytes 2 sequence ++ payload ++ beBytes 2 endfield

/-- IENA-M parameter: id(16) delay(16) dataset-length-in-bytes(16) dataset, zero-padded to 16 bits -/
def IENAM.encodeParam (paramid delay : Nat) (dataset : Bytes) : Bytes :=
  beBytes 2 paramid ++ beBytes 2 delay ++ beBytes 2 dataset.length ++ dataset ++
    (if dataset.length % 2 = 1 then [0] else [])

end Acra.Spec
