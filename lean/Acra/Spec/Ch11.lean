/-
  Declarative wire layouts of the IRIG 106 Chapter 11 data-type payloads (family ch11), written from
  IRIG 106-22 Chapter 11 (§11.2.2 PCM, §11.2.3 time, §11.2.4 MIL-STD-1553, §11.2.5 analog, §11.2.7
  computer-generated data, §11.2.8 ARINC-429, §11.2.11 UART, §11.2.6 video) and, where the library
  adds conventions of its own (the UART byte-order option, the time-format-1 calendar fields), from
  the class docstrings.  Independent of the models and NOT regenerated from the source.
  All multi-byte fields are little-endian unless said otherwise.
-/
import Acra.Py.Basic
namespace Acra.Spec.Ch11
open Acra.Py

/-- intra-packet time stamp, 64 bits: a 48-bit relative time counter followed by 16 zero bits, or
    IEEE-1588 time as nanoseconds (32) then seconds (32); absent = no bytes -/
inductive TS where
  | rtc (count : Nat)
  | ptp (seconds nanoseconds : Nat)
  | absent

def TS.encode : TS → Bytes
  | .rtc c => leBytes 6 c ++ [0, 0]
  | .ptp s ns => leBytes 4 ns ++ leBytes 4 s
  | .absent => []

def bit (b : Bool) (k : Nat) : Nat := if b then 2 ^ k else 0

/-- swap the two bytes of every 16-bit word (even-length input) -/
def swapPairs : Bytes → Bytes
  | a :: b :: rest => b :: a :: swapPairs rest
  | r => r

/-- UART format 0 data word: [time stamp] · data length (16) · parity error (bit 15) | sub-channel
    (bits 13..0) · data bytes, filled with 0xFF to a 16-bit boundary; with the library's little-endian
    option the filled data is stored with the bytes of each 16-bit word exchanged -/
def uartWord (ts : TS) (parityError : Bool) (subchannel : Nat) (data : Bytes) (little : Bool) : Bytes :=
  let filled := data ++ (if data.length % 2 = 1 then [0xFF] else [])
  ts.encode ++ leBytes 2 data.length ++ leBytes 2 (bit parityError 15 + subchannel) ++
    (if little then swapPairs filled else filled)

/-- UART format 0 packet: channel-specific word with bit 31 = intra-packet time stamps present -/
def uartPacket (iph : Bool) (words : List Bytes) : Bytes := leBytes 4 (bit iph 31) ++ words.flatten

/-- MIL-STD-1553 format 1 message: time stamp · block status (16) · gap times (16) · length (16) · data -/
def milMessage (ts : TS) (blockstatus gaptimes : Nat) (data : Bytes) : Bytes :=
  ts.encode ++ leBytes 2 blockstatus ++ leBytes 2 gaptimes ++ leBytes 2 data.length ++ data

/-- MIL-STD-1553 format 1 packet: CSW = time-tag bits (31..30) | message count (23..0) -/
def milPacket (ttb : Nat) (msgs : List Bytes) : Bytes := leBytes 4 (ttb * 2 ^ 30 + msgs.length) ++ msgs.flatten

/-- ARINC-429 format 0 word: bus (31..24) | format error (23) | parity error (22) | bus speed (21) |
    gap time (19..0), then the 32-bit ARINC word -/
def arincWord (bus : Nat) (formatError parityError : Bool) (speed gap : Nat) (data : Bytes) : Bytes :=
  leBytes 4 (bus * 2 ^ 24 + bit formatError 23 + bit parityError 22 + speed * 2 ^ 21 + gap) ++ data

/-- ARINC-429 format 0 packet: message count (16) · reserved (16) · words -/
def arincPacket (words : List Bytes) : Bytes := leBytes 2 words.length ++ leBytes 2 0 ++ words.flatten

/-- PCM format 1, packed/unpacked mode minor frame: time stamp · intra-packet data header (16 bits
    in 16-bit alignment, 32 bits in 32-bit alignment) · frame data · one fill byte when the total is odd -/
def pcmFrame (ts : TS) (align32 : Bool) (hdr : Nat) (data : Bytes) : Bytes :=
  let b := ts.encode ++ leBytes (if align32 then 4 else 2) hdr ++ data
  b ++ (if b.length % 2 = 1 then [0] else [])

/-- PCM format 1 packet: channel-specific word, then the frames (throughput mode: the raw data) -/
def pcmPacket (csw : Nat) (frames : List Bytes) : Bytes := leBytes 4 csw ++ frames.flatten

/-- two BCD digits in one byte: tens in the high nibble -/
def bcdByte (v : Nat) : Nat := (v / 10 % 10) * 16 + v % 10

/-- time format 1, day-month-year: CSW · hundredths|tens of ms · seconds · minutes · hours · day ·
    month · year (four BCD digits, low pair first) -/
def time1DMY (csw hundredths sec min hour day month year : Nat) : Bytes :=
  leBytes 4 csw ++ ([bcdByte hundredths, bcdByte sec, bcdByte min, bcdByte hour, bcdByte day, bcdByte month,
    bcdByte (year % 100), bcdByte (year / 100)].map UInt8.ofNat)

/-- time format 1, day of year: … hours · day-of-year units and tens · day-of-year hundreds -/
def time1DOY (csw hundredths sec min hour doy : Nat) : Bytes :=
  leBytes 4 csw ++ ([bcdByte hundredths, bcdByte sec, bcdByte min, bcdByte hour, bcdByte (doy % 100),
    bcdByte (doy / 100)].map UInt8.ofNat)

/-- time format 2 (network time): CSW · seconds · fraction (nanoseconds for the IEEE-1588 codes,
    2^-32 s units for NTP) -/
def time2 (csw seconds fraction : Nat) : Bytes := leBytes 4 csw ++ leBytes 4 seconds ++ leBytes 4 fraction

/-- analog / computer-generated format 0: channel-specific word then the data -/
def cswData (csw : Nat) (data : Bytes) : Bytes := leBytes 4 csw ++ data

/-- computer-generated format 1 (setup record): CSW = format (bit 9) | configuration change (bit 8) |
    RCC 106 version (7..0) -/
def setupRecord (frmt srcc rccver : Nat) (data : Bytes) : Bytes := leBytes 4 (frmt * 2 ^ 9 + srcc * 2 ^ 8 + rccver) ++ data

/-- video format 2: CSW then whole 188-byte transport-stream packets in order -/
def video2 (csw : Nat) (tsPackets : List Bytes) : Bytes := leBytes 4 csw ++ tsPackets.flatten

end Acra.Spec.Ch11
