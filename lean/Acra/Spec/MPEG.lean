/-
  Declarative layouts of the MPEG family, written from the standards (ISO/IEC 13818-1 transport
  packet, adaptation field, PMT section and PES header; CRC-32/MPEG-2 of Annex A; MISB ST 0601
  local set with its 16-bit running-sum checksum).  Independent of the models and NOT regenerated
  from the source: this is what a symmetric edit to the code cannot follow.
-/
import Acra.Py.Basic
namespace Acra.Spec.MPEG
open Acra.Py

def byte (n : Nat) : UInt8 := UInt8.ofNat (n % 256)

/-- ISO 13818-1 §2.4.3.2 transport packet header:
    sync_byte(8) transport_error_indicator(1) payload_unit_start_indicator(1) transport_priority(1)
    PID(13) transport_scrambling_control(2) adaptation_field_control(2) continuity_counter(4) -/
def tsHeader (sync : Nat) (tei pusi : Bool) (prio pid tsc afc cc : Nat) : Bytes :=
  [byte sync, byte (tei.toNat * 128 + pusi.toNat * 64 + prio * 32 + pid / 256), byte (pid % 256),
   byte (tsc * 64 + afc * 16 + cc)]

def optB : Option Bytes → Bytes
  | some b => b
  | none => []

/-- ISO 13818-1 §2.4.3.4 adaptation field.  `adaptation_field_length` is the number of bytes that
    FOLLOW the length byte; then the flags byte (discontinuity, random access, ES priority, PCR,
    OPCR, splicing point, transport private data, extension), the optional parts in that order
    (PCR 6 bytes, OPCR 6 bytes, splice countdown 1 byte, private-data length byte + data, extension)
    and 0xFF stuffing. -/
def spliceBytes : Option Nat → Bytes
  | some n => [byte n]
  | none => []

def privBytes : Option Bytes → Bytes
  | some p => byte p.length :: p
  | none => []

def afBody (disc ra esp : Bool) (pcr opcr : Option Bytes) (splice : Option Nat) (priv : Option Bytes)
    (ext : Option Bytes) (stuffing : Nat) : Bytes :=
  byte (disc.toNat * 128 + ra.toNat * 64 + esp.toNat * 32 + pcr.isSome.toNat * 16 + opcr.isSome.toNat * 8 +
        splice.isSome.toNat * 4 + priv.isSome.toNat * 2 + ext.isSome.toNat) ::
  (optB pcr ++ optB opcr ++ spliceBytes splice ++ privBytes priv ++ optB ext ++ List.replicate stuffing 0xFF)

def adaptationField (disc ra esp : Bool) (pcr opcr : Option Bytes) (splice : Option Nat) (priv : Option Bytes)
    (ext : Option Bytes) (stuffing : Nat) : Bytes :=
  byte (afBody disc ra esp pcr opcr splice priv ext stuffing).length ::
    afBody disc ra esp pcr opcr splice priv ext stuffing

/-- ISO 13818-1 adaptation field extension, the bytes after the length byte: flags ltw,
    piecewise_rate, seamless_splice, 5 reserved bits set; then ltw (2 bytes), piecewise rate (3 bytes),
    seamless splice (5 bytes). -/
def afExtensionBody (ltw piecewise seamless : Option Bytes) : Bytes :=
  byte (ltw.isSome.toNat * 128 + piecewise.isSome.toNat * 64 + seamless.isSome.toNat * 32 + 0x1F) ::
    (optB ltw ++ optB piecewise ++ optB seamless)

/-- ISO 13818-1 adaptation field extension: `adaptation_field_extension_length` = number of bytes
    that FOLLOW it, then the body. -/
def afExtension (ltw piecewise seamless : Option Bytes) : Bytes :=
  byte (afExtensionBody ltw piecewise seamless).length :: afExtensionBody ltw piecewise seamless

/-- The extension AS THE LIBRARY CODES IT (encoder and decoder agree with each other, not with ISO):
    the same body, but the length byte also counts ITSELF — ISO's value plus one
    (`MPEGAdaptionExtension.pack`: `_len = 2 + parts`; `unpack`: `payload = buffer[:_len]`).
    Observation E1 of notes/mpeg.md; `Props/C06/MPEGTS.lean` proves `pack` = this function and the
    exact relation to `afExtension`. -/
def extensionAsCoded (ltw piecewise seamless : Option Bytes) : Bytes :=
  byte ((afExtensionBody ltw piecewise seamless).length + 1) :: afExtensionBody ltw piecewise seamless

/-! ### CRC-32/MPEG-2 (ISO 13818-1 Annex A): polynomial 0x04C11DB7, register initialised to all
    ones, bits fed most significant first, no reflection, no final XOR.  The register is 32 bits;
    at each step the incoming bit is added to the bit leaving the register and fed back into the
    taps. -/
def crcPoly : Nat := 0x04C11DB7

def crcBit (reg : Nat) (bit : Bool) : Nat :=
  let out : Bool := reg / 2147483648 % 2 == 1
  let sh := reg * 2 % 4294967296
  if out != bit then sh ^^^ crcPoly else sh

def bitsMSB (b : UInt8) : List Bool :=
  [b.toNat / 128 % 2 == 1, b.toNat / 64 % 2 == 1, b.toNat / 32 % 2 == 1, b.toNat / 16 % 2 == 1,
   b.toNat / 8 % 2 == 1, b.toNat / 4 % 2 == 1, b.toNat / 2 % 2 == 1, b.toNat % 2 == 1]

def crc32mpeg2 (msg : Bytes) : Nat := (msg.flatMap bitsMSB).foldl crcBit 0xFFFFFFFF

/-! ### Program map section (ISO 13818-1 §2.4.4.8) -/

/-- one descriptor: tag(8) length(8) data -/
def descriptor (tag : Nat) (data : Bytes) : Bytes := byte tag :: byte data.length :: data

/-- one elementary stream: stream_type(8) reserved(3)=111 elementary_PID(13) reserved(4)=1111
    ES_info_length(12) descriptors -/
def esEntry (streamtype pid : Nat) (esinfo : Bytes) : Bytes :=
  byte streamtype :: (beBytes 2 (0xE000 + pid) ++ beBytes 2 (0xF000 + esinfo.length) ++ esinfo)

/-- table_id(8) section_syntax_indicator(1) '0' reserved(2)=11 section_length(12) program_number(16)
    reserved(2)=11 version(5) current_next(1) section_number(8) last_section_number(8) reserved(3)=111
    PCR_PID(13) reserved(4)=1111 program_info_length(12) descriptors, streams, CRC_32.
    `section_length` counts the bytes after itself including the CRC; the CRC covers the section
    from table_id up to the CRC and is stored big-endian. -/
def pmtSection (tableid ssi prog ver cni sec last pcrpid : Nat) (descs : List (Nat × Bytes))
    (streams : List (Nat × Nat × Bytes)) : Bytes :=
  let d := descs.flatMap fun x => descriptor x.1 x.2
  let s := streams.flatMap fun x => esEntry x.1 x.2.1 x.2.2
  let sectionLength := 9 + d.length + s.length + 4
  let body := byte tableid :: (beBytes 2 (ssi * 32768 + 0x3000 + sectionLength) ++ beBytes 2 prog ++
    [byte (0xC0 + ver * 2 + cni), byte sec, byte last] ++ beBytes 2 (0xE000 + pcrpid) ++
    beBytes 2 (0xF000 + d.length) ++ d ++ s)
  body ++ beBytes 4 (crc32mpeg2 body)

/-- payload of a TS packet that starts a PMT section: pointer_field 0, then the section -/
def pmtPayload (tableid ssi prog ver cni sec last pcrpid : Nat) (descs : List (Nat × Bytes))
    (streams : List (Nat × Nat × Bytes)) : Bytes :=
  0 :: pmtSection tableid ssi prog ver cni sec last pcrpid descs streams

/-! ### PES packet (ISO 13818-1 §2.4.3.6) -/

/-- packet_start_code_prefix 0x000001, stream_id(8), PES_packet_length(16) = bytes following it;
    optional header: two flag bytes (the first starts with '10'), PES_header_data_length(8), header data -/
def pesPacket (streamid : Nat) (hdr : Option (Nat × Nat × Bytes)) (data : Bytes) : Bytes :=
  let opt := match hdr with
    | some (w1, w2, hd) => byte w1 :: byte w2 :: byte hd.length :: hd
    | none => []
  [0, 0, 1, byte streamid] ++ beBytes 2 (opt.length + data.length) ++ opt ++ data

/-- 33-bit PTS in 40 bits: '0010' PTS[32..30] marker PTS[29..15] marker PTS[14..0] marker -/
def ptsField (p : Nat) : Nat :=
  2 * 2 ^ 36 + (p / 2 ^ 30 % 8) * 2 ^ 33 + 2 ^ 32 + (p / 2 ^ 15 % 2 ^ 15) * 2 ^ 17 + 2 ^ 16 + (p % 2 ^ 15) * 2 + 1

/-! ### MISB ST 0601 local set as carried by the library (STANAG 4609) -/

/-- MISB 0601 checksum: running 16-bit sum of the bytes taken as big-endian 16-bit words
    (even offsets are the high byte), modulo 2^16 -/
def misbSum : Bytes → Nat
  | [] => 0
  | [a] => a.toNat * 256
  | a :: b :: r => a.toNat * 256 + b.toNat + misbSum r

def misbChecksum (b : Bytes) : Nat := misbSum b % 65536

def uasKey : Bytes := [0x06, 0x0E, 0x2B, 0x34, 0x02, 0x0B, 0x01, 0x01, 0x0E, 0x01, 0x03, 0x01, 0x01, 0x00, 0x00, 0x00]

/-- 16-byte UAS local-set universal key, BER length 14, tag 2 (precision time stamp, 8 bytes,
    microseconds), tag 1 (checksum, 2 bytes) computed over everything from the key up to and
    including the checksum's length byte -/
def uasLocalSet (time_us : Nat) : Bytes :=
  let pre := uasKey ++ [14, 2, 8] ++ beBytes 8 time_us ++ [1, 2]
  pre ++ beBytes 2 (misbChecksum pre)

/-- the library's PES data: counter(16) and two undocumented fields (8, 16 bits), then the local set -/
def stanagData (counter u1 u2 time_us : Nat) : Bytes :=
  beBytes 2 counter ++ [byte u1] ++ beBytes 2 u2 ++ uasLocalSet time_us

end Acra.Spec.MPEG
