/-
  Declarative layouts of the ch10 family, written from IRIG 106 Chapter 10 (§10.3.9 UDP transfer
  headers, formats 1–3) and Chapter 11 (§11.2.1 packet header, secondary header), independent of
  the models and NOT regenerated from the source.  Also: the two arithmetic checksums of the
  standard, the expected targets of the deprecated namespace (C19).
-/
import Acra.Py.Basic
namespace Acra.Spec
open Acra.Py

/-! ### Chapter 10 UDP transfer header -/

/-- Format 1, full packet: byte 0 = format (1) in bits 3..0 and message type in bits 7..4, then the
    24-bit UDP message sequence number, the whole 32-bit word little-endian. -/
def Ch10UDP.fmt1 (type seq : Nat) (payload : Bytes) : Bytes :=
  leBytes 1 (1 + 16 * type) ++ leBytes 3 seq ++ payload

/-- Format 1, segmented packet (type 1): the 4-byte header is followed by channel id (16),
    channel sequence number (8), 8 reserved bits and the 32-bit segment offset, little-endian. -/
def Ch10UDP.fmt1seg (seq channelID channelsequence segmentoffset : Nat) (payload : Bytes) : Bytes :=
  leBytes 1 (1 + 16 * 1) ++ leBytes 3 seq ++ leBytes 2 channelID ++ leBytes 1 channelsequence ++ [0] ++
  leBytes 4 segmentoffset ++ payload

/-- Format 2 (big-endian words): word 0 = sequence number in bits 31..8, type in bits 7..4, format (2)
    in bits 3..0; word 1 = segment offset bits 23..16 in bits 31..24 and the packet size in 32-bit words
    in bits 23..0; word 2 = segment offset bits 15..0 and the channel id. -/
def Ch10UDP.fmt2 (type seq segmentoffset channelID : Nat) (payload : Bytes) : Bytes :=
  beBytes 3 seq ++ beBytes 1 (16 * type + 2) ++
  beBytes 1 (segmentoffset / 65536) ++ beBytes 3 (payload.length / 4) ++
  beBytes 2 (segmentoffset % 65536) ++ beBytes 2 channelID ++ payload

/-- Format 3 (little-endian words): byte 0 = format (3) in bits 3..0 and the source-id length (in
    nibbles) in bits 7..4, byte 1 reserved, bytes 2..3 the offset to the first packet start; the second
    word holds the source id in its top `4·len` bits and the sequence number in the remaining ones. -/
def Ch10UDP.fmt3 (srcidlen sourceid seq offsetPktStart : Nat) (payload : Bytes) : Bytes :=
  leBytes 1 (3 + 16 * srcidlen) ++ [0] ++ leBytes 2 offsetPktStart ++
  leBytes 4 (sourceid * 2 ^ (32 - 4 * srcidlen) + seq) ++ payload

/-- width of the sequence number in format 3 for each source-id length 0..4 -/
def Ch10UDP.fmt3SeqBits (srcidlen : Nat) : Nat := 32 - 4 * srcidlen

/-! ### Chapter 11 checksums (arithmetic sums) -/

/-- sum of the 16-bit little-endian words of a buffer (a trailing odd byte does not occur) -/
def sum16le : Bytes → Nat
  | a :: b :: rest => a.toNat + 256 * b.toNat + sum16le rest
  | _ => 0

/-- sum of the bytes of a buffer -/
def byteSum : Bytes → Nat
  | [] => 0
  | a :: rest => a.toNat + byteSum rest

/-- header checksum: 16-bit arithmetic sum of the first eleven header words -/
def Ch11.hdrChecksum (h22 : Bytes) : Nat := sum16le h22 % 65536
/-- secondary-header checksum: 16-bit arithmetic sum of the first ten secondary-header *bytes*
    (the library's docstring and decoder convention; the text of the standard is not available offline) -/
def Ch11.secChecksum (s10 : Bytes) : Nat := byteSum s10 % 65536

/-! ### Chapter 11 packet -/

/-- the 22 header bytes before the checksum: sync, channel id, packet length, data length, data type
    version, sequence number, packet flags, data type, 48-bit relative time counter; little-endian -/
def Ch11.header22 (sync chid plen dlen dtv seq flag dt rtc : Nat) : Bytes :=
  leBytes 2 sync ++ leBytes 2 chid ++ leBytes 4 plen ++ leBytes 4 dlen ++
  leBytes 1 dtv ++ leBytes 1 seq ++ leBytes 1 flag ++ leBytes 1 dt ++ leBytes 6 rtc

def Ch11.header (sync chid plen dlen dtv seq flag dt rtc : Nat) : Bytes :=
  Ch11.header22 sync chid plen dlen dtv seq flag dt rtc ++
  leBytes 2 (Ch11.hdrChecksum (Ch11.header22 sync chid plen dlen dtv seq flag dt rtc))

/-- IEEE-1588 secondary header: nanoseconds (32), seconds (32), 16 reserved bits, checksum -/
def Ch11.secHeader (seconds nanoseconds : Nat) : Bytes :=
  let t := leBytes 4 nanoseconds ++ leBytes 4 seconds ++ [0, 0]
  t ++ leBytes 2 (Ch11.secChecksum t)

/-- number of 0xFF filler bytes after `n` bytes -/
def Ch11.fillLen (n : Nat) : Nat := (4 - n % 4) % 4

/-- a whole packet: header, optional secondary header, data, filler to a multiple of four bytes;
    packet length = everything, data length = the data without filler -/
def Ch11.encode (sync chid dtv seq flag dt rtc : Nat) (ptp : Option (Nat × Nat)) (payload : Bytes) : Bytes :=
  let sec := match ptp with
    | some (s, ns) => Ch11.secHeader s ns
    | none => []
  let n := 24 + sec.length + payload.length
  Ch11.header sync chid (n + Ch11.fillLen n) payload.length dtv seq flag dt rtc ++ sec ++ payload ++
    List.replicate (Ch11.fillLen n) 0xFF

/-! ### deprecated namespace (C19) -/

/-- the IRIG106 module each module of the deprecated `AcraNetwork.Chapter10` package must re-export
    (a finite table so that statements about it are decidable by evaluation) -/
def Namespace.targets : List (String × String) := [
  ("AcraNetwork.Chapter10", "AcraNetwork.IRIG106.Chapter11"),
  ("AcraNetwork.Chapter10.Chapter10", "AcraNetwork.IRIG106.Chapter11"),
  ("AcraNetwork.Chapter10.Chapter10UDP", "AcraNetwork.IRIG106.Chapter10.Chapter10UDP"),
  ("AcraNetwork.Chapter10.ARINC429", "AcraNetwork.IRIG106.Chapter11.ARINC429"),
  ("AcraNetwork.Chapter10.Analog", "AcraNetwork.IRIG106.Chapter11.Analog"),
  ("AcraNetwork.Chapter10.CAN", "AcraNetwork.IRIG106.Chapter11.CAN"),
  ("AcraNetwork.Chapter10.ComputerData", "AcraNetwork.IRIG106.Chapter11.ComputerData"),
  ("AcraNetwork.Chapter10.MILSTD1553", "AcraNetwork.IRIG106.Chapter11.MILSTD1553"),
  ("AcraNetwork.Chapter10.PCM", "AcraNetwork.IRIG106.Chapter11.PCM"),
  ("AcraNetwork.Chapter10.TimeDataFormat", "AcraNetwork.IRIG106.Chapter11.TimeDataFormat"),
  ("AcraNetwork.Chapter10.UART", "AcraNetwork.IRIG106.Chapter11.UART"),
  ("AcraNetwork.Chapter10.Video", "AcraNetwork.IRIG106.Chapter11.Video")]

def Namespace.expectedTarget (legacy : String) : Option String :=
  (Namespace.targets.find? (fun p => p.1 == legacy)).map (·.2)

/-- names a legacy module may bind besides the re-exports: the `warnings` module (needed for the
    deprecation notice) -/
def Namespace.allowedExtra : List String := ["warnings"]

end Acra.Spec
