/-
  Declarative layouts and standard algorithms for the `net` family, written from the standards
  (IEEE 802.3 / 802.1Q, RFC 791, RFC 768, RFC 826, RFC 792, RFC 3376, RFC 1071, libpcap file format).
  Independent of the models and NOT regenerated from the source.  Core Lean only.
-/
import Acra.Py.Basic
namespace Acra.Spec
open Acra.Py

/-! ### IEEE 802.3 CRC-32 (reflected, polynomial 0xEDB88320, init and final xor 0xFFFFFFFF) -/

def crcPoly : Nat := 0xEDB88320

/-- one shift of the reflected register: the bit shifted out decides whether the polynomial is added -/
def crcStep (r : Nat) : Nat := if r % 2 = 1 then (r / 2) ^^^ crcPoly else r / 2

def crcStep8 (r : Nat) : Nat :=
  crcStep (crcStep (crcStep (crcStep (crcStep (crcStep (crcStep (crcStep r)))))))

/-- one message byte: added to the low end of the register, then eight shifts -/
def crcByte (r : Nat) (b : UInt8) : Nat := crcStep8 (r ^^^ b.toNat)

def crcUpdate (r : Nat) (bs : Bytes) : Nat := bs.foldl crcByte r

/-- CRC-32 of IEEE 802.3 (also `zlib.crc32`); check value: crc32 "123456789" = 0xCBF43926 -/
def crc32 (bs : Bytes) : Nat := crcUpdate 0xFFFFFFFF bs ^^^ 0xFFFFFFFF

/-! ### RFC 1071 Internet checksum -/

/-- the message as big-endian 16-bit words, an odd trailing byte padded with a zero byte -/
def wordsBE : Bytes → List Nat
  | [] => []
  | [a] => [a.toNat * 256]
  | a :: b :: rest => (a.toNat * 256 + b.toNat) :: wordsBE rest

/-- one's-complement addition of two 16-bit words (end-around carry) -/
def onesAdd (a b : Nat) : Nat := if a + b < 65536 then a + b else a + b - 65535

/-- RFC 1071: the 16-bit one's complement of the one's-complement sum of the 16-bit words;
    the value is to be stored big-endian -/
def rfc1071 (bs : Bytes) : Nat := 65535 - (wordsBE bs).foldl onesAdd 0

/-! ### Ethernet II / 802.1Q -/

/-- dst(48) src(48) [0x8100 tag(16)] ethertype(16) payload [FCS: CRC-32 of everything before it,
    least-significant byte first] -/
def Ethernet.body (dst src : Nat) (tag : Option Nat) (type : Nat) (payload : Bytes) : Bytes :=
  beBytes 6 dst ++ beBytes 6 src ++
    (match tag with
     | some t => beBytes 2 0x8100 ++ beBytes 2 t
     | none => []) ++ beBytes 2 type ++ payload

def Ethernet.encode (dst src : Nat) (tag : Option Nat) (type : Nat) (payload : Bytes) (fcs : Bool) : Bytes :=
  let body := Ethernet.body dst src tag type payload
  if fcs then body ++ leBytes 4 (crc32 body) else body

/-! ### IPv4 (RFC 791), option-less header -/

/-- version 4, IHL 5, DSCP/ECN byte, total length, identification, flags(3) ‖ fragment offset in
    8-byte units (13), TTL, protocol, header checksum, source, destination — all big-endian -/
def IPv4.header (dscp totlen ident flags fragUnits ttl proto cksum src dst : Nat) : Bytes :=
  [0x45] ++ beBytes 1 dscp ++ beBytes 2 totlen ++ beBytes 2 ident ++ beBytes 2 (flags * 8192 + fragUnits) ++
  beBytes 1 ttl ++ beBytes 1 proto ++ beBytes 2 cksum ++ beBytes 4 src ++ beBytes 4 dst

/-- the datagram: total length counts header and payload; the checksum is RFC 1071 over the header
    with the checksum field zero; `fragOff` is the fragment offset in bytes (a multiple of 8) -/
def IPv4.encode (dscp ident flags fragOff ttl proto src dst : Nat) (payload : Bytes) : Bytes :=
  let h0 := IPv4.header dscp (20 + payload.length) ident flags (fragOff / 8) ttl proto 0 src dst
  IPv4.header dscp (20 + payload.length) ident flags (fragOff / 8) ttl proto (rfc1071 h0) src dst ++ payload

/-! ### UDP (RFC 768); the library always writes checksum 0 ("no checksum") -/
def UDP.encode (srcport dstport : Nat) (payload : Bytes) : Bytes :=
  beBytes 2 srcport ++ beBytes 2 dstport ++ beBytes 2 (8 + payload.length) ++ beBytes 2 0 ++ payload

/-! ### ARP (RFC 826) for 48-bit hardware and 32-bit protocol addresses: 28 bytes -/
def ARP.encode (htype ptype hlen plen oper sha spa tha tpa : Nat) : Bytes :=
  beBytes 2 htype ++ beBytes 2 ptype ++ beBytes 1 hlen ++ beBytes 1 plen ++ beBytes 2 oper ++
  beBytes 6 sha ++ beBytes 4 spa ++ beBytes 6 tha ++ beBytes 4 tpa

/-! ### ICMP echo-style message (RFC 792): type, code, checksum over the whole message, id, sequence -/
def ICMP.message (type code cksum ident seq : Nat) (payload : Bytes) : Bytes :=
  beBytes 1 type ++ beBytes 1 code ++ beBytes 2 cksum ++ beBytes 2 ident ++ beBytes 2 seq ++ payload

def ICMP.encode (type code ident seq : Nat) (payload : Bytes) : Bytes :=
  ICMP.message type code (rfc1071 (ICMP.message type code 0 ident seq payload)) ident seq payload

/-! ### IGMPv3 (RFC 3376) -/

/-- one group record without sources: record type, aux len 0, number of sources 0, group address -/
def IGMP.groupRecord (mode group : Nat) : Bytes :=
  beBytes 1 mode ++ beBytes 1 0 ++ beBytes 2 0 ++ beBytes 4 group

/-- version 3 membership report (type 0x22): reserved, checksum, reserved, number of records, records.
    The record type is the library's documented choice: CHANGE_TO_EXCLUDE (4) for a single group,
    MODE_IS_EXCLUDE (2) otherwise. -/
def IGMP.reportWith (cksum : Nat) (groups : List Nat) : Bytes :=
  let mode := if groups.length = 1 then 4 else 2
  beBytes 1 0x22 ++ beBytes 1 0 ++ beBytes 2 cksum ++ beBytes 2 0 ++ beBytes 2 groups.length ++
    groups.flatMap (fun g => IGMP.groupRecord mode g)

def IGMP.report (groups : List Nat) : Bytes :=
  IGMP.reportWith (rfc1071 (IGMP.reportWith 0 groups)) groups

/-- general membership query (type 0x11): max resp code 0x18 (2.4 s), checksum, group 0.0.0.0,
    S/QRV byte 2, QQIC 0x20, no sources -/
def IGMP.queryWith (cksum : Nat) : Bytes :=
  beBytes 1 0x11 ++ beBytes 1 0x18 ++ beBytes 2 cksum ++ beBytes 4 0 ++ beBytes 1 2 ++ beBytes 1 0x20 ++ beBytes 2 0

def IGMP.query : Bytes := IGMP.queryWith (rfc1071 (IGMP.queryWith 0))

/-! ### libpcap capture file, little-endian, version 2.4 -/

/-- magic a1b2c3d4, version 2.4, zone 0, sigfigs 0, snaplen 65535, link type 1 (Ethernet) -/
def Pcap.globalHeader : Bytes :=
  leBytes 4 0xA1B2C3D4 ++ leBytes 2 2 ++ leBytes 2 4 ++ leBytes 4 0 ++ leBytes 4 0 ++ leBytes 4 65535 ++ leBytes 4 1

/-- the record: seconds, microseconds, captured length, original length, then the captured bytes -/
def Pcap.record (sec usec incl orig : Nat) (payload : Bytes) : Bytes :=
  leBytes 4 sec ++ leBytes 4 usec ++ leBytes 4 incl ++ leBytes 4 orig ++ payload

/-- a file holding the records `rs` = (sec, usec, payload), lengths in step with the payload -/
def Pcap.file (rs : List (Nat × Nat × Bytes)) : Bytes :=
  Pcap.globalHeader ++ rs.flatMap fun r => Pcap.record r.1 r.2.1 r.2.2.length r.2.2.length r.2.2

end Acra.Spec
