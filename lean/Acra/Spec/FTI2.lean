/-
  Declarative wire layouts of the remaining FTI payload formats, written from the format
  descriptions (IENA parameter types Q/D/N, IRIG 106 chapter 24 iNET/TmNS message and package
  headers, the NPD/DARv3 packet and segment headers as documented in the library's docstrings —
  the NPD standard's text is not available offline, so the docstrings and the decoder's own
  convention are the definition —, and the parser-aligned block header).  Independent of the models
  and NOT regenerated from the source.  All multi-byte fields are big-endian.
-/
import Acra.Py.Basic
namespace Acra.Spec
open Acra.Py

/-- zero bytes that bring `n` bytes up to a multiple of four -/
def pad4 (n : Nat) (fill : UInt8) : Bytes := List.replicate ((4 - n % 4) % 4) fill

/-- IENA-Q parameter: id(16) dataset-length-in-bytes(16) dataset, zero-padded to 16 bits -/
def IENAQ.encodeParam (paramid : Nat) (dataset : Bytes) : Bytes :=
  beBytes 2 paramid ++ beBytes 2 dataset.length ++ dataset ++ (if dataset.length % 2 = 1 then [0] else [])

/-- IENA-D parameter: id(16) delay(16) then the data words, 16 bits each; the number of data words
    is carried in the low three bits of the key-status byte of the IENA header -/
def IENAD.encodeParam (paramid delay : Nat) (dwords : List Nat) : Bytes :=
  beBytes 2 paramid ++ beBytes 2 delay ++ dwords.flatMap (beBytes 2)

/-- IENA-N parameter: id(16) then the data words, 16 bits each -/
def IENAN.encodeParam (paramid : Nat) (dwords : List Nat) : Bytes :=
  beBytes 2 paramid ++ dwords.flatMap (beBytes 2)

/-- iNET package: definition id(32) length(16: header + payload in bytes, padding excluded)
    reserved(8)=0 status flags(8) time delta(32) payload, zero-padded to a 32-bit boundary -/
def iNETPackage.encode (definitionID flags timedelta : Nat) (payload : Bytes) : Bytes :=
  beBytes 4 definitionID ++ beBytes 2 (12 + payload.length) ++ [0] ++ beBytes 1 flags ++ beBytes 4 timedelta ++
    payload ++ pad4 payload.length 0

/-- iNET message: version(4) option-word-count(4) reserved(4)=0 type(4) flags(16) definition id(32)
    sequence(32) length(32: the whole message in bytes) seconds(32) nanoseconds(32), the option words
    (32 bits each), then the packages -/
def iNET.encode (version type flags definitionID sequence secs nanos : Nat) (appFields : List Nat)
    (packages : Bytes) : Bytes :=
  beBytes 1 (version * 16 + appFields.length) ++ beBytes 1 type ++ beBytes 2 flags ++ beBytes 4 definitionID ++
    beBytes 4 sequence ++ beBytes 4 (24 + 4 * appFields.length + packages.length) ++ beBytes 4 secs ++
    beBytes 4 nanos ++ appFields.flatMap (beBytes 4) ++ packages

/-- NPD segment: time delta(32) segment length(16: header + data in bytes, padding excluded)
    error code(8) flags(8) data, padded with 0xFF to a 32-bit boundary -/
def NPDSegment.encode (timedelta errorcode flags : Nat) (data : Bytes) : Bytes :=
  beBytes 4 timedelta ++ beBytes 2 (8 + data.length) ++ beBytes 1 errorcode ++ beBytes 1 flags ++ data ++
    pad4 data.length 0xFF

/-- NPD packet: version(4) header-length-in-words(4)=5 data type(8) packet length in 32-bit words(16,
    header and segments) configuration count(8) flags(8) sequence(16) data source id(32)
    multicast address(32) time stamp(32), then the segments -/
def NPD.encode (version datatype cfgcnt flags sequence datasrcid mcastaddr timestamp : Nat) (segments : Bytes) :
    Bytes :=
  beBytes 1 (version * 16 + 5) ++ beBytes 1 datatype ++ beBytes 2 ((20 + segments.length) / 4) ++ beBytes 1 cfgcnt ++
    beBytes 1 flags ++ beBytes 2 sequence ++ beBytes 4 datasrcid ++ beBytes 4 mcastaddr ++ beBytes 4 timestamp ++
    segments

/-- RS-232 segment data: block status(16; its low three bits are the number of sync bytes),
    the sync bytes, the data -/
def RS232.encodeData (blockStatusHigh13 : Nat) (syncBytes : List Nat) (data : Bytes) : Bytes :=
  beBytes 2 (blockStatusHigh13 * 8 + syncBytes.length) ++ syncBytes.flatMap (beBytes 1) ++ data

/-- MIL-STD-1553 segment data: block status(16) gap 1(8) gap 2(8) message data -/
def MIL1553.encodeData (blockstatus gap1 gap2 : Nat) (data : Bytes) : Bytes :=
  beBytes 2 blockstatus ++ beBytes 1 gap1 ++ beBytes 1 gap2 ++ data

/-- ACQ (MPCM) segment data: sub-frame id(8), a byte whose top bit is the CAL flag (the other seven
    bits are not interpreted), reserved(16), then 16-bit words -/
def ACQ.encodeData (sfid cal low7 reserved : Nat) (words : List Nat) : Bytes :=
  beBytes 1 sfid ++ beBytes 1 (cal * 128 + low7) ++ beBytes 2 reserved ++ words.flatMap (beBytes 2)

/-- parser-aligned block: error(1) error code(6) quad-byte count(9, counting the two header
    quad-bytes) message count(8) bus id(8) elapsed time(32) payload (a whole number of quad-bytes) -/
def ParserAlignedBlock.encode (error : Bool) (errorcode messagecount busid elapsedtime : Nat) (payload : Bytes) :
    Bytes :=
  beBytes 2 ((if error then 32768 else 0) + errorcode * 512 + (2 + payload.length / 4)) ++ beBytes 1 messagecount ++
    beBytes 1 busid ++ beBytes 4 elapsedtime ++ payload

end Acra.Spec
