/-
  Declarative layout of an AFDX (ARINC 664 part 7) frame, written from the standard — not regenerated:

    destination MAC   03 00 00 00 | virtual link identifier (16 bits, big-endian)
    source MAC        02 00 00 | network ID (8) | equipment ID (8) | interface ID (3 bits) 0 0 0 0 0
    ethertype         16 bits, big-endian
    payload           ≥ 42 bytes as the class counts them (IP/UDP headers + AFDX payload + padding)
    sequence number   the last byte of the frame (before the FCS, which the class does not handle)
-/
import Acra.Py.Basic
namespace Acra.Spec.AFDX
open Acra.Py

/-- the constant 32-bit field of an AFDX destination address -/
def dstConst : Bytes := [0x03, 0x00, 0x00, 0x00]
/-- the constant 24-bit field of an AFDX source address -/
def srcConst : Bytes := [0x02, 0x00, 0x00]

def dstMac (vlink : Nat) : Bytes := dstConst ++ beBytes 2 vlink
def srcMac (net equip iface : Nat) : Bytes := srcConst ++ beBytes 1 net ++ beBytes 1 equip ++ beBytes 1 (iface * 32)

def encode (vlink net equip iface type : Nat) (payload : Bytes) (seq : Nat) : Bytes :=
  dstMac vlink ++ srcMac net equip iface ++ beBytes 2 type ++ payload ++ beBytes 1 seq

/-- the smallest payload the class accepts -/
def minPayload : Nat := 42

end Acra.Spec.AFDX
