/-
  Declarative definitions for the `search` family, written from the statements of C17 / C18 and
  from the public format descriptions (libpcap record layout, iNET-X header, SAM/DEC framing as
  described in the SamDec008 docstrings).  Independent of the models and NOT regenerated.
-/
import Acra.Py.Basic
import Acra.Spec.FTI
namespace Acra.Spec
open Acra.Py

/-- `occ t p`: the ascending list of all offsets `i` with `i + |p| ≤ |t|` and `t[i:i+|p|] = p`
    (occurrences may overlap).  The property is stated for `p ≠ []`. -/
def occ (t p : Bytes) : List Nat :=
  (List.range (t.length + 1)).filter fun i =>
    decide (i + p.length ≤ t.length) && ((t.drop i).take p.length == p)

/-- reverse every `n`-byte group: byte `k` of the result is byte `n·(k/n) + (n−1−k%n)` of the input -/
def swapGroups (n : Nat) (b : Bytes) : Bytes :=
  (List.range b.length).map fun k => b.getD (n * (k / n) + (n - 1 - k % n)) 0

namespace SamDec

/-- the PCM frame sync word the SAM/DEC/008 emits, big-endian `FE6B2840` -/
def syncWord : Bytes := [0xFE, 0x6B, 0x28, 0x40]

/-- stream id on which the SAM/DEC sends its data -/
def streamId : Nat := 0x153

/-- libpcap record: little-endian `ts_sec, ts_usec, incl_len, orig_len`, then `incl_len` bytes -/
def record (sec usec : Nat) (pkt : Bytes) : Bytes :=
  leBytes 4 sec ++ leBytes 4 usec ++ leBytes 4 pkt.length ++ leBytes 4 pkt.length ++ pkt

/-- a capture file: the 24-byte global header followed by the records -/
def capture (ghdr : Bytes) (recs : List Bytes) : Bytes := ghdr ++ recs.flatten

/-- the iNET-X datagram a SAM/DEC sends: header on the SAM/DEC stream, the 10-byte SAM/DEC header,
    then a whole number of PCM minor frames -/
def datagram (control sequence secs nanos pif : Nat) (hdr10 : Bytes) (frames : List Bytes) : Bytes :=
  iNetX.encode control streamId sequence secs nanos pif (hdr10 ++ frames.flatten)

/-- the same datagram inside an untagged Ethernet II / IPv4 (no options) / UDP frame: 42 bytes of
    headers (`l234`, whose byte 23 is the IP protocol number) precede the UDP payload -/
def packet (l234 : Bytes) (control sequence secs nanos pif : Nat) (hdr10 : Bytes) (frames : List Bytes) : Bytes :=
  l234 ++ datagram control sequence secs nanos pif hdr10 frames

end SamDec
end Acra.Spec
