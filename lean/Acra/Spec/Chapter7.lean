/-
  Declarative description of IRIG 106 Chapter 7 packet telemetry downlink as the library implements
  it, written from the standard's text and the module's docstrings; independent of Acra.Gen and
  Acra.Model and NOT regenerated.

  * Golay(24,12): the extended Golay code — systematic cyclic (23,12) code with generator polynomial
    g(x) = x^11 + x^10 + x^6 + x^5 + x^4 + x^2 + 1 (0xC75), followed by one overall even-parity bit.
  * PTDP: two Golay words then the payload.  Word 1 (first on the wire) protects
    content(4) | fragment(2) | length[15:12](4); word 2 protects length[11:0].
    fragment: 0 complete, 1 first, 2 middle, 3 last; content 4 = Ethernet MAC frame.
  * PTFR: one unprotected byte streamid(4) | 0(2) | version(2), one Golay word protecting
    LLP flag(1) | offset to the first PTDP header that begins in this frame(11), 0x7FF = none begins;
    then exactly L payload bytes.
  * normal traffic: the frames' payloads are consecutive L-byte pieces of the concatenated PTDPs.
  * low-latency insertion (continuation byte 0xFF = another low-latency PTDP follows, 0x00 = normal
    data follows) is the decoder's own convention in this library; it has no Spec beyond that.
-/
import Acra.Py.Basic
namespace Acra.Spec
open Acra.Py

namespace Golay

/-- reduce bits `deg+cnt-1 … deg` of `v` modulo the degree-11 polynomial 0xC75 -/
def polyModAux : Nat → Nat → Nat
  | 0, v => v
  | cnt + 1, v => polyModAux cnt (if v.testBit (11 + cnt) then v ^^^ (0xC75 <<< cnt) else v)

/-- remainder of a polynomial of degree ≤ 22 modulo g(x) -/
def polyMod (v : Nat) : Nat := polyModAux 12 v

def parity : Nat → Nat → Nat
  | 0, _ => 0
  | n + 1, v => (if v.testBit n then 1 else 0) ^^^ parity n v

/-- the 24-bit code word of a 12-bit value -/
def encode (x : Nat) : Nat :=
  let d := x % 4096
  let c23 := (d <<< 11) ||| polyMod (d <<< 11)
  (c23 <<< 1) ||| parity 23 c23

/-- a Golay word on the wire: 3 bytes, big-endian -/
def word (x : Nat) : Bytes := beBytes 3 (encode x)

end Golay

/-- one PTDP -/
def PTDP.encode (fragment content : Nat) (payload : Bytes) : Bytes :=
  Golay.word (content * 64 + fragment * 16 + payload.length / 4096) ++
  Golay.word (payload.length % 4096) ++ payload

/-- one PTFR -/
def PTFR.encode (version streamid : Nat) (llp : Bool) (offset : Nat) (payload : Bytes) : Bytes :=
  beBytes 1 (streamid * 16 + version) ++ Golay.word ((if llp then 2048 else 0) + offset) ++ payload

namespace Ch7

/-- pieces of at most `n` bytes (`n > 0`), the last one non-empty unless the input is empty -/
def chunks (n : Nat) : Nat → Bytes → List Bytes
  | 0, _ => []
  | fuel + 1, b => if b.length ≤ n then [b] else b.take n :: chunks n fuel (b.drop n)

/-- fragment codes for the pieces of one packet: complete, or first, middle…, last -/
def codes : Nat → List Nat
  | 0 => []
  | 1 => [0]
  | n + 2 => 1 :: (List.replicate n 2 ++ [3])

/-- the PTDP encodings of one packet (content = Ethernet MAC) -/
def ptdpsOf (pkt : Bytes) : List Bytes :=
  let ps := chunks 2048 (pkt.length + 1) pkt
  (List.zip (codes ps.length) ps).map fun (c, p) => PTDP.encode c 4 p

/-- the byte stream of a sequence of normal packets -/
def stream (pkts : List Bytes) : Bytes := (pkts.flatMap ptdpsOf).flatten

/-- positions in the stream at which a PTDP header begins -/
def startsAux : Nat → List Bytes → List Nat
  | _, [] => []
  | pos, p :: ps => pos :: startsAux (pos + p.length) ps

def starts (pkts : List Bytes) : List Nat := startsAux 0 (pkts.flatMap ptdpsOf)

/-- offset field of frame `k`: first PTDP start inside [kL, (k+1)L), relative to the frame; else 0x7FF -/
def offset (L : Nat) (st : List Nat) (k : Nat) : Nat :=
  match st.find? (fun p => decide (k * L ≤ p) && decide (p < (k + 1) * L)) with
  | some p => p - k * L
  | none => 0x7FF

/-- the frames the encapsulator has emitted once all packets are in: every complete L-byte piece of
    the stream that is followed by at least one more byte (a frame is emitted when it overflows) -/
def frames (L sid : Nat) (pkts : List Bytes) : List Bytes :=
  let S := stream pkts
  let st := starts pkts
  (List.range ((S.length - 1) / L)).map fun k =>
    PTFR.encode 0 sid false (offset L st k) (slice S (k * L) ((k + 1) * L))

end Ch7
end Acra.Spec
