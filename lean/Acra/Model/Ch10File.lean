/-
  Model of AcraNetwork/IRIG106/Chapter10/FileParser.py.

  A file is a `Bytes` value; a `FileParser` opened for reading is the file plus `_offset`
  (`next` re-seeks to `_offset` on every call, so the OS cursor carries no information).
  `read(n)` at offset `o` is `slice data o (o+n)`: at most `n` bytes, fewer at end of file.
  Writing (mode "wb" only — any other mode makes `write` raise) truncates at open and appends.
  Buffering, close/flush and the OS are not modelled (DESIGN §7).

  `next` after the repair of D11: a sync word followed by a zero packet length is "not in sync" and the
  search moves on by one byte.
-/
import Acra.Py.Struct
import Acra.Gen.Ch11
import Acra.Gen.Ch10File
namespace Acra.Model.Ch10File
open Acra.Py Acra.Gen.Ch11 Acra.Gen.Ch10File

/-- `f.seek(off); f.read(n)` -/
def readAt (data : Bytes) (off n : Nat) : Bytes := slice data off (off + n)

/-- result of one `next()`: the new `_offset` and the packet, `none` = StopIteration -/
abbrev Step := Nat × Option Bytes

/-- `FileParser.next` with explicit fuel for the sync search (`while not in_sync`) -/
def nextFuel (data : Bytes) : Nat → Nat → R Step
  | 0, _ => .error .fuel
  | fuel + 1, off =>
    match structUnpack FP_next_fmt0 (readAt data off 8) with
    | .error _ => .ok (off, none)                 -- short read: struct.error → StopIteration
    | .ok [sync, _chid, pktLen] =>
      if sync = SYNC_WORD ∧ pktLen > 0 then
        let p := readAt data off pktLen
        if p.length ≠ pktLen then .ok (off + pktLen, none) else .ok (off + pktLen, some p)
      else nextFuel data fuel (off + 1)
    | .ok _ => .ok (off, none)

/-- `next()`: the search visits each offset at most once, so `|data| - off + 2` steps always suffice
    (`nextFuel_sufficient` in Props/C08) -/
def next (data : Bytes) (off : Nat) : R Step := nextFuel data (data.length - off + 2) off

/-- `for p in fileparser`: repeated `next()` until StopIteration; outer fuel = number of packets -/
def iterFuel (data : Bytes) : Nat → Nat → R (List Bytes × Nat)
  | 0, _ => .error .fuel
  | fuel + 1, off =>
    match next data off with
    | .error e => .error e
    | .ok (off', none) => .ok ([], off')
    | .ok (off', some p) =>
      match iterFuel data fuel off' with
      | .error e => .error e
      | .ok (ps, o) => .ok (p :: ps, o)

def iterate (data : Bytes) (off : Nat := 0) : R (List Bytes × Nat) := iterFuel data (data.length + 1) off

/-- what `FileParser.write` is given: a Chapter11 object's `pack()` result, a `bytes` value, or
    something else (raises) -/
inductive Item where
  | packed (r : R Bytes)
  | raw (b : Bytes)
  | other

/-- the `write` calls of one "wb" session, in order: contents so far, stop at the first failing call -/
def writeItems (acc : Bytes) : List Item → Bytes × R Unit
  | [] => (acc, .ok ())
  | .packed (.ok b) :: rest => writeItems (acc ++ b) rest
  | .packed (.error e) :: _ => (acc, .error e)
  | .raw b :: rest => writeItems (acc ++ b) rest
  | .other :: _ => (acc, .error .generic)

/-- `with FileParser(name, mode) as f: for x in items: f.write(x)` — the new file contents
    (everything written before the first failing `write`) and the result.  Mode "wb" truncates at open;
    in any other mode (`"ab"`, `"rb"`) the first `write` raises ("File name not defined": `_mode != "wb"`). -/
def writeAll (old : Bytes) (mode : String) (items : List Item) : Bytes × R Unit :=
  if mode = "wb" then writeItems [] items
  else match items with
    | [] => (old, .ok ())
    | _ => (old, .error .generic)

end Acra.Model.Ch10File
