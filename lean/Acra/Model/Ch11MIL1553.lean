/-
  Model of AcraNetwork/IRIG106/Chapter11/MILSTD1553.py: `MILSTD1553Message`, `MILSTD1553DataPacket`.
-/
import Acra.Model.Ch11PayTs
import Acra.Gen.Ch11MIL1553
namespace Acra.Model.Ch11Pay.MIL1553
open Acra.Py Acra.Gen.Ch11MIL1553 Acra.Model.Ch11Pay

structure Msg where
  ipts : Ipts
  blockstatus : Nat
  gaptimes : Nat
  length : Nat
  message : Bytes
  deriving Repr, DecidableEq

def Msg.fresh (ipts : Ipts) : Msg := { ipts := ipts, blockstatus := 0, gaptimes := 0, length := 0, message := [] }

/-- `MILSTD1553Message.pack`: sets `length` to the size of the message bytes -/
def Msg.pack (m : Msg) : Msg × R Bytes :=
  match m.ipts.pack with
  | .error e => (m, .error e)
  | .ok ts =>
    let m' := { m with length := m.message.length }
    match structPack MSG_pack_fmt0 [m'.blockstatus, m'.gaptimes, m'.length] with
    | .error e => (m', .error e)
    | .ok hdr => (m', .ok (ts ++ hdr ++ m'.message))

/-- `MILSTD1553Message.unpack`: returns 14 + the DECLARED length (the message bytes are whatever
    the buffer still holds of them) -/
def Msg.unpack (m : Msg) (buf : Bytes) : Msg × R Nat :=
  match m.ipts.unpack (buf.take 8) with
  | .error e => (m, .error e)
  | .ok i =>
    let m1 := { m with ipts := i }
    match structUnpackFrom MSG_unpack_fmt0 buf 8 with
    | .ok [bs, gap, len] =>
      ({ m1 with blockstatus := bs, gaptimes := gap, length := len, message := slice buf 14 (14 + len) },
       .ok (14 + len))
    | .ok _ => (m1, .error .struct)
    | .error e => (m1, .error e)

/-- `MILSTD1553Message.__eq__` -/
def Msg.eq (a b : Msg) : Bool :=
  a.ipts == b.ipts && a.blockstatus == b.blockstatus && a.gaptimes == b.gaptimes && a.length == b.length &&
  a.message == b.message

structure Packet where
  messages : List Msg
  msgcount : Nat
  ttb : Nat
  ipts_source : Option Nat       -- codec option
  deriving Repr, DecidableEq

def Packet.fresh (src : Option Nat) : Packet := { messages := [], msgcount := 0, ttb := 0, ipts_source := src }

/-- pack every message in turn (each call updates that message's `length`) -/
def packMsgs : List Msg → List Msg × R Bytes
  | [] => ([], .ok [])
  | m :: ms =>
    match Msg.pack m with
    | (m', .error e) => (m' :: ms, .error e)
    | (m', .ok b) =>
      match packMsgs ms with
      | (ms', .ok r) => (m' :: ms', .ok (b ++ r))
      | (ms', .error e) => (m' :: ms', .error e)

/-- `MILSTD1553DataPacket.pack`: the CSW carries `len(self)`, not `msgcount` -/
def Packet.pack (p : Packet) : Packet × R Bytes :=
  if p.messages.length = 0 then (p, .error .generic) else
  match packMsgs p.messages with
  | (ms', .error e) => ({ p with messages := ms' }, .error e)
  | (ms', .ok body) =>
    let p' := { p with messages := ms' }
    match structPack PKT_pack_fmt0 [1073741824 * p.ttb + p.messages.length] with
    | .error e => (p', .error e)
    | .ok csw => (p', .ok (csw ++ body))

/-- `MILSTD1553Message(self._ipts_source)`: `None` raises a bare `Exception` -/
def Packet.proto (p : Packet) : R Msg :=
  match p.ipts_source with
  | Option.none => .error .generic
  | some s =>
    match iptsOfSource s with
    | some i => .ok (Msg.fresh i)
    | Option.none => .error .attribute

def decMsg (proto : R Msg) (rem : Bytes) : R (Msg × Nat) :=
  match proto with
  | .error e => .error e
  | .ok m0 =>
    match Msg.unpack m0 rem with
    | (m, .ok n) => .ok (m, n)
    | (_, .error e) => .error e

/-- `while offset + 14 < len(mybuffer)` -/
def more1553 (off len : Nat) : Bool := decide (off + 14 < len)

/-- `MILSTD1553DataPacket.unpack` -/
def Packet.unpack (p : Packet) (buf : Bytes) : Packet × R Unit :=
  match structUnpackFrom PKT_unpack_fmt0 buf 0 with
  | .ok [csw] =>
    let p1 := { p with msgcount := csw % 16777216, ttb := (csw / 1073741824) % 4 }
    match decOff (decMsg p.proto) more1553 buf (buf.length + 1) 4 with
    | .ok ms => ({ p1 with messages := ms }, .ok ())
    | .error e => ({ p1 with messages := [] }, .error e)
  | .ok _ => (p, .error .struct)
  | .error e => (p, .error e)

/-- `MILSTD1553DataPacket.append` -/
def Packet.append (p : Packet) (m : Msg) : Packet :=
  { p with msgcount := p.msgcount + 1, messages := p.messages ++ [m] }

def msgsEq : List Msg → List Msg → Bool
  | [], [] => true
  | a :: as, b :: bs => Msg.eq a b && msgsEq as bs
  | _, _ => false

/-- `MILSTD1553DataPacket.__eq__`: messages, msgcount, ttb -/
def Packet.eq (a b : Packet) : Bool := msgsEq a.messages b.messages && a.msgcount == b.msgcount && a.ttb == b.ttb

end Acra.Model.Ch11Pay.MIL1553
