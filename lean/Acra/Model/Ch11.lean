/-
  Model of AcraNetwork/IRIG106/Chapter11/__init__.py: PTPTime, RTCTime, get_checksum_buf,
  get_checksum_byte_buf, Chapter11 (and, unchanged, the deprecated subclass
  AcraNetwork.Chapter10.Chapter10.Chapter10, which restates the constants and overrides nothing).
  Constants come from Acra.Gen.Ch11.

  Quirks reproduced on purpose (see notes/ch10.md):
  * `Chapter11.unpack` assigns the header tuple left to right; the `packetflag` *setter* runs in the
    middle of that assignment and raises a bare Exception for time-format bits 2/3 when bit 7 is set;
  * `unpack` never uses `datalen`: the filler stays inside `payload` (K5);
  * `pack` adds `data_checksum_size` to `packetlen` but emits no checksum bytes;
  * `pack` looks at `has_secondary_header` / `ts_source`, not at the packet flag;
  * `RTCTime.pack` masks the count to 48 bits silently;
  * both checksum helpers raise TypeError on an empty buffer (`reduce` of an empty sequence).
-/
import Acra.Py.Struct
import Acra.Gen.Ch11
namespace Acra.Model.Ch11
open Acra.Py Acra.Gen.Ch11

/-! ### PTPTime -/
structure PTP where
  seconds : Nat
  nanoseconds : Nat
  deriving Repr, DecidableEq

/-- `PTPTime.pack` -/
def PTP.pack (t : PTP) : R Bytes := structPack PTP_pack_fmt0 [t.nanoseconds, t.seconds]

/-- `PTPTime.unpack` (exact length required) -/
def PTP.unpack (buf : Bytes) : R PTP :=
  match structUnpack PTP_unpack_fmt0 buf with
  | .ok [ns, s] => .ok { seconds := s, nanoseconds := ns }
  | .ok _ => .error .struct
  | .error e => .error e

/-- the arithmetic and ordering operators work on arbitrary Python ints: (seconds, nanoseconds) -/
abbrev IPTP := Int × Int

/-- `PTPTime.__add__`: `addns % 1e9`, `addns // 1e9` are float operations that are exact for
    |addns| < 2^53 (DESIGN §3); modelled as integer floor division / modulus -/
def ptpAdd (a b : IPTP) : IPTP :=
  let addns := a.2 + b.2
  (a.1 + b.1 + addns / 1000000000, addns % 1000000000)

/-- `PTPTime.__sub__` -/
def ptpSub (a b : IPTP) : IPTP :=
  if b.2 > a.2 then (a.1 - b.1 - 1, 1000000000 - (b.2 - a.2))
  else (a.1 - b.1, a.2 - b.2)

/-- `PTPTime.__lt__`: Python tuple comparison -/
def ptpLt (a b : IPTP) : Bool := a.1 < b.1 || (a.1 == b.1 && a.2 < b.2)
/-- `PTPTime.__le__` -/
def ptpLe (a b : IPTP) : Bool := a.1 < b.1 || (a.1 == b.1 && a.2 ≤ b.2)
/-- `a > b`: PTPTime defines no `__gt__`; Python falls back to the reflected `b.__lt__(a)` -/
def ptpGt (a b : IPTP) : Bool := ptpLt b a
/-- `a >= b`: reflected `b.__le__(a)` -/
def ptpGe (a b : IPTP) : Bool := ptpLe b a
/-- `PTPTime.__eq__` -/
def ptpEq (a b : IPTP) : Bool := !(a.2 != b.2 || a.1 != b.1)

/-- `PTPTime.to_pinksheet_rtc`: Decimal arithmetic, exact while seconds·10⁹ has at most 28 digits -/
def pinksheet (seconds nanoseconds : Nat) : Nat :=
  ((seconds * 1000000000 + nanoseconds) / 100) &&& (2 ^ 48 - 1)

/-! ### RTCTime -/
/-- `RTCTime.pack` -/
def rtcPack (count : Nat) : R Bytes :=
  structPack RTC_pack_fmt0 [count &&& 0xFFFFFFFF, (count >>> 32) &&& 0xFFFF, 0]

/-- `RTCTime.unpack` -/
def rtcUnpack (buf : Bytes) : R Nat :=
  match structUnpack RTC_unpack_fmt0 buf with
  | .ok [lsw, msw, _] => .ok (lsw + (msw <<< 32))
  | .ok _ => .error .struct
  | .error e => .error e

/-! ### checksums -/
def sumList : List Nat → Nat
  | [] => 0
  | x :: xs => x + sumList xs

/-- `get_checksum_buf`: sum of the little-endian 16-bit words, modulo 65536 -/
def getChecksumBuf (buf : Bytes) : R Nat :=
  if buf.length % 2 ≠ 0 then .error .generic else
  match structUnpack (cksum_buf_fmt0 (buf.length / 2)) buf with
  | .error e => .error e
  | .ok [] => .error .type                      -- reduce() of empty sequence with no initial value
  | .ok ws => .ok (sumList ws % 65536)

/-- `get_checksum_byte_buf`: sum of the bytes, modulo 65536 -/
def getChecksumByteBuf (buf : Bytes) : R Nat :=
  match structUnpack (cksum_byte_buf_fmt0 buf.length) buf with
  | .error e => .error e
  | .ok [] => .error .type
  | .ok ws => .ok (sumList ws % 65536)

/-! ### Chapter11 -/
structure State where
  syncpattern : Nat
  channelID : Nat
  packetlen : Nat
  datalen : Nat
  datatypeversion : Nat
  sequence : Nat
  packetflag : Nat            -- `_packetflag`
  datatype : Nat
  relativetimecounter : Nat
  ptptime : PTP
  ts_source : Nat
  payload : Bytes
  data_checksum_size : Nat
  filler : Bytes
  has_secondary_header : Bool
  deriving Repr, DecidableEq

def fresh : State :=
  { syncpattern := DEFAULT_SYNCPATTERN, channelID := 0, packetlen := 0, datalen := 0,
    datatypeversion := DEFAULT_DATATYPEVERSION, sequence := 0, packetflag := 0, datatype := 0,
    relativetimecounter := 0, ptptime := ⟨0, 0⟩, ts_source := TS_RTC, payload := [],
    data_checksum_size := 0, filler := [], has_secondary_header := false }

/-- the `packetflag` property setter -/
def setPacketflag (s : State) (val : Nat) : State × R Unit :=
  if val > 0xFF then (s, .error .generic) else
  let s1 := { s with packetflag := val }
  if val >>> 7 = 1 then
    if (val >>> 2) &&& 0x3 = 0 then ({ s1 with ts_source := TS_CH4, has_secondary_header := true }, .ok ())
    else if (val >>> 2) &&& 0x3 = 1 then ({ s1 with ts_source := TS_IEEE1558, has_secondary_header := true }, .ok ())
    else (s1, .error .generic)                   -- "Time format is illegal"
  else ({ s1 with has_secondary_header := false, ts_source := TS_RTC }, .ok ())

/-- the secondary header as `pack` builds it (empty when there is none) -/
def secHdr (s : State) : R Bytes :=
  if s.has_secondary_header then
    if s.ts_source = TS_CH4 then .error .generic else
    match s.ptptime.pack with
    | .error e => .error e
    | .ok t =>
      match structPack Ch11_pack_fmt0 [0, 0] with
      | .error e => .error e
      | .ok z =>
        let sec := t ++ z
        match getChecksumByteBuf sec with
        | .error e => .error e
        | .ok cs =>
          match structPack Ch11_pack_fmt1 [cs] with
          | .error e => .error e
          | .ok c => .ok (sec.take (sec.length - 2) ++ c)
  else .ok []

/-- `Chapter11.pack` -/
def pack (s : State) : State × R Bytes :=
  match secHdr s with
  | .error e => (s, .error e)
  | .ok sec =>
    let total := sec.length + s.payload.length + CH10_HDR_FORMAT_LEN + s.data_checksum_size
    let fillR : R Bytes :=
      if total % 4 = 0 then .ok []
      else structPack (Ch11_pack_fmt2 (4 - total % 4)) (List.replicate (4 - total % 4) 0xFF)
    match fillR with
    | .error e => (s, .error e)
    | .ok filler =>
      let s' := { s with filler := filler, packetlen := total + filler.length, datalen := s.payload.length }
      match structPack CH10_HDR_FORMAT
          [s'.syncpattern, s'.channelID, s'.packetlen, s'.datalen, s'.datatypeversion, s'.sequence,
           s'.packetflag, s'.datatype, s'.relativetimecounter &&& 0xFFFFFFFF,
           s'.relativetimecounter >>> 32, 0] with
      | .error e => (s', .error e)
      | .ok hdr =>
        match getChecksumBuf hdr with
        | .error e => (s', .error e)
        | .ok cs =>
          match structPack Ch11_pack_fmt3 [cs] with
          | .error e => (s', .error e)
          | .ok c => (s', .ok (hdr.take (hdr.length - 2) ++ c ++ sec ++ s'.payload ++ s'.filler))

/-- `Chapter11.unpack`.  The two checksum comparisons only log; the helper calls they make cannot
    raise (22 and 10 bytes) and are left out. -/
def unpack (s : State) (buf : Bytes) : State × R Unit :=
  match structUnpackFrom CH10_HDR_FORMAT buf 0 with
  | .error e => (s, .error e)
  | .ok [sync, chid, plen, dlen, dtv, sq, flag, dt, rl, ru, _cks] =>
    let s1 := { s with syncpattern := sync, channelID := chid, packetlen := plen, datalen := dlen,
                       datatypeversion := dtv, sequence := sq }
    match setPacketflag s1 flag with
    | (s2, .error e) => (s2, .error e)
    | (s2, .ok ()) =>
      let s3 := { s2 with datatype := dt, relativetimecounter := rl + (ru <<< 32), filler := [] }
      if flag >>> 7 = 1 then
        let s4 := { s3 with has_secondary_header := true }
        match structUnpackFrom CH10_OPT_HDR_FORMAT buf CH10_HDR_FORMAT_LEN with
        | .error e => (s4, .error e)
        | .ok [ns, sec, _, _] =>
          let t := (flag >>> 2) &&& 0x3
          if t = 0 then (s4, .error .generic)
          else if t = 1 then
            ({ s4 with ts_source := TS_IEEE1558, ptptime := ⟨sec, ns⟩,
                       payload := buf.drop (CH10_HDR_FORMAT_LEN + CH10_OPT_HDR_FORMAT_LEN) }, .ok ())
          else (s4, .error .generic)
        | .ok _ => (s4, .error .struct)
      else
        ({ s3 with has_secondary_header := false, payload := buf.drop CH10_HDR_FORMAT_LEN,
                   ts_source := TS_RTC, ptptime := ⟨0, 0⟩ }, .ok ())
  | .ok _ => (s, .error .struct)

/-- `Chapter11.__eq__` for two Chapter11 operands: every attribute of `_match_att` -/
def eq (a b : State) : Bool :=
  a.syncpattern == b.syncpattern && a.channelID == b.channelID && a.packetlen == b.packetlen &&
  a.datalen == b.datalen && a.datatypeversion == b.datatypeversion && a.sequence == b.sequence &&
  a.datatype == b.datatype && a.packetflag == b.packetflag &&
  a.relativetimecounter == b.relativetimecounter &&
  (a.ptptime.nanoseconds == b.ptptime.nanoseconds && a.ptptime.seconds == b.ptptime.seconds) &&
  a.ts_source == b.ts_source && a.payload == b.payload &&
  a.data_checksum_size == b.data_checksum_size && a.filler == b.filler &&
  a.has_secondary_header == b.has_secondary_header

end Acra.Model.Ch11
