/-
  Model of AcraNetwork/IRIG106/Chapter11/TimeDataFormat.py: `double_digits_to_bcd`, `bcd_to_int`,
  `TimeDataFormat1` (day-month-year and day-of-year variants), `TimeDataFormat2` (PTP / NTP codes).

  * `datetime.fromtimestamp(s, tz=utc)`, `datetime(y, m, d, …).timestamp()` and `strftime("%j")` are
    modelled with the proleptic-Gregorian day-number algorithms (days since 0000-03-01).
  * `double_digits_to_bcd` receives ints (`dt.second`, …) and three floats (`ns / 1e7`,
    `dt.year / 100`, `doy / 100`); for the values that reach it `int(val / dec) % 10` equals the
    integer digit, so the helper is modelled on integers (compared with the code exhaustively on the
    boundaries `k·10^7 ± 1` by the correspondence check).
  * the NTP fraction `int(ns * (2**32 / 1e9))`, `int(fs / (2**32 / 1e9))` is modelled with an abstract
    rounding function `fl`; the executable instance uses `Acra.Py.Float.rne`.
-/
import Acra.Py.Struct
import Acra.Py.Float
import Acra.Gen.Ch11TimeFmt
namespace Acra.Model.Ch11Pay.TimeFmt
open Acra.Py Acra.Gen.Ch11TimeFmt

/-- `double_digits_to_bcd` on a non-negative integer: two decimal digits, tens in the high nibble -/
def bcd2 (v : Nat) : Nat := v % 10 + (v / 10 % 10) * 16

def bcdToIntF : Nat → Nat → Nat
  | 0, _ => 0
  | fuel + 1, v =>
    if v = 0 then 0 else
    bcdToIntF fuel (v / 16) * (if 10 ≤ v % 16 then 100 else 10) + v % 16

/-- `bcd_to_int`: the decimal number whose digit string is the concatenation of `str(nibble)` for the
    nibbles of `v` from the most significant non-zero one (a nibble above 9 contributes two digits) -/
def bcdToInt (v : Nat) : Nat := bcdToIntF v v

/-! ### calendar -/

def isLeap (y : Nat) : Bool := y % 4 == 0 && (y % 100 != 0 || y % 400 == 0)

def daysInMonth (y m : Nat) : Nat :=
  if m = 2 then (if isLeap y then 29 else 28)
  else if m = 4 ∨ m = 6 ∨ m = 9 ∨ m = 11 then 30 else 31

/-- days from 0000-03-01 to the civil date `y-m-d` (`y ≥ 1`) -/
def daysFromCivil (y m d : Nat) : Nat :=
  let y' := if m ≤ 2 then y - 1 else y
  let era := y' / 400
  let yoe := y' % 400
  let mp := if 2 < m then m - 3 else m + 9
  let doy := (153 * mp + 2) / 5 + d - 1
  let doe := 365 * yoe + yoe / 4 - yoe / 100 + doy
  146097 * era + doe

/-- the civil date `(y, m, d)` of day number `z` counted from 0000-03-01 -/
def civilFromDays (z : Nat) : Nat × Nat × Nat :=
  let era := z / 146097
  let doe := z % 146097
  let yoe := (doe - doe / 1460 + doe / 36524 - doe / 146096) / 365
  let doy := doe - (365 * yoe + yoe / 4 - yoe / 100)
  let mp := (5 * doy + 2) / 153
  let d := doy - (153 * mp + 2) / 5 + 1
  let m := if mp < 10 then mp + 3 else mp - 9
  let y := yoe + 400 * era + (if m ≤ 2 then 1 else 0)
  (y, m, d)

/-- 1970-01-01 counted from 0000-03-01 -/
def EPOCH : Nat := 719468

/-- `datetime.fromtimestamp(s, tz=utc)` → (year, month, day, hour, minute, second); years outside
    1..9999 are a `ValueError` -/
def fromTimestamp (s : Int) : R (Nat × Nat × Nat × Nat × Nat × Nat) :=
  let t : Int := s + (EPOCH : Int) * 86400
  if t < 306 * 86400 then .error .value else
  let n := t.toNat
  let (y, m, d) := civilFromDays (n / 86400)
  if 9999 < y then .error .value else
  let tod := n % 86400
  .ok (y, m, d, tod / 3600, tod / 60 % 60, tod % 60)

/-- `datetime(y, mo, d, h, mi, s)` is constructible -/
def validDate (y mo d h mi s : Nat) : Bool :=
  1 ≤ y && y ≤ 9999 && 1 ≤ mo && mo ≤ 12 && 1 ≤ d && d ≤ daysInMonth y mo && h < 24 && mi < 60 && s < 60

/-- `int(datetime(y, mo, d, h, mi, s, tzinfo=utc).timestamp())` -/
def toTimestamp (y mo d h mi s : Nat) : Int :=
  86400 * ((daysFromCivil y mo d : Int) - EPOCH) + (3600 * h + 60 * mi + s : Nat)

/-- `int(dt.strftime("%j"))` -/
def dayOfYear (y m d : Nat) : Nat := daysFromCivil y m d - daysFromCivil y 1 1 + 1

/-! ### time format 1 -/

structure State1 where
  channel_specific_data : Nat
  seconds : Int                  -- `ptptime.seconds`
  nanoseconds : Nat              -- `ptptime.nanoseconds`
  deriving Repr, DecidableEq

def State1.fresh : State1 := { channel_specific_data := TDF1_DEFAULT_CSD, seconds := 0, nanoseconds := 0 }

def yearAvail (csd : Nat) : Bool := (csd / DATE_FMT_YEAR_AVAIL) % 2 == 1

/-- the BCD bytes `TimeDataFormat1.pack` emits after the channel-specific word -/
def timeBytes (csd : Nat) (s : Int) (ns : Nat) : R (List Nat) :=
  match fromTimestamp s with
  | .error e => .error e
  | .ok (y, mo, d, h, mi, sec) =>
    let common := [bcd2 (ns / 10000000), bcd2 sec, bcd2 mi, bcd2 h]
    if yearAvail csd then
      .ok (common ++ [bcd2 d, bcd2 mo, bcd2 (y % 100), bcd2 (y / 100)])
    else
      let doy := dayOfYear y mo d
      .ok (common ++ [bcd2 (doy % 100), bcd2 (doy / 100)])

/-- `struct.pack("<I", csd) + struct.pack("<{}B".format(len(packet_bytes)), *packet_bytes)` -/
def packBytes (csd : Nat) (bs : List Nat) : R Bytes :=
  match structPack TDF1_pack_fmt0 [csd] with
  | .error e => .error e
  | .ok h =>
    match structPack (TDF1_pack_fmt1 bs.length) bs with
    | .error e => .error e
    | .ok t => .ok (h ++ t)

/-- `TimeDataFormat1.pack` -/
def State1.pack (s : State1) : R Bytes :=
  match timeBytes s.channel_specific_data s.seconds s.nanoseconds with
  | .error e => .error e
  | .ok bs => packBytes s.channel_specific_data bs

/-- `TimeDataFormat1.unpack` -/
def State1.unpack (st : State1) (buf : Bytes) : State1 × R Unit :=
  match structUnpackFrom TDF1_unpack_fmt0 buf 0 with
  | .ok [csd, ms, s, mn, h] =>
    let st1 := { st with channel_specific_data := csd }
    let ns := 1000000 * (10 * bcdToInt ms)
    let sec := bcdToInt s
    let mins := bcdToInt mn
    let hrs := bcdToInt h
    if yearAvail csd then
      match structUnpackFrom TDF1_unpack_fmt1 buf 8 with
      | .ok [d, mo, yr] =>
        let day := bcdToInt d
        let mon := bcdToInt mo
        let year := bcdToInt yr
        if validDate year mon day hrs mins sec then
          ({ st1 with seconds := toTimestamp year mon day hrs mins sec, nanoseconds := ns }, .ok ())
        else (st1, .error .value)
      | .ok _ => (st1, .error .struct)
      | .error e => (st1, .error e)
    else
      match structUnpackFrom TDF1_unpack_fmt2 buf 8 with
      | .ok [doy, hdoy] =>
        let dayOfYr := bcdToInt doy + 100 * bcdToInt hdoy
        -- strptime("%H:%M:%S %j %Y %Z") of "hh:mm:ss ddd 1970 GMT"
        if hrs < 24 && mins < 60 && sec < 60 && 1 ≤ dayOfYr && dayOfYr ≤ 366 then
          ({ st1 with seconds := ((86400 * (dayOfYr - 1) + 3600 * hrs + 60 * mins + sec : Nat) : Int),
                      nanoseconds := ns }, .ok ())
        else (st1, .error .value)
      | .ok _ => (st1, .error .struct)
      | .error e => (st1, .error e)
  | .ok _ => (st, .error .struct)
  | .error e => (st, .error e)

def State1.eq (a b : State1) : Bool :=
  a.channel_specific_data == b.channel_specific_data && a.seconds == b.seconds && a.nanoseconds == b.nanoseconds

/-! ### time format 2 -/

structure State2 where
  channel_specific_data : Nat
  seconds : Nat
  nanoseconds : Nat
  deriving Repr, DecidableEq

def State2.fresh : State2 := { channel_specific_data := TDF2_DEFAULT_CSD, seconds := 0, nanoseconds := 0 }

/-- `(channel_specific_data >> 4) & 0xF != 0`: a PTP time code; 0 is NTP -/
def isPTP (csd : Nat) : Bool := (csd / 16) % 16 != 0

/-- the double `pow(2, 32) / 1e9` -/
def ntpScale (fl : Rat → Rat) : Rat := fl ((4294967296 : Rat) / 1000000000)

/-- `int(ns * (2**32 / 1e9))` -/
def nsToFrac (fl : Rat → Rat) (ns : Nat) : Nat := Float.floorNat (fl (fl (ns : Rat) * ntpScale fl))

/-- `int(fs / (2**32 / 1e9))` -/
def fracToNs (fl : Rat → Rat) (fs : Nat) : Nat := Float.floorNat (fl (fl (fs : Rat) / ntpScale fl))

def State2.packWith (fl : Rat → Rat) (s : State2) : R Bytes :=
  let frac := if isPTP s.channel_specific_data then s.nanoseconds else nsToFrac fl s.nanoseconds
  structPack TDF2_pack_fmt0 [s.channel_specific_data, s.seconds, frac]

def State2.unpackWith (fl : Rat → Rat) (st : State2) (buf : Bytes) : State2 × R Unit :=
  match structUnpack TDF2_unpack_fmt0 buf with
  | .ok [csd, s, fs] =>
    ({ channel_specific_data := csd, seconds := s, nanoseconds := if isPTP csd then fs else fracToNs fl fs }, .ok ())
  | .ok _ => (st, .error .struct)
  | .error e => (st, .error e)

/-- `TimeDataFormat2.pack` / `.unpack` with binary64 round-to-nearest-even -/
def State2.pack (s : State2) : R Bytes := State2.packWith Float.rne s
def State2.unpack (st : State2) (buf : Bytes) : State2 × R Unit := State2.unpackWith Float.rne st buf

def State2.eq (a b : State2) : Bool :=
  a.channel_specific_data == b.channel_specific_data && a.seconds == b.seconds && a.nanoseconds == b.nanoseconds

end Acra.Model.Ch11Pay.TimeFmt
