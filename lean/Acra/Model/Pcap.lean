/-
  Model of AcraNetwork/Pcap.py: PcapRecord and Pcap (files).

  A file is a `Bytes` value (or absent); an open `Pcap` object is a `Handle` holding the mode, one file
  position, the closed flag and the public attributes.  `open(…, "wb")` truncates, `"ab"` keeps and
  always writes at the end, `"rb"` reads; `read(n)` returns at most `n` bytes and advances.
  Not modelled (trusted base, DESIGN §3 "Files"): user-space buffering — the file content is what is on
  disk after a flush (the harness flushes before it looks); the OS.  One consequence of buffering IS
  visible in a public attribute and is reproduced: after opening in mode "w" the constructor asks
  `os.path.getsize` while the 24 header bytes are still in the write buffer, so `filesize` restarts at 0.

  `PcapRecord.set_current_time` (float) is out of scope.
-/
import Acra.Py.Struct
import Acra.Gen.Pcap
namespace Acra.Model.Pcap
open Acra.Py Acra.Gen.Pcap

/-! ### PcapRecord -/

structure Rec where
  sec : Nat
  usec : Nat
  incl_len : Nat
  orig_len : Nat
  payload : Bytes            -- `_payload`, seen through the `payload` / `packet` properties
  deriving Repr, DecidableEq

def Rec.fresh : Rec := { sec := 0, usec := 0, incl_len := 0, orig_len := 0, payload := [] }

/-- the `payload` / `packet` property setter keeps both length fields in step -/
def Rec.setPayload (s : Rec) (p : Bytes) : Rec :=
  { s with payload := p, incl_len := p.length, orig_len := p.length }

/-- `PcapRecord.unpack(buf)`: the 16-byte record header only; `_payload` is cleared -/
def Rec.unpack (s : Rec) (buf : Bytes) : Rec × R Unit :=
  if RECORD_HEADER_FORMAT.size ≠ buf.length then (s, .error .value) else
  match structUnpack RECORD_HEADER_FORMAT buf with
  | .ok [a, b, c, d] => ({ sec := a, usec := b, incl_len := c, orig_len := d, payload := [] }, .ok ())
  | .ok _ => (s, .error .struct)
  | .error e => (s, .error e)

/-- `PcapRecord.pack()` -/
def Rec.pack (s : Rec) : Rec × R Bytes :=
  match structPack RECORD_HEADER_FORMAT [s.sec, s.usec, s.incl_len, s.orig_len] with
  | .ok h => (s, .ok (h ++ s.payload))
  | .error e => (s, .error e)

/-! ### Pcap files -/

inductive Mode where
  | r | w | a
  deriving Repr, DecidableEq

structure Handle where
  mode : Mode
  pos : Nat                 -- file position of `fopen`
  closed : Bool
  magic : Int
  versionmaj : Int
  versionmin : Int
  zone : Int
  sigfigs : Int
  snaplen : Int
  network : Int
  filesize : Nat
  deriving Repr, DecidableEq

structure FS where
  file : Option Bytes        -- `none`: the file does not exist
  h : Option Handle          -- the `Pcap` object, if one was constructed
  deriving Repr, DecidableEq

def FS.fresh : FS := { file := none, h := none }

/-- value `struct.unpack` returns for a code: two's complement for the signed ones -/
def codeToInt (c : Code) (n : Nat) : Int :=
  match c with
  | .i8 => if n < 128 then n else (n : Int) - 256
  | .i16 => if n < 32768 then n else (n : Int) - 65536
  | .i32 => if n < 2147483648 then n else (n : Int) - 4294967296
  | .i64 => if n < 9223372036854775808 then n else (n : Int) - 18446744073709551616
  | _ => n

def defaultHandle (m : Mode) : Handle :=
  { mode := m, pos := 0, closed := false, magic := DEFAULT_MAGIC, versionmaj := DEFAULT_VERSIONMAJ,
    versionmin := DEFAULT_VERSIONMIN, zone := DEFAULT_ZONE, sigfigs := DEFAULT_SIGFIGS,
    snaplen := DEFAULT_SNAPLEN, network := DEFAULT_NETWORK, filesize := 0 }

/-- the bytes `_write_global_header` writes for a freshly constructed object -/
def globalHeader : R Bytes :=
  structPack GLOBAL_HEADER_FORMAT [DEFAULT_MAGIC, DEFAULT_VERSIONMAJ, DEFAULT_VERSIONMIN, DEFAULT_ZONE,
    DEFAULT_SIGFIGS, DEFAULT_SNAPLEN, DEFAULT_NETWORK]

/-- write `data` at position `pos` (zero fill if `pos` is beyond the end) -/
def writeAt (f : Bytes) (pos : Nat) (data : Bytes) : Bytes :=
  f.take pos ++ List.replicate (pos - f.length) 0 ++ data ++ f.drop (pos + data.length)

/-- `Pcap(filename, mode=…)`.  A previous object is abandoned (the harness closes it first). -/
def openFile (fs : FS) (m : Mode) : FS × R Unit :=
  match m with
  | .r =>
    match fs.file with
    | none => ({ fs with h := none }, .error .os)
    | some f =>
      let header := f.take GLOBAL_HEADER_SIZE
      match structUnpack GLOBAL_HEADER_FORMAT header with
      | .error e => ({ fs with h := none }, .error e)
      | .ok vals =>
        match List.zipWith codeToInt GLOBAL_HEADER_FORMAT.codes vals with
        | [mg, vmaj, vmin, zone, sf, sl, nw] =>
          let h : Handle :=
            { mode := .r, pos := header.length, closed := false, magic := mg, versionmaj := vmaj,
              versionmin := vmin, zone := zone, sigfigs := sf, snaplen := sl, network := nw,
              filesize := f.length }
          ({ fs with h := some h }, .ok ())
        | _ => ({ fs with h := none }, .error .value)
  | .w =>
    match globalHeader with
    | .error e => ({ file := some [], h := none }, .error e)
    | .ok hd =>
      -- filesize += len(header), then os.path.getsize() of the still empty file
      ({ file := some hd, h := some { defaultHandle .w with pos := hd.length, filesize := 0 } }, .ok ())
  | .a =>
    let f := fs.file.getD []
    ({ file := some f, h := some { defaultHandle .a with pos := f.length, filesize := f.length } }, .ok ())

/-- `Pcap.write(record)` -/
def write (fs : FS) (rec : Rec) : FS × R Unit :=
  match fs.h with
  | none => (fs, .error .attribute)
  | some h =>
    match (Rec.pack rec).2 with
    | .error e => (fs, .error e)
    | .ok pkt =>
      if h.closed then (fs, .error .value) else
      match h.mode with
      | .r => (fs, .error .value)              -- io.UnsupportedOperation is a ValueError
      | .w =>
        let f := writeAt (fs.file.getD []) h.pos pkt
        ({ file := some f, h := some { h with pos := h.pos + pkt.length, filesize := h.filesize + pkt.length } }, .ok ())
      | .a =>
        let f := fs.file.getD [] ++ pkt
        ({ file := some f, h := some { h with pos := f.length, filesize := h.filesize + pkt.length } }, .ok ())

def close (fs : FS) : FS × R Unit :=
  match fs.h with
  | none => (fs, .error .attribute)
  | some h => ({ fs with h := some { h with closed := true } }, .ok ())

def flush (fs : FS) : FS × R Unit :=
  match fs.h with
  | none => (fs, .error .attribute)
  | some h => if h.closed then (fs, .error .value) else (fs, .ok ())

/-- one step of the reader on the bytes at and after the cursor: `none` when the 16-byte header is not
    all there (the reader stops), else the record — its payload is whatever `read(incl_len)` returned,
    put in through the `packet` setter — and the number of bytes consumed -/
def nextRec (rest : Bytes) : Option (Rec × Nat) :=
  let hd := rest.take RECORD_HEADER_SIZE
  match Rec.unpack Rec.fresh hd with
  | (_, .error _) => none
  | (r, .ok ()) =>
    let pl := (rest.drop hd.length).take r.incl_len
    some (r.setPayload pl, hd.length + pl.length)

/-! #### the bounded-piece read of `Pcap.next` (fix 0e0a76e), spelled out.
    `nextRec` above models `_chunks = []; _todo = incl_len; while _todo > 0: …; b"".join(_chunks)` by its net effect,
    one `take`.  `readLoop` is the loop itself, statement by statement, with `fopen.read(n)` = "the next `min n (bytes
    left)` bytes, advance"; it also records the argument of every `read()` call.  `Lemmas/PcapChunk` proves that the
    two agree (`nextRecChunked_eq`), so `next`, the driver and the C05 theorems keep using `nextRec`. -/

/-- the `while _todo > 0:` loop.  State: the bytes at and after the file position, `_todo`, `b"".join(_chunks)` so far,
    the sizes passed to `read()` so far.  Result: the joined chunks, the bytes left after the file position, the sizes. -/
def readLoop (chunk : Nat) : Nat → Bytes → Nat → Bytes → List Nat → R (Bytes × Bytes × List Nat)
  | 0, _, _, _, _ => .error .fuel
  | fuel + 1, rest, todo, acc, asks =>
    if todo > 0 then
      let ask := min todo chunk
      let c := rest.take ask                       -- _chunk = self.fopen.read(min(_todo, 1 << 20))
      if c.isEmpty then .ok (acc, rest, asks ++ [ask])   -- if not _chunk: break
      else readLoop chunk fuel (rest.drop c.length) (todo - c.length) (acc ++ c) (asks ++ [ask])
    else .ok (acc, rest, asks)

/-- `nextRec` with the read loop spelled out; second component: the sizes passed to `read()` for the record data.
    Fuel: every iteration but the last consumes at least one byte of the file. -/
def nextRecChunked (rest : Bytes) : R (Option (Rec × Nat) × List Nat) :=
  let hd := rest.take RECORD_HEADER_SIZE
  match Rec.unpack Rec.fresh hd with
  | (_, .error _) => .ok (none, [])
  | (r, .ok ()) =>
    match readLoop READ_CHUNK ((rest.drop hd.length).length + 1) (rest.drop hd.length) r.incl_len [] [] with
    | .error e => .error e
    | .ok (pl, _, asks) => .ok (some (r.setPayload pl, hd.length + pl.length), asks)

/-- `Pcap.next()` -/
def next (fs : FS) : FS × R Rec :=
  match fs.h with
  | none => (fs, .error .attribute)
  | some h =>
    -- read() on a closed file or on a write-only file raises; the bare `except` turns it into StopIteration
    if h.closed || h.mode != .r then (fs, .error .stopIteration) else
    let rest := (fs.file.getD []).drop h.pos
    match nextRec rest with
    | none => ({ fs with h := some { h with pos := h.pos + min RECORD_HEADER_SIZE rest.length } }, .error .stopIteration)
    | some (r, n) => ({ fs with h := some { h with pos := h.pos + n } }, .ok r)

/-- `list(pcap)`: call `next` until StopIteration -/
def readAll : Nat → FS → FS × R (List Rec)
  | 0, fs => (fs, .error .fuel)
  | fuel + 1, fs =>
    match next fs with
    | (fs', .ok r) =>
      match readAll fuel fs' with
      | (fs'', .ok rs) => (fs'', .ok (r :: rs))
      | (fs'', .error e) => (fs'', .error e)
    | (fs', .error .stopIteration) => (fs', .ok [])
    | (fs', .error e) => (fs', .error e)

/-- fuel that is always enough: one iteration per 16 bytes of file, plus the stopping one -/
def fuelFor (fs : FS) : Nat := (fs.file.getD []).length + 1

/-- the `for idx, rec in enumerate(self)` loop of `__getitem__` -/
def getLoop : Nat → FS → Int → Int → FS × R (Option Rec)
  | 0, fs, _, _ => (fs, .error .fuel)
  | fuel + 1, fs, idx, item =>
    match next fs with
    | (fs', .ok r) => if idx = item then (fs', .ok (some r)) else getLoop fuel fs' (idx + 1) item
    | (fs', .error .stopIteration) => (fs', .ok none)
    | (fs', .error e) => (fs', .error e)

/-- `Pcap.__getitem__(item)`: seek to the first record (allowed in every mode; it also moves the write
    position of a mode-"w" object), scan -/
def getitem (fs : FS) (item : Int) : FS × R (Option Rec) :=
  match fs.h with
  | none => (fs, .error .attribute)
  | some h =>
    if h.closed then (fs, .error .value) else
    let fs := { fs with h := some { h with pos := GLOBAL_HEADER_SIZE } }
    getLoop (fuelFor fs) fs 0 item

/-! Harness-level operations on the file itself (no library code involved): they first close the
    object, as a crash would. -/

def closeIfOpen (fs : FS) : FS :=
  { fs with h := fs.h.map fun h => { h with closed := true } }

/-- the crash model: the file is cut to its first `t` bytes (extended with zeros if `t` is larger) -/
def truncate (fs : FS) (t : Nat) : FS × R Unit :=
  let fs := closeIfOpen fs
  match fs.file with
  | none => (fs, .error .os)
  | some f => ({ fs with file := some (f.take t ++ List.replicate (t - f.length) 0) }, .ok ())

def setFile (fs : FS) (b : Bytes) : FS × R Unit :=
  ({ closeIfOpen fs with file := some b }, .ok ())

def deleteFile (fs : FS) : FS × R Unit :=
  ({ closeIfOpen fs with file := none }, .ok ())

end Acra.Model.Pcap
