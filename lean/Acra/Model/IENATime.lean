/-
  IENA time of year: `IENA.setPacketTime` / `IENA._getPacketTime` (AcraNetwork/IENA.py).
  `soy` is whatever `int(time.mktime(self._startOfYear.timetuple()))` returned (a parameter: the law
  proved about these functions does not depend on the time zone).
  The float arithmetic is abstracted by a rounding function `fl`; the executable instance uses the
  exact binary64 model `Acra.Py.Float.rne`.
-/
import Acra.Py.Float
namespace Acra.Model.IENATime
open Acra.Py

/-- `setPacketTime(utctimestamp, microseconds)`: integer arithmetic only -/
def setPacketTime (ts us soy : Nat) : Nat := us + (ts - soy) * 1000000

/-- `_getPacketTime()`: `int(self.timeusec / 1e6 + time.mktime(...))` with every float operation
    rounded by `fl` -/
def getPacketTimeWith (fl : Rat → Rat) (timeusec soy : Nat) : Nat :=
  Float.floorNat (fl (fl (fl (timeusec : Rat) / 1000000) + fl (soy : Rat)))

def getPacketTime (timeusec soy : Nat) : Nat := getPacketTimeWith Float.rne timeusec soy

end Acra.Model.IENATime
