/-
  Model of AcraNetwork/IRIG106/Chapter11/ARINC429.py: `ARINC429DataWord`, `ARINC429DataPacket`.
-/
import Acra.Py.Struct
import Acra.Model.Ch11PayTs
import Acra.Gen.Ch11ARINC
namespace Acra.Model.Ch11Pay.ARINC
open Acra.Py Acra.Gen.Ch11ARINC Acra.Model.Ch11Pay

structure Word where
  gaptime : Nat
  format_error : Bool
  parity_error : Bool
  bus_speed : Nat
  bus : Nat
  payload : Bytes
  deriving Repr, DecidableEq

def Word.fresh : Word :=
  { gaptime := 0, format_error := false, parity_error := false, bus_speed := LO_SPEED, bus := 0, payload := [] }

/-- the intra-packet data header: the fields are ADDED, not or-ed -/
def Word.ipdh (w : Word) : Nat :=
  16777216 * w.bus + (if w.format_error then 8388608 else 0) + (if w.parity_error then 4194304 else 0) +
  2097152 * w.bus_speed + w.gaptime

/-- `ARINC429DataWord.pack` -/
def Word.pack (w : Word) : R Bytes :=
  match structPack HDR_FORMAT [w.ipdh] with
  | .error e => .error e
  | .ok hdr => .ok (hdr ++ w.payload)

/-- `ARINC429DataWord.unpack`: the payload is everything after the 4-byte header -/
def Word.unpack (w : Word) (buf : Bytes) : Word × R Unit :=
  match structUnpackFrom HDR_FORMAT buf 0 with
  | .ok [v] =>
    ({ payload := buf.drop HDR_SIZE, bus := v / 16777216, format_error := decide ((v / 8388608) % 2 ≠ 0),
       parity_error := decide ((v / 4194304) % 2 ≠ 0), bus_speed := (v / 2097152) % 2, gaptime := v % 1048576 },
     .ok ())
  | .ok _ => (w, .error .struct)
  | .error e => (w, .error e)

def Word.eq (a b : Word) : Bool :=
  a.gaptime == b.gaptime && a.format_error == b.format_error && a.parity_error == b.parity_error &&
  a.bus_speed == b.bus_speed && a.bus == b.bus && a.payload == b.payload

structure Packet where
  msgcount : Nat
  arincwords : List Word
  deriving Repr, DecidableEq

def Packet.fresh : Packet := { msgcount := 0, arincwords := [] }

/-- `ARINC429DataPacket.pack`: writes (and stores) `msgcount = len(arincwords)` -/
def Packet.pack (p : Packet) : Packet × R Bytes :=
  let p' := { p with msgcount := p.arincwords.length }
  match structPack PKT_pack_fmt0 [p'.msgcount, 0] with
  | .error e => (p', .error e)
  | .ok hdr =>
    match packList Word.pack p'.arincwords with
    | .error e => (p', .error e)
    | .ok body => (p', .ok (hdr ++ body))

/-- the words at `4 + 8*i`, `i = start … start+n-1`, each decoded from its 8-byte slice -/
def decWords (buf : Bytes) : Nat → Nat → R (List Word)
  | 0, _ => .ok []
  | n + 1, idx =>
    match Word.unpack Word.fresh (slice buf (idx * 8 + 4) (idx * 8 + 4 + 8)) with
    | (_, .error e) => .error e
    | (w, .ok ()) =>
      match decWords buf n (idx + 1) with
      | .ok ws => .ok (w :: ws)
      | .error e => .error e

/-- `ARINC429DataPacket.unpack` -/
def Packet.unpack (p : Packet) (buf : Bytes) : Packet × R Unit :=
  match structUnpackFrom PKT_unpack_fmt0 buf 0 with
  | .ok [cnt, _] =>
    let exp := (buf.length - 4) / 8
    match decWords buf exp 0 with
    | .error e => ({ p with msgcount := cnt, arincwords := [] }, .error e)
    | .ok ws =>
      let p' : Packet := { msgcount := cnt, arincwords := ws }
      if cnt ≠ ws.length then (p', .error .generic) else (p', .ok ())
  | .ok _ => (p, .error .struct)
  | .error e => (p, .error e)

/-- `ARINC429DataPacket.append` -/
def Packet.append (p : Packet) (w : Word) : Packet := { p with arincwords := p.arincwords ++ [w] }

def wordsEq : List Word → List Word → Bool
  | [], [] => true
  | a :: as, b :: bs => Word.eq a b && wordsEq as bs
  | _, _ => false

def Packet.eq (a b : Packet) : Bool := a.msgcount == b.msgcount && wordsEq a.arincwords b.arincwords

end Acra.Model.Ch11Pay.ARINC
