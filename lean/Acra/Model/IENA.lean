/-
  Model of AcraNetwork/IENA.py: IENA (positional), IENAM, IENAQ, IENAD, IENAN.
  The base-class state is shared; the typed classes add `parameters`.
-/
import Acra.Py.Struct
import Acra.Py.Records
import Acra.Gen.IENA
namespace Acra.Model.IENA
open Acra.Py Acra.Gen.IENA

structure Base where
  key : Nat
  size : Nat
  timeusec : Nat
  keystatus : Nat
  status : Nat
  sequence : Nat
  endfield : Nat
  payload : Bytes
  lengthError : Bool          -- codec option
  deriving Repr, DecidableEq

def Base.fresh : Base :=
  { key := 0, size := 0, timeusec := 0, keystatus := 0, status := 0, sequence := 0,
    endfield := IENA_DEFAULT_ENDFIELD, payload := [], lengthError := true }

/-- `IENA.pack` -/
def Base.pack (s : Base) : Base × R Bytes :=
  let timehi := s.timeusec / 4294967296
  let timelo := s.timeusec % 4294967296
  let s' := { s with size := (s.payload.length + IENA_HEADER_LENGTH + IENA_TRAILER_LENGTH) / 2 }
  match structPack IENA_HEADER_FORMAT
      [s'.key, s'.size, timehi, timelo, s'.keystatus, s'.status, s'.sequence] with
  | .error e => (s', .error e)
  | .ok h =>
    match structPack IENA_pack_fmt0 [s'.endfield] with
    | .error e => (s', .error e)
    | .ok t => (s', .ok (h ++ s'.payload ++ t))

/-- `IENA.unpack` -/
def Base.unpack (s : Base) (buf : Bytes) : Base × R Unit :=
  if buf.length < IENA_HEADER_LENGTH then (s, .error .value) else
  match structUnpackFrom IENA_HEADER_FORMAT buf 0 with
  | .ok [k, sz, thi, tlo, ks, st, sq] =>
    let s1 := { s with key := k, size := sz, timeusec := tlo + thi * 4294967296, keystatus := ks,
                       status := st, sequence := sq }
    if sz * 2 ≠ buf.length && s.lengthError then (s1, .error .generic) else
    -- buf[HEADER:-2] and unpack_from(">H", buf, -2)
    let s2 := { s1 with payload := slice buf IENA_HEADER_LENGTH (buf.length - 2) }
    match structUnpackFrom IENA_unpack_fmt0 buf (buf.length - 2) with
    | .ok [e] => ({ s2 with endfield := e }, .ok ())
    | .ok _ => (s2, .error .struct)
    | .error e => (s2, .error e)
  | .ok _ => (s, .error .struct)
  | .error e => (s, .error e)

def Base.eq (a b : Base) : Bool :=
  a.key == b.key && a.timeusec == b.timeusec && a.keystatus == b.keystatus && a.status == b.status &&
  a.sequence == b.sequence && a.endfield == b.endfield && a.payload == b.payload

/-! ### IENA-M -/

structure MParam where
  paramid : Nat
  delay : Nat
  dataset : Bytes
  deriving Repr, DecidableEq

structure MState where
  base : Base
  parameters : List MParam
  deriving Repr, DecidableEq

def MState.fresh : MState := { base := Base.fresh, parameters := [] }

/-- one parameter as `IENAM.pack` emits it -/
def encM (p : MParam) : R Bytes :=
  match structPack IENAM_FORMAT [p.paramid, p.delay, p.dataset.length] with
  | .error e => .error e
  | .ok h =>
    if p.dataset.length % 2 == 1 then
      match structPack IENAM_pack_fmt0 [0] with
      | .ok z => .ok (h ++ p.dataset ++ z)
      | .error e => .error e
    else .ok (h ++ p.dataset)

def encAllM : List MParam → R Bytes
  | [] => .ok []
  | p :: ps =>
    match encM p with
    | .error e => .error e
    | .ok b =>
      match encAllM ps with
      | .ok r => .ok (b ++ r)
      | .error e => .error e

def MState.pack (s : MState) : MState × R Bytes :=
  match encAllM s.parameters with
  | .error e => (s, .error e)           -- payload partly rebuilt; state unspecified after an error
  | .ok pl =>
    let (b', r) := Base.pack { s.base with payload := pl }
    ({ s with base := b' }, r)

/-- one iteration of the `while len(remaining_payload) > 0` loop -/
def decM (rem : Bytes) : R (MParam × Nat) :=
  match structUnpack IENAM_FORMAT (rem.take IENAM_FORMAT_LEN) with
  | .ok [pid, dl, n] =>
    if (rem.drop IENAM_FORMAT_LEN).length < n then .error .generic else
    .ok ({ paramid := pid, delay := dl, dataset := slice rem IENAM_FORMAT_LEN (IENAM_FORMAT_LEN + n) },
         IENAM_FORMAT_LEN + n + (if n % 2 == 1 then 1 else 0))
  | .ok _ => .error .struct
  | .error e => .error e

def moreRem (off len : Nat) : Bool := decide (0 < len - off)

def MState.unpack (s : MState) (buf : Bytes) : MState × R Unit :=
  let (b', r) := Base.unpack s.base buf
  match r with
  | .error e => ({ s with base := b' }, .error e)
  | .ok () =>
    match decOff decM moreRem b'.payload (b'.payload.length + 1) 0 with
    | .ok ps => ({ base := b', parameters := ps }, .ok ())
    | .error e => ({ base := b', parameters := [] }, .error e)

def MState.eq (a b : MState) : Bool := Base.eq a.base b.base && a.parameters == b.parameters

end Acra.Model.IENA
