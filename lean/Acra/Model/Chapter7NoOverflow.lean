/-
  `NoLLPOverflow` — the hypothesis of the low-latency half of C10 — as a computation over the state
  of the encapsulation fold (Model.Chapter7.encStep), core Lean only so that the driver can evaluate it
  (`F ch7.nollp`, compared with the same observation made on the real generator by spying on
  `PTFR.add_payload`).
-/
import Acra.Model.Chapter7
namespace Acra.Model.Chapter7
open Acra.Py

/-- whenever the fold reaches a low-latency PTDP, its bytes (6 header bytes + payload) plus the 1-byte
    continuation marker fit in the free space of the frame under construction; `false` as well when the
    generator fails (it never does for frame lengths ≥ 1) -/
def noLLPOverflowFrom (L sid : Nat) : List PTDP.State → PTFR.State × List PTFR.State → Bool
  | [], _ => true
  | p :: ps, st =>
    (!p.low_latency || decide (p.payload.length + 6 + 1 + st.1.payload.length ≤ L)) &&
    match encStep L sid st p with
    | .ok st' => noLLPOverflowFrom L sid ps st'
    | .error _ => false

/-- each low-latency PTDP, with its continuation byte, fits in the free space of the frame it is
    inserted into (decidable: a `Bool` computed along `datapkts_to_ptfr`) -/
def NoLLPOverflow (pkts : List (Bytes × Bool)) (L sid : Nat) : Prop :=
  noLLPOverflowFrom L sid (datapktsToPtdp pkts) (newPtfr L sid, []) = true

instance (pkts : List (Bytes × Bool)) (L sid : Nat) : Decidable (NoLLPOverflow pkts L sid) := by
  unfold NoLLPOverflow; exact inferInstance

end Acra.Model.Chapter7
