/-
  Model of AcraNetwork/iNetX.py (class iNetX).  Hand-written; constants come from Acra.Gen.iNetX
  (regenerated from the source on every run).
-/
import Acra.Py.Struct
import Acra.Gen.iNetX
namespace Acra.Model.iNetX
open Acra.Py Acra.Gen.iNetX

structure State where
  inetxcontrol : Nat
  streamid : Nat
  sequence : Nat
  packetlen : Nat
  ptptimeseconds : Nat
  ptptimenanoseconds : Nat
  pif : Nat
  payload : Bytes
  deriving Repr, DecidableEq

def fresh : State :=
  { inetxcontrol := iNetX_DEF_CONTROL_WORD, streamid := 0, sequence := 0, packetlen := 0,
    ptptimeseconds := 0, ptptimenanoseconds := 0, pif := 0, payload := [] }

/-- `iNetX.pack`: recomputes `packetlen`, then header ++ payload -/
def pack (s : State) : State × R Bytes :=
  let s' := { s with packetlen := s.payload.length + iNetX_INETX_HEADER_LENGTH }
  match structPack iNetX_INETX_HEADER_FORMAT
      [s'.inetxcontrol, s'.streamid, s'.sequence, s'.packetlen, s'.ptptimeseconds,
       s'.ptptimenanoseconds, s'.pif] with
  | .ok h => (s', .ok (h ++ s'.payload))
  | .error e => (s', .error e)

/-- `iNetX.unpack` -/
def unpack (s : State) (buf : Bytes) : State × R Unit :=
  if buf.length < iNetX_INETX_HEADER_LENGTH then (s, .error .value) else
  match structUnpackFrom iNetX_INETX_HEADER_FORMAT buf 0 with
  | .ok [a, b, c, d, e, f, g] =>
    let s' := { s with inetxcontrol := a, streamid := b, sequence := c, packetlen := d,
                       ptptimeseconds := e, ptptimenanoseconds := f, pif := g }
    if d ≠ buf.length then (s', .error .value)
    else ({ s' with payload := buf.drop iNetX_INETX_HEADER_LENGTH }, .ok ())
  | .ok _ => (s, .error .struct)
  | .error e => (s, .error e)

/-- `iNetX.__eq__` restricted to iNetX operands (REQ_ATTR) -/
def eq (a b : State) : Bool :=
  a.inetxcontrol == b.inetxcontrol && a.streamid == b.streamid && a.sequence == b.sequence &&
  a.ptptimeseconds == b.ptptimeseconds && a.ptptimenanoseconds == b.ptptimenanoseconds &&
  a.pif == b.pif && a.payload == b.payload

end Acra.Model.iNetX
