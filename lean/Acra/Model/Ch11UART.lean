/-
  Model of AcraNetwork/IRIG106/Chapter11/UART.py: `endian_swap`, `UARTDataWord`, `UARTDataPacket`.
-/
import Acra.Model.Ch11PayTs
import Acra.Gen.Ch11UART
namespace Acra.Model.Ch11Pay.UART
open Acra.Py Acra.Gen.Ch11UART Acra.Model.Ch11Pay

structure Word where
  ipts : Ipts
  parity_error : Bool
  subchannel : Nat
  datalength : Option Nat
  payload : Bytes                -- `_payload`, through the `payload` property
  data_endianness : Nat          -- codec option
  deriving Repr, DecidableEq

/-- `UARTDataWord(ipts_source, data_endianness)`; `ipts_source=None` gives `ipts = None` -/
def Word.fresh (ipts : Ipts) (endian : Nat) : Word :=
  { ipts := ipts, parity_error := false, subchannel := 0, datalength := Option.none, payload := [],
    data_endianness := endian }

/-- the `payload` property setter: also overwrites `datalength` -/
def Word.setPayload (w : Word) (b : Bytes) : Word := { w with payload := b, datalength := some b.length }

/-- `UARTDataWord.pack` (does not mutate) -/
def Word.pack (w : Word) : R Bytes :=
  match (if w.ipts = .none then .ok [] else w.ipts.pack) with
  | .error e => .error e
  | .ok ts =>
    let dl := w.payload.length
    let sub := if w.parity_error then w.subchannel + 0x8000 else w.subchannel
    match structPack UW_pack_fmt0 [dl, sub] with
    | .error e => .error e
    | .ok hdr =>
      match (if dl % 2 == 1 then structPack UW_pack_fmt1 [0xFF] else .ok []) with
      | .error e => .error e
      | .ok pad =>
        let pp := w.payload ++ pad
        .ok (ts ++ hdr ++ (if w.data_endianness == ENDIAN_LITTLE then endianSwap pp else pp))

/-- the data bytes `UARTDataWord.unpack` extracts at `off` for a declared length `dl` -/
def Word.extract (endian : Nat) (buf : Bytes) (off dl : Nat) : Bytes :=
  if endian == ENDIAN_LITTLE then
    if dl % 2 == 1 then (endianSwap (slice buf off (off + dl + 1))).dropLast
    else endianSwap (slice buf off (off + dl))
  else slice buf off (off + dl)

/-- `UARTDataWord.unpack`: returns the number of bytes consumed -/
def Word.unpack (w : Word) (buf : Bytes) : Word × R Nat :=
  match unpackTs w.ipts buf with
  | .error e => (w, .error e)
  | .ok (i, off) =>
    let w1 := { w with ipts := i }
    match structUnpackFrom UW_unpack_fmt0 buf off with
    | .ok [dl, pe] =>
      let pp := Word.extract w.data_endianness buf (off + 4) dl
      -- `self.payload = …` resets `datalength` to the number of bytes actually taken
      let w2 : Word := { w1 with subchannel := pe % 8192, parity_error := decide (pe / 32768 ≠ 0),
                                 payload := pp, datalength := some pp.length }
      (w2, .ok (off + 4 + pp.length + (if pp.length % 2 == 1 then 1 else 0)))
    | .ok _ => (w1, .error .struct)
    | .error e => (w1, .error e)

/-- `UARTDataWord.__eq__`: ipts, parity_error, subchannel, datalength, payload -/
def Word.eq (a b : Word) : Bool :=
  a.ipts == b.ipts && a.parity_error == b.parity_error && a.subchannel == b.subchannel &&
  a.datalength == b.datalength && a.payload == b.payload

structure Packet where
  uartwords : List Word
  ipts_source : Option Nat       -- codec option (`_ipts_source`); `none` = no intra-packet time stamps
  data_endianness : Nat          -- codec option
  deriving Repr, DecidableEq

def Packet.fresh (src : Option Nat) (endian : Nat) : Packet :=
  { uartwords := [], ipts_source := src, data_endianness := endian }

/-- `UARTDataPacket.pack` -/
def Packet.pack (p : Packet) : R Bytes :=
  if p.uartwords.length = 0 then .error .generic else
  match (if p.ipts_source.isSome then structPack UP_pack_fmt0 [0x80000000] else structPack UP_pack_fmt1 [0]) with
  | .error e => .error e
  | .ok csw =>
    match packList Word.pack p.uartwords with
    | .error e => .error e
    | .ok body => .ok (csw ++ body)

/-- the object `UARTDataWord(self._ipts_source, self.data_endianness)` each loop iteration creates -/
def Packet.proto (p : Packet) : Option Word :=
  match p.ipts_source with
  | Option.none => some (Word.fresh .none p.data_endianness)
  | some s => (iptsOfSource s).map fun i => Word.fresh i p.data_endianness

def decWord (proto : Word) (rem : Bytes) : R (Word × Nat) :=
  match Word.unpack proto rem with
  | (w, .ok n) => .ok (w, n)
  | (_, .error e) => .error e

/-- `while abs(offset - len(mybuffer)) > 4` -/
def moreUART (off len : Nat) : Bool := decide (4 < off - len ∨ 4 < len - off)

/-- `UARTDataPacket.unpack` -/
def Packet.unpack (p : Packet) (buf : Bytes) : Packet × R Unit :=
  match structUnpackFrom UP_unpack_fmt0 buf 0 with
  | .error e => (p, .error e)
  | .ok _ =>
    match p.proto with
    | Option.none => ({ p with uartwords := [] }, .error .attribute)
    | some proto =>
      match decOff (decWord proto) moreUART buf (buf.length + 1) 4 with
      | .ok ws => ({ p with uartwords := ws }, .ok ())
      | .error e => ({ p with uartwords := [] }, .error e)

/-- `UARTDataPacket.append` -/
def Packet.append (p : Packet) (w : Word) : Packet := { p with uartwords := p.uartwords ++ [w] }

def wordsEq : List Word → List Word → Bool
  | [], [] => true
  | a :: as, b :: bs => Word.eq a b && wordsEq as bs
  | _, _ => false

/-- `UARTDataPacket.__eq__`: the word lists -/
def Packet.eq (a b : Packet) : Bool := wordsEq a.uartwords b.uartwords

end Acra.Model.Ch11Pay.UART
