/-
  Model of AcraNetwork/SamDec008.py: `SamDec008.frames` as driven by `SamDecPcap._get_data` over a
  pcap file (the socket source is not modelled).  Constants come from Acra.Gen.SamDec.

  A file is its bytes.  `Pcap.__init__(mode="r")` reads the 24-byte global header with
  `struct.unpack` (struct.error when the file is shorter); `Pcap.next` reads a 16-byte record header
  (anything shorter: ValueError inside `PcapRecord.unpack`, turned into StopIteration) and then
  `read(incl_len)`, which returns what is left when the file ends early.  Only what the decommutator
  uses is modelled; the `net` family owns the full Pcap model.

  `frames()` is a generator: frames yielded before an exception have been handed to the consumer, so
  the model returns the frames together with the exception (if any) that ended the iteration.
    * first qualifying packet without a sync word: `Exception("No Frame sync found")`  → `.generic`
    * a frame that does not start with the sync word sets `frame_length = None` and the loop
      condition then evaluates `int + None`                                        → `.type`
    * `self._sequence` is never assigned, so the sequence check is dead code (not modelled);
      `self._payload_offset` is re-initialised for every packet, so it is a local of the step.
-/
import Acra.Py.Struct
import Acra.Py.Records
import Acra.Model.iNetX
import Acra.Model.Search
import Acra.Gen.SamDec
namespace Acra.Model.SamDec
open Acra.Py Acra.Gen.SamDec Acra.Model.Search

/-! ### pcap reading (what `for rec in self._pcap` sees) -/

/-- one `Pcap.next()` on the bytes after the cursor: the record payload and the bytes consumed -/
def pcapRec (rem : Bytes) : R (Bytes × Nat) :=
  let hdr := rem.take SamDec_PCAP_RECORD_HEADER_SIZE
  if SamDec_PCAP_RECORD_HEADER_SIZE ≠ hdr.length then .error .value else
  match structUnpack SamDec_PCAP_RECORD_HEADER_FORMAT hdr with
  | .ok [_, _, incl, _] =>
    let body := (rem.drop hdr.length).take incl
    .ok (body, hdr.length + body.length)
  | .ok _ => .error .struct
  | .error e => .error e

/-- iteration stops (StopIteration) as soon as a complete record header cannot be read -/
def pcapMore (off len : Nat) : Bool := off + SamDec_PCAP_RECORD_HEADER_SIZE ≤ len

/-- payloads of all records after the global header -/
def pcapRecords (file : Bytes) : R (List Bytes) :=
  decOff pcapRec pcapMore file (file.length + 1) SamDec_PCAP_GLOBAL_HEADER_SIZE

/-- `SamDecPcap._get_data`: the UDP filter at fixed offsets -/
def udpData (rec : Bytes) : Option Bytes :=
  if rec.length > SamDec_min_len then
    match structUnpackFrom SamDec_get_data_fmt0 rec SamDec_proto_off with
    | .ok [t] => if t == SamDec_UDP_TYPE then some (rec.drop SamDec_data_off) else none
    | _ => none
  else none

/-! ### frames() -/

/-- Python slice index normalisation for an int bound -/
def normIdx (n : Nat) (i : Int) : Nat := if i < 0 then (i + n).toNat else min i.toNat n

/-- `b[lo:hi]` for Python ints -/
def pySlice (b : List α) (lo hi : Int) : List α :=
  slice b (normIdx b.length lo) (normIdx b.length hi)

/-- `while (self._payload_offset + self.frame_length) <= len(payload)`.
    Returns the frames yielded, the final `frame_length`, and the exception that ended the loop. -/
def sliceLoop (sync payload : Bytes) : Nat → Int → Option Int → List Bytes × Option Int × Option Err
  | 0, _, fl => ([], fl, some .fuel)
  | _ + 1, _, none => ([], none, some .type)
  | fuel + 1, off, some fl =>
    if off + fl ≤ payload.length then
      let fb := pySlice payload off (off + fl)
      let off := off + fl
      if fb.take 4 != sync then sliceLoop sync payload fuel off none
      else
        let (fs, fl', e) := sliceLoop sync payload fuel off (some fl)
        (fb :: fs, fl', e)
    else ([], some fl, none)

/-- frame length inference on the first qualifying packet -/
def inferLength (sync payload : Bytes) : R Int :=
  match bmh payload sync with
  | .error e => .error e
  | .ok [] => .error .generic
  | .ok [_] => .ok ((payload.length : Int) - SamDec_PCM_HDR_LEN)
  | .ok (o0 :: o1 :: _) => .ok (o1 - o0)

/-- the body of `for udp_payload in self._get_data()` for one datagram -/
def onPacket (sync udp : Bytes) (fl : Option Int) : List Bytes × Option Int × Option Err :=
  match iNetX.unpack iNetX.fresh udp with
  | (_, .error _) => ([], fl, none)
  | (pkt, .ok _) =>
    if pkt.streamid == SamDec_streamid then
      let payload := pkt.payload
      match fl with
      | some fl => sliceLoop sync payload (payload.length + 2) SamDec_PCM_HDR_LEN (some fl)
      | none =>
        match inferLength sync payload with
        | .error e => ([], none, some e)
        | .ok fl => sliceLoop sync payload (payload.length + 2) SamDec_PCM_HDR_LEN (some fl)
    else ([], fl, none)

def framesLoop (sync : Bytes) : List Bytes → Option Int → List Bytes × Option Err
  | [], _ => ([], none)
  | u :: us, fl =>
    match onPacket sync u fl with
    | (fs, _, some e) => (fs, some e)
    | (fs, fl', none) =>
      let (gs, e) := framesLoop sync us fl'
      (fs ++ gs, e)

/-- `list(SamDec008.frames())` over the given datagrams, with `frame_length = None` initially -/
def frames (udps : List Bytes) : List Bytes × Option Err :=
  match structPack SamDec_frames_fmt0 [SamDec_sync_word] with
  | .error e => ([], some e)
  | .ok sync => framesLoop sync udps none

/-- the datagrams `SamDecPcap(file)._get_data()` yields; the constructor fails on a short file -/
def getData (file : Bytes) : R (List Bytes) :=
  match structUnpack SamDec_PCAP_GLOBAL_HEADER_FORMAT (file.take SamDec_PCAP_GLOBAL_HEADER_SIZE) with
  | .error e => .error e
  | .ok _ =>
    match pcapRecords file with
    | .error e => .error e
    | .ok recs => .ok (recs.filterMap udpData)

/-- `list(SamDecPcap(file).frames())` -/
def decom (file : Bytes) : List Bytes × Option Err :=
  match getData file with
  | .error e => ([], some e)
  | .ok udps => frames udps

end Acra.Model.SamDec
