/-
  Models of AcraNetwork/IRIG106/Chapter11/Analog.py (`Analog`) and ComputerData.py
  (`ComputerGeneratedFormat0`, `ComputerGeneratedFormat1`, the `RCCVER` enum with `_missing_`).
-/
import Acra.Py.Struct
import Acra.Gen.Ch11Analog
import Acra.Gen.Ch11Computer
namespace Acra.Model.Ch11Pay.Analog
open Acra.Py Acra.Gen.Ch11Analog

structure State where
  channel_specific_word : Nat
  data : Bytes
  deriving Repr, DecidableEq

def fresh : State := { channel_specific_word := 0, data := [] }

def pack (s : State) : R Bytes :=
  match structPack AN_pack_fmt0 [s.channel_specific_word] with
  | .error e => .error e
  | .ok h => .ok (h ++ s.data)

def unpack (s : State) (buf : Bytes) : State × R Unit :=
  match structUnpackFrom AN_unpack_fmt0 buf 0 with
  | .ok [v] => ({ channel_specific_word := v, data := buf.drop 4 }, .ok ())
  | .ok _ => (s, .error .struct)
  | .error e => (s, .error e)

def eq (a b : State) : Bool := a.channel_specific_word == b.channel_specific_word && a.data == b.data

end Acra.Model.Ch11Pay.Analog

namespace Acra.Model.Ch11Pay.Computer
open Acra.Py Acra.Gen.Ch11Computer

/-- `_ComputerGeneratedData` / `ComputerGeneratedFormat0` -/
structure State0 where
  csdw : Nat          -- `_csdw`
  payload : Bytes
  deriving Repr, DecidableEq

def State0.fresh : State0 := { csdw := 0, payload := [] }

def State0.pack (s : State0) : R Bytes :=
  match structPack CG_pack_fmt0 [s.csdw] with
  | .error e => .error e
  | .ok h => .ok (h ++ s.payload)

def State0.unpack (s : State0) (buf : Bytes) : State0 × R Unit :=
  match structUnpackFrom CG_unpack_fmt0 buf 0 with
  | .ok [v] => ({ csdw := v, payload := buf.drop 4 }, .ok ())
  | .ok _ => (s, .error .struct)
  | .error e => (s, .error e)

/-- `RCCVER(value)`: a member's value is itself, any other value is `_missing_` → IRIG_106_07 -/
def rccverOf (v : Nat) : Nat := if RCCVER_VALUES.contains v then v else RCCVER_MISSING

structure State1 where
  base : State0
  frmt : Nat
  srcc : Nat
  rccver : Nat
  deriving Repr, DecidableEq

def State1.fresh : State1 := { base := State0.fresh, frmt := FRMT_DEFAULT, srcc := SRCC_DEFAULT, rccver := RCCVER_DEFAULT }

/-- `ComputerGeneratedFormat1.pack`: rebuilds `_csdw` from the three fields (added, not or-ed) -/
def State1.pack (s : State1) : State1 × R Bytes :=
  let s' := { s with base := { s.base with csdw := 512 * s.frmt + 256 * s.srcc + s.rccver } }
  match structPack CG1_pack_fmt0 [s'.base.csdw] with
  | .error e => (s', .error e)
  | .ok h => (s', .ok (h ++ s'.base.payload))

def State1.unpack (s : State1) (buf : Bytes) : State1 × R Unit :=
  match State0.unpack s.base buf with
  | (b, .error e) => ({ s with base := b }, .error e)
  | (b, .ok ()) =>
    ({ base := b, frmt := (b.csdw / 512) % 2, srcc := (b.csdw / 256) % 2, rccver := rccverOf (b.csdw % 256) }, .ok ())

end Acra.Model.Ch11Pay.Computer
