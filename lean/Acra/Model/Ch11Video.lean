/-
  Model of AcraNetwork/IRIG106/Chapter11/Video.py: `VideoFormat2`.

  The nested `AcraNetwork.MPEGTS.MPEGTS` object is modelled only as far as the Chapter 11 wrapper needs
  it (the MPEG family owns the transport-stream model): a list of chunks of at most 188 bytes, a
  chunk being accepted when it has the 4-byte header, starts with the sync byte 0x47 and — if the
  adaptation-control bits say "adaptation field and payload" — has the adaptation-length byte.
  Re-encoding is modelled for chunks without an adaptation field (control 0 or 1); for the others
  `pack` / `==` answer `NotImplementedError` on both sides of the correspondence.
-/
import Acra.Py.Struct
import Acra.Model.Ch11PayTs
import Acra.Gen.Ch11Video
namespace Acra.Model.Ch11Pay.Video
open Acra.Py Acra.Gen.Ch11Video Acra.Model.Ch11Pay

def byteAt (c : Bytes) (i : Nat) : Nat := (c.getD i 0).toNat

/-- adaptation-field control: bits 5..4 of the fourth header byte -/
def ctrl (c : Bytes) : Nat := (byteAt c 3 / 16) % 4

/-- `MPEGPacket.unpack` does not raise on this chunk -/
def chunkOk (c : Bytes) : Bool := decide (4 ≤ c.length) && byteAt c 0 == 0x47 && (ctrl c != 3 || decide (5 ≤ c.length))

/-- the `payload` attribute `MPEGPacket.unpack` leaves -/
def chunkPayload (c : Bytes) : Bytes :=
  if ctrl c = 1 then c.drop 4 else if ctrl c = 3 then c.drop (5 + byteAt c 4) else []

/-- `MPEGPacket.pack` of a decoded chunk without adaptation field: header, payload, 0xFF stuffing to 188 -/
def chunkPack (c : Bytes) : R Bytes :=
  if ctrl c = 2 ∨ ctrl c = 3 then .error .notImplemented else
  let u := c.take 4 ++ chunkPayload c
  .ok (u ++ List.replicate (188 - u.length) 0xFF)

structure State where
  channel_specific_word : Nat
  datastream : Nat
  blocks : List Bytes            -- `mpegts.blocks`, each as the chunk it was decoded from
  deriving Repr, DecidableEq

def fresh : State := { channel_specific_word := 0, datastream := DATASTREAM_DEFAULT, blocks := [] }

/-- `MPEGTS.unpack`: 188-byte strides; any failing chunk raises a bare `Exception` -/
def splitTS (buf : Bytes) : Nat → Nat → R (List Bytes)
  | 0, _ => .error .fuel
  | fuel + 1, off =>
    if off < buf.length then
      let c := slice buf off (off + 188)
      if chunkOk c then
        match splitTS buf fuel (off + 188) with
        | .ok cs => .ok (c :: cs)
        | .error e => .error e
      else .error .generic
    else .ok []

/-- `VideoFormat2.unpack` -/
def unpack (s : State) (buf : Bytes) : State × R Unit :=
  match structUnpackFrom VID_unpack_fmt0 buf 0 with
  | .ok [csw] =>
    let s1 := { s with channel_specific_word := csw }
    if (csw / 2 ^ IPH_OFFSET) % 2 = 1 then (s1, .error .generic) else
    let s2 := { s1 with datastream := (csw / 2 ^ TP_OFFSET) % 2 }
    match splitTS (buf.drop 4) ((buf.drop 4).length + 1) 0 with
    | .ok cs => ({ s2 with blocks := cs }, .ok ())
    | .error e => ({ s2 with blocks := [] }, .error e)
  | .ok _ => (s, .error .struct)
  | .error e => (s, .error e)

/-- `VideoFormat2.pack` -/
def pack (s : State) : R Bytes :=
  match structPack VID_pack_fmt0 [s.channel_specific_word] with
  | .error e => .error e
  | .ok h =>
    match packList chunkPack s.blocks with
    | .error e => .error e
    | .ok body => .ok (h ++ body)

def blocksEq : List Bytes → List Bytes → R Bool
  | [], [] => .ok true
  | a :: as, b :: bs =>
    if ctrl a = 2 ∨ ctrl a = 3 ∨ ctrl b = 2 ∨ ctrl b = 3 then .error .notImplemented else
    if a.take 4 == b.take 4 && chunkPayload a == chunkPayload b then blocksEq as bs else .ok false
  | _, _ => .ok false

/-- `VideoFormat2.__eq__`: channel-specific word and the transport stream -/
def eq (a b : State) : R Bool :=
  if a.channel_specific_word != b.channel_specific_word then .ok false else
  if a.blocks.length != b.blocks.length then .ok false else blocksEq a.blocks b.blocks

end Acra.Model.Ch11Pay.Video
