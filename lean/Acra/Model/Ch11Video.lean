/-
  Model of AcraNetwork/IRIG106/Chapter11/Video.py: `VideoFormat2`.

  The nested `AcraNetwork.MPEGTS.MPEGTS` object IS the MPEG family's model (`Acra.Model.MPEGTS.TS`): `unpack`
  decodes into a new `MPEGTS()` with `MPEGTS.unpack` (188-byte strides, each chunk through `MPEGPacket.unpack`,
  adaptation fields and extensions included), `pack` is `MPEGTS.pack` (which mutates the adaptation-field objects of
  the blocks, so `pack` returns the state), `__eq__` is `MPEGTS.__eq__`.

  (Until the C04 extension this file carried a private chunk-level approximation of the transport stream and answered
  `NotImplementedError` for every TS packet with an adaptation field.)
-/
import Acra.Py.Struct
import Acra.Model.MPEGTS
import Acra.Gen.Ch11Video
namespace Acra.Model.Ch11Pay.Video
open Acra.Py Acra.Gen.Ch11Video Acra.Model.MPEGTS

structure State where
  channel_specific_word : Nat
  datastream : Nat
  mpegts : TS                    -- the nested `MPEGTS` object
  deriving Repr, DecidableEq

def fresh : State := { channel_specific_word := 0, datastream := DATASTREAM_DEFAULT, mpegts := TS.fresh }

/-- `VideoFormat2.unpack` -/
def unpack (s : State) (buf : Bytes) : State × R Unit :=
  match structUnpackFrom VID_unpack_fmt0 buf 0 with
  | .ok [csw] =>
    let s1 := { s with channel_specific_word := csw }
    if (csw / 2 ^ IPH_OFFSET) % 2 = 1 then (s1, .error .generic) else
    let s2 := { s1 with datastream := (csw / 2 ^ TP_OFFSET) % 2 }
    -- self.mpegts = MPEGTS(); self.mpegts.unpack(buffer[4:])
    match TS.unpack TS.fresh (buf.drop 4) with
    | (ts, .ok _) => ({ s2 with mpegts := ts }, .ok ())
    | (ts, .error e) => ({ s2 with mpegts := ts }, .error e)
  | .ok _ => (s, .error .struct)
  | .error e => (s, .error e)

/-- `VideoFormat2.pack`: `struct.pack("<I", csw) + self.mpegts.pack()` (left operand first) -/
def pack (s : State) : State × R Bytes :=
  match structPack VID_pack_fmt0 [s.channel_specific_word] with
  | .error e => (s, .error e)
  | .ok h =>
    match TS.pack s.mpegts with
    | (ts, .ok body) => ({ s with mpegts := ts }, .ok (h ++ body))
    | (ts, .error e) => ({ s with mpegts := ts }, .error e)

/-- `VideoFormat2.__eq__` on two VideoFormat2 operands: channel-specific word and the transport stream -/
def eq (a b : State) : Bool :=
  if a.channel_specific_word != b.channel_specific_word then false else TS.eq a.mpegts b.mpegts

end Acra.Model.Ch11Pay.Video
