/-
  Model of AcraNetwork/ParserAligned.py: ParserAlignedBlock and ParserAlignedPacket
  (the ARINC429 class of that file is out of scope: "not working yet").
-/
import Acra.Py.Struct
import Acra.Py.Records
import Acra.Gen.ParserAligned
namespace Acra.Model.ParserAligned
open Acra.Py Acra.Gen.ParserAligned

structure Block where
  error : Bool
  errorcode : Nat
  quadbytes : Nat
  messagecount : Nat
  busid : Nat
  elapsedtime : Nat
  payload : Bytes
  deriving Repr, DecidableEq

def Block.fresh : Block :=
  { error := false, errorcode := 0, quadbytes := PAB_DEFAULT_QUADBYTES, messagecount := 0, busid := PAB_DEFAULT_BUSID,
    elapsedtime := PAB_DEFAULT_ELAPSEDTIME, payload := [] }

/-- `ParserAlignedBlock.unpack`: returns the length of the block -/
def Block.unpack (s : Block) (buf : Bytes) : Block × R Nat :=
  match structUnpackFrom PAB_FORMAT buf 0 with
  | .ok [eaq, mc, bi, et] =>
    let s1 := { s with messagecount := mc, busid := bi, elapsedtime := et, error := decide (eaq >>> 15 = 1) }
    let s2 := { s1 with errorcode := (eaq >>> 9) &&& 0x3F, quadbytes := eaq &&& 0x1FF }
    if s2.quadbytes < 2 then (s2, .error .value) else
    let payload_length_in_bytes := (s2.quadbytes - 2) * 4
    if buf.length < PAB_HEADERLEN + payload_length_in_bytes then (s2, .error .value) else
    ({ s2 with payload := slice buf PAB_HEADERLEN (s2.quadbytes * 4) }, .ok (s2.quadbytes * 4))
  | .ok _ => (s, .error .struct)
  | .error e => (s, .error e)

/-- `ParserAlignedBlock.pack` -/
def Block.pack (s : Block) : Block × R Bytes :=
  if s.payload.length % 4 ≠ 0 then (s, .error .generic) else
  let s' := { s with quadbytes := 2 + s.payload.length / 4 }
  let error_and_quad := ((if s'.error then 1 else 0) <<< 15) + ((s'.errorcode &&& 0x3F) <<< 9) + s'.quadbytes
  match structPack PAB_FORMAT [error_and_quad, s'.messagecount, s'.busid, s'.elapsedtime] with
  | .ok h => (s', .ok (h ++ s'.payload))
  | .error e => (s', .error e)

def Block.eq (a b : Block) : Bool :=
  a.quadbytes == b.quadbytes && a.error == b.error && a.errorcode == b.errorcode && a.busid == b.busid &&
  a.messagecount == b.messagecount && a.elapsedtime == b.elapsedtime && a.payload == b.payload

structure Packet where
  parserblocks : List Block
  numberofblocks : Nat          -- set to 0 by the constructor, to the block count by a successful unpack
  deriving Repr, DecidableEq

def Packet.fresh : Packet := { parserblocks := [], numberofblocks := 0 }

/-- one iteration of `while bufferparsed < fullbufferlen` -/
def decBlock (rem : Bytes) : R (Block × Nat) :=
  match Block.unpack Block.fresh rem with
  | (b, .ok n) => .ok (b, n)
  | (_, .error e) => .error e

def moreLt (off len : Nat) : Bool := decide (off < len)

def Packet.unpack (s : Packet) (buf : Bytes) : Packet × R Unit :=
  match decOff decBlock moreLt buf (buf.length + 1) 0 with
  | .ok bs => ({ parserblocks := bs, numberofblocks := bs.length }, .ok ())
  | .error e => ({ s with parserblocks := [] }, .error e)

def packBlocks : List Block → List Block × R Bytes
  | [] => ([], .ok [])
  | b :: bs =>
    match b.pack with
    | (b', .error e) => (b' :: bs, .error e)
    | (b', .ok x) =>
      match packBlocks bs with
      | (bs', .ok r) => (b' :: bs', .ok (x ++ r))
      | (bs', .error e) => (b' :: bs', .error e)

def Packet.pack (s : Packet) : Packet × R Bytes :=
  match packBlocks s.parserblocks with
  | (bs, r) => ({ s with parserblocks := bs }, r)

/-- `len(other) != len(self)`, then `other.parserblocks[i] != self.parserblocks[i]` for every i -/
def blocksEq : List Block → List Block → Bool
  | [], [] => true
  | l :: ls, r :: rs => Block.eq l r && blocksEq ls rs
  | _, _ => false

def Packet.eq (a b : Packet) : Bool := blocksEq b.parserblocks a.parserblocks

end Acra.Model.ParserAligned
