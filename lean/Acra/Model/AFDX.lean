/-
  Model of the class `AFDX` of AcraNetwork/SimpleEthernet.py (lines 524–597), statement by statement.
  Constants and format strings come from Acra.Gen.AFDX (regenerated on every run).

  What the code really does (all of it compared with the real class by the correspondence check):

  * `AFDX.__init__` starts with `raise Exception("No working")`: NO object can be made through the constructor
    (`init` below is the constant `.error .generic`; the assignments after the `raise` are unreachable).
  * The methods are nevertheless ordinary functions of an instance.  The only instance that can exist is one
    made behind the constructor's back (`AFDX.__new__(AFDX)`), which has NO attributes at all; attributes come
    into being by assignment.  The state is therefore a record of *optional* attributes: `none` = the attribute
    does not exist (reading it raises AttributeError), `some v` = it exists with the value `v`.
    Attribute values `None`, negative integers and non-bytes payloads are outside the model (the driver codec
    refuses to set them).
  * `unpack` never returns normally: its last statement is `struct.unpack("B", buf[-1])`, and `buf[-1]` of a
    `bytes` object is an `int` (TypeError).  Shorter buffers fail earlier with `struct.error`.
  * `pack` works on an object all of whose seven attributes were assigned (payload ≥ 42 bytes, values in range).
-/
import Acra.Py.Struct
import Acra.Py.Operand
import Acra.Gen.AFDX
import Acra.Gen.EqGuard
import Acra.Model.Net
namespace Acra.Model.AFDX
open Acra.Py Acra.Gen.AFDX

structure AFDX where
  type : Option Nat
  networkID : Option Nat
  equipmentID : Option Nat
  interfaceID : Option Nat
  vlink : Option Nat
  payload : Option Bytes
  sequencenum : Option Nat
  deriving Repr, DecidableEq

/-- `AFDX.__new__(AFDX)`: an instance without any attribute (the only instance obtainable, see the header) -/
def AFDX.bare : AFDX :=
  { type := none, networkID := none, equipmentID := none, interfaceID := none, vlink := none, payload := none,
    sequencenum := none }

/-- `AFDX(buf)` / `AFDX.__init__(self, buf)`: the first statement is `raise Exception("No working")`; nothing is
    assigned, whatever `buf` is -/
def AFDX.init (s : AFDX) (_buf : Option Bytes) : AFDX × R Unit := (s, .error .generic)

/-- the constructor call `AFDX(buf)`: no object results -/
def AFDX.new (buf : Option Bytes) : R AFDX :=
  match (AFDX.init AFDX.bare buf).2 with
  | .ok () => .ok (AFDX.init AFDX.bare buf).1
  | .error e => .error e

/-- `set_dstmac(mac)`: `struct.unpack_from(">IH", mac)`; the constant field is not checked (commented out) -/
def AFDX.set_dstmac (s : AFDX) (mac : Bytes) : AFDX × R Unit :=
  match structUnpackFrom AFDX_set_dstmac_fmt0 mac 0 with
  | .ok [_dstconstantf, vlink] => ({ s with vlink := some vlink }, .ok ())
  | .ok _ => (s, .error .struct)
  | .error e => (s, .error e)

/-- `unpacksrcmac(mac)`: computes `mac >> 24` into a local and returns; everything else is commented out -/
def AFDX.unpacksrcmac (s : AFDX) (_mac : Nat) : AFDX × R Unit := (s, .ok ())

/-- `AFDX.unpack(buf)` for a `bytes` buffer -/
def AFDX.unpack (s : AFDX) (buf : Bytes) : AFDX × R Unit :=
  -- self.set_dstmac(buf[:6])
  match AFDX.set_dstmac s (buf.take 6) with
  | (s, .error e) => (s, .error e)
  | (s, .ok ()) =>
  -- self.unpacksrcmac(unpack48(buf[6:12]))
  match Net.unpack48 (slice buf 6 12) with
  | .error e => (s, .error e)
  | .ok mac =>
  match AFDX.unpacksrcmac s mac with
  | (s, .error e) => (s, .error e)
  | (s, .ok ()) =>
  -- (self.type,) = struct.unpack_from(">H", buf, 12)
  match structUnpackFrom AFDX_unpack_fmt0 buf 12 with
  | .error e => (s, .error e)
  | .ok [ty] =>
    let s := { s with type := some ty }
    -- self.payload = buf[AFDX.HEADERLEN : -1]
    let s := { s with payload := some (slice buf AFDX_HEADERLEN (buf.length - 1)) }
    -- self.sequencenum = struct.unpack("B", buf[-1]): `buf[-1]` is an int (the buffer has ≥ 14 bytes here, so the
    -- index exists), and struct.unpack wants a bytes-like object
    (s, .error .type)
  | .ok _ => (s, .error .struct)

/-- `AFDX.pack()` -/
def AFDX.pack (s : AFDX) : AFDX × R Bytes :=
  -- len(self.payload)
  match s.payload with
  | none => (s, .error .attribute)
  | some payload =>
  if payload.length < AFDX_MIN_PAYLOAD_LEN then (s, .error .value) else
  -- the arguments of struct.pack(">IHHBBBBH", …) are evaluated first (AttributeError), then packed (struct.error)
  match s.vlink, s.networkID, s.equipmentID, s.interfaceID, s.type with
  | some vlink, some net, some equip, some iface, some ty =>
    match structPack AFDX_pack_fmt0
        [AFDX_DSTMAC_CONST, vlink, AFDX_SRCMAC_CONST >>> 8, 0, net, equip, iface <<< 5, ty] with
    | .error e => (s, .error e)
    | .ok hdr =>
      -- afdx_header + self.payload + struct.pack(">B", self.sequencenum)
      match s.sequencenum with
      | none => (s, .error .attribute)
      | some sq =>
        match structPack AFDX_pack_fmt1 [sq] with
        | .error e => (s, .error e)
        | .ok tail => (s, .ok (hdr ++ payload ++ tail))
  | _, _, _, _, _ => (s, .error .attribute)

/-- the value of an attribute (an `int` or a `bytes` object) -/
inductive AVal where
  | nat (n : Nat)
  | bytes (b : Bytes)
  deriving DecidableEq, Repr

/-- an attribute that does not exist: AttributeError -/
def AVal.lift : Option AVal → R AVal
  | some v => .ok v
  | none => .error .attribute

/-- `getattr(self, name)`: AttributeError when the attribute does not exist -/
def AFDX.getattr (s : AFDX) (name : String) : R AVal :=
  match name with
  | "type" => AVal.lift (s.type.map .nat)
  | "networkID" => AVal.lift (s.networkID.map .nat)
  | "equipmentID" => AVal.lift (s.equipmentID.map .nat)
  | "interfaceID" => AVal.lift (s.interfaceID.map .nat)
  | "vlink" => AVal.lift (s.vlink.map .nat)
  | "payload" => AVal.lift (s.payload.map .bytes)
  | "sequencenum" => AVal.lift (s.sequencenum.map .nat)
  | _ => .error .attribute

/-- `for attr in [...]: if getattr(self, attr) != getattr(other, attr): return False` … `return True` -/
def AFDX.eqLoop (a b : AFDX) : List String → R Bool
  | [] => .ok true
  | attr :: rest =>
    match a.getattr attr with
    | .error e => .error e
    | .ok x =>
      match b.getattr attr with
      | .error e => .error e
      | .ok y => if x ≠ y then .ok false else AFDX.eqLoop a b rest

/-- `AFDX.__eq__(self, other)` for an AFDX operand: the attribute list is the one found in the source -/
def AFDX.eq (a b : AFDX) : R Bool := AFDX.eqLoop a b AFDX_EQ_ATTRS

/-- `self == other` for any operand: `if not isinstance(other, AFDX): return False` comes first
    (`Gen.EqGuard.guarded_AFDX`: read from the source on every run) -/
def AFDX.eqOp (a : AFDX) : Operand AFDX → R Bool :=
  Operand.opening Acra.Gen.EqGuard.guarded_AFDX AFDX.eq a

end Acra.Model.AFDX
