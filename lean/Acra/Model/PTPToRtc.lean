/-
  Model of `PTPTime.to_rtc` (AcraNetwork/IRIG106/Chapter11/__init__.py:70-76), the conversion of a PTP time stamp to
  a 10 MHz count relative to the START OF THE YEAR (not the pink-sheet conversion `to_pinksheet_rtc`, which is
  `Model.Ch11.pinksheet`):

      ptp_as_date   = datetime.fromtimestamp(self.seconds, tz=timezone.utc)
      start_of_year = datetime(ptp_as_date.year, 1, 1, 0, 0, 0).replace(tzinfo=timezone.utc)
      seconds_since_start_year = int((ptp_as_date - start_of_year).total_seconds())
      rtc_time = int(seconds_since_start_year * 1e7 + self.nanoseconds / 100)

  * `fromtimestamp` / the subtraction of two aware datetimes: the proleptic-Gregorian day numbers of
    `Model.Ch11Pay.TimeFmt` (`fromTimestamp`, `daysFromCivil`); a year above 9999 is a ValueError (seconds from
    253 402 300 800; CPython turns to OSError / OverflowError from about 2^55 on — outside the model, the driver
    function is only used below 2^40).
  * `timedelta.total_seconds()` is `(days·86400 + seconds)·10^6 + microseconds) / 10^6`: a true division of two
    ints, correctly rounded; then `int()`.
  * `int * float`, `int / int`, `float + float`, `int(float)`: the int operand is converted (correctly rounded), every
    operation is rounded by `fl`; `1e7` is the double 10^7 exactly.  The executable instance uses the exact
    binary64 model `Acra.Py.Float.rne`.
  Negative `seconds` / `nanoseconds` are outside the model.
-/
import Acra.Py.Float
import Acra.Model.Ch11TimeFmt
namespace Acra.Model.PTPToRtc
open Acra.Py Acra.Model.Ch11Pay.TimeFmt

/-- `(ptp_as_date - start_of_year)` in microseconds (what the timedelta holds: days and seconds, no microseconds) -/
def sinceStartOfYearUs (y m d h mi s : Nat) : Nat :=
  ((daysFromCivil y m d - daysFromCivil y 1 1) * 86400 + (h * 3600 + mi * 60 + s)) * 1000000

/-- `int(td.total_seconds())` -/
def totalSecondsInt (fl : Rat → Rat) (us : Nat) : Nat := Float.floorNat (fl ((us : Rat) / 1000000))

/-- `int(seconds_since_start_year * 1e7 + nanoseconds / 100)` -/
def ticks (fl : Rat → Rat) (secs ns : Nat) : Nat :=
  Float.floorNat (fl (fl (fl (secs : Rat) * 10000000) + fl ((ns : Rat) / 100)))

/-- the part after `fromtimestamp`: the date's distance from 1 January of its year, then the ticks -/
def toRtcOfDate (fl : Rat → Rat) (ns : Nat) (date : Nat × Nat × Nat × Nat × Nat × Nat) : Nat :=
  ticks fl (totalSecondsInt fl
    (sinceStartOfYearUs date.1 date.2.1 date.2.2.1 date.2.2.2.1 date.2.2.2.2.1 date.2.2.2.2.2)) ns

/-- `PTPTime(seconds, nanoseconds).to_rtc()` with every float operation rounded by `fl`: the ValueError of
    `fromtimestamp` propagates, otherwise the ticks of the date -/
def toRtcWith (fl : Rat → Rat) (seconds ns : Nat) : R Nat :=
  (fromTimestamp (seconds : Int)).map (toRtcOfDate fl ns)

def toRtc (seconds ns : Nat) : R Nat := toRtcWith Float.rne seconds ns

/-- what the conversion is meant to compute: seconds since the start of the year in 100 ns units, plus the
    nanoseconds in 100 ns units rounded down (no modulus: the value passes 2^48 on day 326 of the year) -/
def ideal (secsSinceStartOfYear ns : Nat) : Nat := secsSinceStartOfYear * 10000000 + ns / 100

end Acra.Model.PTPToRtc
