/-
  Model of AcraNetwork/MPEGTS.py: MPEGAdaptionExtension (`Ext`), MPEGAdaption (`AF`),
  MPEGPacket (`Pkt`, incl. the `nostuff` argument of pack) and MPEGTS (`TS`).
  Hand-written, statement by statement; struct formats and the named constants come from
  Acra.Gen.MPEGTS (regenerated from the source on every run).

  Notation: Python's `(x >> k) & (2^n - 1)` is written `x / 2^k % 2^n`, `a << k` as `a * 2^k`
  (identical on the naturals).  Flags are Python `bool`s (`Bool` here); `int(flag) << k` is
  `flag.toNat * 2^k`.

  Exceptions swallowed by the code (`except Exception: logger.error(…)`) are swallowed here: the
  nested object keeps the state the failed call left behind, which therefore IS specified by
  the `unpack` functions below (first component of the result) even when they fail.
-/
import Acra.Py.Struct
import Acra.Py.Records
import Acra.Gen.MPEGTS
namespace Acra.Model.MPEGTS
open Acra.Py Acra.Gen.MPEGTS

/-! ### MPEGAdaptionExtension -/

structure Ext where
  ltw_flag : Bool
  piecewise_rate_flag : Bool
  seamless_splice_flag : Bool
  ltw : Bytes
  piecewise : Bytes
  seamless_splice : Bytes
  deriving Repr, DecidableEq

def Ext.fresh : Ext :=
  { ltw_flag := false, piecewise_rate_flag := false, seamless_splice_flag := false,
    ltw := [], piecewise := [], seamless_splice := [] }

/-- `MPEGAdaptionExtension.pack`: each part is absent (0 bytes) or has its exact size, else a bare
    `Exception`; the flags are derived from the lengths. -/
def Ext.pack (s : Ext) : Ext × R Bytes :=
  if s.ltw.length ≠ 2 ∧ s.ltw.length ≠ 0 then (s, .error .generic) else
  let s1 := { s with ltw_flag := s.ltw.length == 2 }
  if s.piecewise.length ≠ 3 ∧ s.piecewise.length ≠ 0 then (s1, .error .generic) else
  let s2 := { s1 with piecewise_rate_flag := s.piecewise.length == 3 }
  if s.seamless_splice.length ≠ 5 ∧ s.seamless_splice.length ≠ 0 then (s2, .error .generic) else
  let s3 := { s2 with seamless_splice_flag := s.seamless_splice.length == 5 }
  let len := 2 + s.ltw.length + s.piecewise.length + s.seamless_splice.length
  let flags := 0x1F + s3.ltw_flag.toNat * 128 + s3.piecewise_rate_flag.toNat * 64 +
    s3.seamless_splice_flag.toNat * 32
  match structPack Ext_pack_fmt0 [len, flags] with
  | .ok h => (s3, .ok (h ++ s.ltw ++ s.piecewise ++ s.seamless_splice))
  | .error e => (s3, .error e)

/-- `MPEGAdaptionExtension.unpack`: returns the offset of the data used -/
def Ext.unpack (t : Ext) (buffer : Bytes) : Ext × R Nat :=
  match structUnpackFrom Ext_unpack_fmt0 buffer 0 with
  | .error e => (t, .error e)
  | .ok [len, flags] =>
    if buffer.length < len then (t, .error .generic) else
    let payload := buffer.take len
    let f1 := flags / 128 % 2 == 1
    let f2 := flags / 64 % 2 == 1
    let f3 := flags / 32 % 2 == 1
    let o1 := if f1 then 4 else 2
    let o2 := if f2 then o1 + 3 else o1
    let o3 := if f3 then o2 + 5 else o2
    ({ ltw_flag := f1, piecewise_rate_flag := f2, seamless_splice_flag := f3,
       ltw := if f1 then slice payload 2 4 else [],
       piecewise := if f2 then slice payload o1 (o1 + 3) else [],
       seamless_splice := if f3 then slice payload o2 (o2 + 5) else [] }, .ok o3)
  | .ok _ => (t, .error .struct)

/-- `MPEGAdaptionExtension.__eq__` (every attribute of `__dict__`) -/
def Ext.eq (a b : Ext) : Bool := a == b

/-! ### MPEGAdaption -/

structure AF where
  length : Nat
  discontinutiy : Bool
  random_access : Bool
  es_priority : Bool
  pcr_flag : Bool
  opcr_flag : Bool
  splicing_flag : Bool
  transpart_flag : Bool
  extension_flag : Bool
  pcr : Bytes
  opcr : Bytes
  splice_countdown : Nat
  private_data : Bytes
  adaption_extension : Option Ext
  deriving Repr, DecidableEq

def AF.fresh : AF :=
  { length := 0, discontinutiy := false, random_access := false, es_priority := false,
    pcr_flag := false, opcr_flag := false, splicing_flag := false, transpart_flag := false,
    extension_flag := false, pcr := [], opcr := [], splice_countdown := 0, private_data := [],
    adaption_extension := none }

/-- `MPEGAdaption.unpack`.  On `struct.error` the object keeps what was assigned before the
    failing statement (observable through `MPEGPacket.unpack`, which swallows the exception). -/
def AF.unpack (t : AF) (buffer : Bytes) : AF × R Unit :=
  match structUnpackFrom AF_unpack_fmt0 buffer 0 with
  | .error e => (t, .error e)
  | .ok [len, flags] =>
    let pcrF := flags / 16 % 2 == 1
    let opcrF := flags / 8 % 2 == 1
    let splF := flags / 4 % 2 == 1
    let tpF := flags / 2 % 2 == 1
    let extF := flags % 2 == 1
    let o1 := if pcrF then 8 else 2
    let o2 := if opcrF then o1 + 6 else o1
    let s0 : AF :=
      { length := len, discontinutiy := flags / 128 % 2 == 1, random_access := flags / 64 % 2 == 1,
        es_priority := flags / 32 % 2 == 1, pcr_flag := pcrF, opcr_flag := opcrF, splicing_flag := splF,
        transpart_flag := tpF, extension_flag := extF,
        pcr := if pcrF then slice buffer 2 8 else [],
        opcr := if opcrF then slice buffer o1 (o1 + 6) else [],
        splice_countdown := 0, private_data := [], adaption_extension := none }
    -- splice countdown
    match (if splF then structUnpackFrom AF_unpack_fmt1 buffer o2 else .ok [0]) with
    | .error e => (s0, .error e)
    | .ok [sc] =>
      let s1 := { s0 with splice_countdown := sc }
      let o3 := if splF then o2 + 1 else o2
      -- transport private data
      match (if tpF then structUnpackFrom AF_unpack_fmt2 buffer o3 else .ok [0]) with
      | .error e => (s1, .error e)
      | .ok [tl] =>
        -- (private_data was reset to bytes() above, so "assign when the flag is set" is this conditional value)
        let s2 := { s1 with private_data := if tpF then slice buffer (o3 + 1) (o3 + 1 + tl) else [] }
        let o4 := if tpF then o3 + 1 + tl else o3
        -- extension: a failure inside is logged and swallowed, the fresh/partial extension object stays
        if extF then
          ({ s2 with adaption_extension := some (Ext.unpack Ext.fresh (buffer.drop o4)).1 }, .ok ())
        else (s2, .ok ())
      | .ok _ => (s1, .error .struct)
    | .ok _ => (s0, .error .struct)
  | .ok _ => (t, .error .struct)

/-- `MPEGAdaption.pack`.  Flags are only ever switched ON here (a flag left set with its part
    absent is emitted as set): `if len(x) > 0: self.x_flag = True` is written
    `x_flag := x_flag || (0 < len x)`.  `length` is raised to the data length when too small,
    otherwise the difference is stuffed with 0xFF (`length - dataLen` is the truncated difference,
    0 in the other branch). -/
def AF.pack (s : AF) : AF × R Bytes :=
  if 0 < s.pcr.length ∧ s.pcr.length ≠ 6 then (s, .error .generic) else
  let s := { s with pcr_flag := s.pcr_flag || decide (0 < s.pcr.length),
                    opcr_flag := s.opcr_flag || decide (0 < s.opcr.length),
                    splicing_flag := s.splicing_flag || decide (0 < s.splice_countdown) }
  match (if 0 < s.splice_countdown then structPack AF_pack_fmt0 [s.splice_countdown] else .ok []) with
  | .error e => (s, .error e)
  | .ok spl =>
    match (if 0 < s.private_data.length then structPack AF_pack_fmt1 [s.private_data.length] else .ok []) with
    | .error e => (s, .error e)
    | .ok tl =>
      let s := { s with transpart_flag := s.transpart_flag || decide (0 < s.private_data.length) }
      let sx : AF × R Bytes :=
        match s.adaption_extension with
        | none => (s, .ok [])
        | some x => ({ s with extension_flag := true, adaption_extension := some (Ext.pack x).1 }, (Ext.pack x).2)
      match sx.2 with
      | .error e => (sx.1, .error e)
      | .ok eb =>
        let s := sx.1
        let dataLen := s.pcr.length + s.opcr.length + tl.length + s.private_data.length + eb.length +
          spl.length + 1
        let s := { s with length := if s.length > dataLen then s.length else dataLen }
        let flags := s.discontinutiy.toNat * 128 + s.random_access.toNat * 64 + s.es_priority.toNat * 32 +
          s.pcr_flag.toNat * 16 + s.opcr_flag.toNat * 8 + s.splicing_flag.toNat * 4 +
          s.transpart_flag.toNat * 2 + s.extension_flag.toNat
        match structPack AF_pack_fmt2 [s.length, flags] with
        | .error e => (s, .error e)
        | .ok h => (s, .ok (h ++ s.pcr ++ s.opcr ++ spl ++ tl ++ s.private_data ++ eb ++
                            List.replicate (s.length - dataLen) 0xFF))

/-- `MPEGAdaption.__eq__` (every attribute of `__dict__`, the extension through its own `__eq__`) -/
def AF.eq (a b : AF) : Bool := a == b

/-! ### MPEGPacket -/

structure Pkt where
  sync : Nat
  pid : Nat
  tei : Bool
  pusi : Bool
  transport_priority : Nat
  tsc : Nat
  adaption_ctrl : Nat
  continuitycounter : Nat
  payload : Bytes
  adaption_field : Option AF
  deriving Repr, DecidableEq

def Pkt.fresh : Pkt :=
  { sync := MPEGPacket_DEFAULT_SYNC, pid := 0, tei := false, pusi := MPEGPacket_DEFAULT_PUSI,
    transport_priority := 0, tsc := 0, adaption_ctrl := MPEGPacket_DEFAULT_ADAPTION_CTRL,
    continuitycounter := 0, payload := [], adaption_field := none }

/-- `MPEGPacket.unpack` -/
def Pkt.unpack (t : Pkt) (buf : Bytes) : Pkt × R Unit :=
  match structUnpackFrom Pkt_unpack_fmt0 buf 0 with
  | .error e => (t, .error e)
  | .ok [sync, pidFull, counterFull] =>
    let t0 := { t with sync := sync }
    if sync ≠ 0x47 then (t0, .error .generic) else
    let t1 : Pkt :=
      { sync := sync, pid := pidFull % 8192, tei := pidFull / 32768 % 2 == 1, pusi := pidFull / 16384 % 2 == 1,
        transport_priority := pidFull / 8192 % 2, continuitycounter := counterFull % 16,
        adaption_ctrl := counterFull / 16 % 4, tsc := counterFull / 64 % 4,
        adaption_field := none, payload := [] }
    if t1.adaption_ctrl = ADAPTION_PAYLOAD_AND_ADAPTION then
      match structUnpackFrom Pkt_unpack_fmt1 (buf.drop 4) 0 with
      | .error e => (t1, .error e)
      | .ok [alen] =>
        if 0 < alen then
          ({ t1 with payload := buf.drop (4 + 1 + alen),
                     adaption_field := some (AF.unpack AF.fresh (slice buf 4 (alen + 1 + 4))).1 }, .ok ())
        else ({ t1 with payload := buf.drop (4 + 1) }, .ok ())
      | .ok _ => (t1, .error .struct)
    else if t1.adaption_ctrl = ADAPTION_ADAPTION_ONLY then
      ({ t1 with adaption_field := some (AF.unpack AF.fresh (buf.drop 4)).1 }, .ok ())
    else if t1.adaption_ctrl = ADAPTION_PAYLOAD_ONLY then
      ({ t1 with payload := buf.drop 4 }, .ok ())
    else (t1, .ok ())
  | .ok _ => (t, .error .struct)

/-- `MPEGPacket.pack(nostuff)`: no masking of the header fields, `b"\xff" * negative = b""`, so a
    packet whose parts exceed 188 bytes is emitted longer than 188 bytes. -/
def Pkt.pack (s : Pkt) (nostuff : Bool := false) : Pkt × R Bytes :=
  let pidFull := s.pid + s.transport_priority * 8192 + s.pusi.toNat * 16384 + s.tei.toNat * 32768
  let continuity := s.continuitycounter + s.adaption_ctrl * 16 + s.tsc * 64
  match structPack Pkt_pack_fmt0 [s.sync, pidFull, continuity] with
  | .error e => (s, .error e)
  | .ok hdr =>
    let sa : Pkt × R Bytes :=
      if s.adaption_ctrl = ADAPTION_ADAPTION_ONLY ∨ s.adaption_ctrl = ADAPTION_PAYLOAD_AND_ADAPTION then
        match s.adaption_field with
        | none => (s, structPack Pkt_pack_fmt1 [0])
        | some a => ({ s with adaption_field := some (AF.pack a).1 }, (AF.pack a).2)
      else (s, .ok [])
    match sa.2 with
    | .error e => (sa.1, .error e)
    | .ok af =>
      let unstuffed := hdr ++ af ++ s.payload
      let stuffing := if nostuff then [] else List.replicate (188 - unstuffed.length) (0xFF : UInt8)
      (sa.1, .ok (unstuffed ++ stuffing))

/-- `MPEGPacket.__eq__` on two MPEGPacket operands (`match_attr`) -/
def Pkt.eq (a b : Pkt) : Bool :=
  a.sync == b.sync && a.pid == b.pid && a.transport_priority == b.transport_priority && a.tei == b.tei &&
  a.pusi == b.pusi && a.continuitycounter == b.continuitycounter && a.tsc == b.tsc &&
  a.adaption_ctrl == b.adaption_ctrl && a.payload == b.payload && a.adaption_field == b.adaption_field

/-! ### MPEGTS -/

structure TS where
  blocks : List Pkt
  deriving Repr, DecidableEq

def TS.fresh : TS := { blocks := [] }

/-- one iteration of `while remainingbytes < len(buf)`: a new packet decodes the next 188 bytes
    (fewer at the end); any exception is re-raised as a bare `Exception` -/
def decBlock (rem : Bytes) : R (Pkt × Nat) :=
  match Pkt.unpack Pkt.fresh (rem.take 188) with
  | (p, .ok ()) => .ok (p, 188)
  | (_, .error _) => .error .generic

def moreBlocks (off len : Nat) : Bool := decide (off < len)

/-- `MPEGTS.unpack` (returns True) -/
def TS.unpack (_t : TS) (buf : Bytes) : TS × R Bool :=
  match decOff decBlock moreBlocks buf (buf.length + 1) 0 with
  | .ok bs => ({ blocks := bs }, .ok true)
  | .error e => ({ blocks := [] }, .error e)

/-- `MPEGTS.pack`: concatenation of `block.pack()`; packing mutates the blocks' adaptation fields -/
def packBlocks : List Pkt → List Pkt × R Bytes
  | [] => ([], .ok [])
  | p :: ps =>
    match Pkt.pack p with
    | (p', .error e) => (p' :: ps, .error e)
    | (p', .ok b) =>
      match packBlocks ps with
      | (ps', .ok r) => (p' :: ps', .ok (b ++ r))
      | (ps', .error e) => (p' :: ps', .error e)

def TS.pack (s : TS) : TS × R Bytes :=
  let r := packBlocks s.blocks
  ({ blocks := r.1 }, r.2)

/-- `MPEGTS.__eq__`: same number of blocks, pairwise equal -/
def TS.eq (a b : TS) : Bool :=
  a.blocks.length == b.blocks.length && (List.zipWith Pkt.eq a.blocks b.blocks).all id

end Acra.Model.MPEGTS
