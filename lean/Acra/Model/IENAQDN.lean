/-
  Model of AcraNetwork/IENA.py, continued: IENAQ (message parameters without delay), IENAD and
  IENAN (fixed-size parameters, decode only).  The base class is `Acra.Model.IENA.Base`.
-/
import Acra.Model.IENA
namespace Acra.Model.IENA
open Acra.Py Acra.Gen.IENA

/-! ### IENA-Q -/

structure QParam where
  paramid : Nat
  dataset : Bytes
  deriving Repr, DecidableEq

structure QState where
  base : Base
  parameters : List QParam
  deriving Repr, DecidableEq

def QState.fresh : QState := { base := Base.fresh, parameters := [] }

/-- one parameter as `IENAQ.pack` emits it -/
def encQ (p : QParam) : R Bytes :=
  match structPack IENAQ_FORMAT [p.paramid, p.dataset.length] with
  | .error e => .error e
  | .ok h =>
    if p.dataset.length % 2 == 1 then
      match structPack IENAQ_pack_fmt0 [0] with
      | .ok z => .ok (h ++ p.dataset ++ z)
      | .error e => .error e
    else .ok (h ++ p.dataset)

def encAllQ : List QParam → R Bytes
  | [] => .ok []
  | p :: ps =>
    match encQ p with
    | .error e => .error e
    | .ok b =>
      match encAllQ ps with
      | .ok r => .ok (b ++ r)
      | .error e => .error e

def QState.pack (s : QState) : QState × R Bytes :=
  match encAllQ s.parameters with
  | .error e => (s, .error e)           -- payload partly rebuilt; state unspecified after an error
  | .ok pl =>
    let (b', r) := Base.pack { s.base with payload := pl }
    ({ s with base := b' }, r)

/-- one iteration of the `while len(remaining_payload) > 0` loop of `IENAQ.unpack` -/
def decQ (rem : Bytes) : R (QParam × Nat) :=
  match structUnpack IENAQ_FORMAT (rem.take IENAQ_FORMAT_LEN) with
  | .ok [pid, n] =>
    if (rem.drop IENAQ_FORMAT_LEN).length < n then .error .generic else
    .ok ({ paramid := pid, dataset := slice rem IENAQ_FORMAT_LEN (IENAQ_FORMAT_LEN + n) },
         IENAQ_FORMAT_LEN + n + (if n % 2 == 1 then 1 else 0))
  | .ok _ => .error .struct
  | .error e => .error e

def QState.unpack (s : QState) (buf : Bytes) : QState × R Unit :=
  let (b', r) := Base.unpack s.base buf
  match r with
  | .error e => ({ s with base := b' }, .error e)
  | .ok () =>
    match decOff decQ moreRem b'.payload (b'.payload.length + 1) 0 with
    | .ok ps => ({ base := b', parameters := ps }, .ok ())
    | .error e => ({ base := b', parameters := [] }, .error e)

def QState.eq (a b : QState) : Bool := Base.eq a.base b.base && a.parameters == b.parameters

/-! ### IENA-D and IENA-N: `keystatus & 7` data words per parameter; no `pack` of their own -/

structure DParam where
  paramid : Nat
  delay : Nat
  dwords : List Nat
  deriving Repr, DecidableEq

structure DState where
  base : Base
  parameters : List DParam
  deriving Repr, DecidableEq

def DState.fresh : DState := { base := Base.fresh, parameters := [] }

/-- `IENAD` inherits `IENA.pack`: the payload bytes are emitted as they are, `parameters` is not used -/
def DState.pack (s : DState) : DState × R Bytes :=
  let (b', r) := Base.pack s.base
  ({ s with base := b' }, r)

/-- `struct.unpack_from(">{}H".format(dwc + 2), payload, off)` inside `try … except: raise IndexError` -/
def decD1 (dwc : Nat) (payload : Bytes) (off : Nat) : R DParam :=
  match structUnpackFrom (IENAD_unpack_fmt0 (dwc + 2)) payload off with
  | .ok (pid :: dl :: ws) => .ok { paramid := pid, delay := dl, dwords := ws }
  | .ok _ => .error .index
  | .error _ => .error .index

/-- the `for param in range(num_params)` loop -/
def decDAll (dwc : Nat) (payload : Bytes) : List Nat → R (List DParam)
  | [] => .ok []
  | i :: is =>
    match decD1 dwc payload (i * (dwc * 2 + 4)) with
    | .error e => .error e
    | .ok p =>
      match decDAll dwc payload is with
      | .ok ps => .ok (p :: ps)
      | .error e => .error e

def DState.unpack (s : DState) (buf : Bytes) : DState × R Unit :=
  let (b', r) := Base.unpack s.base buf
  match r with
  | .error e => ({ s with base := b' }, .error e)
  | .ok () =>
    let dwc := b'.keystatus &&& 0x7
    let lpb := dwc * 2 + 4
    let num := b'.payload.length / lpb
    if b'.payload.length - num * lpb ≠ 0 then ({ base := b', parameters := [] }, .error .value) else
    match decDAll dwc b'.payload (List.range num) with
    | .ok ps => ({ base := b', parameters := ps }, .ok ())
    | .error e => ({ base := b', parameters := [] }, .error e)

def DState.eq (a b : DState) : Bool := Base.eq a.base b.base && a.parameters == b.parameters

structure NParam where
  paramid : Nat
  dwords : List Nat
  deriving Repr, DecidableEq

structure NState where
  base : Base
  parameters : List NParam
  deriving Repr, DecidableEq

def NState.fresh : NState := { base := Base.fresh, parameters := [] }

def NState.pack (s : NState) : NState × R Bytes :=
  let (b', r) := Base.pack s.base
  ({ s with base := b' }, r)

def decN1 (dwc : Nat) (payload : Bytes) (off : Nat) : R NParam :=
  match structUnpackFrom (IENAN_unpack_fmt0 (dwc + 1)) payload off with
  | .ok (pid :: ws) => .ok { paramid := pid, dwords := ws }
  | .ok _ => .error .index
  | .error _ => .error .index

def decNAll (dwc : Nat) (payload : Bytes) : List Nat → R (List NParam)
  | [] => .ok []
  | i :: is =>
    match decN1 dwc payload (i * (dwc * 2 + 2)) with
    | .error e => .error e
    | .ok p =>
      match decNAll dwc payload is with
      | .ok ps => .ok (p :: ps)
      | .error e => .error e

def NState.unpack (s : NState) (buf : Bytes) : NState × R Unit :=
  let (b', r) := Base.unpack s.base buf
  match r with
  | .error e => ({ s with base := b' }, .error e)
  | .ok () =>
    let dwc := b'.keystatus &&& 0x7
    let lpb := dwc * 2 + 2
    let num := b'.payload.length / lpb
    if b'.payload.length - num * lpb ≠ 0 then ({ base := b', parameters := [] }, .error .value) else
    match decNAll dwc b'.payload (List.range num) with
    | .ok ps => ({ base := b', parameters := ps }, .ok ())
    | .error e => ({ base := b', parameters := [] }, .error e)

def NState.eq (a b : NState) : Bool := Base.eq a.base b.base && a.parameters == b.parameters

end Acra.Model.IENA
