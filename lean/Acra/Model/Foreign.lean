/-
  `a == x` for ANY right-hand operand, for every class of the library that defines `__eq__` (C14, third clause).

  Each `eqOp : σ → Operand σ → R Bool` is the class's comparison of two instances (`eq`, modelled with the class)
  behind the opening statement of its `__eq__` as found in the source today: `Gen.EqGuard.guarded_<Class>` is `true`
  when that statement is `if not isinstance(other, <Class>) [or …]: return False` (regenerated with `ast` on every run
  by harness/extract_tables/foreign.py), and then `Operand.opening` answers a foreign operand with `False`; were the
  guard missing, the first `getattr(other, …)` would raise AttributeError (`Operand.unguarded`).

  Instances of a library subclass or base class of the class are not foreign (they pass an `isinstance` guard
  somewhere in the family).  The classes that have such relatives (Gen.EqGuard.related) additionally define `eqSubclass` /
  `eqBaseclass` (the codec fields `eqSub` / `eqBase` of the driver) (see Py/Operand.lean for the order in which CPython asks the two operands):

    IENA  ⊃ IENAM, IENAQ, IENAD, IENAN     one inherited `__eq__`, which walks `self._req_attr` — the subclasses' list
                                           ends with "parameters", an attribute a plain IENA object does not have
    NPDSegment ⊃ ACQ/A429/PCMPacketizer/MIL1553 segments (inherit), RS232Segment (own `__eq__`)
    MPEGPacket ⊃ PES ⊃ STANAG4609, MPEGPacket ⊃ MPEGPacketPMT   every class has its own guarded `__eq__`
    Chapter11 ⊃ Chapter10 (the deprecated alias class, inherits everything)
-/
import Acra.Py.Operand
import Acra.Gen.EqGuard
import Acra.Model.iNetX
import Acra.Model.IENA
import Acra.Model.IENAQDN
import Acra.Model.iNET
import Acra.Model.NPD
import Acra.Model.ParserAligned
import Acra.Model.Chapter7
import Acra.Model.MPEGTS
import Acra.Model.PMT
import Acra.Model.PES
import Acra.Model.Net
import Acra.Model.Ch10UDP
import Acra.Model.Ch11
import Acra.Model.Ch11UART
import Acra.Model.Ch11MIL1553
import Acra.Model.Ch11ARINC
import Acra.Model.Ch11Misc
import Acra.Model.Ch11PCM
import Acra.Model.Ch11TimeFmt
import Acra.Model.Ch11Video

namespace Acra.Model.iNetX
open Acra.Py Acra.Gen.EqGuard
/-- `iNetX.__eq__` (iNetX.py:151): `if not isinstance(other, iNetX): return False`, then the comparison of two instances -/
def eqOp (a : State) : Operand State → R Bool :=
  Operand.opening guarded_iNetX (fun a b => .ok (eq a b)) a
end Acra.Model.iNetX

namespace Acra.Model.IENA
open Acra.Py Acra.Gen.EqGuard
/-- `IENA.__eq__` (IENA.py:198): `if not isinstance(other, IENA): return False`, then the comparison of two instances -/
def Base.eqOp (a : Base) : Operand Base → R Bool :=
  Operand.opening guarded_IENA (fun a b => .ok (Base.eq a b)) a
end Acra.Model.IENA

namespace Acra.Model.IENA
open Acra.Py Acra.Gen.EqGuard
/-- `IENA.__eq__` (IENA.py:198 (inherited by IENAM)): `if not isinstance(other, IENA): return False`, then the comparison of two instances -/
def MState.eqOp (a : MState) : Operand MState → R Bool :=
  Operand.opening guarded_IENA (fun a b => .ok (MState.eq a b)) a
end Acra.Model.IENA

namespace Acra.Model.IENA
open Acra.Py Acra.Gen.EqGuard
/-- `IENA.__eq__` (IENA.py:198 (inherited by IENAQ)): `if not isinstance(other, IENA): return False`, then the comparison of two instances -/
def QState.eqOp (a : QState) : Operand QState → R Bool :=
  Operand.opening guarded_IENA (fun a b => .ok (QState.eq a b)) a
end Acra.Model.IENA

namespace Acra.Model.IENA
open Acra.Py Acra.Gen.EqGuard
/-- `IENA.__eq__` (IENA.py:198 (inherited by IENAD)): `if not isinstance(other, IENA): return False`, then the comparison of two instances -/
def DState.eqOp (a : DState) : Operand DState → R Bool :=
  Operand.opening guarded_IENA (fun a b => .ok (DState.eq a b)) a
end Acra.Model.IENA

namespace Acra.Model.IENA
open Acra.Py Acra.Gen.EqGuard
/-- `IENA.__eq__` (IENA.py:198 (inherited by IENAN)): `if not isinstance(other, IENA): return False`, then the comparison of two instances -/
def NState.eqOp (a : NState) : Operand NState → R Bool :=
  Operand.opening guarded_IENA (fun a b => .ok (NState.eq a b)) a
end Acra.Model.IENA

namespace Acra.Model.iNET
open Acra.Py Acra.Gen.EqGuard
/-- `iNET.__eq__` (iNET.py:237): `if not isinstance(other, iNET): return False`, then the comparison of two instances -/
def eqOp (a : State) : Operand State → R Bool :=
  Operand.opening guarded_iNET (eq) a
end Acra.Model.iNET

namespace Acra.Model.NPD
open Acra.Py Acra.Gen.EqGuard
/-- `NPD.__eq__` (NPD.py:387): `if not isinstance(other, NPD): return False`, then the comparison of two instances -/
def eqOp (a : State) : Operand State → R Bool :=
  Operand.opening guarded_NPD (fun a b => .ok (eq a b)) a
end Acra.Model.NPD

namespace Acra.Model.ParserAligned
open Acra.Py Acra.Gen.EqGuard
/-- `ParserAlignedBlock.__eq__` (ParserAligned.py:96): `if not isinstance(other, ParserAlignedBlock): return False`, then the comparison of two instances -/
def Block.eqOp (a : Block) : Operand Block → R Bool :=
  Operand.opening guarded_ParserAlignedBlock (fun a b => .ok (Block.eq a b)) a
end Acra.Model.ParserAligned

namespace Acra.Model.ParserAligned
open Acra.Py Acra.Gen.EqGuard
/-- `ParserAlignedPacket.__eq__` (ParserAligned.py:191): `if not isinstance(other, ParserAlignedPacket): return False`, then the comparison of two instances -/
def Packet.eqOp (a : Packet) : Operand Packet → R Bool :=
  Operand.opening guarded_ParserAlignedPacket (fun a b => .ok (Packet.eq a b)) a
end Acra.Model.ParserAligned

namespace Acra.Model.Chapter7.PTDP
open Acra.Py Acra.Gen.EqGuard
/-- `PTDP.__eq__` (Chapter7.py:224): `if not isinstance(other, PTDP): return False`, then the comparison of two instances -/
def eqOp (a : State) : Operand State → R Bool :=
  Operand.opening guarded_PTDP (fun a b => .ok (eq a b)) a
end Acra.Model.Chapter7.PTDP

namespace Acra.Model.Chapter7.PTFR
open Acra.Py Acra.Gen.EqGuard
/-- `PTFR.__eq__` (Chapter7.py:479): `if not isinstance(other, PTFR): return False`, then the comparison of two instances -/
def eqOp (a : State) : Operand State → R Bool :=
  Operand.opening guarded_PTFR (fun a b => .ok (eq a b)) a
end Acra.Model.Chapter7.PTFR

namespace Acra.Model.MPEGTS
open Acra.Py Acra.Gen.EqGuard
/-- `MPEGAdaptionExtension.__eq__` (MPEGTS.py:44): `if not isinstance(other, MPEGAdaptionExtension): return False`, then the comparison of two instances -/
def Ext.eqOp (a : Ext) : Operand Ext → R Bool :=
  Operand.opening guarded_MPEGAdaptionExtension (fun a b => .ok (Ext.eq a b)) a
end Acra.Model.MPEGTS

namespace Acra.Model.MPEGTS
open Acra.Py Acra.Gen.EqGuard
/-- `MPEGAdaption.__eq__` (MPEGTS.py:140): `if not isinstance(other, MPEGAdaption): return False`, then the comparison of two instances -/
def AF.eqOp (a : AF) : Operand AF → R Bool :=
  Operand.opening guarded_MPEGAdaption (fun a b => .ok (AF.eq a b)) a
end Acra.Model.MPEGTS

namespace Acra.Model.MPEGTS
open Acra.Py Acra.Gen.EqGuard
/-- `MPEGPacket.__eq__` (MPEGTS.py:355): `if not isinstance(other, MPEGPacket): return False`, then the comparison of two instances -/
def Pkt.eqOp (a : Pkt) : Operand Pkt → R Bool :=
  Operand.opening guarded_MPEGPacket (fun a b => .ok (Pkt.eq a b)) a
end Acra.Model.MPEGTS

namespace Acra.Model.MPEGTS
open Acra.Py Acra.Gen.EqGuard
/-- `MPEGTS.__eq__` (MPEGTS.py:442): `if not isinstance(other, MPEGTS): return False`, then the comparison of two instances -/
def TS.eqOp (a : TS) : Operand TS → R Bool :=
  Operand.opening guarded_MPEGTS (fun a b => .ok (TS.eq a b)) a
end Acra.Model.MPEGTS

namespace Acra.Model.PMT
open Acra.Py Acra.Gen.EqGuard
/-- `DescriptorTag.__eq__` (MPEG/PMT.py:72): `if not isinstance(other, DescriptorTag): return False`, then the comparison of two instances -/
def Desc.eqOp (a : Desc) : Operand Desc → R Bool :=
  Operand.opening guarded_DescriptorTag (fun a b => .ok (a == b)) a
end Acra.Model.PMT

namespace Acra.Model.PMT
open Acra.Py Acra.Gen.EqGuard
/-- `PMTStream.__eq__` (MPEG/PMT.py:134): `if not isinstance(other, PMTStream): return False`, then the comparison of two instances -/
def Stream.eqOp (a : Stream) : Operand Stream → R Bool :=
  Operand.opening guarded_PMTStream (fun a b => .ok (a == b)) a
end Acra.Model.PMT

namespace Acra.Model.PMT
open Acra.Py Acra.Gen.EqGuard
/-- `MPEGPacketPMT.__eq__` (MPEG/PMT.py:294): `if not isinstance(other, MPEGPacketPMT): return False`, then the comparison of two instances -/
def PMT.eqOp (a : PMT) : Operand PMT → R Bool :=
  Operand.opening guarded_MPEGPacketPMT (fun a b => .ok (PMT.eq a b)) a
end Acra.Model.PMT

namespace Acra.Model.PES
open Acra.Py Acra.Gen.EqGuard
/-- `PES.__eq__` (MPEG/PES.py:106): `if not isinstance(other, PES): return False`, then the comparison of two instances -/
def PES.eqOp (a : PES) : Operand PES → R Bool :=
  Operand.opening guarded_PES (fun a b => .ok (PES.eq a b)) a
end Acra.Model.PES

namespace Acra.Model.PES
open Acra.Py Acra.Gen.EqGuard
/-- `STANAG4609.__eq__` (MPEG/PES.py:210): `if not isinstance(other, STANAG4609): return False`, then the comparison of two instances -/
def STANAG.eqOp (a : STANAG) : Operand STANAG → R Bool :=
  Operand.opening guarded_STANAG4609 (fun a b => .ok (STANAG.eq a b)) a
end Acra.Model.PES

namespace Acra.Model.Net
open Acra.Py Acra.Gen.EqGuard
/-- `Ethernet.__eq__` (SimpleEthernet.py:222): `if not isinstance(other, Ethernet): return False`, then the comparison of two instances -/
def Eth.eqOp (a : Eth) : Operand Eth → R Bool :=
  Operand.opening guarded_Ethernet (fun a b => .ok (Eth.eq a b)) a
end Acra.Model.Net

namespace Acra.Model.Net
open Acra.Py Acra.Gen.EqGuard
/-- `ARP.__eq__` (SimpleEthernet.py:766): `if not isinstance(other, ARP): return False`, then the comparison of two instances -/
def ARP.eqOp (a : ARP) : Operand ARP → R Bool :=
  Operand.opening guarded_ARP (fun a b => .ok (ARP.eq a b)) a
end Acra.Model.Net

namespace Acra.Model.Ch10UDP
open Acra.Py Acra.Gen.EqGuard
/-- `Chapter10UDP.__eq__` (IRIG106/Chapter10/Chapter10UDP.py:206): `if not isinstance(other, Chapter10UDP): return False`, then the comparison of two instances -/
def eqOp (a : State) : Operand State → R Bool :=
  Operand.opening guarded_Chapter10UDP (fun a b => .ok (eq a b)) a
end Acra.Model.Ch10UDP

namespace Acra.Model.Ch11
open Acra.Py Acra.Gen.EqGuard
/-- `PTPTime.__eq__` (IRIG106/Chapter11/__init__.py:90): `if not isinstance(other, PTPTime): return False`, then the comparison of two instances -/
def PTP.eqOp (a : PTP) : Operand PTP → R Bool :=
  Operand.opening guarded_PTPTime (fun a b => .ok (ptpEq (a.seconds, a.nanoseconds) (b.seconds, b.nanoseconds))) a
end Acra.Model.Ch11

namespace Acra.Model.Ch11
open Acra.Py Acra.Gen.EqGuard
/-- `RTCTime.__eq__` (IRIG106/Chapter11/__init__.py:151 (the state is the 48-bit count)): `if not isinstance(other, RTCTime): return False`, then the comparison of two instances -/
def RTC.eqOp (a : Nat) : Operand Nat → R Bool :=
  Operand.opening guarded_RTCTime (fun a b => .ok (a == b)) a
end Acra.Model.Ch11

namespace Acra.Model.Ch11
open Acra.Py Acra.Gen.EqGuard
/-- `Chapter11.__eq__` (IRIG106/Chapter11/__init__.py:413): `if not isinstance(other, Chapter11): return False`, then the comparison of two instances -/
def eqOp (a : State) : Operand State → R Bool :=
  Operand.opening guarded_Chapter11 (fun a b => .ok (eq a b)) a
end Acra.Model.Ch11

namespace Acra.Model.Ch11Pay.UART
open Acra.Py Acra.Gen.EqGuard
/-- `UARTDataWord.__eq__` (IRIG106/Chapter11/UART.py:120): `if not isinstance(other, UARTDataWord): return False`, then the comparison of two instances -/
def Word.eqOp (a : Word) : Operand Word → R Bool :=
  Operand.opening guarded_UARTDataWord (fun a b => .ok (Word.eq a b)) a
end Acra.Model.Ch11Pay.UART

namespace Acra.Model.Ch11Pay.UART
open Acra.Py Acra.Gen.EqGuard
/-- `UARTDataPacket.__eq__` (IRIG106/Chapter11/UART.py:218): `if not isinstance(other, UARTDataPacket): return False`, then the comparison of two instances -/
def Packet.eqOp (a : Packet) : Operand Packet → R Bool :=
  Operand.opening guarded_UARTDataPacket (fun a b => .ok (Packet.eq a b)) a
end Acra.Model.Ch11Pay.UART

namespace Acra.Model.Ch11Pay.MIL1553
open Acra.Py Acra.Gen.EqGuard
/-- `MILSTD1553Message.__eq__` (IRIG106/Chapter11/MILSTD1553.py:64): `if not isinstance(other, MILSTD1553Message): return False`, then the comparison of two instances -/
def Msg.eqOp (a : Msg) : Operand Msg → R Bool :=
  Operand.opening guarded_MILSTD1553Message (fun a b => .ok (Msg.eq a b)) a
end Acra.Model.Ch11Pay.MIL1553

namespace Acra.Model.Ch11Pay.MIL1553
open Acra.Py Acra.Gen.EqGuard
/-- `MILSTD1553DataPacket.__eq__` (IRIG106/Chapter11/MILSTD1553.py:172): `if not isinstance(other, MILSTD1553DataPacket): return False`, then the comparison of two instances -/
def Packet.eqOp (a : Packet) : Operand Packet → R Bool :=
  Operand.opening guarded_MILSTD1553DataPacket (fun a b => .ok (Packet.eq a b)) a
end Acra.Model.Ch11Pay.MIL1553

namespace Acra.Model.Ch11Pay.ARINC
open Acra.Py Acra.Gen.EqGuard
/-- `ARINC429DataWord.__eq__` (IRIG106/Chapter11/ARINC429.py:63): `if not isinstance(other, ARINC429DataWord): return False`, then the comparison of two instances -/
def Word.eqOp (a : Word) : Operand Word → R Bool :=
  Operand.opening guarded_ARINC429DataWord (fun a b => .ok (Word.eq a b)) a
end Acra.Model.Ch11Pay.ARINC

namespace Acra.Model.Ch11Pay.ARINC
open Acra.Py Acra.Gen.EqGuard
/-- `ARINC429DataPacket.__eq__` (IRIG106/Chapter11/ARINC429.py:175): `if not isinstance(other, ARINC429DataPacket): return False`, then the comparison of two instances -/
def Packet.eqOp (a : Packet) : Operand Packet → R Bool :=
  Operand.opening guarded_ARINC429DataPacket (fun a b => .ok (Packet.eq a b)) a
end Acra.Model.Ch11Pay.ARINC

namespace Acra.Model.Ch11Pay.Analog
open Acra.Py Acra.Gen.EqGuard
/-- `Analog.__eq__` (IRIG106/Chapter11/Analog.py:37): `if not isinstance(other, Analog): return False`, then the comparison of two instances -/
def eqOp (a : State) : Operand State → R Bool :=
  Operand.opening guarded_Analog (fun a b => .ok (eq a b)) a
end Acra.Model.Ch11Pay.Analog

namespace Acra.Model.Ch11Pay.PCM
open Acra.Py Acra.Gen.EqGuard
/-- `PCMMinorFrame.__eq__` (IRIG106/Chapter11/PCM.py:103): `if not isinstance(other, PCMMinorFrame): return False`, then the comparison of two instances -/
def Frame.eqOp (a : Frame) : Operand Frame → R Bool :=
  Operand.opening guarded_PCMMinorFrame (fun a b => .ok (Frame.eq a b)) a
end Acra.Model.Ch11Pay.PCM

namespace Acra.Model.Ch11Pay.PCM
open Acra.Py Acra.Gen.EqGuard
/-- `PCMDataPacket.__eq__` (IRIG106/Chapter11/PCM.py:270): `if not isinstance(other, PCMDataPacket): return False`, then the comparison of two instances -/
def Packet.eqOp (a : Packet) : Operand Packet → R Bool :=
  Operand.opening guarded_PCMDataPacket (fun a b => .ok (Packet.eq a b)) a
end Acra.Model.Ch11Pay.PCM

namespace Acra.Model.Ch11Pay.TimeFmt
open Acra.Py Acra.Gen.EqGuard
/-- `TimeDataFormat1.__eq__` (IRIG106/Chapter11/TimeDataFormat.py:147): `if not isinstance(other, TimeDataFormat1): return False`, then the comparison of two instances -/
def State1.eqOp (a : State1) : Operand State1 → R Bool :=
  Operand.opening guarded_TimeDataFormat1 (fun a b => .ok (State1.eq a b)) a
end Acra.Model.Ch11Pay.TimeFmt

namespace Acra.Model.Ch11Pay.TimeFmt
open Acra.Py Acra.Gen.EqGuard
/-- `TimeDataFormat2.__eq__` (IRIG106/Chapter11/TimeDataFormat.py:221): `if not isinstance(other, TimeDataFormat2): return False`, then the comparison of two instances -/
def State2.eqOp (a : State2) : Operand State2 → R Bool :=
  Operand.opening guarded_TimeDataFormat2 (fun a b => .ok (State2.eq a b)) a
end Acra.Model.Ch11Pay.TimeFmt

namespace Acra.Model.Ch11Pay.Video
open Acra.Py Acra.Gen.EqGuard
/-- `VideoFormat2.__eq__` (IRIG106/Chapter11/Video.py:51): `if not isinstance(other, VideoFormat2): return False`, then the comparison of two instances -/
def eqOp (a : State) : Operand State → R Bool :=
  Operand.opening guarded_VideoFormat2 (fun a b => .ok (eq a b)) a
end Acra.Model.Ch11Pay.Video

/-! ### classes with relatives -/

namespace Acra.Model.IENA
open Acra.Py Acra.Gen.EqGuard

/-- `a == x`: `a` a plain IENA object, `x` an instance of IENAM / IENAQ / IENAD / IENAN whose seven base attributes
    are `b`.  CPython asks the subclass operand first: `IENA.__eq__(x, a)` (inherited; `isinstance(a, IENA)` holds)
    walks `x._req_attr` — the seven base attributes, then "parameters": the first difference answers `False`; after
    seven equal attributes `getattr(a, "parameters")` raises AttributeError. -/
def Base.eqSubclass (a b : Base) : R Bool := if Base.eq b a then .error .attribute else .ok false

/-- `a == x`: `a` an IENAM / IENAQ / IENAD / IENAN object with base attributes `a`, `x` a plain IENA object with
    attributes `b`: `IENA.__eq__(a, x)` walks `a._req_attr` likewise -/
def Base.eqBaseOf (a b : Base) : R Bool := if Base.eq a b then .error .attribute else .ok false

def MState.eqBaseclass (a b : MState) : R Bool := Base.eqBaseOf a.base b.base
def QState.eqBaseclass (a b : QState) : R Bool := Base.eqBaseOf a.base b.base
def DState.eqBaseclass (a b : DState) : R Bool := Base.eqBaseOf a.base b.base
def NState.eqBaseclass (a b : NState) : R Bool := Base.eqBaseOf a.base b.base
end Acra.Model.IENA

namespace Acra.Model.NPD
open Acra.Py Acra.Gen.EqGuard

/-- a segment object of any of the six classes: `RS232Segment.__eq__` (NPD.py:215) for an RS-232 segment,
    `NPDSegment.__eq__` (NPD.py:87: `if not isinstance(other, NPDSegment) or type(other) is not type(self)`) for the
    others.  `.same b` ranges over the whole family (`b.kind` may differ: `Seg.eq` then answers `False`). -/
def Seg.eqOp (a : Seg) : Operand Seg → R Bool :=
  Operand.opening (if a.kind = .rs232 then guarded_RS232Segment else guarded_NPDSegment) (fun a b => .ok (Seg.eq a b)) a

/-- `a == x`: `a` a plain NPDSegment, `x` an instance of one of its five subclasses (any attributes).  The subclass
    operand is asked first: the inheriting four run `NPDSegment.__eq__(x, a)` — `type(a) is not type(x)`; an
    RS232Segment runs its own `__eq__`, whose guard `a` fails. -/
def Seg.eqSubclass (_a _b : Seg) : R Bool := Operand.rejects (guarded_NPDSegment && guarded_RS232Segment)

/-- `a == x`: `a` an instance of a subclass, `x` a plain NPDSegment: `type(x) is not type(a)`, resp. the RS-232 guard -/
def Seg.eqBaseclass (a _b : Seg) : R Bool :=
  Operand.rejects (if a.kind = .rs232 then guarded_RS232Segment else guarded_NPDSegment)
end Acra.Model.NPD

namespace Acra.Model.MPEGTS
open Acra.Py Acra.Gen.EqGuard
/-- `a == x`: `a` an MPEGPacket, `x` a PES / STANAG4609 / MPEGPacketPMT object: the subclass operand is asked first,
    and `a` is not an instance of it -/
def Pkt.eqSubclass (_a _b : Pkt) : R Bool := Operand.rejects (guarded_PES && guarded_STANAG4609 && guarded_MPEGPacketPMT)
end Acra.Model.MPEGTS

namespace Acra.Model.PMT
open Acra.Py Acra.Gen.EqGuard
/-- `a == x`: `a` an MPEGPacketPMT, `x` a plain MPEGPacket: not an instance of MPEGPacketPMT -/
def PMT.eqBaseclass (_a _b : PMT) : R Bool := Operand.rejects guarded_MPEGPacketPMT
end Acra.Model.PMT

namespace Acra.Model.PES
open Acra.Py Acra.Gen.EqGuard
/-- `a == x`: `a` a PES object, `x` a plain MPEGPacket -/
def PES.eqBaseclass (_a _b : PES) : R Bool := Operand.rejects guarded_PES
/-- `a == x`: `a` a PES object, `x` a STANAG4609 object (asked first; `a` is not a STANAG4609) -/
def PES.eqSubclass (_a _b : PES) : R Bool := Operand.rejects guarded_STANAG4609
/-- `a == x`: `a` a STANAG4609 object, `x` a PES or a plain MPEGPacket -/
def STANAG.eqBaseclass (_a _b : STANAG) : R Bool := Operand.rejects guarded_STANAG4609
end Acra.Model.PES

namespace Acra.Model.Ch11
open Acra.Py Acra.Gen.EqGuard
/-- `a == x`: `a` a Chapter11 object, `x` an instance of the deprecated subclass `Chapter10` (which adds nothing) with
    attributes `b`: asked first, it runs the inherited `Chapter11.__eq__(x, a)` — the comparison with the operands swapped -/
def eqSubclass (a b : State) : R Bool := .ok (eq b a)
/-- `a == x`: `a` an instance of `Chapter10`, `x` a Chapter11 object: `Chapter11.__eq__(a, x)` -/
def eqBaseclass (a b : State) : R Bool := .ok (eq a b)
end Acra.Model.Ch11
