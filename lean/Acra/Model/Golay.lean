/-
  Model of AcraNetwork/Golay.py (class Golay, tables G_P / H_P regenerated into Acra.Gen.Golay).

  * `EncodeTable[x] = (x << 12) ^ XOR{ G_P[i] | bit (11-i) of x }`               (`_init_Table`)
  * `_initgolaydecode`: first loop fills SyndromeTable and sets ErrorTable[x] = 4, CorrectTable[x] =
    0xFFF for every x with a set bit; entry 0 is reset; the triple loop over (i, j, k) in range(24)^3
    then writes `CorrectTable[syndrome(e)] = e >> 12`, `ErrorTable[syndrome(e)] = ones(e)` for
    e = 1<<i | 1<<j | 1<<k, in that order — LAST WRITE WINS.
  * the decode tables belong to the instance and are filled lazily by `decode`; `_errors` does NOT
    trigger the initialisation (on an instance that never decoded, every table is still all-zero
    and `_errors` returns 0) — the instance state is the flag `inited`.
  * `lru_cache` is transparent.
  The two range checks (`0xFFF < raw < 0`, `0xFFFFF < encoded < 0`) are never true and so raise
  nothing; values are masked instead.
-/
import Acra.Py.Struct
import Acra.Gen.Golay
namespace Acra.Model.Golay
open Acra.Py Acra.Gen.Golay

/-- `for i in range(12): if (x >> (11 - i)) & 1: acc ^= rows[i]` for a 12-row table: the row at
    position i (with 11 - i rows after it) is selected by bit 11 - i of x. -/
def rowXorAcc : List Nat → Nat → Nat → Nat
  | [], _, acc => acc
  | r :: rs, x, acc => rowXorAcc rs x (if (x >>> rs.length) &&& 1 ≠ 0 then acc ^^^ r else acc)

/-- `EncodeTable[x]` -/
def encodeEntry (x : Nat) : Nat := rowXorAcc G_P x (x <<< 12)

/-- `Golay.encode(raw)` (int form): `EncodeTable[raw & 0xfff]` -/
def encode (raw : Nat) : Nat := encodeEntry (raw &&& 0xfff)

/-- `Golay.encode(raw, as_string=True)`: `struct.pack(">BH", encoded >> 16, encoded & 0xFFFF)` -/
def encodeStr (raw : Nat) : R Bytes :=
  let e := encode raw
  structPack Golay_encode_fmt0 [e >>> 16, e &&& 0xFFFF]

/-- `_onesincode(code, size)` as written: `bin(code)[2:size+2].count('1')` — the binary digits of
    `code`, most significant first, cut after `size` digits. -/
def binDigitsAux : Nat → Nat → List Bool → List Bool
  | 0, _, acc => acc
  | fuel + 1, n, acc => if n = 0 then acc else binDigitsAux fuel (n / 2) ((n % 2 == 1) :: acc)

/-- `bin(n)[2:]` as a list of bits (`bin(0) = '0b0'`) -/
def binDigits (n : Nat) : List Bool := if n = 0 then [false] else binDigitsAux (n + 1) n []

def onesincode (code size : Nat) : Nat := ((binDigits code).take size).count true

/-- one entry of the first loop of `_initgolaydecode`: (SyndromeTable[x], ErrorTable[x], CorrectTable[x])
    starting from (0, previous, previous) -/
def initEntry : List Nat → Nat → Nat × Nat × Nat → Nat × Nat × Nat
  | [], _, a => a
  | r :: rs, x, (s, e, c) =>
    initEntry rs x (if (x >>> rs.length) &&& 1 ≠ 0 then (s ^^^ r, 4, 0xFFF) else (s, e, c))

def synTable : Array Nat := Array.ofFn (n := GOLAY_SIZE) fun x => (initEntry H_P x.val (0, 0, 0)).1
/-- ErrorTable / CorrectTable after the first loop and the reset of entry 0 -/
def errTable0 : Array Nat :=
  (Array.ofFn (n := GOLAY_SIZE) fun x => (initEntry H_P x.val (0, 0, 0)).2.1).setIfInBounds 0 0
def corTable0 : Array Nat :=
  (Array.ofFn (n := GOLAY_SIZE) fun x => (initEntry H_P x.val (0, 0, 0)).2.2).setIfInBounds 0 0

/-- `_syndrome(v)` on the initialised SyndromeTable -/
def syndrome (v : Nat) : Nat := synTable.getD (v &&& 0xfff) 0 ^^^ ((v >>> 12) &&& 0xfff)

def pat (i j k : Nat) : Nat := (1 <<< i) ||| (1 <<< j) ||| (1 <<< k)

/-- the (i, j, k) of the triple loop, in execution order -/
def triples : List (Nat × Nat × Nat) :=
  (List.range 24).flatMap fun i => (List.range 24).flatMap fun j => (List.range 24).map fun k => (i, j, k)

/-- the writes of the triple loop: (index, CorrectTable value, ErrorTable value) -/
def writeOf (t : Nat × Nat × Nat) : Nat × Nat × Nat :=
  let e := pat t.1 t.2.1 t.2.2
  (syndrome e, (e >>> 12) &&& 0xfff, onesincode e 24)

def writes : List (Nat × Nat × Nat) := triples.map writeOf

def applyWrites (ws : List (Nat × Nat × Nat)) (ce : Array Nat × Array Nat) : Array Nat × Array Nat :=
  ws.foldl (fun ce w => (ce.1.setIfInBounds w.1 w.2.1, ce.2.setIfInBounds w.1 w.2.2)) ce

/-- (CorrectTable, ErrorTable) after `_initgolaydecode` -/
def tables : Array Nat × Array Nat := applyWrites writes (corTable0, errTable0)
def corTable : Array Nat := tables.1
def errTable : Array Nat := tables.2

/-- instance state: have the decode tables been filled? -/
structure State where
  inited : Bool
  deriving Repr, DecidableEq

def fresh : State := { inited := false }

/-- `_syndrome2(v1, v2)` -/
def syndrome2 (s : State) (v1 v2 : Nat) : Nat :=
  (if s.inited then synTable.getD v2 0 else 0) ^^^ v1

/-- a table look-up `T[idx]` (IndexError when outside) combined with `f` -/
def lookup (T : Array Nat) (idx : Nat) (f : Nat → Nat) : R Nat :=
  match T[idx]? with
  | some c => .ok (f c)
  | none => .error .index

/-- `_initgolaydecode(); return _decode2((v >> 12) & 0xfff, v & 0xfff)` -/
def decodeInt (v : Nat) : R Nat :=
  lookup corTable (syndrome2 { inited := true } ((v >>> 12) &&& 0xfff) (v &&& 0xfff))
    (fun c => ((v >>> 12) &&& 0xfff) ^^^ c)

/-- `Golay.decode` for a 3-byte string -/
def decodeBytes (b : Bytes) : R Nat :=
  if b.length ≠ 3 then .error .generic else
  match structUnpack Golay_decode_fmt0 b with
  | .ok [hi, w] => decodeInt (w + (hi <<< 16))
  | .ok _ => .error .struct
  | .error e => .error e

/-- `_errors(v)`; does not initialise the tables -/
def errors (s : State) (v : Nat) : R Nat :=
  let idx := syndrome2 s ((v >>> 12) &&& 0xfff) (v &&& 0xfff)
  if s.inited then lookup errTable idx id
  else if idx < GOLAY_SIZE then .ok 0 else .error .index

end Acra.Model.Golay
