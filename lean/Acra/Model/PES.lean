/-
  Model of AcraNetwork/MPEG/PES.py: the PTS helpers (pts_to_ts, ts_to_pts, ts_to_buf, buf_to_ts),
  PES, checksum_stanag and STANAG4609 (both subclasses of MPEGPacket; base state in `pkt` / `pes`).

  Floats (DESIGN §3): the two float operations of the PTS helpers, `pts / 90e3` and `ts * 90e3`,
  are modelled as exact rational arithmetic followed by a rounding function `fl : Rat → Rat`.
  The executable model instantiates `fl` with `Acra.Py.Float.rne` (round to nearest binary64,
  ties to even, on exact rationals); the driver exchanges floats as their 64-bit IEEE-754 image so
  the correspondence check compares with CPython bit for bit.
-/
import Acra.Py.Struct
import Acra.Py.Float
import Acra.Model.MPEGTS
import Acra.Gen.PES
namespace Acra.Model.PES
open Acra.Py Acra.Gen.PES Acra.Model.MPEGTS

/-! ### PTS helpers -/

/-- the 33-bit tick count inside the 40-bit field: `(v>>3)&(7<<30) | (v>>2)&(0x7FFF<<15) | (v>>1)&0x7FFF`
    (the three masks are disjoint, so `|` is `+`) -/
def ptsOfField (v : Nat) : Nat :=
  (v / 8589934592 % 8) * 1073741824 + (v / 131072 % 32768) * 32768 + (v / 2 % 32768)

/-- `0x2100010001 | (pts&0x7FFF)<<1 | ((pts>>15)&0x7FFF)<<17 | ((pts>>30)&7)<<33` (disjoint bit ranges) -/
def fieldOfPts (pts : Nat) : Nat :=
  0x2100010001 + (pts % 32768) * 2 + (pts / 32768 % 32768) * 131072 + (pts / 1073741824 % 8) * 8589934592

/-- `pts_to_ts` for a rounding function `fl`: `pts / 90e3` converts the int to a float, then divides -/
def pts_to_ts (fl : Rat → Rat) (v : Nat) : Rat := fl (fl (ptsOfField v : Rat) / 90000)

/-- `ts_to_pts` for a rounding function `fl` (non-negative `ts`): `int(round(ts * 90e3))` -/
def ts_to_pts (fl : Rat → Rat) (ts : Rat) : Nat := fieldOfPts (Float.roundNat (fl (ts * 90000)))

/-- `ts_to_buf` -/
def ts_to_buf (fl : Rat → Rat) (ts : Rat) : R Bytes :=
  let v := ts_to_pts fl ts
  structPack ts_to_buf_fmt0 [v / 4294967296, v % 4294967296]

/-- `buf_to_ts` -/
def buf_to_ts (fl : Rat → Rat) (buffer : Bytes) : R Rat :=
  match structUnpack buf_to_ts_fmt0 buffer with
  | .error e => .error e
  | .ok [msb, lsb] => .ok (pts_to_ts fl (lsb + msb * 4294967296))
  | .ok _ => .error .struct

/-! ### PES -/

structure PES where
  pkt : Pkt
  streamid : Nat
  pesdata : Bytes
  extension_w1 : Option Nat
  extension_w2 : Option Nat
  header_data : Option Bytes
  deriving Repr, DecidableEq

def PES.fresh : PES :=
  { pkt := Pkt.fresh, streamid := 0, pesdata := [], extension_w1 := none, extension_w2 := none,
    header_data := none }

/-- `PES.unpack`.  The optional header is recognised heuristically: high nibble of the byte after
    the 6-byte prefix equals 8 AND the payload is exactly `PES_length + 6` bytes long (and there are at least
    3 bytes after the prefix). -/
def PES.unpack (t : PES) (buffer : Bytes) : PES × R Unit :=
  match Pkt.unpack t.pkt buffer with
  | (p, .error e) => ({ t with pkt := p }, .error e)
  | (p, .ok ()) =>
    let t := { t with pkt := p }
    match structUnpackFrom PES_unpack_fmt0 p.payload 0 with
    | .error e => (t, .error e)
    | .ok [prefix1, prefix2, streamid, peslength] =>
      let t := { t with streamid := streamid }
      if prefix1 * 65536 + prefix2 ≠ 1 then (t, .error .generic) else
      -- fewer than 3 bytes after the 6-byte prefix cannot hold the optional header: no peek
      if p.payload.length < 9 then
        ({ t with extension_w1 := none, extension_w2 := none, header_data := none,
                  pesdata := p.payload.drop 6 }, .ok ())
      else
      match structUnpackFrom PES_unpack_fmt1 p.payload 6 with
      | .error e => (t, .error e)
      | .ok [opt, _misc, _hl] =>
        if opt / 16 = 8 ∧ p.payload.length = peslength + 6 then
          match structUnpackFrom PES_unpack_fmt2 p.payload 6 with
          | .error e => (t, .error e)
          | .ok [w1, w2, hdrlen] =>
            ({ t with extension_w1 := some w1, extension_w2 := some w2,
                      header_data := some (slice p.payload 9 (9 + hdrlen)),
                      pesdata := p.payload.drop (9 + hdrlen) }, .ok ())
          | .ok _ => (t, .error .struct)
        else
          ({ t with extension_w1 := none, extension_w2 := none, header_data := none,
                    pesdata := p.payload.drop 6 }, .ok ())
      | .ok _ => (t, .error .struct)
    | .ok _ => (t, .error .struct)

/-- the optional header is emitted iff `extension_w1`, `extension_w2` and `header_data` are all set -/
def PES.ext (s : PES) : Option (Nat × Nat × Bytes) :=
  match s.extension_w1, s.extension_w2, s.header_data with
  | some w1, some w2, some hd => some (w1, w2, hd)
  | _, _, _ => none

/-- `PES.pack`: rebuilds `payload`, then `MPEGPacket.pack` -/
def PES.pack (s : PES) : PES × R Bytes :=
  let len := match PES.ext s with
    | some (_, _, hd) => 3 + s.pesdata.length + hd.length
    | none => s.pesdata.length
  match structPack PES_pack_fmt0 [0, 1, s.streamid, len] with
  | .error e => (s, .error e)
  | .ok h =>
    let s1 := { s with pkt := { s.pkt with payload := h } }
    let eb : R Bytes := match PES.ext s with
      | some (w1, w2, hd) =>
        match structPack PES_pack_fmt1 [w1, w2, hd.length] with
        | .ok x => .ok (x ++ hd)
        | .error e => .error e
      | none => .ok []
    match eb with
    | .error e => (s1, .error e)
    | .ok x =>
      let r := Pkt.pack { s.pkt with payload := h ++ x ++ s.pesdata }
      ({ s with pkt := r.1 }, r.2)

/-- `PES.__eq__` on two PES operands -/
def PES.eq (a b : PES) : Bool :=
  a.streamid == b.streamid && a.pesdata == b.pesdata && a.extension_w1 == b.extension_w1 &&
  a.extension_w2 == b.extension_w2 && a.header_data == b.header_data && Pkt.eq a.pkt b.pkt

/-! ### STANAG 4609 -/

/-- `checksum_stanag`: byte `i` is added shifted by `8 * ((i + 1) % 2)`, result mod 65536 -/
def stanagSum : Bytes → Nat → Nat
  | [], _ => 0
  | b :: bs, i => b.toNat * (if (i + 1) % 2 = 1 then 256 else 1) + stanagSum bs (i + 1)

def checksum_stanag (buff : Bytes) : Nat := stanagSum buff 0 % 65536

structure STANAG where
  pes : PES
  stanag_counter : Nat
  unknown : Nat            -- `_unknown`
  unknown2 : Nat           -- `_unknown2`
  time_us : Nat
  deriving Repr, DecidableEq

def STANAG.fresh : STANAG :=
  { pes := PES.fresh, stanag_counter := 0, unknown := STANAG4609_DEFAULT_UNKNOWN,
    unknown2 := STANAG4609_DEFAULT_UNKNOWN2, time_us := 0 }

/-- `STANAG4609.unpack` -/
def STANAG.unpack (t : STANAG) (buffer : Bytes) : STANAG × R Unit :=
  match PES.unpack t.pes buffer with
  | (p, .error e) => ({ t with pes := p }, .error e)
  | (p, .ok ()) =>
    let t := { t with pes := p }
    if p.pkt.pid ≠ STANAG4609_PID then (t, .error .generic) else
    match structUnpackFrom STANAG_unpack_fmt0 p.pesdata 0 with
    | .error e => (t, .error e)
    | .ok [cnt, u1, u2] =>
      let t := { t with stanag_counter := cnt, unknown := u1, unknown2 := u2 }
      let off := STANAG4609_UNIVERSAL_KEY.length + STANAG4609_UNKNOWN_OFFSET
      if slice p.pesdata STANAG4609_UNKNOWN_OFFSET off ≠ STANAG4609_UNIVERSAL_KEY then (t, .error .generic) else
      match structUnpackFrom STANAG_unpack_fmt1 p.pesdata off with
      | .error e => (t, .error e)
      | .ok [_len, datatag, taglen] =>
        if datatag ≠ STANAG4609_DATA_TAG then (t, .error .generic) else
        if taglen ≠ 8 then (t, .error .generic) else
        match structUnpackFrom STANAG_unpack_fmt2 p.pesdata (off + 3) with
        | .error e => (t, .error e)
        | .ok [time, _tt, _tl, act] =>
          let t := { t with time_us := time }
          -- pesdata[5:-2]
          let cs := checksum_stanag (slice p.pesdata STANAG4609_UNKNOWN_OFFSET (p.pesdata.length - 2))
          if cs ≠ act then (t, .error .generic) else (t, .ok ())
        | .ok _ => (t, .error .struct)
      | .ok _ => (t, .error .struct)
    | .ok _ => (t, .error .struct)

/-- `STANAG4609.pack`: forces the PID, rebuilds `pesdata`, then `PES.pack` -/
def STANAG.pack (s : STANAG) : STANAG × R Bytes :=
  let s := { s with pes := { s.pes with pkt := { s.pes.pkt with pid := STANAG4609_PID } } }
  match structPack STANAG_pack_fmt0 [s.stanag_counter, s.unknown, s.unknown2] with
  | .error e => (s, .error e)
  | .ok h =>
    match structPack STANAG_pack_fmt1 [STANAG4609_LEN, STANAG4609_DATA_TAG, STANAG4609_DTAG_LEN] with
    | .error e => (s, .error e)
    | .ok l =>
      match structPack STANAG_pack_fmt2 [s.time_us] with
      | .error e => (s, .error e)
      | .ok tm =>
        match structPack STANAG_pack_fmt3 [STANAG4609_TIME_TAG, STANAG4609_TTAG_LEN] with
        | .error e => (s, .error e)
        | .ok tt =>
          let d := h ++ STANAG4609_UNIVERSAL_KEY ++ l ++ tm ++ tt
          match structPack STANAG_pack_fmt4 [checksum_stanag (d.drop STANAG4609_UNKNOWN_OFFSET)] with
          | .error e => (s, .error e)
          | .ok c =>
            let r := PES.pack { s.pes with pesdata := d ++ c }
            ({ s with pes := r.1 }, r.2)

/-- `STANAG4609.__eq__` on two STANAG operands -/
def STANAG.eq (a b : STANAG) : Bool :=
  a.time_us == b.time_us && a.stanag_counter == b.stanag_counter && PES.eq a.pes b.pes

end Acra.Model.PES
