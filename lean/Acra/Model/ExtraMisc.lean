/-
  Models of two small classes outside the wire-format properties:
    AcraNetwork/ParserAligned.py   class ARINC429 ("This is not working yet. Don't use it"): `unpack`
    AcraNetwork/SimpleEthernet.py  class IPv6: `pack` (and `unpack`, which raises a bare `Exception`)

  * `ARINC429.unpack` uses Python 3 true division, so `parity`, `ssm` and `data` are floats.  Every value is a
    dyadic rational with a numerator below 2^22, hence exactly representable: the model keeps the exact
    rational and the driver prints its binary64 image (compared bit for bit with the code, all 2^8 values
    of each byte).
  * `IPv6.pack` is modelled as written, including the shift of `traffic_class` by 24 (not 20) bits.
-/
import Acra.Py.Struct
import Acra.Gen.ExtraPA
import Acra.Gen.ExtraNet
namespace Acra.Model.Extra
open Acra.Py Acra.Gen.ExtraPA Acra.Gen.ExtraNet

/-- a Python number attribute that starts as `None`, is assigned ints by some statements and floats by others -/
inductive Num where
  | none
  | int (n : Nat)
  | float (q : Rat)
  deriving Repr, DecidableEq

/-- Python `x % m` for a non-negative rational `x` and a positive integer `m` (float `%`, exact) -/
def ratMod (x : Rat) (m : Nat) : Rat := x - ((m * (x / m).floor.toNat : Nat) : Rat)

structure A429 where
  parity : Num
  ssm : Num
  data : Num
  sdi : Num
  label : Num
  deriving Repr, DecidableEq

def A429.fresh : A429 := { parity := .none, ssm := .none, data := .none, sdi := .none, label := .none }

def A429.unpack (t : A429) (buf : Bytes) : A429 × R Unit :=
  if buf.length ≠ A429_MESSAGE_LEN then (t, .error .value) else
  match structUnpack A429_unpack_fmt0 buf with
  | .error e => (t, .error e)
  | .ok [b1, b2, b3, b4] =>
    match A429_LABEL_REVERSE[b4]? with
    | some l =>
      ({ parity := .float ((b1 : Rat) / 128),
         ssm := .float (ratMod ((b1 : Rat) / 32) 4),
         data := .float ((((b1 % 32) * 256 + b2) * 64 : Nat) + (b3 : Rat) / 4),
         sdi := .int (b3 % 4),
         label := .int l }, .ok ())
    | none =>
      ({ t with parity := .float ((b1 : Rat) / 128),
                ssm := .float (ratMod ((b1 : Rat) / 32) 4),
                data := .float ((((b1 % 32) * 256 + b2) * 64 : Nat) + (b3 : Rat) / 4),
                sdi := .int (b3 % 4) }, .error .index)
  | .ok _ => (t, .error .struct)

/-! ### IPv6 -/

structure IPv6 where
  version : Nat
  traffic_class : Nat
  flow_label : Nat
  len : Nat
  next_header : Nat
  hop_limit : Nat
  srcip : Option Nat
  dstip : Option Nat
  payload : Bytes
  deriving Repr, DecidableEq

def IPv6.fresh : IPv6 :=
  { version := IPV6_DEFAULT_VERSION, traffic_class := 0, flow_label := 0, len := 0,
    next_header := IPV6_DEFAULT_NEXT_HEADER, hop_limit := IPV6_DEFAULT_HOP_LIMIT, srcip := some 0, dstip := some 0,
    payload := [] }

/-- the four 32-bit words `x >> 96, (x >> 64) & 0xFFFFFFFF, (x >> 32) & 0xFFFFFFFF, x & 0xFFFFFFFF` -/
def addrWords (x : Nat) : List Nat :=
  [x >>> 96, (x >>> 64) &&& 0xFFFFFFFF, (x >>> 32) &&& 0xFFFFFFFF, x &&& 0xFFFFFFFF]

def IPv6.word0 (s : IPv6) : Nat :=
  (s.version <<< IPV6_VERSION_SHIFT) + (s.traffic_class <<< IPV6_TC_SHIFT) + s.flow_label

def IPv6.pack (s : IPv6) : IPv6 × R Bytes :=
  match s.srcip, s.dstip with
  | some src, some dst =>
    let s1 := { s with len := s.payload.length }
    match structPack IPV6_HEADER_FORMAT
        ([s1.word0, s1.len, s1.next_header, s1.hop_limit] ++ addrWords src ++ addrWords dst) with
    | .error e => (s1, .error e)
    | .ok h => (s1, .ok (h ++ s1.payload))
  | _, _ => (s, .error .value)

/-- `IPv6.unpack` raises `Exception("Not implemented")` -/
def IPv6.unpack (s : IPv6) (_buf : Bytes) : IPv6 × R Unit := (s, .error .generic)

end Acra.Model.Extra
