/-
  Models of the MPEG decoders that no wire-format property anchors:
    AcraNetwork/MPEG/STANAG4609.py   STANAG4609_SEI.unpack
    AcraNetwork/MPEG/ADTS.py         ADTS.unpack
    AcraNetwork/MPEG/H264.py         NAL.unpack, H264.unpack (with its private copy of the Horspool helper)

  Statement by statement, as the code is today.  In particular:

  * `STANAG4609_SEI.unpack` first resets `unregdata`, `status`, `seconds`, `microseconds`, `nanoseconds`,
    `time`, `stanag` (fix b3ec533: nothing decoded from an earlier buffer survives), then assigns attributes
    as it goes.  `seconds = float(useconds) / 1.0e6` is binary64 arithmetic (`Acra.Py.Float`),
    `time = datetime.fromtimestamp(seconds)` is modelled for a UTC local time zone (the sandbox; trusted
    base) with CPython's conversion: microseconds = round-half-even of the binary64 product `frac · 10^6`,
    carry into the seconds, `ValueError` for a year above 9999.
  * `NAL.unpack` first sets `sei = None` (fix 4a5c19a), builds a NEW `STANAG4609_SEI` for an SEI NAL;
    `offset` is never written by `unpack` (it belongs to the container).
  * `H264.unpack` first sets `nals = []` (fix 4a5c19a); under Python 3 it then calls `buf.decode()` (strict
    UTF-8: `UnicodeDecodeError`, a `ValueError`) and hands two `str` objects to the search helper.  The helper
    returns `[]` when the text has fewer characters than the 4-character pattern; otherwise its skip-table loop
    executes `skip[pattern[0]] = …` with a `str` index: `TypeError`.  No NAL is ever produced.
-/
import Acra.Py.Struct
import Acra.Py.Float
import Acra.Model.Ch11TimeFmt
import Acra.Gen.ExtraH264
import Acra.Gen.ExtraADTS
import Acra.Gen.ExtraSEI
namespace Acra.Model.Extra
open Acra.Py Acra.Py.Float Acra.Gen.ExtraH264 Acra.Gen.ExtraADTS Acra.Gen.ExtraSEI

/-! ### `datetime.fromtimestamp(x)` for a non-negative binary64 `x`, local zone = UTC -/

/-- a naive `datetime` -/
structure DT where
  year : Nat
  month : Nat
  day : Nat
  hour : Nat
  minute : Nat
  second : Nat
  microsecond : Nat
  deriving Repr, DecidableEq

/-- CPython `_PyTime_DoubleToDenominator` with ROUND_HALF_EVEN: whole seconds and microseconds of `x ≥ 0` -/
def splitSeconds (x : Rat) : Nat × Nat :=
  let ip := floorNat x
  let fp := x - (ip : Rat)                       -- `modf`, exact
  let us := roundHalfEven (fmul fp 1000000)      -- `floatpart *= 1e6; round`
  if 1000000 ≤ us then (ip + 1, us - 1000000) else (ip, us)

def dtOf (v : Nat × Nat × Nat × Nat × Nat × Nat) (us : Nat) : DT :=
  { year := v.1, month := v.2.1, day := v.2.2.1, hour := v.2.2.2.1, minute := v.2.2.2.2.1, second := v.2.2.2.2.2,
    microsecond := us }

def fromTimestampF (x : Rat) : R DT :=
  (Acra.Model.Ch11Pay.TimeFmt.fromTimestamp ((splitSeconds x).1 : Int)).map fun v => dtOf v (splitSeconds x).2

/-! ### STANAG4609_SEI -/

structure SEI where
  payloadtype : Option Nat
  payloadsize : Option Nat
  unregdata : Bool
  status : Option Nat
  seconds : Option Rat            -- a binary64 value
  microseconds : Option Nat       -- only ever reset to `None` by `unpack`
  nanoseconds : Option Nat
  time : Option DT
  stanag : Bool
  deriving Repr, DecidableEq

def SEI.fresh : SEI :=
  { payloadtype := none, payloadsize := none, unregdata := false, status := none, seconds := none,
    microseconds := none, nanoseconds := none, time := none, stanag := false }

/-- `(ms1 << 48) + (ms2 << 32) + (ms3 << 16) + ms4` -/
def seiUseconds (ms1 ms2 ms3 ms4 : Nat) : Nat := (ms1 <<< 48) + (ms2 <<< 32) + (ms3 <<< 16) + ms4

/-- `float(useconds) / 1.0e6` -/
def seiSeconds (us : Nat) : Rat := fdiv (ofNat us) (SEI_US_PER_S : Rat)

/-- the part of `STANAG4609_SEI.unpack` after the ten fields of an unregistered-data payload were read.
    Since the reset at the top of `unpack` every attribute except `payloadtype`/`payloadsize` has a value
    that does not depend on the prior state, so each exit is a complete record (written out in full: nested
    record updates make proof terms explode). -/
def SEI.signed (pt ps sig1 sig2 st ms1 f1 ms2 f2 ms3 f3 ms4 : Nat) : SEI × R Unit :=
  if sig1 = SEI_SIG1 ∧ sig2 = SEI_SIG2 ∧ f1 = SEI_FIX ∧ f2 = SEI_FIX2 ∧ f3 = SEI_FIX3 then
    match fromTimestampF (seiSeconds (seiUseconds ms1 ms2 ms3 ms4)) with
    | .error e =>
      ({ payloadtype := some pt, payloadsize := some ps, unregdata := true, status := some st,
         seconds := some (seiSeconds (seiUseconds ms1 ms2 ms3 ms4)), microseconds := none,
         nanoseconds := some ((ms3 <<< 16) + ms4), time := none, stanag := false }, .error e)
    | .ok dt =>
      ({ payloadtype := some pt, payloadsize := some ps, unregdata := true, status := some st,
         seconds := some (seiSeconds (seiUseconds ms1 ms2 ms3 ms4)), microseconds := none,
         nanoseconds := some ((ms3 <<< 16) + ms4), time := some dt, stanag := true }, .ok ())
  else
    ({ payloadtype := some pt, payloadsize := some ps, unregdata := true, status := some st, seconds := none,
       microseconds := none, nanoseconds := none, time := none, stanag := false }, .ok ())

def SEI.unpack (t : SEI) (buf : Bytes) : SEI × R Unit :=
  match structUnpack SEI_unpack_fmt0 (slice buf 0 2) with
  | .error e =>
    -- only the reset has happened: `payloadtype`, `payloadsize` are still the old ones
    ({ t with unregdata := false, status := none, seconds := none, microseconds := none, nanoseconds := none,
              time := none, stanag := false }, .error e)
  | .ok v0 =>
    if v0.getD 0 0 = SEI_UNREG_DATA then
      match structUnpackFrom SEI_unpack_fmt1 (buf.drop 2) 0 with
      | .error e =>
        ({ payloadtype := some (v0.getD 0 0), payloadsize := some (v0.getD 1 0), unregdata := true, status := none,
           seconds := none, microseconds := none, nanoseconds := none, time := none, stanag := false }, .error e)
      | .ok v => SEI.signed (v0.getD 0 0) (v0.getD 1 0) (v.getD 0 0) (v.getD 1 0) (v.getD 2 0) (v.getD 3 0)
                   (v.getD 4 0) (v.getD 5 0) (v.getD 6 0) (v.getD 7 0) (v.getD 8 0) (v.getD 9 0)
    else
      ({ payloadtype := some (v0.getD 0 0), payloadsize := some (v0.getD 1 0), unregdata := false, status := none,
         seconds := none, microseconds := none, nanoseconds := none, time := none, stanag := false }, .ok ())

/-! ### ADTS -/

structure ADTS where
  aac : Bytes
  version : Nat                   -- never written by `unpack`
  sampling_freq : Nat
  length : Nat                    -- `_length`
  no_crc : Bool
  deriving Repr, DecidableEq

def ADTS.fresh : ADTS := { aac := [], version := 0, sampling_freq := 0, length := 0, no_crc := ADTS_DEFAULT_NO_CRC }

def ADTS.unpack (t : ADTS) (buf : Bytes) : ADTS × R Unit :=
  match structUnpackFrom ADTS_unpack_fmt0 buf 0 with
  | .error e => (t, .error e)
  | .ok [w0, w1, w2, w3, w4, w5, _w6] =>
    let sw := ((w1 >>> 4) <<< 8) + w0
    if sw ≠ ADTS_SYNC then (t, .error .generic) else
    ({ t with sampling_freq := (w2 >>> 2) &&& 0xF, no_crc := (w1 &&& 1) != 0,
              length := (w5 >>> 5) + (w4 <<< 3) + ((w3 &&& 0x3) <<< 11),
              aac := if (w1 &&& 1) != 0 then buf.drop 7 else buf.drop 9 }, .ok ())
  | .ok _ => (t, .error .struct)

/-! ### NAL -/

structure NAL where
  type : Nat
  size : Nat
  sei : Option SEI
  offset : Nat                    -- never written by `unpack`
  deriving Repr, DecidableEq

def NAL.fresh : NAL := { type := 0, size := 0, sei := none, offset := 0 }

def NAL.unpack (t : NAL) (buf : Bytes) : NAL × R Unit :=
  match structUnpackFrom NAL_unpack_fmt0 buf NAL_HEADER_LEN with
  | .error e => ({ t with sei := none }, .error e)              -- `self.sei = None` comes first
  | .ok v =>
    let ty := v.getD 0 0 &&& NAL_TYPE_MASK
    if ty = NAL_TYPE_SEI then
      match SEI.unpack SEI.fresh (buf.drop (NAL_HEADER_LEN + 1)) with
      | (_, .error e) => ({ t with type := ty, size := buf.length, sei := none }, .error e)
      | (sei, .ok _) => ({ t with type := ty, size := buf.length, sei := some sei }, .ok ())
    else ({ t with type := ty, size := buf.length, sei := none }, .ok ())

/-! ### strict UTF-8 (what `bytes.decode()` accepts) -/

def isCont (b : UInt8) : Bool := 0x80 ≤ b.toNat && b.toNat ≤ 0xBF

/-- number of code points of a well-formed UTF-8 string (RFC 3629: no overlong forms, no surrogates,
    nothing above U+10FFFF); `none` is `UnicodeDecodeError` -/
def utf8Len : Bytes → Option Nat
  | [] => some 0
  | b0 :: rest =>
    let a := b0.toNat
    if a < 0x80 then (utf8Len rest).map (· + 1)
    else if 0xC2 ≤ a ∧ a ≤ 0xDF then
      match rest with
      | b1 :: r => if isCont b1 then (utf8Len r).map (· + 1) else none
      | _ => none
    else if 0xE0 ≤ a ∧ a ≤ 0xEF then
      match rest with
      | b1 :: b2 :: r =>
        let lo := if a = 0xE0 then 0xA0 else 0x80
        let hi := if a = 0xED then 0x9F else 0xBF
        if lo ≤ b1.toNat ∧ b1.toNat ≤ hi ∧ isCont b2 then (utf8Len r).map (· + 1) else none
      | _ => none
    else if 0xF0 ≤ a ∧ a ≤ 0xF4 then
      match rest with
      | b1 :: b2 :: b3 :: r =>
        let lo := if a = 0xF0 then 0x90 else 0x80
        let hi := if a = 0xF4 then 0x8F else 0xBF
        if lo ≤ b1.toNat ∧ b1.toNat ≤ hi ∧ isCont b2 ∧ isCont b3 then (utf8Len r).map (· + 1) else none
      | _ => none
    else none

/-! ### H264 -/

structure H264 where
  nals : List NAL
  deriving Repr, DecidableEq

def H264.fresh : H264 := { nals := [] }

/-- `string_matching_boyer_moore_horspool(text, pattern)` of H264.py called with two `str` arguments of
    `n` and `m` characters: the early return, or the `TypeError` of `skip[pattern[k]] = …` in the first
    iteration of `for k in range(m - 1)`; with `m ≤ 1` that loop is empty and the search itself would
    run (never the case for the 4-character NAL header; reported as `fuel`, see `H264_unpack_total`). -/
def horspoolStr (n m : Nat) : R (List Nat) :=
  if n < m then .ok []
  else if PY3 ∧ 1 < m then .error .type
  else .error .fuel

def H264.unpack (_t : H264) (buf : Bytes) : H264 × R Bool :=
  -- `self.nals = []` comes first: every exit leaves the empty list
  match utf8Len buf with
  | none => ({ nals := [] }, .error .value)
  | some n =>
    match horspoolStr n NAL_HEADER_TEXT_LEN with
    | .error e => ({ nals := [] }, .error e)
    | .ok [] => ({ nals := [] }, .ok true)      -- `for idx, offset in enumerate(offsets)`: no iteration
    | .ok (_ :: _) => ({ nals := [] }, .error .fuel)   -- never: the helper returns only the empty list

end Acra.Model.Extra
