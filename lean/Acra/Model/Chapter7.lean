/-
  Model of AcraNetwork/Chapter7.py: PTDP, PTFR, datapkts_to_ptdp, datapkts_to_ptfr (generator as a
  fold), PTFR.get_aligned_payload (generator as a fuelled loop returning the yielded tuples and, if
  the generator raises, the exception), and the documented consumer loop around it.

  Hidden state: the shared default `Golay()` instance only caches its tables (Model.Golay: `decode`
  always initialises before use), so PTDP/PTFR carry no Golay state.
-/
import Acra.Model.Golay
import Acra.Gen.Chapter7
namespace Acra.Model.Chapter7
open Acra.Py Acra.Gen.Chapter7

/-! ### PTDP -/
namespace PTDP

structure State where
  payload : Bytes
  low_latency : Bool
  length : Nat
  content : Nat
  fragment : Nat
  deriving Repr, DecidableEq

def fresh : State :=
  { payload := [], low_latency := false, length := 0, content := PTDP_CONTENT_FILL,
    fragment := PTDP_FRAGMENT_COMPLETE }

/-- the `payload` property setter -/
def setPayload (s : State) (val : Bytes) : State × R Unit :=
  if val.length > PTDP_MAX_LEN then (s, .error .generic) else ({ s with payload := val }, .ok ())

/-- `PTDP.pack` -/
def pack (s : State) : State × R Bytes :=
  let s' := { s with length := s.payload.length }
  let msw := s'.length &&& 0xFFF
  let lsw := (s'.length >>> 12) + (s'.fragment <<< 4) + (s'.content <<< 6)
  match Golay.encodeStr lsw with
  | .error e => (s', .error e)
  | .ok a =>
    match Golay.encodeStr msw with
    | .error e => (s', .error e)
    | .ok b => (s', .ok (a ++ b ++ s'.payload))

/-- `PTDP.unpack`: returns the rest of the buffer -/
def unpack (s : State) (buffer : Bytes) : State × R Bytes :=
  if buffer.length < 6 then (s, .error .ptdpRemaining) else
  -- the low latency marking is not carried by the PTDP itself
  let s0 := { s with low_latency := false }
  match Golay.decodeBytes (slice buffer 0 3) with
  | .error e => (s0, .error e)
  | .ok lsw =>
    match Golay.decodeBytes (slice buffer 3 6) with
    | .error e => (s0, .error e)
    | .ok msw =>
      let s1 := { s0 with length := msw + ((lsw &&& 0xF) <<< 12), fragment := (lsw >>> 4) &&& 0x3,
                          content := (lsw >>> 6) &&& 0xF }
      if s1.length > PTDP_MAX_LEN then (s1, .error .ptdpLength)
      else if (buffer.drop 6).length < s1.length then (s1, .error .ptdpRemaining)
      else
        let (s2, r) := setPayload s1 (slice buffer 6 (s1.length + 6))
        match r with
        | .error e => (s2, .error e)
        | .ok () => (s2, .ok (buffer.drop (s1.length + 6)))

/-- `PTDP.__len__` -/
def len (s : State) : Nat := s.payload.length + PTDP_HDR_LEN

/-- `PTDP.__eq__` between PTDPs -/
def eq (a b : State) : Bool :=
  a.payload == b.payload && a.length == b.length && a.fragment == b.fragment && a.content == b.content

end PTDP

/-! ### datapkts_to_ptdp -/

def mkPtdp (llp : Bool) (fragment : Nat) (payload : Bytes) : PTDP.State :=
  { payload := payload, low_latency := llp, length := payload.length, content := PTDP_CONTENT_MAC,
    fragment := fragment }

/-- the fragments `i = from .. n-1` of a packet longer than PTDP_MAX_LEN -/
def fragmentsFrom (buffer : Bytes) (llp : Bool) (n : Nat) : Nat → Nat → List PTDP.State
  | 0, _ => []
  | cnt + 1, i =>
    (if i == 0 then mkPtdp llp PTDP_FRAGMENT_FIRST (slice buffer 0 PTDP_MAX_LEN)
     else if i == n - 1 then mkPtdp llp PTDP_FRAGMENT_LAST (buffer.drop (i * PTDP_MAX_LEN))
     else mkPtdp llp PTDP_FRAGMENT_MIDDLE (slice buffer (PTDP_MAX_LEN * i) (PTDP_MAX_LEN * (i + 1))))
    :: fragmentsFrom buffer llp n cnt (i + 1)

/-- the PTDPs of one packet -/
def ptdpsOf (buffer : Bytes) (llp : Bool) : List PTDP.State :=
  if buffer.length ≤ PTDP_MAX_LEN then [mkPtdp llp PTDP_FRAGMENT_COMPLETE buffer]
  else
    -- int(math.ceil(float(len) / PTDP_MAX_LEN)); exact in binary64 for every length < 2^53
    let n := (buffer.length + PTDP_MAX_LEN - 1) / PTDP_MAX_LEN
    fragmentsFrom buffer llp n n 0

def datapktsToPtdp (pkts : List (Bytes × Bool)) : List PTDP.State :=
  pkts.flatMap fun p => ptdpsOf p.1 p.2

/-! ### PTFR -/
namespace PTFR

structure State where
  version : Nat
  streamid : Nat
  llp : Bool
  ptdp_offset : Nat
  length : Nat
  payload : Bytes           -- `_payload`
  deriving Repr, DecidableEq

def fresh : State :=
  { version := 0, streamid := 0, llp := false, ptdp_offset := 0, length := 0, payload := [] }

/-- the `payload` property setter: APPENDS -/
def setPayload (s : State) (val : Bytes) : State × R Unit :=
  if val.length + s.payload.length > s.length then (s, .error .generic)
  else ({ s with payload := s.payload ++ val }, .ok ())

/-- `struct.pack(">B", v)` for the marker bytes -/
def byte1 (f : Fmt) (v : Nat) : Bytes :=
  match structPack f [v] with
  | .ok b => b
  | .error _ => []

/-- `PTFR.add_payload`: returns the bytes that did not fit -/
def addPayload (s : State) (buffer : Bytes) (isLlp : Bool) : State × Bytes :=
  let s1 : State :=
    if isLlp && decide (s.payload.length > 0) && s.llp then
      { s with ptdp_offset := s.ptdp_offset + (buffer.length + 1),
               payload := buffer ++ byte1 PTFR_add_payload_fmt0 0xFF ++ s.payload, llp := true }
    else if isLlp && decide (s.payload.length > 0) && !s.llp then
      { s with ptdp_offset := buffer.length + 1,
               payload := buffer ++ byte1 PTFR_add_payload_fmt1 0x0 ++ s.payload, llp := true }
    else if isLlp && decide (s.payload.length = 0) then
      { s with llp := true, ptdp_offset := buffer.length + 1,
               payload := buffer ++ byte1 PTFR_add_payload_fmt2 0x0 }
    else { s with payload := s.payload ++ buffer }
  if s1.payload.length > s1.length then
    -- len_to_take = length - len(payload) < 0; payload[len_to_take:], payload[:len_to_take]
    ({ s1 with payload := s1.payload.take s1.length }, s1.payload.drop s1.length)
  else (s1, [])

/-- `PTFR.pack` -/
def pack (s : State) : State × R Bytes :=
  if s.payload.length ≠ s.length then (s, .error .generic) else
  match structPack PTFR_pack_fmt0 [s.version + (s.streamid <<< 4)] with
  | .error e => (s, .error e)
  | .ok h =>
    match Golay.encodeStr (s.ptdp_offset + ((if s.llp then 1 else 0) <<< 11)) with
    | .error e => (s, .error e)
    | .ok g => (s, .ok (h ++ g ++ s.payload))

/-- `PTFR.unpack` -/
def unpack (s : State) (buffer : Bytes) : State × R Unit :=
  match structUnpackFrom PTFR_unpack_fmt0 buffer 0 with
  | .error e => (s, .error e)
  | .ok [byte_] =>
    let s1 := { s with version := byte_ &&& 0x3, streamid := (byte_ >>> 4) &&& 0xF }
    match Golay.decodeBytes (slice buffer 1 4) with
    | .error e => (s1, .error e)
    | .ok p =>
      let s2 := { s1 with llp := ((p >>> 11) &&& 0x1) != 0, ptdp_offset := p &&& 0x7FF, payload := [] }
      setPayload s2 (buffer.drop 4)
  | .ok _ => (s, .error .struct)

/-- `PTFR.check_offsets` (the logging aside) -/
def checkOffsets (s : State) (act : Int) : Bool :=
  if act ≠ (s.ptdp_offset : Int) && s.ptdp_offset ≠ 2047 then false else true

/-- `PTFR.__eq__` between PTFRs -/
def eq (a b : State) : Bool :=
  a.version == b.version && a.streamid == b.streamid && a.llp == b.llp &&
  a.ptdp_offset == b.ptdp_offset && a.payload == b.payload

end PTFR

/-! ### datapkts_to_ptfr -/

/-- `_new_ptfr` -/
def newPtfr (L sid : Nat) : PTFR.State := { PTFR.fresh with length := L, streamid := sid }

/-- the inner `while len(remainder) > ptfr_len` loop; state (at_ptdp_start, ptfr, remainder, yielded) -/
def spillFull (L sid : Nat) :
    Nat → Bool → PTFR.State → Bytes → List PTFR.State → R (Bool × PTFR.State × Bytes × List PTFR.State)
  | 0, _, _, _, _ => .error .fuel
  | fuel + 1, atStart, cur, rem, out =>
    if rem.length > L then
      let cur1 := { cur with ptdp_offset := if atStart then 0x0 else 0x7FF }
      let (cur2, _) := PTFR.addPayload cur1 (slice rem 0 L) false
      spillFull L sid fuel false (newPtfr L sid) (rem.drop L) (out ++ [cur2])
    else .ok (atStart, cur, rem, out)

/-- the outer `while remainder != bytes()` loop -/
def spill (L sid : Nat) :
    Nat → Bool → PTFR.State → Bytes → List PTFR.State → R (PTFR.State × List PTFR.State)
  | 0, _, _, _, _ => .error .fuel
  | fuel + 1, atStart, cur, rem, out =>
    if rem = [] then .ok (cur, out) else
    match spillFull L sid (rem.length + 1) atStart (newPtfr L sid) rem (out ++ [cur]) with
    | .error e => .error e
    | .ok (atStart', cur1, rem1, out1) =>
      let cur2 := { cur1 with ptdp_offset :=
        if atStart' then 0x0 else if rem1.length == L then 0x7FF else rem1.length }
      let (cur3, rem2) := PTFR.addPayload cur2 rem1 false
      spill L sid fuel atStart' cur3 rem2 out1

/-- one iteration of `for ptdp in datapkts_to_ptdp(...)` -/
def encStep (L sid : Nat) (st : PTFR.State × List PTFR.State) (ptdp : PTDP.State) :
    R (PTFR.State × List PTFR.State) :=
  let (cur, out) := st
  let atStart := cur.payload.length == L && !ptdp.low_latency
  match (PTDP.pack ptdp).2 with
  | .error e => .error e
  | .ok packed =>
    let (cur1, rem) := PTFR.addPayload cur packed ptdp.low_latency
    spill L sid (rem.length + 2) atStart cur1 rem out

def encFold (L sid : Nat) : List PTDP.State → PTFR.State × List PTFR.State → R (PTFR.State × List PTFR.State)
  | [], st => .ok st
  | p :: ps, st =>
    match encStep L sid st p with
    | .error e => .error e
    | .ok st' => encFold L sid ps st'

/-- `datapkts_to_ptfr`: the frames yielded (in order) and the frame still under construction when the
    input ends (never yielded by the library).  `.error .fuel` = the generator never finishes
    (`ptfr_len = 0` with a non-empty remainder). -/
def datapktsToPtfr (pkts : List (Bytes × Bool)) (L sid : Nat) : R (PTFR.State × List PTFR.State) :=
  encFold L sid (datapktsToPtdp pkts) (newPtfr L sid, [])

/-! ### get_aligned_payload -/

/-- one yielded tuple `(p, buf, e)` -/
inductive Item where
  | pkt (p : PTDP.State)            -- (p, b"", "")
  | lengthError                     -- (None, None, PTDPLengthError)
  | remaining (buf : Bytes)         -- (None, buf, PTDPRemainingData)
  deriving Repr, DecidableEq

structure GapSt where
  buf : Bytes
  isLlp : Bool
  byteOffset : Int
  doCheck : Bool
  checkCount : Nat
  deriving Repr

/-- result of running the generator: yielded tuples, the arguments of the `check_offsets` calls it
    made (in order), and the exception it raised, if any -/
structure GapOut where
  items : List Item
  checks : List Int
  raised : Option Err
  deriving Repr

def GapOut.cons (i : Item) (c : List Int) (o : GapOut) : GapOut :=
  { o with items := i :: o.items, checks := c ++ o.checks }

/-- the offset bookkeeping after a PTDP of `plen` bytes was decoded; returns the `check_offsets` argument, if called -/
def bookkeep (st : GapSt) (plen : Int) : GapSt × List Int :=
  if !st.isLlp && st.doCheck && decide (st.byteOffset ≥ 0) then
    ({ st with doCheck := false, checkCount := st.checkCount + 1 }, [st.byteOffset])
  else if !st.isLlp && !st.doCheck && decide (st.checkCount < 1) then
    ({ st with doCheck := true, byteOffset := st.byteOffset + plen }, [])
  else if !st.isLlp then ({ st with byteOffset := st.byteOffset + plen }, [])
  else (st, [])

/-- after a low-latency PTDP: look at the continuation byte `nextLlp`; `rest` = bytes after the PTDP -/
def afterLlp (self : PTFR.State) (first : Bool) (rem : Option Bytes) (st1 : GapSt) (plen : Int)
    (rest : Bytes) (nextLlp : Nat) : GapSt :=
  if nextLlp == 0xFF then
    { st1 with isLlp := true, buf := rest.drop 1, byteOffset := st1.byteOffset + plen + 1 }
  else if (rem == some [] && decide (self.ptdp_offset > 0)) || first then
    { st1 with isLlp := false, buf := self.payload.drop self.ptdp_offset, doCheck := false,
               byteOffset := self.ptdp_offset, checkCount := 1 }
  else match rem with
    | none =>
      { st1 with isLlp := false, buf := rest.drop 1, byteOffset := st1.byteOffset + plen + 1 }
    | some r =>
      { st1 with isLlp := false, buf := r ++ rest.drop 1,
                 byteOffset := st1.byteOffset + plen + 1 - r.length,
                 doCheck := if r.length > 0 then false else st1.doCheck }

/-- `while aligned:` — one PTDP per iteration -/
def gapLoop (self : PTFR.State) (first : Bool) (rem : Option Bytes) : Nat → GapSt → GapOut
  | 0, _ => { items := [], checks := [], raised := some .fuel }
  | fuel + 1, st =>
    match PTDP.unpack PTDP.fresh st.buf with
    | (_, .error .ptdpLength) => { items := [.lengthError], checks := [], raised := none }
    | (_, .error .ptdpRemaining) =>
      { items := [.remaining st.buf],
        checks := if !st.isLlp && decide (st.byteOffset > 0) && st.doCheck then [st.byteOffset] else [],
        raised := none }
    | (_, .error e) => { items := [], checks := [], raised := some e }
    | (p0, .ok rest) =>
      let plen : Int := (PTDP.len p0 : Nat)
      let (st1, chk) := bookkeep st plen
      -- set the low latency flag on the current packet
      let p := { p0 with low_latency := st.isLlp }
      if st.isLlp then
        -- struct.unpack_from(">B", buf) raises struct.error on an empty buffer, before the yield
        match structUnpackFrom PTFR_gap_fmt0 rest 0 with
        | .error e => { items := [], checks := chk, raised := some e }
        | .ok [nextLlp] =>
          (gapLoop self first rem fuel (afterLlp self first rem st1 plen rest nextLlp)).cons (.pkt p) chk
        | .ok _ => { items := [], checks := chk, raised := some .struct }
      else
        (gapLoop self first rem fuel { st1 with buf := rest }).cons (.pkt p) chk

/-- `PTFR.get_aligned_payload(first_PTFR, remainder)` -/
def getAlignedPayload (self : PTFR.State) (first : Bool) (rem : Option Bytes) : GapOut :=
  let isLlp := self.llp
  let offMid := decide (self.ptdp_offset > 0) && decide (self.ptdp_offset < 0x7FF)
  let buf : Bytes :=
    if isLlp then self.payload
    else if rem.isNone && offMid then self.payload.drop self.ptdp_offset
    else if rem == some [] && offMid then self.payload.drop self.ptdp_offset
    else match rem with
      | none => if self.ptdp_offset = 0x7FF then [] else self.payload   -- mid-capture: skip a "none begins" frame
      | some r => r ++ self.payload
  let byteOffset : Int :=
    if isLlp then 0
    else match rem with
      | none => self.ptdp_offset
      | some r => -(r.length : Int)
  gapLoop self first rem (self.payload.length + (rem.getD []).length + 2)
    { buf := buf, isLlp := isLlp, byteOffset := byteOffset, doCheck := true, checkCount := 0 }

/-! ### the documented consumer loop -/

/-- what the consumer has after the frames seen so far -/
structure DecSt where
  ptdps : List PTDP.State       -- every PTDP yielded, in order
  rem : Option Bytes            -- second component of the last `(None, buf, e)` tuple
  first : Bool
  deriving Repr

/-- the consumer's treatment of one yielded tuple: `if p is not None: collect else: remainder = buf` -/
def consume (acc : List PTDP.State × Option Bytes) : Item → List PTDP.State × Option Bytes
  | .pkt p => (acc.1 ++ [p], acc.2)
  | .lengthError => (acc.1, none)
  | .remaining b => (acc.1, some b)

/-- one frame: `ptfr = PTFR(); ptfr.length = L; ptfr.unpack(frame);
    for (p, buf, e) in ptfr.get_aligned_payload(first, remainder): …; first = False` -/
def decStep (L : Nat) (st : DecSt) (frame : Bytes) : DecSt × Option Err :=
  match PTFR.unpack { PTFR.fresh with length := L } frame with
  | (_, .error e) => (st, some e)
  | (ptfr, .ok ()) =>
    let o := getAlignedPayload ptfr st.first st.rem
    let (ps, rem) := o.items.foldl consume (st.ptdps, st.rem)
    ({ ptdps := ps, rem := rem, first := false }, o.raised)

def decFold (L : Nat) : List Bytes → DecSt → DecSt × Option Err
  | [], st => (st, none)
  | f :: fs, st =>
    match decStep L st f with
    | (st', some e) => (st', some e)
    | (st', none) => decFold L fs st'

/-- decapsulate a sequence of frames, first frame `get_aligned_payload(True, b"")` -/
def decap (L : Nat) (frames : List Bytes) : DecSt × Option Err :=
  decFold L frames { ptdps := [], rem := some [], first := true }

/-! ### fragment reassembly (FIRST / MIDDLE… / LAST per low-latency flag) — the consumer's last step.
    The library has no reassembler; this is the obvious one, used by the oracle and the theorems. -/

structure Asm where
  normal : Option Bytes
  low : Option Bytes
  done : List (Bytes × Bool)
  deriving Repr

def asmStep (a : Asm) (p : PTDP.State) : Asm :=
  let cur := if p.low_latency then a.low else a.normal
  let put (a : Asm) (v : Option Bytes) : Asm :=
    if p.low_latency then { a with low := v } else { a with normal := v }
  if p.fragment == PTDP_FRAGMENT_COMPLETE then { a with done := a.done ++ [(p.payload, p.low_latency)] }
  else if p.fragment == PTDP_FRAGMENT_FIRST then put a (some p.payload)
  else if p.fragment == PTDP_FRAGMENT_MIDDLE then put a (cur.map (· ++ p.payload))
  else
    match cur with
    | some b => put { a with done := a.done ++ [(b ++ p.payload, p.low_latency)] } none
    | none => a

def reassemble (ps : List PTDP.State) : List (Bytes × Bool) :=
  (ps.foldl asmStep { normal := none, low := none, done := [] }).done

end Acra.Model.Chapter7
