/-
  Model of AcraNetwork/iNET.py: iNETPackage and iNET.  Hand-written, statement by statement;
  constants from Acra.Gen.iNET.
-/
import Acra.Py.Struct
import Acra.Py.Records
import Acra.Gen.iNET
namespace Acra.Model.iNET
open Acra.Py Acra.Gen.iNET

/-- `iNETPackage`; `length` is the private `_length` (written by both pack and unpack, read by neither) -/
structure Pkg where
  definitionID : Nat
  flags : Nat
  length : Nat
  timedelta : Nat
  payload : Bytes
  deriving Repr, DecidableEq

def Pkg.fresh : Pkg := { definitionID := 0, flags := 0, length := 0, timedelta := 0, payload := [] }

/-- `n * PAD_BYTE` -/
def padBytes (n : Nat) : Bytes := (List.replicate n PKG_PAD_BYTE).flatten

/-- `iNETPackage.pack` -/
def Pkg.pack (p : Pkg) : Pkg × R Bytes :=
  let padding := if p.payload.length % 4 ≠ 0 then padBytes (4 - p.payload.length % 4) else []
  let p' := { p with length := PKG_FORMAT_LEN + p.payload.length }
  match structPack PKG_FORMAT [p'.definitionID, p'.length, 0, p'.flags, p'.timedelta] with
  | .ok h => (p', .ok (h ++ p'.payload ++ padding))
  | .error e => (p', .error e)

/-- `iNETPackage.unpack`: returns the unused rest of the buffer -/
def Pkg.unpack (p : Pkg) (buf : Bytes) : Pkg × R Bytes :=
  match structUnpackFrom PKG_FORMAT buf 0 with
  | .ok [d, l, _res, f, t] =>
    let p1 := { p with definitionID := d, length := l, flags := f, timedelta := t }
    if l < PKG_FORMAT_LEN then (p1, .error .value) else
    let p2 := { p1 with payload := slice buf PKG_FORMAT_LEN l }
    let padding_len := if l % 4 ≠ 0 then 4 - l % 4 else 0
    (p2, .ok (buf.drop (l + padding_len)))
  | .ok _ => (p, .error .struct)
  | .error e => (p, .error e)

structure State where
  flags : Nat
  type : Nat
  option_wc : Nat            -- `_option_wc`
  version : Nat
  definition_ID : Nat
  sequence : Nat
  length : Nat               -- `_length`
  ptptimeseconds : Nat
  ptptimenanoseconds : Nat
  app_fields : List Nat
  payload : Bytes            -- `_payload`
  packages : List Pkg
  deriving Repr, DecidableEq

def fresh : State :=
  { flags := 0, type := 0, option_wc := 0, version := INET_DEFAULT_VERSION, definition_ID := 0, sequence := 0,
    length := 0, ptptimeseconds := 0, ptptimenanoseconds := 0, app_fields := [], payload := [], packages := [] }

/-- `for pkg in self.packages: self._payload += pkg.pack()`; each `pack` rewrites the package's `_length` -/
def packPkgs : List Pkg → List Pkg × R Bytes
  | [] => ([], .ok [])
  | p :: ps =>
    match p.pack with
    | (p', .error e) => (p' :: ps, .error e)
    | (p', .ok b) =>
      match packPkgs ps with
      | (ps', .ok bs) => (p' :: ps', .ok (b ++ bs))
      | (ps', .error e) => (p' :: ps', .error e)

/-- `iNET.pack` -/
def pack (s : State) : State × R Bytes :=
  let wc_ver := s.app_fields.length + (s.version <<< 4)
  match packPkgs s.packages with
  | (pk, .error e) => ({ s with packages := pk }, .error e)      -- `_payload` partly rebuilt: unspecified
  | (pk, .ok pl) =>
    let s' := { s with packages := pk, payload := pl,
                       length := pl.length + INET_HEADER_LENGTH + s.app_fields.length * 4 }
    match structPack INET_HEADER_FORMAT
        [wc_ver, s'.type, s'.flags, s'.definition_ID, s'.sequence, s'.length, s'.ptptimeseconds,
         s'.ptptimenanoseconds] with
    | .error e => (s', .error e)
    | .ok h =>
      if s'.app_fields.length > 0 then
        match structPack (iNET_pack_fmt0 s'.app_fields.length) s'.app_fields with
        | .error e => (s', .error e)
        | .ok a => (s', .ok (h ++ a ++ s'.payload))
      else (s', .ok (h ++ s'.payload))

/-- one iteration of `while len(package_buf) > 0`: a new package decodes the front of the buffer; the
    loop continues after its declared length rounded up to four bytes -/
def decPkg (rem : Bytes) : R (Pkg × Nat) :=
  match Pkg.unpack Pkg.fresh rem with
  | (p, .ok _) => .ok (p, p.length + (if p.length % 4 ≠ 0 then 4 - p.length % 4 else 0))
  | (_, .error e) => .error e

def moreRem (off len : Nat) : Bool := decide (0 < len - off)

/-- `iNET.unpack` -/
def unpack (s : State) (buf : Bytes) : State × R Unit :=
  if buf.length < INET_HEADER_LENGTH then (s, .error .value) else
  match structUnpackFrom INET_HEADER_FORMAT buf 0 with
  | .ok [wv, ty, fl, di, sq, ln, ps, pn] =>
    let s1 := { s with flags := fl, definition_ID := di, sequence := sq, length := ln, ptptimeseconds := ps,
                       ptptimenanoseconds := pn, type := ty &&& 0xF, option_wc := wv &&& 0xF,
                       version := (wv >>> 4) &&& 0xF }
    match (if s1.option_wc > 0 then
             structUnpackFrom (iNET_unpack_fmt0 s1.option_wc) (buf.drop INET_HEADER_LENGTH) 0
           else .ok []) with
    | .error e => (s1, .error e)
    | .ok af =>
      let s2 := { s1 with app_fields := af, packages := [],
                          payload := buf.drop (INET_HEADER_LENGTH + s1.option_wc * 4) }
      match decOff decPkg moreRem s2.payload (s2.payload.length + 1) 0 with
      | .ok pk => ({ s2 with packages := pk }, .ok ())
      | .error e => (s2, .error e)
  | .ok _ => (s, .error .struct)
  | .error e => (s, .error e)

/-- `iNET.__eq__` for an iNET operand: REQ_ATTR in order; for `_payload` the concatenated encodings
    of the packages are compared (which can raise `struct.error`) -/
def eq (a b : State) : R Bool :=
  if a.flags ≠ b.flags then .ok false else
  if a.type ≠ b.type then .ok false else
  if a.version ≠ b.version then .ok false else
  if a.definition_ID ≠ b.definition_ID then .ok false else
  if a.sequence ≠ b.sequence then .ok false else
  if a.ptptimeseconds ≠ b.ptptimeseconds then .ok false else
  if a.ptptimenanoseconds ≠ b.ptptimenanoseconds then .ok false else
  if a.app_fields ≠ b.app_fields then .ok false else
  match (packPkgs a.packages).2 with
  | .error e => .error e
  | .ok pa =>
    match (packPkgs b.packages).2 with
    | .error e => .error e
    | .ok pb => .ok (pa == pb)

end Acra.Model.iNET
