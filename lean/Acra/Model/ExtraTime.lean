/-
  Model of the pure conversion functions of AcraNetwork/ptptime.py and AcraNetwork/nanotime.py
  (everything that does not read the wall clock, the locale or the random generator):

    ptptime.py   getLeapYear, intTobcdConvert, bcdTointConvert, digitSplit,
                 ptptime.total_seconds / .ptp / .iena / .sbi / .irigtime(),
                 timefromptp, timefromsbi, timefromiena
    nanotime.py  timedelta.__new__ (the nanosecond carry), nanotime.__add__ (time + delta),
                 nanotime.__sub__ of two times (through `total_seconds`)

  As written, in Python 3: `/` is true division, so `digitSplit` returns floats, `int(x / 1000)`,
  `int(ns / 1000.0)`, `timedelta.total_seconds()` and `utcfromtimestamp(float)` go through binary64
  (`Acra.Py.Float.rne`, compared bit for bit with CPython by the correspondence check).  Negative values
  use the sign symmetry of IEEE arithmetic (`rneI`).  `datetime` arithmetic uses the day-number functions
  of `Model/Ch11TimeFmt.lean`.
-/
import Acra.Py.Float
import Acra.Model.Ch11TimeFmt
import Acra.Model.ExtraMpeg
import Acra.Gen.ExtraTime
namespace Acra.Model.ExtraTime
open Acra.Py Acra.Py.Float Acra.Gen.ExtraTime Acra.Model.Ch11Pay.TimeFmt
open Acra.Model.Extra (DT splitSeconds)

/-! ### helpers: signed binary64 steps -/

/-- round to nearest binary64 for a rational of either sign -/
def rneI (q : Rat) : Rat := if q < 0 then -(rne (-q)) else rne q

/-- Python `int(x)` for a float of either sign: truncation toward zero -/
def truncI (x : Rat) : Int := if x < 0 then -((floorNat (-x) : Nat) : Int) else ((floorNat x : Nat) : Int)

/-- `int(n / d)` with Python 3 true division of the int `n` by the positive number `d` (an int or an
    integer-valued float literal such as `1000.0`): one correctly rounded quotient, then truncation -/
def intDivF (n : Int) (d : Nat) : Int := truncI (rneI ((n : Rat) / (d : Rat)))

/-- `int(n / d)` where `d` is a float literal (`1000.0`): the int is converted to binary64 first (a second
    rounding, visible from 2^53 upwards), then divided -/
def intDivFF (n : Int) (d : Nat) : Int := truncI (rneI (rneI (n : Rat) / (d : Rat)))

/-! ### ptptime.py module functions -/

/-- `getLeapYear(t)`, which reads `t.year` only; the conditions are the ones in the source
    (`>= 1999 or <= 2000` is always true once the first test failed) -/
def getLeapYear (y : Nat) : Nat :=
  if y ≤ 1972 then 1
  else if y ≥ 1999 ∨ y ≤ 2000 then 32
  else if y ≥ 2013 ∨ y ≤ 2016 then 35
  else 0

/-- `bcdTointConvert(a)`: `while not 0 == a: b += (a & 0xf) * 10**i; a >>= 4; i += 1` -/
def bcdToIntLoop : Nat → Nat → Nat → Nat → Nat
  | 0, _, b, _ => b
  | fuel + 1, a, b, i => if a = 0 then b else bcdToIntLoop fuel (a >>> 4) (b + (a &&& 0xf) * 10 ^ i) (i + 1)

def bcdToInt (a : Nat) : Nat := bcdToIntLoop (a + 1) a 0 0

/-- `digitSplit(a, length)`: `(a / 10**i) % 10` for `i = 0 … length-1` — floats -/
def digitSplit (a len : Nat) : List Rat :=
  (List.range len).map fun i =>
    let q := rne ((a : Rat) / ((10 ^ i : Nat) : Rat))       -- int / int: one rounding
    q - ((10 * (q / 10).floor.toNat : Nat) : Rat)          -- float `%`, exact

/-- `intTobcdConvert(a)` on a dict given as (shift, value) pairs: `b |= int(a[kw]) << int(kw)` -/
def intToBcd (kvs : List (Nat × Nat)) : Nat := kvs.foldl (fun b kv => b ||| (kv.2 <<< kv.1)) 0

/-- the idiom `a = digitSplit(x, 4); intTobcdConvert({12: a[3], 8: a[2], 4: a[1], 0: a[0]})` -/
def bcd4 (x : Nat) : Nat :=
  match (digitSplit x 4).map floorNat with
  | [a0, a1, a2, a3] => intToBcd [(12, a3), (8, a2), (4, a1), (0, a0)]
  | _ => 0

/-! ### nanotime.timedelta -/

/-- the object `nanotime.timedelta(days=…, seconds=…, microseconds=…, nanoseconds=…)` -/
structure TD where
  days : Int
  seconds : Nat
  microseconds : Nat
  nanoseconds : Nat
  deriving Repr, DecidableEq

/-- the microsecond / nanosecond pair after `timedelta.__new__`'s carry -/
def tdCarry (us ns : Int) : Int × Nat :=
  let us1 := if ns < 0 then us - 1 else us
  (us1 + intDivFF ns 1000, (ns % 1000).toNat)

/-- `datetime.timedelta` normalisation of a microsecond total; `OverflowError` beyond ±999999999 days -/
def tdOfMicros (total : Int) (ns : Nat) : R TD :=
  let days := total / 86400000000          -- floor division (`Int./` rounds toward −∞ for a positive divisor)
  let rest := (total % 86400000000).toNat
  if days < -999999999 ∨ 999999999 < days then .error .overflow
  else .ok { days := days, seconds := rest / 1000000, microseconds := rest % 1000000, nanoseconds := ns }

def tdMake (days seconds us ns : Int) : R TD :=
  let (us', ns') := tdCarry us ns
  tdOfMicros ((days * 86400 + seconds) * 1000000 + us') ns'

/-- `timedelta.total_seconds()` -/
def TD.totalSeconds (d : TD) : Rat :=
  rneI ((((d.days * 86400 + d.seconds) * 1000000 + d.microseconds : Int) : Rat) / 1000000)

/-! ### ptptime objects -/

/-- the `leapyear` attribute: `False` / `True` or an int (other types are outside the model) -/
inductive Leap where
  | flag (b : Bool)
  | int (n : Int)
  deriving Repr, DecidableEq

/-- what `seconds += self.leapyear` adds: `isinstance(x, int)` holds for `bool` too, so `True` adds 1 and
    the branch `elif self.leapyear: seconds += getLeapYear(self)` is dead for every value in the model -/
def Leap.toInt : Leap → Int
  | .flag b => if b then 1 else 0
  | .int n => n

structure PT where
  year : Nat
  month : Nat
  day : Nat
  hour : Nat
  minute : Nat
  second : Nat
  microsecond : Nat
  nanosecond : Nat
  leap : Leap
  deriving Repr, DecidableEq

/-- the `datetime` constructor accepts the fields (`ValueError` otherwise); `nanosecond` is not checked -/
def PT.valid (t : PT) : Bool :=
  validDate t.year t.month t.day t.hour t.minute t.second && t.microsecond < 1000000

/-- whole seconds from 1970-01-01T00:00:00 to the time's y-m-d h:m:s -/
def PT.epochSeconds (t : PT) : Int := toTimestamp t.year t.month t.day t.hour t.minute t.second

/-- `self - ptptime.utcfromtimestamp(0)`: `nanotime.__sub__` of two times builds
    `timedelta(seconds=(d0 - d1).total_seconds(), microseconds=Δµs, nanoseconds=Δns)` -/
def PT.sinceEpoch (t : PT) : R TD := tdMake 0 t.epochSeconds t.microsecond t.nanosecond

/-- `int((self - ptptime.utcfromtimestamp(0)).total_seconds())` -/
def PT.baseSeconds (t : PT) : R Int :=
  match t.sinceEpoch with
  | .error e => .error e
  | .ok d => .ok (truncI d.totalSeconds)

/-- the `total_seconds` property of ptptime (nanotime's has no leap term) -/
def PT.totalSeconds (t : PT) : R Int :=
  match t.baseSeconds with
  | .error e => .error e
  | .ok s => .ok (s + t.leap.toInt)

/-- `(total_seconds << 32) | (microsecond * 1000 + nanosecond)` for a non-negative `total_seconds` -/
def ptpWord (total us ns : Nat) : Nat := (total <<< 32) ||| (us * 1000 + ns)

def PT.ptp (t : PT) : R Int :=
  match t.totalSeconds with
  | .error e => .error e
  | .ok s =>
    if 0 ≤ s then .ok (ptpWord s.toNat t.microsecond t.nanosecond : Nat)
    else .ok (s * 4294967296 + ((t.microsecond * 1000 + t.nanosecond : Nat) : Int))   -- low word below 2^32: `|` is `+`

/-- `iena`: microseconds since the start of the time's own year -/
def PT.iena (t : PT) : R Int :=
  let t0 : PT := { year := t.year, month := 1, day := 1, hour := 0, minute := 0, second := 0,
                   microsecond := 0, nanosecond := 0, leap := .flag false }
  match t.totalSeconds, t0.totalSeconds with
  | .ok a, .ok b => .ok ((a - b) * 1000000 + t.microsecond)
  | .error e, _ => .error e
  | _, .error e => .error e

/-- `datetime.weekday()`: Monday = 0 -/
def PT.weekday (t : PT) : Nat := (daysFromCivil t.year t.month t.day + 2) % 7

def PT.timeMicro (t : PT) : Nat := bcd4 (t.microsecond % 10000)
def PT.timeLo (t : PT) : Nat := bcd4 (t.second * 100 + (intDivF t.microsecond 10000).toNat)
def minuteHourPairs (t : PT) : List (Nat × Nat) :=
  match (digitSplit t.minute 2).map floorNat, (digitSplit t.hour 2).map floorNat with
  | [a0, a1], [b0, b1] => [(11, b1), (7, b0), (4, a1), (0, a0)]
  | _, _ => []

/-- `irigtime()`: (time_hi, time_lo, time_micro) -/
def PT.irigtime (t : PT) : List Nat := [intToBcd (minuteHourPairs t), t.timeLo, t.timeMicro]

/-- the `sbi` property: 80 bits, `UxDay ‖ DayOfYr ‖ time_hi ‖ time_lo ‖ time_micro` -/
def PT.sbi (t : PT) : R Nat :=
  match t.sinceEpoch with
  | .error e => .error e
  | .ok d =>
    let hi := intToBcd ((13, t.weekday) :: minuteHourPairs t)
    let doy := bcd4 (dayOfYear t.year t.month t.day)
    let days := truncI (rneI (d.totalSeconds / 86400))
    if days < 0 then .error .fuel else          -- dates before 1970 are outside the model
    .ok ((t.timeMicro &&& 0xffff) ||| ((t.timeLo &&& 0xffff) <<< 16) ||| ((hi &&& 0xffff) <<< 32)
         ||| ((doy &&& 0xffff) <<< 48) ||| ((days.toNat &&& 0xffff) <<< 64))

/-! ### the three decoders -/

def ptOfDate (x : Nat × Nat × Nat × Nat × Nat × Nat) (us ns : Nat) (leap : Leap) : PT :=
  { year := x.1, month := x.2.1, day := x.2.2.1, hour := x.2.2.2.1, minute := x.2.2.2.2.1,
    second := x.2.2.2.2.2, microsecond := us, nanosecond := ns, leap := leap }

abbrev Date := Nat × Nat × Nat × Nat × Nat × Nat

/-- last part of `timefromptp`: `t = ptptime.utcfromtimestamp(total_seconds)` has been evaluated (`r`);
    `t.replace(microsecond=int(x/1000))`, `t.nanosecond = int(x % 1000)`, `t.leapyear = leapyear` -/
def tfpFinish (r : R Date) (x : Nat) (leapyear : Int) : R PT :=
  match r with
  | .error e => .error e
  | .ok date =>
    if 1000000 ≤ (intDivF x 1000).toNat then .error .value
    else .ok (ptOfDate date (intDivF x 1000).toNat (x % 1000) (.int leapyear))

/-- middle part: `t = datetime.datetime.utcfromtimestamp(total_seconds)` has been evaluated (`r0`); the leap
    offset is subtracted and the second conversion (`conv`) is made.  (The two calendar conversions are passed
    in as values so that proofs can rewrite them before any `match` is reduced.) -/
def tfpOffset (r0 : R Date) (conv : Int → R Date) (T x : Nat) (leapyear : Int) : R PT :=
  match r0 with
  | .error e => .error e
  | .ok date0 =>
    tfpFinish (conv (if leapyear ≤ -1 then (T : Int) - getLeapYear date0.1 else (T : Int) - leapyear)) x leapyear

/-- `timefromptp` after the two halves of the word were separated: `T = p >> 32`, `x = p & 0xffffffff` -/
def timefromptpParts (T x : Nat) (leapyear : Int) : R PT :=
  tfpOffset (fromTimestamp (T : Int)) fromTimestamp T x leapyear

/-- `timefromptp(p, leapyear)` for `0 ≤ p`, `leapyear` an int -/
def timefromptp (p : Nat) (leapyear : Int) : R PT := timefromptpParts (p >>> 32) (p &&& 0xffffffff) leapyear

def ptOfDT (d : DT) : PT :=
  { year := d.year, month := d.month, day := d.day, hour := d.hour, minute := d.minute, second := d.second,
    microsecond := d.microsecond, nanosecond := 0, leap := .flag false }

/-- `ptptime.utcfromtimestamp(x)` for a non-negative float -/
def utcFromFloat (x : Rat) : R PT :=
  match Acra.Model.Extra.fromTimestampF x with
  | .error e => .error e
  | .ok d => .ok (ptOfDT d)

/-- `timefromsbi(s)` (default `leapyear=False`) -/
def timefromsbi (s : Nat) : R PT :=
  let micro := bcdToInt (s &&& 0xffffff)
  let seconds := bcdToInt ((s >>> 24) &&& 0xff)
  let minutes := bcdToInt ((s >>> 32) &&& 0x7f)
  let hours := bcdToInt ((s >>> 39) &&& 0x3f)
  let whole := (((s >>> 64) * 24 + hours) * 60 + minutes) * 60 + seconds
  utcFromFloat (fadd (ofNat whole) (fdiv (ofNat micro) 1000000))

/-- `timefromiena(i, year)` for `0 ≤ i`, `1970 ≤ year` -/
def timefromiena (i year : Nat) : R PT :=
  utcFromFloat (fadd (fdiv (ofNat i) 1000000) (ofNat ((year - 1970) * IENA_SECONDS_PER_YEAR)))

/-! ### nanotime.__add__ -/

/-- `nanotime(y, …, us, ns) + timedelta`: the `datetime` sum, then the nanosecond carry into a microsecond
    field that the constructor range-checks (`ValueError` when the carry makes it 1 000 000) -/
def ntAdd (t : PT) (d : TD) : R PT :=
  let total : Int := (t.epochSeconds + d.days * 86400 + d.seconds) * 1000000 + t.microsecond + d.microseconds
  match fromTimestamp (total / 1000000) with
  | .error _ => .error .overflow                      -- "date value out of range"
  | .ok date =>
    let cus := (total % 1000000).toNat
    let nsum := d.nanoseconds + t.nanosecond
    let us := cus + (intDivFF nsum 1000).toNat
    if 1000000 ≤ us then .error .value
    else .ok (ptOfDate date us (nsum % 1000) (.flag false))

end Acra.Model.ExtraTime
