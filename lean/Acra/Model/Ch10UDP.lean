/-
  Model of AcraNetwork/IRIG106/Chapter10/Chapter10UDP.py (class Chapter10UDP), statement by statement.
  Constants come from Acra.Gen.Ch10UDP (regenerated from the source on every run).

  Quirks reproduced on purpose (see notes/ch10.md):
  * `unpack` decides the format from the low nibble of byte 0 — in the big-endian format 2 that is
    bits 19..16 of the sequence number (known finding K1);
  * `unpack` of a format-1 segmented header raises a bare `Exception` (the code after the `raise` is dead);
  * `format` is an alias of `version`; `pack` accepts any version (other values give the 4-byte
    format-1 layout with no extension);
  * `pack` in format 2 overwrites `packetsize` with `len(payload) // 4`;
  * in format 3 the type field is the source-id length.
-/
import Acra.Py.Struct
import Acra.Gen.Ch10UDP
namespace Acra.Model.Ch10UDP
open Acra.Py Acra.Gen.Ch10UDP

structure State where
  version : Nat
  type : Nat
  channelID : Nat
  channelsequence : Nat
  sequence : Nat
  segmentoffset : Nat
  packetsize : Option Nat
  sourceid_len : Nat
  sourceid : Nat
  offset_pkt_start : Option Nat
  payload : Bytes
  deriving Repr, DecidableEq

def fresh : State :=
  { version := DEFAULT_VERSION, type := TYPE_FULL, channelID := 0, channelsequence := 0, sequence := 0,
    segmentoffset := 0, packetsize := none, sourceid_len := 0, sourceid := 0, offset_pkt_start := none,
    payload := [] }

/-- the 32-bit `source id ‖ sequence` word of format 3 (`pack`); `none` = "Invalid source id" -/
def srcField (s : State) : Option Nat :=
  if s.sourceid_len = 0 then some s.sequence
  else if s.sourceid_len = 1 then some ((s.sequence &&& 0x0FFFFFFF) + (s.sourceid <<< (32 - 4)))
  else if s.sourceid_len = 2 then some ((s.sequence &&& 0x00FFFFFF) + (s.sourceid <<< (32 - 8)))
  else if s.sourceid_len = 3 then some ((s.sequence &&& 0x000FFFFF) + (s.sourceid <<< (32 - 12)))
  else if s.sourceid_len = 4 then some ((s.sequence &&& 0x0000FFFF) + (s.sourceid <<< (32 - 16)))
  else none

/-- `Chapter10UDP.pack` -/
def pack (s : State) : State × R Bytes :=
  -- _ver_type, seg_up, seg_lr
  let vt := if s.version = 3 then (s.sourceid_len <<< 4) + s.version else (s.type <<< 4) + s.version
  let segUp : Option Nat := if s.version = 3 then s.offset_pkt_start else some (s.sequence >>> 8)
  let segLr := if s.version = 3 then 0 else s.sequence &&& 0xFF
  match segUp with
  | none => (s, .error .struct)            -- struct.pack with a None argument
  | some segUp =>
    let first := if s.version = 2 then structPack CH10_UDP_HEADER_FORMAT2 [segUp, segLr, vt]
                 else structPack CH10_UDP_HEADER_FORMAT1 [vt, segLr, segUp]
    match first with
    | .error e => (s, .error e)
    | .ok hdr =>
      if s.type = TYPE_SEG ∧ s.version = 1 then
        match structPack CH10_UDP_SEG_HEADER_FORMAT1 [s.channelID, s.channelsequence, 0, s.segmentoffset] with
        | .error e => (s, .error e)
        | .ok seg => (s, .ok (hdr ++ seg ++ s.payload))
      else if s.version = 2 then
        let ps := s.payload.length / 4
        let s' := { s with packetsize := some ps }
        match structPack UDP_pack_fmt0
            [s.segmentoffset >>> 16, ps >>> 16, ps &&& 0xFFFF, s.segmentoffset &&& 0xFFFF, s.channelID] with
        | .error e => (s', .error e)
        | .ok ext => (s', .ok (hdr ++ ext ++ s.payload))
      else if s.version = 3 then
        match srcField s with
        | none => (s, .error .generic)
        | some f =>
          match structPack UDP_pack_fmt1 [f] with
          | .error e => (s, .error e)
          | .ok ext => (s, .ok (hdr ++ ext ++ s.payload))
      else (s, .ok (hdr ++ s.payload))

/-- the format-3 split of the 32-bit word (`unpack`); `none` = "Source id length … is not valid" -/
def srcSplit (len w : Nat) : Option (Nat × Nat) :=      -- (sourceid, sequence)
  if len = 0 then some (0, w)
  else if len = 1 then some (w >>> (32 - 4), w &&& 0x0FFFFFFF)
  else if len = 2 then some (w >>> (32 - 8), w &&& 0x00FFFFFF)
  else if len = 3 then some (w >>> (32 - 12), w &&& 0x000FFFFF)
  else if len = 4 then some (w >>> (32 - 16), w &&& 0x0000FFFF)
  else none

/-- `Chapter10UDP.unpack` -/
def unpack (s : State) (buf : Bytes) : State × R Unit :=
  match structUnpackFrom CH10_UDP_HEADER_FORMAT1 buf 0 with
  | .error e => (s, .error e)
  | .ok [vt, segLwr, segUpr] =>
    -- fields that the format being decoded does not carry go back to their defaults
    let s0 := { s with channelID := 0, channelsequence := 0, sequence := 0, segmentoffset := 0,
                       packetsize := none, sourceid_len := 0, sourceid := 0, offset_pkt_start := none }
    if vt &&& 0xF = 1 then
      let s1 := { s0 with version := 1, type := vt >>> 4, sequence := segLwr + (segUpr <<< 8) }
      if s1.type = TYPE_SEG then (s1, .error .generic)          -- "No Supported"
      else ({ s1 with payload := buf.drop CH10_UDP_HEADER_LENGTH }, .ok ())
    else if vt &&& 0xF = 3 then
      let s1 := { s0 with version := 3, type := vt >>> 4, sourceid_len := vt >>> 4,
                          offset_pkt_start := some segUpr }
      match structUnpackFrom UDP_unpack_fmt2 buf 4 with
      | .error e => (s1, .error e)
      | .ok [w] =>
        match srcSplit s1.sourceid_len w with
        | none => (s1, .error .generic)
        | some (sid, sq) =>
          ({ s1 with sourceid := sid, sequence := sq, payload := buf.drop (CH10_UDP_HEADER_LENGTH + 4) }, .ok ())
      | .ok _ => (s1, .error .struct)
    else
      let s1 := { s0 with version := 2 }
      match structUnpackFrom CH10_UDP_HEADER_FORMAT2 buf 0 with
      | .error e => (s1, .error e)
      | .ok [segUpr2, segLwr2, vt2] =>
        match structUnpackFrom UDP_unpack_fmt0 buf 5 with
        | .error e => (s1, .error e)
        | .ok _ =>
          let s2 := { s1 with type := vt2 >>> 4, sequence := segLwr2 + (segUpr2 <<< 8) }
          match structUnpackFrom UDP_unpack_fmt1 buf 4 with
          | .error e => (s2, .error e)
          | .ok [soU, szU, szL, soL, ch] =>
            ({ s2 with channelID := ch, packetsize := some (szL + (szU <<< 16)),
                       segmentoffset := soL + (soU <<< 16),
                       payload := buf.drop (CH10_UDP_HEADER_LENGTH + 8) }, .ok ())
          | .ok _ => (s2, .error .struct)
      | .ok _ => (s1, .error .struct)
  | .ok _ => (s, .error .struct)

/-- `Chapter10UDP.__eq__` for two Chapter10UDP operands: the attribute list depends on self's format -/
def eq (a b : State) : Bool :=
  if a.type = TYPE_SEG ∧ a.version = 1 then
    a.version == b.version && a.type == b.type && a.sequence == b.sequence && a.channelID == b.channelID &&
    a.channelsequence == b.channelsequence && a.segmentoffset == b.segmentoffset && a.payload == b.payload
  else if a.version = 2 then
    a.version == b.version && a.type == b.type && a.sequence == b.sequence && a.channelID == b.channelID &&
    a.channelsequence == b.channelsequence && a.segmentoffset == b.segmentoffset &&
    a.packetsize == b.packetsize && a.payload == b.payload
  else if a.version = 3 then
    a.version == b.version && a.sourceid_len == b.sourceid_len && a.sourceid == b.sourceid &&
    a.sequence == b.sequence && a.offset_pkt_start == b.offset_pkt_start && a.payload == b.payload
  else
    a.version == b.version && a.type == b.type && a.sequence == b.sequence && a.payload == b.payload

end Acra.Model.Ch10UDP
