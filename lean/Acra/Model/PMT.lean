/-
  Model of AcraNetwork/MPEG/PMT.py: DescriptorTag (`Desc`), PMTStream (`Stream`), crc32mpeg2 and
  MPEGPacketPMT (`PMT`, a subclass of MPEGPacket: the base-class state is the field `pkt`).
-/
import Acra.Py.Struct
import Acra.Model.MPEGTS
import Acra.Gen.PMT
namespace Acra.Model.PMT
open Acra.Py Acra.Gen.PMT Acra.Model.MPEGTS

/-! ### crc32mpeg2 — as written: the register is an unbounded Python int, masked once at the end.
    `crc & 0x80000000` is bit 31 (`crc / 2^31 % 2`), `crc << 1` is `crc * 2`. -/

def crcShift (crc : Nat) : Nat :=
  if crc / 2147483648 % 2 = 1 then (crc * 2) ^^^ 0x04C11DB7 else crc * 2

def crcByte (crc : Nat) (b : UInt8) : Nat :=
  crcShift (crcShift (crcShift (crcShift (crcShift (crcShift (crcShift (crcShift
    (crc ^^^ (b.toNat * 16777216)))))))))

def crc32mpeg2 (msg : Bytes) : Nat := (msg.foldl crcByte 0xFFFFFFFF) % 4294967296

/-! ### DescriptorTag -/

structure Desc where
  tag : Option Nat          -- `None` until assigned
  data : Bytes
  deriving Repr, DecidableEq

def Desc.fresh : Desc := { tag := none, data := [] }

/-- `DescriptorTag.unpack`: returns the remainder -/
def Desc.unpack (buffer : Bytes) : R (Desc × Bytes) :=
  match structUnpackFrom DescriptorTag_FMT buffer 0 with
  | .error e => .error e
  | .ok [tag, len] =>
    .ok ({ tag := some tag, data := slice buffer DescriptorTag_FMT.size (DescriptorTag_FMT.size + len) },
         buffer.drop (DescriptorTag_FMT.size + len))
  | .ok _ => .error .struct

/-- `DescriptorTag.pack` (`tag is None` is not an integer: `struct.error`) -/
def Desc.pack (d : Desc) : R Bytes :=
  match d.tag with
  | none => .error .struct
  | some t =>
    match structPack DescriptorTag_FMT [t, d.data.length] with
    | .ok h => .ok (h ++ d.data)
    | .error e => .error e

/-- `DescriptorTag.__len__` -/
def Desc.len (d : Desc) : Nat :=
  match d.tag with
  | none => 0
  | some _ => 2 + d.data.length

/-! ### PMTStream -/

structure Stream where
  streamtype : Nat
  elementary_pid : Nat
  elementary_stream_descriptors : Bytes
  deriving Repr, DecidableEq

def Stream.fresh : Stream := { streamtype := 0, elementary_pid := 0, elementary_stream_descriptors := [] }

def Stream.unpack (buffer : Bytes) : R (Stream × Bytes) :=
  match structUnpackFrom PMTStream_FMT buffer 0 with
  | .error e => .error e
  | .ok [st, pid, len] =>
    let esLen := len % 4096
    .ok ({ streamtype := st, elementary_pid := pid % 8192,
           elementary_stream_descriptors := slice buffer PMTStream_FMT.size (PMTStream_FMT.size + esLen) },
         buffer.drop (esLen + PMTStream_FMT.size))
  | .ok _ => .error .struct

def Stream.pack (s : Stream) : R Bytes :=
  match structPack PMTStream_FMT [s.streamtype, s.elementary_pid + 0xE000,
      s.elementary_stream_descriptors.length + 0xF000] with
  | .ok h => .ok (h ++ s.elementary_stream_descriptors)
  | .error e => .error e

def Stream.len (s : Stream) : Nat := PMTStream_FMT.size + s.elementary_stream_descriptors.length

/-! ### MPEGPacketPMT -/

structure PMT where
  pkt : Pkt
  tableid : Nat
  syntax_indicator : Nat
  program_number : Nat
  version : Nat
  current_next_indicator : Nat
  sectionNo : Nat
  last_section : Nat
  pcr_pid : Nat
  program_info_len : Nat
  streams : List Stream
  descriptor_tags : List Desc
  crc : Option Nat           -- `_crc`
  deriving Repr, DecidableEq

def PMT.fresh : PMT :=
  { pkt := Pkt.fresh, tableid := 0, syntax_indicator := 0, program_number := 0, version := PMT_DEFAULT_VERSION,
    current_next_indicator := 0, sectionNo := 0, last_section := 0, pcr_pid := 0, program_info_len := 0,
    streams := [], descriptor_tags := [], crc := none }

/-- `while len(descriptor_tag_buffer) > 0:` -/
def decDescs : Nat → Bytes → R (List Desc)
  | 0, _ => .error .fuel
  | fuel + 1, buf =>
    if 0 < buf.length then
      match Desc.unpack buf with
      | .error e => .error e
      | .ok (d, rest) =>
        match decDescs fuel rest with
        | .ok ds => .ok (d :: ds)
        | .error e => .error e
    else .ok []

/-- `while len(stream_buf) > CRC_LEN:`; returns the streams and what is left of the buffer -/
def decStreams : Nat → Bytes → R (List Stream × Bytes)
  | 0, _ => .error .fuel
  | fuel + 1, buf =>
    if PMT_CRC_LEN < buf.length then
      match Stream.unpack buf with
      | .error e => .error e
      | .ok (s, rest) =>
        match decStreams fuel rest with
        | .ok (ss, left) => .ok (s :: ss, left)
        | .error e => .error e
    else .ok ([], buf)

/-- `MPEGPacketPMT.unpack`: returns False on a CRC mismatch, True otherwise.
    All offsets are natural numbers: with `o = 13 + pointer + program_info_len` the Python
    expressions `stream_len + _offset` and `_offset + stream_len - CRC_LEN` equal
    `_len + 4 + pointer` and `_len + pointer` whatever the sign of `stream_len`. -/
def PMT.unpack (t : PMT) (buf : Bytes) : PMT × R Bool :=
  match Pkt.unpack t.pkt buf with
  | (p, .error e) => ({ t with pkt := p }, .error e)
  | (p, .ok ()) =>
    let t := { t with pkt := p }
    match structUnpackFrom PMT_FMT_POINTER p.payload 0 with
    | .error e => (t, .error e)
    | .ok [pointer] =>
      match structUnpackFrom PMT_FMT p.payload (PMT_FMT_POINTER.size + pointer) with
      | .error e => (t, .error e)
      | .ok [tableid, pmt, prog, ver, sec, lastsec, pcr, pil] =>
        let len := pmt % 4096
        let t := { t with tableid := tableid, program_number := prog, sectionNo := sec, last_section := lastsec,
                          syntax_indicator := pmt / 32768, version := ver / 2 % 32,
                          current_next_indicator := ver % 2, pcr_pid := pcr % 8192,
                          program_info_len := pil % 4096, descriptor_tags := [], streams := [] }
        let off0 := PMT_FMT.size + PMT_FMT_POINTER.size + pointer
        let dbuf := slice p.payload off0 (off0 + t.program_info_len)
        match (if 0 < t.program_info_len then decDescs (dbuf.length + 1) dbuf else .ok []) with
        | .error e => (t, .error e)          -- tags appended so far: unspecified after an error
        | .ok ds =>
          let t := { t with descriptor_tags := ds }
          let off := off0 + t.program_info_len
          -- stream_len + _offset = len - FMT.size + 3 - pil + off
          let streamEnd := len + PMT_HDR_LEN_NOT_INCL_IN_LEN + off - PMT_FMT.size - t.program_info_len
          let streamBuf := slice p.payload off streamEnd
          let crcBuf := slice p.payload (pointer + PMT_FMT_POINTER.size) (streamEnd - PMT_CRC_LEN)
          let expCrc := crc32mpeg2 crcBuf
          -- the (disabled) debug line still evaluates crc_buffer[0] and crc_buffer[-1]
          if crcBuf.length = 0 then (t, .error .index) else
          match decStreams (streamBuf.length + 1) streamBuf with
          | .error e => (t, .error e)
          | .ok (ss, left) =>
            let t := { t with streams := ss }
            match structUnpack PMT_unpack_fmt0 left with
            | .error e => (t, .error e)
            | .ok [crc] =>
              let t := { t with crc := some crc }
              (t, .ok (crc == expCrc))
            | .ok _ => (t, .error .struct)
      | .ok _ => (t, .error .struct)
    | .ok _ => (t, .error .struct)

def packDescs : List Desc → R Bytes
  | [] => .ok []
  | d :: ds =>
    match Desc.pack d with
    | .error e => .error e
    | .ok b =>
      match packDescs ds with
      | .ok r => .ok (b ++ r)
      | .error e => .error e

def packStreams : List Stream → R Bytes
  | [] => .ok []
  | d :: ds =>
    match Stream.pack d with
    | .error e => .error e
    | .ok b =>
      match packStreams ds with
      | .ok r => .ok (b ++ r)
      | .error e => .error e

/-- `MPEGPacketPMT.pack`: recomputes `program_info_len`, rebuilds `payload`, then `MPEGPacket.pack` -/
def PMT.pack (s : PMT) : PMT × R Bytes :=
  let pil := (s.descriptor_tags.map Desc.len).sum
  let len := PMT_FMT.size - PMT_HDR_LEN_NOT_INCL_IN_LEN + PMT_CRC_LEN + (s.streams.map Stream.len).sum + pil
  let s := { s with program_info_len := pil }
  match structPack PMT_FMT_POINTER [0] with
  | .error e => (s, .error e)
  | .ok ptr =>
    match structPack PMT_FMT [s.tableid, s.syntax_indicator * 32768 + 3 * 4096 + len, s.program_number,
        3 * 64 + s.version * 2 + s.current_next_indicator, s.sectionNo, s.last_section,
        7 * 8192 + s.pcr_pid, 15 * 4096 + pil] with
    | .error e => (s, .error e)
    | .ok hdr =>
      match packDescs s.descriptor_tags with
      | .error e => (s, .error e)
      | .ok db =>
        match packStreams s.streams with
        | .error e => (s, .error e)
        | .ok sb =>
          let body := hdr ++ db ++ sb
          match structPack PMT_pack_fmt0 [crc32mpeg2 body] with
          | .error e => (s, .error e)
          | .ok cb =>
            let r := Pkt.pack { s.pkt with payload := ptr ++ body ++ cb }
            ({ s with pkt := r.1 }, r.2)

/-- `MPEGPacketPMT.__eq__` on two PMT operands (`match_attr`: no payload, no `_crc`) -/
def PMT.eq (a b : PMT) : Bool :=
  a.pkt.sync == b.pkt.sync && a.pkt.pid == b.pkt.pid && a.pkt.transport_priority == b.pkt.transport_priority &&
  a.pkt.tei == b.pkt.tei && a.pkt.pusi == b.pkt.pusi && a.pkt.continuitycounter == b.pkt.continuitycounter &&
  a.pkt.tsc == b.pkt.tsc && a.pkt.adaption_ctrl == b.pkt.adaption_ctrl &&
  a.pkt.adaption_field == b.pkt.adaption_field && a.tableid == b.tableid &&
  a.syntax_indicator == b.syntax_indicator && a.program_number == b.program_number && a.version == b.version &&
  a.current_next_indicator == b.current_next_indicator && a.sectionNo == b.sectionNo &&
  a.last_section == b.last_section && a.pcr_pid == b.pcr_pid && a.program_info_len == b.program_info_len &&
  a.streams == b.streams && a.descriptor_tags == b.descriptor_tags

end Acra.Model.PMT
