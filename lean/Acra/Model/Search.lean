/-
  Model of the pattern-search and byte-swap helpers:
    AcraNetwork/__init__.py   KMP.partial, KMP.search, endianness_swap
    AcraNetwork/SamDec008.py  string_matching_boyer_moore_horspool
  Hand-written, statement by statement; core Lean only.  Texts and patterns are byte strings
  (indexing a `bytes` gives an int 0..255; this is how the library itself calls the helpers).

  Python details that are kept:
    * `while` loops carry fuel; `Err.fuel` is how a loop that never ends shows up (Horspool with an
      empty pattern on a non-empty text; never for a non-empty pattern — `bmh_fuel_sufficient`).
    * list / bytes indexing that can leave the range is `[i]?` with `Err.index` (KMP with an empty
      pattern on a non-empty text raises IndexError at `P[j]`; Horspool with both empty raises
      IndexError at `text[k]` with k = -1).
    * Horspool's `i`, `k` and the offsets, KMP's `i - (j - 1)` are Python ints, hence `Int` here;
      a negative index wraps (`pyIdx`), exactly as `text[-1]` would.
    * `endianness_swap`: `len(buffer) % bytecount` raises ZeroDivisionError for 0 and has the sign
      of `bytecount` for negative values; the extended-slice assignments read all right-hand sides
      from the old buffer first and then assign left to right.
-/
import Acra.Py.Basic
namespace Acra.Model.Search
open Acra.Py

/-! ### KMP -/

/-- `while j > 0 and pattern[j] != c: j = ret[j - 1]` (the same loop in `partial` and `search`) -/
def kmpFall (p : Bytes) (tbl : List Nat) (c : UInt8) : Nat → Nat → R Nat
  | 0, _ => .error .fuel
  | fuel + 1, j =>
    if j > 0 then
      match p[j]? with
      | none => .error .index
      | some x =>
        if x ≠ c then
          match tbl[j - 1]? with
          | none => .error .index
          | some j' => kmpFall p tbl c fuel j'
        else .ok j
    else .ok j

/-- `for i in range(1, len(pattern))`: `cs` are the pattern bytes still to come (`pattern[i:]`) -/
def kmpPartialLoop (p : Bytes) : Bytes → Nat → List Nat → R (List Nat)
  | [], _, ret => .ok ret
  | c :: cs, i, ret =>
    match ret[i - 1]? with
    | none => .error .index
    | some j =>
      match kmpFall p ret c (j + 1) j with
      | .error e => .error e
      | .ok j =>
        match p[j]? with
        | none => .error .index
        | some x => kmpPartialLoop p cs (i + 1) (ret ++ [if x == c then j + 1 else j])

/-- `KMP.partial` -/
def kmpPartial (p : Bytes) : R (List Nat) := kmpPartialLoop p (p.drop 1) 1 [0]

/-- `for i in range(len(T))` of `KMP.search`; `rest = T[i:]` -/
def kmpSearchLoop (p : Bytes) (tbl : List Nat) : Bytes → Nat → Nat → List Int → R (List Int)
  | [], _, _, ret => .ok ret
  | c :: rest, i, j, ret =>
    match kmpFall p tbl c (j + 1) j with
    | .error e => .error e
    | .ok j =>
      match p[j]? with
      | none => .error .index
      | some x =>
        let j := if c == x then j + 1 else j
        if j == p.length then
          match tbl[j - 1]? with
          | none => .error .index
          | some j' => kmpSearchLoop p tbl rest (i + 1) j' (ret ++ [(i : Int) - ((j : Int) - 1)])
        else kmpSearchLoop p tbl rest (i + 1) j ret

/-- `KMP().search(T, P)` -/
def kmpSearch (t p : Bytes) : R (List Int) :=
  match kmpPartial p with
  | .error e => .error e
  | .ok tbl => kmpSearchLoop p tbl t 0 0 []

/-! ### Boyer–Moore–Horspool -/

/-- Python `b[i]` for an int `i`: negative indices count from the end -/
def pyIdx (b : List α) (i : Int) : Option α :=
  if 0 ≤ i then b[i.toNat]?
  else if 0 ≤ i + b.length then b[(i + b.length).toNat]?
  else none

/-- `while j >= 0 and text[i] == pattern[j]: j -= 1; i -= 1`, with `j1 = j + 1`.
    Returns the final `(j + 1, i)`. -/
def bmhInner (text pat : Bytes) : Nat → Int → R (Nat × Int)
  | 0, i => .ok (0, i)
  | j1 + 1, i =>
    match pyIdx text i, pat[j1]? with
    | some a, some b => if a == b then bmhInner text pat j1 (i - 1) else .ok (j1 + 1, i)
    | _, _ => .error .index

/-- `skip = [m] * 256; for k in range(m - 1): skip[pattern[k]] = m - k - 1` -/
def bmhSkip (pat : Bytes) : List Nat :=
  (List.range (pat.length - 1)).foldl
    (fun sk k => match pat[k]? with
      | some c => sk.set c.toNat (pat.length - k - 1)
      | none => sk)
    (List.replicate 256 pat.length)

/-- `while k < n:` … `k += skip[text[k]]` -/
def bmhOuter (text pat : Bytes) (skip : List Nat) : Nat → Int → List Int → R (List Int)
  | 0, _, _ => .error .fuel
  | fuel + 1, k, offs =>
    if k < text.length then
      match bmhInner text pat pat.length k with
      | .error e => .error e
      | .ok (j1, i) =>
        let offs := if j1 == 0 then offs ++ [i + 1] else offs
        match pyIdx text k with
        | none => .error .index
        | some c =>
          match skip[c.toNat]? with
          | none => .error .index
          | some s => bmhOuter text pat skip fuel (k + s) offs
    else .ok offs

/-- `string_matching_boyer_moore_horspool(text, pattern)` -/
def bmh (text pat : Bytes) : R (List Int) :=
  if pat.length > text.length then .ok []
  else bmhOuter text pat (bmhSkip pat) (text.length + 1) ((pat.length : Int) - 1) []

/-! ### endianness_swap -/

/-- `b[start::step]` where `skip` elements are still to be passed over before the next hit -/
def getStride (step : Nat) : Nat → List α → List α
  | _, [] => []
  | 0, x :: xs => x :: getStride step (step - 1) xs
  | k + 1, _ :: xs => getStride step k xs

/-- `b[start::step] = vals` (sizes agree whenever the code reaches the assignment; if `vals`
    runs out the rest is left alone) -/
def setStride (step : Nat) : Nat → List α → List α → List α
  | _, [], _ => []
  | 0, x :: xs, [] => x :: xs
  | 0, _ :: xs, v :: vs => v :: setStride step (step - 1) xs vs
  | k + 1, x :: xs, vs => x :: setStride step k xs vs

/-- `buffer[0::2], buffer[1::2] = buffer[1::2], buffer[0::2]` -/
def swap2 (b : List α) : List α :=
  let r0 := getStride 2 1 b
  let r1 := getStride 2 0 b
  setStride 2 1 (setStride 2 0 b r0) r1

/-- `buffer[0::4], buffer[1::4], buffer[2::4], buffer[3::4] = buffer[3::4], buffer[2::4], buffer[1::4], buffer[0::4]` -/
def swap4 (b : List α) : List α :=
  let r0 := getStride 4 3 b
  let r1 := getStride 4 2 b
  let r2 := getStride 4 1 b
  let r3 := getStride 4 0 b
  setStride 4 3 (setStride 4 2 (setStride 4 1 (setStride 4 0 b r0) r1) r2) r3

/-- `endianness_swap(buffer, bytecount)` -/
def endiannessSwap (b : Bytes) (bytecount : Int) : R Bytes :=
  if bytecount = 0 then .error .zeroDiv
  else if (b.length : Int) % bytecount ≠ 0 then .error .generic      -- Python `%`: zero iff divisible, for either sign
  else if bytecount = 2 then .ok (swap2 b)
  else if bytecount = 4 then .ok (swap4 b)
  else .error .generic

end Acra.Model.Search
