/-
  Model of AcraNetwork/SimpleEthernet.py: unpack48/pack48, ip_calc_checksum, Ethernet, IP/IPv4, UDP,
  ICMP (pack only), IGMPv3 (membership_query, join_groups, ones_comp_add16), ARP, combine_ip_fragments.
  Hand-written, statement by statement; constants come from Acra.Gen.Net (regenerated on every run).

  External functions (trusted base, compared with the real functions by the correspondence check):
    zlib.crc32                 = Spec.crc32 (bitwise reflected CRC-32 of IEEE 802.3)
    socket.inet_aton/inet_ntoa = dotted quad <-> 32-bit big-endian.  An address attribute is modelled as
                                 `Option Nat`: `some n` for the dotted quad of `n`, `none` for a string
                                 inet_aton rejects (in the harness: the constructor default "").  The driver
                                 codec converts to and from `q1.2.3.4`.
    sorted(key=…)              = stable insertion sort
  Native-order struct codes ("H", "I") are little-endian (extract.py maps them so).
  `None` attribute values and negative integers are outside the model (the codec refuses to set them).
-/
import Acra.Py.Struct
import Acra.Gen.Net
import Acra.Spec.Net
namespace Acra.Model.Net
open Acra.Py Acra.Gen.Net

/-- `zlib.crc32(b) & 0xFFFFFFFF` -/
def crc32 (bs : Bytes) : Nat := Spec.crc32 bs &&& 0xFFFFFFFF

/-- `unpack48`: `struct.unpack(">HI", x)` needs exactly six bytes -/
def unpack48 (x : Bytes) : R Nat :=
  match structUnpack unpack48_fmt0 x with
  | .ok [x2, x3] => .ok (x3 ||| (x2 <<< 32))
  | .ok _ => .error .struct
  | .error e => .error e

/-- `pack48` -/
def pack48 (x : Nat) : R Bytes := structPack pack48_fmt0 [x >>> 32, x &&& 0xFFFFFFFF]

/-- `ip_calc_checksum`: little-endian 16-bit word sum, two folding steps, complement.
    `~s & 0xFFFF` for a non-negative `s` is `0xFFFF - (s & 0xFFFF)`. -/
def ipCalcChecksum (pkt : Bytes) : R Nat :=
  let pkt := if pkt.length % 2 == 1 then pkt ++ [0] else pkt
  match structUnpack (ipcs_fmt0 (pkt.length / 2)) pkt with
  | .error e => .error e
  | .ok ws =>
    let s := ws.sum
    let s := (s >>> 16) + (s &&& 0xFFFF)
    let s := s + (s >>> 16)
    .ok (0xFFFF - (s &&& 0xFFFF))

/-! ### Ethernet -/

structure Eth where
  type : Nat
  srcmac : Nat
  dstmac : Nat
  payload : Bytes
  vlan : Bool
  vlantag : Nat
  deriving Repr, DecidableEq

def Eth.fresh : Eth :=
  { type := ETH_TYPE_IP, srcmac := 0, dstmac := 0, payload := [], vlan := false, vlantag := ETH_DEFAULT_VLANTAG }

/-- `Ethernet.unpack(buf, fcs)` -/
def Eth.unpack (s : Eth) (buf : Bytes) (fcs : Bool) : Eth × R Unit :=
  match unpack48 (buf.take 6) with
  | .error e => (s, .error e)
  | .ok dst =>
  let s := { s with dstmac := dst }
  match unpack48 (slice buf 6 12) with
  | .error e => (s, .error e)
  | .ok src =>
  let s := { s with srcmac := src }
  match structUnpackFrom Eth_unpack_fmt0 buf 12 with
  | .error e => (s, .error e)
  | .ok [ty] =>
    let hdr : R (Eth × Nat) :=
      if ty = ETH_TYPE_VLAN then
        match structUnpackFrom Eth_unpack_fmt1 buf 14 with
        | .ok [tag, ty2] => .ok ({ s with vlan := true, vlantag := tag, type := ty2 }, ETH_HEADERLEN_VLAN)
        | .ok _ => .error .struct
        | .error e => .error e
      else .ok ({ s with vlan := false, vlantag := 0xFFFF, type := ty }, ETH_HEADERLEN)
    match hdr with
    | .error e => ({ s with vlan := true }, .error e)
    | .ok (s, hdrLen) =>
      if fcs then
        -- buf[hdr_len:-4], buf[-4:], crc32(buf[:-4])
        let s := { s with payload := slice buf hdrLen (buf.length - 4) }
        let expCrc := crc32 (buf.take (buf.length - 4))
        match structUnpack Eth_unpack_fmt2 (buf.drop (buf.length - 4)) with
        | .ok [act] => if expCrc ≠ act then (s, .error .generic) else (s, .ok ())
        | .ok _ => (s, .error .struct)
        | .error e => (s, .error e)
      else ({ s with payload := buf.drop hdrLen }, .ok ())
  | .ok _ => (s, .error .struct)

/-- `Ethernet.pack(fcs)` -/
def Eth.pack (s : Eth) (fcs : Bool) : Eth × R Bytes :=
  let header :=
    if s.vlan then
      structPack Eth_pack_fmt0 [s.dstmac >>> 32, s.dstmac &&& 0xFFFFFFFF, s.srcmac >>> 32,
        s.srcmac &&& 0xFFFFFFFF, ETH_TYPE_VLAN, s.vlantag, s.type]
    else
      structPack Eth_pack_fmt1 [s.dstmac >>> 32, s.dstmac &&& 0xFFFFFFFF, s.srcmac >>> 32,
        s.srcmac &&& 0xFFFFFFFF, s.type]
  match header with
  | .error e => (s, .error e)
  | .ok h =>
    if fcs then
      match structPack Eth_pack_fmt2 [crc32 (h ++ s.payload)] with
      | .ok f => (s, .ok (h ++ s.payload ++ f))
      | .error e => (s, .error e)
    else (s, .ok (h ++ s.payload))

/-- `Ethernet.__eq__` for Ethernet operands -/
def Eth.eq (a b : Eth) : Bool :=
  a.type == b.type && a.dstmac == b.dstmac && a.srcmac == b.srcmac && a.payload == b.payload &&
  a.vlan == b.vlan && a.vlantag == b.vlantag

/-! ### IP / IPv4 -/

structure IP where
  srcip : Option Nat
  dstip : Option Nat
  len : Nat
  flags : Nat
  fragment_offset : Nat
  protocol : Nat
  payload : Bytes
  version : Nat
  ihl : Nat
  dscp : Nat
  ident : Nat          -- attribute `id`
  ttl : Nat
  deriving Repr, DecidableEq

def IP.fresh : IP :=
  { srcip := none, dstip := none, len := 0, flags := 0, fragment_offset := 0, protocol := IP_PROTOCOL_UDP,
    payload := [], version := IP_DEFAULT_VERSION, ihl := IP_DEFAULT_IHL, dscp := 0, ident := 0,
    ttl := IP_DEFAULT_TTL }

/-- `IP.unpack`; a wrong header checksum is only logged -/
def IP.unpack (s : IP) (buf : Bytes) : IP × R Unit :=
  if buf.length < IP_HEADER_SIZE then (s, .error .value) else
  match structUnpackFrom IP_HEADER_FORMAT buf 0 with
  | .ok [na1, dscp, len, ident, fl, na3, ttl, proto, _checksum, src, dst] =>
    ({ s with dscp := dscp, len := len, ident := ident, ttl := ttl, protocol := proto,
              fragment_offset := (((fl &&& 0x1F) <<< 8) + na3) * 8,
              flags := fl >>> 5,
              version := na1 >>> 4,
              ihl := na1 &&& 0xF,
              srcip := some src, dstip := some dst,
              payload := slice buf IP_HEADER_SIZE len }, .ok ())
  | .ok _ => (s, .error .struct)
  | .error e => (s, .error e)

/-- `IP.pack` -/
def IP.pack (s : IP) : IP × R Bytes :=
  match s.srcip with
  | none => (s, .error .os)
  | some src =>
  match s.dstip with
  | none => (s, .error .os)
  | some dst =>
  let s := { s with len := IP_HEADER_SIZE + s.payload.length }
  let fragUnits := s.fragment_offset / 8
  match structPack IP_HEADER_FORMAT
      [0x45, s.dscp, s.len % 65536, s.ident,
       ((s.flags &&& 0x7) <<< 5) ||| ((fragUnits >>> 8) &&& 0x1F), fragUnits &&& 0xFF,
       s.ttl, s.protocol, 0, src, dst] with
  | .error e => (s, .error e)
  | .ok header =>
    match ipCalcChecksum header with
    | .error e => (s, .error e)
    | .ok checksum =>
      match structPack IP_pack_fmt2 [checksum] with
      | .error e => (s, .error e)
      | .ok cb => (s, .ok (header.take 10 ++ cb ++ header.drop 12 ++ s.payload))

/-! ### UDP -/

structure UDP where
  srcport : Nat
  dstport : Nat
  len : Nat
  payload : Bytes
  deriving Repr, DecidableEq

def UDP.fresh : UDP := { srcport := 0, dstport := 0, len := 0, payload := [] }

def UDP.unpack (s : UDP) (buf : Bytes) : UDP × R Unit :=
  if buf.length < UDP_HEADER_SIZE then (s, .error .value) else
  match structUnpackFrom UDP_HEADER_FORMAT buf 0 with
  | .ok [sp, dp, len, _checksum] =>
    ({ s with srcport := sp, dstport := dp, len := len, payload := buf.drop UDP_HEADER_SIZE }, .ok ())
  | .ok _ => (s, .error .struct)
  | .error e => (s, .error e)

def UDP.pack (s : UDP) : UDP × R Bytes :=
  let s := { s with len := s.payload.length + UDP_HEADER_SIZE }
  match structPack UDP_HEADER_FORMAT [s.srcport, s.dstport, s.len % 65536, 0] with
  | .ok h => (s, .ok (h ++ s.payload))
  | .error e => (s, .error e)

/-! ### ICMP (pack only) -/

structure ICMP where
  type : Nat
  code : Nat
  request_id : Nat
  request_sequence : Nat
  payload : Bytes
  deriving Repr, DecidableEq

def ICMP.fresh : ICMP := { type := 0, code := 0, request_id := 0, request_sequence := 0, payload := [] }

def ICMP.pack (s : ICMP) : ICMP × R Bytes :=
  match structPack ICMP_pack_fmt0 [s.type, s.code, 0, s.request_id, s.request_sequence] with
  | .error e => (s, .error e)
  | .ok h =>
    match ipCalcChecksum (h ++ s.payload) with
    | .error e => (s, .error e)
    | .ok c =>
      match structPack ICMP_pack_fmt1 [c] with
      | .error e => (s, .error e)
      | .ok cb => (s, .ok (h.take 2 ++ cb ++ h.drop 4 ++ s.payload))

/-- `ICMP.unpack` raises NotImplementedError -/
def ICMP.unpack (s : ICMP) (_buf : Bytes) : ICMP × R Unit := (s, .error .notImplemented)

/-! ### IGMPv3 -/

/-- `ones_comp_add16` -/
def onesCompAdd16 (num1 num2 : Nat) : Nat :=
  let result := num1 + num2
  if result < IGMP_MOD then result else (result + 1) % IGMP_MOD

/-- `IGMPv3.membership_query()`: a function of no arguments; its value is regenerated from the source -/
def membershipQuery : Bytes := IGMP_MEMBERSHIP_QUERY

/-- the loop of `join_groups` appending one record per group; `inet_aton` fails with OSError -/
def joinBody (mode : Nat) : List (Option Nat) → R Bytes
  | [] => .ok []
  | g :: gs =>
    match structPack IGMP_join_fmt1 [mode, 0, 0] with
    | .error e => .error e
    | .ok rh =>
      match g with
      | none => .error .os
      | some a =>
        match joinBody mode gs with
        | .ok r => .ok (rh ++ beBytes 4 a ++ r)
        | .error e => .error e

/-- `IGMPv3.join_groups(groups)` -/
def joinGroups (groups : List (Option Nat)) : R Bytes :=
  let mode := if groups.length == 1 then IGMP_TYPE_REC_CHG_TO_EXCL_MODE else IGMP_TYPE_REC_MODE_IS_EXCLUDE
  match structPack IGMP_join_fmt0 [IGMP_TYPE_MEMBERSHIP_REPORT, 0, 0, 0, groups.length] with
  | .error e => .error e
  | .ok h =>
    match joinBody mode groups with
    | .error e => .error e
    | .ok body =>
      let nochecksum := h ++ body
      match structUnpack (IGMP_join_fmt2 (nochecksum.length / 2)) nochecksum with
      | .error e => .error e
      | .ok [] => .error .type            -- reduce() of an empty sequence; unreachable (≥ 4 words)
      | .ok (w :: ws) =>
        let x := ws.foldl onesCompAdd16 w
        let checksum := 0xFFFF - (x &&& 0xFFFF)         -- ~x & 0xFFFF
        match structPack IGMP_join_fmt3 [checksum] with
        | .error e => .error e
        | .ok cb => .ok (nochecksum.take 2 ++ cb ++ nochecksum.drop 4)

/-! ### ARP -/

structure ARP where
  hardware_type : Nat
  protocol_type : Nat
  hardware_length : Nat
  protocol_length : Nat
  operation : Nat
  srcmac : Nat
  dstmac : Nat
  srcip : Option Nat
  dstip : Option Nat
  deriving Repr, DecidableEq

def ARP.fresh : ARP :=
  { hardware_type := ARP_DEFAULT_HARDWARE_TYPE, protocol_type := ETH_TYPE_IP, hardware_length := ETH_ADDR_LENGTH,
    protocol_length := IP_ADDR_LENGTH, operation := ARP_OPER_REQUEST, srcmac := 0, dstmac := 0,
    srcip := some 0, dstip := some 0 }

/-- `socket.inet_aton(s)` on a modelled address -/
def inetAton : Option Nat → R Bytes
  | none => .error .os
  | some a => .ok (beBytes 4 a)

/-- `socket.inet_ntoa(b)`: exactly four bytes, else OSError -/
def inetNtoa (b : Bytes) : R Nat := if b.length = 4 then .ok (beNat b) else .error .os

def ARP.pack (s : ARP) : ARP × R Bytes :=
  match structPack ARP_pack_fmt0 [s.hardware_type, s.protocol_type, s.hardware_length, s.protocol_length,
      s.operation] with
  | .error e => (s, .error e)
  | .ok raw =>
  match pack48 s.srcmac with
  | .error e => (s, .error e)
  | .ok sm =>
  match inetAton s.srcip with
  | .error e => (s, .error e)
  | .ok si =>
  match pack48 s.dstmac with
  | .error e => (s, .error e)
  | .ok dm =>
  match inetAton s.dstip with
  | .error e => (s, .error e)
  | .ok di => (s, .ok (raw ++ (sm ++ si ++ dm ++ di)))

def ARP.unpack (s : ARP) (buf : Bytes) : ARP × R Unit :=
  match structUnpackFrom ARP_unpack_fmt0 buf 0 with
  | .error e => (s, .error e)
  | .ok [ht, pt, hl, pl, op] =>
    let s := { s with hardware_type := ht, protocol_type := pt, hardware_length := hl, protocol_length := pl,
                      operation := op }
    match unpack48 (slice buf 8 14) with
    | .error e => (s, .error e)
    | .ok sm =>
    let s := { s with srcmac := sm }
    match inetNtoa (slice buf 14 18) with
    | .error e => (s, .error e)
    | .ok si =>
    let s := { s with srcip := some si }
    match unpack48 (slice buf 18 24) with
    | .error e => (s, .error e)
    | .ok dm =>
    let s := { s with dstmac := dm }
    match inetNtoa (slice buf 24 28) with
    | .error e => (s, .error e)
    | .ok di => ({ s with dstip := some di }, .ok ())
  | .ok _ => (s, .error .struct)

def ARP.eq (a b : ARP) : Bool :=
  a.hardware_type == b.hardware_type && a.protocol_type == b.protocol_type &&
  a.hardware_length == b.hardware_length && a.protocol_length == b.protocol_length &&
  a.operation == b.operation && a.srcmac == b.srcmac && a.dstmac == b.dstmac && a.srcip == b.srcip &&
  a.dstip == b.dstip

/-! ### combine_ip_fragments -/

/-- an element of the list handed to `combine_ip_fragments`: an IP object or anything else -/
inductive Item where
  | ip (p : IP)
  | other
  deriving Repr, DecidableEq

/-- the checking loop: every element is an IP object and consecutive identifications agree -/
def checkItems : Option Nat → List Item → R (List IP)
  | _, [] => .ok []
  | _, .other :: _ => .error .generic
  | ident, .ip p :: rest =>
    let bad : Bool := match ident with
      | some i => p.ident != i
      | none => false
    if bad then .error .generic else
    match checkItems (some p.ident) rest with
    | .ok ps => .ok (p :: ps)
    | .error e => .error e

/-- insertion into a list kept in ascending `fragment_offset` order, before elements with an equal key
    (so that a right fold is a stable sort) -/
def insertFrag (p : IP) : List IP → List IP
  | [] => [p]
  | q :: qs => if p.fragment_offset ≤ q.fragment_offset then p :: q :: qs else q :: insertFrag p qs

/-- `sorted(packets, key=lambda x: x.fragment_offset)` -/
def sortFrags : List IP → List IP
  | [] => []
  | p :: ps => insertFrag p (sortFrags ps)

def combineSorted (sorted : List IP) : IP :=
  let c := { IP.fresh with flags := 0, fragment_offset := 0, payload := [] }
  let c := match sorted with
    | [] => c
    | p :: _ => { c with srcip := p.srcip, dstip := p.dstip, protocol := p.protocol, version := p.version,
                         ihl := p.ihl, dscp := p.dscp, ident := p.ident, ttl := p.ttl }
  { c with payload := sorted.flatMap (·.payload) }

/-- `combine_ip_fragments(packets)` -/
def combine (items : List Item) : R IP :=
  match checkItems none items with
  | .error e => .error e
  | .ok ps => .ok (combineSorted (sortFrags ps))

end Acra.Model.Net
