/-
  The container protocol (`__len__`, `__getitem__`) and the remaining small methods of the classes modelled
  elsewhere, statement by statement from /repo.  New definitions only: they extend the namespaces of the
  existing models.

  What `len` means differs from class to class (read in the source):
    * iNetX, IENA (positional), iNET          `len(self.pack())` — a byte count, and the call MUTATES the object
                                               the way `pack` does (`packetlen`, `size`, `_length`, `_payload`, …);
                                               it raises whatever `pack` raises
    * IENAM/Q/D/N, NPD, ParserAlignedPacket,
      ARINC429/MILSTD1553/UARTDataPacket, MPEGTS   number of elements of the list `unpack` fills
    * ParserAlignedBlock                       `len(payload) + calcsize(format)` — bytes, WITHOUT packing (so also for
                                               a payload `pack` would refuse)
    * PcapRecord                               `len(_payload)` — the payload, not the 16-byte header
    * TimeDataFormat1                          20 / 16 by the year-available bit of the channel specific word
    * TimeDataFormat2                          12
    * NAL                                      the attribute `size`
    * PCMDataPacket                            has `__getitem__` but NO `__len__` (`len(p)` is a `TypeError`)
  `__getitem__` is `self.<list>[key]` everywhere (Python list indexing, `Py.listGet`) except `MPEGTS`, which
  first raises `IndexError` for `key >= len(self)`.
-/
import Acra.Py.Container
import Acra.Py.Float
import Acra.Model.iNetX
import Acra.Model.IENA
import Acra.Model.IENAQDN
import Acra.Model.iNET
import Acra.Model.NPD
import Acra.Model.ParserAligned
import Acra.Model.Pcap
import Acra.Model.Ch11ARINC
import Acra.Model.Ch11MIL1553
import Acra.Model.Ch11PCM
import Acra.Model.Ch11UART
import Acra.Model.Ch11TimeFmt
import Acra.Model.ExtraMpeg
import Acra.Model.MPEGTS
import Acra.Model.Golay
open Acra.Py

/-! ### iNetX -/
namespace Acra.Model.iNetX

/-- `iNetX.__len__`: `return len(self.pack())` -/
def len (s : State) : State × R Nat :=
  let (s', r) := pack s
  (s', r.map List.length)

/-- `iNetX.setPacketTime(utctimestamp, nanoseconds=0)`: two assignments, returns `True` -/
def setPacketTime (s : State) (utctimestamp nanoseconds : Nat) : State × Bool :=
  ({ s with ptptimeseconds := utctimestamp, ptptimenanoseconds := nanoseconds }, true)

end Acra.Model.iNetX

/-! ### IENA -/
namespace Acra.Model.IENA

/-- `IENA.__len__` (positional IENA only; the typed classes override it): `return len(self.pack())` -/
def Base.len (s : Base) : Base × R Nat :=
  let (s', r) := Base.pack s
  (s', r.map List.length)

/-- the property `n2` (alias of `status`) -/
def Base.n2 (s : Base) : Nat := s.status
def Base.setN2 (s : Base) (v : Nat) : Base := { s with status := v }
/-- the property `streamid` (alias of `_key`, i.e. of `key`) -/
def Base.streamid (s : Base) : Nat := s.key
def Base.setStreamid (s : Base) (v : Nat) : Base := { s with key := v }

/-- `IENAM.__len__`: `len(self.parameters)` -/
def MState.len (s : MState) : Nat := s.parameters.length
/-- `IENAM.__getitem__`: `self.parameters[key]` -/
def MState.getitem (s : MState) (key : Int) : R MParam := listGet s.parameters key

def QState.len (s : QState) : Nat := s.parameters.length
def QState.getitem (s : QState) (key : Int) : R QParam := listGet s.parameters key

def DState.len (s : DState) : Nat := s.parameters.length
def DState.getitem (s : DState) (key : Int) : R DParam := listGet s.parameters key

def NState.len (s : NState) : Nat := s.parameters.length
def NState.getitem (s : NState) (key : Int) : R NParam := listGet s.parameters key

end Acra.Model.IENA

/-! ### iNET -/
namespace Acra.Model.iNET

/-- `iNET.__len__`: `return len(self.pack())` -/
def len (s : State) : State × R Nat :=
  let (s', r) := pack s
  (s', r.map List.length)

end Acra.Model.iNET

/-! ### NPD -/
namespace Acra.Model.NPD

/-- `NPD.__len__`: `len(self.segments)` -/
def len (s : State) : Nat := s.segments.length
/-- `NPD.__getitem__`: `self.segments[key]` -/
def getitem (s : State) (key : Int) : R Seg := listGet s.segments key

end Acra.Model.NPD

/-! ### ParserAligned -/
namespace Acra.Model.ParserAligned
open Acra.Gen.ParserAligned

/-- `ParserAlignedBlock.__len__`: `len(self.payload) + struct.calcsize(self.format)` -/
def Block.len (s : Block) : Nat := s.payload.length + PAB_FORMAT.size

/-- `ParserAlignedPacket.__len__`: `len(self.parserblocks)` -/
def Packet.len (s : Packet) : Nat := s.parserblocks.length
/-- `ParserAlignedPacket.__getitem__`: `self.parserblocks[key]` -/
def Packet.getitem (s : Packet) (key : Int) : R Block := listGet s.parserblocks key

end Acra.Model.ParserAligned

/-! ### PcapRecord -/
namespace Acra.Model.Pcap

/-- `PcapRecord.__len__`: `len(self._payload)` -/
def Rec.len (s : Rec) : Nat := s.payload.length

/-- `PcapRecord.set_current_time()` with the value `time.time()` returned as a parameter (a non-negative
    binary64, given as the rational it denotes):
    `usec = int((currenttime % 1) * 1e6)`, `sec = int(currenttime)`, returns `True`.
    `currenttime % 1` is exact in binary64 (the fractional part of a double is a double); the product is
    rounded once. -/
def Rec.setCurrentTime (s : Rec) (currenttime : Rat) : Rec × Bool :=
  let frac : Rat := currenttime - (Float.floorNat currenttime : Rat)
  ({ s with usec := Float.toNat (Float.fmul frac 1000000), sec := Float.toNat currenttime }, true)

end Acra.Model.Pcap

/-! ### Chapter 11 payload containers -/
namespace Acra.Model.Ch11Pay.ARINC
/-- `ARINC429DataPacket.__len__`: `len(self.arincwords)` -/
def Packet.len (p : Packet) : Nat := p.arincwords.length
/-- `ARINC429DataPacket.__getitem__`: `self.arincwords[key]` -/
def Packet.getitem (p : Packet) (key : Int) : R Word := listGet p.arincwords key
end Acra.Model.Ch11Pay.ARINC

namespace Acra.Model.Ch11Pay.MIL1553
/-- `MILSTD1553DataPacket.__len__`: `len(self.messages)` -/
def Packet.len (p : Packet) : Nat := p.messages.length
/-- `MILSTD1553DataPacket.__getitem__`: `self.messages[key]` -/
def Packet.getitem (p : Packet) (key : Int) : R Msg := listGet p.messages key
end Acra.Model.Ch11Pay.MIL1553

namespace Acra.Model.Ch11Pay.UART
/-- `UARTDataPacket.__len__`: `len(self.uartwords)` -/
def Packet.len (p : Packet) : Nat := p.uartwords.length
/-- `UARTDataPacket.__getitem__`: `self.uartwords[key]` -/
def Packet.getitem (p : Packet) (key : Int) : R Word := listGet p.uartwords key
end Acra.Model.Ch11Pay.UART

namespace Acra.Model.Ch11Pay.PCM
/-- `len(PCMDataPacket)`: the class defines no `__len__` -/
def Packet.len (_p : Packet) : R Nat := .error .type
/-- `PCMDataPacket.__getitem__`: `self.minor_frames[key]` -/
def Packet.getitem (p : Packet) (key : Int) : R Frame := listGet p.minor_frames key
/-- the property `PCMMinorFrame.payload`: `return self.minor_frame_data` -/
def Frame.payload (f : Frame) : Bytes := f.data
end Acra.Model.Ch11Pay.PCM

namespace Acra.Model.Ch11Pay.TimeFmt
open Acra.Gen.Ch11TimeFmt
/-- `TimeDataFormat1.__len__`:
    `if (self.channel_specific_data & DATE_FMT_YEAR_AVAIL) >> 9 == 0x1: return 4 * (4 + 1) else: return 4 * (3 + 1)` -/
def State1.len (s : State1) : Nat :=
  if (s.channel_specific_data &&& DATE_FMT_YEAR_AVAIL) >>> 9 == 1 then 4 * (4 + 1) else 4 * (3 + 1)
/-- `TimeDataFormat2.__len__`: `return 3 * 4` -/
def State2.len (_s : State2) : Nat := 3 * 4
end Acra.Model.Ch11Pay.TimeFmt

/-! ### NAL, MPEGTS -/
namespace Acra.Model.Extra
/-- `NAL.__len__`: `return self.size` -/
def NAL.len (t : NAL) : Nat := t.size
end Acra.Model.Extra

namespace Acra.Model.MPEGTS
/-- `MPEGTS.__len__`: `len(self.blocks)` -/
def TS.len (t : TS) : Nat := t.blocks.length
/-- `MPEGTS.__getitem__`: `if _key >= len(self): raise IndexError` then `self.blocks[_key]` -/
def TS.getitem (t : TS) (key : Int) : R Pkt :=
  if key ≥ (t.blocks.length : Int) then .error .index else listGet t.blocks key
end Acra.Model.MPEGTS

/-! ### free functions -/
namespace Acra.Model.Helpers

def hexUpper (n : Nat) : Char := if n < 10 then Char.ofNat (48 + n) else Char.ofNat (55 + n)

/-- `"{:02X}".format(v)` for `0 ≤ v < 256` -/
def hex2 (v : Nat) : List Char := [hexUpper (v / 16 % 16), hexUpper (v % 16)]

/-- `SimpleEthernet.mactoreadable(macaddress)`: the six low bytes `(macaddress >> i*8) & 0xFF`, printed
    most significant first as `{:02X}` joined by ':' -/
def mactoreadable (mac : Nat) : String :=
  let b : List Nat := (List.range 6).map fun i => (mac >>> (i * 8)) &&& 0xFF
  String.ofList (":".toList.intercalate ((b.reverse).map hex2))

/-- `Chapter11.buf_to_printable(buffer)`: for every byte `"{:#04X} ".format(v)` (`0X` + two digits + a space),
    and a newline after every eighth; the characters are returned as their ASCII codes -/
def bufToPrintableFrom : Nat → Bytes → List Char
  | _, [] => []
  | idx, v :: rest =>
    (['0', 'X'] ++ hex2 v.toNat ++ [' '] ++ (if idx % 8 == 7 then ['\n'] else [])) ++ bufToPrintableFrom (idx + 1) rest

def bufToPrintable (buffer : Bytes) : List Char := bufToPrintableFrom 0 buffer

/-- `PMT.bytes_to_ascii(buffer)`: `chr(b)` for every byte -/
def bytesToAscii (buffer : Bytes) : List Char := buffer.map fun b => Char.ofNat b.toNat

/-- the code points of a string as bytes (how the driver prints a string that may hold delimiters):
    Latin-1, every character of the three functions above is below 256 -/
def latin1 (cs : List Char) : Bytes := cs.map fun c => UInt8.ofNat c.toNat

end Acra.Model.Helpers

namespace Acra.Model.Golay
/-- `Golay._onesincode_old(code, size)`: `for t in range(size): if (code >> t) & 1: ret += 1` -/
def onesincodeOld (code size : Nat) : Nat :=
  (List.range size).foldl (fun ret t => if (code >>> t) &&& 1 ≠ 0 then ret + 1 else ret) 0
end Acra.Model.Golay

/-! ### the iteration cursor

  IENAM/Q/D/N, NPD, ParserAlignedPacket, ARINC429/MILSTD1553/UART/PCMDataPacket and MPEGTS are their own iterators:
  `__iter__` sets `self._index = 0` and returns `self`; `next()` (`__next__`) returns `elements[_index]` and advances,
  or raises `StopIteration` once `_index >= len(elements)`.  `_index` is created by the first `__iter__` (NOT by the
  constructor), is never touched by `unpack` or by assigning the list, and is shared by every loop over the object —
  among them the `for x in self` inside `pack` of IENAM, IENAQ, MILSTD1553DataPacket, UARTDataPacket and MPEGTS.
  So a direct call of the public method `next()` shows it: `AttributeError` on an object never iterated, `StopIteration`
  after any complete loop (or a successful `pack` of those five), and after a later `unpack` whatever the stale cursor
  happens to select. -/
namespace Acra.Model.Cursor

/-- `_index`: `none` = the attribute does not exist yet -/
abbrev Cursor := Option Nat

/-- `__iter__`: `self._index = 0` -/
def start (_ : Cursor) : Cursor := some 0

/-- `next()` on a container that currently holds `n` elements: the position to return (and the advanced cursor),
    `StopIteration` at or past the end (cursor unchanged), `AttributeError` when `_index` was never created -/
def next (c : Cursor) (n : Nat) : Cursor × R Nat :=
  match c with
  | none => (none, .error .attribute)
  | some k => if k < n then (some (k + 1), .ok k) else (some k, .error .stopIteration)

/-- `for x in obj: pass` (also the loop inside the five `pack`s): `__iter__`, then `next` until `StopIteration` -/
def loop (n : Nat) : Cursor := some n

/-- the positions a loop visits, by running `next` with fuel -/
def run : Nat → Cursor → Nat → List Nat × Cursor
  | 0, c, _ => ([], c)
  | fuel + 1, c, n =>
    match next c n with
    | (c', .ok k) => let (ks, c'') := run fuel c' n; (k :: ks, c'')
    | (c', .error _) => ([], c')

end Acra.Model.Cursor
