/-
  Model of AcraNetwork/NPD.py: NPDSegment and its subclasses (ACQSegment, PCMPacketizer, A429Segment,
  RS232Segment, MIL1553Segment) and NPD.  One structure `Seg` carries the attributes of every segment
  class; `kind` says which class the object is (it selects the `unpack`, `pack` and `__eq__` that
  Python's method resolution would select).

  `NPD.mcastaddr` is a dotted-quad string in Python; the model holds the 32-bit value
  (`none` = a string `inet_aton` rejects, such as the constructor's ""), and the harness adapter
  converts with `inet_aton` / `inet_ntoa` (trusted: they are the dotted-quad conversions).
-/
import Acra.Py.Struct
import Acra.Py.Records
import Acra.Gen.NPD
namespace Acra.Model.NPD
open Acra.Py Acra.Gen.NPD

inductive Kind where
  | base | acq | pcmpkt | a429 | rs232 | mil1553
  deriving Repr, DecidableEq

structure Seg where
  kind : Kind
  timedelta : Nat
  segmentlen : Nat
  errorcode : Nat
  flags : Nat
  payload : Bytes             -- `_payload`, read and written through the `payload` property
  sfid : Nat                  -- ACQSegment
  cal : Nat
  words : List Nat
  block_status : Nat          -- RS232Segment
  sync_bytes : List Nat
  data : Bytes                -- RS232Segment and MIL1553Segment
  blockstatus : Nat           -- MIL1553Segment
  gap1 : Nat
  gap2 : Nat
  deriving Repr, DecidableEq

def Seg.fresh (k : Kind) : Seg :=
  { kind := k, timedelta := 0, segmentlen := NPD_SEGMENT_HDR_LEN, errorcode := 0, flags := 0, payload := [],
    sfid := 0, cal := 0, words := [], block_status := 0, sync_bytes := [], data := [],
    blockstatus := 0, gap1 := 0, gap2 := 0 }

/-- the `payload` property setter: stores the bytes and rewrites `segmentlen` -/
def Seg.setPayload (s : Seg) (b : Bytes) : Seg :=
  { s with payload := b, segmentlen := b.length + NPD_SEGMENT_HDR_LEN }

/-- `NPDSegment.unpack`: returns the remaining buffer -/
def Seg.unpackBase (s : Seg) (buffer : Bytes) : Seg × R Bytes :=
  match structUnpackFrom NPD_SEGMENT_HDR_FORMAT buffer 0 with
  | .ok [td, sl, ec, fl] =>
    let s1 := { s with timedelta := td, segmentlen := sl, errorcode := ec, flags := fl }
    let s2 := s1.setPayload (slice buffer NPD_SEGMENT_HDR_LEN s1.segmentlen)
    let pad_len := if s2.segmentlen % 4 == 0 then 0 else 4 - s2.segmentlen % 4
    (s2, .ok (buffer.drop (s2.segmentlen + pad_len)))
  | .ok _ => (s, .error .struct)
  | .error e => (s, .error e)

/-- `NPDSegment.pack` (reads `segmentlen` as stored; mutates nothing) -/
def Seg.packBase (s : Seg) : R Bytes :=
  let padR : R Bytes :=
    if s.payload.length % 4 == 0 then .ok [] else
      match structPack NPDSegment_pack_fmt0 [NPD_SEGMENT_PAD] with
      | .ok pb => .ok (List.replicate (4 - s.payload.length % 4) pb).flatten
      | .error e => .error e
  match padR with
  | .error e => .error e
  | .ok pad =>
    match structPack NPD_SEGMENT_HDR_FORMAT [s.timedelta, s.segmentlen, s.errorcode, s.flags] with
    | .error e => .error e
    | .ok h => .ok (h ++ s.payload ++ pad)

/-- the typed part of `ACQSegment.unpack`, after the base unpack -/
def Seg.unpackACQ (s : Seg) : Seg × R Unit :=
  match structUnpackFrom ACQSegment_unpack_fmt0 s.payload 0 with
  | .ok [sf, cl, _reserved] =>
    let s1 := { s with sfid := sf, cal := cl >>> 7 }
    let len_words := (s1.payload.length - 4) / 2          -- int((len - 4) / 2), len ≥ 4 here
    match structUnpackFrom (ACQSegment_unpack_fmt1 len_words) s1.payload 4 with
    | .ok ws => ({ s1 with words := ws }, .ok ())
    | .error e => (s1, .error e)
  | .ok _ => (s, .error .struct)
  | .error e => (s, .error e)

/-- the typed part of `RS232Segment.unpack` -/
def Seg.unpackRS232 (s : Seg) : Seg × R Unit :=
  match structUnpackFrom RS232Segment_unpack_fmt0 s.payload 0 with
  | .ok [bs] =>
    let s1 := { s with block_status := bs }
    let sync_word_cnt := s1.block_status &&& BSL_SYNC_COUNT_MASK
    if sync_word_cnt > 0 then
      match structUnpackFrom (RS232Segment_unpack_fmt1 sync_word_cnt) (s1.payload.drop 2) 0 with
      | .ok sb => ({ s1 with sync_bytes := sb, data := s1.payload.drop (2 + sync_word_cnt) }, .ok ())
      | .error e => (s1, .error e)
    else ({ s1 with sync_bytes := [], data := s1.payload.drop 2 }, .ok ())
  | .ok _ => (s, .error .struct)
  | .error e => (s, .error e)

/-- the typed part of `MIL1553Segment.unpack` -/
def Seg.unpack1553 (s : Seg) : Seg × R Unit :=
  match structUnpackFrom MIL1553Segment_unpack_fmt0 s.payload 0 with
  | .ok [bs, g1, g2] => ({ s with blockstatus := bs, gap1 := g1, gap2 := g2, data := s.payload.drop 4 }, .ok ())
  | .ok _ => (s, .error .struct)
  | .error e => (s, .error e)

/-- `<segment class>.unpack(buffer)` -/
def Seg.unpack (s : Seg) (buffer : Bytes) : Seg × R Bytes :=
  match s.unpackBase buffer with
  | (s1, .error e) => (s1, .error e)
  | (s1, .ok remaining) =>
    match s.kind with
    | .acq => match s1.unpackACQ with
              | (s2, .ok ()) => (s2, .ok remaining)
              | (s2, .error e) => (s2, .error e)
    | .rs232 => match s1.unpackRS232 with
                | (s2, .ok ()) => (s2, .ok remaining)
                | (s2, .error e) => (s2, .error e)
    | .mil1553 => match s1.unpack1553 with
                  | (s2, .ok ()) => (s2, .ok remaining)
                  | (s2, .error e) => (s2, .error e)
    | _ => (s1, .ok remaining)

/-- `for sync_byte in self.sync_bytes: self.payload += struct.pack(">B", sync_byte)` -/
def packSync : List Nat → R Bytes
  | [] => .ok []
  | b :: bs =>
    match structPack RS232Segment_pack_fmt1 [b] with
    | .error e => .error e
    | .ok x =>
      match packSync bs with
      | .ok r => .ok (x ++ r)
      | .error e => .error e

/-- `RS232Segment.pack`: rebuilds the block status word and the payload from the fields -/
def Seg.packRS232 (s : Seg) : Seg × R Bytes :=
  let s1 := { s with block_status := (s.block_status &&& 0xFFF8) + s.sync_bytes.length }
  match structPack RS232Segment_pack_fmt0 [s1.block_status] with
  | .error e => (s1, .error e)
  | .ok h =>
    match packSync s1.sync_bytes with
    | .error e => (s1.setPayload h, .error e)                  -- payload partly rebuilt: unspecified
    | .ok sb =>
      let s2 := s1.setPayload (h ++ sb ++ s1.data)
      (s2, s2.packBase)

/-- `<segment class>.pack()` -/
def Seg.pack (s : Seg) : Seg × R Bytes :=
  match s.kind with
  | .rs232 => s.packRS232
  | _ => (s, s.packBase)

def Seg.eqBase (a b : Seg) : Bool :=
  a.timedelta == b.timedelta && a.segmentlen == b.segmentlen && a.errorcode == b.errorcode &&
  a.flags == b.flags && a.payload == b.payload

def Seg.eqRS232 (a b : Seg) : Bool :=
  a.timedelta == b.timedelta && a.segmentlen == b.segmentlen && a.errorcode == b.errorcode &&
  a.flags == b.flags && a.block_status == b.block_status && a.sync_bytes == b.sync_bytes && a.data == b.data

/-- Python's `l == r` for two segment objects.  `NPDSegment.__eq__` (inherited by the ACQ, A429,
    PCM-packetizer and 1553 classes) demands `type(other) is type(self)`; `RS232Segment` overrides
    `__eq__` and demands an RS232Segment operand (it has no subclasses).  When `r`'s class is a proper
    subclass of `l`'s class that overrides `__eq__` (only: `l` a plain NPDSegment, `r` an RS232Segment)
    Python tries the reflected method first, which also answers False. -/
def Seg.eq (l r : Seg) : Bool :=
  if l.kind = r.kind then
    match l.kind with
    | .rs232 => Seg.eqRS232 l r
    | _ => Seg.eqBase l r
  else false

/-! ### NPD -/

structure State where
  version : Nat
  hdrlen : Nat
  datatype : Option Nat
  packetlen : Nat
  cfgcnt : Nat
  flags : Nat
  sequence : Nat
  datasrcid : Nat
  mcastaddr : Option Nat
  timestamp : Option Nat
  segments : List Seg
  deriving Repr, DecidableEq

def fresh : State :=
  { version := NPD_VERSION, hdrlen := NPD_DEFAULT_HDRLEN, datatype := none, packetlen := 0, cfgcnt := 0, flags := 0,
    sequence := 0, datasrcid := 0, mcastaddr := none, timestamp := none, segments := [] }

/-- the class `NPD.unpack` instantiates for a data type: `NPD_DT[datatype]`, else `NPDSegment` -/
def kindOf (dt : Nat) : Kind :=
  if NPD_DT_RS232.contains dt then .rs232
  else if NPD_DT_A429.contains dt then .a429
  else if NPD_DT_ACQ.contains dt then .acq
  else if NPD_DT_MIL1553.contains dt then .mil1553
  else if NPD_DT_PCMPKT.contains dt then .pcmpkt
  else .base

/-- `for segment in self.segments: _payload += segment.pack()` -/
def packSegs : List Seg → List Seg × R Bytes
  | [] => ([], .ok [])
  | g :: gs =>
    match g.pack with
    | (g', .error e) => (g' :: gs, .error e)
    | (g', .ok b) =>
      match packSegs gs with
      | (gs', .ok bs) => (g' :: gs', .ok (b ++ bs))
      | (gs', .error e) => (g' :: gs', .error e)

/-- `NPD.pack` -/
def pack (s : State) : State × R Bytes :=
  let ver_hdr := (s.version <<< 4) + s.hdrlen
  match s.mcastaddr with
  | none => (s, .error .os)                                   -- inet_aton raises OSError
  | some mc =>
    -- (_mc,) = struct.unpack(">I", inet_aton(addr)): the 32-bit value of the dotted quad
    match packSegs s.segments with
    | (gs, .error e) => ({ s with segments := gs }, .error e)
    | (gs, .ok pl) =>
      let s' := { s with segments := gs, packetlen := (NPD_HEADER_LENGTH + pl.length) / 4 }
      match s'.datatype, s'.timestamp with
      | some dt, some ts =>
        match structPack NPD_HEADER_FORMAT
            [ver_hdr, dt, s'.packetlen, s'.cfgcnt, s'.flags, s'.sequence, s'.datasrcid, mc, ts] with
        | .ok h => (s', .ok (h ++ pl))
        | .error e => (s', .error e)
      | _, _ => (s', .error .struct)                           -- struct.pack of None

/-- one iteration of `while remain_buf != b""` -/
def decSeg (k : Kind) (rem : Bytes) : R (Seg × Nat) :=
  match Seg.unpack (Seg.fresh k) rem with
  | (g, .ok _) => .ok (g, g.segmentlen + (if g.segmentlen % 4 == 0 then 0 else 4 - g.segmentlen % 4))
  | (_, .error e) => .error e

def moreNe (off len : Nat) : Bool := decide (0 < len - off)

/-- `NPD.unpack` -/
def unpack (s : State) (buffer : Bytes) : State × R Unit :=
  match structUnpackFrom NPD_HEADER_FORMAT buffer 0 with
  | .ok [vh, dt, pl, cc, fl, sq, ds, mc, ts] =>
    -- mcastaddr = inet_ntoa(struct.pack(">I", _mcast)): the dotted quad of the 32-bit value
    let s1 := { s with datatype := some dt, packetlen := pl, cfgcnt := cc, flags := fl, sequence := sq,
                       datasrcid := ds, timestamp := some ts, version := vh >>> 4, hdrlen := vh &&& 0xF,
                       mcastaddr := some mc }
    let payload := buffer.drop (s1.hdrlen * 4)
    if s1.packetlen * 4 ≠ buffer.length then (s1, .error .generic) else
    let s2 := { s1 with segments := [] }
    match decOff (decSeg (kindOf dt)) moreNe payload (payload.length + 1) 0 with
    | .ok gs => ({ s2 with segments := gs }, .ok ())
    | .error .fuel => (s2, .error .fuel)
    | .error _ => (s2, .error .generic)                        -- `except Exception as e: raise Exception(e)`
  | .ok _ => (s, .error .struct)
  | .error e => (s, .error e)

/-- `other.segments != self.segments` is decided by `other[i] == self[i]` element by element -/
def segsEq : List Seg → List Seg → Bool
  | [], [] => true
  | l :: ls, r :: rs => Seg.eq l r && segsEq ls rs
  | _, _ => false

/-- `NPD.__eq__(self = a, other = b)` for an NPD operand -/
def eq (a b : State) : Bool :=
  b.version == a.version && b.hdrlen == a.hdrlen && b.datatype == a.datatype && b.packetlen == a.packetlen &&
  b.cfgcnt == a.cfgcnt && b.flags == a.flags && b.sequence == a.sequence && b.datasrcid == a.datasrcid &&
  b.mcastaddr == a.mcastaddr && b.timestamp == a.timestamp && segsEq b.segments a.segments

end Acra.Model.NPD
