/-
  Chapter 11 payload codecs, shared part: the intra-packet time stamp carried by PCM minor frames,
  UART data words and MIL-STD-1553 messages.  A minimal copy of `PTPTime` / `RTCTime` of
  AcraNetwork/IRIG106/Chapter11/__init__.py (pack `"<II"` nanoseconds, seconds; `"<IHH"` lsw, msw, 0);
  the classes themselves (arithmetic, ordering, conversions) belong to the ch10 family.
-/
import Acra.Py.Struct
import Acra.Py.Records
import Acra.Gen.Ch11PayTs
namespace Acra.Model.Ch11Pay
open Acra.Py Acra.Gen.Ch11PayTs

/-- the `ipts` attribute: an `RTCTime`, a `PTPTime`, or `None` -/
inductive Ipts where
  | rtc (count : Nat)
  | ptp (seconds nanoseconds : Nat)
  | none
  deriving Repr, DecidableEq, Inhabited

/-- `RTCTime.pack` / `PTPTime.pack`; calling `.pack()` on `None` is an `AttributeError` -/
def Ipts.pack : Ipts → R Bytes
  | .rtc c => structPack RTC_pack_fmt0 [c % 4294967296, (c / 4294967296) % 65536, 0]
  | .ptp s ns => structPack PTP_pack_fmt0 [ns, s]
  | .none => .error .attribute

/-- `RTCTime.unpack` / `PTPTime.unpack` (`struct.unpack`: exactly 8 bytes); the kind of time stamp is kept -/
def Ipts.unpack (t : Ipts) (buf : Bytes) : R Ipts :=
  match t with
  | .rtc _ =>
    match structUnpack RTC_unpack_fmt0 buf with
    | .ok [lsw, msw, _] => .ok (.rtc (lsw + 4294967296 * msw))
    | .ok _ => .error .struct
    | .error e => .error e
  | .ptp _ _ =>
    match structUnpack PTP_unpack_fmt0 buf with
    | .ok [ns, s] => .ok (.ptp s ns)
    | .ok _ => .error .struct
    | .error e => .error e
  | .none => .error .attribute

/-- `if self.ipts is not None: self.ipts.unpack(buffer[:8]); offset += 8` — the decoded time stamp and
    the offset of what follows it -/
def unpackTs (ipts : Ipts) (buf : Bytes) : R (Ipts × Nat) :=
  if ipts = .none then .ok (.none, 0) else
  match ipts.unpack (buf.take 8) with
  | .ok i => .ok (i, 8)
  | .error e => .error e

/-- the time stamp object the UART / 1553 constructors create for `ipts_source`
    (`TS_CH4` → `RTCTime()`, `TS_IEEE1558` → `PTPTime()`) -/
def iptsOfSource (src : Nat) : Option Ipts :=
  if src = TS_CH4 then some (.rtc 0) else if src = TS_IEEE1558 then some (.ptp 0 0) else Option.none

/-- concatenation of the encodings of a list of elements; the first failure is the result -/
def packList (f : α → R Bytes) : List α → R Bytes
  | [] => .ok []
  | x :: xs =>
    match f x with
    | .error e => .error e
    | .ok b =>
      match packList f xs with
      | .ok r => .ok (b ++ r)
      | .error e => .error e

/-- `bytearray([c for t in zip(buffer[1::2], buffer[::2]) for c in t])`: swap the bytes of every
    complete pair; an odd trailing byte is dropped (that is what `zip` does) -/
def endianSwap : Bytes → Bytes
  | a :: b :: rest => b :: a :: endianSwap rest
  | _ => []

end Acra.Model.Ch11Pay
