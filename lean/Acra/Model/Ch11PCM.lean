/-
  Model of AcraNetwork/IRIG106/Chapter11/PCM.py: `PCMMinorFrame`, `PCMDataPacket`.

  `KMP().search(buffer, pattern)` is modelled by its specification `occ`: the ascending list of all
  offsets at which the (non-empty) pattern occurs.  That the KMP code computes this list is the
  search family's theorem (C17 `KMP.search_eq_occ`); here it is additionally compared with the real
  code by the correspondence check on every run.
-/
import Acra.Model.Ch11PayTs
import Acra.Gen.Ch11PCM
namespace Acra.Model.Ch11Pay.PCM
open Acra.Py Acra.Gen.Ch11PCM Acra.Gen.Ch11PayTs Acra.Model.Ch11Pay

/-- all offsets `i` with `t[i : i+|p|] = p`, ascending (`p` non-empty) -/
def occFrom (p : Bytes) : Bytes → Nat → List Nat
  | [], _ => []
  | t@(_ :: tl), i => if (t.take p.length == p) then i :: occFrom p tl (i + 1) else occFrom p tl (i + 1)

def occ (t p : Bytes) : List Nat := occFrom p t 0

structure Frame where
  ipts : Ipts
  throughput : Bool
  hdr : Option Nat               -- `intra_packet_data_header`
  data : Bytes                   -- `minor_frame_data`
  alignment : Nat
  syncword : Option Nat
  sfid : Option Nat
  deriving Repr, DecidableEq

/-- `PCMMinorFrame(ipts_source, throughput, alignment)`: `None` in throughput mode, `RTCTime()` for
    `TS_CH4`, `PTPTime()` for every other source -/
def Frame.fresh (src : Option Nat) (throughput : Bool) (alignment : Nat) : Frame :=
  { ipts := if throughput then .none else if src = some TS_CH4 then .rtc 0 else .ptp 0 0,
    throughput := throughput, hdr := Option.none, data := [], alignment := alignment,
    syncword := Option.none, sfid := Option.none }

/-- `DATA_HEADER_FORMAT[alignment]`, `DATA_HEADER_LEN[alignment]` (`KeyError` for other keys) -/
def hdrFmt (alignment : Nat) : R (Fmt × Nat) :=
  if alignment = ALIGN_16b then .ok (DATA_HEADER_FORMAT_16, DATA_HEADER_LEN_16)
  else if alignment = ALIGN_32b then .ok (DATA_HEADER_FORMAT_32, DATA_HEADER_LEN_32)
  else .error .key

def packOpt (f : Fmt) : Option Nat → R Bytes
  | Option.none => .ok []
  | some v => structPack f [v]

/-- `PCMMinorFrame.pack` -/
def Frame.pack (f : Frame) : R Bytes :=
  if f.throughput then .ok f.data else
  if f.ipts = .none then .error .generic else
  match f.ipts.pack with
  | .error e => .error e
  | .ok ts =>
    match hdrFmt f.alignment with
    | .error e => .error e
    | .ok (fmt, _) =>
      match (match f.hdr with
             | Option.none => (.error .struct : R Bytes)        -- struct.pack(fmt, None)
             | some v => structPack fmt [v]) with
      | .error e => .error e
      | .ok h =>
        match packOpt MF_pack_fmt0 f.syncword with
        | .error e => .error e
        | .ok sw =>
          match packOpt MF_pack_fmt1 f.sfid with
          | .error e => .error e
          | .ok sf => .ok (ts ++ h ++ sw ++ sf ++ f.data)

/-- `PCMMinorFrame.unpack(buffer, extract_sync_sfid)` -/
def Frame.unpack (f : Frame) (buf : Bytes) (extract : Bool) : Frame × R Unit :=
  match (if f.ipts = .none then (.ok Ipts.none : R Ipts) else f.ipts.unpack (buf.take 8)) with
  | .error e => (f, .error e)
  | .ok i =>
    -- syncword, sfid and the data header are cleared before decoding (only `extract_sync_sfid` and the
    -- non-throughput branch fill them in)
    let f1 := { f with ipts := i, syncword := Option.none, sfid := Option.none, hdr := Option.none }
    if f.throughput then ({ f1 with data := buf }, .ok ()) else
    match hdrFmt f.alignment with
    | .error e => (f1, .error e)
    | .ok (fmt, hl) =>
      match structUnpackFrom fmt buf 8 with
      | .ok [h] =>
        let f2 := { f1 with hdr := some h }
        if extract then
          match structUnpackFrom MF_unpack_fmt0 buf (8 + hl) with
          | .ok [msw, lsw, sfid] =>
            ({ f2 with sfid := some sfid, syncword := some (lsw + 65536 * msw), data := buf.drop (hl + TS_LEN) }, .ok ())
          | .ok _ => (f2, .error .struct)
          | .error e => (f2, .error e)
        else ({ f2 with data := buf.drop (hl + TS_LEN) }, .ok ())
      | .ok _ => (f1, .error .struct)
      | .error e => (f1, .error e)

/-- `PCMMinorFrame.__eq__`: ipts, intra_packet_data_header, minor_frame_data, syncword, sfid, throughput -/
def Frame.eq (a b : Frame) : Bool :=
  a.ipts == b.ipts && a.hdr == b.hdr && a.data == b.data && a.syncword == b.syncword && a.sfid == b.sfid &&
  a.throughput == b.throughput

structure Packet where
  channel_specific_word : Nat
  ipts_source : Option Nat       -- codec option `_ipts_source`
  assigned : Option Nat          -- codec option: `minor_frame_size_bytes` as assigned by the user
  detected : Option Int          -- `_minor_frame_size_detected`
  syncword : Option Nat          -- codec option
  minor_frames : List Frame
  deriving Repr, DecidableEq

def Packet.fresh (src : Option Nat) (syncword size : Option Nat) : Packet :=
  { channel_specific_word := 0, ipts_source := src, assigned := size, detected := Option.none,
    syncword := syncword, minor_frames := [] }

/-- the `minor_frame_size_bytes` property -/
def Packet.mfsb (p : Packet) : Option Int :=
  match p.assigned with
  | some n => some (n : Int)
  | Option.none => p.detected

/-- one minor frame and the fill byte after an odd one -/
def packFrame (f : Frame) : R Bytes :=
  match f.pack with
  | .error e => .error e
  | .ok b =>
    if b.length % 2 == 1 then
      match structPack PCM_pack_fmt1 [PCM_DATA_FRAME_FILL] with
      | .error e => .error e
      | .ok z => .ok (b ++ z)
    else .ok b

/-- `PCMDataPacket.pack` -/
def Packet.pack (p : Packet) : R Bytes :=
  match structPack PCM_pack_fmt0 [p.channel_specific_word] with
  | .error e => .error e
  | .ok csw =>
    match packList packFrame p.minor_frames with
    | .error e => .error e
    | .ok body => .ok (csw ++ body)

/-- the packed-mode loop: `while offset + req <= len(buffer)`; a frame that fails to decode turns
    into a bare `Exception` -/
def decFrames (proto : Frame) (extract : Bool) (req : Nat) (buf : Bytes) : Nat → Nat → R (List Frame)
  | 0, _ => .error .fuel
  | fuel + 1, off =>
    if off + req ≤ buf.length then
      match Frame.unpack proto (slice buf off (off + req)) extract with
      | (_, .error _) => .error .generic
      | (f, .ok ()) =>
        match decFrames proto extract req buf fuel (off + req + (if req % 2 != 0 then 1 else 0)) with
        | .ok fs => .ok (f :: fs)
        | .error e => .error e
    else .ok []

/-- the size the decoder works out when none is assigned -/
def detect (p : Packet) (buf : Bytes) (hl : Nat) : R Int :=
  let whole : Int := (buf.length : Int) - TS_LEN - hl - 4
  match p.syncword with
  | Option.none => .ok whole
  | some sw =>
    match structPack PCM_unpack_fmt1 [sw] with
    | .error e => .error e
    | .ok pat =>
      match occ buf pat with
      | o0 :: o1 :: _ => .ok ((o1 : Int) - o0 - TS_LEN - hl)
      | _ => .ok whole

/-- `PCMDataPacket.unpack(buffer, extract_sync_sfid)` -/
def Packet.unpack (p : Packet) (buf : Bytes) (extract : Bool) : Packet × R Unit :=
  match structUnpackFrom PCM_unpack_fmt0 buf 0 with
  | .ok [csw] =>
    let thr := decide ((csw / MODE_THROUGHPUT) % 2 = 1)
    let align := (csw / MODE_ALIGNMENT) % 2
    let p1 := { p with channel_specific_word := csw, minor_frames := [], detected := Option.none }
    if thr then
      match Frame.unpack (Frame.fresh (some DEFAULT_IPTS_SOURCE) true align) (buf.drop 4) false with
      | (f, .ok ()) => ({ p1 with minor_frames := [f] }, .ok ())
      | (_, .error e) => (p1, .error e)
    else
      let hl := if align = ALIGN_16b then DATA_HEADER_LEN_16 else DATA_HEADER_LEN_32
      match (match p.assigned with
             | some n => (.ok (p1, (n : Int)) : R (Packet × Int))
             | Option.none =>
               match detect p buf hl with
               | .ok d => .ok ({ p1 with detected := some d }, d)
               | .error e => .error e) with
      | .error e => (p1, .error e)
      | .ok (p2, size) =>
        let req := (size + TS_LEN + hl).toNat
        match decFrames (Frame.fresh p.ipts_source false align) extract req buf (buf.length + 1) 4 with
        | .ok fs => ({ p2 with minor_frames := fs }, .ok ())
        | .error e => (p2, .error e)
  | .ok _ => (p, .error .struct)
  | .error e => (p, .error e)

/-- `PCMDataPacket.append` -/
def Packet.append (p : Packet) (f : Frame) : Packet := { p with minor_frames := p.minor_frames ++ [f] }

def framesEq : List Frame → List Frame → Bool
  | [], [] => true
  | a :: as, b :: bs => Frame.eq a b && framesEq as bs
  | _, _ => false

/-- `PCMDataPacket.__eq__`: channel-specific word and the frames -/
def Packet.eq (a b : Packet) : Bool :=
  a.channel_specific_word == b.channel_specific_word && framesEq a.minor_frames b.minor_frames

end Acra.Model.Ch11Pay.PCM
