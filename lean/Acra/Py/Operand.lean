/-
  The right-hand operand of `a == x` when `a` is an instance of a library class C that defines `__eq__`.

  How CPython evaluates `a == x` (Objects/object.c, `do_richcompare`):
    1. if `type(x)` is a PROPER SUBCLASS of `type(a)`, `type(x).__eq__(x, a)` is called first (for the comparison
       operators this happens whether or not the subclass overrides `__eq__` — unlike the arithmetic operators);
       a result other than `NotImplemented` is the answer;
    2. otherwise (or after `NotImplemented`) `type(a).__eq__(a, x)`; a result other than `NotImplemented` is the answer;
    3. then the reflected call `type(x).__eq__(x, a)` if it has not been tried, and finally identity.
  Every `__eq__` of the library returns `True`/`False` (never `NotImplemented`), so step 1 or step 2 decides.
  `a != x` is `not (a == x)`: the classes either define `__ne__` that way or inherit `object.__ne__`, which
  inverts `__eq__`.

  Operands are classified relative to C:

  * `Operand.same s`     — `type(x) is C`, state `s`: step 2, the class's comparison of two instances.
  * `Operand.foreign k`  — `x` is not an instance of C and C is not an instance of `type(x)`'s class either:
                           `None`, an `int`, a `str`, a `bytes` object, a `list`, a plain `object()`, an instance of
                           an unrelated class of the library.  Step 2: the `isinstance` guard of `C.__eq__` — where
                           the code has one — answers `False`; a class WITHOUT a guard goes on to `getattr(x, attr)`
                           and raises AttributeError (`Operand.unguarded`).
  * instances of a library SUBCLASS or BASE CLASS of C are neither: they pass (or are judged by) an `isinstance`
    guard somewhere in the family.  Only classes that have such relatives define the two extra functions
        `eqSubclass  a b` : `a == x`, x an instance of a library proper subclass of C whose C-level attributes are `b`
        `eqBaseclass a b` : `a == x`, x an instance of a library proper base class of C (which itself defines or
                        inherits the family's `__eq__`); `b` gives the attributes the base class has, the rest of
                        `b` is ignored
    (step 1 applies to `eqSubclass`: the subclass operand is asked first, with the operands swapped).
-/
import Acra.Py.Basic
namespace Acra.Py

/-- the kinds of unrelated right-hand operands the correspondence check exercises -/
inductive ForeignKind where
  | none          -- `None`
  | int           -- an `int` (0)
  | str           -- a `str` ("x")
  | bytes         -- a `bytes` object (b"")
  | list          -- a `list` ([])
  | object        -- a plain `object()`
  | otherClass    -- an instance of another, unrelated codec class of the library
  deriving DecidableEq, Repr, Inhabited

def ForeignKind.all : List ForeignKind := [.none, .int, .str, .bytes, .list, .object, .otherClass]

theorem ForeignKind.mem_all (k : ForeignKind) : k ∈ ForeignKind.all := by cases k <;> decide

/-- wire names (`E Class :: ops ## @<name>`) -/
def ForeignKind.ofName : String → Option ForeignKind
  | "none" => some .none
  | "int" => some .int
  | "str" => some .str
  | "bytes" => some .bytes
  | "list" => some .list
  | "object" => some .object
  | "other" => some .otherClass
  | _ => Option.none

inductive Operand (σ : Type) where
  | same (s : σ)
  | foreign (k : ForeignKind)

/-- `def __eq__(self, other): if not isinstance(other, C): return False; <compare two instances>` -/
def Operand.guarded (eq : σ → σ → R Bool) (a : σ) : Operand σ → R Bool
  | .same b => eq a b
  | .foreign _ => .ok false

/-- a `__eq__` WITHOUT an `isinstance` guard whose first action is `getattr(other, <attribute of C>)`: none of the
    foreign operands has such an attribute (AttributeError).  No class of the library is of this shape any more (the
    guards of IENA, PES and STANAG4609 were added by `fix:` commits); kept so that a removed guard has a model. -/
def Operand.unguarded (eq : σ → σ → R Bool) (a : σ) : Operand σ → R Bool
  | .same b => eq a b
  | .foreign _ => .error .attribute

/-- what a class's `__eq__` answers when its operand is NOT an instance of the class: `False` from the guard, or —
    without a guard — AttributeError from the first attribute it reads of the operand -/
def Operand.rejects (guarded : Bool) : R Bool := if guarded then .ok false else .error .attribute

/-- `__eq__` behind its opening statement as found in the source (`guarded` is regenerated: `Gen.EqGuard`) -/
def Operand.opening (guarded : Bool) (eq : σ → σ → R Bool) (a : σ) : Operand σ → R Bool
  | .same b => eq a b
  | .foreign _ => Operand.rejects guarded

theorem Operand.opening_true (eq : σ → σ → R Bool) : Operand.opening true eq = Operand.guarded eq := by
  funext a o; cases o <;> rfl

theorem Operand.opening_false (eq : σ → σ → R Bool) : Operand.opening false eq = Operand.unguarded eq := by
  funext a o; cases o <;> rfl

@[simp] theorem Operand.opening_same (g : Bool) (eq : σ → σ → R Bool) (a b : σ) :
    Operand.opening g eq a (.same b) = eq a b := rfl

@[simp] theorem Operand.guarded_same (eq : σ → σ → R Bool) (a b : σ) :
    Operand.guarded eq a (.same b) = eq a b := rfl

@[simp] theorem Operand.guarded_foreign (eq : σ → σ → R Bool) (a : σ) (k : ForeignKind) :
    Operand.guarded eq a (.foreign k) = .ok false := rfl

@[simp] theorem Operand.unguarded_foreign (eq : σ → σ → R Bool) (a : σ) (k : ForeignKind) :
    Operand.unguarded eq a (.foreign k) = .error .attribute := rfl

end Acra.Py
