/-
  The "decode records until the loop condition fails" pattern shared by IENA-M/Q, NPD segments,
  iNET packages, PMT descriptors/streams, UART words, 1553 messages, parser-aligned blocks, PCM
  frames, MPEG-TS packets and PTDPs.

  `dec1 rem` decodes one record from the bytes at the current offset and returns it with the
  number of bytes the loop advances by; `more off len` is the Python loop condition.
-/
import Acra.Py.Basic
namespace Acra.Py

def decOff (dec1 : Bytes → R (α × Nat)) (more : Nat → Nat → Bool) (buf : Bytes) :
    Nat → Nat → R (List α)
  | 0, _ => .error .fuel
  | fuel + 1, off =>
    if more off buf.length then
      match dec1 (buf.drop off) with
      | .ok (x, n) =>
        match decOff dec1 more buf fuel (off + n) with
        | .ok xs => .ok (x :: xs)
        | .error e => .error e
      | .error e => .error e
    else .ok []

/-- a decoder step that never reports `fuel`, always advances, and fails on the empty string -/
structure Progress (dec1 : Bytes → R (α × Nat)) : Prop where
  pos : ∀ b x n, dec1 b = .ok (x, n) → 0 < n
  nofuel : ∀ b, dec1 b ≠ .error .fuel
  empty : ∀ x n, dec1 [] ≠ .ok (x, n)

/-- Termination half of C08 for every loop of this shape: fuel `len - off + 1` never runs out. -/
theorem decOff_fuel_sufficient (dec1 : Bytes → R (α × Nat)) (more : Nat → Nat → Bool) (buf : Bytes)
    (hp : Progress dec1) (fuel off : Nat) (hf : buf.length - off + 1 ≤ fuel) :
    decOff dec1 more buf fuel off ≠ .error .fuel := by
  induction fuel generalizing off with
  | zero => omega
  | succ fuel ih =>
    unfold decOff
    split
    · cases hd : dec1 (buf.drop off) with
      | error e =>
        simp only
        intro h
        injection h with h
        exact hp.nofuel _ (h ▸ hd)
      | ok r =>
        obtain ⟨x, n⟩ := r
        simp only
        by_cases hoff : buf.length ≤ off
        · rw [List.drop_eq_nil_of_le hoff] at hd
          exact absurd hd (hp.empty x n)
        · have hn := hp.pos _ _ _ hd
          have := ih (off + n) (by omega)
          cases hr : decOff dec1 more buf fuel (off + n) with
          | ok xs => simp
          | error e =>
            simp only
            intro h
            injection h with h
            exact this (h ▸ hr)
    · simp

/-- Work bound: the loop returns at most one item per byte at or after the starting offset. -/
theorem decOff_items_le (dec1 : Bytes → R (α × Nat)) (more : Nat → Nat → Bool) (buf : Bytes)
    (hp : Progress dec1) (fuel off : Nat) (xs : List α)
    (h : decOff dec1 more buf fuel off = .ok xs) : xs.length ≤ buf.length - off := by
  induction fuel generalizing off xs with
  | zero => simp [decOff] at h
  | succ fuel ih =>
    unfold decOff at h
    split at h
    · cases hd : dec1 (buf.drop off) with
      | error e => simp [hd] at h
      | ok r =>
        obtain ⟨x, n⟩ := r
        simp only [hd] at h
        by_cases hoff : buf.length ≤ off
        · rw [List.drop_eq_nil_of_le hoff] at hd
          exact absurd hd (hp.empty x n)
        · have hn := hp.pos _ _ _ hd
          cases hr : decOff dec1 more buf fuel (off + n) with
          | error e => simp [hr] at h
          | ok ys =>
            simp only [hr, Except.ok.injEq] at h
            subst h
            have := ih (off + n) ys hr
            simp only [List.length_cons]
            omega
    · simp at h; subst h; simp

/-- Round trip for a list of records laid end to end after a prefix `pre`. -/
theorem decOff_encAll (dec1 : Bytes → R (α × Nat)) (more : Nat → Nat → Bool) (enc1 : α → Bytes)
    (xs : List α) (pre : Bytes) (fuel : Nat) (hfuel : xs.length < fuel)
    (hdec : ∀ x ∈ xs, ∀ rest, dec1 (enc1 x ++ rest) = .ok (x, (enc1 x).length))
    (hmore : ∀ x ∈ xs, ∀ (p q : Bytes), more p.length (p ++ (enc1 x ++ q)).length = true)
    (hstop : ∀ n, more n n = false) :
    decOff dec1 more (pre ++ xs.flatMap enc1) fuel pre.length = .ok xs := by
  induction xs generalizing pre fuel with
  | nil =>
    cases fuel with
    | zero => omega
    | succ fuel => simp [decOff, hstop]
  | cons x xs ih =>
    cases fuel with
    | zero => omega
    | succ fuel =>
      unfold decOff
      have hm := hmore x (by simp) pre (xs.flatMap enc1)
      simp only [List.flatMap_cons] at hm ⊢
      rw [hm]
      simp only [if_true, List.drop_left']
      rw [hdec x (by simp) (xs.flatMap enc1)]
      simp only
      have := ih (pre ++ enc1 x) fuel (by simp at hfuel; omega)
        (fun y hy => hdec y (by simp [hy])) (fun y hy => hmore y (by simp [hy]))
      simp only [List.append_assoc, List.length_append] at this
      rw [this]

end Acra.Py
