/-
  Python's list indexing `l[i]` for an integer `i` (negative indices count from the end), as used by the
  `__getitem__` methods of the container classes (`return self.parameters[key]`).  Core Lean only.
-/
import Acra.Py.Basic
namespace Acra.Py

/-- `l[i]`: `i < 0` is first shifted by `len(l)`; outside `0 ≤ · < len(l)` Python raises `IndexError` -/
def listGet (l : List α) (i : Int) : R α :=
  let j : Int := if i < 0 then i + l.length else i
  if j < 0 then .error .index else
  match l[j.toNat]? with
  | some x => .ok x
  | none => .error .index

theorem listGet_nonneg (l : List α) (k : Nat) (h : k < l.length) : listGet l (k : Int) = .ok l[k] := by
  unfold listGet
  have h0 : ¬ ((k : Int) < 0) := by omega
  simp only [h0, if_false, Int.toNat_natCast, List.getElem?_eq_getElem h]

theorem listGet_neg (l : List α) (k : Nat) (h1 : 1 ≤ k) (h : k ≤ l.length) :
    listGet l (-(k : Int)) = .ok (l[l.length - k]'(by omega)) := by
  unfold listGet
  have h0 : (-(k : Int)) < 0 := by omega
  have h2 : ¬ (-(k : Int) + (l.length : Int) < 0) := by omega
  have h3 : (-(k : Int) + (l.length : Int)).toNat = l.length - k := by omega
  simp only [h0, if_true, h2, if_false, h3]
  rw [List.getElem?_eq_getElem (by omega)]

theorem listGet_isOk_iff (l : List α) (i : Int) :
    (listGet l i).isOk = true ↔ -(l.length : Int) ≤ i ∧ i < l.length := by
  unfold listGet
  by_cases hi : i < 0
  · simp only [hi, if_true]
    by_cases hj : i + (l.length : Int) < 0
    · simp only [hj, if_true]
      constructor
      · intro h; cases h
      · intro h; omega
    · simp only [hj, if_false]
      have hlt : (i + (l.length : Int)).toNat < l.length := by omega
      rw [List.getElem?_eq_getElem hlt]
      constructor
      · intro _; omega
      · intro _; rfl
  · simp only [hi, if_false]
    by_cases hlt : i.toNat < l.length
    · rw [List.getElem?_eq_getElem hlt]
      constructor
      · intro _; omega
      · intro _; rfl
    · rw [List.getElem?_eq_none (by omega)]
      constructor
      · intro h; cases h
      · intro h; omega

/-- outside `-n ≤ i < n` the answer is exactly `IndexError` -/
theorem listGet_error_iff (l : List α) (i : Int) :
    listGet l i = .error .index ↔ ¬ (-(l.length : Int) ≤ i ∧ i < l.length) := by
  rw [← listGet_isOk_iff]
  unfold listGet
  by_cases hj : (if i < 0 then i + (l.length : Int) else i) < 0
  · simp [hj, R.isOk]
  · simp only [hj, if_false]
    cases l[(if i < 0 then i + (l.length : Int) else i).toNat]? <;> simp [R.isOk]

/-- the only error `l[i]` can raise is `IndexError` -/
theorem listGet_total (l : List α) (i : Int) : (∃ x, listGet l i = .ok x) ∨ listGet l i = .error .index := by
  unfold listGet
  by_cases hj : (if i < 0 then i + (l.length : Int) else i) < 0
  · simp [hj]
  · simp only [hj, if_false]
    cases l[(if i < 0 then i + (l.length : Int) else i).toNat]? <;> simp

theorem listGet_map (f : α → β) (l : List α) (i : Int) : listGet (l.map f) i = (listGet l i).map f := by
  unfold listGet
  simp only [List.length_map]
  by_cases hj : (if i < 0 then i + (l.length : Int) else i) < 0
  · simp [hj, Except.map]
  · simp only [hj, if_false, List.getElem?_map]
    cases l[(if i < 0 then i + (l.length : Int) else i).toNat]? <;> simp [Except.map]

end Acra.Py
