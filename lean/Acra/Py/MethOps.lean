/-
  Python semantics prelude, part 4 (core Lean only): what the METHOD translator (`harness/translate_methods.py`)
  emits in addition to `Acra/Py/IntOps.lean`.  Not imported by the driver.
-/
import Acra.Py.IntOps
namespace Acra.Py

/-- `struct.unpack_from(fmt, b, off)` / `Struct(fmt).unpack_from(b, off)` for unsigned codes and an offset the
    translator has shown to be non-negative; values as Python ints.  `struct.error` unless `off + size ≤ len(b)`. -/
def structUnpackFromI (f : Fmt) (b : Bytes) (off : Nat) : R (List Int) :=
  match structUnpackFrom f b off with
  | .ok vs => .ok (vs.map Int.ofNat)
  | .error e => .error e

@[simp] theorem structUnpackFromI_eq (f : Fmt) (b : Bytes) (off : Nat) :
    structUnpackFromI f b off = (structUnpackFrom f b off).map (fun vs => vs.map Int.ofNat) := by
  unfold structUnpackFromI; cases structUnpackFrom f b off <;> rfl

end Acra.Py
