/-
  Python semantics prelude, part 4 (core Lean only): what the METHOD translator (`harness/translate_methods.py`)
  emits in addition to `Acra/Py/IntOps.lean`.  Not imported by the driver.
-/
import Acra.Py.IntOps
namespace Acra.Py

/-- `struct.unpack_from(fmt, b, off)` / `Struct(fmt).unpack_from(b, off)` for unsigned codes and an offset the
    translator has shown to be non-negative; values as Python ints.  `struct.error` unless `off + size ≤ len(b)`. -/
def structUnpackFromI (f : Fmt) (b : Bytes) (off : Nat) : R (List Int) :=
  match structUnpackFrom f b off with
  | .ok vs => .ok (vs.map Int.ofNat)
  | .error e => .error e

@[simp] theorem structUnpackFromI_eq (f : Fmt) (b : Bytes) (off : Nat) :
    structUnpackFromI f b off = (structUnpackFrom f b off).map (fun vs => vs.map Int.ofNat) := by
  unfold structUnpackFromI; cases structUnpackFrom f b off <;> rfl

/-- `struct.unpack_from(fmt, b, -k)` for a constant `k > 0`: the offset counts from the end; `struct.error` when it
    reaches before the start of the buffer (Python: "offset -k out of range") or the item does not fit -/
def structUnpackFromEndI (f : Fmt) (b : Bytes) (k : Nat) : R (List Int) :=
  if k ≤ b.length then structUnpackFromI f b (b.length - k) else .error .struct

/-- `b[lo:-k]` for `lo ≥ 0` and a constant `k > 0`: the upper bound is `max (len b - k) 0` -/
def sliceEndI (b : List α) (lo : Int) (k : Nat) : List α := slice b lo.toNat (b.length - k)

end Acra.Py
