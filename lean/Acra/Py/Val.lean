/-
  Canonical values exchanged between the Python harness and the Lean driver.
  Syntax (no spaces inside a value):
    int      123            (decimal, optional leading '-')
    bytes    x0a1b…         ('x' followed by an even number of hex digits, possibly none)
    bool     True | False
    none     None
    str      q<chars>       (chars contain none of  , ; [ ] { } = | space)
    list     [v;v;…]        ([] is the empty list)
    object   Name{f=v,f=v}  (Name{} has no fields)
-/
import Acra.Py.Basic
namespace Acra.Py

inductive Val where
  | int (n : Int)
  | bytes (b : Bytes)
  | bool (b : Bool)
  | null
  | str (s : String)
  | list (vs : List Val)
  | obj (name : String) (fields : List (String × Val))
  deriving Inhabited, BEq, Repr

def hexDigit (n : Nat) : Char :=
  if n < 10 then Char.ofNat (48 + n) else Char.ofNat (87 + n)

def hexOfBytes (b : Bytes) : String :=
  String.ofList (b.flatMap fun x => [hexDigit (x.toNat / 16), hexDigit (x.toNat % 16)])

def hexVal (c : Char) : Option Nat :=
  if '0' ≤ c ∧ c ≤ '9' then some (c.toNat - 48)
  else if 'a' ≤ c ∧ c ≤ 'f' then some (c.toNat - 87)
  else if 'A' ≤ c ∧ c ≤ 'F' then some (c.toNat - 55)
  else none

def bytesOfHexChars : List Char → Option Bytes
  | [] => some []
  | a :: b :: rest => do
    let x ← hexVal a
    let y ← hexVal b
    let r ← bytesOfHexChars rest
    pure (UInt8.ofNat (x * 16 + y) :: r)
  | _ => none

def bytesOfHex (s : String) : Option Bytes := bytesOfHexChars s.toList

mutual
partial def Val.toStr : Val → String
  | .int n => toString n
  | .bytes b => "x" ++ hexOfBytes b
  | .bool true => "True"
  | .bool false => "False"
  | .null => "None"
  | .str s => "q" ++ s
  | .list vs => "[" ++ ";".intercalate (vs.map Val.toStr) ++ "]"
  | .obj n fs => n ++ "{" ++ ",".intercalate (fs.map fun (k, v) => k ++ "=" ++ v.toStr) ++ "}"
end

instance : ToString Val := ⟨Val.toStr⟩

/-! A small recursive-descent parser over `List Char`. -/

def isDelim (c : Char) : Bool :=
  c == ',' || c == ';' || c == '[' || c == ']' || c == '{' || c == '}' || c == '=' || c == '|' || c == ' '

def takeAtom : List Char → List Char × List Char
  | [] => ([], [])
  | c :: cs => if isDelim c then ([], c :: cs) else
      let (a, r) := takeAtom cs
      (c :: a, r)

def atomToVal (a : List Char) : Option Val :=
  let s := String.ofList a
  if s == "True" then some (.bool true)
  else if s == "False" then some (.bool false)
  else if s == "None" then some .null
  else match a with
    | 'x' :: h => (bytesOfHexChars h).map .bytes
    | 'q' :: r => some (.str (String.ofList r))
    | _ => s.toInt?.map .int

mutual
partial def parseVal (cs : List Char) : Option (Val × List Char) :=
  match cs with
  | '[' :: ']' :: rest => some (.list [], rest)
  | '[' :: rest => do
    let (vs, r) ← parseList rest
    pure (.list vs, r)
  | _ =>
    let (a, r) := takeAtom cs
    match r with
    | '{' :: '}' :: rest => some (.obj (String.ofList a) [], rest)
    | '{' :: rest => do
      let (fs, r2) ← parseFields rest
      pure (.obj (String.ofList a) fs, r2)
    | _ => do
      let v ← atomToVal a
      pure (v, r)
partial def parseList (cs : List Char) : Option (List Val × List Char) := do
  let (v, r) ← parseVal cs
  match r with
  | ';' :: rest => do
    let (vs, r2) ← parseList rest
    pure (v :: vs, r2)
  | ']' :: rest => pure ([v], rest)
  | _ => none
partial def parseFields (cs : List Char) : Option (List (String × Val) × List Char) := do
  let (k, r) := takeAtom cs
  match r with
  | '=' :: rest => do
    let (v, r2) ← parseVal rest
    match r2 with
    | ',' :: rest2 => do
      let (fs, r3) ← parseFields rest2
      pure ((String.ofList k, v) :: fs, r3)
    | '}' :: rest2 => pure ([(String.ofList k, v)], rest2)
    | _ => none
  | _ => none
end

def Val.parse (s : String) : Option Val :=
  match parseVal s.toList with
  | some (v, []) => some v
  | _ => none

/-! Accessors used by the models' `set` functions. -/
def Val.nat? : Val → Option Nat
  | .int n => if n ≥ 0 then some n.toNat else none
  | .bool b => some (if b then 1 else 0)
  | _ => none
def Val.bytes? : Val → Option Bytes
  | .bytes b => some b
  | _ => none
def Val.bool? : Val → Option Bool
  | .bool b => some b
  | .int n => some (n != 0)
  | _ => none
def Val.list? : Val → Option (List Val)
  | .list l => some l
  | _ => none
def Val.natList? (v : Val) : Option (List Nat) := do
  let l ← v.list?
  l.mapM Val.nat?
def Val.field? (v : Val) (k : String) : Option Val :=
  match v with
  | .obj _ fs => (fs.find? (·.1 == k)).map (·.2)
  | _ => none
def Val.optNat? : Val → Option (Option Nat)
  | .null => some Option.none
  | v => v.nat?.map some
def Val.optBytes? : Val → Option (Option Bytes)
  | .null => some Option.none
  | v => v.bytes?.map some

def Val.ofNat (n : Nat) : Val := .int n
def Val.ofOptNat : Option Nat → Val
  | some n => .int n
  | Option.none => .null
def Val.ofOptBytes : Option Bytes → Val
  | some n => .bytes n
  | Option.none => .null
def Val.ofNats (l : List Nat) : Val := .list (l.map Val.ofNat)

end Acra.Py
