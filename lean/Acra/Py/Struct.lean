/-
  Python semantics prelude, part 2: the `struct` module for the format codes the library uses.
  Values are `Nat`.  Signed codes (`b h i q`) accept the non-negative half of their range on
  pack and return the raw unsigned image on unpack (the only signed fields in the library are
  three fields of the pcap global header whose decoded values are never used).
-/
import Acra.Py.Basic
namespace Acra.Py

inductive Code where
  | u8 | u16 | u32 | u64 | i8 | i16 | i32 | i64
  deriving DecidableEq, Repr

def Code.size : Code → Nat
  | .u8 | .i8 => 1
  | .u16 | .i16 => 2
  | .u32 | .i32 => 4
  | .u64 | .i64 => 8

/-- exclusive upper bound of the values `struct.pack` accepts for the code (model: see header) -/
def Code.bound : Code → Nat
  | .u8 => 256 | .u16 => 65536 | .u32 => 4294967296 | .u64 => 18446744073709551616
  | .i8 => 128 | .i16 => 32768 | .i32 => 2147483648 | .i64 => 9223372036854775808

theorem Code.bound_le (c : Code) : c.bound ≤ 256 ^ c.size := by
  cases c <;> decide

theorem Code.size_pos (c : Code) : 0 < c.size := by cases c <;> decide

structure Fmt where
  big : Bool
  codes : List Code
  deriving Repr, DecidableEq

def codesSize : List Code → Nat
  | [] => 0
  | c :: cs => c.size + codesSize cs

def Fmt.size (f : Fmt) : Nat := codesSize f.codes

def encInt (big : Bool) (k n : Nat) : Bytes := if big then beBytes k n else leBytes k n
def decInt (big : Bool) (bs : Bytes) : Nat := if big then beNat bs else leNat bs

@[simp] theorem encInt_length (big : Bool) (k n : Nat) : (encInt big k n).length = k := by
  unfold encInt; split <;> simp

theorem decInt_encInt (big : Bool) (k n : Nat) (h : n < 256 ^ k) : decInt big (encInt big k n) = n := by
  unfold decInt encInt
  cases big <;> simp [leNat_leBytes_of_lt, beNat_beBytes_of_lt, h]

theorem encInt_decInt (big : Bool) (bs : Bytes) : encInt big bs.length (decInt big bs) = bs := by
  unfold decInt encInt
  cases big <;> simp [leBytes_leNat, beBytes_beNat]

theorem decInt_lt (big : Bool) (bs : Bytes) : decInt big bs < 256 ^ bs.length := by
  unfold decInt; cases big <;> simp [leNat_lt, beNat_lt]

@[simp] theorem take_encInt_append (big : Bool) (k v : Nat) (rest : Bytes) :
    List.take k (encInt big k v ++ rest) = encInt big k v := by
  rw [List.take_left' (by simp)]

@[simp] theorem drop_encInt_append (big : Bool) (k v : Nat) (rest : Bytes) :
    List.drop k (encInt big k v ++ rest) = rest := by
  rw [List.drop_left' (by simp)]

@[simp] theorem take_encInt (big : Bool) (k v : Nat) : List.take k (encInt big k v) = encInt big k v := by
  rw [List.take_of_length_le (by simp)]

@[simp] theorem drop_encInt (big : Bool) (k v : Nat) : List.drop k (encInt big k v) = [] := by
  rw [List.drop_eq_nil_of_le (by simp)]

theorem decInt_encInt1 (big : Bool) (n : Nat) (h : n < 256) : decInt big (encInt big 1 n) = n :=
  decInt_encInt big 1 n (by omega)
theorem decInt_encInt2 (big : Bool) (n : Nat) (h : n < 65536) : decInt big (encInt big 2 n) = n :=
  decInt_encInt big 2 n (by omega)
theorem decInt_encInt4 (big : Bool) (n : Nat) (h : n < 4294967296) : decInt big (encInt big 4 n) = n :=
  decInt_encInt big 4 n (by omega)
theorem decInt_encInt8 (big : Bool) (n : Nat) (h : n < 18446744073709551616) : decInt big (encInt big 8 n) = n :=
  decInt_encInt big 8 n (by omega)

/-- reading past a prefix of known length -/
theorem drop_append_len (a b : List α) (n : Nat) (h : n = a.length) : List.drop n (a ++ b) = b := by
  subst h; exact List.drop_left' rfl
theorem take_append_len (a b : List α) (n : Nat) (h : n = a.length) : List.take n (a ++ b) = a := by
  subst h; exact List.take_left' rfl
theorem slice_mid (a b c : List α) (lo hi : Nat) (h1 : lo = a.length) (h2 : hi = a.length + b.length) :
    slice (a ++ (b ++ c)) lo hi = b := by
  subst h1 h2
  simp [slice, List.take_append]

theorem encInt_inj (big : Bool) (k a b : Nat) (ha : a < 256 ^ k) (hb : b < 256 ^ k)
    (h : encInt big k a = encInt big k b) : a = b := by
  unfold encInt at h
  cases big
  · exact leBytes_inj k a b ha hb (by simpa using h)
  · exact beBytes_inj k a b ha hb (by simpa using h)

/-- `struct.pack` on a list of codes; `struct.error` when a value is out of range or the
    number of values differs from the number of codes. -/
def packCodes (big : Bool) : List Code → List Nat → R Bytes
  | [], [] => .ok []
  | c :: cs, v :: vs =>
    if v < c.bound then
      match packCodes big cs vs with
      | .ok r => .ok (encInt big c.size v ++ r)
      | .error e => .error e
    else .error .struct
  | _, _ => .error .struct

/-- decode the codes from the front of `buf` (caller guarantees enough bytes) -/
def unpackCodes (big : Bool) : List Code → Bytes → List Nat
  | [], _ => []
  | c :: cs, buf => decInt big (buf.take c.size) :: unpackCodes big cs (buf.drop c.size)

def structPack (f : Fmt) (vs : List Nat) : R Bytes := packCodes f.big f.codes vs

/-- `struct.unpack_from(fmt, buf, off)` for `off ≥ 0` -/
def structUnpackFrom (f : Fmt) (buf : Bytes) (off : Nat := 0) : R (List Nat) :=
  if off + f.size ≤ buf.length then .ok (unpackCodes f.big f.codes (buf.drop off)) else .error .struct

/-- `struct.unpack(fmt, buf)`: exact length required -/
def structUnpack (f : Fmt) (buf : Bytes) : R (List Nat) :=
  if buf.length = f.size then .ok (unpackCodes f.big f.codes buf) else .error .struct

/-- every value fits its code -/
def Fits : List Code → List Nat → Prop
  | [], [] => True
  | c :: cs, v :: vs => v < c.bound ∧ Fits cs vs
  | _, _ => False

def decFits : (cs : List Code) → (vs : List Nat) → Decidable (Fits cs vs)
  | [], [] => isTrue trivial
  | c :: cs, v :: vs =>
    match decFits cs vs with
    | isTrue h => if hv : v < c.bound then isTrue ⟨hv, h⟩ else isFalse (fun h' => hv h'.1)
    | isFalse h => isFalse (fun h' => h h'.2)
  | [], _ :: _ => isFalse (by simp [Fits])
  | _ :: _, [] => isFalse (by simp [Fits])

instance (cs : List Code) (vs : List Nat) : Decidable (Fits cs vs) := decFits cs vs

theorem packCodes_ok_iff (big : Bool) (cs : List Code) (vs : List Nat) :
    (∃ b, packCodes big cs vs = .ok b) ↔ Fits cs vs := by
  induction cs generalizing vs with
  | nil => cases vs <;> simp [packCodes, Fits]
  | cons c cs ih =>
    cases vs with
    | nil => simp [packCodes, Fits]
    | cons v vs =>
      simp only [packCodes, Fits]
      by_cases hv : v < c.bound
      · simp only [hv, if_true, true_and]
        rw [← ih vs]
        cases h : packCodes big cs vs <;> simp
      · simp [hv]

theorem packCodes_length (big : Bool) (cs : List Code) (vs : List Nat) (b : Bytes)
    (h : packCodes big cs vs = .ok b) : b.length = codesSize cs := by
  induction cs generalizing vs b with
  | nil => cases vs <;> simp_all [packCodes, codesSize]
  | cons c cs ih =>
    cases vs with
    | nil => simp [packCodes] at h
    | cons v vs =>
      simp only [packCodes] at h
      split at h
      · cases h2 : packCodes big cs vs with
        | error e => simp [h2] at h
        | ok r =>
          simp only [h2, Except.ok.injEq] at h
          subst h
          simp [codesSize, ih vs r h2]
      · simp at h

theorem unpackCodes_packCodes (big : Bool) (cs : List Code) (vs : List Nat) (b rest : Bytes)
    (h : packCodes big cs vs = .ok b) : unpackCodes big cs (b ++ rest) = vs := by
  induction cs generalizing vs b with
  | nil => cases vs <;> simp_all [packCodes, unpackCodes]
  | cons c cs ih =>
    cases vs with
    | nil => simp [packCodes] at h
    | cons v vs =>
      simp only [packCodes] at h
      split at h
      next hv =>
        cases h2 : packCodes big cs vs with
        | error e => simp [h2] at h
        | ok r =>
          simp only [h2, Except.ok.injEq] at h
          subst h
          have hlt : v < 256 ^ c.size := Nat.lt_of_lt_of_le hv c.bound_le
          simp only [unpackCodes, List.append_assoc]
          rw [List.take_left' (by simp), List.drop_left' (by simp)]
          rw [decInt_encInt big c.size v hlt, ih vs r h2]
      next => simp at h

theorem unpackCodes_length (big : Bool) (cs : List Code) (buf : Bytes) :
    (unpackCodes big cs buf).length = cs.length := by
  induction cs generalizing buf with
  | nil => rfl
  | cons c cs ih => simp [unpackCodes, ih]

/-- re-encoding decoded bytes gives the bytes back (needs only enough bytes; decoded values of
    unsigned codes always fit; for signed codes the raw image may exceed the signed bound, so the
    statement is for formats without signed codes) -/
def Unsigned : List Code → Prop
  | [] => True
  | c :: cs => (c = .u8 ∨ c = .u16 ∨ c = .u32 ∨ c = .u64) ∧ Unsigned cs

theorem Code.bound_eq_of_unsigned (c : Code) (h : c = .u8 ∨ c = .u16 ∨ c = .u32 ∨ c = .u64) :
    c.bound = 256 ^ c.size := by
  rcases h with h | h | h | h <;> subst h <;> decide

theorem packCodes_unpackCodes (big : Bool) (cs : List Code) (buf : Bytes)
    (hu : Unsigned cs) (hl : codesSize cs ≤ buf.length) :
    packCodes big cs (unpackCodes big cs buf) = .ok (buf.take (codesSize cs)) := by
  induction cs generalizing buf with
  | nil => simp [packCodes, unpackCodes, codesSize]
  | cons c cs ih =>
    simp only [codesSize] at hl
    obtain ⟨hc, hcs⟩ := hu
    have hlen : (buf.take c.size).length = c.size := by simp; omega
    have hb : decInt big (buf.take c.size) < c.bound := by
      rw [c.bound_eq_of_unsigned hc]
      have := decInt_lt big (buf.take c.size)
      rwa [hlen] at this
    simp only [unpackCodes, packCodes, hb, if_true]
    rw [ih (buf.drop c.size) hcs (by simp; omega)]
    have h2 := encInt_decInt big (buf.take c.size)
    rw [hlen] at h2
    simp only [h2, codesSize]
    rw [List.take_add]

/-- the bytes `struct.pack` produces when every value fits (no error branches) -/
def encCodes (big : Bool) : List Code → List Nat → Bytes
  | c :: cs, v :: vs => encInt big c.size v ++ encCodes big cs vs
  | _, _ => []

theorem packCodes_eq (big : Bool) (cs : List Code) (vs : List Nat) (h : Fits cs vs) :
    packCodes big cs vs = .ok (encCodes big cs vs) := by
  induction cs generalizing vs with
  | nil => cases vs <;> simp_all [packCodes, encCodes, Fits]
  | cons c cs ih =>
    cases vs with
    | nil => simp [Fits] at h
    | cons v vs =>
      obtain ⟨hv, hr⟩ := h
      simp [packCodes, encCodes, hv, ih vs hr]

theorem structPack_eq (f : Fmt) (vs : List Nat) (h : Fits f.codes vs) :
    structPack f vs = .ok (encCodes f.big f.codes vs) := packCodes_eq _ _ _ h

/-- the three generic lemmas of DESIGN §3 at the `Fmt` level -/
theorem structPack_length (f : Fmt) (vs : List Nat) (b : Bytes) (h : structPack f vs = .ok b) :
    b.length = f.size := packCodes_length _ _ _ _ h

theorem structUnpackFrom_structPack (f : Fmt) (vs : List Nat) (b rest : Bytes)
    (h : structPack f vs = .ok b) : structUnpackFrom f (b ++ rest) 0 = .ok vs := by
  have hl := structPack_length f vs b h
  simp only [structUnpackFrom, Nat.zero_add, List.length_append, hl, Nat.le_add_right, if_true,
    List.drop_zero]
  rw [unpackCodes_packCodes f.big f.codes vs b rest h]

theorem structUnpackFrom_append (f : Fmt) (vs : List Nat) (pre b rest : Bytes)
    (h : structPack f vs = .ok b) :
    structUnpackFrom f (pre ++ (b ++ rest)) pre.length = .ok vs := by
  have hl := structPack_length f vs b h
  have hle : pre.length + f.size ≤ (pre ++ (b ++ rest)).length := by
    simp [hl]
  simp only [structUnpackFrom, hle, if_true, List.drop_left']
  rw [unpackCodes_packCodes f.big f.codes vs b rest h]

theorem structUnpack_structPack (f : Fmt) (vs : List Nat) (b : Bytes)
    (h : structPack f vs = .ok b) : structUnpack f b = .ok vs := by
  have hl := structPack_length f vs b h
  have := unpackCodes_packCodes f.big f.codes vs b [] h
  simp only [List.append_nil] at this
  simp [structUnpack, hl, this]

theorem encCodes_length (big : Bool) (cs : List Code) (vs : List Nat) (h : Fits cs vs) :
    (encCodes big cs vs).length = codesSize cs :=
  packCodes_length big cs vs _ (packCodes_eq big cs vs h)

/-- decoding at offset `pre.length` of `pre ++ enc ++ rest` returns the encoded values -/
theorem structUnpackFrom_enc (f : Fmt) (vs : List Nat) (pre rest : Bytes) (h : Fits f.codes vs)
    (off : Nat) (hoff : off = pre.length) :
    structUnpackFrom f (pre ++ (encCodes f.big f.codes vs ++ rest)) off = .ok vs := by
  subst hoff
  exact structUnpackFrom_append f vs pre _ rest (structPack_eq f vs h)

theorem structUnpackFrom_enc0 (f : Fmt) (vs : List Nat) (rest : Bytes) (h : Fits f.codes vs) :
    structUnpackFrom f (encCodes f.big f.codes vs ++ rest) 0 = .ok vs :=
  structUnpackFrom_structPack f vs _ rest (structPack_eq f vs h)

theorem structUnpack_enc (f : Fmt) (vs : List Nat) (h : Fits f.codes vs) :
    structUnpack f (encCodes f.big f.codes vs) = .ok vs :=
  structUnpack_structPack f vs _ (structPack_eq f vs h)

/-- the only way `struct.unpack_from` / `struct.unpack` fail is `struct.error` -/
theorem structUnpackFrom_error (f : Fmt) (buf : Bytes) (off : Nat) (e : Err)
    (h : structUnpackFrom f buf off = .error e) : e = .struct := by
  unfold structUnpackFrom at h; split at h <;> simp_all

theorem structUnpack_error (f : Fmt) (buf : Bytes) (e : Err)
    (h : structUnpack f buf = .error e) : e = .struct := by
  unfold structUnpack at h; split at h <;> simp_all

theorem structUnpack_ok_length (f : Fmt) (buf : Bytes) (vs : List Nat)
    (h : structUnpack f buf = .ok vs) : buf.length = f.size := by
  unfold structUnpack at h; split at h <;> simp_all

theorem structUnpackFrom_ok_length (f : Fmt) (buf : Bytes) (off : Nat) (vs : List Nat)
    (h : structUnpackFrom f buf off = .ok vs) : off + f.size ≤ buf.length := by
  unfold structUnpackFrom at h; split at h <;> simp_all

theorem structPack_error (f : Fmt) (vs : List Nat) (e : Err) (h : structPack f vs = .error e) : e = .struct := by
  unfold structPack at h
  generalize f.codes = cs at h
  induction cs generalizing vs with
  | nil => cases vs <;> simp_all [packCodes]
  | cons c cs ih =>
    cases vs with
    | nil => simp_all [packCodes]
    | cons v vs =>
      simp only [packCodes] at h
      split at h
      · cases h2 : packCodes f.big cs vs with
        | ok r => simp [h2] at h
        | error e' => simp only [h2, Except.error.injEq] at h; subst h; exact ih vs h2
      · simp_all

theorem structPack_ok_iff (f : Fmt) (vs : List Nat) :
    (∃ b, structPack f vs = .ok b) ↔ Fits f.codes vs := packCodes_ok_iff _ _ _

theorem structUnpackFrom_ok_iff (f : Fmt) (buf : Bytes) (off : Nat) :
    (structUnpackFrom f buf off).isOk = true ↔ off + f.size ≤ buf.length := by
  unfold structUnpackFrom; split <;> simp_all [R.isOk] <;> omega

end Acra.Py
