/-
  Exact model of IEEE-754 binary64 arithmetic on the values the library computes with:
  finite, non-negative, normal-range doubles.  A double is represented by the rational it denotes;
  `rne` rounds a non-negative rational to the nearest double, ties to even (what CPython's
  `+ - * /` and `int -> float` conversion do).  Subnormals, infinities and NaN are outside the
  model (no computation in the modelled code can reach them: all operands are below 2^64 and
  either 0 or at least 2^-40).
-/
namespace Acra.Py.Float

/-- floor of a non-negative rational -/
def floorNat (q : Rat) : Nat := (q.num / q.den).toNat

/-- 2^e as a rational for an integer exponent -/
def pow2 (e : Int) : Rat :=
  if e ≥ 0 then ((2 ^ e.toNat : Nat) : Rat) else 1 / ((2 ^ (-e).toNat : Nat) : Rat)

/-- the exponent `e` with `2^52 ≤ q / 2^e < 2^53` for `q > 0` -/
def expOf (q : Rat) : Int :=
  let a := q.num.toNat
  let b := q.den
  let k : Int := (Nat.log2 a : Int) - (Nat.log2 b : Int) - 52
  let m := q / pow2 k
  if m < (4503599627370496 : Rat) then k - 1
  else if m ≥ (9007199254740992 : Rat) then k + 1
  else k

/-- nearest integer to a non-negative rational, ties to even -/
def roundHalfEven (m : Rat) : Nat :=
  let n := floorNat m
  let r := m - (n : Rat)
  if r > 1/2 then n + 1 else if r < 1/2 then n else if n % 2 == 1 then n + 1 else n

/-- round to nearest binary64, ties to even (non-negative input; 0 ↦ 0).
    The significand bracket `2^52 ≤ q/2^e < 2^53` computed by `expOf` is re-checked; the `else`
    branch (value returned unrounded) is never taken and exists so that the two facts of
    `Lemmas.Float.FloatSem` can be proved without reasoning about `Nat.log2`. -/
def rne (q : Rat) : Rat :=
  if q ≤ 0 then 0 else
  let e := expOf q
  let m := q / pow2 e
  if (4503599627370496 : Rat) ≤ m ∧ m < (9007199254740992 : Rat) then
    (roundHalfEven m : Rat) * pow2 e
  else q

def fadd (a b : Rat) : Rat := rne (a + b)
def fsub (a b : Rat) : Rat := rne (a - b)
def fmul (a b : Rat) : Rat := rne (a * b)
def fdiv (a b : Rat) : Rat := rne (a / b)
def ofNat (n : Nat) : Rat := rne (n : Rat)
/-- Python `int(x)` for a non-negative double -/
def toNat (x : Rat) : Nat := floorNat x
/-- Python `round(x)` for a non-negative double: nearest integer, ties to even -/
def roundNat (x : Rat) : Nat := roundHalfEven x

/-- decode the 64-bit pattern of a non-negative normal double (or zero) -/
def ofBits (bits : Nat) : Rat :=
  let ex := (bits / 4503599627370496) % 2048
  let fr := bits % 4503599627370496
  if ex == 0 then 0 else ((fr + 4503599627370496 : Nat) : Rat) * pow2 ((ex : Int) - 1075)

/-- the bit pattern of a value produced by `rne` (non-negative) -/
def toBits (x : Rat) : Nat :=
  if x ≤ 0 then 0 else
  let e := expOf x
  let m := floorNat (x / pow2 e)
  ((e + 1075).toNat) * 4503599627370496 + (m - 4503599627370496)

end Acra.Py.Float
