/-
  Python semantics prelude, part 6: the operators of Python's unbounded `int` over Lean `Int`, and the
  few built-ins the source translator (`harness/translate.py`) emits.  Core Lean only.

  Every definition here is the meaning the translator gives to one Python construct; the translator
  emits nothing else.  Where a Python operator can raise (`x >> k` / `x << k` with `k < 0`: ValueError,
  `x // 0`, `x % 0`: ZeroDivisionError, `seq[i]` out of range: IndexError) the translator only emits
  the total function below after it has SHOWN by its interval analysis that the exceptional case
  cannot occur (shift count `≥ 0`, divisor a non-zero constant, `0 ≤ i < len`); otherwise it emits
  the raising variant (`getByte`, `getItem`) or refuses the function.

  Negative operands: `&`, `|`, `^`, `~` are the infinite two's-complement operations
  (`-(n+1) = ~n`), `>>` is the floor shift, `//` and `%` are floor division and its remainder
  (sign of the divisor).  The `example`s at the end compare the bitwise operations with 8-bit
  two's complement on the whole square [-16,16)².
-/
import Acra.Py.Struct
namespace Acra.Py

/-! ### `//`, `%`, `>>`, `<<`, `~` -/

/-- Python `a // b` (floor division; the translator shows `b ≠ 0`) -/
def floordiv (a b : Int) : Int := Int.fdiv a b

/-- Python `a % b` (remainder of floor division, sign of `b`; the translator shows `b ≠ 0`) -/
def pymod (a b : Int) : Int := Int.fmod a b

/-- Python `x >> k` (the translator shows `k ≥ 0`): `⌊x / 2^k⌋` -/
def shr (x k : Int) : Int := x >>> k.toNat

/-- Python `x << k` (the translator shows `k ≥ 0`): `x * 2^k` -/
def shl (x k : Int) : Int := x <<< k.toNat

/-- Python `~x` -/
def inv (x : Int) : Int := -x - 1

/-! ### `&`, `|`, `^` on infinite two's complement: `Int.negSucc n` is `~n` -/

/-- Python `a & b` -/
def band : Int → Int → Int
  | .ofNat a, .ofNat b => .ofNat (a &&& b)
  | .ofNat a, .negSucc b => .ofNat (a - (a &&& b))          -- a & ~b
  | .negSucc a, .ofNat b => .ofNat (b - (a &&& b))          -- ~a & b
  | .negSucc a, .negSucc b => .negSucc (a ||| b)            -- ~a & ~b = ~(a | b)

/-- Python `a | b` -/
def bor : Int → Int → Int
  | .ofNat a, .ofNat b => .ofNat (a ||| b)
  | .ofNat a, .negSucc b => .negSucc (b - (a &&& b))        -- a | ~b = ~(b & ~a)
  | .negSucc a, .ofNat b => .negSucc (a - (a &&& b))        -- ~a | b = ~(a & ~b)
  | .negSucc a, .negSucc b => .negSucc (a &&& b)            -- ~a | ~b = ~(a & b)

/-- Python `a ^ b` -/
def bxor : Int → Int → Int
  | .ofNat a, .ofNat b => .ofNat (a ^^^ b)
  | .ofNat a, .negSucc b => .negSucc (a ^^^ b)              -- a ^ ~b = ~(a ^ b)
  | .negSucc a, .ofNat b => .negSucc (a ^^^ b)
  | .negSucc a, .negSucc b => .ofNat (a ^^^ b)              -- ~a ^ ~b = a ^ b

/-! ### agreement with the `Nat` operations on casts -/

@[simp] theorem floordiv_natCast (a b : Nat) : floordiv (a : Int) (b : Int) = ((a / b : Nat) : Int) := by
  unfold floordiv
  rw [Int.fdiv_eq_ediv_of_nonneg _ (Int.natCast_nonneg b)]
  rfl

@[simp] theorem pymod_natCast (a b : Nat) : pymod (a : Int) (b : Int) = ((a % b : Nat) : Int) := by
  unfold pymod
  rw [Int.fmod_eq_emod_of_nonneg _ (Int.natCast_nonneg b)]
  rfl

theorem floordiv_of_pos (a b : Int) (hb : 0 ≤ b) : floordiv a b = a / b := by
  unfold floordiv; exact Int.fdiv_eq_ediv_of_nonneg _ hb

theorem pymod_of_pos (a b : Int) (hb : 0 ≤ b) : pymod a b = a % b := by
  unfold pymod; exact Int.fmod_eq_emod_of_nonneg _ hb

@[simp] theorem shr_natCast (a : Nat) (k : Int) : shr (a : Int) k = ((a >>> k.toNat : Nat) : Int) := rfl

@[simp] theorem shl_natCast (a : Nat) (k : Int) : shl (a : Int) k = ((a <<< k.toNat : Nat) : Int) := rfl

theorem shr_eq_div (x k : Int) : shr x k = x / ((2 ^ k.toNat : Nat) : Int) := by
  unfold shr; exact Int.shiftRight_eq_div_pow x k.toNat

theorem shl_eq_mul (x k : Int) : shl x k = x * ((2 ^ k.toNat : Nat) : Int) := by
  unfold shl
  cases x with
  | ofNat n =>
    show ((n <<< k.toNat : Nat) : Int) = (n : Int) * _
    rw [Nat.shiftLeft_eq]; exact Int.natCast_mul _ _
  | negSucc n =>
    show Int.negSucc (((n + 1) <<< k.toNat) - 1) = _
    rw [Nat.shiftLeft_eq]
    have hp : 0 < 2 ^ k.toNat := Nat.two_pow_pos _
    have h1 : 0 < (n + 1) * 2 ^ k.toNat := Nat.mul_pos (Nat.succ_pos n) hp
    rw [Int.negSucc_eq, Int.negSucc_eq]
    have : (((n + 1) * 2 ^ k.toNat - 1 : Nat) : Int) = ((n + 1) * 2 ^ k.toNat : Nat) - 1 := by omega
    rw [this, Int.natCast_mul]
    simp only [Int.natCast_add, Int.natCast_one]
    rw [Int.neg_mul]; omega

@[simp] theorem band_natCast (a b : Nat) : band (a : Int) (b : Int) = ((a &&& b : Nat) : Int) := rfl
@[simp] theorem bor_natCast (a b : Nat) : bor (a : Int) (b : Int) = ((a ||| b : Nat) : Int) := rfl
@[simp] theorem bxor_natCast (a b : Nat) : bxor (a : Int) (b : Int) = ((a ^^^ b : Nat) : Int) := rfl

/-- an `Int` numeral is the cast of the `Nat` numeral (used to bring literals into the shape of the
    `_natCast` lemmas: `simp only [lit, …]`) -/
theorem lit (n : Nat) : (OfNat.ofNat n : Int) = ((OfNat.ofNat n : Nat) : Int) := rfl

@[simp] theorem band_natCast_lit (a n : Nat) :
    band (a : Int) (no_index (OfNat.ofNat n)) = ((a &&& OfNat.ofNat n : Nat) : Int) := rfl
@[simp] theorem band_lit_natCast (a n : Nat) :
    band (no_index (OfNat.ofNat n)) (a : Int) = ((OfNat.ofNat n &&& a : Nat) : Int) := rfl
@[simp] theorem bor_natCast_lit (a n : Nat) :
    bor (a : Int) (no_index (OfNat.ofNat n)) = ((a ||| OfNat.ofNat n : Nat) : Int) := rfl
@[simp] theorem bor_lit_natCast (a n : Nat) :
    bor (no_index (OfNat.ofNat n)) (a : Int) = ((OfNat.ofNat n ||| a : Nat) : Int) := rfl
@[simp] theorem bxor_natCast_lit (a n : Nat) :
    bxor (a : Int) (no_index (OfNat.ofNat n)) = ((a ^^^ OfNat.ofNat n : Nat) : Int) := rfl
@[simp] theorem bxor_lit_natCast (a n : Nat) :
    bxor (no_index (OfNat.ofNat n)) (a : Int) = ((OfNat.ofNat n ^^^ a : Nat) : Int) := rfl
@[simp] theorem floordiv_natCast_lit (a n : Nat) :
    floordiv (a : Int) (no_index (OfNat.ofNat n)) = ((a / OfNat.ofNat n : Nat) : Int) :=
  floordiv_natCast a n
@[simp] theorem pymod_natCast_lit (a n : Nat) :
    pymod (a : Int) (no_index (OfNat.ofNat n)) = ((a % OfNat.ofNat n : Nat) : Int) :=
  pymod_natCast a n
@[simp] theorem shl_lit (n : Nat) (k : Int) :
    shl (no_index (OfNat.ofNat n)) k = (((OfNat.ofNat n : Nat) <<< k.toNat : Nat) : Int) := rfl
@[simp] theorem shr_lit (n : Nat) (k : Int) :
    shr (no_index (OfNat.ofNat n)) k = (((OfNat.ofNat n : Nat) >>> k.toNat : Nat) : Int) := rfl

/-- a conditional between two casts is the cast of the conditional -/
theorem natCast_ite (c : Prop) [Decidable c] (a b : Nat) :
    (if c then (a : Int) else (b : Int)) = ((if c then a else b : Nat) : Int) := by
  split <;> rfl

@[simp] theorem toNat_lit (n : Nat) : Int.toNat (no_index (OfNat.ofNat n)) = OfNat.ofNat n := rfl

/-- `~s & m` for non-negative `s`, `m`: the bits of `m` not in `s` -/
@[simp] theorem band_inv_natCast (s m : Nat) : band (inv (s : Int)) (m : Int) = ((m - (s &&& m) : Nat) : Int) := by
  have : inv (s : Int) = Int.negSucc s := by unfold inv; rw [Int.negSucc_eq]; omega
  rw [this]; rfl

@[simp] theorem band_inv_natCast_lit (s n : Nat) :
    band (inv (s : Int)) (no_index (OfNat.ofNat n)) = ((OfNat.ofNat n - (s &&& OfNat.ofNat n) : Nat) : Int) :=
  band_inv_natCast s n

theorem inv_natCast (s : Nat) : inv (s : Int) = Int.negSucc s := by
  unfold inv; rw [Int.negSucc_eq]; omega

/-! ### built-ins -/

/-- `len(x)` -/
def len (l : List α) : Int := (l.length : Int)

/-- `range(n)` as the list of its values -/
def range (n : Int) : List Int := (List.range n.toNat).map Int.ofNat

/-- `range(a, b)` -/
def range2 (a b : Int) : List Int := (List.range (b - a).toNat).map (fun (i : Nat) => a + (i : Int))

/-- `range(a, b, s)` for a positive constant step `s` (the translator checks `s > 0`) -/
def range3 (a b s : Int) : List Int :=
  (List.range (((b - a) + (s - 1)) / s).toNat).map (fun (i : Nat) => a + (i : Int) * s)

/-- iterating over a `bytes` object yields ints -/
def bytesInts (b : Bytes) : List Int := b.map (fun x => (x.toNat : Int))

/-- `b[i]` on `bytes`, emitted only where the translator has shown `0 ≤ i < len(b)` -/
def byteAt (b : Bytes) (i : Int) : Int := ((b.getD i.toNat 0).toNat : Int)

/-- `t[i]` on a list / tuple of ints, emitted only where the translator has shown `0 ≤ i < len(t)` -/
def intAt (t : List Int) (i : Int) : Int := t.getD i.toNat 0

/-- `t[i] = v` on a list of ints, emitted only where the translator has shown `0 ≤ i < len(t)` -/
def setAt (t : List Int) (i : Int) (v : Int) : List Int := t.set i.toNat v

/-- `b[i]` on `bytes` with Python's index rules: negative indices count from the end, otherwise IndexError -/
def getByte (b : Bytes) (i : Int) : R Int :=
  if 0 ≤ i ∧ i < len b then .ok (byteAt b i)
  else if -(len b) ≤ i ∧ i < 0 then .ok (byteAt b (len b + i))
  else .error .index

/-- `t[i]` on a list / tuple of ints with Python's index rules -/
def getItem (t : List Int) (i : Int) : R Int :=
  if 0 ≤ i ∧ i < len t then .ok (intAt t i)
  else if -(len t) ≤ i ∧ i < 0 then .ok (intAt t (len t + i))
  else .error .index

/-- `b[lo:hi]` for `lo, hi ≥ 0` (shown by the translator) -/
def sliceI (b : List α) (lo hi : Int) : List α := slice b lo.toNat hi.toNat

/-- `a % b` with a divisor that may be zero -/
def pymodE (a b : Int) : R Int := if b = 0 then .error .zeroDiv else .ok (pymod a b)

/-- `a // b` with a divisor that may be zero -/
def floordivE (a b : Int) : R Int := if b = 0 then .error .zeroDiv else .ok (floordiv a b)

/-- `b[start::step]` (constants `start ≥ 0`, `step ≥ 1`): pass over `skip` elements, take one, pass over
    `step - 1`, take one, … -/
def getStride (step : Nat) : Nat → List α → List α
  | _, [] => []
  | 0, x :: xs => x :: getStride step (step - 1) xs
  | k + 1, _ :: xs => getStride step k xs

/-- the list `b` with the positions of `b[start::step]` replaced by `vals`, in order (for equal sizes) -/
def setStride (step : Nat) : Nat → List α → List α → List α
  | _, [], _ => []
  | 0, x :: xs, [] => x :: xs
  | 0, _ :: xs, v :: vs => v :: setStride step (step - 1) xs vs
  | k + 1, x :: xs, vs => x :: setStride step k xs vs

/-- `b[start::step] = vals` on a bytearray / list for a constant `step ≥ 2`: an extended slice keeps its size —
    ValueError unless `len(vals)` equals the size of the slice -/
def strideSetE (b : List α) (start step : Nat) (vals : List α) : R (List α) :=
  if (getStride step start b).length = vals.length then .ok (setStride step start b vals) else .error .value

/-- `b ** e` for ints (the translator shows `e ≥ 0`; a negative exponent would give a float) -/
def pow (b e : Int) : Int := b ^ e.toNat

/-- `while cond: body` on the tuple of the variables the body assigns, for at most `fuel` iterations: `Err.fuel` when
    the loop has not stopped by then (a non-terminating loop shows up as this error; a tie theorem that proves
    `= .ok …` on a domain proves termination within the fuel there) -/
def whileLoop {σ : Type} (cond : σ → Bool) (body : σ → σ) : Nat → σ → R σ
  | 0, _ => .error .fuel
  | fuel + 1, s => if cond s then whileLoop cond body fuel (body s) else .ok s

/-- `while cond: body` where the condition or the body can raise (an index out of range …): the first exception ends
    the loop.  At most `fuel` iterations, `Err.fuel` beyond, exactly as `whileLoop`. -/
def whileLoopM {σ : Type} (cond : σ → R Bool) (body : σ → R σ) : Nat → σ → R σ
  | 0, _ => .error .fuel
  | fuel + 1, s => cond s >>= fun c => if c = true then body s >>= whileLoopM cond body fuel else .ok s

/-- `t[i] = v` on a list of ints with Python's index rules (negative indices count from the end, else IndexError) -/
def setItem (t : List Int) (i : Int) (v : Int) : R (List Int) :=
  if 0 ≤ i ∧ i < len t then .ok (setAt t i v)
  else if -(len t) ≤ i ∧ i < 0 then .ok (setAt t (len t + i) v)
  else .error .index

/-- the binary digits of `n`, most significant first (`fuel` ≥ the number of digits) -/
def binDigitsAux : Nat → Nat → List Bool → List Bool
  | 0, _, acc => acc
  | fuel + 1, n, acc => if n = 0 then acc else binDigitsAux fuel (n / 2) ((n % 2 == 1) :: acc)

/-- `bin(x)` as its list of characters: an optional `-`, then `0b`, then the binary digits of `|x|` (`bin(0) = '0b0'`) -/
def bin (x : Int) : List Char :=
  (if x < 0 then ['-'] else []) ++ ['0', 'b'] ++
    (if x.natAbs = 0 then [false] else binDigitsAux (x.natAbs + 1) x.natAbs []).map (fun b => if b then '1' else '0')

/-- `s.count(c)` for a one-character `c`: the number of occurrences -/
def strCount (c : Char) (s : List Char) : Int := (s.count c : Nat)

/-- `sum(t)` -/
def sum (t : List Int) : Int := t.foldl (· + ·) 0

/-- `functools.reduce(f, t)` without initial value: TypeError on an empty sequence -/
def reduce (f : Int → Int → Int) : List Int → R Int
  | [] => .error .type
  | x :: xs => .ok (xs.foldl f x)

/-- `[v] * n` -/
def replicate (n : Int) (v : Int) : List Int := List.replicate n.toNat v

/-- `struct.unpack(fmt, b)` for unsigned codes, values as Python ints -/
def structUnpackI (f : Fmt) (b : Bytes) : R (List Int) :=
  match structUnpack f b with
  | .ok vs => .ok (vs.map Int.ofNat)
  | .error e => .error e

/-- `struct.pack(fmt, *vs)` for unsigned codes: a negative value is out of range (`struct.error`) -/
def structPackI (f : Fmt) (vs : List Int) : R Bytes :=
  if vs.all (fun v => decide (0 ≤ v)) then structPack f (vs.map Int.toNat) else .error .struct

/-- lexicographic `<` on tuples of ints of equal length (the translator checks the lengths) -/
def tupleLt : List Int → List Int → Bool
  | x :: xs, y :: ys => decide (x < y) || (decide (x = y) && tupleLt xs ys)
  | [], _ :: _ => true
  | _, _ => false

/-- lexicographic `<=` on tuples of ints -/
def tupleLe : List Int → List Int → Bool
  | x :: xs, y :: ys => decide (x < y) || (decide (x = y) && tupleLe xs ys)
  | [], _ => true
  | _ :: _, [] => false

@[simp] theorem structUnpackI_eq (f : Fmt) (b : Bytes) :
    structUnpackI f b = (structUnpack f b).map (fun vs => vs.map Int.ofNat) := by
  unfold structUnpackI; cases structUnpack f b <;> rfl

theorem structPackI_natCast (f : Fmt) (vs : List Nat) :
    structPackI f (vs.map Int.ofNat) = structPack f vs := by
  unfold structPackI
  have h1 : (vs.map Int.ofNat).all (fun v => decide (0 ≤ v)) = true := by
    simp [List.all_eq_true]
  have h2 : (vs.map Int.ofNat).map Int.toNat = vs := by
    simp [List.map_map, Function.comp_def]
  rw [if_pos h1, h2]

theorem sum_natCast (t : List Nat) : sum (t.map Int.ofNat) = ((t.sum : Nat) : Int) := by
  unfold sum
  have : ∀ (acc : Nat), (t.map Int.ofNat).foldl (· + ·) (acc : Int) = ((acc + t.sum : Nat) : Int) := by
    induction t with
    | nil => intro acc; simp
    | cons x xs ih =>
      intro acc
      simp only [List.map_cons, List.foldl_cons, List.sum_cons]
      have : (acc : Int) + Int.ofNat x = ((acc + x : Nat) : Int) := by simp
      rw [this, ih]; congr 1; omega
  simpa using this 0

/-! ### sanity: the bitwise operations against 8-bit two's complement on [-16,16)² -/

private def tc8 (x : Int) : Nat := (x % 256).toNat
private def untc8 (n : Nat) : Int := if n < 128 then n else (n : Int) - 256
private def grid : List Int := (List.range 32).map (fun (i : Nat) => (i : Int) - 16)

example : grid.all (fun a => grid.all (fun b => band a b == untc8 (tc8 a &&& tc8 b))) = true := by decide +kernel
example : grid.all (fun a => grid.all (fun b => bor a b == untc8 (tc8 a ||| tc8 b))) = true := by decide +kernel
example : grid.all (fun a => grid.all (fun b => bxor a b == untc8 (tc8 a ^^^ tc8 b))) = true := by decide +kernel
example : grid.all (fun a => inv a == untc8 (255 - tc8 a)) = true := by decide +kernel
example : floordiv (-7) 2 = -4 ∧ pymod (-7) 2 = 1 ∧ floordiv 7 (-2) = -4 ∧ pymod 7 (-2) = -1 ∧
    shr (-5) 1 = -3 ∧ shl (-5) 2 = -20 ∧ inv 5 = -6 ∧ band (-4) 6 = 4 ∧ bor (-4) 1 = -3 ∧ bxor (-1) 5 = -6 := by
  decide

end Acra.Py
