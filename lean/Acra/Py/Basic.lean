/-
  Python semantics prelude, part 1: bytes, errors, integer <-> byte-string conversions.
  Import-free (core Lean only) so that the driver links as a native executable.
-/
namespace Acra.Py

abbrev Bytes := List UInt8

/-- The exception classes the model distinguishes.  `fuel` is never produced by a model
    whose `…_fuel_sufficient` theorem holds; it is how a non-terminating loop shows up. -/
inductive Err where
  | struct | value | generic | index | type | os | fuel
  | attribute | key | zeroDiv | overflow | notImplemented | stopIteration
  | ptdpLength | ptdpRemaining
  deriving DecidableEq, Repr, Inhabited

/-- the name the harness prints for the corresponding Python exception class -/
def Err.name : Err → String
  | .struct => "struct" | .value => "value" | .generic => "generic" | .index => "index"
  | .type => "type" | .os => "os" | .fuel => "fuel" | .attribute => "attribute" | .key => "key"
  | .zeroDiv => "zerodiv" | .overflow => "overflow" | .notImplemented => "notimplemented"
  | .stopIteration => "stopiteration" | .ptdpLength => "ptdplength" | .ptdpRemaining => "ptdpremaining"

abbrev R := Except Err

instance : Inhabited (R α) := ⟨.error .generic⟩

def R.isOk : R α → Bool
  | .ok _ => true
  | .error _ => false

@[simp] theorem R.isOk_ok (a : α) : (Except.ok a : R α).isOk = true := rfl
@[simp] theorem R.isOk_error (e : Err) : (Except.error e : R α).isOk = false := rfl

/-- Python slice `b[lo:hi]` for non-negative `lo`, `hi` (clamping is what `take`/`drop` do). -/
def slice (b : List α) (lo hi : Nat) : List α := (b.take hi).drop lo

/-- Python slice `b[lo:]`. -/
abbrev sliceFrom (b : List α) (lo : Nat) : List α := b.drop lo

@[simp] theorem slice_length (b : List α) (lo hi : Nat) :
    (slice b lo hi).length = min hi b.length - lo := by
  simp [slice]

theorem slice_append_left (a b : List α) (h : hi ≤ a.length) :
    slice (a ++ b) lo hi = slice a lo hi := by
  simp [slice, List.take_append_of_le_length h]

/-- little-endian `k`-byte image of `n` (reduced mod `256^k`) -/
def leBytes : Nat → Nat → Bytes
  | 0, _ => []
  | k+1, n => UInt8.ofNat (n % 256) :: leBytes k (n / 256)

/-- little-endian value of a byte string -/
def leNat : Bytes → Nat
  | [] => 0
  | b :: bs => b.toNat + 256 * leNat bs

def beBytes (k n : Nat) : Bytes := (leBytes k n).reverse
def beNat (bs : Bytes) : Nat := leNat bs.reverse

@[simp] theorem leBytes_length (k n : Nat) : (leBytes k n).length = k := by
  induction k generalizing n with
  | zero => rfl
  | succ k ih => simp [leBytes, ih]

@[simp] theorem beBytes_length (k n : Nat) : (beBytes k n).length = k := by
  simp [beBytes]

theorem toNat_ofNat_mod (n : Nat) : (UInt8.ofNat (n % 256)).toNat = n % 256 := by
  simp [UInt8.toNat_ofNat']

theorem leNat_leBytes (k n : Nat) : leNat (leBytes k n) = n % 256 ^ k := by
  induction k generalizing n with
  | zero => simp [leBytes, leNat, Nat.mod_one]
  | succ k ih =>
    simp only [leBytes, leNat, ih, toNat_ofNat_mod]
    rw [Nat.pow_succ, Nat.mul_comm (256 ^ k) 256, Nat.mod_mul]

theorem leNat_lt (bs : Bytes) : leNat bs < 256 ^ bs.length := by
  induction bs with
  | nil => simp [leNat]
  | cons b bs ih =>
    have hb : b.toNat < 256 := b.toNat_lt
    simp only [leNat, List.length_cons, Nat.pow_succ]
    omega

theorem leBytes_leNat (bs : Bytes) : leBytes bs.length (leNat bs) = bs := by
  induction bs with
  | nil => rfl
  | cons b bs ih =>
    have hb : b.toNat < 256 := b.toNat_lt
    simp only [List.length_cons, leBytes, leNat]
    have h1 : (b.toNat + 256 * leNat bs) % 256 = b.toNat := by omega
    have h2 : (b.toNat + 256 * leNat bs) / 256 = leNat bs := by omega
    rw [h1, h2, ih]
    simp

theorem leNat_leBytes_of_lt (k n : Nat) (h : n < 256 ^ k) : leNat (leBytes k n) = n := by
  rw [leNat_leBytes, Nat.mod_eq_of_lt h]

theorem beNat_beBytes (k n : Nat) : beNat (beBytes k n) = n % 256 ^ k := by
  simp [beNat, beBytes, leNat_leBytes]

theorem beNat_beBytes_of_lt (k n : Nat) (h : n < 256 ^ k) : beNat (beBytes k n) = n := by
  rw [beNat_beBytes, Nat.mod_eq_of_lt h]

theorem beNat_lt (bs : Bytes) : beNat bs < 256 ^ bs.length := by
  have := leNat_lt bs.reverse
  simpa [beNat] using this

theorem beBytes_beNat (bs : Bytes) : beBytes bs.length (beNat bs) = bs := by
  have := leBytes_leNat bs.reverse
  simp only [List.length_reverse] at this
  simp [beBytes, beNat, this]

/-- injectivity on the representable range: used for "differs in one field ⇒ differs in bytes" -/
theorem leBytes_inj (k a b : Nat) (ha : a < 256 ^ k) (hb : b < 256 ^ k)
    (h : leBytes k a = leBytes k b) : a = b := by
  have := congrArg leNat h
  rwa [leNat_leBytes_of_lt k a ha, leNat_leBytes_of_lt k b hb] at this

theorem beBytes_inj (k a b : Nat) (ha : a < 256 ^ k) (hb : b < 256 ^ k)
    (h : beBytes k a = beBytes k b) : a = b := by
  apply leBytes_inj k a b ha hb
  simpa [beBytes] using h

end Acra.Py

namespace Acra.Py

theorem leBytes_add (a b n : Nat) : leBytes (b + a) n = leBytes b n ++ leBytes a (n / 256 ^ b) := by
  induction b generalizing n with
  | zero => simp [leBytes]
  | succ b ih =>
    rw [show b + 1 + a = (b + a) + 1 by omega]
    simp only [leBytes, ih, List.cons_append, Nat.pow_succ]
    rw [Nat.div_div_eq_div_mul, Nat.mul_comm 256]

theorem leBytes_mod (b n : Nat) : leBytes b (n % 256 ^ b) = leBytes b n := by
  induction b generalizing n with
  | zero => simp [leBytes]
  | succ b ih =>
    simp only [leBytes, Nat.pow_succ]
    have h1 : n % (256 ^ b * 256) % 256 = n % 256 := by
      rw [Nat.mul_comm, Nat.mod_mul_right_mod]
    have h2 : n % (256 ^ b * 256) / 256 = (n / 256) % 256 ^ b := by
      rw [Nat.mul_comm, Nat.mod_mul_right_div_self]
    rw [h1, h2, ih]

/-- a `(a+b)`-byte big-endian field is the `a` high bytes followed by the `b` low bytes -/
theorem beBytes_add (a b n : Nat) :
    beBytes (a + b) n = beBytes a (n / 256 ^ b) ++ beBytes b (n % 256 ^ b) := by
  simp only [beBytes]
  rw [Nat.add_comm, leBytes_add, List.reverse_append, leBytes_mod]

end Acra.Py
