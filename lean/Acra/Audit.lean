/-
  `#audit_ns Ns` prints, for every theorem whose name starts with `Ns` (auxiliary declarations
  excluded), one line  `AUDIT <name> :: <axiom> <axiom> …`.  check.py parses these lines and
  accepts only subsets of {propext, Classical.choice, Quot.sound}.
-/
import Lean
open Lean Elab Command

private def isAux (n : Name) : Bool :=
  n.isInternalDetail || n.components.any fun c =>
    let s := c.toString
    s.startsWith "_" || s.startsWith "match_" || s.startsWith "proof_" || s == "eq_def" ||
    (s.startsWith "eq_" && (s.drop 3).all Char.isDigit)

elab "#audit_ns " ns:ident : command => do
  let env ← getEnv
  let nsName := ns.getId
  let names := env.constants.fold (init := #[]) fun acc n ci =>
    match ci with
    | .thmInfo _ => if nsName.isPrefixOf n && !isAux n then acc.push n else acc
    | _ => acc
  let names := names.qsort (fun a b => a.toString < b.toString)
  for n in names do
    let axs ← liftCoreM (collectAxioms n)
    let axs := axs.qsort (fun a b => a.toString < b.toString)
    IO.println s!"AUDIT {n} :: {" ".intercalate (axs.toList.map toString)}"
