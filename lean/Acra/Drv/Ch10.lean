/-
  Line-protocol codecs and functions of the ch10 family:
  Chapter10UDP, Chapter11 (and the deprecated subclass Chapter10), PTPTime, RTCTime, Ch10File
  (FileParser on a temporary file), the PTPTime operators, the two checksum helpers and the C19
  namespace tables.
-/
import Acra.Drv.Core
import Acra.Model.Ch10UDP
import Acra.Model.Ch11
import Acra.Model.Ch10File
import Acra.Gen.Namespace
namespace Acra.Drv
open Acra.Py

namespace Ch10
def unitRes (p : σ × R Unit) (v : Val := .bool true) : σ × R Val := (p.1, p.2.map fun _ => v)
def bytesRes (p : σ × R Bytes) : σ × R Val := (p.1, p.2.map Val.bytes)
def setOk (s : σ) : Option (σ × R Unit) := some (s, .ok ())
def Val.int? : Val → Option Int
  | .int n => some n
  | .bool b => some (if b then 1 else 0)
  | _ => none
end Ch10
open Ch10

/-! ### Chapter10UDP -/
namespace Ch10UDPC
open Acra.Model.Ch10UDP
def set (s : State) (f : String) (v : Val) : Option (State × R Unit) :=
  match f with
  | "version" => v.nat?.bind fun n => setOk { s with version := n }
  | "format" => v.nat?.bind fun n => setOk { s with version := n }
  | "type" => v.nat?.bind fun n => setOk { s with type := n }
  | "channelID" => v.nat?.bind fun n => setOk { s with channelID := n }
  | "channelsequence" => v.nat?.bind fun n => setOk { s with channelsequence := n }
  | "sequence" => v.nat?.bind fun n => setOk { s with sequence := n }
  | "segmentoffset" => v.nat?.bind fun n => setOk { s with segmentoffset := n }
  | "packetsize" => v.optNat?.bind fun n => setOk { s with packetsize := n }
  | "sourceid_len" => v.nat?.bind fun n => setOk { s with sourceid_len := n }
  | "sourceid" => v.nat?.bind fun n => setOk { s with sourceid := n }
  | "offset_pkt_start" => v.optNat?.bind fun n => setOk { s with offset_pkt_start := n }
  | "payload" => v.bytes?.bind fun b => setOk { s with payload := b }
  | _ => none
def obs (s : State) : Val :=
  .obj "Chapter10UDP" [("version", .ofNat s.version), ("format", .ofNat s.version), ("type", .ofNat s.type),
    ("channelID", .ofNat s.channelID), ("channelsequence", .ofNat s.channelsequence),
    ("sequence", .ofNat s.sequence), ("segmentoffset", .ofNat s.segmentoffset),
    ("packetsize", .ofOptNat s.packetsize), ("sourceid_len", .ofNat s.sourceid_len),
    ("sourceid", .ofNat s.sourceid), ("offset_pkt_start", .ofOptNat s.offset_pkt_start),
    ("payload", .bytes s.payload)]
def codec : Codec :=
  { σ := State, name := "Chapter10UDP", fresh := fun _ => some fresh,
    pack := fun s _ => bytesRes (pack s),
    unpack := fun s b _ => unitRes (unpack s b),
    set := set, obs := obs, eq := fun a b => .ok (eq a b) }
end Ch10UDPC

/-! ### PTPTime, RTCTime as codec classes -/
namespace PTPC
open Acra.Model.Ch11
def ofVal (v : Val) : Option PTP := do
  let s ← (← v.field? "seconds").nat?
  let n ← (← v.field? "nanoseconds").nat?
  pure { seconds := s, nanoseconds := n }
def toVal (t : PTP) : Val := .obj "PTPTime" [("seconds", .ofNat t.seconds), ("nanoseconds", .ofNat t.nanoseconds)]
def codec : Codec :=
  { σ := PTP, name := "PTPTime", fresh := fun _ => some ⟨0, 0⟩,
    pack := fun s _ => (s, s.pack.map Val.bytes),
    unpack := fun s b _ => match PTP.unpack b with
      | .ok t => (t, .ok (.bool true))
      | .error e => (s, .error e),
    set := fun s f v => match f with
      | "seconds" => v.nat?.bind fun n => setOk { s with seconds := n }
      | "nanoseconds" => v.nat?.bind fun n => setOk { s with nanoseconds := n }
      | _ => none,
    obs := toVal,
    eq := fun a b => .ok (ptpEq (a.seconds, a.nanoseconds) (b.seconds, b.nanoseconds)),
    call := fun s m _ => match m with
      | "to_pinksheet_rtc" => some (s, .ok (.ofNat (pinksheet s.seconds s.nanoseconds)))
      | _ => none }

def rtcCodec : Codec :=
  { σ := Nat, name := "RTCTime", fresh := fun _ => some 0,
    pack := fun s _ => (s, (rtcPack s).map Val.bytes),
    unpack := fun s b _ => match rtcUnpack b with
      | .ok c => (c, .ok (.bool true))
      | .error e => (s, .error e),
    set := fun _ f v => match f with
      | "count" => v.nat?.bind fun n => setOk n
      | _ => none,
    obs := fun s => .obj "RTCTime" [("count", .ofNat s)],
    eq := fun a b => .ok (a == b),
    call := fun s m _ => match m with
      | "to_rtc" => some (s, .ok (.ofNat s))
      | "to_pinksheet_rtc" => some (s, .ok (.ofNat s))
      | _ => none }
end PTPC

/-! ### Chapter11 / Chapter10 -/
namespace Ch11C
open Acra.Model.Ch11
def set (s : State) (f : String) (v : Val) : Option (State × R Unit) :=
  match f with
  | "syncpattern" => v.nat?.bind fun n => setOk { s with syncpattern := n }
  | "channelID" => v.nat?.bind fun n => setOk { s with channelID := n }
  | "packetlen" => v.nat?.bind fun n => setOk { s with packetlen := n }
  | "datalen" => v.nat?.bind fun n => setOk { s with datalen := n }
  | "datatypeversion" => v.nat?.bind fun n => setOk { s with datatypeversion := n }
  | "sequence" => v.nat?.bind fun n => setOk { s with sequence := n }
  | "packetflag" => v.nat?.map fun n => setPacketflag s n
  | "datatype" => v.nat?.bind fun n => setOk { s with datatype := n }
  | "relativetimecounter" => v.nat?.bind fun n => setOk { s with relativetimecounter := n }
  | "ptptime" => (PTPC.ofVal v).bind fun t => setOk { s with ptptime := t }
  | "ts_source" => v.nat?.bind fun n => setOk { s with ts_source := n }
  | "payload" => v.bytes?.bind fun b => setOk { s with payload := b }
  | "data_checksum_size" => v.nat?.bind fun n => setOk { s with data_checksum_size := n }
  | "filler" => v.bytes?.bind fun b => setOk { s with filler := b }
  | "has_secondary_header" => v.bool?.bind fun b => setOk { s with has_secondary_header := b }
  | _ => none
def fields (s : State) : List (String × Val) :=
  [("syncpattern", .ofNat s.syncpattern), ("channelID", .ofNat s.channelID), ("packetlen", .ofNat s.packetlen),
   ("datalen", .ofNat s.datalen), ("datatypeversion", .ofNat s.datatypeversion), ("sequence", .ofNat s.sequence),
   ("packetflag", .ofNat s.packetflag), ("datatype", .ofNat s.datatype),
   ("relativetimecounter", .ofNat s.relativetimecounter), ("ptptime", PTPC.toVal s.ptptime),
   ("ts_source", .ofNat s.ts_source), ("payload", .bytes s.payload),
   ("data_checksum_size", .ofNat s.data_checksum_size), ("filler", .bytes s.filler),
   ("has_secondary_header", .bool s.has_secondary_header)]
/-- build an object the way the harness does: fresh object, then the listed fields assigned in order -/
def ofVal (v : Val) : Option State :=
  match v with
  | .obj _ fs => fs.foldlM (fun s (kv : String × Val) =>
      match set s kv.1 kv.2 with
      | some (s', .ok ()) => some s'
      | _ => none) fresh
  | _ => none
def mk (name : String) : Codec :=
  { σ := State, name := name, fresh := fun _ => some fresh,
    pack := fun s _ => bytesRes (pack s),
    unpack := fun s b _ => unitRes (unpack s b),
    set := set, obs := fun s => .obj name (fields s), eq := fun a b => .ok (eq a b) }
end Ch11C

/-! ### FileParser on a temporary file -/
namespace FileC
open Acra.Model.Ch10File
structure St where
  data : Bytes
  off : Nat

def itemOfVal (v : Val) : Item :=
  match v with
  | .bytes b => .raw b
  | .obj "Chapter11" _ | .obj "Chapter10" _ =>
    match Ch11C.ofVal v with
    | some s => .packed (Acra.Model.Ch11.pack s).2
    | none => .other
  | _ => .other

def call (s : St) (m : String) (args : List Val) : Option (St × R Val) :=
  match m, args with
  | "next", [] =>
    match next s.data s.off with
    | .error e => some (s, .error e)
    | .ok (o, none) => some ({ s with off := o }, .ok .null)
    | .ok (o, some p) => some ({ s with off := o }, .ok (.bytes p))
  | "iter", [] =>
    match iterate s.data s.off with
    | .error e => some (s, .error e)
    | .ok (ps, o) => some ({ s with off := o }, .ok (.list (ps.map Val.bytes)))
  | "offset", [] => some (s, .ok (.ofNat s.off))
  | "reopen", [] => some ({ s with off := 0 }, .ok .null)
  | "truncate", [v] => v.nat?.map fun n => ({ s with data := s.data.take n }, .ok .null)
  | "write", [.str mode, .list items] =>
    let (d, r) := writeAll s.data mode (items.map itemOfVal)
    some ({ s with data := d }, r.map fun _ => .null)
  | _, _ => none

def codec : Codec :=
  { σ := St, name := "Ch10File", fresh := fun _ => some ⟨[], 0⟩,
    pack := fun s _ => (s, .ok (.bytes s.data)),
    unpack := fun _ b _ => (⟨b, 0⟩, .ok (.bool true)),
    set := fun _ _ _ => none,
    obs := fun s => .obj "Ch10File" [("data", .bytes s.data), ("offset", .ofNat s.off)],
    eq := fun _ _ => .error .notImplemented,
    call := call }
end FileC

/-! ### functions -/
namespace Ch10F
open Acra.Model.Ch11

def ptpVal (p : IPTP) : Val := .obj "PTPTime" [("seconds", .int p.1), ("nanoseconds", .int p.2)]

def four (vs : List Val) : Option (IPTP × IPTP) :=
  match vs.mapM Val.int? with
  | some [a, b, c, d] => some ((a, b), (c, d))
  | _ => none

def rel (name : String) (f : IPTP → IPTP → Bool) : Func :=
  { name := name, run := fun vs => (four vs).map fun (a, b) => .ok (.bool (f a b)) }

def bytes1 (vs : List Val) : Option Bytes :=
  match vs with
  | [.bytes b] => some b
  | _ => none

def lookupStr {β} (k : String) (l : List (String × β)) : Option β := (l.find? (·.1 == k)).map (·.2)

/-- names a legacy module binds, as predicted from the generated tables:
    (names that are the target's own objects, other names, warning categories raised at import) -/
def nsPredict (L : String) : Option (List String × List String × List String) := do
  let stmts ← lookupStr L Acra.Gen.Namespace.legacy
  let tpub := stmts.flatMap fun (k, m, _) =>
    if k == "star" || k == "names" then (lookupStr m Acra.Gen.Namespace.targetPublic).getD [] else []
  let same := stmts.flatMap fun (k, _, ns) =>
    if k == "star" then tpub
    else if k == "names" then ns
    else if k == "import" then ns.filter (tpub.contains ·) else []
  let other := stmts.flatMap fun (k, m, ns) =>
    if k == "import" then ns.filter (!tpub.contains ·) else if k == "class" then [m] else []
  let warns := stmts.flatMap fun (k, m, _) => if k == "warn" then [m] else []
  pure (same.eraseDups, other.eraseDups, warns.eraseDups)

def strs (l : List String) : Val := .list ((l.toArray.qsort (· < ·)).toList.map Val.str)

def funcs : List Func := [
  { name := "ptp.add", run := fun vs => (four vs).map fun (a, b) => .ok (ptpVal (ptpAdd a b)) },
  { name := "ptp.sub", run := fun vs => (four vs).map fun (a, b) => .ok (ptpVal (ptpSub a b)) },
  rel "ptp.lt" ptpLt, rel "ptp.le" ptpLe, rel "ptp.gt" ptpGt, rel "ptp.ge" ptpGe, rel "ptp.eq" ptpEq,
  { name := "ptp.ne", run := fun vs => (four vs).map fun (a, b) => .ok (.bool (!ptpEq a b)) },
  { name := "ptp.pinksheet", run := fun vs => match natArgs vs with
      | some [s, n] => some (.ok (.ofNat (pinksheet s n)))
      | _ => none },
  { name := "get_checksum_buf", run := fun vs => (bytes1 vs).map fun b => (getChecksumBuf b).map Val.ofNat },
  { name := "get_checksum_byte_buf", run := fun vs => (bytes1 vs).map fun b => (getChecksumByteBuf b).map Val.ofNat },
  { name := "ns.same", run := fun vs => match vs with
      | [.str L] => (nsPredict L).map fun (a, _, _) => .ok (strs a)
      | _ => none },
  { name := "ns.other", run := fun vs => match vs with
      | [.str L] => (nsPredict L).map fun (_, b, _) => .ok (strs b)
      | _ => none },
  { name := "ns.warnings", run := fun vs => match vs with
      | [.str L] => (nsPredict L).map fun (_, _, c) => .ok (strs c)
      | _ => none },
  { name := "ns.modules", run := fun vs => match vs with
      | [] => some (.ok (strs (Acra.Gen.Namespace.legacy.map (·.1))))
      | _ => none }
]
end Ch10F

def ch10Codecs : List Codec :=
  [Ch10UDPC.codec, PTPC.codec, PTPC.rtcCodec, Ch11C.mk "Chapter11", Ch11C.mk "Chapter10", FileC.codec]
def ch10Funcs : List Func := Ch10F.funcs

end Acra.Drv
