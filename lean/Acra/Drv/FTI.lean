import Acra.Drv.Core
import Acra.Model.iNetX
namespace Acra.Drv
open Acra.Py

def unitRes (p : σ × R Unit) (v : Val := .bool true) : σ × R Val :=
  (p.1, p.2.map fun _ => v)
def bytesRes (p : σ × R Bytes) : σ × R Val := (p.1, p.2.map Val.bytes)
def setOk (s : σ) : Option (σ × R Unit) := some (s, .ok ())

namespace iNetXC
open Acra.Model.iNetX
def set (s : State) (f : String) (v : Val) : Option (State × R Unit) :=
  match f with
  | "inetxcontrol" => v.nat?.bind fun n => setOk { s with inetxcontrol := n }
  | "streamid" => v.nat?.bind fun n => setOk { s with streamid := n }
  | "sequence" => v.nat?.bind fun n => setOk { s with sequence := n }
  | "packetlen" => v.nat?.bind fun n => setOk { s with packetlen := n }
  | "ptptimeseconds" => v.nat?.bind fun n => setOk { s with ptptimeseconds := n }
  | "ptptimenanoseconds" => v.nat?.bind fun n => setOk { s with ptptimenanoseconds := n }
  | "pif" => v.nat?.bind fun n => setOk { s with pif := n }
  | "payload" => v.bytes?.bind fun b => setOk { s with payload := b }
  | _ => none
def obs (s : State) : Val :=
  .obj "iNetX" [("inetxcontrol", .ofNat s.inetxcontrol), ("streamid", .ofNat s.streamid),
    ("sequence", .ofNat s.sequence), ("packetlen", .ofNat s.packetlen),
    ("ptptimeseconds", .ofNat s.ptptimeseconds), ("ptptimenanoseconds", .ofNat s.ptptimenanoseconds),
    ("pif", .ofNat s.pif), ("payload", .bytes s.payload)]
def codec : Codec :=
  { σ := State, name := "iNetX", fresh := fun _ => some fresh,
    pack := fun s _ => bytesRes (pack s),
    unpack := fun s b _ => unitRes (unpack s b),
    set := set, obs := obs, eq := fun a b => .ok (eq a b) }
end iNetXC

def ftiCodecs : List Codec := [iNetXC.codec]
def ftiFuncs : List Func := []

end Acra.Drv
