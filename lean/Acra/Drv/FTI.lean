import Acra.Drv.Core
import Acra.Model.iNetX
import Acra.Model.IENA
namespace Acra.Drv
open Acra.Py

def unitRes (p : σ × R Unit) (v : Val := .bool true) : σ × R Val :=
  (p.1, p.2.map fun _ => v)
def bytesRes (p : σ × R Bytes) : σ × R Val := (p.1, p.2.map Val.bytes)
def setOk (s : σ) : Option (σ × R Unit) := some (s, .ok ())

namespace iNetXC
open Acra.Model.iNetX
def set (s : State) (f : String) (v : Val) : Option (State × R Unit) :=
  match f with
  | "inetxcontrol" => v.nat?.bind fun n => setOk { s with inetxcontrol := n }
  | "streamid" => v.nat?.bind fun n => setOk { s with streamid := n }
  | "sequence" => v.nat?.bind fun n => setOk { s with sequence := n }
  | "packetlen" => v.nat?.bind fun n => setOk { s with packetlen := n }
  | "ptptimeseconds" => v.nat?.bind fun n => setOk { s with ptptimeseconds := n }
  | "ptptimenanoseconds" => v.nat?.bind fun n => setOk { s with ptptimenanoseconds := n }
  | "pif" => v.nat?.bind fun n => setOk { s with pif := n }
  | "payload" => v.bytes?.bind fun b => setOk { s with payload := b }
  | _ => none
def obs (s : State) : Val :=
  .obj "iNetX" [("inetxcontrol", .ofNat s.inetxcontrol), ("streamid", .ofNat s.streamid),
    ("sequence", .ofNat s.sequence), ("packetlen", .ofNat s.packetlen),
    ("ptptimeseconds", .ofNat s.ptptimeseconds), ("ptptimenanoseconds", .ofNat s.ptptimenanoseconds),
    ("pif", .ofNat s.pif), ("payload", .bytes s.payload)]
def codec : Codec :=
  { σ := State, name := "iNetX", fresh := fun _ => some fresh,
    pack := fun s _ => bytesRes (pack s),
    unpack := fun s b _ => unitRes (unpack s b),
    set := set, obs := obs, eq := fun a b => .ok (eq a b) }
end iNetXC

namespace IENAC
open Acra.Model.IENA

def setBase (s : Base) (f : String) (v : Val) : Option Base :=
  match f with
  | "key" => v.nat?.map fun n => { s with key := n }
  | "size" => v.nat?.map fun n => { s with size := n }
  | "timeusec" => v.nat?.map fun n => { s with timeusec := n }
  | "keystatus" => v.nat?.map fun n => { s with keystatus := n }
  | "status" => v.nat?.map fun n => { s with status := n }
  | "sequence" => v.nat?.map fun n => { s with sequence := n }
  | "endfield" => v.nat?.map fun n => { s with endfield := n }
  | "payload" => v.bytes?.map fun b => { s with payload := b }
  | "lengthError" => v.bool?.map fun b => { s with lengthError := b }
  | _ => none

def baseFields (s : Base) : List (String × Val) :=
  [("key", .ofNat s.key), ("size", .ofNat s.size), ("timeusec", .ofNat s.timeusec),
   ("keystatus", .ofNat s.keystatus), ("status", .ofNat s.status), ("sequence", .ofNat s.sequence),
   ("endfield", .ofNat s.endfield), ("payload", .bytes s.payload), ("lengthError", .bool s.lengthError)]

def codec : Codec :=
  { σ := Base, name := "IENA", fresh := fun _ => some Base.fresh,
    pack := fun s _ => bytesRes (Base.pack s),
    unpack := fun s b _ => unitRes (Base.unpack s b),
    set := fun s f v => (setBase s f v).bind setOk,
    obs := fun s => .obj "IENA" (baseFields s), eq := fun a b => .ok (Base.eq a b) }

def mparamOfVal (v : Val) : Option MParam := do
  let p ← (← v.field? "paramid").nat?
  let d ← (← v.field? "delay").nat?
  let b ← (← v.field? "dataset").bytes?
  pure { paramid := p, delay := d, dataset := b }
def mparamVal (p : MParam) : Val :=
  .obj "MParameter" [("paramid", .ofNat p.paramid), ("delay", .ofNat p.delay), ("dataset", .bytes p.dataset)]

def codecM : Codec :=
  { σ := MState, name := "IENAM", fresh := fun _ => some MState.fresh,
    pack := fun s _ => bytesRes (MState.pack s),
    unpack := fun s b _ => unitRes (MState.unpack s b) .null,
    set := fun s f v =>
      if f == "parameters" then
        (v.list?.bind fun l => l.mapM mparamOfVal).bind fun ps => setOk { s with parameters := ps }
      else (setBase s.base f v).bind fun b => setOk { s with base := b },
    obs := fun s => .obj "IENAM" (baseFields s.base ++ [("parameters", .list (s.parameters.map mparamVal))]),
    eq := fun a b => .ok (MState.eq a b) }
end IENAC

def ftiCodecs : List Codec := [iNetXC.codec, IENAC.codec, IENAC.codecM]
def ftiFuncs : List Func := []

end Acra.Drv
