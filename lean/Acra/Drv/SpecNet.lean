/-
  The `net` family's declarative layouts and standard algorithms as pure functions
  (`F spec.<name> args…`) for the oracle search.  Independent of Acra.Gen and Acra.Model.
  IP addresses are passed as 32-bit integers.
-/
import Acra.Drv.Core
import Acra.Spec.Net
namespace Acra.Drv
open Acra.Py

private def optTag : Val → Option (Option Nat)
  | .null => some none
  | v => v.nat?.map some

def specFuncsNet : List Func := [
  { name := "spec.crc32", run := fun vs => match vs with
      | [.bytes b] => some (.ok (.ofNat (Spec.crc32 b)))
      | _ => none },
  { name := "spec.rfc1071", run := fun vs => match vs with
      | [.bytes b] => some (.ok (.ofNat (Spec.rfc1071 b)))
      | _ => none },
  { name := "spec.Ethernet.encode", run := fun vs => match vs with
      | [dst, src, tag, ty, .bytes p, fcs] => do
        let [dst, src, ty] ← natArgs [dst, src, ty] | none
        let tag ← optTag tag
        let fcs ← fcs.bool?
        pure (.ok (.bytes (Spec.Ethernet.encode dst src tag ty p fcs)))
      | _ => none },
  { name := "spec.IPv4.encode", run := fun vs => match vs with
      | [a, b, c, d, e, f, g, h, .bytes p] => do
        let [a, b, c, d, e, f, g, h] ← natArgs [a, b, c, d, e, f, g, h] | none
        pure (.ok (.bytes (Spec.IPv4.encode a b c d e f g h p)))
      | _ => none },
  { name := "spec.UDP.encode", run := fun vs => match vs with
      | [a, b, .bytes p] => do
        let [a, b] ← natArgs [a, b] | none
        pure (.ok (.bytes (Spec.UDP.encode a b p)))
      | _ => none },
  { name := "spec.ARP.encode", run := fun vs => do
        let [a, b, c, d, e, f, g, h, i] ← natArgs vs | none
        pure (.ok (.bytes (Spec.ARP.encode a b c d e f g h i))) },
  { name := "spec.ICMP.encode", run := fun vs => match vs with
      | [a, b, c, d, .bytes p] => do
        let [a, b, c, d] ← natArgs [a, b, c, d] | none
        pure (.ok (.bytes (Spec.ICMP.encode a b c d p)))
      | _ => none },
  { name := "spec.IGMP.report", run := fun vs => match vs with
      | [.list gs] => (gs.mapM Val.nat?).map fun l => .ok (.bytes (Spec.IGMP.report l))
      | _ => none },
  { name := "spec.IGMP.query", run := fun vs => match vs with
      | [] => some (.ok (.bytes Spec.IGMP.query))
      | _ => none },
  { name := "spec.Pcap.globalHeader", run := fun vs => match vs with
      | [] => some (.ok (.bytes Spec.Pcap.globalHeader))
      | _ => none },
  { name := "spec.Pcap.record", run := fun vs => match vs with
      | [a, b, c, d, .bytes p] => do
        let [a, b, c, d] ← natArgs [a, b, c, d] | none
        pure (.ok (.bytes (Spec.Pcap.record a b c d p)))
      | _ => none }
]
end Acra.Drv
