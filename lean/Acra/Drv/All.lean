import Acra.Drv.FTI
import Acra.Drv.Float
import Acra.Drv.Search
namespace Acra.Drv
def allCodecs : List Codec := List.flatten [
  ftiCodecs
]
def allFuncs : List Func := List.flatten [
  ftiFuncs,
  floatFuncs,
  searchFuncs
]
end Acra.Drv
