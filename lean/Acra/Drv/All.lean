import Acra.Drv.FTI
import Acra.Drv.FTI2
namespace Acra.Drv
def allCodecs : List Codec := ftiCodecs ++ fti2Codecs
def allFuncs : List Func := ftiFuncs ++ fti2Funcs
end Acra.Drv
