import Acra.Drv.FTI
import Acra.Drv.Search
namespace Acra.Drv
def allCodecs : List Codec := ftiCodecs
def allFuncs : List Func := ftiFuncs ++ searchFuncs
end Acra.Drv
