import Acra.Drv.FTI
namespace Acra.Drv
def allCodecs : List Codec := ftiCodecs
def allFuncs : List Func := ftiFuncs
end Acra.Drv
