import Acra.Drv.FTI
import Acra.Drv.Ch10
namespace Acra.Drv
def allCodecs : List Codec := ftiCodecs ++ ch10Codecs
def allFuncs : List Func := ftiFuncs ++ ch10Funcs
end Acra.Drv
