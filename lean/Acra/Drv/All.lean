import Acra.Drv.FTI
import Acra.Drv.FTI2
import Acra.Drv.Float
import Acra.Drv.Search
import Acra.Drv.Mpeg
import Acra.Drv.Ch10
import Acra.Drv.Net
import Acra.Drv.Golay7
import Acra.Drv.Ch11
import Acra.Drv.Extra
import Acra.Drv.AFDX
import Acra.Drv.Foreign
import Acra.Drv.ToRtc
namespace Acra.Drv
/- `Foreign.foreignCodecs` comes first: the same codecs with the operand-aware `eqOp` attached (first match wins) -/
def allCodecs : List Codec := List.flatten [
  Foreign.foreignCodecs,
  ftiCodecs,
  fti2Codecs,
  Mpeg.mpegCodecs,
  ch10Codecs,
  NetC.netCodecs,
  golay7Codecs,
  Ch11.ch11Codecs,
  ExtraC.extraCodecs,
  AFDXC.afdxCodecs
]
def allFuncs : List Func := List.flatten [
  ftiFuncs,
  fti2Funcs,
  floatFuncs,
  searchFuncs,
  Mpeg.mpegFuncs,
  ch10Funcs,
  NetC.netFuncs,
  golay7Funcs,
  Ch11.ch11Funcs,
  ExtraC.extraFuncs,
  AFDXC.afdxFuncs,
  toRtcFuncs
]
end Acra.Drv
