import Acra.Drv.FTI
import Acra.Drv.Float
namespace Acra.Drv
def allCodecs : List Codec := ftiCodecs
def allFuncs : List Func := ftiFuncs ++ floatFuncs
end Acra.Drv
