import Acra.Drv.FTI
import Acra.Drv.Float
import Acra.Drv.Mpeg
namespace Acra.Drv
def allCodecs : List Codec := ftiCodecs ++ Mpeg.mpegCodecs
def allFuncs : List Func := ftiFuncs ++ floatFuncs ++ Mpeg.mpegFuncs
end Acra.Drv
