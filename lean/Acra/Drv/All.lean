import Acra.Drv.FTI
import Acra.Drv.Net
namespace Acra.Drv
def allCodecs : List Codec := ftiCodecs ++ NetC.netCodecs
def allFuncs : List Func := ftiFuncs ++ NetC.netFuncs
end Acra.Drv
