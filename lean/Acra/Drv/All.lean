import Acra.Drv.FTI
import Acra.Drv.Golay7
namespace Acra.Drv
def allCodecs : List Codec := ftiCodecs ++ golay7Codecs
def allFuncs : List Func := ftiFuncs ++ golay7Funcs
end Acra.Drv
