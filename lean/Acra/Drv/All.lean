import Acra.Drv.FTI
import Acra.Drv.Mpeg
namespace Acra.Drv
def allCodecs : List Codec := ftiCodecs ++ Mpeg.mpegCodecs
def allFuncs : List Func := ftiFuncs ++ Mpeg.mpegFuncs
end Acra.Drv
