import Acra.Drv.FTI
import Acra.Drv.Float
import Acra.Drv.Ch11
namespace Acra.Drv
def allCodecs : List Codec := ftiCodecs ++ Ch11.ch11Codecs
def allFuncs : List Func := ftiFuncs ++ floatFuncs ++ Ch11.ch11Funcs
end Acra.Drv
