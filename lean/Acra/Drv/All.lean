import Acra.Drv.FTI
import Acra.Drv.FTI2
import Acra.Drv.Float
import Acra.Drv.Search
import Acra.Drv.Mpeg
namespace Acra.Drv
def allCodecs : List Codec := List.flatten [
  ftiCodecs,
  fti2Codecs,
  Mpeg.mpegCodecs
]
def allFuncs : List Func := List.flatten [
  ftiFuncs,
  fti2Funcs,
  floatFuncs,
  searchFuncs,
  Mpeg.mpegFuncs
]
end Acra.Drv
