import Acra.Drv.FTI
import Acra.Drv.FTI2
import Acra.Drv.Float
import Acra.Drv.Search
namespace Acra.Drv
def allCodecs : List Codec := List.flatten [
  ftiCodecs,
  fti2Codecs
]
def allFuncs : List Func := List.flatten [
  ftiFuncs,
  fti2Funcs,
  floatFuncs,
  searchFuncs
]
end Acra.Drv
