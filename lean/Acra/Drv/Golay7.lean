/-
  Driver codecs and functions for the golay7 family: Golay, PTDP, PTFR, and the Chapter 7
  generators / consumer loop as `F ch7.*` functions.

  Value conventions (must match harness/adapters/golay7.py):
    get_aligned_payload  ->  [[item;…];[check;…];raised]   item = PTDP{…} | [qlen] | [qrem;x<buf>]
                                                            raised = None | q<errkind>
    ch7.encap L sid pkts ->  [[PTFR{…};…];[x<packed>;…]]   (frames yielded, their pack() bytes)
    ch7.decap L frames   ->  [[PTDP{…};…];rem;raised]      rem = None | x<bytes>
    ch7.nollp L sid pkts ->  True|False                     (NoLLPOverflow along the encapsulation fold)
    pkts = [[x<bytes>;True|False];…]
-/
import Acra.Drv.Core
import Acra.Model.Golay
import Acra.Model.Chapter7
import Acra.Model.Chapter7NoOverflow
namespace Acra.Drv
open Acra.Py

namespace Golay7
open Acra.Model

def ok (p : σ × R Val) : Option (σ × R Val) := some p

/-- Σ (i+1)·T[i] — what `obs` prints for each 4096-entry table -/
def tableSum (t : Array Nat) : Nat := (t.foldl (fun (a : Nat × Nat) x => (a.1 + (a.2 + 1) * x, a.2 + 1)) (0, 0)).1

def golaySums : Nat × Nat × Nat :=
  (tableSum Golay.synTable, tableSum Golay.corTable, tableSum Golay.errTable)

def resNat (r : R Nat) : R Val := r.map Val.ofNat

def golayCall (s : Golay.State) (m : String) (args : List Val) : Option (Golay.State × R Val) :=
  match m, args with
  | "encode", [v] => v.nat?.map fun n => (s, .ok (.ofNat (Golay.encode n)))
  | "encode_s", [v] => v.nat?.map fun n => (s, (Golay.encodeStr n).map Val.bytes)
  | "decode", [.bytes b] =>
    if b.length ≠ 3 then some (s, resNat (Golay.decodeBytes b))
    else some ({ inited := true }, resNat (Golay.decodeBytes b))
  | "decode", [v] => v.nat?.map fun n => ({ inited := true }, resNat (Golay.decodeInt n))
  | "errors", [v] => v.nat?.map fun n => (s, resNat (Golay.errors s n))
  | "onesincode", [c, z] => do
    let c ← c.nat?; let z ← z.nat?
    pure (s, .ok (.ofNat (Golay.onesincode c z)))
  | _, _ => none

def golayObs (s : Golay.State) : Val :=
  let (a, b, c) := if s.inited then golaySums else (0, 0, 0)
  .obj "Golay" [("SyndromeTable", .ofNat a), ("CorrectTable", .ofNat b), ("ErrorTable", .ofNat c)]

def golayCodec : Codec :=
  { σ := Golay.State, name := "Golay", fresh := fun _ => some Golay.fresh,
    pack := fun s _ => (s, .error .attribute),
    unpack := fun s _ _ => (s, .error .attribute),
    set := fun _ _ _ => none, obs := golayObs, eq := fun a b => .ok (a == b),
    call := golayCall }

/-! PTDP -/
open Chapter7

def ptdpVal (s : PTDP.State) : Val :=
  .obj "PTDP" [("payload", .bytes s.payload), ("low_latency", .bool s.low_latency),
    ("length", .ofNat s.length), ("content", .ofNat s.content), ("fragment", .ofNat s.fragment)]

def ptdpOfVal (v : Val) : Option PTDP.State := do
  let p ← (← v.field? "payload").bytes?
  let ll ← (← v.field? "low_latency").bool?
  let l ← (← v.field? "length").nat?
  let c ← (← v.field? "content").nat?
  let f ← (← v.field? "fragment").nat?
  pure { payload := p, low_latency := ll, length := l, content := c, fragment := f }

def ptdpSet (s : PTDP.State) (f : String) (v : Val) : Option (PTDP.State × R Unit) :=
  match f with
  | "payload" => v.bytes?.map fun b => PTDP.setPayload s b
  | "low_latency" => v.bool?.map fun b => ({ s with low_latency := b }, .ok ())
  | "length" => v.nat?.map fun n => ({ s with length := n }, .ok ())
  | "content" => v.nat?.map fun n => ({ s with content := n }, .ok ())
  | "fragment" => v.nat?.map fun n => ({ s with fragment := n }, .ok ())
  | _ => none

def ptdpCodec : Codec :=
  { σ := PTDP.State, name := "PTDP", fresh := fun _ => some PTDP.fresh,
    pack := fun s _ => let (s', r) := PTDP.pack s; (s', r.map Val.bytes),
    unpack := fun s b _ => let (s', r) := PTDP.unpack s b; (s', r.map Val.bytes),
    set := ptdpSet, obs := ptdpVal, eq := fun a b => .ok (PTDP.eq a b),
    call := fun s m args =>
      match m, args with
      | "len", [] => some (s, .ok (.ofNat (PTDP.len s)))
      | _, _ => none }

/-! PTFR -/

def ptfrVal (s : PTFR.State) : Val :=
  .obj "PTFR" [("version", .ofNat s.version), ("streamid", .ofNat s.streamid), ("llp", .bool s.llp),
    ("ptdp_offset", .ofNat s.ptdp_offset), ("length", .ofNat s.length), ("payload", .bytes s.payload)]

def ptfrSet (s : PTFR.State) (f : String) (v : Val) : Option (PTFR.State × R Unit) :=
  match f with
  | "payload" => v.bytes?.map fun b => PTFR.setPayload s b
  | "version" => v.nat?.map fun n => ({ s with version := n }, .ok ())
  | "streamid" => v.nat?.map fun n => ({ s with streamid := n }, .ok ())
  | "llp" => v.bool?.map fun b => ({ s with llp := b }, .ok ())
  | "ptdp_offset" => v.nat?.map fun n => ({ s with ptdp_offset := n }, .ok ())
  | "length" => v.nat?.map fun n => ({ s with length := n }, .ok ())
  | _ => none

def itemVal : Item → Val
  | .pkt p => ptdpVal p
  | .lengthError => .list [.str "len"]
  | .remaining b => .list [.str "rem", .bytes b]

def raisedVal : Option Err → Val
  | none => .null
  | some e => .str e.name

def gapVal (o : GapOut) : Val :=
  .list [.list (o.items.map itemVal), .list (o.checks.map Val.int), raisedVal o.raised]

def ptfrCall (s : PTFR.State) (m : String) (args : List Val) : Option (PTFR.State × R Val) :=
  match m, args with
  | "add_payload", [.bytes b, ll] => ll.bool?.map fun l =>
      let (s', r) := PTFR.addPayload s b l
      (s', .ok (.bytes r))
  | "add_payload", [.bytes b] =>
      let (s', r) := PTFR.addPayload s b false
      some (s', .ok (.bytes r))
  | "check_offsets", [.int n] => some (s, .ok (.bool (PTFR.checkOffsets s n)))
  | "get_aligned_payload", [f, r] => do
      let f ← f.bool?
      let r ← r.optBytes?
      pure (s, .ok (gapVal (getAlignedPayload s f r)))
  | _, _ => none

def ptfrCodec : Codec :=
  { σ := PTFR.State, name := "PTFR",
    fresh := fun opts =>
      match opts with
      | [] => some PTFR.fresh
      | [l] => l.nat?.map fun n => { PTFR.fresh with length := n }
      | _ => none,
    pack := fun s _ => let (s', r) := PTFR.pack s; (s', r.map Val.bytes),
    unpack := fun s b _ => let (s', r) := PTFR.unpack s b; (s', r.map fun _ => .bool true),
    set := ptfrSet, obs := ptfrVal, eq := fun a b => .ok (PTFR.eq a b), call := ptfrCall }

/-! functions -/

def pktOfVal (v : Val) : Option (Bytes × Bool) :=
  match v with
  | .list [.bytes b, l] => l.bool?.map fun x => (b, x)
  | _ => none

def pktsOfVal (v : Val) : Option (List (Bytes × Bool)) := v.list?.bind fun l => l.mapM pktOfVal

def packAll : List PTFR.State → List Val
  | [] => []
  | f :: fs =>
    (match (PTFR.pack f).2 with
     | .ok b => Val.bytes b
     | .error e => .str ("err:" ++ e.name)) :: packAll fs

def funcs : List Func := [
  { name := "golay.encode", run := fun vs =>
      match vs with
      | [v] => v.nat?.map fun n => .ok (.ofNat (Golay.encode n))
      | _ => none },
  { name := "golay.encode_s", run := fun vs =>
      match vs with
      | [v] => v.nat?.map fun n => (Golay.encodeStr n).map Val.bytes
      | _ => none },
  { name := "golay.decode", run := fun vs =>
      match vs with
      | [.bytes b] => some (resNat (Golay.decodeBytes b))
      | [v] => v.nat?.map fun n => resNat (Golay.decodeInt n)
      | _ => none },
  { name := "golay.errors", run := fun vs =>
      match vs with
      | [v] => v.nat?.map fun n => resNat (Golay.errors { inited := true } n)
      | _ => none },
  { name := "golay.tables", run := fun vs =>
      match vs with
      | [] => some (.ok (.list [.ofNats Golay.synTable.toList, .ofNats Golay.corTable.toList,
                               .ofNats Golay.errTable.toList]))
      | _ => none },
  { name := "ch7.ptdps", run := fun vs =>
      match vs with
      | [p] => (pktsOfVal p).map fun pk => .ok (.list ((datapktsToPtdp pk).map ptdpVal))
      | _ => none },
  { name := "ch7.encap", run := fun vs =>
      match vs with
      | [l, s, p] => do
        let l ← l.nat?; let s ← s.nat?; let pk ← pktsOfVal p
        pure ((datapktsToPtfr pk l s).map fun (_, out) => .list [.list (out.map ptfrVal), .list (packAll out)])
      | _ => none },
  { name := "ch7.nollp", run := fun vs =>
      match vs with
      | [l, s, p] => do
        let l ← l.nat?; let s ← s.nat?; let pk ← pktsOfVal p
        pure (.ok (.bool (noLLPOverflowFrom l s (datapktsToPtdp pk) (newPtfr l s, []))))
      | _ => none },
  { name := "ch7.decap", run := fun vs =>
      match vs with
      | [l, f] => do
        let l ← l.nat?
        let fs ← f.list?.bind fun x => x.mapM Val.bytes?
        let (st, e) := decap l fs
        pure (.ok (.list [.list (st.ptdps.map ptdpVal), .ofOptBytes st.rem, raisedVal e]))
      | _ => none },
  { name := "ch7.reassemble", run := fun vs =>
      match vs with
      | [p] => do
        let ps ← p.list?.bind fun x => x.mapM ptdpOfVal
        pure (.ok (.list ((reassemble ps).map fun (b, l) => .list [.bytes b, .bool l])))
      | _ => none }
]

end Golay7

def golay7Codecs : List Codec := [Golay7.golayCodec, Golay7.ptdpCodec, Golay7.ptfrCodec]
def golay7Funcs : List Func := Golay7.funcs

end Acra.Drv
