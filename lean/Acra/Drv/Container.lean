/-
  Line-protocol side of `Model/Container.lean`: the codecs of the classes that implement the container protocol,
  extended by `len` / `getitem` (and the small methods, through `call` / `set`).  Each codec here REPLACES the
  codec of the same name registered in `Drv/All.lean` (the driver looks a class up in `containerCodecs ++ allCodecs`
  and takes the first match); everything else of the codec is inherited unchanged.
-/
import Acra.Drv.All
import Acra.Model.Container
namespace Acra.Drv.ContainerC
open Acra.Py Acra.Drv

def natLen (p : σ × R Nat) : Option (σ × R Val) := some (p.1, p.2.map Val.ofNat)
def pureLen (s : σ) (n : Nat) : Option (σ × R Val) := some (s, .ok (.ofNat n))
def pureGet (s : σ) (r : R α) (f : α → Val) : Option (σ × R Val) := some (s, r.map f)
def okSet (s : σ) : Option (σ × R Unit) := some (s, .ok ())

/-! ### iNetX -/
def iNetX : Codec :=
  { iNetXC.codec with
    len := fun s => natLen (Acra.Model.iNetX.len s),
    call := fun s m args =>
      match m, args with
      | "setPacketTime", [a, b] => do
        let a ← a.nat?; let b ← b.nat?
        let p := Acra.Model.iNetX.setPacketTime s a b
        pure (p.1, .ok (.bool p.2))
      | "setPacketTime", [a] => do
        let a ← a.nat?
        let p := Acra.Model.iNetX.setPacketTime s a 0
        pure (p.1, .ok (.bool p.2))
      | _, _ => none }

/-! ### IENA: the aliases `n2` / `streamid` are readable (`call n2`) and assignable (`set n2 v`) on all five classes -/
open Acra.Model.IENA in
def aliasGet (b : Base) (m : String) : Option Val :=
  match m with
  | "n2" => some (.ofNat b.n2)
  | "streamid" => some (.ofNat b.streamid)
  | _ => none
open Acra.Model.IENA in
def aliasSet (b : Base) (f : String) (v : Val) : Option Base :=
  match f with
  | "n2" => v.nat?.map b.setN2
  | "streamid" => v.nat?.map b.setStreamid
  | _ => none

open Acra.Model.IENA in
def IENA : Codec :=
  { IENAC.codec with
    len := fun s => natLen (Base.len s),
    call := fun s m _ => (aliasGet s m).map fun v => (s, .ok v),
    set := fun s f v => match aliasSet s f v with
      | some b => okSet b
      | none => IENAC.codec.set s f v }

open Acra.Model.IENA in
def IENAM : Codec :=
  { IENAC.codecM with
    len := fun s => pureLen s s.len,
    getitem := fun s i => pureGet s (s.getitem i) IENAC.mparamVal,
    call := fun s m _ => (aliasGet s.base m).map fun v => (s, .ok v),
    set := fun s f v => match aliasSet s.base f v with
      | some b => okSet { s with base := b }
      | none => IENAC.codecM.set s f v }

open Acra.Model.IENA in
def IENAQ : Codec :=
  { IENAC.codecQ with
    len := fun s => pureLen s s.len,
    getitem := fun s i => pureGet s (s.getitem i) IENAC.qparamVal,
    call := fun s m _ => (aliasGet s.base m).map fun v => (s, .ok v),
    set := fun s f v => match aliasSet s.base f v with
      | some b => okSet { s with base := b }
      | none => IENAC.codecQ.set s f v }

open Acra.Model.IENA in
def IENAD : Codec :=
  { IENAC.codecD with
    len := fun s => pureLen s s.len,
    getitem := fun s i => pureGet s (s.getitem i) IENAC.dparamVal,
    call := fun s m _ => (aliasGet s.base m).map fun v => (s, .ok v),
    set := fun s f v => match aliasSet s.base f v with
      | some b => okSet { s with base := b }
      | none => IENAC.codecD.set s f v }

open Acra.Model.IENA in
def IENAN : Codec :=
  { IENAC.codecN with
    len := fun s => pureLen s s.len,
    getitem := fun s i => pureGet s (s.getitem i) IENAC.nparamVal,
    call := fun s m _ => (aliasGet s.base m).map fun v => (s, .ok v),
    set := fun s f v => match aliasSet s.base f v with
      | some b => okSet { s with base := b }
      | none => IENAC.codecN.set s f v }

/-! ### iNET, NPD, ParserAligned -/
def iNET : Codec :=
  { iNETC.codec with len := fun s => natLen (Acra.Model.iNET.len s) }

def NPD : Codec :=
  { NPDC.codec with
    len := fun s => pureLen s (Acra.Model.NPD.len s),
    getitem := fun s i => pureGet s (Acra.Model.NPD.getitem s i) NPDC.segVal }

open Acra.Model.ParserAligned in
def PABlock : Codec :=
  { PAC.codecBlock with len := fun s => pureLen s s.len }

open Acra.Model.ParserAligned in
def PAPacket : Codec :=
  { PAC.codecPacket with
    len := fun s => pureLen s s.len,
    getitem := fun s i => pureGet s (s.getitem i) PAC.blockVal }

/-! ### PcapRecord -/
open Acra.Model.Pcap in
def PcapRecord : Codec :=
  { NetC.PcapC.recCodec with
    len := fun s => pureLen s s.len,
    call := fun s m args =>
      match m, args with
      | "set_current_time", [t] => do
        let bits ← t.nat?
        let p := s.setCurrentTime (Acra.Py.Float.ofBits bits)
        pure (p.1, .ok (.bool p.2))
      | "setCurrentTime", [t] => do
        let bits ← t.nat?
        let p := s.setCurrentTime (Acra.Py.Float.ofBits bits)
        pure (p.1, .ok (.bool p.2))
      | _, _ => none }

/-! ### Chapter 11 -/
open Acra.Model.Ch11Pay.ARINC in
def ARINC : Codec :=
  { Ch11.A.packetCodec with
    len := fun s => pureLen s s.len,
    getitem := fun s i => pureGet s (s.getitem i) Ch11.A.wordVal }

open Acra.Model.Ch11Pay.MIL1553 in
def MIL1553 : Codec :=
  { Ch11.M.packetCodec with
    len := fun s => pureLen s s.len,
    getitem := fun s i => pureGet s (s.getitem i) Ch11.M.msgVal }

open Acra.Model.Ch11Pay.UART in
def UART : Codec :=
  { Ch11.U.packetCodec with
    len := fun s => pureLen s s.len,
    getitem := fun s i => pureGet s (s.getitem i) Ch11.U.wordVal }

open Acra.Model.Ch11Pay.PCM in
def PCM : Codec :=
  { Ch11.P.packetCodec with
    len := fun s => some (s, s.len.map Val.ofNat),
    getitem := fun s i => pureGet s (s.getitem i) Ch11.P.frameVal }

open Acra.Model.Ch11Pay.PCM in
def PCMFrame : Codec :=
  { Ch11.P.frameCodec with
    call := fun s m args =>
      match m, args with
      | "payload", [] => some (s, .ok (.bytes s.payload))
      | _, _ => none }

open Acra.Model.Ch11Pay.TimeFmt in
def TDF1 : Codec := { Ch11.T.tdf1Codec with len := fun s => pureLen s s.len }
open Acra.Model.Ch11Pay.TimeFmt in
def TDF2 : Codec := { Ch11.T.tdf2Codec with len := fun s => pureLen s s.len }

/-! ### NAL, MPEGTS, Golay -/
open Acra.Model.Extra in
def NAL : Codec := { ExtraC.nalCodec with len := fun s => pureLen s s.len }

/- `NumberOfBlocks` / `FirstCount` / `LastCount` raise `DeprecationWarning`; the adapter prints that outcome as
    the value `qDeprecationWarning` (the error enumeration of the models has no such kind) -/
open Acra.Model.MPEGTS in
def MPEGTS : Codec :=
  { Mpeg.tsCodec with
    len := fun s => pureLen s s.len,
    getitem := fun s i => pureGet s (s.getitem i) Mpeg.pktVal,
    call := fun s m args =>
      match m, args with
      | "NumberOfBlocks", [] => some (s, .ok (.str "DeprecationWarning"))
      | "FirstCount", [] => some (s, .ok (.str "DeprecationWarning"))
      | "LastCount", [] => some (s, .ok (.str "DeprecationWarning"))
      | _, _ => none }

def Golay : Codec :=
  { Golay7.golayCodec with
    call := fun s m args =>
      match m, args with
      | "onesincode_old", [c, z] => do
        let c ← c.nat?; let z ← z.nat?
        pure (s, .ok (.ofNat (Acra.Model.Golay.onesincodeOld c z)))
      | _, _ => Golay7.golayCall s m args }

/-! ### the iteration cursor (`Model.Cursor`): a wrapper that adds `_index` to a container codec.
  ops: `iter` (a complete `for` loop), `call iter` (`iter(obj)`: `__iter__` alone), `call next` (`obj.next()`);
  `packIterates`: the class's `pack` loops over `self`, so a successful `pack` leaves the cursor at the end. -/
open Acra.Model.Cursor in
def withCursor (c : Codec) (count : c.σ → Nat) (packIterates : Bool) : Codec :=
  { σ := c.σ × Cursor, name := c.name,
    fresh := fun o => (c.fresh o).map fun s => (s, none),
    pack := fun s a =>
      let p := c.pack s.1 a
      ((p.1, if packIterates then (match p.2 with | .ok _ => loop (count p.1) | .error _ => s.2) else s.2), p.2),
    unpack := fun s b a => let p := c.unpack s.1 b a; ((p.1, s.2), p.2),
    set := fun s f v => (c.set s.1 f v).map fun p => ((p.1, s.2), p.2),
    obs := fun s => c.obs s.1,
    eq := fun a b => c.eq a.1 b.1,
    call := fun s m args =>
      match m, args with
      | "iter", [] => some ((s.1, start s.2), .ok .null)
      | "next", [] =>
        match next s.2 (count s.1) with
        | (cur, .ok k) => (c.getitem s.1 (k : Int)).map fun p => ((p.1, cur), p.2)
        | (cur, .error e) => some ((s.1, cur), .error e)
      | _, _ => (c.call s.1 m args).map fun p => ((p.1, s.2), p.2),
    len := fun s => (c.len s.1).map fun p => ((p.1, s.2), p.2),
    getitem := fun s i => (c.getitem s.1 i).map fun p => ((p.1, s.2), p.2),
    iter := fun s => (s.1, loop (count s.1)) }

def containerCodecs : List Codec :=
  [iNetX, IENA,
   withCursor IENAM (fun s => Acra.Model.IENA.MState.len s) true,
   withCursor IENAQ (fun s => Acra.Model.IENA.QState.len s) true,
   withCursor IENAD (fun s => Acra.Model.IENA.DState.len s) false,
   withCursor IENAN (fun s => Acra.Model.IENA.NState.len s) false,
   iNET,
   withCursor NPD (fun s => Acra.Model.NPD.len s) false,
   PABlock,
   withCursor PAPacket (fun s => Acra.Model.ParserAligned.Packet.len s) false,
   PcapRecord,
   withCursor ARINC (fun s => Acra.Model.Ch11Pay.ARINC.Packet.len s) false,
   withCursor MIL1553 (fun s => Acra.Model.Ch11Pay.MIL1553.Packet.len s) true,
   withCursor UART (fun s => Acra.Model.Ch11Pay.UART.Packet.len s) true,
   withCursor PCM (fun s => (s : Acra.Model.Ch11Pay.PCM.Packet).minor_frames.length) false,
   PCMFrame, TDF1, TDF2, NAL,
   withCursor MPEGTS (fun s => Acra.Model.MPEGTS.TS.len s) true,
   Golay]

open Acra.Model.Helpers in
def containerFuncs : List Func := [
  { name := "mactoreadable", run := fun vs => match vs with
      | [v] => v.nat?.map fun n => .ok (.str (mactoreadable n))
      | _ => none },
  { name := "buf_to_printable", run := fun vs => match vs with
      | [.bytes b] => some (.ok (.bytes (latin1 (bufToPrintable b))))
      | _ => none },
  { name := "bytes_to_ascii", run := fun vs => match vs with
      | [.bytes b] => some (.ok (.bytes (latin1 (bytesToAscii b))))
      | _ => none }
]

end Acra.Drv.ContainerC
