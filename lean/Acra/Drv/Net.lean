/-
  Line-protocol codecs and functions of the `net` family.

  IP addresses travel as `q1.2.3.4` strings; the codec converts them to the model's `Option Nat`
  (`none` = a string `inet_aton` rejects; only the constructor default `q` — the empty string — is in
  scope) and prints `some n` as the dotted quad of `n`.

  `PcapFile` is a whole-file history object: its `call`s never poison the history (an exception of the
  library is returned as the value `qerr:<kind>`), because the model specifies the state after them.
-/
import Acra.Drv.Core
import Acra.Model.Net
import Acra.Model.Pcap
namespace Acra.Drv.NetC
open Acra.Py Acra.Drv

def unitRes (p : σ × R Unit) (v : Val := .bool true) : σ × R Val := (p.1, p.2.map fun _ => v)
def bytesRes (p : σ × R Bytes) : σ × R Val := (p.1, p.2.map Val.bytes)
def setOk (s : σ) : Option (σ × R Unit) := some (s, .ok ())

def quadOfNat (n : Nat) : String :=
  s!"{n / 16777216 % 256}.{n / 65536 % 256}.{n / 256 % 256}.{n % 256}"

def natOfQuad (s : String) : Option Nat :=
  match s.splitOn "." with
  | [a, b, c, d] => do
    let a ← a.toNat?
    let b ← b.toNat?
    let c ← c.toNat?
    let d ← d.toNat?
    if a < 256 && b < 256 && c < 256 && d < 256 then some (((a * 256 + b) * 256 + c) * 256 + d) else none
  | _ => none

def addr? : Val → Option (Option Nat)
  | .str s => some (natOfQuad s)
  | _ => none

def addrVal : Option Nat → Val
  | some n => .str (quadOfNat n)
  | none => .str ""

def fcsArg (dflt : Bool) : List Val → Option Bool
  | [] => some dflt
  | [v] => v.bool?
  | _ => none

/-! ### Ethernet -/
namespace EthC
open Acra.Model.Net
def set (s : Eth) (f : String) (v : Val) : Option (Eth × R Unit) :=
  match f with
  | "type" => v.nat?.bind fun n => setOk { s with type := n }
  | "srcmac" => v.nat?.bind fun n => setOk { s with srcmac := n }
  | "dstmac" => v.nat?.bind fun n => setOk { s with dstmac := n }
  | "payload" => v.bytes?.bind fun b => setOk { s with payload := b }
  | "vlan" => v.bool?.bind fun b => setOk { s with vlan := b }
  | "vlantag" => v.nat?.bind fun n => setOk { s with vlantag := n }
  | _ => none
def obs (s : Eth) : Val :=
  .obj "Ethernet" [("type", .ofNat s.type), ("srcmac", .ofNat s.srcmac), ("dstmac", .ofNat s.dstmac),
    ("payload", .bytes s.payload), ("vlan", .bool s.vlan), ("vlantag", .ofNat s.vlantag)]
def codec (name : String) (dflt : Bool) : Codec :=
  { σ := Eth, name := name, fresh := fun _ => some Eth.fresh,
    pack := fun s a => match fcsArg dflt a with
      | some fcs => bytesRes (Eth.pack s fcs)
      | none => (s, .error .type),
    unpack := fun s b a => match fcsArg dflt a with
      | some fcs => unitRes (Eth.unpack s b fcs)
      | none => (s, .error .type),
    set := set, obs := obs, eq := fun a b => .ok (Eth.eq a b) }
end EthC

/-! ### IP -/
namespace IPC
open Acra.Model.Net
def set (s : IP) (f : String) (v : Val) : Option (IP × R Unit) :=
  match f with
  | "srcip" => (addr? v).bind fun a => setOk { s with srcip := a }
  | "dstip" => (addr? v).bind fun a => setOk { s with dstip := a }
  | "len" => v.nat?.bind fun n => setOk { s with len := n }
  | "flags" => v.nat?.bind fun n => setOk { s with flags := n }
  | "fragment_offset" => v.nat?.bind fun n => setOk { s with fragment_offset := n }
  | "protocol" => v.nat?.bind fun n => setOk { s with protocol := n }
  | "payload" => v.bytes?.bind fun b => setOk { s with payload := b }
  | "version" => v.nat?.bind fun n => setOk { s with version := n }
  | "ihl" => v.nat?.bind fun n => setOk { s with ihl := n }
  | "dscp" => v.nat?.bind fun n => setOk { s with dscp := n }
  | "id" => v.nat?.bind fun n => setOk { s with ident := n }
  | "ttl" => v.nat?.bind fun n => setOk { s with ttl := n }
  | _ => none
def obs (s : IP) : Val :=
  .obj "IP" [("srcip", addrVal s.srcip), ("dstip", addrVal s.dstip), ("len", .ofNat s.len),
    ("flags", .ofNat s.flags), ("fragment_offset", .ofNat s.fragment_offset), ("protocol", .ofNat s.protocol),
    ("payload", .bytes s.payload), ("version", .ofNat s.version), ("ihl", .ofNat s.ihl), ("dscp", .ofNat s.dscp),
    ("id", .ofNat s.ident), ("ttl", .ofNat s.ttl)]
def codec : Codec :=
  { σ := IP, name := "IP", fresh := fun _ => some IP.fresh,
    pack := fun s _ => bytesRes (IP.pack s),
    unpack := fun s b _ => unitRes (IP.unpack s b),
    set := set, obs := obs, eq := fun _ _ => .ok false }       -- no __eq__: identity
/-- an `IP{…}` value: a fresh object with the listed attributes assigned in order -/
def ofVal : Val → Option IP
  | .obj "IP" fs => fs.foldlM (fun s (kv : String × Val) => (set s kv.1 kv.2).map (·.1)) IP.fresh
  | _ => none
end IPC

/-! ### UDP -/
namespace UDPC
open Acra.Model.Net
def set (s : UDP) (f : String) (v : Val) : Option (UDP × R Unit) :=
  match f with
  | "srcport" => v.nat?.bind fun n => setOk { s with srcport := n }
  | "dstport" => v.nat?.bind fun n => setOk { s with dstport := n }
  | "len" => v.nat?.bind fun n => setOk { s with len := n }
  | "payload" => v.bytes?.bind fun b => setOk { s with payload := b }
  | _ => none
def obs (s : UDP) : Val :=
  .obj "UDP" [("srcport", .ofNat s.srcport), ("dstport", .ofNat s.dstport), ("len", .ofNat s.len),
    ("payload", .bytes s.payload)]
def codec : Codec :=
  { σ := UDP, name := "UDP", fresh := fun _ => some UDP.fresh,
    pack := fun s _ => bytesRes (UDP.pack s),
    unpack := fun s b _ => unitRes (UDP.unpack s b),
    set := set, obs := obs, eq := fun _ _ => .ok false }
end UDPC

/-! ### ICMP -/
namespace ICMPC
open Acra.Model.Net
def set (s : ICMP) (f : String) (v : Val) : Option (ICMP × R Unit) :=
  match f with
  | "type" => v.nat?.bind fun n => setOk { s with type := n }
  | "code" => v.nat?.bind fun n => setOk { s with code := n }
  | "request_id" => v.nat?.bind fun n => setOk { s with request_id := n }
  | "request_sequence" => v.nat?.bind fun n => setOk { s with request_sequence := n }
  | "payload" => v.bytes?.bind fun b => setOk { s with payload := b }
  | _ => none
def obs (s : ICMP) : Val :=
  .obj "ICMP" [("type", .ofNat s.type), ("code", .ofNat s.code), ("request_id", .ofNat s.request_id),
    ("request_sequence", .ofNat s.request_sequence), ("payload", .bytes s.payload)]
def codec : Codec :=
  { σ := ICMP, name := "ICMP", fresh := fun _ => some ICMP.fresh,
    pack := fun s _ => bytesRes (ICMP.pack s),
    unpack := fun s b _ => unitRes (ICMP.unpack s b),
    set := set, obs := obs, eq := fun _ _ => .ok false }
end ICMPC

/-! ### ARP -/
namespace ARPC
open Acra.Model.Net
def set (s : ARP) (f : String) (v : Val) : Option (ARP × R Unit) :=
  match f with
  | "hardware_type" => v.nat?.bind fun n => setOk { s with hardware_type := n }
  | "protocol_type" => v.nat?.bind fun n => setOk { s with protocol_type := n }
  | "hardware_length" => v.nat?.bind fun n => setOk { s with hardware_length := n }
  | "protocol_length" => v.nat?.bind fun n => setOk { s with protocol_length := n }
  | "operation" => v.nat?.bind fun n => setOk { s with operation := n }
  | "srcmac" => v.nat?.bind fun n => setOk { s with srcmac := n }
  | "dstmac" => v.nat?.bind fun n => setOk { s with dstmac := n }
  | "srcip" => (addr? v).bind fun a => setOk { s with srcip := a }
  | "dstip" => (addr? v).bind fun a => setOk { s with dstip := a }
  | _ => none
def obs (s : ARP) : Val :=
  .obj "ARP" [("hardware_type", .ofNat s.hardware_type), ("protocol_type", .ofNat s.protocol_type),
    ("hardware_length", .ofNat s.hardware_length), ("protocol_length", .ofNat s.protocol_length),
    ("operation", .ofNat s.operation), ("srcmac", .ofNat s.srcmac), ("dstmac", .ofNat s.dstmac),
    ("srcip", addrVal s.srcip), ("dstip", addrVal s.dstip)]
def codec : Codec :=
  { σ := ARP, name := "ARP", fresh := fun _ => some ARP.fresh,
    pack := fun s _ => bytesRes (ARP.pack s),
    unpack := fun s b _ => unitRes (ARP.unpack s b) .null,
    set := set, obs := obs, eq := fun a b => .ok (ARP.eq a b) }
end ARPC

/-! ### PcapRecord and Pcap files -/
namespace PcapC
open Acra.Model.Pcap
def setRec (s : Rec) (f : String) (v : Val) : Option (Rec × R Unit) :=
  match f with
  | "sec" => v.nat?.bind fun n => setOk { s with sec := n }
  | "usec" => v.nat?.bind fun n => setOk { s with usec := n }
  | "incl_len" => v.nat?.bind fun n => setOk { s with incl_len := n }
  | "orig_len" => v.nat?.bind fun n => setOk { s with orig_len := n }
  | "payload" => v.bytes?.bind fun b => setOk (s.setPayload b)
  | "packet" => v.bytes?.bind fun b => setOk (s.setPayload b)
  | _ => none
def recVal (s : Rec) : Val :=
  .obj "PcapRecord" [("sec", .ofNat s.sec), ("usec", .ofNat s.usec), ("incl_len", .ofNat s.incl_len),
    ("orig_len", .ofNat s.orig_len), ("payload", .bytes s.payload)]
def recOfVal : Val → Option Rec
  | .obj "PcapRecord" fs => fs.foldlM (fun s (kv : String × Val) => (setRec s kv.1 kv.2).map (·.1)) Rec.fresh
  | _ => none
def recCodec : Codec :=
  { σ := Rec, name := "PcapRecord", fresh := fun _ => some Rec.fresh,
    pack := fun s _ => bytesRes (Rec.pack s),
    unpack := fun s b _ => unitRes (Rec.unpack s b) .null,
    set := setRec, obs := recVal, eq := fun _ _ => .ok false }

def modeStr : Mode → String
  | .r => "r" | .w => "w" | .a => "a"
def mode? : Val → Option Mode
  | .str "r" => some .r | .str "w" => some .w | .str "a" => some .a | _ => none

def handleVal (h : Handle) : Val :=
  .obj "Pcap" [("mode", .str (modeStr h.mode)), ("magic", .int h.magic), ("versionmaj", .int h.versionmaj),
    ("versionmin", .int h.versionmin), ("zone", .int h.zone), ("sigfigs", .int h.sigfigs),
    ("snaplen", .int h.snaplen), ("network", .int h.network), ("filesize", .ofNat h.filesize),
    ("closed", .bool h.closed)]

def fsVal (fs : FS) : Val :=
  .obj "PcapFile" [("file", match fs.file with | some b => .bytes b | none => .null),
                   ("pcap", match fs.h with | some h => handleVal h | none => .null)]

/-- an exception of the library becomes the value `qerr:<kind>` -/
def soft (p : FS × R Val) : FS × R Val :=
  match p.2 with
  | .ok v => (p.1, .ok v)
  | .error e => (p.1, .ok (.str ("err:" ++ e.name)))

def nullRes (p : FS × R Unit) : FS × R Val := (p.1, p.2.map fun _ => Val.null)

def call (fs : FS) (m : String) (args : List Val) : Option (FS × R Val) :=
  match m, args with
  | "open", [v] => (mode? v).map fun md => soft (nullRes (openFile fs md))
  | "write", [v] => (recOfVal v).map fun r => soft (nullRes (write fs r))
  | "close", [] => some (soft (nullRes (close fs)))
  | "flush", [] => some (soft (nullRes (flush fs)))
  | "next", [] => some (soft (let (fs', r) := next fs; (fs', r.map recVal)))
  | "readall", [] => some (soft (let (fs', r) := readAll (fuelFor fs) fs; (fs', r.map fun l => .list (l.map recVal))))
  | "getitem", [.int i] => some (soft (let (fs', r) := getitem fs i
        (fs', r.map fun o => match o with | some x => recVal x | none => .null)))
  | "truncate", [v] => v.nat?.map fun t => soft (nullRes (truncate fs t))
  | "setfile", [.bytes b] => some (soft (nullRes (setFile fs b)))
  | "delete", [] => some (soft (nullRes (deleteFile fs)))
  | _, _ => none

def fileCodec : Codec :=
  { σ := FS, name := "PcapFile", fresh := fun _ => some FS.fresh,
    pack := fun s _ => (s, .error .notImplemented),
    unpack := fun s _ _ => (s, .error .notImplemented),
    set := fun _ _ _ => none, obs := fsVal, eq := fun _ _ => .ok false, call := call }
end PcapC

/-! ### functions -/
open Acra.Model.Net in
def netFuncs : List Func := [
  { name := "pack48", run := fun vs => match vs with
      | [v] => v.nat?.map fun n => (pack48 n).map Val.bytes
      | _ => none },
  { name := "unpack48", run := fun vs => match vs with
      | [.bytes b] => some ((unpack48 b).map Val.ofNat)
      | _ => none },
  { name := "ip_calc_checksum", run := fun vs => match vs with
      | [.bytes b] => some ((ipCalcChecksum b).map Val.ofNat)
      | _ => none },
  { name := "crc32", run := fun vs => match vs with
      | [.bytes b] => some (.ok (Val.ofNat (crc32 b)))
      | _ => none },
  { name := "ones_comp_add16", run := fun vs => match vs with
      | [a, b] => do
        let a ← a.nat?
        let b ← b.nat?
        pure (.ok (Val.ofNat (onesCompAdd16 a b)))
      | _ => none },
  { name := "igmp.membership_query", run := fun vs => match vs with
      | [] => some (.ok (.bytes membershipQuery))
      | _ => none },
  { name := "igmp.join_groups", run := fun vs => match vs with
      | [.list gs] => (gs.mapM addr?).map fun l => (joinGroups l).map Val.bytes
      | _ => none },
  { name := "combine_ip_fragments", run := fun vs => match vs with
      | [.list ps] =>
        let items := ps.map fun v => match IPC.ofVal v with
          | some p => Item.ip p
          | none => Item.other
        some ((combine items).map IPC.obs)
      | _ => none }
]

def netCodecs : List Codec :=
  [EthC.codec "Ethernet" false, EthC.codec "EthernetFCS" true, IPC.codec, UDPC.codec, ICMPC.codec, ARPC.codec,
   PcapC.recCodec, PcapC.fileCodec]

end Acra.Drv.NetC
