/- Line-protocol function `ptp.to_rtc <seconds> <nanoseconds>`: `PTPTime(seconds, nanoseconds).to_rtc()`. -/
import Acra.Drv.Core
import Acra.Model.PTPToRtc
namespace Acra.Drv
open Acra.Py

def toRtcFuncs : List Func := [
  { name := "ptp.to_rtc", run := fun vs => do
      let [s, ns] ← natArgs vs | none
      pure ((Acra.Model.PTPToRtc.toRtc s ns).map Val.ofNat) }
]
end Acra.Drv
