/-
  Line-protocol codec of `SimpleEthernet.AFDX`.

  A fresh object is `AFDX.__new__(AFDX)` (no attributes): the constructor itself always raises, which the line
  protocol reaches through `call init [x<buf>]` (on an existing instance) and `F afdx.new [x<buf>]` (the plain
  constructor call).  An attribute that does not exist is printed `q<absent>`.
-/
import Acra.Drv.Core
import Acra.Model.AFDX
namespace Acra.Drv.AFDXC
open Acra.Py Acra.Drv Acra.Model.AFDX

def setOk (s : AFDX) : Option (AFDX × R Unit) := some (s, .ok ())

def set (s : AFDX) (f : String) (v : Val) : Option (AFDX × R Unit) :=
  match f with
  | "type" => v.nat?.bind fun n => setOk { s with type := some n }
  | "networkID" => v.nat?.bind fun n => setOk { s with networkID := some n }
  | "equipmentID" => v.nat?.bind fun n => setOk { s with equipmentID := some n }
  | "interfaceID" => v.nat?.bind fun n => setOk { s with interfaceID := some n }
  | "vlink" => v.nat?.bind fun n => setOk { s with vlink := some n }
  | "payload" => v.bytes?.bind fun b => setOk { s with payload := some b }
  | "sequencenum" => v.nat?.bind fun n => setOk { s with sequencenum := some n }
  | _ => none

def absent : Val := .str "<absent>"
def natAttr : Option Nat → Val
  | some n => .ofNat n
  | none => absent
def bytesAttr : Option Bytes → Val
  | some b => .bytes b
  | none => absent

def obs (s : AFDX) : Val :=
  .obj "AFDX" [("type", natAttr s.type), ("networkID", natAttr s.networkID), ("equipmentID", natAttr s.equipmentID),
    ("interfaceID", natAttr s.interfaceID), ("vlink", natAttr s.vlink), ("payload", bytesAttr s.payload),
    ("sequencenum", natAttr s.sequencenum)]

def unitRes (p : AFDX × R Unit) : AFDX × R Val := (p.1, p.2.map fun _ => Val.null)

def optBuf : List Val → Option (Option Bytes)
  | [] => some none
  | [.null] => some none
  | [.bytes b] => some (some b)
  | _ => none

def call (s : AFDX) (m : String) (args : List Val) : Option (AFDX × R Val) :=
  match m, args with
  | "init", a => (optBuf a).map fun b => unitRes (AFDX.init s b)
  | "set_dstmac", [.bytes mac] => some (unitRes (AFDX.set_dstmac s mac))
  | "unpacksrcmac", [v] => v.nat?.map fun n => unitRes (AFDX.unpacksrcmac s n)
  | _, _ => none

def codec : Codec :=
  { σ := AFDX, name := "AFDX", fresh := fun _ => some AFDX.bare,
    pack := fun s _ => ((AFDX.pack s).1, (AFDX.pack s).2.map Val.bytes),
    unpack := fun s b _ => unitRes (AFDX.unpack s b),
    set := set, obs := obs, eq := AFDX.eq, call := call,
    eqOp := some AFDX.eqOp }

def afdxCodecs : List Codec := [codec]

def afdxFuncs : List Func := [
  { name := "afdx.new", run := fun a => (optBuf a).map fun b => (AFDX.new b).map obs }
]

end Acra.Drv.AFDXC
