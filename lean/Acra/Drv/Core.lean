/-
  Driver core: a codec class as seen by the line protocol, and the history runner.

  Line syntax (one request per line, one answer line per request):
    H <Class> <opt>* :: <op> | <op> | …          run a history on a fresh object
    E <Class> <opt>* :: <ops> ## <ops>           run two histories on two fresh objects, then `a == b`
    E <Class> <opt>* :: <ops> ## @<kind>[:<tag>] `a == x` for a foreign operand x (`Py.ForeignKind`: none int str bytes
                                                 list object other; the tag names the other class on the Python side)
    E <Class> <opt>* :: <ops> ## @sub:<Cls> | <ops>    x = an instance of the library subclass <Cls> of <Class>, given the
                                                 listed (class-level) assignments;  @base:<Cls> likewise for a base class
    F <function> <arg>*                          a pure helper function
  Ops:  pack <v>* · unpack <xhex> <v>* · set <field> <v> · obs · iter · call <method> <v>*
        · len · getitem <int>        (container protocol: `len(obj)`, `obj[i]`; like `call`, they may change the state)
  Answers (histories): results joined by '|' :
    ok:<val> | err:<kind> | ok | <obs value> | ?      ('?' = state unspecified after an earlier error,
                                                       until the next successful unpack)
-/
import Acra.Py.Val
import Acra.Py.Operand
namespace Acra.Drv
open Acra.Py

structure Codec where
  σ : Type
  name : String
  fresh : List Val → Option σ
  pack : σ → List Val → σ × R Val
  unpack : σ → Bytes → List Val → σ × R Val
  set : σ → String → Val → Option (σ × R Unit)
  obs : σ → Val
  eq : σ → σ → R Bool
  call : σ → String → List Val → Option (σ × R Val) := fun _ _ _ => none
  /-- `len(obj)` (`__len__`); `none` = the class is not enrolled for the op (answer `bad-op`) -/
  len : σ → Option (σ × R Val) := fun _ => none
  /-- `obj[i]` (`__getitem__`) for an integer index -/
  getitem : σ → Int → Option (σ × R Val) := fun _ _ => none
  /-- effect of `for x in obj: pass` on the state (the classes that keep an iteration cursor `_index`) -/
  iter : σ → σ := fun s => s
  /-- `a == x` for any operand (`Py.Operand`): the `isinstance` guard of `__eq__` as written in the code -/
  eqOp : Option (σ → Operand σ → R Bool) := none
  /-- `a == x`, x an instance of a library proper subclass / base class (only classes that have such relatives) -/
  eqSub : Option (σ → σ → R Bool) := none
  eqBase : Option (σ → σ → R Bool) := none

def resStr : R Val → String
  | .ok v => "ok:" ++ toString v
  | .error e => "err:" ++ e.name

def splitOps (s : String) : List String :=
  (s.splitOn "|").map (fun x => x.trimAscii.toString)

def words (s : String) : List String :=
  (s.splitOn " ").filter (· ≠ "")

def parseVals (ws : List String) : Option (List Val) := ws.mapM Val.parse

/-- one step of a history: new state, new dirty flag, printed result -/
def stepOp (c : Codec) (s : c.σ) (dirty : Bool) (op : String) : c.σ × Bool × String :=
  match words op with
  | "pack" :: args =>
    match parseVals args with
    | none => (s, dirty, "bad-op")
    | some vs =>
      let (s', r) := c.pack s vs
      if dirty then (s', true, "?") else
      match r with
      | .ok _ => (s', false, resStr r)
      | .error _ => (s', true, resStr r)
  | "unpack" :: b :: args =>
    match Val.parse b, parseVals args with
    | some (.bytes bs), some vs =>
      let (s', r) := c.unpack s bs vs
      match r with
      | .ok _ => (s', false, resStr r)
      | .error _ => (s', true, resStr r)
    | _, _ => (s, dirty, "bad-op")
  | ["set", f, v] =>
    match Val.parse v with
    | none => (s, dirty, "bad-op")
    | some vv =>
      match c.set s f vv with
      | none => (s, dirty, "bad-op")
      | some (s', r) =>
        if dirty then (s', true, "?") else
        match r with
        | .ok _ => (s', false, "ok")
        | .error e => (s', true, "err:" ++ e.name)
  | ["obs"] => if dirty then (s, true, "?") else (s, false, toString (c.obs s))
  | ["iter"] => (c.iter s, dirty, if dirty then "?" else "ok")   -- `for x in obj: pass`: at most the cursor moves
  | "call" :: m :: args =>
    match parseVals args with
    | none => (s, dirty, "bad-op")
    | some vs =>
      match c.call s m vs with
      | none => (s, dirty, "bad-op")
      | some (s', r) =>
        if dirty then (s', true, "?") else
        match r with
        | .ok _ => (s', false, resStr r)
        | .error _ => (s', true, resStr r)
  | ["len"] =>
    match c.len s with
    | none => (s, dirty, "bad-op")
    | some (s', r) =>
      if dirty then (s', true, "?") else
      match r with
      | .ok _ => (s', false, resStr r)
      | .error _ => (s', true, resStr r)
  | ["getitem", i] =>
    match i.toInt? with
    | none => (s, dirty, "bad-op")
    | some k =>
      match c.getitem s k with
      | none => (s, dirty, "bad-op")
      | some (s', r) =>
        if dirty then (s', true, "?") else
        match r with
        | .ok _ => (s', false, resStr r)
        | .error _ => (s', true, resStr r)
  | _ => (s, dirty, "bad-op")

def runOps (c : Codec) (s : c.σ) (ops : List String) : c.σ × Bool × List String :=
  ops.foldl (fun (acc : c.σ × Bool × List String) op =>
    let (s, d, out) := acc
    let (s', d', r) := stepOp c s d op
    (s', d', out ++ [r])) (s, false, [])

def runHistory (c : Codec) (opts : List String) (ops : String) : String :=
  match parseVals opts with
  | none => "bad-opts"
  | some ov =>
    match c.fresh ov with
    | none => "bad-opts"
    | some s =>
      let (_, _, out) := runOps c s (splitOps ops)
      "|".intercalate out

def boolStr : R Bool → String
  | .ok t => if t then "True" else "False"
  | .error e => "err:" ++ e.name

/-- the right-hand side of an `E` line that starts with `@`: a foreign operand, or an instance of a related class -/
def runEqOperand (c : Codec) (sa : c.σ) (fresh : c.σ) (ops : List String) : String :=
  match ops with
  | [] => "bad-line"
  | hd :: rest =>
    match (hd.drop 1).toString.splitOn ":" with
    | "sub" :: _ =>
      match c.eqSub with
      | none => "no-eqsub"
      | some f =>
        let (sb, db, _) := runOps c fresh rest
        if db then "?" else boolStr (f sa sb)
    | "base" :: _ =>
      match c.eqBase with
      | none => "no-eqbase"
      | some f =>
        let (sb, db, _) := runOps c fresh rest
        if db then "?" else boolStr (f sa sb)
    | kind :: _ =>
      match ForeignKind.ofName kind, c.eqOp with
      | some k, some f => boolStr (f sa (.foreign k))
      | none, _ => "bad-operand"
      | _, none => "no-eqop"
    | [] => "bad-operand"

def runEq (c : Codec) (opts : List String) (body : String) : String :=
  match parseVals opts, body.splitOn "##" with
  | some ov, [a, b] =>
    match c.fresh ov, c.fresh ov with
    | some sa, some sb =>
      let (sa', da, _) := runOps c sa (splitOps a)
      if (b.trimAscii.toString).startsWith "@" then
        if da then "?" else runEqOperand c sa' sb (splitOps b)
      else
      let (sb', db, _) := runOps c sb (splitOps b)
      if da || db then "?" else
      match c.eqOp with
      | some f => boolStr (f sa' (.same sb'))
      | none => boolStr (c.eq sa' sb')
    | _, _ => "bad-opts"
  | _, _ => "bad-line"

/-- a pure helper function exposed to the line protocol -/
structure Func where
  name : String
  run : List Val → Option (R Val)

def handleLine (codecs : List Codec) (funcs : List Func) (line : String) : String :=
  let line := line.trimAscii.toString
  match line.splitOn " :: " with
  | [hd, body] =>
    match words hd with
    | "H" :: cls :: opts =>
      match codecs.find? (·.name == cls) with
      | some c => runHistory c opts body
      | none => "unknown-class"
    | "E" :: cls :: opts =>
      -- an operand line (`… ## @kind`) is answered by the codec that carries the class's `eqOp` (the container overlay
      -- replaces some codecs by versions with another state type, which do not carry it)
      let pick := if (body.splitOn "## @").length > 1 then
          (codecs.find? (fun c => c.name == cls && c.eqOp.isSome)).orElse (fun _ => codecs.find? (·.name == cls))
        else codecs.find? (·.name == cls)
      match pick with
      | some c => runEq c opts body
      | none => "unknown-class"
    | _ => "bad-line"
  | [single] =>
    match words single with
    | "F" :: fn :: args =>
      match funcs.find? (·.name == fn), parseVals args with
      | some f, some vs =>
        match f.run vs with
        | some r => resStr r
        | none => "bad-args"
      | none, _ => "unknown-func"
      | _, none => "bad-args"
    | _ => "bad-line"
  | _ => "bad-line"

def natArgs (vs : List Val) : Option (List Nat) := vs.mapM Val.nat?

end Acra.Drv
