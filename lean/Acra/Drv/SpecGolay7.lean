/-
  Spec functions of the golay7 family for the oracles (`F spec.*`).  Independent of Acra.Gen / Acra.Model.
-/
import Acra.Drv.Core
import Acra.Spec.Chapter7
namespace Acra.Drv
open Acra.Py

def bytesList? (v : Val) : Option (List Bytes) := v.list?.bind fun l => l.mapM Val.bytes?

def specFuncsGolay7 : List Func := [
  { name := "spec.golay.encode", run := fun vs =>
      match vs with
      | [v] => v.nat?.map fun n => .ok (.ofNat (Spec.Golay.encode n))
      | _ => none },
  { name := "spec.golay.encodeAll", run := fun vs =>
      match vs with
      | [] => some (.ok (.ofNats ((List.range 4096).map Spec.Golay.encode)))
      | _ => none },
  { name := "spec.ptdp.encode", run := fun vs =>
      match vs with
      | [f, c, .bytes p] => do
        let f ← f.nat?; let c ← c.nat?
        pure (.ok (.bytes (Spec.PTDP.encode f c p)))
      | _ => none },
  { name := "spec.ptfr.encode", run := fun vs =>
      match vs with
      | [v, s, l, o, .bytes p] => do
        let v ← v.nat?; let s ← s.nat?; let l ← l.bool?; let o ← o.nat?
        pure (.ok (.bytes (Spec.PTFR.encode v s l o p)))
      | _ => none },
  { name := "spec.ch7.stream", run := fun vs =>
      match vs with
      | [p] => (bytesList? p).map fun ps => .ok (.bytes (Spec.Ch7.stream ps))
      | _ => none },
  { name := "spec.ch7.starts", run := fun vs =>
      match vs with
      | [p] => (bytesList? p).map fun ps => .ok (.ofNats (Spec.Ch7.starts ps))
      | _ => none },
  { name := "spec.ch7.frames", run := fun vs =>
      match vs with
      | [l, s, p] => do
        let l ← l.nat?; let s ← s.nat?; let ps ← bytesList? p
        pure (.ok (.list ((Spec.Ch7.frames l s ps).map Val.bytes)))
      | _ => none }
]
end Acra.Drv
