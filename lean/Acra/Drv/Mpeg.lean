/-
  Driver codecs for the MPEG family (line protocol ↔ models of MPEGTS.py, MPEG/PMT.py, MPEG/PES.py).
  Floats travel as the 64-bit IEEE-754 image (a natural number).
-/
import Acra.Drv.Core
import Acra.Model.MPEGTS
import Acra.Model.PMT
import Acra.Model.PES
namespace Acra.Drv.Mpeg
open Acra.Py Acra.Drv Acra.Model.MPEGTS Acra.Model.PMT Acra.Model.PES

def okU (s : σ) : Option (σ × R Unit) := some (s, .ok ())
def mapRes (p : σ × R α) (f : α → Val) : σ × R Val := (p.1, p.2.map f)

/-- build an object from `Name{f=v,…}`: start from the fresh object and assign the listed fields -/
def applyFields (set : σ → String → Val → Option σ) (s : σ) : List (String × Val) → Option σ
  | [] => some s
  | (k, v) :: r => (set s k v).bind fun s' => applyFields set s' r

def objFields (name : String) : Val → Option (List (String × Val))
  | .obj n fs => if n == name then some fs else none
  | _ => none

def optObj (f : Val → Option α) : Val → Option (Option α)
  | .null => some none
  | v => (f v).map some

def listOf (f : Val → Option α) (v : Val) : Option (List α) := v.list?.bind fun l => l.mapM f

/-! ### MPEGAdaptionExtension -/
def setExt (s : Ext) (f : String) (v : Val) : Option Ext :=
  match f with
  | "ltw_flag" => v.bool?.map fun b => { s with ltw_flag := b }
  | "piecewise_rate_flag" => v.bool?.map fun b => { s with piecewise_rate_flag := b }
  | "seamless_splice_flag" => v.bool?.map fun b => { s with seamless_splice_flag := b }
  | "ltw" => v.bytes?.map fun b => { s with ltw := b }
  | "piecewise" => v.bytes?.map fun b => { s with piecewise := b }
  | "seamless_splice" => v.bytes?.map fun b => { s with seamless_splice := b }
  | _ => none
def extOfVal (v : Val) : Option Ext :=
  (objFields "MPEGAdaptionExtension" v).bind (applyFields setExt Ext.fresh)
def extVal (s : Ext) : Val :=
  .obj "MPEGAdaptionExtension" [("ltw_flag", .bool s.ltw_flag), ("piecewise_rate_flag", .bool s.piecewise_rate_flag),
    ("seamless_splice_flag", .bool s.seamless_splice_flag), ("ltw", .bytes s.ltw),
    ("piecewise", .bytes s.piecewise), ("seamless_splice", .bytes s.seamless_splice)]
def optVal (f : α → Val) : Option α → Val
  | some x => f x
  | none => .null

def extCodec : Codec :=
  { σ := Ext, name := "MPEGAdaptionExtension", fresh := fun _ => some Ext.fresh,
    pack := fun s _ => mapRes (Ext.pack s) Val.bytes,
    unpack := fun s b _ => mapRes (Ext.unpack s b) Val.ofNat,
    set := fun s f v => (setExt s f v).bind okU,
    obs := extVal, eq := fun a b => .ok (Ext.eq a b) }

/-! ### MPEGAdaption -/
def setAF (s : AF) (f : String) (v : Val) : Option AF :=
  match f with
  | "length" => v.nat?.map fun n => { s with length := n }
  | "discontinutiy" => v.bool?.map fun b => { s with discontinutiy := b }
  | "random_access" => v.bool?.map fun b => { s with random_access := b }
  | "es_priority" => v.bool?.map fun b => { s with es_priority := b }
  | "pcr_flag" => v.bool?.map fun b => { s with pcr_flag := b }
  | "opcr_flag" => v.bool?.map fun b => { s with opcr_flag := b }
  | "splicing_flag" => v.bool?.map fun b => { s with splicing_flag := b }
  | "transpart_flag" => v.bool?.map fun b => { s with transpart_flag := b }
  | "extension_flag" => v.bool?.map fun b => { s with extension_flag := b }
  | "pcr" => v.bytes?.map fun b => { s with pcr := b }
  | "opcr" => v.bytes?.map fun b => { s with opcr := b }
  | "splice_countdown" => v.nat?.map fun n => { s with splice_countdown := n }
  | "private_data" => v.bytes?.map fun b => { s with private_data := b }
  | "adaption_extension" => (optObj extOfVal v).map fun x => { s with adaption_extension := x }
  | _ => none
def afOfVal (v : Val) : Option AF := (objFields "MPEGAdaption" v).bind (applyFields setAF AF.fresh)
def afVal (s : AF) : Val :=
  .obj "MPEGAdaption" [("length", .ofNat s.length), ("discontinutiy", .bool s.discontinutiy),
    ("random_access", .bool s.random_access), ("es_priority", .bool s.es_priority),
    ("pcr_flag", .bool s.pcr_flag), ("opcr_flag", .bool s.opcr_flag), ("splicing_flag", .bool s.splicing_flag),
    ("transpart_flag", .bool s.transpart_flag), ("extension_flag", .bool s.extension_flag),
    ("pcr", .bytes s.pcr), ("opcr", .bytes s.opcr), ("splice_countdown", .ofNat s.splice_countdown),
    ("private_data", .bytes s.private_data), ("adaption_extension", optVal extVal s.adaption_extension)]

def afCodec : Codec :=
  { σ := AF, name := "MPEGAdaption", fresh := fun _ => some AF.fresh,
    pack := fun s _ => mapRes (AF.pack s) Val.bytes,
    unpack := fun s b _ => mapRes (AF.unpack s b) fun _ => .null,
    set := fun s f v => (setAF s f v).bind okU,
    obs := afVal, eq := fun a b => .ok (AF.eq a b) }

/-! ### MPEGPacket -/
def setPkt (s : Pkt) (f : String) (v : Val) : Option Pkt :=
  match f with
  | "sync" => v.nat?.map fun n => { s with sync := n }
  | "pid" => v.nat?.map fun n => { s with pid := n }
  | "tei" => v.bool?.map fun b => { s with tei := b }
  | "pusi" => v.bool?.map fun b => { s with pusi := b }
  | "transport_priority" => v.nat?.map fun n => { s with transport_priority := n }
  | "tsc" => v.nat?.map fun n => { s with tsc := n }
  | "adaption_ctrl" => v.nat?.map fun n => { s with adaption_ctrl := n }
  | "continuitycounter" => v.nat?.map fun n => { s with continuitycounter := n }
  | "payload" => v.bytes?.map fun b => { s with payload := b }
  | "adaption_field" => (optObj afOfVal v).map fun x => { s with adaption_field := x }
  | _ => none
def pktOfVal (v : Val) : Option Pkt := (objFields "MPEGPacket" v).bind (applyFields setPkt Pkt.fresh)
def pktFields (s : Pkt) : List (String × Val) :=
  [("sync", .ofNat s.sync), ("pid", .ofNat s.pid), ("tei", .bool s.tei), ("pusi", .bool s.pusi),
   ("transport_priority", .ofNat s.transport_priority), ("tsc", .ofNat s.tsc),
   ("adaption_ctrl", .ofNat s.adaption_ctrl), ("continuitycounter", .ofNat s.continuitycounter),
   ("payload", .bytes s.payload), ("adaption_field", optVal afVal s.adaption_field)]
def pktVal (s : Pkt) : Val := .obj "MPEGPacket" (pktFields s)

/-- `pack` / `pack True` / `pack False` -/
def nostuffArg : List Val → Option Bool
  | [] => some false
  | [v] => v.bool?
  | _ => none

def pktCodec : Codec :=
  { σ := Pkt, name := "MPEGPacket", fresh := fun _ => some Pkt.fresh,
    pack := fun s a => match nostuffArg a with
      | some ns => mapRes (Pkt.pack s ns) Val.bytes
      | none => (s, .error .type),
    unpack := fun s b _ => mapRes (Pkt.unpack s b) fun _ => .null,
    set := fun s f v => (setPkt s f v).bind okU,
    obs := pktVal, eq := fun a b => .ok (Pkt.eq a b) }

/-! ### MPEGTS -/
def tsCodec : Codec :=
  { σ := TS, name := "MPEGTS", fresh := fun _ => some TS.fresh,
    pack := fun s _ => mapRes (TS.pack s) Val.bytes,
    unpack := fun s b _ => mapRes (TS.unpack s b) Val.bool,
    set := fun s f v => if f == "blocks" then (listOf pktOfVal v).bind fun l => okU { s with blocks := l } else none,
    obs := fun s => .obj "MPEGTS" [("blocks", .list (s.blocks.map pktVal))],
    eq := fun a b => .ok (TS.eq a b) }

/-! ### PMT -/
def setDesc (s : Desc) (f : String) (v : Val) : Option Desc :=
  match f with
  | "tag" => v.optNat?.map fun n => { s with tag := n }
  | "data" => v.bytes?.map fun b => { s with data := b }
  | _ => none
def descOfVal (v : Val) : Option Desc := (objFields "DescriptorTag" v).bind (applyFields setDesc Desc.fresh)
def descVal (d : Desc) : Val := .obj "DescriptorTag" [("tag", .ofOptNat d.tag), ("data", .bytes d.data)]

def setStream (s : Stream) (f : String) (v : Val) : Option Stream :=
  match f with
  | "streamtype" => v.nat?.map fun n => { s with streamtype := n }
  | "elementary_pid" => v.nat?.map fun n => { s with elementary_pid := n }
  | "elementary_stream_descriptors" => v.bytes?.map fun b => { s with elementary_stream_descriptors := b }
  | _ => none
def streamOfVal (v : Val) : Option Stream := (objFields "PMTStream" v).bind (applyFields setStream Stream.fresh)
def streamVal (s : Stream) : Val :=
  .obj "PMTStream" [("streamtype", .ofNat s.streamtype), ("elementary_pid", .ofNat s.elementary_pid),
    ("elementary_stream_descriptors", .bytes s.elementary_stream_descriptors)]

/-- the element classes as codecs of their own: `unpack` returns the remainder -/
def descCodec : Codec :=
  { σ := Desc, name := "DescriptorTag", fresh := fun _ => some Desc.fresh,
    pack := fun s _ => (s, (Desc.pack s).map Val.bytes),
    unpack := fun s b _ => match Desc.unpack b with
      | .ok (d, rest) => (d, .ok (.bytes rest))
      | .error e => (s, .error e),
    set := fun s f v => (setDesc s f v).bind okU,
    obs := descVal, eq := fun a b => .ok (a == b) }
def streamCodec : Codec :=
  { σ := Stream, name := "PMTStream", fresh := fun _ => some Stream.fresh,
    pack := fun s _ => (s, (Stream.pack s).map Val.bytes),
    unpack := fun s b _ => match Stream.unpack b with
      | .ok (d, rest) => (d, .ok (.bytes rest))
      | .error e => (s, .error e),
    set := fun s f v => (setStream s f v).bind okU,
    obs := streamVal, eq := fun a b => .ok (a == b) }

def setPMT (s : PMT) (f : String) (v : Val) : Option PMT :=
  match f with
  | "tableid" => v.nat?.map fun n => { s with tableid := n }
  | "syntax_indicator" => v.nat?.map fun n => { s with syntax_indicator := n }
  | "program_number" => v.nat?.map fun n => { s with program_number := n }
  | "version" => v.nat?.map fun n => { s with version := n }
  | "current_next_indicator" => v.nat?.map fun n => { s with current_next_indicator := n }
  | "section" => v.nat?.map fun n => { s with sectionNo := n }
  | "last_section" => v.nat?.map fun n => { s with last_section := n }
  | "pcr_pid" => v.nat?.map fun n => { s with pcr_pid := n }
  | "program_info_len" => v.nat?.map fun n => { s with program_info_len := n }
  | "streams" => (listOf streamOfVal v).map fun l => { s with streams := l }
  | "descriptor_tags" => (listOf descOfVal v).map fun l => { s with descriptor_tags := l }
  | "_crc" => v.optNat?.map fun n => { s with crc := n }
  | _ => (setPkt s.pkt f v).map fun p => { s with pkt := p }

def pmtCodec : Codec :=
  { σ := PMT, name := "MPEGPacketPMT", fresh := fun _ => some PMT.fresh,
    pack := fun s _ => mapRes (PMT.pack s) Val.bytes,
    unpack := fun s b _ => mapRes (PMT.unpack s b) Val.bool,
    set := fun s f v => (setPMT s f v).bind okU,
    obs := fun s => .obj "MPEGPacketPMT" (pktFields s.pkt ++
      [("tableid", .ofNat s.tableid), ("syntax_indicator", .ofNat s.syntax_indicator),
       ("program_number", .ofNat s.program_number), ("version", .ofNat s.version),
       ("current_next_indicator", .ofNat s.current_next_indicator), ("section", .ofNat s.sectionNo),
       ("last_section", .ofNat s.last_section), ("pcr_pid", .ofNat s.pcr_pid),
       ("program_info_len", .ofNat s.program_info_len), ("streams", .list (s.streams.map streamVal)),
       ("descriptor_tags", .list (s.descriptor_tags.map descVal)), ("_crc", .ofOptNat s.crc)]),
    eq := fun a b => .ok (PMT.eq a b) }

/-! ### PES, STANAG 4609 -/
def setPES (s : PES) (f : String) (v : Val) : Option PES :=
  match f with
  | "streamid" => v.nat?.map fun n => { s with streamid := n }
  | "pesdata" => v.bytes?.map fun b => { s with pesdata := b }
  | "extension_w1" => v.optNat?.map fun n => { s with extension_w1 := n }
  | "extension_w2" => v.optNat?.map fun n => { s with extension_w2 := n }
  | "header_data" => v.optBytes?.map fun b => { s with header_data := b }
  | _ => (setPkt s.pkt f v).map fun p => { s with pkt := p }
def pesFields (s : PES) : List (String × Val) :=
  pktFields s.pkt ++ [("streamid", .ofNat s.streamid), ("pesdata", .bytes s.pesdata),
    ("extension_w1", .ofOptNat s.extension_w1), ("extension_w2", .ofOptNat s.extension_w2),
    ("header_data", .ofOptBytes s.header_data)]

def pesCodec : Codec :=
  { σ := PES, name := "PES", fresh := fun _ => some PES.fresh,
    pack := fun s _ => mapRes (PES.pack s) Val.bytes,
    unpack := fun s b _ => mapRes (PES.unpack s b) fun _ => .null,
    set := fun s f v => (setPES s f v).bind okU,
    obs := fun s => .obj "PES" (pesFields s), eq := fun a b => .ok (PES.eq a b) }

def setSTANAG (s : STANAG) (f : String) (v : Val) : Option STANAG :=
  match f with
  | "stanag_counter" => v.nat?.map fun n => { s with stanag_counter := n }
  | "_unknown" => v.nat?.map fun n => { s with unknown := n }
  | "_unknown2" => v.nat?.map fun n => { s with unknown2 := n }
  | "time_us" => v.nat?.map fun n => { s with time_us := n }
  | _ => (setPES s.pes f v).map fun p => { s with pes := p }

def stanagCodec : Codec :=
  { σ := STANAG, name := "STANAG4609", fresh := fun _ => some STANAG.fresh,
    pack := fun s _ => mapRes (STANAG.pack s) Val.bytes,
    unpack := fun s b _ => mapRes (STANAG.unpack s b) fun _ => .null,
    set := fun s f v => (setSTANAG s f v).bind okU,
    obs := fun s => .obj "STANAG4609" (pesFields s.pes ++
      [("stanag_counter", .ofNat s.stanag_counter), ("_unknown", .ofNat s.unknown),
       ("_unknown2", .ofNat s.unknown2), ("time_us", .ofNat s.time_us)]),
    eq := fun a b => .ok (STANAG.eq a b) }

/-! ### helper functions -/
def floatArg (v : Val) : Option Rat := v.nat?.map Acra.Py.Float.ofBits

def mpegFuncs : List Func := [
  { name := "crc32mpeg2", run := fun vs => match vs with
      | [.bytes b] => some (.ok (.ofNat (crc32mpeg2 b)))
      | _ => none },
  { name := "checksum_stanag", run := fun vs => match vs with
      | [.bytes b] => some (.ok (.ofNat (checksum_stanag b)))
      | _ => none },
  { name := "pts_to_ts", run := fun vs => match vs with
      | [v] => v.nat?.map fun n => .ok (.ofNat (Acra.Py.Float.toBits (pts_to_ts Acra.Py.Float.rne n)))
      | _ => none },
  { name := "ts_to_pts", run := fun vs => match vs with
      | [v] => (floatArg v).map fun q => .ok (.ofNat (ts_to_pts Acra.Py.Float.rne q))
      | _ => none },
  { name := "ts_to_buf", run := fun vs => match vs with
      | [v] => (floatArg v).map fun q => (ts_to_buf Acra.Py.Float.rne q).map Val.bytes
      | _ => none },
  { name := "buf_to_ts", run := fun vs => match vs with
      | [.bytes b] => some ((buf_to_ts Acra.Py.Float.rne b).map fun q => .ofNat (Acra.Py.Float.toBits q))
      | _ => none }
]

def mpegCodecs : List Codec :=
  [extCodec, afCodec, pktCodec, tsCodec, descCodec, streamCodec, pmtCodec, pesCodec, stanagCodec]

end Acra.Drv.Mpeg
