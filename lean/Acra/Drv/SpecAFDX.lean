/- Spec functions of the `afdx` family for the oracles (imports nothing regenerated). -/
import Acra.Drv.Core
import Acra.Spec.AFDX
namespace Acra.Drv
open Acra.Py

def specFuncsAFDX : List Func := [
  { name := "spec.AFDX.encode", run := fun vs => match vs with
      | [a, b, c, d, e, .bytes p, f] => do
        let [a, b, c, d, e, f] ← natArgs [a, b, c, d, e, f] | none
        pure (.ok (.bytes (Spec.AFDX.encode a b c d e p f)))
      | _ => none }
]
end Acra.Drv
