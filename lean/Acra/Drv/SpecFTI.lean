/-
  The declarative layouts exposed as pure functions (`F spec.<name> args…`) so that the oracle
  search can compare the real code's output with the layout on concrete inputs.  This file and
  everything it imports is independent of Acra.Gen and Acra.Model: a change to /repo cannot
  stop the spec driver from building.
-/
import Acra.Drv.Core
import Acra.Spec.FTI
namespace Acra.Drv
open Acra.Py


def specFuncsFTI : List Func := [
  { name := "spec.iNetX.encode", run := fun vs =>
      match vs with
      | [a, b, c, d, e, f, .bytes p] => do
        let [a, b, c, d, e, f] ← natArgs [a, b, c, d, e, f] | none
        pure (.ok (.bytes (Spec.iNetX.encode a b c d e f p)))
      | _ => none },
  { name := "spec.IENA.encode", run := fun vs =>
      match vs with
      | [a, b, c, d, e, f, .bytes p] => do
        let [a, b, c, d, e, f] ← natArgs [a, b, c, d, e, f] | none
        pure (.ok (.bytes (Spec.IENA.encode a b c d e f p)))
      | _ => none },
  { name := "spec.IENAM.encodeParam", run := fun vs =>
      match vs with
      | [a, b, .bytes p] => do
        let [a, b] ← natArgs [a, b] | none
        pure (.ok (.bytes (Spec.IENAM.encodeParam a b p)))
      | _ => none }
]
end Acra.Drv
