/-
  The declarative layouts of Acra/Spec/FTI2.lean exposed as pure functions (`F spec.<name> args…`)
  for the oracle search.  Independent of Acra.Gen and Acra.Model.
-/
import Acra.Drv.Core
import Acra.Spec.FTI2
namespace Acra.Drv
open Acra.Py

private def okB (b : Bytes) : Option (R Val) := some (.ok (.bytes b))

def specFuncsFTI2 : List Func := [
  { name := "spec.IENAQ.encodeParam", run := fun vs =>
      match vs with
      | [a, .bytes p] => a.nat?.bind fun a => okB (Spec.IENAQ.encodeParam a p)
      | _ => none },
  { name := "spec.IENAD.encodeParam", run := fun vs =>
      match vs with
      | [a, b, ws] => do
        let [a, b] ← natArgs [a, b] | none
        let ws ← ws.natList?
        okB (Spec.IENAD.encodeParam a b ws)
      | _ => none },
  { name := "spec.IENAN.encodeParam", run := fun vs =>
      match vs with
      | [a, ws] => do
        let a ← a.nat?
        let ws ← ws.natList?
        okB (Spec.IENAN.encodeParam a ws)
      | _ => none },
  { name := "spec.iNETPackage.encode", run := fun vs =>
      match vs with
      | [a, b, c, .bytes p] => do
        let [a, b, c] ← natArgs [a, b, c] | none
        okB (Spec.iNETPackage.encode a b c p)
      | _ => none },
  { name := "spec.iNET.encode", run := fun vs =>
      match vs with
      | [a, b, c, d, e, f, g, af, .bytes p] => do
        let [a, b, c, d, e, f, g] ← natArgs [a, b, c, d, e, f, g] | none
        let af ← af.natList?
        okB (Spec.iNET.encode a b c d e f g af p)
      | _ => none },
  { name := "spec.NPDSegment.encode", run := fun vs =>
      match vs with
      | [a, b, c, .bytes p] => do
        let [a, b, c] ← natArgs [a, b, c] | none
        okB (Spec.NPDSegment.encode a b c p)
      | _ => none },
  { name := "spec.NPD.encode", run := fun vs =>
      match vs with
      | [a, b, c, d, e, f, g, h, .bytes p] => do
        let [a, b, c, d, e, f, g, h] ← natArgs [a, b, c, d, e, f, g, h] | none
        okB (Spec.NPD.encode a b c d e f g h p)
      | _ => none },
  { name := "spec.RS232.encodeData", run := fun vs =>
      match vs with
      | [a, sy, .bytes p] => do
        let a ← a.nat?
        let sy ← sy.natList?
        okB (Spec.RS232.encodeData a sy p)
      | _ => none },
  { name := "spec.MIL1553.encodeData", run := fun vs =>
      match vs with
      | [a, b, c, .bytes p] => do
        let [a, b, c] ← natArgs [a, b, c] | none
        okB (Spec.MIL1553.encodeData a b c p)
      | _ => none },
  { name := "spec.ACQ.encodeData", run := fun vs =>
      match vs with
      | [a, b, c, d, ws] => do
        let [a, b, c, d] ← natArgs [a, b, c, d] | none
        let ws ← ws.natList?
        okB (Spec.ACQ.encodeData a b c d ws)
      | _ => none },
  { name := "spec.ParserAlignedBlock.encode", run := fun vs =>
      match vs with
      | [.bool er, a, b, c, d, .bytes p] => do
        let [a, b, c, d] ← natArgs [a, b, c, d] | none
        okB (Spec.ParserAlignedBlock.encode er a b c d p)
      | _ => none }
]
end Acra.Drv
