/-
  Spec functions of the `search` family for the oracles (`F spec.<name> args…` on the spec driver).
  Independent of Acra.Gen and Acra.Model.
-/
import Acra.Drv.Core
import Acra.Spec.Search
namespace Acra.Drv
open Acra.Py

def specFuncsSearch : List Func := [
  { name := "spec.occ", run := fun vs =>
      match vs with
      | [.bytes t, .bytes p] => some (.ok (Val.ofNats (Spec.occ t p)))
      | _ => none },
  { name := "spec.swapGroups", run := fun vs =>
      match vs with
      | [n, .bytes b] => n.nat?.map fun n => .ok (.bytes (Spec.swapGroups n b))
      | _ => none },
  { name := "spec.samdec.record", run := fun vs =>
      match vs with
      | [s, u, .bytes p] => do
        let [s, u] ← natArgs [s, u] | none
        pure (.ok (.bytes (Spec.SamDec.record s u p)))
      | _ => none },
  { name := "spec.samdec.packet", run := fun vs =>
      match vs with
      | [.bytes l, a, b, c, d, e, .bytes h, .list fs] => do
        let [a, b, c, d, e] ← natArgs [a, b, c, d, e] | none
        let fs ← fs.mapM Val.bytes?
        pure (.ok (.bytes (Spec.SamDec.packet l a b c d e h fs)))
      | _ => none }
]
end Acra.Drv
