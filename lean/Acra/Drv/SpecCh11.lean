/-
  The Chapter 11 payload layouts exposed as pure functions for the oracle search (`F spec.ch11.* …`).
  Imports nothing from Acra.Gen / Acra.Model.
-/
import Acra.Drv.Core
import Acra.Spec.Ch11
namespace Acra.Drv
open Acra.Py Acra.Spec.Ch11

def tsOfVal (v : Val) : Option TS :=
  match v with
  | .null => some .absent
  | .obj "IptsRTC" _ => do pure (.rtc (← (← v.field? "count").nat?))
  | .obj "IptsPTP" _ => do pure (.ptp (← (← v.field? "seconds").nat?) (← (← v.field? "nanoseconds").nat?))
  | _ => none

def bytesList (v : Val) : Option (List Bytes) := v.list?.bind fun l => l.mapM Val.bytes?

def okB (b : Bytes) : Option (R Val) := some (.ok (.bytes b))

def specFuncsCh11 : List Func := [
  { name := "spec.ch11.uartWord", run := fun vs =>
      match vs with
      | [ts, pe, sub, .bytes d, le] => do
        okB (uartWord (← tsOfVal ts) (← pe.bool?) (← sub.nat?) d (← le.bool?))
      | _ => none },
  { name := "spec.ch11.uartPacket", run := fun vs =>
      match vs with
      | [iph, ws] => do okB (uartPacket (← iph.bool?) (← bytesList ws))
      | _ => none },
  { name := "spec.ch11.milMessage", run := fun vs =>
      match vs with
      | [ts, bs, gap, .bytes d] => do okB (milMessage (← tsOfVal ts) (← bs.nat?) (← gap.nat?) d)
      | _ => none },
  { name := "spec.ch11.milPacket", run := fun vs =>
      match vs with
      | [ttb, ms] => do okB (milPacket (← ttb.nat?) (← bytesList ms))
      | _ => none },
  { name := "spec.ch11.arincWord", run := fun vs =>
      match vs with
      | [bus, fe, pe, sp, gap, .bytes d] => do
        okB (arincWord (← bus.nat?) (← fe.bool?) (← pe.bool?) (← sp.nat?) (← gap.nat?) d)
      | _ => none },
  { name := "spec.ch11.arincPacket", run := fun vs =>
      match vs with
      | [ws] => do okB (arincPacket (← bytesList ws))
      | _ => none },
  { name := "spec.ch11.pcmFrame", run := fun vs =>
      match vs with
      | [ts, a32, hdr, .bytes d] => do okB (pcmFrame (← tsOfVal ts) (← a32.bool?) (← hdr.nat?) d)
      | _ => none },
  { name := "spec.ch11.pcmPacket", run := fun vs =>
      match vs with
      | [csw, fs] => do okB (pcmPacket (← csw.nat?) (← bytesList fs))
      | _ => none },
  { name := "spec.ch11.time1DMY", run := fun vs => do
      let [a, b, c, d, e, f, g, h] ← natArgs vs | none
      okB (time1DMY a b c d e f g h) },
  { name := "spec.ch11.time1DOY", run := fun vs => do
      let [a, b, c, d, e, f] ← natArgs vs | none
      okB (time1DOY a b c d e f) },
  { name := "spec.ch11.time2", run := fun vs => do
      let [a, b, c] ← natArgs vs | none
      okB (time2 a b c) },
  { name := "spec.ch11.cswData", run := fun vs =>
      match vs with
      | [csw, .bytes d] => do okB (cswData (← csw.nat?) d)
      | _ => none },
  { name := "spec.ch11.setupRecord", run := fun vs =>
      match vs with
      | [a, b, c, .bytes d] => do okB (setupRecord (← a.nat?) (← b.nat?) (← c.nat?) d)
      | _ => none },
  { name := "spec.ch11.video2", run := fun vs =>
      match vs with
      | [csw, ps] => do okB (video2 (← csw.nat?) (← bytesList ps))
      | _ => none }
]
end Acra.Drv
