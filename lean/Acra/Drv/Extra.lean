/-
  Driver codecs and functions of the `extra` family (line protocol ↔ Model/ExtraMpeg, ExtraMisc, ExtraTime).

  Wire forms:  a float is `F64{bits=<IEEE-754 image>}` (non-negative, normal or zero), a `datetime` is
  `DT{year=…,month=…,day=…,hour=…,minute=…,second=…,microsecond=…}`, a ptptime/nanotime object is
  `PT{year=…,…,microsecond=…,nanosecond=…,leapyear=<True|False|int>}`, a nanotime.timedelta is
  `TD{days=…,seconds=…,microseconds=…,nanoseconds=…}`.
-/
import Acra.Drv.Core
import Acra.Model.ExtraMpeg
import Acra.Model.ExtraMisc
import Acra.Model.ExtraTime
namespace Acra.Drv.ExtraC
open Acra.Py Acra.Py.Float Acra.Drv Acra.Model.Extra Acra.Model.ExtraTime

def okU (s : σ) : Option (σ × R Unit) := some (s, .ok ())
def unitRes (p : σ × R Unit) (v : Val := .null) : σ × R Val := (p.1, p.2.map fun _ => v)

def applyFields (set : σ → String → Val → Option σ) (s : σ) : List (String × Val) → Option σ
  | [] => some s
  | (k, v) :: r => (set s k v).bind fun s' => applyFields set s' r

def objFields (name : String) : Val → Option (List (String × Val))
  | .obj n fs => if n == name then some fs else none
  | _ => none

def optOf (f : Val → Option α) : Val → Option (Option α)
  | .null => some none
  | v => (f v).map some

def optVal (f : α → Val) : Option α → Val
  | some x => f x
  | none => .null

def int? : Val → Option Int
  | .int n => some n
  | .bool b => some (if b then 1 else 0)
  | _ => none

/-! ### floats and datetimes -/
def f64Val (q : Rat) : Val := .obj "F64" [("bits", .ofNat (toBits q))]
def f64? (v : Val) : Option Rat :=
  (objFields "F64" v).bind fun fs => match fs with
    | [("bits", b)] => b.nat?.map ofBits
    | _ => none

def dtVal (d : DT) : Val :=
  .obj "DT" [("year", .ofNat d.year), ("month", .ofNat d.month), ("day", .ofNat d.day), ("hour", .ofNat d.hour),
    ("minute", .ofNat d.minute), ("second", .ofNat d.second), ("microsecond", .ofNat d.microsecond)]
def dt? (v : Val) : Option DT := do
  let y ← (← v.field? "year").nat?
  let mo ← (← v.field? "month").nat?
  let d ← (← v.field? "day").nat?
  let h ← (← v.field? "hour").nat?
  let mi ← (← v.field? "minute").nat?
  let s ← (← v.field? "second").nat?
  let us ← (← v.field? "microsecond").nat?
  pure { year := y, month := mo, day := d, hour := h, minute := mi, second := s, microsecond := us }

/-! ### STANAG4609_SEI -/
def setSEI (s : SEI) (f : String) (v : Val) : Option SEI :=
  match f with
  | "payloadtype" => v.optNat?.map fun x => { s with payloadtype := x }
  | "payloadsize" => v.optNat?.map fun x => { s with payloadsize := x }
  | "unregdata" => v.bool?.map fun x => { s with unregdata := x }
  | "status" => v.optNat?.map fun x => { s with status := x }
  | "seconds" => (optOf f64? v).map fun x => { s with seconds := x }
  | "microseconds" => v.optNat?.map fun x => { s with microseconds := x }
  | "nanoseconds" => v.optNat?.map fun x => { s with nanoseconds := x }
  | "time" => (optOf dt? v).map fun x => { s with time := x }
  | "stanag" => v.bool?.map fun x => { s with stanag := x }
  | _ => none
def seiVal (s : SEI) : Val :=
  .obj "STANAG4609_SEI" [("payloadtype", .ofOptNat s.payloadtype), ("payloadsize", .ofOptNat s.payloadsize),
    ("unregdata", .bool s.unregdata), ("status", .ofOptNat s.status), ("seconds", optVal f64Val s.seconds),
    ("microseconds", .ofOptNat s.microseconds), ("nanoseconds", .ofOptNat s.nanoseconds),
    ("time", optVal dtVal s.time), ("stanag", .bool s.stanag)]
def seiOfVal (v : Val) : Option SEI := (objFields "STANAG4609_SEI" v).bind (applyFields setSEI SEI.fresh)

def seiCodec : Codec :=
  { σ := SEI, name := "STANAG4609_SEI", fresh := fun _ => some SEI.fresh,
    pack := fun s _ => (s, .error .attribute),
    unpack := fun s b _ => unitRes (SEI.unpack s b),
    set := fun s f v => (setSEI s f v).bind okU,
    obs := seiVal, eq := fun _ _ => .ok false }

/-! ### ADTS -/
def setADTS (s : ADTS) (f : String) (v : Val) : Option ADTS :=
  match f with
  | "aac" => v.bytes?.map fun x => { s with aac := x }
  | "version" => v.nat?.map fun x => { s with version := x }
  | "sampling_freq" => v.nat?.map fun x => { s with sampling_freq := x }
  | "_length" => v.nat?.map fun x => { s with length := x }
  | "no_crc" => v.bool?.map fun x => { s with no_crc := x }
  | _ => none
def adtsVal (s : ADTS) : Val :=
  .obj "ADTS" [("aac", .bytes s.aac), ("version", .ofNat s.version), ("sampling_freq", .ofNat s.sampling_freq),
    ("_length", .ofNat s.length), ("no_crc", .bool s.no_crc)]

def adtsCodec : Codec :=
  { σ := ADTS, name := "ADTS", fresh := fun _ => some ADTS.fresh,
    pack := fun s _ => (s, .error .attribute),
    unpack := fun s b _ => unitRes (ADTS.unpack s b),
    set := fun s f v => (setADTS s f v).bind okU,
    obs := adtsVal, eq := fun _ _ => .ok false }

/-! ### NAL, H264 -/
def setNAL (s : NAL) (f : String) (v : Val) : Option NAL :=
  match f with
  | "type" => v.nat?.map fun x => { s with type := x }
  | "size" => v.nat?.map fun x => { s with size := x }
  | "sei" => (optOf seiOfVal v).map fun x => { s with sei := x }
  | "offset" => v.nat?.map fun x => { s with offset := x }
  | _ => none
def nalVal (s : NAL) : Val :=
  .obj "NAL" [("type", .ofNat s.type), ("size", .ofNat s.size), ("sei", optVal seiVal s.sei),
    ("offset", .ofNat s.offset)]
def nalOfVal (v : Val) : Option NAL := (objFields "NAL" v).bind (applyFields setNAL NAL.fresh)

def nalCodec : Codec :=
  { σ := NAL, name := "NAL", fresh := fun _ => some NAL.fresh,
    pack := fun s _ => (s, .error .attribute),
    unpack := fun s b _ => unitRes (NAL.unpack s b),
    set := fun s f v => (setNAL s f v).bind okU,
    obs := nalVal, eq := fun _ _ => .ok false }

def h264Codec : Codec :=
  { σ := H264, name := "H264", fresh := fun _ => some H264.fresh,
    pack := fun s _ => (s, .error .attribute),
    unpack := fun s b _ => let p := H264.unpack s b; (p.1, p.2.map Val.bool),
    set := fun s f v =>
      if f == "nals" then (v.list?.bind fun l => l.mapM nalOfVal).bind fun ns => okU { s with nals := ns }
      else none,
    obs := fun s => .obj "H264" [("nals", .list (s.nals.map nalVal))], eq := fun _ _ => .ok false }

/-! ### ParserAligned.ARINC429 -/
def numVal : Num → Val
  | .none => .null
  | .int n => .ofNat n
  | .float q => f64Val q
def num? : Val → Option Num
  | .null => some .none
  | .int n => if n ≥ 0 then some (.int n.toNat) else none
  | v => (f64? v).map .float

def setA429 (s : A429) (f : String) (v : Val) : Option A429 :=
  match f with
  | "parity" => (num? v).map fun x => { s with parity := x }
  | "ssm" => (num? v).map fun x => { s with ssm := x }
  | "data" => (num? v).map fun x => { s with data := x }
  | "sdi" => (num? v).map fun x => { s with sdi := x }
  | "label" => (num? v).map fun x => { s with label := x }
  | _ => none

def a429Codec : Codec :=
  { σ := A429, name := "ParserAlignedARINC429", fresh := fun _ => some A429.fresh,
    pack := fun s _ => (s, .error .attribute),
    unpack := fun s b _ => unitRes (A429.unpack s b),
    set := fun s f v => (setA429 s f v).bind okU,
    obs := fun s => .obj "ParserAlignedARINC429" [("parity", numVal s.parity), ("ssm", numVal s.ssm),
      ("data", numVal s.data), ("sdi", numVal s.sdi), ("label", numVal s.label)],
    eq := fun _ _ => .ok false }

/-! ### IPv6 -/
def setIPv6 (s : IPv6) (f : String) (v : Val) : Option IPv6 :=
  match f with
  | "version" => v.nat?.map fun x => { s with version := x }
  | "traffic_class" => v.nat?.map fun x => { s with traffic_class := x }
  | "flow_label" => v.nat?.map fun x => { s with flow_label := x }
  | "len" => v.nat?.map fun x => { s with len := x }
  | "next_header" => v.nat?.map fun x => { s with next_header := x }
  | "hop_limit" => v.nat?.map fun x => { s with hop_limit := x }
  | "srcip" => v.optNat?.map fun x => { s with srcip := x }
  | "dstip" => v.optNat?.map fun x => { s with dstip := x }
  | "payload" => v.bytes?.map fun x => { s with payload := x }
  | _ => none

def ipv6Codec : Codec :=
  { σ := IPv6, name := "IPv6", fresh := fun _ => some IPv6.fresh,
    pack := fun s _ => let p := IPv6.pack s; (p.1, p.2.map Val.bytes),
    unpack := fun s b _ => unitRes (IPv6.unpack s b),
    set := fun s f v => (setIPv6 s f v).bind okU,
    obs := fun s => .obj "IPv6" [("version", .ofNat s.version), ("traffic_class", .ofNat s.traffic_class),
      ("flow_label", .ofNat s.flow_label), ("len", .ofNat s.len), ("next_header", .ofNat s.next_header),
      ("hop_limit", .ofNat s.hop_limit), ("srcip", .ofOptNat s.srcip), ("dstip", .ofOptNat s.dstip),
      ("payload", .bytes s.payload)],
    eq := fun _ _ => .ok false }

def extraCodecs : List Codec := [seiCodec, adtsCodec, nalCodec, h264Codec, a429Codec, ipv6Codec]

/-! ### time helpers -/
def leap? : Val → Option Leap
  | .bool b => some (.flag b)
  | .int n => some (.int n)
  | _ => none
def leapVal : Leap → Val
  | .flag b => .bool b
  | .int n => .int n

/-- `y mo d h mi s us ns leap` -/
def pt? (vs : List Val) : Option PT :=
  match vs with
  | [y, mo, d, h, mi, s, us, ns, l] => do
    pure { year := ← y.nat?, month := ← mo.nat?, day := ← d.nat?, hour := ← h.nat?, minute := ← mi.nat?,
           second := ← s.nat?, microsecond := ← us.nat?, nanosecond := ← ns.nat?, leap := ← leap? l }
  | _ => none
def ptVal (t : PT) : Val :=
  .obj "PT" [("year", .ofNat t.year), ("month", .ofNat t.month), ("day", .ofNat t.day), ("hour", .ofNat t.hour),
    ("minute", .ofNat t.minute), ("second", .ofNat t.second), ("microsecond", .ofNat t.microsecond),
    ("nanosecond", .ofNat t.nanosecond), ("leapyear", leapVal t.leap)]
def tdVal (d : TD) : Val :=
  .obj "TD" [("days", .int d.days), ("seconds", .ofNat d.seconds), ("microseconds", .ofNat d.microseconds),
    ("nanoseconds", .ofNat d.nanoseconds)]

/-- a function of a ptptime object: the constructor's `ValueError` first -/
def ptFunc (name : String) (f : PT → R Val) : Func :=
  { name := name, run := fun vs => (pt? vs).map fun t => if t.valid then f t else .error .value }

def extraFuncs : List Func := [
  { name := "xt.leap", run := fun vs => do
      let [y] ← natArgs vs | none
      pure (.ok (.ofNat (getLeapYear y))) },
  { name := "xt.bcd2int", run := fun vs => do
      let [a] ← natArgs vs | none
      pure (.ok (.ofNat (bcdToInt a))) },
  { name := "xt.digitsplit", run := fun vs => do
      let [a, n] ← natArgs vs | none
      pure (.ok (.list ((digitSplit a n).map f64Val))) },
  { name := "xt.bcd4", run := fun vs => do
      let [a] ← natArgs vs | none
      pure (.ok (.ofNat (bcd4 a))) },
  { name := "xt.timedelta", run := fun vs => do
      let [d, s, us, ns] ← vs.mapM int? | none
      pure ((tdMake d s us ns).map tdVal) },
  ptFunc "xt.total_seconds" fun t => t.totalSeconds.map Val.int,
  ptFunc "xt.ptp" fun t => t.ptp.map Val.int,
  ptFunc "xt.iena" fun t => t.iena.map Val.int,
  ptFunc "xt.sbi" fun t => t.sbi.map Val.ofNat,
  ptFunc "xt.irigtime" fun t => .ok (.ofNats t.irigtime),
  { name := "xt.fromptp", run := fun vs => do
      let [p, l] := vs | none
      pure ((timefromptp (← p.nat?) (← int? l)).map ptVal) },
  { name := "xt.fromsbi", run := fun vs => do
      let [s] ← natArgs vs | none
      pure ((timefromsbi s).map ptVal) },
  { name := "xt.fromiena", run := fun vs => do
      let [i, y] ← natArgs vs | none
      if y < 1970 then none else
      pure ((timefromiena i y).map ptVal) },
  { name := "xt.add", run := fun vs => do
      let t ← pt? (vs.take 9)
      let [d, s, us, ns] ← (vs.drop 9).mapM int? | none
      if !t.valid then pure (.error .value) else
      match tdMake d s us ns with
      | .error e => pure (.error e)
      | .ok td => pure ((ntAdd t td).map ptVal) }
]

end Acra.Drv.ExtraC
