/-
  Driver codecs for the Chapter 11 data-type payload classes (family ch11).
-/
import Acra.Drv.Core
import Acra.Model.Ch11PayTs
import Acra.Model.Ch11UART
import Acra.Model.Ch11MIL1553
import Acra.Model.Ch11ARINC
import Acra.Model.Ch11Misc
import Acra.Model.Ch11PCM
import Acra.Model.Ch11TimeFmt
import Acra.Model.Ch11Video
import Acra.Drv.Mpeg
namespace Acra.Drv.Ch11
open Acra.Py Acra.Drv Acra.Model.Ch11Pay

def uRes (p : σ × R Unit) (v : Val := .bool true) : σ × R Val := (p.1, p.2.map fun _ => v)
def bRes (s : σ) (r : R Bytes) : σ × R Val := (s, r.map Val.bytes)
def okSet (s : σ) : Option (σ × R Unit) := some (s, .ok ())
def optBool (vs : List Val) (dflt : Bool) : Option Bool :=
  match vs with
  | [] => some dflt
  | [v] => v.bool?
  | _ => none

def Val.int? : Val → Option Int
  | .int n => some n
  | _ => none

/-! ### time stamps -/
def iptsVal : Ipts → Val
  | .rtc c => .obj "IptsRTC" [("count", .ofNat c)]
  | .ptp s n => .obj "IptsPTP" [("seconds", .ofNat s), ("nanoseconds", .ofNat n)]
  | .none => .null

def iptsOfVal (v : Val) : Option Ipts :=
  match v with
  | .null => some .none
  | .obj "IptsRTC" _ => do
    let c ← (← v.field? "count").nat?
    pure (.rtc c)
  | .obj "IptsPTP" _ => do
    let s ← (← v.field? "seconds").nat?
    let n ← (← v.field? "nanoseconds").nat?
    pure (.ptp s n)
  | _ => none

/-- `ipts_source` option as given on the request line: an int or `None` -/
def srcOfVal (v : Val) : Option (Option Nat) := v.optNat?

/-- build a nested object from `Name{f=v,…}`: the fields are assigned in order to a default object -/
def buildObj (dflt : α) (set : α → String → Val → Option α) (name : String) (v : Val) : Option α :=
  match v with
  | .obj n fs => if n == name then fs.foldlM (fun acc (k, x) => set acc k x) dflt else none
  | _ => none

/-! ### UART -/
namespace U
open Acra.Model.Ch11Pay.UART Acra.Gen.Ch11UART

def setWord (w : Word) (f : String) (v : Val) : Option Word :=
  match f with
  | "ipts" => (iptsOfVal v).map fun i => { w with ipts := i }
  | "parity_error" => v.bool?.map fun b => { w with parity_error := b }
  | "subchannel" => v.nat?.map fun n => { w with subchannel := n }
  | "datalength" => v.optNat?.map fun n => { w with datalength := n }
  | "payload" => v.bytes?.map fun b => w.setPayload b
  | "data_endianness" => v.nat?.map fun n => { w with data_endianness := n }
  | _ => none

def wordVal (w : Word) : Val :=
  .obj "UARTDataWord" [("ipts", iptsVal w.ipts), ("parity_error", .bool w.parity_error),
    ("subchannel", .ofNat w.subchannel), ("datalength", .ofOptNat w.datalength), ("payload", .bytes w.payload),
    ("data_endianness", .ofNat w.data_endianness)]

def wordOfVal (v : Val) : Option Word := buildObj (Word.fresh (.rtc 0) ENDIAN_BIG) setWord "UARTDataWord" v

/-- `UARTDataWord(ipts_source, data_endianness)` -/
def freshWord (opts : List Val) : Option Word :=
  match opts with
  | [] => some (Word.fresh (.rtc 0) ENDIAN_BIG)
  | [s, e] => do
    let src ← srcOfVal s
    let en ← e.nat?
    match src with
    | Option.none => pure (Word.fresh .none en)
    | some k => (iptsOfSource k).map fun i => Word.fresh i en
  | _ => none

def wordCodec : Codec :=
  { σ := Word, name := "UARTDataWord", fresh := freshWord,
    pack := fun s _ => bRes s s.pack,
    unpack := fun s b _ => let (s', r) := s.unpack b; (s', r.map Val.ofNat),
    set := fun s f v => (setWord s f v).bind okSet,
    obs := wordVal, eq := fun a b => .ok (Word.eq a b) }

def packetVal (p : Packet) : Val :=
  .obj "UARTDataPacket" [("uartwords", .list (p.uartwords.map wordVal)), ("data_endianness", .ofNat p.data_endianness),
    ("ipts_source", .ofOptNat p.ipts_source)]

def freshPacket (opts : List Val) : Option Packet :=
  match opts with
  | [] => some (Packet.fresh (some 0) ENDIAN_BIG)
  | [s, e] => do
    let src ← srcOfVal s
    let en ← e.nat?
    match src with
    | some k => if (iptsOfSource k).isSome then pure (Packet.fresh src en) else none
    | Option.none => pure (Packet.fresh src en)
  | _ => none

def packetCodec : Codec :=
  { σ := Packet, name := "UARTDataPacket", fresh := freshPacket,
    pack := fun s _ => bRes s s.pack,
    unpack := fun s b _ => uRes (s.unpack b),
    set := fun s f v =>
      match f with
      | "uartwords" => (v.list?.bind fun l => l.mapM wordOfVal).bind fun ws => okSet { s with uartwords := ws }
      | "data_endianness" => v.nat?.bind fun n => okSet { s with data_endianness := n }
      | _ => none,
    obs := packetVal, eq := fun a b => .ok (Packet.eq a b),
    call := fun s m args =>
      match m, args with
      | "append", [w] => (wordOfVal w).map fun w => (s.append w, .ok .null)
      | _, _ => none }
end U

/-! ### MIL-STD-1553 -/
namespace M
open Acra.Model.Ch11Pay.MIL1553

def setMsg (m : Msg) (f : String) (v : Val) : Option Msg :=
  match f with
  | "ipts" => (iptsOfVal v).map fun i => { m with ipts := i }
  | "blockstatus" => v.nat?.map fun n => { m with blockstatus := n }
  | "gaptimes" => v.nat?.map fun n => { m with gaptimes := n }
  | "length" => v.nat?.map fun n => { m with length := n }
  | "message" => v.bytes?.map fun b => { m with message := b }
  | _ => none

def msgVal (m : Msg) : Val :=
  .obj "MILSTD1553Message" [("ipts", iptsVal m.ipts), ("blockstatus", .ofNat m.blockstatus),
    ("gaptimes", .ofNat m.gaptimes), ("length", .ofNat m.length), ("message", .bytes m.message)]

def msgOfVal (v : Val) : Option Msg := buildObj (Msg.fresh (.rtc 0)) setMsg "MILSTD1553Message" v

def freshMsg (opts : List Val) : Option Msg :=
  match opts with
  | [] => some (Msg.fresh (.rtc 0))
  | [s] => do
    let k ← s.nat?
    (iptsOfSource k).map Msg.fresh
  | _ => none

def msgCodec : Codec :=
  { σ := Msg, name := "MILSTD1553Message", fresh := freshMsg,
    pack := fun s _ => let (s', r) := s.pack; bRes s' r,
    unpack := fun s b _ => let (s', r) := s.unpack b; (s', r.map Val.ofNat),
    set := fun s f v => (setMsg s f v).bind okSet,
    obs := msgVal, eq := fun a b => .ok (Msg.eq a b) }

def packetVal (p : Packet) : Val :=
  .obj "MILSTD1553DataPacket" [("messages", .list (p.messages.map msgVal)), ("msgcount", .ofNat p.msgcount),
    ("ttb", .ofNat p.ttb), ("ipts_source", .ofOptNat p.ipts_source)]

def freshPacket (opts : List Val) : Option Packet :=
  match opts with
  | [] => some (Packet.fresh (some 0))
  | [s] => do
    let src ← srcOfVal s
    match src with
    | some k => if (iptsOfSource k).isSome then pure (Packet.fresh src) else none
    | Option.none => pure (Packet.fresh src)
  | _ => none

def packetCodec : Codec :=
  { σ := Packet, name := "MILSTD1553DataPacket", fresh := freshPacket,
    pack := fun s _ => let (s', r) := s.pack; bRes s' r,
    unpack := fun s b _ => uRes (s.unpack b),
    set := fun s f v =>
      match f with
      | "messages" => (v.list?.bind fun l => l.mapM msgOfVal).bind fun ms => okSet { s with messages := ms }
      | "msgcount" => v.nat?.bind fun n => okSet { s with msgcount := n }
      | "ttb" => v.nat?.bind fun n => okSet { s with ttb := n }
      | _ => none,
    obs := packetVal, eq := fun a b => .ok (Packet.eq a b),
    call := fun s m args =>
      match m, args with
      | "append", [w] => (msgOfVal w).map fun w => (s.append w, .ok .null)
      | _, _ => none }
end M

/-! ### ARINC-429 -/
namespace A
open Acra.Model.Ch11Pay.ARINC

def setWord (w : Word) (f : String) (v : Val) : Option Word :=
  match f with
  | "gaptime" => v.nat?.map fun n => { w with gaptime := n }
  | "format_error" => v.bool?.map fun b => { w with format_error := b }
  | "parity_error" => v.bool?.map fun b => { w with parity_error := b }
  | "bus_speed" => v.nat?.map fun n => { w with bus_speed := n }
  | "bus" => v.nat?.map fun n => { w with bus := n }
  | "payload" => v.bytes?.map fun b => { w with payload := b }
  | _ => none

def wordVal (w : Word) : Val :=
  .obj "ARINC429DataWord" [("gaptime", .ofNat w.gaptime), ("format_error", .bool w.format_error),
    ("parity_error", .bool w.parity_error), ("bus_speed", .ofNat w.bus_speed), ("bus", .ofNat w.bus),
    ("payload", .bytes w.payload)]

def wordOfVal (v : Val) : Option Word := buildObj Word.fresh setWord "ARINC429DataWord" v

def wordCodec : Codec :=
  { σ := Word, name := "ARINC429DataWord", fresh := fun _ => some Word.fresh,
    pack := fun s _ => bRes s s.pack,
    unpack := fun s b _ => uRes (s.unpack b),
    set := fun s f v => (setWord s f v).bind okSet,
    obs := wordVal, eq := fun a b => .ok (Word.eq a b) }

def packetVal (p : Packet) : Val :=
  .obj "ARINC429DataPacket" [("msgcount", .ofNat p.msgcount), ("arincwords", .list (p.arincwords.map wordVal))]

def packetCodec : Codec :=
  { σ := Packet, name := "ARINC429DataPacket", fresh := fun _ => some Packet.fresh,
    pack := fun s _ => let (s', r) := s.pack; bRes s' r,
    unpack := fun s b _ => uRes (s.unpack b),
    set := fun s f v =>
      match f with
      | "arincwords" => (v.list?.bind fun l => l.mapM wordOfVal).bind fun ws => okSet { s with arincwords := ws }
      | "msgcount" => v.nat?.bind fun n => okSet { s with msgcount := n }
      | _ => none,
    obs := packetVal, eq := fun a b => .ok (Packet.eq a b),
    call := fun s m args =>
      match m, args with
      | "append", [w] => (wordOfVal w).map fun w => (s.append w, .ok .null)
      | _, _ => none }
end A

/-! ### Analog, computer-generated data -/
namespace X
open Acra.Model.Ch11Pay

def analogCodec : Codec :=
  { σ := Analog.State, name := "Analog", fresh := fun _ => some Analog.fresh,
    pack := fun s _ => bRes s (Analog.pack s),
    unpack := fun s b _ => uRes (Analog.unpack s b),
    set := fun s f v =>
      match f with
      | "channel_specific_word" => v.nat?.bind fun n => okSet { s with channel_specific_word := n }
      | "data" => v.bytes?.bind fun b => okSet { s with data := b }
      | _ => none,
    obs := fun s => .obj "Analog" [("channel_specific_word", .ofNat s.channel_specific_word), ("data", .bytes s.data)],
    eq := fun a b => .ok (Analog.eq a b) }

def cg0Codec : Codec :=
  { σ := Computer.State0, name := "ComputerGeneratedFormat0", fresh := fun _ => some Computer.State0.fresh,
    pack := fun s _ => bRes s s.pack,
    unpack := fun s b _ => uRes (s.unpack b) .null,
    set := fun s f v =>
      match f with
      | "_csdw" => v.nat?.bind fun n => okSet { s with csdw := n }
      | "payload" => v.bytes?.bind fun b => okSet { s with payload := b }
      | _ => none,
    obs := fun s => .obj "ComputerGeneratedFormat0" [("_csdw", .ofNat s.csdw), ("payload", .bytes s.payload)],
    eq := fun a b => .ok (decide (a = b)) }

def cg1Codec : Codec :=
  { σ := Computer.State1, name := "ComputerGeneratedFormat1", fresh := fun _ => some Computer.State1.fresh,
    pack := fun s _ => let (s', r) := s.pack; bRes s' r,
    unpack := fun s b _ => uRes (s.unpack b),
    set := fun s f v =>
      match f with
      | "_csdw" => v.nat?.bind fun n => okSet { s with base := { s.base with csdw := n } }
      | "payload" => v.bytes?.bind fun b => okSet { s with base := { s.base with payload := b } }
      | "frmt" => v.nat?.bind fun n => okSet { s with frmt := n }
      | "srcc" => v.nat?.bind fun n => okSet { s with srcc := n }
      | "rccver" => v.nat?.bind fun n => okSet { s with rccver := n }
      | _ => none,
    obs := fun s => .obj "ComputerGeneratedFormat1" [("_csdw", .ofNat s.base.csdw), ("payload", .bytes s.base.payload),
      ("frmt", .ofNat s.frmt), ("srcc", .ofNat s.srcc), ("rccver", .ofNat s.rccver)],
    eq := fun a b => .ok (decide (a = b)) }
end X

/-! ### PCM -/
namespace P
open Acra.Model.Ch11Pay.PCM

def setFrame (f : Frame) (k : String) (v : Val) : Option Frame :=
  match k with
  | "ipts" => (iptsOfVal v).map fun i => { f with ipts := i }
  | "throughput" => v.bool?.map fun b => { f with throughput := b }
  | "intra_packet_data_header" => v.optNat?.map fun n => { f with hdr := n }
  | "minor_frame_data" => v.bytes?.map fun b => { f with data := b }
  | "alignment" => v.nat?.map fun n => { f with alignment := n }
  | "syncword" => v.optNat?.map fun n => { f with syncword := n }
  | "sfid" => v.optNat?.map fun n => { f with sfid := n }
  | _ => none

def frameVal (f : Frame) : Val :=
  .obj "PCMMinorFrame" [("ipts", iptsVal f.ipts), ("throughput", .bool f.throughput),
    ("intra_packet_data_header", .ofOptNat f.hdr), ("minor_frame_data", .bytes f.data),
    ("alignment", .ofNat f.alignment), ("syncword", .ofOptNat f.syncword), ("sfid", .ofOptNat f.sfid)]

def frameOfVal (v : Val) : Option Frame := buildObj (Frame.fresh (some 0) false 0) setFrame "PCMMinorFrame" v

/-- `PCMMinorFrame(ipts_source, throughput, alignment)` -/
def freshFrame (opts : List Val) : Option Frame :=
  match opts with
  | [] => some (Frame.fresh (some 0) false 0)
  | [s, t, a] => do
    let src ← srcOfVal s
    let thr ← t.bool?
    let al ← a.nat?
    pure (Frame.fresh src thr al)
  | _ => none

def frameCodec : Codec :=
  { σ := Frame, name := "PCMMinorFrame", fresh := freshFrame,
    pack := fun s _ => bRes s s.pack,
    unpack := fun s b args =>
      match optBool args false with
      | some ex => uRes (s.unpack b ex)
      | none => (s, .error .type),
    set := fun s f v => (setFrame s f v).bind okSet,
    obs := frameVal, eq := fun a b => .ok (Frame.eq a b) }

def optIntVal : Option Int → Val
  | some n => .int n
  | Option.none => .null

def packetVal (p : Packet) : Val :=
  .obj "PCMDataPacket" [("channel_specific_word", .ofNat p.channel_specific_word),
    ("minor_frame_size_bytes", optIntVal p.mfsb), ("syncword", .ofOptNat p.syncword),
    ("minor_frames", .list (p.minor_frames.map frameVal)), ("ipts_source", .ofOptNat p.ipts_source)]

/-- `PCMDataPacket(ipts_source, syncword, minor_frame_size_bytes)` -/
def freshPacket (opts : List Val) : Option Packet :=
  match opts with
  | [] => some (Packet.fresh (some 0) Option.none Option.none)
  | [s, w, n] => do
    let src ← srcOfVal s
    let sw ← w.optNat?
    let sz ← n.optNat?
    pure (Packet.fresh src sw sz)
  | _ => none

def packetCodec : Codec :=
  { σ := Packet, name := "PCMDataPacket", fresh := freshPacket,
    pack := fun s _ => bRes s s.pack,
    unpack := fun s b args =>
      match optBool args false with
      | some ex => uRes (s.unpack b ex)
      | none => (s, .error .type),
    set := fun s f v =>
      match f with
      | "channel_specific_word" => v.nat?.bind fun n => okSet { s with channel_specific_word := n }
      | "minor_frame_size_bytes" => v.optNat?.bind fun n => okSet { s with assigned := n }
      | "syncword" => v.optNat?.bind fun n => okSet { s with syncword := n }
      | "minor_frames" => (v.list?.bind fun l => l.mapM frameOfVal).bind fun fs => okSet { s with minor_frames := fs }
      | _ => none,
    obs := packetVal, eq := fun a b => .ok (Packet.eq a b),
    call := fun s m args =>
      match m, args with
      | "append", [w] => (frameOfVal w).map fun w => (s.append w, .ok .null)
      | _, _ => none }
end P

/-! ### time formats -/
namespace T
open Acra.Model.Ch11Pay.TimeFmt

def tdf1Codec : Codec :=
  { σ := State1, name := "TimeDataFormat1", fresh := fun _ => some State1.fresh,
    pack := fun s _ => bRes s s.pack,
    unpack := fun s b _ => uRes (s.unpack b),
    set := fun s f v =>
      match f with
      | "channel_specific_data" => v.nat?.bind fun n => okSet { s with channel_specific_data := n }
      | "seconds" => (Val.int? v).bind fun n => okSet { s with seconds := n }
      | "nanoseconds" => v.nat?.bind fun n => okSet { s with nanoseconds := n }
      | _ => none,
    obs := fun s => .obj "TimeDataFormat1" [("channel_specific_data", .ofNat s.channel_specific_data),
      ("seconds", .int s.seconds), ("nanoseconds", .ofNat s.nanoseconds)],
    eq := fun a b => .ok (State1.eq a b) }

def tdf2Codec : Codec :=
  { σ := State2, name := "TimeDataFormat2", fresh := fun _ => some State2.fresh,
    pack := fun s _ => bRes s s.pack,
    unpack := fun s b _ => uRes (s.unpack b),
    set := fun s f v =>
      match f with
      | "channel_specific_data" => v.nat?.bind fun n => okSet { s with channel_specific_data := n }
      | "seconds" => v.nat?.bind fun n => okSet { s with seconds := n }
      | "nanoseconds" => v.nat?.bind fun n => okSet { s with nanoseconds := n }
      | _ => none,
    obs := fun s => .obj "TimeDataFormat2" [("channel_specific_data", .ofNat s.channel_specific_data),
      ("seconds", .ofNat s.seconds), ("nanoseconds", .ofNat s.nanoseconds)],
    eq := fun a b => .ok (State2.eq a b) }

def funcs : List Func := [
  { name := "ch11.double_digits_to_bcd", run := fun vs =>
      match vs with
      | [v] => v.nat?.map fun n => .ok (.ofNat (bcd2 n))
      | _ => none },
  { name := "ch11.bcd_to_int", run := fun vs =>
      match vs with
      | [.int n] => some (if n < 0 then .error .value else .ok (.ofNat (bcdToInt n.toNat)))
      | _ => none },
  { name := "ch11.endian_swap", run := fun vs =>
      match vs with
      | [.bytes b] => some (.ok (.bytes (endianSwap b)))
      | _ => none },
  { name := "ch11.ntp_frac", run := fun vs =>
      match vs with
      | [v] => v.nat?.map fun n => .ok (.ofNat (nsToFrac Float.rne n))
      | _ => none },
  { name := "ch11.ntp_ns", run := fun vs =>
      match vs with
      | [v] => v.nat?.map fun n => .ok (.ofNat (fracToNs Float.rne n))
      | _ => none },
  { name := "ch11.fromtimestamp", run := fun vs =>
      match vs with
      | [.int s] => some ((fromTimestamp s).map fun (y, mo, d, h, mi, sec) =>
          .list [.ofNat y, .ofNat mo, .ofNat d, .ofNat h, .ofNat mi, .ofNat sec, .ofNat (dayOfYear y mo d)])
      | _ => none },
  { name := "ch11.timestamp", run := fun vs =>
      match natArgs vs with
      | some [y, mo, d, h, mi, s] =>
        some (if validDate y mo d h mi s then .ok (.int (toTimestamp y mo d h mi s)) else .error .value)
      | _ => none }
]
end T

/-! ### video format 2 -/
namespace V
open Acra.Model.Ch11Pay.Video Acra.Model.MPEGTS

/-- the adapter's `mpegts` setter: each chunk is decoded by a new `MPEGPacket()` and appended to a new `MPEGTS()` -/
def decodeChunks : List Bytes → Option (List Pkt)
  | [] => some []
  | c :: cs =>
    match Pkt.unpack Pkt.fresh c with
    | (p, .ok ()) => (decodeChunks cs).map fun ps => p :: ps
    | (_, .error _) => none

def codec : Codec :=
  { σ := State, name := "VideoFormat2", fresh := fun _ => some fresh,
    pack := fun s _ => ((pack s).1, (pack s).2.map Val.bytes),
    unpack := fun s b _ => uRes (unpack s b),
    set := fun s f v =>
      match f with
      | "channel_specific_word" => v.nat?.bind fun n => okSet { s with channel_specific_word := n }
      | "datastream" => v.nat?.bind fun n => okSet { s with datastream := n }
      | "mpegts" => (v.list?.bind fun l => l.mapM Val.bytes?).bind fun cs =>
          match decodeChunks cs with
          | some ps => okSet { s with mpegts := { blocks := ps } }
          | none => some (s, .error .generic)
      | _ => none,
    obs := fun s => .obj "VideoFormat2" [("channel_specific_word", .ofNat s.channel_specific_word),
      ("datastream", .ofNat s.datastream), ("mpegts", .list (s.mpegts.blocks.map Acra.Drv.Mpeg.pktVal))],
    eq := fun a b => .ok (eq a b) }
end V

def ch11Codecs : List Codec :=
  [U.wordCodec, U.packetCodec, M.msgCodec, M.packetCodec, A.wordCodec, A.packetCodec, X.analogCodec, X.cg0Codec,
   X.cg1Codec, P.frameCodec, P.packetCodec, T.tdf1Codec, T.tdf2Codec, V.codec]
def ch11Funcs : List Func := T.funcs

end Acra.Drv.Ch11
