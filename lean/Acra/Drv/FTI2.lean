/-
  Driver codecs for the remaining FTI payload classes: IENAQ, IENAD, IENAN, iNETPackage, iNET,
  the NPD segment classes, NPD, ParserAlignedBlock, ParserAlignedPacket.
-/
import Acra.Drv.FTI
import Acra.Model.IENAQDN
import Acra.Model.iNET
import Acra.Model.NPD
import Acra.Model.ParserAligned
namespace Acra.Drv
open Acra.Py

def natRes (p : σ × R Nat) : σ × R Val := (p.1, p.2.map Val.ofNat)

namespace IENAC
open Acra.Model.IENA

def qparamOfVal (v : Val) : Option QParam := do
  let p ← (← v.field? "paramid").nat?
  let b ← (← v.field? "dataset").bytes?
  pure { paramid := p, dataset := b }
def qparamVal (p : QParam) : Val :=
  .obj "QParameter" [("paramid", .ofNat p.paramid), ("dataset", .bytes p.dataset)]

def codecQ : Codec :=
  { σ := QState, name := "IENAQ", fresh := fun _ => some QState.fresh,
    pack := fun s _ => bytesRes (QState.pack s),
    unpack := fun s b _ => unitRes (QState.unpack s b) .null,
    set := fun s f v =>
      if f == "parameters" then
        (v.list?.bind fun l => l.mapM qparamOfVal).bind fun ps => setOk { s with parameters := ps }
      else (setBase s.base f v).bind fun b => setOk { s with base := b },
    obs := fun s => .obj "IENAQ" (baseFields s.base ++ [("parameters", .list (s.parameters.map qparamVal))]),
    eq := fun a b => .ok (QState.eq a b) }

def dparamOfVal (v : Val) : Option DParam := do
  let p ← (← v.field? "paramid").nat?
  let d ← (← v.field? "delay").nat?
  let w ← (← v.field? "dwords").natList?
  pure { paramid := p, delay := d, dwords := w }
def dparamVal (p : DParam) : Val :=
  .obj "DParameter" [("paramid", .ofNat p.paramid), ("delay", .ofNat p.delay), ("dwords", .ofNats p.dwords)]

def codecD : Codec :=
  { σ := DState, name := "IENAD", fresh := fun _ => some DState.fresh,
    pack := fun s _ => bytesRes (DState.pack s),
    unpack := fun s b _ => unitRes (DState.unpack s b) .null,
    set := fun s f v =>
      if f == "parameters" then
        (v.list?.bind fun l => l.mapM dparamOfVal).bind fun ps => setOk { s with parameters := ps }
      else (setBase s.base f v).bind fun b => setOk { s with base := b },
    obs := fun s => .obj "IENAD" (baseFields s.base ++ [("parameters", .list (s.parameters.map dparamVal))]),
    eq := fun a b => .ok (DState.eq a b) }

def nparamOfVal (v : Val) : Option NParam := do
  let p ← (← v.field? "paramid").nat?
  let w ← (← v.field? "dwords").natList?
  pure { paramid := p, dwords := w }
def nparamVal (p : NParam) : Val :=
  .obj "NParameter" [("paramid", .ofNat p.paramid), ("dwords", .ofNats p.dwords)]

def codecN : Codec :=
  { σ := NState, name := "IENAN", fresh := fun _ => some NState.fresh,
    pack := fun s _ => bytesRes (NState.pack s),
    unpack := fun s b _ => unitRes (NState.unpack s b) .null,
    set := fun s f v =>
      if f == "parameters" then
        (v.list?.bind fun l => l.mapM nparamOfVal).bind fun ps => setOk { s with parameters := ps }
      else (setBase s.base f v).bind fun b => setOk { s with base := b },
    obs := fun s => .obj "IENAN" (baseFields s.base ++ [("parameters", .list (s.parameters.map nparamVal))]),
    eq := fun a b => .ok (NState.eq a b) }
end IENAC

namespace iNETC
open Acra.Model.iNET

def setPkg (p : Pkg) (f : String) (v : Val) : Option Pkg :=
  match f with
  | "definitionID" => v.nat?.map fun n => { p with definitionID := n }
  | "flags" => v.nat?.map fun n => { p with flags := n }
  | "_length" => v.nat?.map fun n => { p with length := n }
  | "timedelta" => v.nat?.map fun n => { p with timedelta := n }
  | "payload" => v.bytes?.map fun b => { p with payload := b }
  | _ => none
def pkgFields (p : Pkg) : List (String × Val) :=
  [("definitionID", .ofNat p.definitionID), ("flags", .ofNat p.flags), ("_length", .ofNat p.length),
   ("timedelta", .ofNat p.timedelta), ("payload", .bytes p.payload)]
def pkgVal (p : Pkg) : Val := .obj "iNETPackage" (pkgFields p)
/-- an object value is built as the harness builds it: constructor, then the fields in the order given -/
def pkgOfVal (v : Val) : Option Pkg :=
  match v with
  | .obj _ fs => fs.foldlM (fun p (kv : String × Val) => setPkg p kv.1 kv.2) Pkg.fresh
  | _ => none

def codecPkg : Codec :=
  { σ := Pkg, name := "iNETPackage", fresh := fun _ => some Pkg.fresh,
    pack := fun s _ => bytesRes (Pkg.pack s),
    unpack := fun s b _ => bytesRes (Pkg.unpack s b),
    set := fun s f v => (setPkg s f v).bind setOk,
    obs := pkgVal,
    eq := fun _ _ => .ok false }        -- no __eq__: two distinct objects are never equal

def set (s : State) (f : String) (v : Val) : Option (State × R Unit) :=
  match f with
  | "flags" => v.nat?.bind fun n => setOk { s with flags := n }
  | "type" => v.nat?.bind fun n => setOk { s with type := n }
  | "_option_wc" => v.nat?.bind fun n => setOk { s with option_wc := n }
  | "version" => v.nat?.bind fun n => setOk { s with version := n }
  | "definition_ID" => v.nat?.bind fun n => setOk { s with definition_ID := n }
  | "sequence" => v.nat?.bind fun n => setOk { s with sequence := n }
  | "_length" => v.nat?.bind fun n => setOk { s with length := n }
  | "ptptimeseconds" => v.nat?.bind fun n => setOk { s with ptptimeseconds := n }
  | "ptptimenanoseconds" => v.nat?.bind fun n => setOk { s with ptptimenanoseconds := n }
  | "app_fields" => v.natList?.bind fun l => setOk { s with app_fields := l }
  | "_payload" => v.bytes?.bind fun b => setOk { s with payload := b }
  | "packages" => (v.list?.bind fun l => l.mapM pkgOfVal).bind fun ps => setOk { s with packages := ps }
  | _ => none
def obs (s : State) : Val :=
  .obj "iNET" [("flags", .ofNat s.flags), ("type", .ofNat s.type), ("_option_wc", .ofNat s.option_wc),
    ("version", .ofNat s.version), ("definition_ID", .ofNat s.definition_ID), ("sequence", .ofNat s.sequence),
    ("_length", .ofNat s.length), ("ptptimeseconds", .ofNat s.ptptimeseconds),
    ("ptptimenanoseconds", .ofNat s.ptptimenanoseconds), ("app_fields", .ofNats s.app_fields),
    ("_payload", .bytes s.payload), ("packages", .list (s.packages.map pkgVal))]
def codec : Codec :=
  { σ := State, name := "iNET", fresh := fun _ => some fresh,
    pack := fun s _ => bytesRes (pack s),
    unpack := fun s b _ => unitRes (unpack s b),
    set := set, obs := obs, eq := fun a b => eq a b }
end iNETC

namespace NPDC
open Acra.Model.NPD

def kindName : Kind → String
  | .base => "NPDSegment" | .acq => "ACQSegment" | .pcmpkt => "PCMPacketizer" | .a429 => "A429Segment"
  | .rs232 => "RS232Segment" | .mil1553 => "MIL1553Segment"
def kindOfName (n : String) : Option Kind :=
  [Kind.base, .acq, .pcmpkt, .a429, .rs232, .mil1553].find? (fun k => kindName k == n)

/-- attribute assignment on a segment object; `payload` goes through the property setter.  Only the
    attributes the class has are accepted. -/
def setSeg (g : Seg) (f : String) (v : Val) : Option Seg :=
  match f with
  | "timedelta" => v.nat?.map fun n => { g with timedelta := n }
  | "segmentlen" => v.nat?.map fun n => { g with segmentlen := n }
  | "errorcode" => v.nat?.map fun n => { g with errorcode := n }
  | "flags" => v.nat?.map fun n => { g with flags := n }
  | "payload" => v.bytes?.map fun b => g.setPayload b
  | "sfid" => if g.kind == .acq then v.nat?.map fun n => { g with sfid := n } else none
  | "cal" => if g.kind == .acq then v.nat?.map fun n => { g with cal := n } else none
  | "words" => if g.kind == .acq then v.natList?.map fun l => { g with words := l } else none
  | "block_status" => if g.kind == .rs232 then v.nat?.map fun n => { g with block_status := n } else none
  | "sync_bytes" => if g.kind == .rs232 then v.natList?.map fun l => { g with sync_bytes := l } else none
  | "data" => if g.kind == .rs232 || g.kind == .mil1553 then v.bytes?.map fun b => { g with data := b } else none
  | "blockstatus" => if g.kind == .mil1553 then v.nat?.map fun n => { g with blockstatus := n } else none
  | "gap1" => if g.kind == .mil1553 then v.nat?.map fun n => { g with gap1 := n } else none
  | "gap2" => if g.kind == .mil1553 then v.nat?.map fun n => { g with gap2 := n } else none
  | _ => none

def segFields (g : Seg) : List (String × Val) :=
  [("timedelta", .ofNat g.timedelta), ("segmentlen", .ofNat g.segmentlen), ("errorcode", .ofNat g.errorcode),
   ("flags", .ofNat g.flags), ("payload", .bytes g.payload)] ++
  (match g.kind with
   | .acq => [("sfid", .ofNat g.sfid), ("cal", .ofNat g.cal), ("words", .ofNats g.words)]
   | .rs232 => [("block_status", .ofNat g.block_status), ("sync_bytes", .ofNats g.sync_bytes), ("data", .bytes g.data)]
   | .mil1553 => [("blockstatus", .ofNat g.blockstatus), ("gap1", .ofNat g.gap1), ("gap2", .ofNat g.gap2),
                  ("data", .bytes g.data)]
   | _ => [])
def segVal (g : Seg) : Val := .obj (kindName g.kind) (segFields g)
def segOfVal (v : Val) : Option Seg :=
  match v with
  | .obj n fs => (kindOfName n).bind fun k =>
      fs.foldlM (fun g (kv : String × Val) => setSeg g kv.1 kv.2) (Seg.fresh k)
  | _ => none

def codecSeg (k : Kind) : Codec :=
  { σ := Seg, name := kindName k, fresh := fun _ => some (Seg.fresh k),
    pack := fun s _ => bytesRes (Seg.pack s),
    unpack := fun s b _ => bytesRes (Seg.unpack s b),
    set := fun s f v => (setSeg s f v).bind setOk,
    obs := segVal,
    eq := fun a b => .ok (Seg.eq a b) }

def optNatSet (v : Val) (k : Option Nat → State) : Option (State × R Unit) :=
  v.optNat?.bind fun n => setOk (k n)

def set (s : State) (f : String) (v : Val) : Option (State × R Unit) :=
  match f with
  | "version" => v.nat?.bind fun n => setOk { s with version := n }
  | "hdrlen" => v.nat?.bind fun n => setOk { s with hdrlen := n }
  | "datatype" => optNatSet v fun n => { s with datatype := n }
  | "packetlen" => v.nat?.bind fun n => setOk { s with packetlen := n }
  | "cfgcnt" => v.nat?.bind fun n => setOk { s with cfgcnt := n }
  | "flags" => v.nat?.bind fun n => setOk { s with flags := n }
  | "sequence" => v.nat?.bind fun n => setOk { s with sequence := n }
  | "datasrcid" => v.nat?.bind fun n => setOk { s with datasrcid := n }
  -- the adapter converts the 32-bit value with inet_ntoa(struct.pack(">I", v)); None stands for ""
  | "mcastaddr" => v.optNat?.bind fun n =>
      match n with
      | some x => if x < 4294967296 then setOk { s with mcastaddr := some x } else some (s, .error .struct)
      | none => setOk { s with mcastaddr := none }
  | "timestamp" => optNatSet v fun n => { s with timestamp := n }
  | "segments" => (v.list?.bind fun l => l.mapM segOfVal).bind fun gs => setOk { s with segments := gs }
  | _ => none
def obs (s : State) : Val :=
  .obj "NPD" [("version", .ofNat s.version), ("hdrlen", .ofNat s.hdrlen), ("datatype", .ofOptNat s.datatype),
    ("packetlen", .ofNat s.packetlen), ("cfgcnt", .ofNat s.cfgcnt), ("flags", .ofNat s.flags),
    ("sequence", .ofNat s.sequence), ("datasrcid", .ofNat s.datasrcid), ("mcastaddr", .ofOptNat s.mcastaddr),
    ("timestamp", .ofOptNat s.timestamp), ("segments", .list (s.segments.map segVal))]
def codec : Codec :=
  { σ := State, name := "NPD", fresh := fun _ => some fresh,
    pack := fun s _ => bytesRes (pack s),
    unpack := fun s b _ => unitRes (unpack s b),
    set := set, obs := obs, eq := fun a b => .ok (eq a b) }
end NPDC

namespace PAC
open Acra.Model.ParserAligned

def boolOnly : Val → Option Bool
  | .bool b => some b
  | _ => none

def setBlock (s : Block) (f : String) (v : Val) : Option Block :=
  match f with
  | "error" => (boolOnly v).map fun b => { s with error := b }
  | "errorcode" => v.nat?.map fun n => { s with errorcode := n }
  | "quadbytes" => v.nat?.map fun n => { s with quadbytes := n }
  | "messagecount" => v.nat?.map fun n => { s with messagecount := n }
  | "busid" => v.nat?.map fun n => { s with busid := n }
  | "elapsedtime" => v.nat?.map fun n => { s with elapsedtime := n }
  | "payload" => v.bytes?.map fun b => { s with payload := b }
  | _ => none
def blockVal (s : Block) : Val :=
  .obj "ParserAlignedBlock" [("error", .bool s.error), ("errorcode", .ofNat s.errorcode), ("quadbytes", .ofNat s.quadbytes),
    ("messagecount", .ofNat s.messagecount), ("busid", .ofNat s.busid), ("elapsedtime", .ofNat s.elapsedtime),
    ("payload", .bytes s.payload)]
def blockOfVal (v : Val) : Option Block :=
  match v with
  | .obj _ fs => fs.foldlM (fun p (kv : String × Val) => setBlock p kv.1 kv.2) Block.fresh
  | _ => none

def codecBlock : Codec :=
  { σ := Block, name := "ParserAlignedBlock", fresh := fun _ => some Block.fresh,
    pack := fun s _ => bytesRes (Block.pack s),
    unpack := fun s b _ => natRes (Block.unpack s b),
    set := fun s f v => (setBlock s f v).bind setOk,
    obs := blockVal, eq := fun a b => .ok (Block.eq a b) }

def codecPacket : Codec :=
  { σ := Packet, name := "ParserAlignedPacket", fresh := fun _ => some Packet.fresh,
    pack := fun s _ => bytesRes (Packet.pack s),
    unpack := fun s b _ => unitRes (Packet.unpack s b),
    set := fun s f v =>
      match f with
      | "parserblocks" => (v.list?.bind fun l => l.mapM blockOfVal).bind fun bs => setOk { s with parserblocks := bs }
      | "numberofblocks" => v.nat?.bind fun n => setOk { s with numberofblocks := n }
      | _ => none,
    obs := fun s => .obj "ParserAlignedPacket" [("parserblocks", .list (s.parserblocks.map blockVal)),
      ("numberofblocks", .ofNat s.numberofblocks)],
    eq := fun a b => .ok (Packet.eq a b) }
end PAC

def fti2Codecs : List Codec :=
  [IENAC.codecQ, IENAC.codecD, IENAC.codecN, iNETC.codecPkg, iNETC.codec,
   NPDC.codecSeg .base, NPDC.codecSeg .acq, NPDC.codecSeg .pcmpkt, NPDC.codecSeg .a429, NPDC.codecSeg .rs232,
   NPDC.codecSeg .mil1553, NPDC.codec, PAC.codecBlock, PAC.codecPacket]
def fti2Funcs : List Func := []

end Acra.Drv
