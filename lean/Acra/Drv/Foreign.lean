/-
  The operand-aware equality (`eqOp`, and `eqSub` / `eqBase` for classes with relatives) of every codec class that
  defines `__eq__`, attached to the codecs of the other driver files.  `All.lean` lists `foreignCodecs` FIRST, so
  that the line protocol finds these versions (same name, same behaviour otherwise).
-/
import Acra.Drv.FTI
import Acra.Drv.FTI2
import Acra.Drv.Mpeg
import Acra.Drv.Ch10
import Acra.Drv.Net
import Acra.Drv.Golay7
import Acra.Drv.Ch11
import Acra.Model.Foreign
namespace Acra.Drv.Foreign
open Acra.Py Acra.Drv Acra.Model

def withEqOp (c : Codec) (f : c.σ → Operand c.σ → R Bool)
    (sub : Option (c.σ → c.σ → R Bool) := none) (base : Option (c.σ → c.σ → R Bool) := none) : Codec :=
  { c with eqOp := some f, eqSub := sub, eqBase := base }

def foreignCodecs : List Codec := [
  withEqOp iNetXC.codec iNetX.eqOp,
  withEqOp IENAC.codec IENA.Base.eqOp (sub := some IENA.Base.eqSubclass),
  withEqOp IENAC.codecM IENA.MState.eqOp (base := some IENA.MState.eqBaseclass),
  withEqOp IENAC.codecQ IENA.QState.eqOp (base := some IENA.QState.eqBaseclass),
  withEqOp IENAC.codecD IENA.DState.eqOp (base := some IENA.DState.eqBaseclass),
  withEqOp IENAC.codecN IENA.NState.eqOp (base := some IENA.NState.eqBaseclass),
  withEqOp iNETC.codec iNET.eqOp,
  withEqOp (NPDC.codecSeg .base) NPD.Seg.eqOp (sub := some NPD.Seg.eqSubclass),
  withEqOp (NPDC.codecSeg .acq) NPD.Seg.eqOp (base := some NPD.Seg.eqBaseclass),
  withEqOp (NPDC.codecSeg .pcmpkt) NPD.Seg.eqOp (base := some NPD.Seg.eqBaseclass),
  withEqOp (NPDC.codecSeg .a429) NPD.Seg.eqOp (base := some NPD.Seg.eqBaseclass),
  withEqOp (NPDC.codecSeg .rs232) NPD.Seg.eqOp (base := some NPD.Seg.eqBaseclass),
  withEqOp (NPDC.codecSeg .mil1553) NPD.Seg.eqOp (base := some NPD.Seg.eqBaseclass),
  withEqOp NPDC.codec NPD.eqOp,
  withEqOp PAC.codecBlock ParserAligned.Block.eqOp,
  withEqOp PAC.codecPacket ParserAligned.Packet.eqOp,
  withEqOp Golay7.ptdpCodec Chapter7.PTDP.eqOp,
  withEqOp Golay7.ptfrCodec Chapter7.PTFR.eqOp,
  withEqOp Mpeg.extCodec MPEGTS.Ext.eqOp,
  withEqOp Mpeg.afCodec MPEGTS.AF.eqOp,
  withEqOp Mpeg.pktCodec MPEGTS.Pkt.eqOp (sub := some MPEGTS.Pkt.eqSubclass),
  withEqOp Mpeg.tsCodec MPEGTS.TS.eqOp,
  withEqOp Mpeg.descCodec PMT.Desc.eqOp,
  withEqOp Mpeg.streamCodec PMT.Stream.eqOp,
  withEqOp Mpeg.pmtCodec PMT.PMT.eqOp (base := some PMT.PMT.eqBaseclass),
  withEqOp Mpeg.pesCodec PES.PES.eqOp (sub := some PES.PES.eqSubclass) (base := some PES.PES.eqBaseclass),
  withEqOp Mpeg.stanagCodec PES.STANAG.eqOp (base := some PES.STANAG.eqBaseclass),
  withEqOp (NetC.EthC.codec "Ethernet" false) Net.Eth.eqOp,
  withEqOp (NetC.EthC.codec "EthernetFCS" true) Net.Eth.eqOp,
  withEqOp NetC.ARPC.codec Net.ARP.eqOp,
  withEqOp Ch10UDPC.codec Ch10UDP.eqOp,
  withEqOp PTPC.codec Ch11.PTP.eqOp,
  withEqOp PTPC.rtcCodec Ch11.RTC.eqOp,
  withEqOp (Ch11C.mk "Chapter11") Ch11.eqOp (sub := some Ch11.eqSubclass),
  withEqOp (Ch11C.mk "Chapter10") Ch11.eqOp (base := some Ch11.eqBaseclass),
  withEqOp Ch11.U.wordCodec Ch11Pay.UART.Word.eqOp,
  withEqOp Ch11.U.packetCodec Ch11Pay.UART.Packet.eqOp,
  withEqOp Ch11.M.msgCodec Ch11Pay.MIL1553.Msg.eqOp,
  withEqOp Ch11.M.packetCodec Ch11Pay.MIL1553.Packet.eqOp,
  withEqOp Ch11.A.wordCodec Ch11Pay.ARINC.Word.eqOp,
  withEqOp Ch11.A.packetCodec Ch11Pay.ARINC.Packet.eqOp,
  withEqOp Ch11.X.analogCodec Ch11Pay.Analog.eqOp,
  withEqOp Ch11.P.frameCodec Ch11Pay.PCM.Frame.eqOp,
  withEqOp Ch11.P.packetCodec Ch11Pay.PCM.Packet.eqOp,
  withEqOp Ch11.T.tdf1Codec Ch11Pay.TimeFmt.State1.eqOp,
  withEqOp Ch11.T.tdf2Codec Ch11Pay.TimeFmt.State2.eqOp,
  withEqOp Ch11.V.codec Ch11Pay.Video.eqOp
]

end Acra.Drv.Foreign
