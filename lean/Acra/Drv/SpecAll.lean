import Acra.Drv.SpecFTI
import Acra.Drv.SpecSearch
namespace Acra.Drv
def specFuncs : List Func := List.flatten [
  specFuncsFTI,
  specFuncsSearch
]
end Acra.Drv
