import Acra.Drv.SpecFTI
import Acra.Drv.SpecFTI2
import Acra.Drv.SpecSearch
import Acra.Drv.SpecMpeg
import Acra.Drv.SpecCh10
import Acra.Drv.SpecNet
import Acra.Drv.SpecGolay7
import Acra.Drv.SpecCh11
import Acra.Drv.SpecAFDX
namespace Acra.Drv
def specFuncs : List Func := List.flatten [
  specFuncsFTI,
  specFuncsFTI2,
  specFuncsSearch,
  specFuncsMpeg,
  specFuncsCh10,
  specFuncsNet,
  specFuncsGolay7,
  specFuncsCh11,
  specFuncsAFDX
]
end Acra.Drv
