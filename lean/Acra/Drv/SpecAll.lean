import Acra.Drv.SpecFTI
import Acra.Drv.SpecFTI2
namespace Acra.Drv
def specFuncs : List Func := specFuncsFTI ++ specFuncsFTI2
end Acra.Drv
