import Acra.Drv.SpecFTI
import Acra.Drv.SpecNet
namespace Acra.Drv
def specFuncs : List Func := specFuncsFTI ++ specFuncsNet
end Acra.Drv
