import Acra.Drv.SpecFTI
import Acra.Drv.SpecMpeg
namespace Acra.Drv
def specFuncs : List Func := specFuncsFTI ++ specFuncsMpeg
end Acra.Drv
