import Acra.Drv.SpecFTI
import Acra.Drv.SpecCh11
namespace Acra.Drv
def specFuncs : List Func := specFuncsFTI ++ specFuncsCh11
end Acra.Drv
