import Acra.Drv.SpecFTI
import Acra.Drv.SpecCh10
namespace Acra.Drv
def specFuncs : List Func := specFuncsFTI ++ specFuncsCh10
end Acra.Drv
