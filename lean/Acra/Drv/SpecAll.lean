import Acra.Drv.SpecFTI
namespace Acra.Drv
def specFuncs : List Func := specFuncsFTI
end Acra.Drv
