import Acra.Drv.SpecFTI
import Acra.Drv.SpecGolay7
namespace Acra.Drv
def specFuncs : List Func := specFuncsFTI ++ specFuncsGolay7
end Acra.Drv
