import Acra.Drv.SpecFTI
import Acra.Drv.SpecFTI2
import Acra.Drv.SpecSearch
import Acra.Drv.SpecMpeg
namespace Acra.Drv
def specFuncs : List Func := List.flatten [
  specFuncsFTI,
  specFuncsFTI2,
  specFuncsSearch,
  specFuncsMpeg
]
end Acra.Drv
