/-
  Spec functions of the MPEG family for the oracle search (`F spec.<name> args…` on the spec driver).
  Imports only Acra.Spec.MPEG: independent of Acra.Gen and Acra.Model.
-/
import Acra.Drv.Core
import Acra.Spec.MPEG
namespace Acra.Drv
open Acra.Py Acra.Spec.MPEG

namespace SpecMpeg
def optBytes : Val → Option (Option Bytes)
  | .null => some none
  | .bytes b => some (some b)
  | _ => none
def optNat : Val → Option (Option Nat)
  | .null => some none
  | v => v.nat?.map some
def pairNB : Val → Option (Nat × Bytes)
  | .list [a, .bytes b] => a.nat?.map fun n => (n, b)
  | _ => none
def tripNNB : Val → Option (Nat × Nat × Bytes)
  | .list [a, b, .bytes c] => do pure ((← a.nat?), (← b.nat?), c)
  | _ => none
end SpecMpeg
open SpecMpeg

def specFuncsMpeg : List Func := [
  { name := "spec.TS.header", run := fun vs => match vs with
      | [sync, tei, pusi, prio, pid, tsc, afc, cc] => do
        let [sync, prio, pid, tsc, afc, cc] ← natArgs [sync, prio, pid, tsc, afc, cc] | none
        pure (.ok (.bytes (tsHeader sync (← tei.bool?) (← pusi.bool?) prio pid tsc afc cc)))
      | _ => none },
  { name := "spec.AF.encode", run := fun vs => match vs with
      | [disc, ra, esp, pcr, opcr, splice, priv, ext, stuffing] => do
        pure (.ok (.bytes (adaptationField (← disc.bool?) (← ra.bool?) (← esp.bool?) (← optBytes pcr) (← optBytes opcr)
          (← optNat splice) (← optBytes priv) (← optBytes ext) (← stuffing.nat?))))
      | _ => none },
  { name := "spec.Ext.encode", run := fun vs => match vs with
      | [a, b, c] => do pure (.ok (.bytes (afExtension (← optBytes a) (← optBytes b) (← optBytes c))))
      | _ => none },
  { name := "spec.Ext.asCoded", run := fun vs => match vs with
      | [a, b, c] => do pure (.ok (.bytes (extensionAsCoded (← optBytes a) (← optBytes b) (← optBytes c))))
      | _ => none },
  { name := "spec.crc32mpeg2", run := fun vs => match vs with
      | [.bytes b] => some (.ok (.ofNat (crc32mpeg2 b)))
      | _ => none },
  { name := "spec.PMT.payload", run := fun vs => match vs with
      | [tableid, ssi, prog, ver, cni, sec, last, pcrpid, descs, streams] => do
        let [tableid, ssi, prog, ver, cni, sec, last, pcrpid] ← natArgs [tableid, ssi, prog, ver, cni, sec, last, pcrpid] | none
        let ds ← (← descs.list?).mapM pairNB
        let ss ← (← streams.list?).mapM tripNNB
        pure (.ok (.bytes (pmtPayload tableid ssi prog ver cni sec last pcrpid ds ss)))
      | _ => none },
  { name := "spec.PES.packet", run := fun vs => match vs with
      | [sid, .null, .bytes d] => do pure (.ok (.bytes (pesPacket (← sid.nat?) none d)))
      | [sid, .list [w1, w2, .bytes hd], .bytes d] => do
        pure (.ok (.bytes (pesPacket (← sid.nat?) (some ((← w1.nat?), (← w2.nat?), hd)) d)))
      | _ => none },
  { name := "spec.PTS.field", run := fun vs => match vs with
      | [p] => p.nat?.map fun n => .ok (.ofNat (ptsField n))
      | _ => none },
  { name := "spec.misbChecksum", run := fun vs => match vs with
      | [.bytes b] => some (.ok (.ofNat (misbChecksum b)))
      | _ => none },
  { name := "spec.STANAG.data", run := fun vs => match natArgs vs with
      | some [c, u1, u2, t] => some (.ok (.bytes (stanagData c u1 u2 t)))
      | _ => none }
]
end Acra.Drv
