import Acra.Drv.Core
import Acra.Py.Float
import Acra.Model.IENATime
namespace Acra.Drv
open Acra.Py Acra.Py.Float

def floatBin (name : String) (f : Rat → Rat → Rat) : Func :=
  { name := name, run := fun vs => do
      let [a, b] ← natArgs vs | none
      pure (.ok (.int (toBits (f (ofBits a) (ofBits b))))) }

def floatFuncs : List Func := [
  floatBin "float.add" fadd, floatBin "float.sub" fsub, floatBin "float.mul" fmul, floatBin "float.div" fdiv,
  { name := "float.ofnat", run := fun vs => do
      let [a] ← natArgs vs | none
      pure (.ok (.int (toBits (ofNat a)))) },
  { name := "float.tonat", run := fun vs => do
      let [a] ← natArgs vs | none
      pure (.ok (.int (toNat (ofBits a)))) },
  { name := "float.round", run := fun vs => do
      let [a] ← natArgs vs | none
      pure (.ok (.int (roundNat (ofBits a)))) },
  { name := "iena.time", run := fun vs => do
      let [ts, us, soy] ← natArgs vs | none
      if ts < soy then none else
      let t := Acra.Model.IENATime.setPacketTime ts us soy
      pure (.ok (.list [.int t, .int (Acra.Model.IENATime.getPacketTime t soy)])) }
]
end Acra.Drv
