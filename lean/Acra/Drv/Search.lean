/-
  Line-protocol functions of the `search` family (pure helpers, no codec classes):
    F kmp.partial x<pattern>            -> ok:[ints]
    F kmp.search x<text> x<pattern>     -> ok:[ints] | err:index
    F bmh.search x<text> x<pattern>     -> ok:[ints] | err:index | err:fuel (never ends)
    F swap x<buffer> <bytecount>        -> ok:x<bytes> | err:generic | err:zerodiv
    F samdec.udp x<pcap file>           -> ok:[x<datagram>;…] | err:struct     (SamDecPcap._get_data)
    F samdec.frames x<pcap file>        -> ok:Frames{frames=[x…;…],err=q<kind>|None}
-/
import Acra.Drv.Core
import Acra.Model.Search
import Acra.Model.SamDec
namespace Acra.Drv
open Acra.Py

def intsVal (l : List Int) : Val := .list (l.map Val.int)
def bytesListVal (l : List Bytes) : Val := .list (l.map Val.bytes)
def errVal : Option Err → Val
  | none => .null
  | some e => .str e.name

def searchFuncs : List Func := [
  { name := "kmp.partial", run := fun vs =>
      match vs with
      | [.bytes p] => some ((Acra.Model.Search.kmpPartial p).map Val.ofNats)
      | _ => none },
  { name := "kmp.search", run := fun vs =>
      match vs with
      | [.bytes t, .bytes p] => some ((Acra.Model.Search.kmpSearch t p).map intsVal)
      | _ => none },
  { name := "bmh.search", run := fun vs =>
      match vs with
      | [.bytes t, .bytes p] => some ((Acra.Model.Search.bmh t p).map intsVal)
      | _ => none },
  { name := "swap", run := fun vs =>
      match vs with
      | [.bytes b, .int n] => some ((Acra.Model.Search.endiannessSwap b n).map Val.bytes)
      | _ => none },
  { name := "samdec.udp", run := fun vs =>
      match vs with
      | [.bytes f] => some ((Acra.Model.SamDec.getData f).map bytesListVal)
      | _ => none },
  { name := "samdec.frames", run := fun vs =>
      match vs with
      | [.bytes f] =>
        let (fs, e) := Acra.Model.SamDec.decom f
        some (.ok (.obj "Frames" [("frames", bytesListVal fs), ("err", errVal e)]))
      | _ => none }
]

end Acra.Drv
