/-
  The ch10 declarative layouts exposed as pure functions (`F spec.<name> args…`) for the oracle
  search.  Independent of Acra.Gen and Acra.Model.
-/
import Acra.Drv.Core
import Acra.Spec.Ch10
namespace Acra.Drv
open Acra.Py

def specFuncsCh10 : List Func := [
  { name := "spec.Ch10UDP.fmt1", run := fun vs =>
      match vs with
      | [a, b, .bytes p] => do
        let [a, b] ← natArgs [a, b] | none
        pure (.ok (.bytes (Spec.Ch10UDP.fmt1 a b p)))
      | _ => none },
  { name := "spec.Ch10UDP.fmt1seg", run := fun vs =>
      match vs with
      | [a, b, c, d, .bytes p] => do
        let [a, b, c, d] ← natArgs [a, b, c, d] | none
        pure (.ok (.bytes (Spec.Ch10UDP.fmt1seg a b c d p)))
      | _ => none },
  { name := "spec.Ch10UDP.fmt2", run := fun vs =>
      match vs with
      | [a, b, c, d, .bytes p] => do
        let [a, b, c, d] ← natArgs [a, b, c, d] | none
        pure (.ok (.bytes (Spec.Ch10UDP.fmt2 a b c d p)))
      | _ => none },
  { name := "spec.Ch10UDP.fmt3", run := fun vs =>
      match vs with
      | [a, b, c, d, .bytes p] => do
        let [a, b, c, d] ← natArgs [a, b, c, d] | none
        pure (.ok (.bytes (Spec.Ch10UDP.fmt3 a b c d p)))
      | _ => none },
  { name := "spec.Ch11.encode", run := fun vs =>
      match vs with
      | [a, b, c, d, e, f, g, t, .bytes p] => do
        let [a, b, c, d, e, f, g] ← natArgs [a, b, c, d, e, f, g] | none
        let ptp ← match t with
          | .null => some none
          | .list [s, n] => do
            let s ← s.nat?
            let n ← n.nat?
            pure (some (s, n))
          | _ => none
        pure (.ok (.bytes (Spec.Ch11.encode a b c d e f g ptp p)))
      | _ => none },
  { name := "spec.Ch11.hdrChecksum", run := fun vs =>
      match vs with
      | [.bytes p] => some (.ok (.ofNat (Spec.Ch11.hdrChecksum p)))
      | _ => none },
  { name := "spec.Ch11.secChecksum", run := fun vs =>
      match vs with
      | [.bytes p] => some (.ok (.ofNat (Spec.Ch11.secChecksum p)))
      | _ => none },
  { name := "spec.Namespace.expectedTarget", run := fun vs =>
      match vs with
      | [.str L] => some (.ok (match Spec.Namespace.expectedTarget L with
          | some t => .str t
          | none => .null))
      | _ => none }
]
end Acra.Drv
