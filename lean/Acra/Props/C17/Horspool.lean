/-
  C17, Boyer–Moore–Horspool: `string_matching_boyer_moore_horspool(text, pattern)` returns exactly
  the ascending list of all (possibly overlapping) offsets at which the pattern occurs.
  Model: Acra.Model.Search.bmh (fuelled `while k < n`, `Int` indices as in Python).
  Spec:  Acra.Spec.occ.
  The empty pattern is outside the domain (DESIGN §8): the examples at the end show what the code does there.
-/
import Acra.Lemmas.Search
namespace Acra.Props.C17
open Acra.Py Acra.Model.Search Acra.Spec Acra.Lemmas.Search

/-- what the Spec list means: `i` is listed iff the pattern fits at `i` and `t[i : i+|p|] = p` -/
theorem occ_mem_iff (t p : Bytes) (i : Nat) :
    i ∈ occ t p ↔ i + p.length ≤ t.length ∧ slice t i (i + p.length) = p := by
  rw [mem_occ, OccAt, slice, List.take_drop, Nat.add_comm]

/-- … and the Spec list is strictly ascending (hence duplicate-free) -/
theorem occ_ascending (t p : Bytes) : (occ t p).Pairwise (· < ·) := occ_pairwise t p

/-- Horspool = all occurrences, ascending, for every text and every non-empty pattern -/
theorem BMH_search_eq_occ (text pat : Bytes) (hp : pat ≠ []) :
    bmh text pat = .ok ((occ text pat).map Int.ofNat) := bmh_eq_occ text pat hp

/-- the docstring example: text `ababbababa`, pattern `aba` (a = 97, b = 98) -/
example : bmh [97, 98, 97, 98, 98, 97, 98, 97, 98, 97] [97, 98, 97] = .ok [0, 5, 7] := by rfl
example : ([97, 98, 97] : Bytes) ≠ [] := by decide

/-- termination (C08): for a non-empty pattern the fuel `len(text) + 1` never runs out -/
theorem BMH_fuel_sufficient (text pat : Bytes) (hp : pat ≠ []) : bmh text pat ≠ .error .fuel := by
  rw [bmh_eq_occ text pat hp]; simp

example : bmh [97, 98, 97, 98, 98, 97, 98, 97, 98, 97] [97, 98, 97] ≠ .error .fuel := by
  rw [show bmh [97, 98, 97, 98, 98, 97, 98, 97, 98, 97] [97, 98, 97] = .ok [0, 5, 7] from rfl]; simp

/-- shift safety, the key lemma: with `c = text[s+m-1]` the last byte of the window at `s`, no occurrence
    starts strictly between `s` and `s + skip[c]` -/
theorem BMH_shift_safe (text pat : Bytes) (hp : pat ≠ []) (s : Nat) (c : UInt8)
    (hc : text[s + pat.length - 1]? = some c) :
    ∃ v, (bmhSkip pat)[c.toNat]? = some v ∧ 1 ≤ v ∧
      ∀ x, x ∈ occ text pat → s < x → x < s + v → False := by
  have hm : 1 ≤ pat.length := by
    cases pat with
    | nil => exact absurd rfl hp
    | cons a l => simp
  obtain ⟨v, h1, h2, h3, h4⟩ := bmhSkip_spec pat hm c
  exact ⟨v, h1, h2, fun x hx => shift_safe text pat s v c hm hc h3 h4 x ((mem_occ _ _ _).1 hx)⟩

/-- non-vacuity: window at s = 2 of the docstring example; its last byte is `b` -/
example : ([97, 98, 97] : Bytes) ≠ [] ∧
    ([97, 98, 97, 98, 98, 97, 98, 97, 98, 97] : Bytes)[2 + ([97, 98, 97] : Bytes).length - 1]? = some 98 := by decide

/-- outside the domain: the empty pattern on the empty text raises IndexError (`text[-1]`), and on a
    non-empty text the loop never advances (`skip[...] = 0`): the model runs out of fuel -/
example : bmh [] [] = .error .index := by rfl
example : bmh [7] [] = .error .fuel := by rfl

end Acra.Props.C17
