/-
  C17, Knuth–Morris–Pratt: `KMP().search(T, P)` returns exactly the ascending list of all (possibly
  overlapping) offsets at which `P` occurs in `T`, and `KMP().partial(P)` is the failure table.
  Model: Acra.Model.Search.kmpPartial / kmpSearch (the inner `while` loops carry fuel `j + 1`).
  Spec:  Acra.Spec.occ.
  Both halves (soundness and completeness) are proved; the invariants are those of DESIGN Appendix A.2
  (`Acra.Lemmas.KMP`: `LPB` longest proper border, `MaxPS` longest prefix of `P` that is a suffix of the
  text read so far).  The empty pattern is outside the domain (examples at the end).
-/
import Acra.Lemmas.KMP
namespace Acra.Props.C17
open Acra.Py Acra.Model.Search Acra.Spec Acra.Lemmas.KMP

/-- KMP = all occurrences, ascending, for every text and every non-empty pattern -/
theorem KMP_search_eq_occ (t p : Bytes) (hp : p ≠ []) :
    kmpSearch t p = .ok ((occ t p).map Int.ofNat) := kmpSearch_eq_occ t p hp

example : ([97, 98, 97] : Bytes) ≠ [] := by decide

/-- the docstring-style example with overlapping occurrences: `aba` in `ababbababa` -/
example : kmpSearch [97, 98, 97, 98, 98, 97, 98, 97, 98, 97] [97, 98, 97] = .ok [0, 5, 7] := by rfl

/-- `KMP.partial` computes the failure table: entry `k` is the length of the longest proper border of
    `P[0..k]` (a border of `x` = a string that is both a prefix and a suffix of `x`; proper = shorter than `x`) -/
theorem KMP_partial_failure_table (p : Bytes) (hp : p ≠ []) :
    ∃ tbl, kmpPartial p = .ok tbl ∧ tbl.length = p.length ∧
      ∀ k, k < p.length → ∃ b, tbl[k]? = some b ∧ b < k + 1 ∧
        p.take b <:+ p.take (k + 1) ∧
        ∀ b', b' < k + 1 → p.take b' <:+ p.take (k + 1) → b' ≤ b := by
  obtain ⟨tbl, h1, h2, h3⟩ := kmpPartial_spec p hp
  refine ⟨tbl, h1, h2, ?_⟩
  intro k hk
  obtain ⟨b, hb1, hb2, hb3, hb4⟩ := h3 k hk
  refine ⟨b, hb1, hb2, hb3.2, ?_⟩
  intro b' hb' hs
  exact hb4 b' hb' ⟨by omega, hs⟩

example : kmpPartial [97, 98, 97, 98, 97, 99] = .ok [0, 0, 1, 2, 3, 0] := by rfl

/-- termination (C08): no loop of `KMP.search` runs out of fuel on a non-empty pattern -/
theorem KMP_fuel_sufficient (t p : Bytes) (hp : p ≠ []) : kmpSearch t p ≠ .error .fuel := by
  rw [kmpSearch_eq_occ t p hp]; simp

/-- outside the domain: the empty pattern raises IndexError (`P[0]`) on a non-empty text -/
example : kmpSearch [7] [] = .error .index := by rfl
example : kmpSearch [] [] = .ok [] := by rfl

end Acra.Props.C17
