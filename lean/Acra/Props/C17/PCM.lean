import Acra.Lemmas.Ch11PCM
import Acra.Props.C04.PCM
namespace Acra.Props.C17
open Acra.Py Acra.Model.Ch11Pay Acra.Model.Ch11Pay.PCM Acra.Gen.Ch11PCM Acra.Gen.Ch11PayTs
open Acra.Lemmas.Ch11PCM Acra.Lemmas.Ch11Pay Acra.Props.C04

/-- the size rule as the decoder applies it: with a sync word configured and no size, two or more
    occurrences of the (big-endian) sync word at offsets `o0 < o1 < …` give
    `minor_frame_size_bytes = o1 − o0 − 8 − header`; fewer give the whole buffer as one frame -/
theorem PCM_detect_two (p : Packet) (buf : Bytes) (hl sw o0 o1 : Nat) (rest : List Nat) (hsw : sw < 2 ^ 32)
    (hs : p.syncword = some sw) (ho : occ buf (beBytes 4 sw) = o0 :: o1 :: rest) :
    detect p buf hl = .ok ((o1 : Int) - o0 - 8 - hl) := by
  have hf : Fits PCM_unpack_fmt1.codes [sw] := by simp [Fits, PCM_unpack_fmt1, Code.bound]; omega
  have hp : structPack PCM_unpack_fmt1 [sw] = .ok (beBytes 4 sw) := by
    rw [structPack_eq _ _ hf]; simp [PCM_unpack_fmt1, encCodes, Code.size, encInt]
  simp [detect, hs, hp, ho, TS_LEN]

theorem PCM_detect_few (p : Packet) (buf : Bytes) (hl sw : Nat) (hsw : sw < 2 ^ 32)
    (hs : p.syncword = some sw) (ho : (occ buf (beBytes 4 sw)).length < 2) :
    detect p buf hl = .ok ((buf.length : Int) - 8 - hl - 4) := by
  have hf : Fits PCM_unpack_fmt1.codes [sw] := by simp [Fits, PCM_unpack_fmt1, Code.bound]; omega
  have hp : structPack PCM_unpack_fmt1 [sw] = .ok (beBytes 4 sw) := by
    rw [structPack_eq _ _ hf]; simp [PCM_unpack_fmt1, encCodes, Code.size, encInt]
  simp only [detect, hs, hp, TS_LEN]
  match h : occ buf (beBytes 4 sw) with
  | [] => simp
  | [_] => simp
  | _ :: _ :: _ => rw [h] at ho; simp at ho; omega

/-- fewer than two occurrences: the whole buffer is taken as one frame -/
example : (0xFE6B2840 : Nat) < 2 ^ 32 ∧ (occ ([0, 0, 0, 0, 1, 2, 3, 4, 5, 6, 7, 8, 0, 0, 0xFE, 0x6B, 0x28, 0x40] : Bytes) (beBytes 4 0xFE6B2840)).length < 2 := by
  decide

/-- PCM decoding without a size hint recovers the minor-frame size from two consecutive sync words:
    for a packed-mode packet of frames of one word-aligned size `n` (`n` + header even, so no fill
    bytes), decoded by an object that knows only the sync word, if the sync word occurs first at the
    first two frames' data starts (offsets 12 + header and one frame stride later) then
    `minor_frame_size_bytes = n` and exactly the frames are returned, in order -/
theorem PCM_size_from_sync (p t : Packet) (n sw : Nat) (rest : List Nat) (h : PCM_WF p n)
    (ho : t.ipts_source = p.ipts_source) (hs : t.assigned = Option.none) (hsync : t.syncword = some sw) (hsw : sw < 2 ^ 32)
    (heven : (n + hdrLen ((p.channel_specific_word / MODE_ALIGNMENT) % 2)) % 2 = 0)
    (hocc : occ (PCM_bytes p) (beBytes 4 sw) =
      (12 + hdrLen ((p.channel_specific_word / MODE_ALIGNMENT) % 2)) ::
      (12 + hdrLen ((p.channel_specific_word / MODE_ALIGNMENT) % 2) + (n + 8 + hdrLen ((p.channel_specific_word / MODE_ALIGNMENT) % 2))) :: rest) :
    (Packet.unpack t (PCM_bytes p) false).2 = .ok () ∧
    (Packet.unpack t (PCM_bytes p) false).1.mfsb = some (n : Int) ∧
    (Packet.unpack t (PCM_bytes p) false).1.minor_frames = p.minor_frames := by
  -- decoding with the size given
  have hgiven := PCM_unpack_bytes p { t with assigned := some n } n h ho rfl
  obtain ⟨h1, h2, hf⟩ := h
  have hcsw : structUnpackFrom PCM_unpack_fmt0 (PCM_bytes p) 0 = .ok [p.channel_specific_word] := by
    simp only [PCM_bytes, structUnpackFrom, PCM_unpack_fmt0, Fmt.size, codesSize, Code.size, List.length_append,
      encInt_length, unpackCodes, List.drop_zero, take_encInt_append]
    rw [decInt_encInt4 _ _ (by omega)]
    simp
  have hthr : decide (p.channel_specific_word / MODE_THROUGHPUT % 2 = 1) = false := by simp [h2]
  generalize hal : p.channel_specific_word / MODE_ALIGNMENT % 2 = align at hf heven hocc hgiven
  have hal2 : align < 2 := by omega
  have hhl : (if align = ALIGN_16b then DATA_HEADER_LEN_16 else DATA_HEADER_LEN_32) = hdrLen align := by
    have : align = 0 ∨ align = 1 := by omega
    rcases this with h | h <;> subst h <;> rfl
  have hdet := PCM_detect_two t (PCM_bytes p) (hdrLen align) sw _ _ rest hsw hsync hocc
  have hsize : ((12 + hdrLen align + (n + 8 + hdrLen align) : Nat) : Int) - ((12 + hdrLen align : Nat) : Int) - 8 - (hdrLen align : Nat) = (n : Int) := by
    omega
  rw [hsize] at hdet
  simp only [Packet.unpack, hcsw, hthr, hal, Bool.false_eq_true, if_false, hhl] at hgiven ⊢
  simp only [hs, hdet]
  -- the loop is the same computation as with the size given
  revert hgiven
  cases hd : decFrames (Frame.fresh t.ipts_source false align) false ((n : Int) + TS_LEN + hdrLen align).toNat (PCM_bytes p)
      ((PCM_bytes p).length + 1) 4 with
  | error e => simp [PCM_decoded]
  | ok fs =>
    intro hg
    simp only [Prod.mk.injEq, and_true] at hg
    have : fs = p.minor_frames := by
      have := congrArg Packet.minor_frames hg
      simpa [PCM_decoded] using this
    simp [Packet.mfsb, this]

/-- the hypotheses are satisfiable: two 4-byte frames (16-bit alignment, RTC time stamps) that start
    with the default sync word 0xFE6B2840 -/
example :
    let f1 : Frame := ⟨.rtc 1, false, some 7, [0xFE, 0x6B, 0x28, 0x40], 0, Option.none, Option.none⟩
    let f2 : Frame := ⟨.rtc 2, false, some 8, [0xFE, 0x6B, 0x28, 0x40], 0, Option.none, Option.none⟩
    let p : Packet := ⟨0, some 0, some 4, Option.none, Option.none, [f1, f2]⟩
    occ (PCM_bytes p) (beBytes 4 DFLT_SYNC_WORD) = [14, 28] ∧
    (Packet.unpack (Packet.fresh (some 0) (some DFLT_SYNC_WORD) Option.none) (PCM_bytes p) false).1.mfsb = some 4 := by
  decide

/-- (added by the rev2 review) ALL hypotheses of `PCM_size_from_sync` / `PCM_detect_two` together, for the packet of the
    example above and a decoder that knows only the sync word -/
example :
    let f1 : Frame := ⟨.rtc 1, false, some 7, [0xFE, 0x6B, 0x28, 0x40], 0, Option.none, Option.none⟩
    let f2 : Frame := ⟨.rtc 2, false, some 8, [0xFE, 0x6B, 0x28, 0x40], 0, Option.none, Option.none⟩
    let p : Packet := ⟨0, some 0, some 4, Option.none, Option.none, [f1, f2]⟩
    let t : Packet := Packet.fresh (some 0) (some DFLT_SYNC_WORD) Option.none
    PCM_WF p 4 ∧ t.ipts_source = p.ipts_source ∧ t.assigned = Option.none ∧ t.syncword = some DFLT_SYNC_WORD ∧
    DFLT_SYNC_WORD < 2 ^ 32 ∧ (4 + hdrLen ((p.channel_specific_word / MODE_ALIGNMENT) % 2)) % 2 = 0 ∧
    occ (PCM_bytes p) (beBytes 4 DFLT_SYNC_WORD) =
      [12 + hdrLen ((p.channel_specific_word / MODE_ALIGNMENT) % 2),
       12 + hdrLen ((p.channel_specific_word / MODE_ALIGNMENT) % 2) + (4 + 8 + hdrLen ((p.channel_specific_word / MODE_ALIGNMENT) % 2))] := by
  refine ⟨⟨by simp, by simp [MODE_THROUGHPUT], ?_⟩, rfl, rfl, rfl, by decide, by decide, by decide⟩
  intro f hf
  simp only [List.mem_cons, List.mem_nil_iff, or_false] at hf
  rcases hf with h | h <;> subst h <;>
    simp [Frame_WF, Frame.fresh, Ipts_WF, hdrLen, MODE_ALIGNMENT, pcmProto, sameKind, TS_CH4]

end Acra.Props.C17
