/-
  C17, byte swap: `endianness_swap` reverses every 2- or 4-byte group, is its own inverse, and
  refuses lengths that are not a multiple of the group size and every other group size.
  Model: Acra.Model.Search.endiannessSwap (the extended-slice assignments of the source).
  Spec:  Acra.Spec.swapGroups.
-/
import Acra.Lemmas.Swap
namespace Acra.Props.C17
open Acra.Py Acra.Model.Search Acra.Lemmas.Swap

/-- layout: for group sizes 2 and 4 and a buffer that is a whole number of groups, the result is
    the buffer with every group reversed -/
theorem swap_eq_spec (b : Bytes) (n : Nat) (hn : n = 2 ∨ n = 4) (hl : b.length % n = 0) :
    endiannessSwap b n = .ok (Spec.swapGroups n b) := by
  rcases hn with rfl | rfl
  · have : ((b.length : Int) % 2) = 0 := by omega
    simp [endiannessSwap, this, swap2_eq_spec b hl]
  · have : ((b.length : Int) % 4) = 0 := by omega
    simp [endiannessSwap, this, swap4_eq_spec b hl]

example : endiannessSwap [1, 2, 3, 4, 5, 6, 7, 8] 4 = .ok [4, 3, 2, 1, 8, 7, 6, 5] := by rfl

/-- byte `k` of the result is byte `n·(k/n) + (n−1−k%n)` of the input -/
theorem swap_groups (b r : Bytes) (n : Nat) (hn : n = 2 ∨ n = 4) (hl : b.length % n = 0)
    (h : endiannessSwap b n = .ok r) (k : Nat) (hk : k < b.length) :
    r.length = b.length ∧ r.getD k 0 = b.getD (n * (k / n) + (n - 1 - k % n)) 0 := by
  rw [swap_eq_spec b n hn hl] at h
  injection h with h
  subst h
  simp [Spec.swapGroups, hk]

/-- (added by the rev2 review) `swap_groups` without the totalised `getD`: both indices are in range and the two bytes are the same byte -/
theorem swap_groups_get (b r : Bytes) (n : Nat) (hn : n = 2 ∨ n = 4) (hl : b.length % n = 0)
    (h : endiannessSwap b n = .ok r) (k : Nat) (hk : k < b.length) :
    ∃ x, r[k]? = some x ∧ b[n * (k / n) + (n - 1 - k % n)]? = some x := by
  obtain ⟨hlen, hg⟩ := swap_groups b r n hn hl h k hk
  have hidx : n * (k / n) + (n - 1 - k % n) < b.length := by rcases hn with rfl | rfl <;> omega
  have hkr : k < r.length := by omega
  refine ⟨r[k], List.getElem?_eq_getElem hkr, ?_⟩
  rw [List.getD_eq_getElem?_getD, List.getD_eq_getElem?_getD, List.getElem?_eq_getElem hkr,
    List.getElem?_eq_getElem hidx] at hg
  simp only [Option.getD_some] at hg
  rw [List.getElem?_eq_getElem hidx, hg]

example : (4 = 2 ∨ 4 = 4) ∧ ([1, 2, 3, 4, 5, 6, 7, 8] : Bytes).length % 4 = 0 ∧
    endiannessSwap [1, 2, 3, 4, 5, 6, 7, 8] (4 : Nat) = .ok [4, 3, 2, 1, 8, 7, 6, 5] ∧ 6 < ([1, 2, 3, 4, 5, 6, 7, 8] : Bytes).length :=
  ⟨by decide, by decide, rfl, by decide⟩

/-- the swap is its own inverse -/
theorem swap_involutive (b r : Bytes) (n : Int) (h : endiannessSwap b n = .ok r) :
    endiannessSwap r n = .ok b := by
  unfold endiannessSwap at h ⊢
  split at h
  · simp at h
  · split at h
    · simp at h
    · rename_i h0 hm
      split at h
      · rename_i h2
        subst h2
        have hb : b.length % 2 = 0 := by omega
        injection h with h
        subst h
        have : ((swap2 b).length : Int) % 2 = 0 := by rw [swap2_length b hb]; omega
        simp [this, swap2_swap2 b hb]
      · split at h
        · rename_i h2 h4
          subst h4
          have hb : b.length % 4 = 0 := by omega
          injection h with h
          subst h
          have : ((swap4 b).length : Int) % 4 = 0 := by rw [swap4_length b hb]; omega
          simp [this, swap4_swap4 b hb]
        · simp at h

example : endiannessSwap [1, 2, 3, 4, 5, 6] 2 = .ok [2, 1, 4, 3, 6, 5] ∧ endiannessSwap [2, 1, 4, 3, 6, 5] 2 = .ok [1, 2, 3, 4, 5, 6] :=
  ⟨rfl, rfl⟩

/-- accepted exactly when the group size is 2 or 4 and the length is a multiple of it -/
theorem swap_accepts_iff (b : Bytes) (n : Int) :
    (endiannessSwap b n).isOk = true ↔ (n = 2 ∨ n = 4) ∧ (b.length : Int) % n = 0 := by
  unfold endiannessSwap
  by_cases h0 : n = 0
  · subst h0; simp [R.isOk]
  · by_cases hm : (b.length : Int) % n = 0
    · by_cases h2 : n = 2
      · subst h2; simp [hm, R.isOk]
      · by_cases h4 : n = 4
        · subst h4; simp [hm, R.isOk]
        · simp [h0, hm, h2, h4, R.isOk]
    · simp [h0, hm, R.isOk]

/-- a length that is not a multiple of the group size is refused with `Exception` -/
theorem swap_refuses_length (b : Bytes) (n : Int) (h0 : n ≠ 0) (hm : (b.length : Int) % n ≠ 0) :
    endiannessSwap b n = .error .generic := by
  simp [endiannessSwap, h0, hm]

example : ((2 : Int) ≠ 0) ∧ ((([1, 2, 3] : Bytes).length : Int) % 2 ≠ 0) := by decide

example : endiannessSwap [1, 2, 3] 2 = .error .generic := by rfl

/-- every group size other than 2 and 4 is refused: `ZeroDivisionError` for 0, `Exception` otherwise -/
theorem swap_refuses_group (b : Bytes) (n : Int) (h2 : n ≠ 2) (h4 : n ≠ 4) :
    endiannessSwap b n = .error (if n = 0 then .zeroDiv else .generic) := by
  unfold endiannessSwap
  by_cases h0 : n = 0
  · simp [h0]
  · by_cases hm : (b.length : Int) % n = 0 <;> simp [h0, hm, h2, h4]

example : ((3 : Int) ≠ 2) ∧ ((3 : Int) ≠ 4) := by decide

example : endiannessSwap [1, 2, 3] 3 = .error .generic := by rfl

end Acra.Props.C17
