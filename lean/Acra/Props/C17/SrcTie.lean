import Acra.Gen.Src.Init
import Acra.Model.Search
import Acra.Lemmas.SrcTieSwap
namespace Acra.Props.C17
open Acra Acra.Py Acra.Lemmas.SrcTieSwap

/-! Source tie (C17): `AcraNetwork.endianness_swap`, regenerated from the current Python source by
    `harness/translate.py` on every run (see `Props/C07/SrcTie.lean`). -/

/-- `endianness_swap` as written today = the model, for every buffer and every int `bytecount`:
    ZeroDivisionError for 0, the two `Exception`s, and the swapped bytes for 2 and 4.  The translated function carries
    the `ValueError` of an extended-slice assignment of the wrong size; the proof shows it cannot occur (the sizes of
    `buffer[i::k]` agree whenever `len(buffer) % k == 0`). -/
theorem src_endianness_swap (b : Bytes) (k : Int) :
    Gen.Src.Init.endianness_swap b k = Model.Search.endiannessSwap b k := by
  unfold Gen.Src.Init.endianness_swap Model.Search.endiannessSwap Py.pymodE
  by_cases hk0 : k = 0
  · simp only [hk0, if_true]; rfl
  · simp only [hk0, if_false, bind, Except.bind, Py.len]
    have hm : (pymod (b.length : Int) k ≠ 0) ↔ ((b.length : Int) % k ≠ 0) := not_congr (pymod_eq_zero_iff _ _)
    by_cases hd : (b.length : Int) % k ≠ 0
    · rw [if_pos (hm.mpr hd), if_pos hd]
    · rw [if_neg (fun h => hd (hm.mp h)), if_neg hd]
      have hd' : (b.length : Int) % k = 0 := by omega
      by_cases h2 : k = 2
      · subst h2
        have hn : b.length % 2 = 0 := by omega
        simp only [if_true]
        rw [strideSetE_ok _ _ 0 2 (by decide) (by rw [getStride_length 2 (by decide)]; omega)]
        simp only []
        rw [strideSetE_ok _ _ 1 2 (by decide) (by
          rw [getStride_length 2 (by decide), setStride_length]; omega)]
        simp only [Model.Search.swap2, getStride_eq, setStride_eq]
      · rw [if_neg h2, if_neg h2]
        by_cases h4 : k = 4
        · subst h4
          have hn : b.length % 4 = 0 := by omega
          simp only [if_true]
          rw [strideSetE_ok _ _ 0 4 (by decide) (by rw [getStride_length 4 (by decide)]; omega)]
          simp only []
          rw [strideSetE_ok _ _ 1 4 (by decide) (by
            rw [getStride_length 4 (by decide), setStride_length]; omega)]
          simp only []
          rw [strideSetE_ok _ _ 2 4 (by decide) (by
            rw [getStride_length 4 (by decide), setStride_length, setStride_length]; omega)]
          simp only []
          rw [strideSetE_ok _ _ 3 4 (by decide) (by
            rw [getStride_length 4 (by decide), setStride_length, setStride_length, setStride_length]; omega)]
          simp only [Model.Search.swap4, getStride_eq, setStride_eq]
        · rw [if_neg h4, if_neg h4]

example : Gen.Src.Init.endianness_swap [1, 2, 3, 4] 2 = .ok [2, 1, 4, 3] := by rfl
example : Gen.Src.Init.endianness_swap [1, 2, 3, 4] 4 = .ok [4, 3, 2, 1] := by rfl
example : Gen.Src.Init.endianness_swap [1, 2, 3] 0 = .error .zeroDiv := by rfl
example : Gen.Src.Init.endianness_swap [1, 2, 3] (-3) = .error .generic := by rfl

end Acra.Props.C17
