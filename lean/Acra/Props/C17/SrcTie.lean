import Acra.Gen.Src.Init
import Acra.Model.Search
import Acra.Lemmas.SrcTieSwap
import Acra.Gen.Src.SamDec008
import Acra.Gen.Src.H264
import Acra.Lemmas.SrcTieSearch
import Acra.Lemmas.KMP
import Acra.Lemmas.Search
set_option linter.unusedSimpArgs false
namespace Acra.Props.C17
open Acra Acra.Py Acra.Lemmas.SrcTieSwap Acra.Lemmas.SrcTieSearch

/-! Source tie (C17): `AcraNetwork.endianness_swap`, regenerated from the current Python source by
    `harness/translate.py` on every run (see `Props/C07/SrcTie.lean`). -/

/-- `endianness_swap` as written today = the model, for every buffer and every int `bytecount`:
    ZeroDivisionError for 0, the two `Exception`s, and the swapped bytes for 2 and 4.  The translated function carries
    the `ValueError` of an extended-slice assignment of the wrong size; the proof shows it cannot occur (the sizes of
    `buffer[i::k]` agree whenever `len(buffer) % k == 0`). -/
theorem src_endianness_swap (b : Bytes) (k : Int) :
    Gen.Src.Init.endianness_swap b k = Model.Search.endiannessSwap b k := by
  unfold Gen.Src.Init.endianness_swap Model.Search.endiannessSwap Py.pymodE
  by_cases hk0 : k = 0
  · simp only [hk0, if_true]; rfl
  · simp only [hk0, if_false, bind, Except.bind, Py.len]
    have hm : (pymod (b.length : Int) k ≠ 0) ↔ ((b.length : Int) % k ≠ 0) := not_congr (pymod_eq_zero_iff _ _)
    by_cases hd : (b.length : Int) % k ≠ 0
    · rw [if_pos (hm.mpr hd), if_pos hd]
    · rw [if_neg (fun h => hd (hm.mp h)), if_neg hd]
      have hd' : (b.length : Int) % k = 0 := by omega
      by_cases h2 : k = 2
      · subst h2
        have hn : b.length % 2 = 0 := by omega
        simp only [if_true]
        rw [strideSetE_ok _ _ 0 2 (by decide) (by rw [getStride_length 2 (by decide)]; omega)]
        simp only []
        rw [strideSetE_ok _ _ 1 2 (by decide) (by
          rw [getStride_length 2 (by decide), setStride_length]; omega)]
        simp only [Model.Search.swap2, getStride_eq, setStride_eq]
      · rw [if_neg h2, if_neg h2]
        by_cases h4 : k = 4
        · subst h4
          have hn : b.length % 4 = 0 := by omega
          simp only [if_true]
          rw [strideSetE_ok _ _ 0 4 (by decide) (by rw [getStride_length 4 (by decide)]; omega)]
          simp only []
          rw [strideSetE_ok _ _ 1 4 (by decide) (by
            rw [getStride_length 4 (by decide), setStride_length]; omega)]
          simp only []
          rw [strideSetE_ok _ _ 2 4 (by decide) (by
            rw [getStride_length 4 (by decide), setStride_length, setStride_length]; omega)]
          simp only []
          rw [strideSetE_ok _ _ 3 4 (by decide) (by
            rw [getStride_length 4 (by decide), setStride_length, setStride_length, setStride_length]; omega)]
          simp only [Model.Search.swap4, getStride_eq, setStride_eq]
        · rw [if_neg h4, if_neg h4]

example : Gen.Src.Init.endianness_swap [1, 2, 3, 4] 2 = .ok [2, 1, 4, 3] := by rfl
example : Gen.Src.Init.endianness_swap [1, 2, 3, 4] 4 = .ok [4, 3, 2, 1] := by rfl
example : Gen.Src.Init.endianness_swap [1, 2, 3] 0 = .error .zeroDiv := by rfl
example : Gen.Src.Init.endianness_swap [1, 2, 3] (-3) = .error .generic := by rfl

/-! ### the search algorithms: `KMP.partial`, `KMP.search`, both copies of Horspool -/

/-- `KMP.partial` as written today = the model `kmpPartial`, for EVERY pattern (the empty one too: `[0]`), results as
    Python ints.  The theorem includes termination of the fall-back `while` within the fuel `j + 1` wherever the model
    terminates (everywhere: `KMP_partial_failure_table`). -/
theorem src_KMP_partial (p : Bytes) :
    Gen.Src.Init.KMP_partial p = (Model.Search.kmpPartial p).map (List.map Int.ofNat) := by
  unfold Gen.Src.Init.KMP_partial Model.Search.kmpPartial
  have hr : Py.range2 1 (Py.len p) =
      (List.range (p.drop 1).length).map (fun (k : Nat) => ((1 : Nat) : Int) + (k : Int)) := by
    unfold Py.range2 Py.len
    have : ((p.length : Int) - 1).toNat = (p.drop 1).length := by simp
    rw [this]; rfl
  rw [hr]
  rw [bind_ok_self]
  refine partialLoop_tie p _ (fun ret i c hi hpi => ?_) (p.drop 1) 1 [0] rfl (by omega)
  have hi1 : (i : Int) - 1 = ((i - 1 : Nat) : Int) := by omega
  simp only [hi1, getItem_nat]
  unfold partialStep
  cases ret[i - 1]? with
  | none => rfl
  | some j =>
    simp only [liftN_some, bind, Except.bind, toNat_succ]
    rw [fall_tie p ret c _ _ ?hc ?hb]
    case hc =>
      intro j
      simp only [getByte_nat, hpi, liftB_some]
      by_cases hj : j > 0
      · have hj' : (j : Int) > 0 := by omega
        rw [if_pos hj, if_pos hj']
        cases p[j]? with
        | none => rfl
        | some x => simp only [liftB_some, decide_eq_decide.mpr (u8_ne_iff x c)]
      · have hj' : ¬ (j : Int) > 0 := by omega
        rw [if_neg hj, if_neg hj']
    case hb =>
      intro j hj
      have hj1 : (j : Int) - 1 = ((j - 1 : Nat) : Int) := by omega
      simp only [hj1, getItem_nat]
      cases ret[j - 1]? <;> rfl
    cases Model.Search.kmpFall p ret c (j + 1) j with
    | error e => rfl
    | ok j2 =>
      simp only [Except.map, Int.ofNat_eq_natCast, getByte_nat, hpi, liftB_some]
      cases p[j2]? with
      | none => rfl
      | some x =>
        simp only [liftB_some, u8_eq_iff, List.map_append, List.map_cons, List.map_nil, beq_iff_eq]
        by_cases hx : x = c
        · simp only [hx, if_true]; rfl
        · simp only [hx, if_false]; rfl

/-- `KMP.search` as written today = the model `kmpSearch`, for EVERY text and pattern (non-empty pattern: the list of
    offsets; empty pattern: IndexError on a non-empty text, `[]` on the empty text), including termination of the
    fall-back loop within its fuel. -/
theorem src_KMP_search (t p : Bytes) :
    Gen.Src.Init.KMP_search t p = Model.Search.kmpSearch t p := by
  unfold Gen.Src.Init.KMP_search Model.Search.kmpSearch
  rw [src_KMP_partial]
  cases Model.Search.kmpPartial p with
  | error e => rfl
  | ok tbl =>
    have hr : Py.range (Py.len t) =
        (List.range t.length).map (fun (k : Nat) => ((0 : Nat) : Int) + (k : Int)) := by
      unfold Py.range Py.len
      simp
    simp only [Except.map]
    rw [ok_bind]
    rw [hr, bind_ok_snd]
    refine searchLoop_tie t p tbl _ (fun j ret i c hti => ?_) t 0 0 [] rfl
    simp only [toNat_succ, byteAt_nat t i c hti]
    rw [fall_tie p tbl c _ _ ?hc ?hb]
    case hc =>
      intro j
      simp only [getByte_nat]
      by_cases hj : j > 0
      · have hj' : (j : Int) > 0 := by omega
        rw [if_pos hj, if_pos hj']
        cases p[j]? with
        | none => rfl
        | some x =>
          simp only [liftB_some, ok_bind, decide_eq_decide.mpr ((u8_ne_iff c x).trans ne_comm)]
      · have hj' : ¬ (j : Int) > 0 := by omega
        rw [if_neg hj, if_neg hj']
    case hb =>
      intro j hj
      have hj1 : (j : Int) - 1 = ((j - 1 : Nat) : Int) := by omega
      simp only [hj1, getItem_nat]
      cases tbl[j - 1]? <;> rfl
    unfold searchStep
    cases Model.Search.kmpFall p tbl c (j + 1) j with
    | error e => rfl
    | ok j2 =>
      simp only [Except.map, ok_bind, Int.ofNat_eq_natCast, getByte_nat]
      cases hpj : p[j2]? with
      | none => rfl
      | some x =>
        simp only [liftB_some, ok_bind, u8_eq_iff, beq_iff_eq]
        have hlt : j2 < p.length := (List.getElem?_eq_some_iff.mp hpj).1
        have hJ : (if c = x then (j2 : Int) + 1 else (j2 : Int)) = ((if c = x then j2 + 1 else j2 : Nat) : Int) := by
          split <;> simp
        rw [hJ]
        generalize hJdef : (if c = x then j2 + 1 else j2) = J
        have hJ1 : J = p.length → 1 ≤ J := by intro h; split at hJdef <;> omega
        by_cases hJp : J = p.length
        · have h1 : (J : Int) = Py.len p := by unfold Py.len; omega
          have hj1 : (J : Int) - 1 = ((J - 1 : Nat) : Int) := by have := hJ1 hJp; omega
          have hget : getItem (tbl.map Int.ofNat) ((J : Int) - 1) = liftN tbl[J - 1]? := by rw [hj1, getItem_nat]
          rw [if_pos h1, if_pos hJp, hget]
          cases tbl[J - 1]? with
          | none => rfl
          | some j' =>
            -- the offset `i - (j - 1)`, however it is written (`i - j + 1` …): linear arithmetic
            first
              | rfl
              | (simp only [liftN_some, ok_bind, Except.map]
                 refine congrArg Except.ok (Prod.ext rfl (congrArg (fun x => ret ++ [x]) ?_))
                 show _ = _
                 omega)
        · have h1 : ¬ (J : Int) = Py.len p := by unfold Py.len; omega
          rw [if_neg h1, if_neg hJp]; rfl

/-- the completeness theorem of the model transfers to the SOURCE: `KMP().search(T, P)` as written today returns
    exactly the ascending list of all (possibly overlapping) occurrences, for every text and non-empty pattern -/
theorem src_KMP_search_all_occurrences (t p : Bytes) (hp : p ≠ []) :
    Gen.Src.Init.KMP_search t p = .ok ((Spec.occ t p).map Int.ofNat) := by
  rw [src_KMP_search]; exact Lemmas.KMP.kmpSearch_eq_occ t p hp

/-- … and `KMP().partial(P)` as written today is the failure table (longest proper borders) -/
theorem src_KMP_partial_failure_table (p : Bytes) (hp : p ≠ []) :
    ∃ tbl : List Nat, Gen.Src.Init.KMP_partial p = .ok (tbl.map Int.ofNat) ∧ tbl.length = p.length ∧
      ∀ k, k < p.length → ∃ b, tbl[k]? = some b ∧ b < k + 1 ∧
        p.take b <:+ p.take (k + 1) ∧
        ∀ b', b' < k + 1 → p.take b' <:+ p.take (k + 1) → b' ≤ b := by
  obtain ⟨tbl, h1, h2, h3⟩ := Lemmas.KMP.kmpPartial_spec p hp
  refine ⟨tbl, by rw [src_KMP_partial, h1]; rfl, h2, ?_⟩
  intro k hk
  obtain ⟨b, hb1, hb2, hb3, hb4⟩ := h3 k hk
  exact ⟨b, hb1, hb2, hb3.2, fun b' hb' hs => hb4 b' hb' ⟨by omega, hs⟩⟩

example : ([97, 98, 97] : Bytes) ≠ [] := by decide
example : Gen.Src.Init.KMP_search [97, 98, 97, 98, 98, 97, 98, 97, 98, 97] [97, 98, 97] = .ok [0, 5, 7] := by rfl
example : Gen.Src.Init.KMP_partial [97, 98, 97, 98, 97, 99] = .ok [0, 0, 1, 2, 3, 0] := by rfl
/-- outside the domain of the corollaries (empty pattern): IndexError on a non-empty text, `[]` on the empty text -/
example : Gen.Src.Init.KMP_search [7] [] = .error .index := by rfl
example : Gen.Src.Init.KMP_search [] [] = .ok [] := by rfl

/-- `string_matching_boyer_moore_horspool` of SamDec008.py as written today = the model `bmh`, for EVERY text and
    pattern: `[]` when the pattern is longer than the text, the offsets for a non-empty pattern, and outside the domain
    (empty pattern) IndexError on the empty text / `Err.fuel` (the Python loop never ends) on a non-empty one.
    Includes termination of both `while` loops within their fuels wherever the model terminates. -/
theorem src_bmh_samdec (text pat : Bytes) :
    Gen.Src.SamDec008.string_matching_boyer_moore_horspool text pat = Model.Search.bmh text pat := by
  unfold Gen.Src.SamDec008.string_matching_boyer_moore_horspool Model.Search.bmh
  simp only [Py.len]
  by_cases hmn : pat.length > text.length
  · have h' : (pat.length : Int) > (text.length : Int) := by omega
    rw [if_pos h', if_pos hmn]
  · have h' : ¬ (pat.length : Int) > (text.length : Int) := by omega
    rw [if_neg h', if_neg hmn]
    have h256 : List.foldl (fun (skip : List Int) (k : Int) => skip ++ [(pat.length : Int)]) [] (Py.range 256) =
        (List.replicate 256 pat.length).map Int.ofNat := by
      rw [foldl_append_const, show (Py.range 256).length = 256 from range_length 256, List.nil_append,
        List.map_replicate]; rfl
    have hrange : Py.range ((pat.length : Int) - 1) = (List.range (pat.length - 1)).map Int.ofNat := by
      unfold Py.range
      have : ((pat.length : Int) - 1).toNat = pat.length - 1 := by omega
      rw [this]
    have hfuel1 : ((text.length : Int) + 1).toNat = text.length + 1 := by omega
    have hfuel2 : ((pat.length : Int) - 1 + 2).toNat = pat.length + 1 := by omega
    -- the initial table, built by 256 appends or as `[m] * 256`
    first
      | rw [h256]
      | rw [replicate_nat 256 256 rfl pat.length]
    rw [hrange, hfuel1, hfuel2,
      skipLoop_tie pat _ ?hG (List.range (pat.length - 1)) (List.replicate 256 pat.length) List.length_replicate
        (fun k hk => List.mem_range.mp hk), ← bmhSkip_eq, ok_bind, bind_ok_fst]
    case hG =>
      intro sk k hs hk
      obtain ⟨c, hc⟩ : ∃ c, pat[k]? = some c := ⟨pat[k]'(by omega), List.getElem?_eq_getElem _⟩
      -- the shift `m - k - 1`, however it is written
      have e1 : (pat.length : Int) - (k : Int) - 1 = ((pat.length - k - 1 : Nat) : Int) := by omega
      have e2 : (pat.length : Int) - 1 - (k : Int) = ((pat.length - k - 1 : Nat) : Int) := by omega
      simp only [getByte_nat, hc, liftB_some, ok_bind, e1, e2]
      -- the store: raising (`Py.setItem`, table of unknown length) or total (`Py.setAt`, length 256 known)
      first
        | rw [setItem_nat _ _ _ (by rw [hs]; exact c.toNat_lt), ok_bind]
        | rw [setAt_nat]
      unfold skipStep; rw [hc]
    refine outer_tie text pat (Model.Search.bmhSkip pat) _ _ (fun offs k => rfl) (fun offs k => ?_)
      (text.length + 1) ((pat.length : Int) - 1) []
    simp only []
    rw [inner_tie text pat _ _ (fun j i => rfl) (fun j i => rfl) pat.length k]
    unfold outerStep
    cases Model.Search.bmhInner text pat pat.length k with
    | error e => rfl
    | ok r =>
      obtain ⟨j1, i⟩ := r
      simp only [Except.map, ok_bind, getByte_pyIdx]
      cases Model.Search.pyIdx text k with
      | none => rfl
      | some c =>
        -- the table has 256 cells, so `skip[text[k]]` (raising `getItem`, or total `intAt` when the length is known
        -- to the translator) is the model's cell
        obtain ⟨s, hs⟩ : ∃ s, (Model.Search.bmhSkip pat)[c.toNat]? = some s :=
          ⟨_, List.getElem?_eq_getElem (by rw [bmhSkip_length]; exact c.toNat_lt)⟩
        simp only [liftB_some, ok_bind, getItem_nat, hs, liftN_some, intAt_nat _ _ _ hs, beq_iff_eq]
        by_cases hj : j1 = 0
        · subst hj; rfl
        · have : ¬ ((j1 : Int) - 1 = -1) := by omega
          rw [if_neg this, if_neg hj]

/-- `string_matching_boyer_moore_horspool` of MPEG/H264.py (the second copy; its `if PY3:` tests are
    resolved to the Python-3 branch by the translator, see the note in the generated file) as written today = the model `bmh`, for EVERY text and
    pattern: `[]` when the pattern is longer than the text, the offsets for a non-empty pattern, and outside the domain
    (empty pattern) IndexError on the empty text / `Err.fuel` (the Python loop never ends) on a non-empty one.
    Includes termination of both `while` loops within their fuels wherever the model terminates. -/
theorem src_bmh_h264 (text pat : Bytes) :
    Gen.Src.H264.string_matching_boyer_moore_horspool text pat = Model.Search.bmh text pat := by
  unfold Gen.Src.H264.string_matching_boyer_moore_horspool Model.Search.bmh
  simp only [Py.len]
  by_cases hmn : pat.length > text.length
  · have h' : (pat.length : Int) > (text.length : Int) := by omega
    rw [if_pos h', if_pos hmn]
  · have h' : ¬ (pat.length : Int) > (text.length : Int) := by omega
    rw [if_neg h', if_neg hmn]
    have h256 : List.foldl (fun (skip : List Int) (k : Int) => skip ++ [(pat.length : Int)]) [] (Py.range 256) =
        (List.replicate 256 pat.length).map Int.ofNat := by
      rw [foldl_append_const, show (Py.range 256).length = 256 from range_length 256, List.nil_append,
        List.map_replicate]; rfl
    have hrange : Py.range ((pat.length : Int) - 1) = (List.range (pat.length - 1)).map Int.ofNat := by
      unfold Py.range
      have : ((pat.length : Int) - 1).toNat = pat.length - 1 := by omega
      rw [this]
    have hfuel1 : ((text.length : Int) + 1).toNat = text.length + 1 := by omega
    have hfuel2 : ((pat.length : Int) - 1 + 2).toNat = pat.length + 1 := by omega
    -- the initial table, built by 256 appends or as `[m] * 256`
    first
      | rw [h256]
      | rw [replicate_nat 256 256 rfl pat.length]
    rw [hrange, hfuel1, hfuel2,
      skipLoop_tie pat _ ?hG (List.range (pat.length - 1)) (List.replicate 256 pat.length) List.length_replicate
        (fun k hk => List.mem_range.mp hk), ← bmhSkip_eq, ok_bind, bind_ok_fst]
    case hG =>
      intro sk k hs hk
      obtain ⟨c, hc⟩ : ∃ c, pat[k]? = some c := ⟨pat[k]'(by omega), List.getElem?_eq_getElem _⟩
      -- the shift `m - k - 1`, however it is written
      have e1 : (pat.length : Int) - (k : Int) - 1 = ((pat.length - k - 1 : Nat) : Int) := by omega
      have e2 : (pat.length : Int) - 1 - (k : Int) = ((pat.length - k - 1 : Nat) : Int) := by omega
      simp only [getByte_nat, hc, liftB_some, ok_bind, e1, e2]
      -- the store: raising (`Py.setItem`, table of unknown length) or total (`Py.setAt`, length 256 known)
      first
        | rw [setItem_nat _ _ _ (by rw [hs]; exact c.toNat_lt), ok_bind]
        | rw [setAt_nat]
      unfold skipStep; rw [hc]
    refine outer_tie text pat (Model.Search.bmhSkip pat) _ _ (fun offs k => rfl) (fun offs k => ?_)
      (text.length + 1) ((pat.length : Int) - 1) []
    simp only []
    rw [inner_tie text pat _ _ (fun j i => rfl) (fun j i => rfl) pat.length k]
    unfold outerStep
    cases Model.Search.bmhInner text pat pat.length k with
    | error e => rfl
    | ok r =>
      obtain ⟨j1, i⟩ := r
      simp only [Except.map, ok_bind, getByte_pyIdx]
      cases Model.Search.pyIdx text k with
      | none => rfl
      | some c =>
        -- the table has 256 cells, so `skip[text[k]]` (raising `getItem`, or total `intAt` when the length is known
        -- to the translator) is the model's cell
        obtain ⟨s, hs⟩ : ∃ s, (Model.Search.bmhSkip pat)[c.toNat]? = some s :=
          ⟨_, List.getElem?_eq_getElem (by rw [bmhSkip_length]; exact c.toNat_lt)⟩
        simp only [liftB_some, ok_bind, getItem_nat, hs, liftN_some, intAt_nat _ _ _ hs, beq_iff_eq]
        by_cases hj : j1 = 0
        · subst hj; rfl
        · have : ¬ ((j1 : Int) - 1 = -1) := by omega
          rw [if_neg this, if_neg hj]

/-- the completeness theorem of the model transfers to the SOURCE: both copies of Horspool return exactly the ascending
    list of all (possibly overlapping) occurrences, for every text and every non-empty pattern -/
theorem src_bmh_samdec_all_occurrences (text pat : Bytes) (hp : pat ≠ []) :
    Gen.Src.SamDec008.string_matching_boyer_moore_horspool text pat = .ok ((Spec.occ text pat).map Int.ofNat) := by
  rw [src_bmh_samdec]; exact Lemmas.Search.bmh_eq_occ text pat hp

theorem src_bmh_h264_all_occurrences (text pat : Bytes) (hp : pat ≠ []) :
    Gen.Src.H264.string_matching_boyer_moore_horspool text pat = .ok ((Spec.occ text pat).map Int.ofNat) := by
  rw [src_bmh_h264]; exact Lemmas.Search.bmh_eq_occ text pat hp

example : ([97, 98, 97] : Bytes) ≠ [] := by decide
example : Gen.Src.SamDec008.string_matching_boyer_moore_horspool [97, 98, 97, 98, 98, 97, 98, 97, 98, 97] [97, 98, 97]
    = .ok [0, 5, 7] := by rw [src_bmh_samdec]; rfl
example : Gen.Src.H264.string_matching_boyer_moore_horspool [0, 0, 0, 1, 9, 0, 0, 0, 1] [0, 0, 0, 1] = .ok [0, 5] := by
  rw [src_bmh_h264]; rfl
/-- outside the domain (empty pattern): IndexError on the empty text; on a non-empty text the Python loop never ends
    (`skip[...] = 0`), which the translation reports as `Err.fuel` -/
example : Gen.Src.SamDec008.string_matching_boyer_moore_horspool [] [] = .error .index := by rw [src_bmh_samdec]; rfl
example : Gen.Src.H264.string_matching_boyer_moore_horspool [7] [] = .error .fuel := by rw [src_bmh_h264]; rfl

end Acra.Props.C17
