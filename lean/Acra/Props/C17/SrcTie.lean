import Acra.Gen.Src.Init
import Acra.Model.Search
import Acra.Lemmas.SrcTieSwap
import Acra.Gen.Src.SamDec008
import Acra.Gen.Src.H264
import Acra.Lemmas.SrcTieSearch
import Acra.Lemmas.KMP
import Acra.Lemmas.Search
namespace Acra.Props.C17
open Acra Acra.Py Acra.Lemmas.SrcTieSwap Acra.Lemmas.SrcTieSearch

/-! Source tie (C17): `AcraNetwork.endianness_swap`, regenerated from the current Python source by
    `harness/translate.py` on every run (see `Props/C07/SrcTie.lean`). -/

/-- `endianness_swap` as written today = the model, for every buffer and every int `bytecount`:
    ZeroDivisionError for 0, the two `Exception`s, and the swapped bytes for 2 and 4.  The translated function carries
    the `ValueError` of an extended-slice assignment of the wrong size; the proof shows it cannot occur (the sizes of
    `buffer[i::k]` agree whenever `len(buffer) % k == 0`). -/
theorem src_endianness_swap (b : Bytes) (k : Int) :
    Gen.Src.Init.endianness_swap b k = Model.Search.endiannessSwap b k := by
  unfold Gen.Src.Init.endianness_swap Model.Search.endiannessSwap Py.pymodE
  by_cases hk0 : k = 0
  · simp only [hk0, if_true]; rfl
  · simp only [hk0, if_false, bind, Except.bind, Py.len]
    have hm : (pymod (b.length : Int) k ≠ 0) ↔ ((b.length : Int) % k ≠ 0) := not_congr (pymod_eq_zero_iff _ _)
    by_cases hd : (b.length : Int) % k ≠ 0
    · rw [if_pos (hm.mpr hd), if_pos hd]
    · rw [if_neg (fun h => hd (hm.mp h)), if_neg hd]
      have hd' : (b.length : Int) % k = 0 := by omega
      by_cases h2 : k = 2
      · subst h2
        have hn : b.length % 2 = 0 := by omega
        simp only [if_true]
        rw [strideSetE_ok _ _ 0 2 (by decide) (by rw [getStride_length 2 (by decide)]; omega)]
        simp only []
        rw [strideSetE_ok _ _ 1 2 (by decide) (by
          rw [getStride_length 2 (by decide), setStride_length]; omega)]
        simp only [Model.Search.swap2, getStride_eq, setStride_eq]
      · rw [if_neg h2, if_neg h2]
        by_cases h4 : k = 4
        · subst h4
          have hn : b.length % 4 = 0 := by omega
          simp only [if_true]
          rw [strideSetE_ok _ _ 0 4 (by decide) (by rw [getStride_length 4 (by decide)]; omega)]
          simp only []
          rw [strideSetE_ok _ _ 1 4 (by decide) (by
            rw [getStride_length 4 (by decide), setStride_length]; omega)]
          simp only []
          rw [strideSetE_ok _ _ 2 4 (by decide) (by
            rw [getStride_length 4 (by decide), setStride_length, setStride_length]; omega)]
          simp only []
          rw [strideSetE_ok _ _ 3 4 (by decide) (by
            rw [getStride_length 4 (by decide), setStride_length, setStride_length, setStride_length]; omega)]
          simp only [Model.Search.swap4, getStride_eq, setStride_eq]
        · rw [if_neg h4, if_neg h4]

example : Gen.Src.Init.endianness_swap [1, 2, 3, 4] 2 = .ok [2, 1, 4, 3] := by rfl
example : Gen.Src.Init.endianness_swap [1, 2, 3, 4] 4 = .ok [4, 3, 2, 1] := by rfl
example : Gen.Src.Init.endianness_swap [1, 2, 3] 0 = .error .zeroDiv := by rfl
example : Gen.Src.Init.endianness_swap [1, 2, 3] (-3) = .error .generic := by rfl

/-! ### the search algorithms: `KMP.partial`, `KMP.search`, both copies of Horspool -/

/-- `KMP.partial` as written today = the model `kmpPartial`, for EVERY pattern (the empty one too: `[0]`), results as
    Python ints.  The theorem includes termination of the fall-back `while` within the fuel `j + 1` wherever the model
    terminates (everywhere: `KMP_partial_failure_table`). -/
theorem src_KMP_partial (p : Bytes) :
    Gen.Src.Init.KMP_partial p = (Model.Search.kmpPartial p).map (List.map Int.ofNat) := by
  unfold Gen.Src.Init.KMP_partial Model.Search.kmpPartial
  have hr : Py.range2 1 (Py.len p) =
      (List.range (p.drop 1).length).map (fun (k : Nat) => ((1 : Nat) : Int) + (k : Int)) := by
    unfold Py.range2 Py.len
    have : ((p.length : Int) - 1).toNat = (p.drop 1).length := by simp
    rw [this]; rfl
  rw [hr]
  rw [bind_ok_self]
  refine partialLoop_tie p _ (fun ret i c hi hpi => ?_) (p.drop 1) 1 [0] rfl (by omega)
  have hi1 : (i : Int) - 1 = ((i - 1 : Nat) : Int) := by omega
  simp only [hi1, getItem_nat]
  unfold partialStep
  cases ret[i - 1]? with
  | none => rfl
  | some j =>
    simp only [liftN_some, bind, Except.bind, toNat_succ]
    rw [fall_tie p ret c _ _ ?hc ?hb]
    case hc =>
      intro j
      simp only [getByte_nat, hpi, liftB_some]
      by_cases hj : j > 0
      · have hj' : (j : Int) > 0 := by omega
        rw [if_pos hj, if_pos hj']
        cases p[j]? with
        | none => rfl
        | some x => simp only [liftB_some, decide_eq_decide.mpr (u8_ne_iff x c)]
      · have hj' : ¬ (j : Int) > 0 := by omega
        rw [if_neg hj, if_neg hj']
    case hb =>
      intro j hj
      have hj1 : (j : Int) - 1 = ((j - 1 : Nat) : Int) := by omega
      simp only [hj1, getItem_nat]
      cases ret[j - 1]? <;> rfl
    cases Model.Search.kmpFall p ret c (j + 1) j with
    | error e => rfl
    | ok j2 =>
      simp only [Except.map, Int.ofNat_eq_natCast, getByte_nat, hpi, liftB_some]
      cases p[j2]? with
      | none => rfl
      | some x =>
        simp only [liftB_some, u8_eq_iff, List.map_append, List.map_cons, List.map_nil, beq_iff_eq]
        by_cases hx : x = c
        · simp only [hx, if_true]; rfl
        · simp only [hx, if_false]; rfl

end Acra.Props.C17
