/-
  C08 for the ch10 family.  The codec decoders (Chapter10UDP, Chapter11, PTPTime, RTCTime, the checksum
  helpers) are straight-line: no loop, no fuel parameter; on any bytes they return or raise one of the listed
  ordinary exceptions.  `FileParser.next` has the one data-dependent loop (the byte-wise sync search): fuel
  `|file| − offset + 2` always suffices, iteration over ANY file contents stops and yields no more items than
  the file has bytes, none empty (after the repair of D11: a zero length field is "not in sync").
-/
import Acra.Lemmas.Ch11
import Acra.Lemmas.Ch10UDP
import Acra.Lemmas.Ch10File
namespace Acra.Props.C08
open Acra.Py Acra

theorem udp_unpack_total (t : Model.Ch10UDP.State) (buf : Bytes) :
    (Model.Ch10UDP.unpack t buf).2 = .ok () ∨ (Model.Ch10UDP.unpack t buf).2 = .error .struct ∨
    (Model.Ch10UDP.unpack t buf).2 = .error .generic := by
  simp only [Model.Ch10UDP.unpack]
  repeat' split
  all_goals first
    | (simp; done)
    | (right; left; simp only [Except.error.injEq]; exact structUnpackFrom_error _ _ _ _ (by assumption))

theorem ch11_unpack_total (t : Model.Ch11.State) (buf : Bytes) :
    (Model.Ch11.unpack t buf).2 = .ok () ∨ (Model.Ch11.unpack t buf).2 = .error .struct ∨
    (Model.Ch11.unpack t buf).2 = .error .generic := by
  simp only [Model.Ch11.unpack]
  repeat' split
  all_goals first
    | (simp; done)
    | (right; left; simp only [Except.error.injEq]; exact structUnpackFrom_error _ _ _ _ (by assumption))
    | (right; right; simp only [Except.error.injEq]; exact Lemmas.Ch11.setPacketflag_err _ _ _ _ (by assumption))

theorem ptp_unpack_total (buf : Bytes) :
    (∃ t, Model.Ch11.PTP.unpack buf = .ok t) ∨ Model.Ch11.PTP.unpack buf = .error .struct := by
  simp only [Model.Ch11.PTP.unpack]
  repeat' split
  all_goals first
    | (simp; done)
    | (right; simp only [Except.error.injEq]; exact structUnpack_error _ _ _ (by assumption))

theorem rtc_unpack_total (buf : Bytes) :
    (∃ c, Model.Ch11.rtcUnpack buf = .ok c) ∨ Model.Ch11.rtcUnpack buf = .error .struct := by
  simp only [Model.Ch11.rtcUnpack]
  repeat' split
  all_goals first
    | (simp; done)
    | (right; simp only [Except.error.injEq]; exact structUnpack_error _ _ _ (by assumption))

/-- the checksum helpers on any bytes: a value, or the documented exception (odd length), or `TypeError`
    (empty buffer: `reduce` of an empty sequence) -/
theorem checksum_helpers_total (buf : Bytes) :
    (buf.length % 2 = 1 → Model.Ch11.getChecksumBuf buf = .error .generic) ∧
    (buf = [] → Model.Ch11.getChecksumBuf buf = .error .type ∧ Model.Ch11.getChecksumByteBuf buf = .error .type) ∧
    (buf ≠ [] → Model.Ch11.getChecksumByteBuf buf = .ok (Spec.Ch11.secChecksum buf)) ∧
    (buf ≠ [] → buf.length % 2 = 0 → Model.Ch11.getChecksumBuf buf = .ok (Spec.Ch11.hdrChecksum buf)) := by
  refine ⟨fun h => by simp [Model.Ch11.getChecksumBuf, h], fun h => by subst h; exact ⟨by decide, by decide⟩, ?_, ?_⟩
  · intro h
    exact Lemmas.Ch10.getChecksumByteBuf_eq buf (List.length_pos_iff.mpr h)
  · intro h he
    exact Lemmas.Ch10.getChecksumBuf_eq buf he (List.length_pos_iff.mpr h)

/-- the sync search of `FileParser.next` never runs out of fuel, at any offset of any file -/
theorem fileparser_next_fuel_sufficient (data : Bytes) (off : Nat) :
    ∃ st, Model.Ch10File.nextFuel data (data.length - off + 2) off = .ok st :=
  Lemmas.Ch10File.next_total data off

/-- a returned packet is non-empty and `_offset` moves past it, staying inside the file -/
theorem fileparser_next_progress (data : Bytes) (off o : Nat) (p : Bytes)
    (h : Model.Ch10File.next data off = .ok (o, some p)) :
    0 < p.length ∧ off + p.length ≤ o ∧ o ≤ data.length := Lemmas.Ch10File.next_some data off o p h

/-- `FileParser.items_le_bytes`: iterating ANY file contents stops (fuel `|file| + 1` suffices) and yields at
    most `|file|` items, none of them empty -/
theorem fileparser_items_le_bytes (data : Bytes) :
    ∃ ps o, Model.Ch10File.iterate data = .ok (ps, o) ∧ ps.length ≤ data.length ∧ ∀ p ∈ ps, 0 < p.length := by
  have := Lemmas.Ch10File.iterFuel_total data (data.length + 1) 0 (by omega)
  simpa [Model.Ch10File.iterate] using this

/-- D11 regression: the file `25 EB 00 00 00 00 00 00` (sync word, zero length) yields nothing and stops -/
theorem fileparser_zero_length_stops :
    Model.Ch10File.iterate [0x25, 0xEB, 0, 0, 0, 0, 0, 0] = .ok ([], 1) := by decide

/-! ### review additions (rev1-C08) -/

/-- [review] the driver iterates from the object's CURRENT offset (`iterate s.data s.off`), not only from 0: from ANY
    offset of ANY file the iteration stops and yields at most one item per remaining byte, none empty -/
theorem fileparser_items_le_bytes_from (data : Bytes) (off : Nat) :
    ∃ ps o, Model.Ch10File.iterate data off = .ok (ps, o) ∧ ps.length ≤ data.length - off ∧
      ∀ p ∈ ps, 0 < p.length := by
  have := Lemmas.Ch10File.iterFuel_total data (data.length + 1) off (by omega)
  simpa [Model.Ch10File.iterate] using this

/-- [review] witness file: 3 junk bytes (one of them half a sync word), a 12-byte packet, a sync word with a zero
    length field (skipped), a 9-byte packet, 2 trailing bytes -/
def wCh10File : Bytes :=
  [0x25, 7, 0xEB,  0x25, 0xEB, 1, 0, 12, 0, 0, 0, 0xA, 0xB, 0xC, 0xD,  0x25, 0xEB, 0, 0, 0, 0, 0, 0,
   0x25, 0xEB, 2, 0, 9, 0, 0, 0, 0xE,  5, 6]

example : Model.Ch10File.next wCh10File 0 = .ok (15, some [0x25, 0xEB, 1, 0, 12, 0, 0, 0, 0xA, 0xB, 0xC, 0xD]) := by rfl
example : Model.Ch10File.iterate wCh10File =
    .ok ([[0x25, 0xEB, 1, 0, 12, 0, 0, 0, 0xA, 0xB, 0xC, 0xD], [0x25, 0xEB, 2, 0, 9, 0, 0, 0, 0xE]], 32) := by rfl
example : Model.Ch10File.iterate wCh10File 16 = .ok ([[0x25, 0xEB, 2, 0, 9, 0, 0, 0, 0xE]], 32) := by rfl
/-- a length field pointing past the end of the file: the item is dropped and iteration stops -/
example : Model.Ch10File.iterate [0x25, 0xEB, 1, 0, 200, 0, 0, 0, 1, 2, 3] = .ok ([], 200) := by rfl
-- the four cases of `checksum_helpers_total` all occur
example : Model.Ch11.getChecksumBuf [1, 2, 3] = .error .generic ∧ Model.Ch11.getChecksumBuf [] = .error .type ∧
    (Model.Ch11.getChecksumByteBuf [1, 2, 3]).isOk = true ∧ (Model.Ch11.getChecksumBuf [1, 2, 3, 4]).isOk = true := by
  decide
end Acra.Props.C08
