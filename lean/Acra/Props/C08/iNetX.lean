import Acra.Model.iNetX
namespace Acra.Props.C08
open Acra.Py Acra.Model.iNetX

/-- `iNetX.unpack` is a straight-line function of the buffer: no loop, so it never runs out of fuel
    (the model has no fuel parameter at all); on any bytes it returns or raises ValueError/struct.error -/
theorem iNetX_unpack_total (t : State) (buf : Bytes) :
    (unpack t buf).2 = .ok () ∨ (unpack t buf).2 = .error .value ∨ (unpack t buf).2 = .error .struct := by
  simp only [unpack]
  split
  · simp
  · split
    · split <;> simp
    · simp
    · rename_i e h
      simp only [structUnpackFrom] at h
      split at h <;> simp_all

end Acra.Props.C08
