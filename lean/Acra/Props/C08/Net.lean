import Acra.Lemmas.Net
import Acra.Lemmas.Pcap
import Acra.Props.C05.Pcap
namespace Acra.Props.C08
open Acra.Py Acra.Model.Net Acra.Gen.Net Acra.Lemmas.Net

/-! The SimpleEthernet decoders are straight-line functions of the buffer (no loop, no fuel parameter in the
    model): on any bytes they return or raise one of the listed ordinary exceptions. -/

theorem IP_unpack_total (t : IP) (buf : Bytes) :
    (IP.unpack t buf).2 = .ok () ∨ (IP.unpack t buf).2 = .error .value := by
  by_cases h : buf.length < 20
  · right; simp [IP.unpack, IP_HEADER_SIZE, h]
  · left; rw [IP_unpack_eq _ _ (by omega)]

theorem UDP_unpack_total (t : UDP) (buf : Bytes) :
    (UDP.unpack t buf).2 = .ok () ∨ (UDP.unpack t buf).2 = .error .value := by
  by_cases h : buf.length < 8
  · right; simp [UDP.unpack, UDP_HEADER_SIZE, h]
  · left
    have h' : 8 ≤ buf.length := by omega
    simp [UDP.unpack, UDP_HEADER_SIZE, structUnpackFrom, UDP_HEADER_FORMAT, Fmt.size, codesSize, Code.size,
      unpackCodes, h, h']

theorem Ethernet_unpack_short (t : Eth) (buf : Bytes) (fcs : Bool) (h : buf.length < 14) :
    (Eth.unpack t buf fcs).2 = .error .struct := Eth_unpack_short t buf fcs h

theorem Ethernet_unpack_total (t : Eth) (buf : Bytes) (fcs : Bool) :
    (Eth.unpack t buf fcs).2 = .ok () ∨ (Eth.unpack t buf fcs).2 = .error .struct ∨
    (Eth.unpack t buf fcs).2 = .error .generic := by
  by_cases h : buf.length < 14
  · right; left; exact Ethernet_unpack_short t buf fcs h
  · rw [Eth_unpack_eq _ _ _ (by omega)]
    simp only [ethFinish]
    repeat' split
    all_goals simp

theorem ARP_unpack_total (t : ARP) (buf : Bytes) :
    (ARP.unpack t buf).2 = .ok () ∨ (ARP.unpack t buf).2 = .error .struct ∨ (ARP.unpack t buf).2 = .error .os := by
  by_cases h : 28 ≤ buf.length
  · left; rw [ARP_unpack_eq _ _ h]
  · right
    have u48 : ∀ x e, unpack48 x = .error e → e = .struct := by
      intro x e he
      by_cases hx : x.length = 6
      · rw [unpack48_eq _ hx] at he; simp at he
      · rw [unpack48_error _ hx] at he; simp at he; exact he.symm
    have ntoa : ∀ x e, inetNtoa x = .error e → e = .os := by
      intro x e he; simp only [inetNtoa] at he; split at he <;> simp at he; exact he.symm
    simp only [ARP.unpack]
    repeat' split
    all_goals first
      | (simp; done)
      | (rename_i e he; have := structUnpackFrom_error _ _ _ _ he; subst this; simp)
      | (rename_i e he; have := u48 _ _ he; subst this; simp)
      | (rename_i e he; have := ntoa _ _ he; subst this; simp)
      | (exfalso; rename_i hlast; simp only [inetNtoa, slice_length] at hlast; split at hlast <;> first | omega | (simp at hlast))

open Acra.Model.Pcap Acra.Gen.Pcap in
theorem PcapRecord_unpack_total (t : Rec) (buf : Bytes) :
    (Rec.unpack t buf).2 = .ok () ∨ (Rec.unpack t buf).2 = .error .value := by
  by_cases h : buf.length = 16
  · left; simp [Rec.unpack, structUnpack, RECORD_HEADER_FORMAT, Fmt.size, codesSize, Code.size, unpackCodes, h]
  · right
    have h' : ¬ (16 = buf.length) := by omega
    simp [Rec.unpack, RECORD_HEADER_FORMAT, Fmt.size, codesSize, Code.size, h']

/-- `ICMP.unpack` is not implemented: NotImplementedError on every input -/
theorem ICMP_unpack_total (t : ICMP) (buf : Bytes) : (ICMP.unpack t buf).2 = .error .notImplemented := rfl

/-! Iterating a pcap file with ARBITRARY contents, from an object in ANY state: the fuel the model gives the loops
    (file length + 1) is never exhausted, and no more records come out than the file has 16-byte headers. -/
open Acra.Model.Pcap Acra.Lemmas.Pcap

theorem Pcap_iterate_fuel_sufficient (fs : FS) : (readAll (fuelFor fs) fs).2 ≠ .error .fuel :=
  readAll_nofuel fs _ (by simp only [fuelFor]; omega)

theorem Pcap_getitem_fuel_sufficient (fs : FS) (item : Int) : (getitem fs item).2 ≠ .error .fuel :=
  getitem_nofuel fs item

/-- at most one record per 16 bytes: in particular no more items than the file has bytes -/
theorem Pcap_items_le_bytes (fs : FS) (rs : List Rec) (h : (readAll (fuelFor fs) fs).2 = .ok rs) :
    16 * rs.length ≤ (fs.file.getD []).length ∧ rs.length ≤ (fs.file.getD []).length := by
  have := C05.items_le_bytes _ fs rs h
  exact ⟨this, by omega⟩

/-- every step of the reader consumes at least the 16-byte header (why the fuel suffices) -/
theorem Pcap_step_progress (rest : Bytes) (r : Rec) (n : Nat) (h : nextRec rest = some (r, n)) :
    16 ≤ n ∧ n ≤ rest.length := by
  obtain ⟨h1, h2, _⟩ := nextRec_some rest r n h
  exact ⟨h1, h2⟩

/-! ### review additions (rev1-C08): joint witnesses -/
open Acra.Props.C05 in
/-- [review] joint witness for `Pcap_items_le_bytes`: the 76-byte file of `Props/C05/Pcap.wRecs` (three records, one
    with an empty payload) read with exactly the fuel the driver uses (`fuelFor fs` = 77) -/
example : let fs : FS := (openFile ⟨some (fileOf wRecs), none⟩ .r).1
    (readAll (fuelFor fs) fs).2.toOption = some wRecs ∧ fuelFor fs = 77 := by decide +kernel

open Acra.Props.C05 in
/-- [review] …and on a file that is NOT a pcap file at all (arbitrary contents: 40 bytes of 0xFF after a header-sized
    prefix): one record with a truncated payload, then the iteration stops -/
example : let fs : FS := (openFile ⟨some (List.replicate 64 0xFF), none⟩ .r).1
    ((readAll (fuelFor fs) fs).2.toOption.map List.length) = some 1 := by decide +kernel

-- `Pcap_step_progress`: a complete record, and a header whose payload is cut short
example : (nextRec [1, 0, 0, 0, 2, 0, 0, 0, 3, 0, 0, 0, 3, 0, 0, 0, 7, 8, 9, 5, 5]).map (·.2) = some 19 ∧
    (nextRec [1, 0, 0, 0, 2, 0, 0, 0, 200, 0, 0, 0, 200, 0, 0, 0, 7, 8]).map (·.2) = some 18 := by decide +kernel
-- `Ethernet_unpack_short`
example : ([1, 2, 3, 4, 5, 6, 7, 8, 9, 10, 11, 12, 13] : Bytes).length < 14 := by decide
end Acra.Props.C08
