import Acra.Lemmas.Ch11PCM
import Acra.Props.C08.MIL1553
namespace Acra.Props.C08
open Acra.Py Acra.Model.Ch11Pay Acra.Model.Ch11Pay.PCM Acra.Gen.Ch11PCM Acra.Lemmas.Ch11PCM

theorem PCMFrame_unpack_total (t : Frame) (buf : Bytes) (ex : Bool) : (Frame.unpack t buf ex).2 ≠ .error .fuel := by
  simp only [Frame.unpack]
  have hi := Ipts_unpack_nofuel t.ipts (buf.take 8)
  cases h1 : (if t.ipts = .none then (.ok Ipts.none : R Ipts) else t.ipts.unpack (buf.take 8)) with
  | error e =>
    simp only [ne_eq, Except.error.injEq]
    intro he; subst he
    split at h1
    · simp at h1
    · exact hi h1
  | ok i =>
    simp only
    split
    · simp
    · cases h2 : hdrFmt t.alignment with
      | error e =>
        simp only [ne_eq, Except.error.injEq]
        intro he; subst he
        simp only [hdrFmt] at h2
        repeat' split at h2
        all_goals simp at h2
      | ok fh =>
        obtain ⟨fmt, hl⟩ := fh
        simp only
        cases h3 : structUnpackFrom fmt buf 8 with
        | error e => have := structUnpackFrom_error _ _ _ _ h3; subst this; simp
        | ok v =>
          match v with
          | [h] =>
            simp only
            split
            · cases h4 : structUnpackFrom MF_unpack_fmt0 buf (8 + hl) with
              | error e => have := structUnpackFrom_error _ _ _ _ h4; subst this; simp
              | ok w =>
                match w with
                | [a, b, c] => simp
                | [] => simp
                | [_] => simp
                | [_, _] => simp
                | _ :: _ :: _ :: _ :: _ => simp
            · simp
          | [] => simp
          | _ :: _ :: _ => simp

/-- a packed-mode frame object (which always has a time stamp) does not decode the empty slice -/
theorem PCMFrame_unpack_nil (t : Frame) (ex : Bool) (h : t.ipts ≠ .none) : (Frame.unpack t [] ex).2 ≠ .ok () := by
  simp only [Frame.unpack, h, if_false, List.take_nil]
  cases hi : t.ipts with
  | none => exact absurd hi h
  | rtc c => simp [Ipts.unpack, structUnpack, Acra.Gen.Ch11PayTs.RTC_unpack_fmt0, Fmt.size, codesSize, Code.size]
  | ptp s n => simp [Ipts.unpack, structUnpack, Acra.Gen.Ch11PayTs.PTP_unpack_fmt0, Fmt.size, codesSize, Code.size]

/-- the packed-mode loop `while offset + req <= len`: every iteration that decodes a frame advances,
    so fuel len − off + 1 is never exhausted -/
theorem decFrames_fuel_sufficient (proto : Frame) (ex : Bool) (req : Nat) (buf : Bytes) (hp : proto.ipts ≠ .none)
    (fuel off : Nat) (hf : buf.length - off + 1 ≤ fuel) :
    decFrames proto ex req buf fuel off ≠ .error .fuel := by
  induction fuel generalizing off with
  | zero => omega
  | succ fuel ih =>
    unfold decFrames
    split
    · rename_i hle
      cases hu : Frame.unpack proto (slice buf off (off + req)) ex with
      | mk f r =>
        cases r with
        | error e => simp
        | ok u =>
          simp only
          have hreq : 1 ≤ req := by
            cases req with
            | succ k => omega
            | zero =>
              exfalso
              have hs : slice buf off (off + 0) = [] := by
                apply List.eq_nil_of_length_eq_zero; simp; omega
              rw [hs] at hu
              have := PCMFrame_unpack_nil proto ex hp
              rw [hu] at this
              exact this rfl
          have := ih (off + req + (if req % 2 != 0 then 1 else 0)) (by omega)
          cases hr : decFrames proto ex req buf fuel (off + req + (if req % 2 != 0 then 1 else 0)) with
          | ok fs => simp
          | error e => simp only [ne_eq, Except.error.injEq]; intro he; subst he; exact this hr
    · simp

theorem decFrames_items_le (proto : Frame) (ex : Bool) (req : Nat) (buf : Bytes) (hp : proto.ipts ≠ .none)
    (fuel off : Nat) (fs : List Frame) (h : decFrames proto ex req buf fuel off = .ok fs) : fs.length ≤ buf.length - off := by
  induction fuel generalizing off fs with
  | zero => simp [decFrames] at h
  | succ fuel ih =>
    unfold decFrames at h
    split at h
    · rename_i hle
      cases hu : Frame.unpack proto (slice buf off (off + req)) ex with
      | mk f r =>
        cases r with
        | error e => simp [hu] at h
        | ok u =>
          rw [hu] at h
          dsimp only at h
          have hreq : 1 ≤ req := by
            cases req with
            | succ k => omega
            | zero =>
              exfalso
              have hs : slice buf off (off + 0) = [] := by
                apply List.eq_nil_of_length_eq_zero; simp; omega
              rw [hs] at hu
              have := PCMFrame_unpack_nil proto ex hp
              rw [hu] at this
              exact this rfl
          cases hr : decFrames proto ex req buf fuel (off + req + (if req % 2 != 0 then 1 else 0)) with
          | error e => rw [hr] at h; simp at h
          | ok gs =>
            rw [hr] at h
            simp only [Except.ok.injEq] at h
            subst h
            have := ih _ gs hr
            simp only [List.length_cons]
            omega
    · simp at h; subst h; simp

theorem fresh_ipts_ne_none (src : Option Nat) (a : Nat) : (Frame.fresh src false a).ipts ≠ .none := by
  simp only [Frame.fresh, Bool.false_eq_true, if_false]
  split <;> simp

theorem detect_nofuel (p : Packet) (buf : Bytes) (hl : Nat) : detect p buf hl ≠ .error .fuel := by
  simp only [detect]
  repeat' split
  all_goals first
    | (simp; done)
    | (rename_i e h; have := structPack_error _ _ _ h; subst this; simp)

/-- `PCMDataPacket.unpack` terminates on every buffer, in throughput and packed mode, with or without
    a size hint or sync word -/
theorem PCM_unpack_total (t : Packet) (buf : Bytes) (ex : Bool) : (Packet.unpack t buf ex).2 ≠ .error .fuel := by
  simp only [Packet.unpack]
  cases hc : structUnpackFrom PCM_unpack_fmt0 buf 0 with
  | error e => have := structUnpackFrom_error _ _ _ _ hc; subst this; simp
  | ok v =>
    match v with
    | [csw] =>
      simp only
      split
      · have := PCMFrame_unpack_total (Frame.fresh (some DEFAULT_IPTS_SOURCE) true (csw / MODE_ALIGNMENT % 2)) (buf.drop 4) false
        split
        · simp
        · rename_i e he; simp only [ne_eq, Except.error.injEq]; intro h; subst h; rw [he] at this; exact this rfl
      · cases ha : t.assigned with
        | some n =>
          simp only
          have := decFrames_fuel_sufficient (Frame.fresh t.ipts_source false (csw / MODE_ALIGNMENT % 2)) ex
            (((n : Int) + TS_LEN + (if csw / MODE_ALIGNMENT % 2 = ALIGN_16b then DATA_HEADER_LEN_16 else DATA_HEADER_LEN_32 : Nat)).toNat)
            buf (fresh_ipts_ne_none _ _) (buf.length + 1) 4 (by omega)
          split
          · simp
          · rename_i e he; simp only [ne_eq, Except.error.injEq]; intro h; subst h; exact this he
        | none =>
          simp only
          have hd := detect_nofuel t buf (if csw / MODE_ALIGNMENT % 2 = ALIGN_16b then DATA_HEADER_LEN_16 else DATA_HEADER_LEN_32)
          cases hdet : detect t buf (if csw / MODE_ALIGNMENT % 2 = ALIGN_16b then DATA_HEADER_LEN_16 else DATA_HEADER_LEN_32) with
          | error e => simp only [ne_eq, Except.error.injEq]; intro h; subst h; exact hd hdet
          | ok d =>
            simp only
            have := decFrames_fuel_sufficient (Frame.fresh t.ipts_source false (csw / MODE_ALIGNMENT % 2)) ex
              ((d + TS_LEN + (if csw / MODE_ALIGNMENT % 2 = ALIGN_16b then DATA_HEADER_LEN_16 else DATA_HEADER_LEN_32 : Nat)).toNat)
              buf (fresh_ipts_ne_none _ _) (buf.length + 1) 4 (by omega)
            split
            · simp
            · rename_i e he; simp only [ne_eq, Except.error.injEq]; intro h; subst h; exact this he
    | [] => simp
    | _ :: _ :: _ => simp

end Acra.Props.C08
