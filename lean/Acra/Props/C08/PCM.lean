import Acra.Lemmas.Ch11PCM
import Acra.Props.C08.MIL1553
namespace Acra.Props.C08
open Acra.Py Acra.Model.Ch11Pay Acra.Model.Ch11Pay.PCM Acra.Gen.Ch11PCM Acra.Lemmas.Ch11PCM

theorem PCMFrame_unpack_total (t : Frame) (buf : Bytes) (ex : Bool) : (Frame.unpack t buf ex).2 ≠ .error .fuel := by
  simp only [Frame.unpack]
  have hi := Ipts_unpack_nofuel t.ipts (buf.take 8)
  cases h1 : (if t.ipts = .none then (.ok Ipts.none : R Ipts) else t.ipts.unpack (buf.take 8)) with
  | error e =>
    simp only [ne_eq, Except.error.injEq]
    intro he; subst he
    split at h1
    · simp at h1
    · exact hi h1
  | ok i =>
    simp only
    split
    · simp
    · cases h2 : hdrFmt t.alignment with
      | error e =>
        simp only [ne_eq, Except.error.injEq]
        intro he; subst he
        simp only [hdrFmt] at h2
        repeat' split at h2
        all_goals simp at h2
      | ok fh =>
        obtain ⟨fmt, hl⟩ := fh
        simp only
        cases h3 : structUnpackFrom fmt buf 8 with
        | error e => have := structUnpackFrom_error _ _ _ _ h3; subst this; simp
        | ok v =>
          match v with
          | [h] =>
            simp only
            split
            · cases h4 : structUnpackFrom MF_unpack_fmt0 buf (8 + hl) with
              | error e => have := structUnpackFrom_error _ _ _ _ h4; subst this; simp
              | ok w =>
                match w with
                | [a, b, c] => simp
                | [] => simp
                | [_] => simp
                | [_, _] => simp
                | _ :: _ :: _ :: _ :: _ => simp
            · simp
          | [] => simp
          | _ :: _ :: _ => simp

/-- a packed-mode frame object (which always has a time stamp) does not decode the empty slice -/
theorem PCMFrame_unpack_nil (t : Frame) (ex : Bool) (h : t.ipts ≠ .none) : (Frame.unpack t [] ex).2 ≠ .ok () := by
  simp only [Frame.unpack, h, if_false, List.take_nil]
  cases hi : t.ipts with
  | none => exact absurd hi h
  | rtc c => simp [Ipts.unpack, structUnpack, Acra.Gen.Ch11PayTs.RTC_unpack_fmt0, Fmt.size, codesSize, Code.size]
  | ptp s n => simp [Ipts.unpack, structUnpack, Acra.Gen.Ch11PayTs.PTP_unpack_fmt0, Fmt.size, codesSize, Code.size]

/-- the packed-mode loop `while offset + req <= len`: every iteration that decodes a frame advances,
    so fuel len − off + 1 is never exhausted -/
theorem decFrames_fuel_sufficient (proto : Frame) (ex : Bool) (req : Nat) (buf : Bytes) (hp : proto.ipts ≠ .none)
    (fuel off : Nat) (hf : buf.length - off + 1 ≤ fuel) :
    decFrames proto ex req buf fuel off ≠ .error .fuel := by
  induction fuel generalizing off with
  | zero => omega
  | succ fuel ih =>
    unfold decFrames
    split
    · rename_i hle
      cases hu : Frame.unpack proto (slice buf off (off + req)) ex with
      | mk f r =>
        cases r with
        | error e => simp
        | ok u =>
          simp only
          have hreq : 1 ≤ req := by
            cases req with
            | succ k => omega
            | zero =>
              exfalso
              have hs : slice buf off (off + 0) = [] := by
                apply List.eq_nil_of_length_eq_zero; simp; omega
              rw [hs] at hu
              have := PCMFrame_unpack_nil proto ex hp
              rw [hu] at this
              exact this rfl
          have := ih (off + req + (if req % 2 != 0 then 1 else 0)) (by omega)
          cases hr : decFrames proto ex req buf fuel (off + req + (if req % 2 != 0 then 1 else 0)) with
          | ok fs => simp
          | error e => simp only [ne_eq, Except.error.injEq]; intro he; subst he; exact this hr
    · simp

theorem decFrames_items_le (proto : Frame) (ex : Bool) (req : Nat) (buf : Bytes) (hp : proto.ipts ≠ .none)
    (fuel off : Nat) (fs : List Frame) (h : decFrames proto ex req buf fuel off = .ok fs) : fs.length ≤ buf.length - off := by
  induction fuel generalizing off fs with
  | zero => simp [decFrames] at h
  | succ fuel ih =>
    unfold decFrames at h
    split at h
    · rename_i hle
      cases hu : Frame.unpack proto (slice buf off (off + req)) ex with
      | mk f r =>
        cases r with
        | error e => simp [hu] at h
        | ok u =>
          rw [hu] at h
          dsimp only at h
          have hreq : 1 ≤ req := by
            cases req with
            | succ k => omega
            | zero =>
              exfalso
              have hs : slice buf off (off + 0) = [] := by
                apply List.eq_nil_of_length_eq_zero; simp; omega
              rw [hs] at hu
              have := PCMFrame_unpack_nil proto ex hp
              rw [hu] at this
              exact this rfl
          cases hr : decFrames proto ex req buf fuel (off + req + (if req % 2 != 0 then 1 else 0)) with
          | error e => rw [hr] at h; simp at h
          | ok gs =>
            rw [hr] at h
            simp only [Except.ok.injEq] at h
            subst h
            have := ih _ gs hr
            simp only [List.length_cons]
            omega
    · simp at h; subst h; simp

theorem fresh_ipts_ne_none (src : Option Nat) (a : Nat) : (Frame.fresh src false a).ipts ≠ .none := by
  simp only [Frame.fresh, Bool.false_eq_true, if_false]
  split <;> simp

theorem detect_nofuel (p : Packet) (buf : Bytes) (hl : Nat) : detect p buf hl ≠ .error .fuel := by
  simp only [detect]
  repeat' split
  all_goals first
    | (simp; done)
    | (rename_i e h; have := structPack_error _ _ _ h; subst this; simp)

/-- `PCMDataPacket.unpack` terminates on every buffer, in throughput and packed mode, with or without
    a size hint or sync word -/
theorem PCM_unpack_total (t : Packet) (buf : Bytes) (ex : Bool) : (Packet.unpack t buf ex).2 ≠ .error .fuel := by
  simp only [Packet.unpack]
  cases hc : structUnpackFrom PCM_unpack_fmt0 buf 0 with
  | error e => have := structUnpackFrom_error _ _ _ _ hc; subst this; simp
  | ok v =>
    match v with
    | [csw] =>
      simp only
      split
      · have := PCMFrame_unpack_total (Frame.fresh (some DEFAULT_IPTS_SOURCE) true (csw / MODE_ALIGNMENT % 2)) (buf.drop 4) false
        split
        · simp
        · rename_i e he; simp only [ne_eq, Except.error.injEq]; intro h; subst h; rw [he] at this; exact this rfl
      · cases ha : t.assigned with
        | some n =>
          simp only
          have := decFrames_fuel_sufficient (Frame.fresh t.ipts_source false (csw / MODE_ALIGNMENT % 2)) ex
            (((n : Int) + TS_LEN + (if csw / MODE_ALIGNMENT % 2 = ALIGN_16b then DATA_HEADER_LEN_16 else DATA_HEADER_LEN_32 : Nat)).toNat)
            buf (fresh_ipts_ne_none _ _) (buf.length + 1) 4 (by omega)
          split
          · simp
          · rename_i e he; simp only [ne_eq, Except.error.injEq]; intro h; subst h; exact this he
        | none =>
          simp only
          have hd := detect_nofuel t buf (if csw / MODE_ALIGNMENT % 2 = ALIGN_16b then DATA_HEADER_LEN_16 else DATA_HEADER_LEN_32)
          cases hdet : detect t buf (if csw / MODE_ALIGNMENT % 2 = ALIGN_16b then DATA_HEADER_LEN_16 else DATA_HEADER_LEN_32) with
          | error e => simp only [ne_eq, Except.error.injEq]; intro h; subst h; exact hd hdet
          | ok d =>
            simp only
            have := decFrames_fuel_sufficient (Frame.fresh t.ipts_source false (csw / MODE_ALIGNMENT % 2)) ex
              ((d + TS_LEN + (if csw / MODE_ALIGNMENT % 2 = ALIGN_16b then DATA_HEADER_LEN_16 else DATA_HEADER_LEN_32 : Nat)).toNat)
              buf (fresh_ipts_ne_none _ _) (buf.length + 1) 4 (by omega)
            split
            · simp
            · rename_i e he; simp only [ne_eq, Except.error.injEq]; intro h; subst h; exact this he
    | [] => simp
    | _ :: _ :: _ => simp

/-! ### review additions (rev1-C08): the progress bound "PCM ≥ 10 or error" of DESIGN §5 stated, a packet-level
    work bound, joint witnesses -/

/-- [review] a packed-mode frame object (time stamp, not throughput) only decodes a slice that holds the 8-byte
    time stamp and the 2- or 4-byte data header: at least 10 bytes -/
theorem PCMFrame_unpack_ok_len (t : Frame) (buf : Bytes) (ex : Bool) (hi : t.ipts ≠ .none) (ht : t.throughput = false)
    (h : (Frame.unpack t buf ex).2 = .ok ()) : 10 ≤ buf.length := by
  simp only [Frame.unpack, hi, if_false, ht, Bool.false_eq_true] at h
  cases h1 : t.ipts.unpack (buf.take 8) with
  | error e => simp [h1] at h
  | ok i =>
    have h8 : 8 ≤ buf.length := by
      cases hti : t.ipts with
      | none => exact absurd hti hi
      | rtc c =>
        rw [hti] at h1
        simp only [Ipts.unpack] at h1
        cases hs : structUnpack Acra.Gen.Ch11PayTs.RTC_unpack_fmt0 (buf.take 8) with
        | error e => simp [hs] at h1
        | ok v =>
          have := structUnpack_ok_length _ _ _ hs
          simp [Acra.Gen.Ch11PayTs.RTC_unpack_fmt0, Fmt.size, codesSize, Code.size] at this
          omega
      | ptp s n =>
        rw [hti] at h1
        simp only [Ipts.unpack] at h1
        cases hs : structUnpack Acra.Gen.Ch11PayTs.PTP_unpack_fmt0 (buf.take 8) with
        | error e => simp [hs] at h1
        | ok v =>
          have := structUnpack_ok_length _ _ _ hs
          simp [Acra.Gen.Ch11PayTs.PTP_unpack_fmt0, Fmt.size, codesSize, Code.size] at this
          omega
    simp only [h1] at h
    cases h2 : hdrFmt t.alignment with
    | error e => simp [h2] at h
    | ok fh =>
      obtain ⟨fmt, hl⟩ := fh
      simp only [h2] at h
      cases h3 : structUnpackFrom fmt buf 8 with
      | error e => simp [h3] at h
      | ok v =>
        have hlen := structUnpackFrom_ok_length _ _ _ _ h3
        simp only [hdrFmt] at h2
        split at h2
        · simp only [Except.ok.injEq, Prod.mk.injEq] at h2
          obtain ⟨rfl, _⟩ := h2
          simp only [DATA_HEADER_FORMAT_16, Fmt.size, codesSize, Code.size] at hlen
          omega
        · split at h2
          · simp only [Except.ok.injEq, Prod.mk.injEq] at h2
            obtain ⟨rfl, _⟩ := h2
            simp only [DATA_HEADER_FORMAT_32, Fmt.size, codesSize, Code.size] at hlen
            omega
          · simp at h2

/-- [review] hence every iteration of the packed-mode loop that yields a frame has `req ≥ 10`, and the frames
    fit side by side in the buffer -/
theorem decFrames_items_stride (proto : Frame) (ex : Bool) (req : Nat) (buf : Bytes) (hp : proto.ipts ≠ .none)
    (ht : proto.throughput = false) (fuel off : Nat) (fs : List Frame)
    (h : decFrames proto ex req buf fuel off = .ok fs) :
    fs.length * 10 ≤ buf.length - off ∧ fs.length * req ≤ buf.length - off := by
  induction fuel generalizing off fs with
  | zero => simp [decFrames] at h
  | succ fuel ih =>
    unfold decFrames at h
    split at h
    · rename_i hle
      cases hu : Frame.unpack proto (slice buf off (off + req)) ex with
      | mk f r =>
        cases r with
        | error e => simp [hu] at h
        | ok u =>
          rw [hu] at h
          dsimp only at h
          have hreq : 10 ≤ req := by
            have := PCMFrame_unpack_ok_len proto (slice buf off (off + req)) ex hp ht (by rw [hu])
            simp only [slice_length] at this
            omega
          cases hr : decFrames proto ex req buf fuel (off + req + (if req % 2 != 0 then 1 else 0)) with
          | error e => rw [hr] at h; simp at h
          | ok gs =>
            rw [hr] at h
            simp only [Except.ok.injEq] at h
            subst h
            have := ih _ gs hr
            simp only [List.length_cons, Nat.succ_mul]
            constructor <;> omega
    · simp at h; subst h; simp

/-- [review] packet-level work bound (missing before: only the inner loop had one): an accepted buffer yields
    one frame in throughput mode, at most `(|buf| − 4)/10` in packed mode -/
theorem PCM_items_le (t : Packet) (buf : Bytes) (ex : Bool) (h : (Packet.unpack t buf ex).2 = .ok ()) :
    (Packet.unpack t buf ex).1.minor_frames.length * 10 ≤ buf.length + 6 ∧
    (Packet.unpack t buf ex).1.minor_frames.length ≤ buf.length := by
  revert h
  simp only [Packet.unpack]
  cases hc : structUnpackFrom PCM_unpack_fmt0 buf 0 with
  | error e => simp
  | ok v =>
    have h4 := structUnpackFrom_ok_length _ _ _ _ hc
    simp only [PCM_unpack_fmt0, Fmt.size, codesSize, Code.size] at h4
    match v with
    | [csw] =>
      simp only
      split
      · split
        · intro _; simp only [List.length_singleton]; omega
        · simp
      · cases ha : t.assigned with
        | some n =>
          simp only
          split
          · rename_i fs hfs
            intro _
            have := decFrames_items_stride _ _ _ _ (fresh_ipts_ne_none _ _) rfl _ _ _ hfs
            simp only; omega
          · simp
        | none =>
          simp only
          cases hdet : detect t buf (if csw / MODE_ALIGNMENT % 2 = ALIGN_16b then DATA_HEADER_LEN_16 else DATA_HEADER_LEN_32) with
          | error e => simp
          | ok d =>
            simp only
            split
            · rename_i fs hfs
              intro _
              have := decFrames_items_stride _ _ _ _ (fresh_ipts_ne_none _ _) rfl _ _ _ hfs
              simp only; omega
            · simp
    | [] => simp
    | _ :: _ :: _ => simp

/-- [review] witness: packed mode, 32-bit alignment, PTP stamps, two minor frames of 3 data bytes (+1 fill) -/
def wPCM : Bytes :=
  [0, 0, 32, 0,  8, 0, 0, 0, 7, 0, 0, 0, 255, 255, 255, 255, 1, 2, 3, 0,  10, 0, 0, 0, 9, 0, 0, 0, 5, 0, 0, 0, 4, 5, 6, 0]

example : (Packet.unpack (Packet.fresh (some 1) Option.none (some 3)) wPCM false).2 = .ok () ∧
    (Packet.unpack (Packet.fresh (some 1) Option.none (some 3)) wPCM false).1.minor_frames.map (fun f => (f.ipts, f.hdr, f.data)) =
      [(.ptp 7 8, some 0xFFFFFFFF, [1, 2, 3]), (.ptp 9 10, some 5, [4, 5, 6])] := ⟨by rfl, by rfl⟩
-- joint witness for `decFrames_fuel_sufficient`, `decFrames_items_le`, `decFrames_items_stride`: req = 3 + 8 + 4 = 15
example : (Frame.fresh (some 1) false 1).ipts ≠ .none ∧ (Frame.fresh (some 1) false 1).throughput = false ∧
    wPCM.length - 4 + 1 ≤ 37 ∧
    (decFrames (Frame.fresh (some 1) false 1) false 15 wPCM 37 4).map List.length = .ok 2 :=
  ⟨fresh_ipts_ne_none _ _, rfl, by decide, by rfl⟩
example : (Frame.unpack (Frame.fresh (some 1) false 1) (slice wPCM 4 19) false).2 = .ok () := by rfl
-- `PCMFrame_unpack_nil`: a prototype with a time stamp
example : (Frame.fresh Option.none false 0).ipts ≠ .none := fresh_ipts_ne_none _ _
-- `detect_nofuel` (no hypothesis besides its arguments): size detection from two sync words
example : detect (Packet.fresh (some 1) (some 0x01020300) Option.none)
    [0, 0, 32, 0, 9, 9, 9, 9, 9, 9, 9, 9, 9, 9, 9, 9, 1, 2, 3, 0, 9, 9, 9, 9, 9, 9, 9, 9, 9, 9, 9, 9, 1, 2, 3, 0] 4 = .ok 4 := by rfl
/-! ### review additions (rev1-C08): outcome lists — the element decoders have no loop and no fuel in their models, so
    `≠ .error .fuel` holds by construction; what C08 says about them is which ordinary exceptions can occur -/

theorem PCMFrame_unpack_outcomes (t : Frame) (buf : Bytes) (ex : Bool) :
    (Frame.unpack t buf ex).2 = .ok () ∨ (Frame.unpack t buf ex).2 = .error .struct ∨
    (Frame.unpack t buf ex).2 = .error .attribute ∨ (Frame.unpack t buf ex).2 = .error .key := by
  simp only [Frame.unpack]
  have hi := Ipts_unpack_outcomes t.ipts (buf.take 8)
  cases h1 : (if t.ipts = .none then (.ok Ipts.none : R Ipts) else t.ipts.unpack (buf.take 8)) with
  | error e =>
    split at h1
    · simp at h1
    · rw [h1] at hi
      simp only [reduceCtorEq, exists_false, false_or, Except.error.injEq] at hi ⊢
      rcases hi with h | h <;> simp [h]
  | ok i =>
    simp only
    split
    · simp
    · cases h2 : hdrFmt t.alignment with
      | error e =>
        simp only [hdrFmt] at h2
        repeat' split at h2
        all_goals simp at h2
        subst h2; simp
      | ok fh =>
        obtain ⟨fmt, hl⟩ := fh
        simp only
        repeat' split
        all_goals first
          | (simp; done)
          | (rename_i e h; have := structUnpackFrom_error _ _ _ _ h; subst this; simp)
end Acra.Props.C08
