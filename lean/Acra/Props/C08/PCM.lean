import Acra.Lemmas.Ch11PCM
import Acra.Props.C08.MIL1553
namespace Acra.Props.C08
open Acra.Py Acra.Model.Ch11Pay Acra.Model.Ch11Pay.PCM Acra.Gen.Ch11PCM Acra.Lemmas.Ch11PCM

theorem PCMFrame_unpack_total (t : Frame) (buf : Bytes) (ex : Bool) : (Frame.unpack t buf ex).2 ≠ .error .fuel := by
  simp only [Frame.unpack]
  have hi := Ipts_unpack_nofuel t.ipts (buf.take 8)
  cases h1 : (if t.ipts = .none then (.ok Ipts.none : R Ipts) else t.ipts.unpack (buf.take 8)) with
  | error e =>
    simp only [ne_eq, Except.error.injEq]
    intro he; subst he
    split at h1
    · simp at h1
    · exact hi h1
  | ok i =>
    simp only
    split
    · simp
    · cases h2 : hdrFmt t.alignment with
      | error e =>
        simp only [ne_eq, Except.error.injEq]
        intro he; subst he
        simp only [hdrFmt] at h2
        repeat' split at h2
        all_goals simp at h2
      | ok fh =>
        obtain ⟨fmt, hl⟩ := fh
        simp only
        cases h3 : structUnpackFrom fmt buf 8 with
        | error e => have := structUnpackFrom_error _ _ _ _ h3; subst this; simp
        | ok v =>
          match v with
          | [h] =>
            simp only
            split
            · cases h4 : structUnpackFrom MF_unpack_fmt0 buf (8 + hl) with
              | error e => have := structUnpackFrom_error _ _ _ _ h4; subst this; simp
              | ok w =>
                match w with
                | [a, b, c] => simp
                | [] => simp
                | [_] => simp
                | [_, _] => simp
                | _ :: _ :: _ :: _ :: _ => simp
            · simp
          | [] => simp
          | _ :: _ :: _ => simp

/-- a packed-mode frame object (which always has a time stamp) does not decode the empty slice -/
theorem PCMFrame_unpack_nil (t : Frame) (ex : Bool) (h : t.ipts ≠ .none) : (Frame.unpack t [] ex).2 ≠ .ok () := by
  simp only [Frame.unpack, h, if_false, List.take_nil]
  cases hi : t.ipts with
  | none => exact absurd hi h
  | rtc c => simp [Ipts.unpack, structUnpack, Acra.Gen.Ch11PayTs.RTC_unpack_fmt0, Fmt.size, codesSize, Code.size]
  | ptp s n => simp [Ipts.unpack, structUnpack, Acra.Gen.Ch11PayTs.PTP_unpack_fmt0, Fmt.size, codesSize, Code.size]

/-- the packed-mode loop `while offset + req <= len`: every iteration that decodes a frame advances,
    so fuel len − off + 1 is never exhausted -/
theorem decFrames_fuel_sufficient (proto : Frame) (ex : Bool) (req : Nat) (buf : Bytes) (hp : proto.ipts ≠ .none)
    (fuel off : Nat) (hf : buf.length - off + 1 ≤ fuel) :
    decFrames proto ex req buf fuel off ≠ .error .fuel := by
  induction fuel generalizing off with
  | zero => omega
  | succ fuel ih =>
    unfold decFrames
    split
    · rename_i hle
      cases hu : Frame.unpack proto (slice buf off (off + req)) ex with
      | mk f r =>
        cases r with
        | error e => simp
        | ok u =>
          simp only
          have hreq : 1 ≤ req := by
            cases req with
            | succ k => omega
            | zero =>
              exfalso
              have hs : slice buf off (off + 0) = [] := by
                apply List.eq_nil_of_length_eq_zero; simp; omega
              rw [hs] at hu
              have := PCMFrame_unpack_nil proto ex hp
              rw [hu] at this
              exact this rfl
          have := ih (off + req + (if req % 2 != 0 then 1 else 0)) (by omega)
          cases hr : decFrames proto ex req buf fuel (off + req + (if req % 2 != 0 then 1 else 0)) with
          | ok fs => simp
          | error e => simp only [ne_eq, Except.error.injEq]; intro he; subst he; exact this hr
    · simp

theorem decFrames_items_le (proto : Frame) (ex : Bool) (req : Nat) (buf : Bytes) (hp : proto.ipts ≠ .none)
    (fuel off : Nat) (fs : List Frame) (h : decFrames proto ex req buf fuel off = .ok fs) : fs.length ≤ buf.length - off := by
  induction fuel generalizing off fs with
  | zero => simp [decFrames] at h
  | succ fuel ih =>
    unfold decFrames at h
    split at h
    · rename_i hle
      cases hu : Frame.unpack proto (slice buf off (off + req)) ex with
      | mk f r =>
        cases r with
        | error e => simp [hu] at h
        | ok u =>
          rw [hu] at h
          dsimp only at h
          have hreq : 1 ≤ req := by
            cases req with
            | succ k => omega
            | zero =>
              exfalso
              have hs : slice buf off (off + 0) = [] := by
                apply List.eq_nil_of_length_eq_zero; simp; omega
              rw [hs] at hu
              have := PCMFrame_unpack_nil proto ex hp
              rw [hu] at this
              exact this rfl
          cases hr : decFrames proto ex req buf fuel (off + req + (if req % 2 != 0 then 1 else 0)) with
          | error e => rw [hr] at h; simp at h
          | ok gs =>
            rw [hr] at h
            simp only [Except.ok.injEq] at h
            subst h
            have := ih _ gs hr
            simp only [List.length_cons]
            omega
    · simp at h; subst h; simp

theorem fresh_ipts_ne_none (src : Option Nat) (a : Nat) : (Frame.fresh src false a).ipts ≠ .none := by
  simp only [Frame.fresh, Bool.false_eq_true, if_false]
  split <;> simp

theorem detect_nofuel (p : Packet) (buf : Bytes) (hl : Nat) : detect p buf hl ≠ .error .fuel := by
  simp only [detect]
  repeat' split
  all_goals first
    | (simp; done)
    | (rename_i e h; have := structPack_error _ _ _ h; subst this; simp)

/-- `PCMDataPacket.unpack` terminates on every buffer, in throughput and packed mode, with or without
    a size hint or sync word -/
theorem PCM_unpack_total (t : Packet) (buf : Bytes) (ex : Bool) : (Packet.unpack t buf ex).2 ≠ .error .fuel := by
  simp only [Packet.unpack]
  cases hc : structUnpackFrom PCM_unpack_fmt0 buf 0 with
  | error e => have := structUnpackFrom_error _ _ _ _ hc; subst this; simp
  | ok v =>
    match v with
    | [csw] =>
      simp only
      split
      · have := PCMFrame_unpack_total (Frame.fresh (some DEFAULT_IPTS_SOURCE) true (csw / MODE_ALIGNMENT % 2)) (buf.drop 4) false
        split
        · simp
        · rename_i e he; simp only [ne_eq, Except.error.injEq]; intro h; subst h; rw [he] at this; exact this rfl
      · cases ha : t.assigned with
        | some n =>
          simp only
          have := decFrames_fuel_sufficient (Frame.fresh t.ipts_source false (csw / MODE_ALIGNMENT % 2)) ex
            (((n : Int) + TS_LEN + (if csw / MODE_ALIGNMENT % 2 = ALIGN_16b then DATA_HEADER_LEN_16 else DATA_HEADER_LEN_32 : Nat)).toNat)
            buf (fresh_ipts_ne_none _ _) (buf.length + 1) 4 (by omega)
          split
          · simp
          · rename_i e he; simp only [ne_eq, Except.error.injEq]; intro h; subst h; exact this he
        | none =>
          simp only
          have hd := detect_nofuel t buf (if csw / MODE_ALIGNMENT % 2 = ALIGN_16b then DATA_HEADER_LEN_16 else DATA_HEADER_LEN_32)
          cases hdet : detect t buf (if csw / MODE_ALIGNMENT % 2 = ALIGN_16b then DATA_HEADER_LEN_16 else DATA_HEADER_LEN_32) with
          | error e => simp only [ne_eq, Except.error.injEq]; intro h; subst h; exact hd hdet
          | ok d =>
            simp only
            have := decFrames_fuel_sufficient (Frame.fresh t.ipts_source false (csw / MODE_ALIGNMENT % 2)) ex
              ((d + TS_LEN + (if csw / MODE_ALIGNMENT % 2 = ALIGN_16b then DATA_HEADER_LEN_16 else DATA_HEADER_LEN_32 : Nat)).toNat)
              buf (fresh_ipts_ne_none _ _) (buf.length + 1) 4 (by omega)
            split
            · simp
            · rename_i e he; simp only [ne_eq, Except.error.injEq]; intro h; subst h; exact this he
    | [] => simp
    | _ :: _ :: _ => simp

/-! ### review additions (rev1-C08): the progress bound "PCM ≥ 10 or error" of DESIGN §5 stated, a packet-level
    work bound, joint witnesses -/

/-- [review] a packed-mode frame object (time stamp, not throughput) only decodes a slice that holds the 8-byte
    time stamp and the 2- or 4-byte data header: at least 10 bytes -/
theorem PCMFrame_unpack_ok_len (t : Frame) (buf : Bytes) (ex : Bool) (hi : t.ipts ≠ .none) (ht : t.throughput = false)
    (h : (Frame.unpack t buf ex).2 = .ok ()) : 10 ≤ buf.length := by
  simp only [Frame.unpack, hi, if_false, ht, Bool.false_eq_true] at h
  cases h1 : t.ipts.unpack (buf.take 8) with
  | error e => simp [h1] at h
  | ok i =>
    have h8 : 8 ≤ buf.length := by
      cases hti : t.ipts with
      | none => exact absurd hti hi
      | rtc c =>
        rw [hti] at h1
        simp only [Ipts.unpack] at h1
        cases hs : structUnpack Acra.Gen.Ch11PayTs.RTC_unpack_fmt0 (buf.take 8) with
        | error e => simp [hs] at h1
        | ok v =>
          have := structUnpack_ok_length _ _ _ hs
          simp [Acra.Gen.Ch11PayTs.RTC_unpack_fmt0, Fmt.size, codesSize, Code.size] at this
          omega
      | ptp s n =>
        rw [hti] at h1
        simp only [Ipts.unpack] at h1
        cases hs : structUnpack Acra.Gen.Ch11PayTs.PTP_unpack_fmt0 (buf.take 8) with
        | error e => simp [hs] at h1
        | ok v =>
          have := structUnpack_ok_length _ _ _ hs
          simp [Acra.Gen.Ch11PayTs.PTP_unpack_fmt0, Fmt.size, codesSize, Code.size] at this
          omega
    simp only [h1] at h
    cases h2 : hdrFmt t.alignment with
    | error e => simp [h2] at h
    | ok fh =>
      obtain ⟨fmt, hl⟩ := fh
      simp only [h2] at h
      cases h3 : structUnpackFrom fmt buf 8 with
      | error e => simp [h3] at h
      | ok v =>
        have hlen := structUnpackFrom_ok_length _ _ _ _ h3
        simp only [hdrFmt] at h2
        split at h2
        · simp only [Except.ok.injEq, Prod.mk.injEq] at h2
          obtain ⟨rfl, _⟩ := h2
          simp only [DATA_HEADER_FORMAT_16, Fmt.size, codesSize, Code.size] at hlen
          omega
        · split at h2
          · simp only [Except.ok.injEq, Prod.mk.injEq] at h2
            obtain ⟨rfl, _⟩ := h2
            simp only [DATA_HEADER_FORMAT_32, Fmt.size, codesSize, Code.size] at hlen
            omega
          · simp at h2

/-- [review] hence every iteration of the packed-mode loop that yields a frame has `req ≥ 10`, and the frames
    fit side by side in the buffer -/
theorem decFrames_items_stride (proto : Frame) (ex : Bool) (req : Nat) (buf : Bytes) (hp : proto.ipts ≠ .none)
    (ht : proto.throughput = false) (fuel off : Nat) (fs : List Frame)
    (h : decFrames proto ex req buf fuel off = .ok fs) :
    fs.length * 10 ≤ buf.length - off ∧ fs.length * req ≤ buf.length - off := by
  induction fuel generalizing off fs with
  | zero => simp [decFrames] at h
  | succ fuel ih =>
    unfold decFrames at h
    split at h
    · rename_i hle
      cases hu : Frame.unpack proto (slice buf off (off + req)) ex with
      | mk f r =>
        cases r with
        | error e => simp [hu] at h
        | ok u =>
          rw [hu] at h
          dsimp only at h
          have hreq : 10 ≤ req := by
            have := PCMFrame_unpack_ok_len proto (slice buf off (off + req)) ex hp ht (by rw [hu])
            simp only [slice_length] at this
            omega
          cases hr : decFrames proto ex req buf fuel (off + req + (if req % 2 != 0 then 1 else 0)) with
          | error e => rw [hr] at h; simp at h
          | ok gs =>
            rw [hr] at h
            simp only [Except.ok.injEq] at h
            subst h
            have := ih _ gs hr
            simp only [List.length_cons, Nat.succ_mul]
            constructor <;> omega
    · simp at h; subst h; simp

/-- [review] packet-level work bound (missing before: only the inner loop had one): an accepted buffer yields
    one frame in throughput mode, at most `(|buf| − 4)/10` in packed mode -/
theorem PCM_items_le (t : Packet) (buf : Bytes) (ex : Bool) (h : (Packet.unpack t buf ex).2 = .ok ()) :
    (Packet.unpack t buf ex).1.minor_frames.length * 10 ≤ buf.length + 6 ∧
    (Packet.unpack t buf ex).1.minor_frames.length ≤ buf.length := by
  revert h
  simp only [Packet.unpack]
  cases hc : structUnpackFrom PCM_unpack_fmt0 buf 0 with
  | error e => simp
  | ok v =>
    have h4 := structUnpackFrom_ok_length _ _ _ _ hc
    simp only [PCM_unpack_fmt0, Fmt.size, codesSize, Code.size] at h4
    match v with
    | [csw] =>
      simp only
      split
      · split
        · intro _; simp only [List.length_singleton]; omega
        · simp
      · cases ha : t.assigned with
        | some n =>
          simp only
          split
          · rename_i fs hfs
            intro _
            have := decFrames_items_stride _ _ _ _ (fresh_ipts_ne_none _ _) rfl _ _ _ hfs
            simp only; omega
          · simp
        | none =>
          simp only
          cases hdet : detect t buf (if csw / MODE_ALIGNMENT % 2 = ALIGN_16b then DATA_HEADER_LEN_16 else DATA_HEADER_LEN_32) with
          | error e => simp
          | ok d =>
            simp only
            split
            · rename_i fs hfs
              intro _
              have := decFrames_items_stride _ _ _ _ (fresh_ipts_ne_none _ _) rfl _ _ _ hfs
              simp only; omega
            · simp
    | [] => simp
    | _ :: _ :: _ => simp

/-- [review] witness: packed mode, 32-bit alignment, PTP stamps, two minor frames of 3 data bytes (+1 fill) -/
def wPCM : Bytes :=
  [0, 0, 32, 0,  8, 0, 0, 0, 7, 0, 0, 0, 255, 255, 255, 255, 1, 2, 3, 0,  10, 0, 0, 0, 9, 0, 0, 0, 5, 0, 0, 0, 4, 5, 6, 0]

example : (Packet.unpack (Packet.fresh (some 1) Option.none (some 3)) wPCM false).2 = .ok () ∧
    (Packet.unpack (Packet.fresh (some 1) Option.none (some 3)) wPCM false).1.minor_frames.map (fun f => (f.ipts, f.hdr, f.data)) =
      [(.ptp 7 8, some 0xFFFFFFFF, [1, 2, 3]), (.ptp 9 10, some 5, [4, 5, 6])] := ⟨by rfl, by rfl⟩
-- joint witness for `decFrames_fuel_sufficient`, `decFrames_items_le`, `decFrames_items_stride`: req = 3 + 8 + 4 = 15
example : (Frame.fresh (some 1) false 1).ipts ≠ .none ∧ (Frame.fresh (some 1) false 1).throughput = false ∧
    wPCM.length - 4 + 1 ≤ 37 ∧
    (decFrames (Frame.fresh (some 1) false 1) false 15 wPCM 37 4).map List.length = .ok 2 :=
  ⟨fresh_ipts_ne_none _ _, rfl, by decide, by rfl⟩
example : (Frame.unpack (Frame.fresh (some 1) false 1) (slice wPCM 4 19) false).2 = .ok () := by rfl
-- `PCMFrame_unpack_nil`: a prototype with a time stamp
example : (Frame.fresh Option.none false 0).ipts ≠ .none := fresh_ipts_ne_none _ _
-- `detect_nofuel` (no hypothesis besides its arguments): size detection from two sync words
example : detect (Packet.fresh (some 1) (some 0x01020300) Option.none)
    [0, 0, 32, 0, 9, 9, 9, 9, 9, 9, 9, 9, 9, 9, 9, 9, 1, 2, 3, 0, 9, 9, 9, 9, 9, 9, 9, 9, 9, 9, 9, 9, 1, 2, 3, 0] 4 = .ok 4 := by rfl
/-! ### review additions (rev1-C08): outcome lists — the element decoders have no loop and no fuel in their models, so
    `≠ .error .fuel` holds by construction; what C08 says about them is which ordinary exceptions can occur -/

theorem PCMFrame_unpack_outcomes (t : Frame) (buf : Bytes) (ex : Bool) :
    (Frame.unpack t buf ex).2 = .ok () ∨ (Frame.unpack t buf ex).2 = .error .struct ∨
    (Frame.unpack t buf ex).2 = .error .attribute ∨ (Frame.unpack t buf ex).2 = .error .key := by
  simp only [Frame.unpack]
  have hi := Ipts_unpack_outcomes t.ipts (buf.take 8)
  cases h1 : (if t.ipts = .none then (.ok Ipts.none : R Ipts) else t.ipts.unpack (buf.take 8)) with
  | error e =>
    split at h1
    · simp at h1
    · rw [h1] at hi
      simp only [reduceCtorEq, exists_false, false_or, Except.error.injEq] at hi ⊢
      rcases hi with h | h <;> simp [h]
  | ok i =>
    simp only
    split
    · simp
    · cases h2 : hdrFmt t.alignment with
      | error e =>
        simp only [hdrFmt] at h2
        repeat' split at h2
        all_goals simp at h2
        subst h2; simp
      | ok fh =>
        obtain ⟨fmt, hl⟩ := fh
        simp only
        repeat' split
        all_goals first
          | (simp; done)
          | (rename_i e h; have := structUnpackFrom_error _ _ _ _ h; subst this; simp)
/-! ### packet-level outcome list (review B4): `PCMDataPacket.unpack` returns, or raises `struct.error` (channel-specific
    word incomplete; sync-word option that does not fit 32 bits) or a bare `Exception` (packed mode: the frame slice is
    too short for the time stamp + data header [+ sync/SFID words]); each kind characterised on the bytes -/

/-- bytes a packed-mode frame decoder needs: time stamp (8), data header (2 for 16-bit, 4 for 32-bit alignment), and with
    `extract_sync_sfid` three more half words -/
def pcmNeed (a : Nat) (ex : Bool) : Nat := 8 + (if a = 0 then 2 else 4) + (if ex then 6 else 0)

theorem Ipts_unpack_short (t : Ipts) (hn : t ≠ .none) (b : Bytes) (h : b.length ≠ 8) : Ipts.unpack t b = .error .struct := by
  cases t with
  | none => exact absurd rfl hn
  | rtc c => simp [Ipts.unpack, structUnpack, h, Acra.Gen.Ch11PayTs.RTC_unpack_fmt0, Fmt.size, codesSize, Code.size]
  | ptp a c => simp [Ipts.unpack, structUnpack, h, Acra.Gen.Ch11PayTs.PTP_unpack_fmt0, Fmt.size, codesSize, Code.size]

/-- whether a packed-mode frame object decodes a slice depends on the slice's LENGTH only; the exception otherwise is
    `struct.error` -/
theorem PCMFrame_packed_unpack_iff (f : Frame) (a : Nat) (ha : a < 2) (hn : f.ipts ≠ .none) (ht : f.throughput = false)
    (hal : f.alignment = a) (b : Bytes) (ex : Bool) :
    ((Frame.unpack f b ex).2 = .ok () ↔ pcmNeed a ex ≤ b.length) ∧
    ((Frame.unpack f b ex).2 = .ok () ∨ (Frame.unpack f b ex).2 = .error .struct) := by
  by_cases h8 : 8 ≤ b.length
  · obtain ⟨i, hi⟩ := Ipts_unpack_ok8 f.ipts hn (b.take 8) (by simp; omega)
    have hfmt : ∃ fmt hl c, hdrFmt a = .ok (fmt, hl) ∧ fmt.size = hl ∧ hl = (if a = 0 then 2 else 4) ∧ fmt.codes = [c] := by
      have : a = 0 ∨ a = 1 := by omega
      rcases this with rfl | rfl
      · exact ⟨DATA_HEADER_FORMAT_16, 2, .u16, rfl, rfl, rfl, rfl⟩
      · exact ⟨DATA_HEADER_FORMAT_32, 4, .u32, rfl, rfl, rfl, rfl⟩
    obtain ⟨fmt, hl, c, hfmt, hsize, hlv, hcodes⟩ := hfmt
    simp only [Frame.unpack, hn, if_false, hi, ht, Bool.false_eq_true, hal, hfmt, pcmNeed, ← hlv]
    by_cases hh : 8 + hl ≤ b.length
    · have h1 : structUnpackFrom fmt b 8 = .ok [decInt fmt.big ((b.drop 8).take c.size)] := by
        simp only [structUnpackFrom, hsize, hh, if_true, hcodes, unpackCodes]
      simp only [h1]
      cases ex with
      | false => simp only [Bool.false_eq_true, if_false, true_iff, Nat.add_zero, true_or, and_true]; exact hh
      | true =>
        simp only [if_true]
        by_cases h6 : 8 + hl + 6 ≤ b.length
        · have h2 : ∃ x y z, structUnpackFrom MF_unpack_fmt0 b (8 + hl) = .ok [x, y, z] := by
            simp only [structUnpackFrom, MF_unpack_fmt0, Fmt.size, codesSize, Code.size, unpackCodes]
            have : 8 + hl + (2 + (2 + (2 + 0))) ≤ b.length := by omega
            simp only [this, if_true]
            exact ⟨_, _, _, rfl⟩
          obtain ⟨x, y, z, h2⟩ := h2
          simp only [h2, true_iff, true_or, and_true]; exact h6
        · have h2 : structUnpackFrom MF_unpack_fmt0 b (8 + hl) = .error .struct := by
            simp only [structUnpackFrom, MF_unpack_fmt0, Fmt.size, codesSize, Code.size]
            have : ¬ 8 + hl + (2 + (2 + (2 + 0))) ≤ b.length := by omega
            simp only [this, if_false]
          simp only [h2, reduceCtorEq, false_iff, false_or, and_true]; exact h6
    · have h1 : structUnpackFrom fmt b 8 = .error .struct := by
        simp only [structUnpackFrom, hsize, hh, if_false]
      simp only [h1, reduceCtorEq, false_iff, false_or, and_true]
      split <;> omega
  · have := Ipts_unpack_short f.ipts hn (b.take 8) (by simp; omega)
    simp only [Frame.unpack, hn, if_false, this, reduceCtorEq, false_iff, false_or, and_true, pcmNeed]
    split <;> split <;> omega

/-- the packed-mode loop raises — always a bare `Exception` — exactly when its first slice exists and is too short
    (all slices have the same length `req`, so the first one decides) -/
theorem decFrames_error_iff (f : Frame) (a : Nat) (ha : a < 2) (hn : f.ipts ≠ .none) (ht : f.throughput = false)
    (hal : f.alignment = a) (ex : Bool) (req : Nat) (buf : Bytes) (fuel off : Nat)
    (hf : buf.length - off + 1 ≤ fuel) (e : Err) :
    decFrames f ex req buf fuel off = .error e ↔ e = .generic ∧ off + req ≤ buf.length ∧ req < pcmNeed a ex := by
  induction fuel generalizing off with
  | zero => omega
  | succ fuel ih =>
    unfold decFrames
    by_cases hle : off + req ≤ buf.length
    · rw [if_pos hle]
      have hsl : (slice buf off (off + req)).length = req := by simp only [slice_length]; omega
      have hiff := (PCMFrame_packed_unpack_iff f a ha hn ht hal (slice buf off (off + req)) ex).1
      rw [hsl] at hiff
      cases hu : Frame.unpack f (slice buf off (off + req)) ex with
      | mk g r =>
        rw [hu] at hiff
        cases r with
        | error e' =>
          have : ¬ pcmNeed a ex ≤ req := fun h => by have := hiff.2 h; cases this
          simp only [Except.error.injEq]
          constructor
          · rintro rfl; exact ⟨rfl, hle, by omega⟩
          · rintro ⟨rfl, _⟩; rfl
        | ok u =>
          cases u
          have hreq : pcmNeed a ex ≤ req := hiff.1 rfl
          have hpos : 10 ≤ pcmNeed a ex := by simp only [pcmNeed]; split <;> split <;> omega
          have := ih (off + req + (if req % 2 != 0 then 1 else 0)) (by omega)
          simp only
          cases hr : decFrames f ex req buf fuel (off + req + (if req % 2 != 0 then 1 else 0)) with
          | ok fs =>
            simp only [reduceCtorEq, false_iff]
            rintro ⟨_, _, h⟩; omega
          | error e' =>
            rw [hr] at this
            simp only
            constructor
            · intro h
              obtain ⟨_, _, h'⟩ := this.1 h
              omega
            · rintro ⟨_, _, h⟩; omega
    · rw [if_neg hle]
      simp only [reduceCtorEq, false_iff]
      rintro ⟨_, h, _⟩; exact hle h

/-- size detection fails only when the sync-word option does not fit the 32-bit pattern it is packed into -/
theorem detect_error_iff (p : Packet) (buf : Bytes) (hl : Nat) (e : Err) :
    detect p buf hl = .error e ↔ e = .struct ∧ ∃ sw, p.syncword = some sw ∧ 4294967296 ≤ sw := by
  simp only [detect]
  cases hs : p.syncword with
  | none => simp
  | some sw =>
    simp only [Option.some.injEq, exists_eq_left']
    by_cases hlt : sw < 4294967296
    · have : ∃ pat, structPack PCM_unpack_fmt1 [sw] = .ok pat :=
        (structPack_ok_iff _ _).2 (by simp [PCM_unpack_fmt1, Fits, Code.bound, hlt])
      obtain ⟨pat, hp⟩ := this
      simp only [hp]
      constructor
      · intro h; split at h <;> cases h
      · rintro ⟨_, h⟩; omega
    · have : structPack PCM_unpack_fmt1 [sw] = .error .struct := by
        simp [structPack, PCM_unpack_fmt1, packCodes, Code.bound, hlt]
      simp only [this, Except.error.injEq]
      constructor
      · rintro rfl; exact ⟨rfl, by omega⟩
      · rintro ⟨rfl, _⟩; rfl

/-- the channel-specific word (little-endian 32 bits) of a buffer holding it -/
def pcmCsw (buf : Bytes) : Nat := decInt false (buf.take 4)
/-- the alignment bit (bit 21) and throughput bit (bit 20) of the channel-specific word -/
def pcmAlign (buf : Bytes) : Nat := (pcmCsw buf / 2097152) % 2
def pcmThroughput (buf : Bytes) : Prop := (pcmCsw buf / 1048576) % 2 = 1
/-- the slice length of the packed-mode loop for a frame size `size` (assigned or detected; may be negative when detected) -/
def pcmReq (buf : Bytes) (size : Int) : Nat :=
  (size + ((8 : Nat) : Int) + ((if pcmAlign buf = 0 then 2 else 4 : Nat) : Int)).toNat

instance (buf : Bytes) : Decidable (pcmThroughput buf) := by unfold pcmThroughput; exact inferInstance

/-- exactly which exception, and when.  Throughput mode never fails once the 4-byte word is there. -/
theorem PCM_unpack_error_iff (t : Packet) (buf : Bytes) (ex : Bool) (e : Err) :
    (Packet.unpack t buf ex).2 = .error e ↔
      (buf.length < 4 ∧ e = .struct) ∨
      (4 ≤ buf.length ∧ ¬ pcmThroughput buf ∧
        ((t.assigned = Option.none ∧ e = .struct ∧ ∃ sw, t.syncword = some sw ∧ 4294967296 ≤ sw) ∨
         (∃ size : Int, (t.assigned = some size.toNat ∧ 0 ≤ size ∨
              t.assigned = Option.none ∧ detect t buf (if pcmAlign buf = 0 then 2 else 4) = .ok size) ∧
            e = .generic ∧ 4 + pcmReq buf size ≤ buf.length ∧ pcmReq buf size < pcmNeed (pcmAlign buf) ex))) := by
  simp only [Packet.unpack]
  by_cases h4 : 4 ≤ buf.length
  · have hc : structUnpackFrom PCM_unpack_fmt0 buf 0 = .ok [pcmCsw buf] := by
      simp only [structUnpackFrom, PCM_unpack_fmt0, Fmt.size, codesSize, Code.size, unpackCodes, pcmCsw, List.drop_zero]
      have : 0 + (4 + 0) ≤ buf.length := by omega
      simp only [this, if_true]
    simp only [hc]
    by_cases hthr : pcmThroughput buf
    · have hthr' : (pcmCsw buf / MODE_THROUGHPUT) % 2 = 1 := hthr
      simp only [hthr', decide_true, if_true]
      have hfr : (Frame.unpack (Frame.fresh (some DEFAULT_IPTS_SOURCE) true (pcmCsw buf / MODE_ALIGNMENT % 2)) (buf.drop 4) false).2 = .ok () := by
        simp [Frame.unpack, Frame.fresh]
      cases hu : Frame.unpack (Frame.fresh (some DEFAULT_IPTS_SOURCE) true (pcmCsw buf / MODE_ALIGNMENT % 2)) (buf.drop 4) false with
      | mk g r =>
        rw [hu] at hfr
        simp only at hfr
        subst hfr
        simp only [reduceCtorEq, false_iff]
        rintro (⟨h, _⟩ | ⟨_, h, _⟩)
        · omega
        · exact h hthr
    · have hthr' : ¬ (pcmCsw buf / MODE_THROUGHPUT) % 2 = 1 := hthr
      simp only [hthr', decide_false, Bool.false_eq_true, if_false]
      have ha2 : pcmAlign buf < 2 := by simp only [pcmAlign]; omega
      have hframe := fun (req : Nat) => decFrames_error_iff (Frame.fresh t.ipts_source false (pcmAlign buf)) (pcmAlign buf) ha2
        (fresh_ipts_ne_none _ _) rfl rfl ex req buf (buf.length + 1) 4 (by omega) e
      cases hass : t.assigned with
      | some n =>
        simp only
        split
        · rename_i fs heq
          simp only [reduceCtorEq, false_iff]
          rintro (⟨h, _⟩ | ⟨_, _, ⟨h, _⟩ | ⟨size, hs, he, h1, h2⟩⟩)
          · omega
          · cases h
          · rcases hs with ⟨hs, hpos⟩ | ⟨hs, _⟩
            · simp only [Option.some.injEq] at hs
              have hsz : (n : Int) = size := by omega
              subst hsz
              have := (hframe _).2 ⟨he, h1, h2⟩
              exact absurd (heq.symm.trans this) (by simp)
            · cases hs
        · rename_i e' heq
          simp only [Except.error.injEq]
          constructor
          · rintro rfl
            obtain ⟨he, h1, h2⟩ := (hframe (pcmReq buf n)).1 heq
            exact Or.inr ⟨h4, hthr, Or.inr ⟨n, Or.inl ⟨by simp, by omega⟩, he, h1, h2⟩⟩
          · rintro (⟨h, _⟩ | ⟨_, _, ⟨h, _⟩ | ⟨size, hs, he, h1, h2⟩⟩)
            · omega
            · cases h
            · rcases hs with ⟨hs, hpos⟩ | ⟨hs, _⟩
              · simp only [Option.some.injEq] at hs
                have hsz : (n : Int) = size := by omega
                subst hsz
                have := (hframe _).2 ⟨he, h1, h2⟩
                have := heq.symm.trans this
                simpa using this
              · cases hs
      | none =>
        simp only
        have hdet := detect_error_iff t buf (if pcmAlign buf = 0 then 2 else 4) e
        cases hdd : detect t buf (if pcmAlign buf = 0 then 2 else 4) with
        | error e' =>
          rw [hdd] at hdet
          have hdd' : detect t buf (if pcmCsw buf / MODE_ALIGNMENT % 2 = ALIGN_16b then DATA_HEADER_LEN_16 else DATA_HEADER_LEN_32) = .error e' := hdd
          simp only [hdd', Except.error.injEq]
          constructor
          · rintro rfl
            obtain ⟨he, hsw⟩ := hdet.1 rfl
            exact Or.inr ⟨h4, hthr, Or.inl ⟨trivial, he, hsw⟩⟩
          · rintro (⟨h, _⟩ | ⟨_, _, ⟨_, he, hsw⟩ | ⟨size, hs, _⟩⟩)
            · omega
            · have := hdet.2 ⟨he, hsw⟩
              simpa using this
            · rcases hs with ⟨hs, _⟩ | ⟨_, hs⟩
              · cases hs
              · cases hs
        | ok d =>
          rw [hdd] at hdet
          have hdd' : detect t buf (if pcmCsw buf / MODE_ALIGNMENT % 2 = ALIGN_16b then DATA_HEADER_LEN_16 else DATA_HEADER_LEN_32) = .ok d := hdd
          simp only [hdd']
          split
          · rename_i fs heq
            simp only [reduceCtorEq, false_iff]
            rintro (⟨h, _⟩ | ⟨_, _, ⟨_, he, hsw⟩ | ⟨size, hs, he, h1, h2⟩⟩)
            · omega
            · exact absurd (hdet.2 ⟨he, hsw⟩) (by simp)
            · rcases hs with ⟨hs, _⟩ | ⟨_, hs⟩
              · cases hs
              · simp only [Except.ok.injEq] at hs
                subst hs
                have := (hframe _).2 ⟨he, h1, h2⟩
                exact absurd (heq.symm.trans this) (by simp)
          · rename_i e' heq
            simp only [Except.error.injEq]
            constructor
            · rintro rfl
              obtain ⟨he, h1, h2⟩ := (hframe (pcmReq buf d)).1 heq
              exact Or.inr ⟨h4, hthr, Or.inr ⟨d, Or.inr ⟨trivial, rfl⟩, he, h1, h2⟩⟩
            · rintro (⟨h, _⟩ | ⟨_, _, ⟨_, he, hsw⟩ | ⟨size, hs, he, h1, h2⟩⟩)
              · omega
              · exact absurd (hdet.2 ⟨he, hsw⟩) (by simp)
              · rcases hs with ⟨hs, _⟩ | ⟨_, hs⟩
                · cases hs
                · simp only [Except.ok.injEq] at hs
                  subst hs
                  have := (hframe _).2 ⟨he, h1, h2⟩
                  have := heq.symm.trans this
                  simpa using this
  · have hc : structUnpackFrom PCM_unpack_fmt0 buf 0 = .error .struct := by
      simp only [structUnpackFrom, PCM_unpack_fmt0, Fmt.size, codesSize, Code.size]
      have : ¬ 0 + (4 + 0) ≤ buf.length := by omega
      simp only [this, if_false]
    simp only [hc, Except.error.injEq]
    constructor
    · rintro rfl; exact Or.inl ⟨by omega, rfl⟩
    · rintro (⟨_, rfl⟩ | ⟨h, _⟩)
      · rfl
      · omega

/-- the outcome list — nothing else, in particular never `fuel`, `AttributeError` or `KeyError` (which the frame
    decoder can raise on its own, `PCMFrame_unpack_outcomes`, but not for the frame objects the packet decoder builds) -/
theorem PCM_unpack_outcomes (t : Packet) (buf : Bytes) (ex : Bool) :
    (Packet.unpack t buf ex).2 = .ok () ∨ (Packet.unpack t buf ex).2 = .error .struct ∨
    (Packet.unpack t buf ex).2 = .error .generic := by
  cases hr : (Packet.unpack t buf ex).2 with
  | ok u => exact Or.inl rfl
  | error e =>
    rcases (PCM_unpack_error_iff t buf ex e).1 hr with ⟨_, rfl⟩ | ⟨_, _, ⟨_, rfl, _⟩ | ⟨_, _, rfl, _⟩⟩
    · exact Or.inr (Or.inl rfl)
    · exact Or.inr (Or.inl rfl)
    · exact Or.inr (Or.inr rfl)

/-- every outcome is reachable: `wPCM` accepted; 3 bytes → `struct.error`; sync-word option 2^32 without a size hint →
    `struct.error`; with `extract_sync_sfid` a frame size of 3 (slice of 15 < 18 bytes) → `Exception`; a throughput-mode
    word followed by anything → accepted -/
example : (Packet.unpack (Packet.fresh (some 1) Option.none (some 3)) wPCM false).2 = .ok () := by rfl
example : (Packet.unpack (Packet.fresh (some 1) Option.none (some 3)) (wPCM.take 3) false).2 = .error .struct := by rfl
example : (Packet.unpack (Packet.fresh (some 1) (some 4294967296) Option.none) wPCM false).2 = .error .struct := by rfl
example : (Packet.unpack (Packet.fresh (some 1) Option.none (some 3)) wPCM true).2 = .error .generic := by rfl
example : (Packet.unpack (Packet.fresh (some 1) Option.none Option.none) [0, 0, 0x10, 0, 1, 2, 3] false).2 = .ok () := by rfl

/-- joint witnesses for the helper lemmas above.  `Ipts_unpack_short`: 7 bytes for an RTC stamp.  `PCMFrame_packed_unpack_iff`:
    the packed-mode prototype of `wPCM` (PTP, 32-bit alignment) satisfies the four hypotheses; a 12-byte slice is accepted,
    an 11-byte one refused, and with `extract_sync_sfid` 18 / 17 bytes.  `decFrames_error_iff`: on `wPCM` with a slice length
    of 11 the loop raises at once.  `detect_error_iff`: both sides on a 2^32 sync word. -/
example : (Ipts.rtc 0 ≠ .none) ∧ ([1, 2, 3, 4, 5, 6, 7] : Bytes).length ≠ 8 ∧
    Ipts.unpack (.rtc 0) [1, 2, 3, 4, 5, 6, 7] = .error .struct := ⟨by decide, by decide, rfl⟩
example : (1 < 2) ∧ (Frame.fresh (some 1) false 1).ipts ≠ .none ∧ (Frame.fresh (some 1) false 1).throughput = false ∧
    (Frame.fresh (some 1) false 1).alignment = 1 ∧ pcmNeed 1 false = 12 ∧ pcmNeed 1 true = 18 ∧ pcmNeed 0 false = 10 ∧
    (Frame.unpack (Frame.fresh (some 1) false 1) (slice wPCM 4 16) false).2 = .ok () ∧
    (Frame.unpack (Frame.fresh (some 1) false 1) (slice wPCM 4 15) false).2 = .error .struct ∧
    (Frame.unpack (Frame.fresh (some 1) false 1) (slice wPCM 4 22) true).2 = .ok () ∧
    (Frame.unpack (Frame.fresh (some 1) false 1) (slice wPCM 4 21) true).2 = .error .struct :=
  ⟨by decide, fresh_ipts_ne_none _ _, rfl, rfl, rfl, rfl, rfl, rfl, rfl, rfl, rfl⟩
example : wPCM.length - 4 + 1 ≤ wPCM.length + 1 ∧
    decFrames (Frame.fresh (some 1) false 1) false 11 wPCM (wPCM.length + 1) 4 = .error .generic ∧
    4 + 11 ≤ wPCM.length ∧ 11 < pcmNeed 1 false := ⟨by decide, rfl, by decide, by decide⟩
example : detect (Packet.fresh (some 1) (some 4294967296) Option.none) wPCM 4 = .error .struct ∧
    (Packet.fresh (some 1) (some 4294967296) Option.none).syncword = some 4294967296 := ⟨rfl, rfl⟩

end Acra.Props.C08
