import Acra.Model.IENA
namespace Acra.Props.C08
open Acra.Py Acra.Model.IENA Acra.Gen.IENA

theorem IENA_unpack_nofuel (t : Base) (buf : Bytes) : (Base.unpack t buf).2 ≠ .error .fuel := by
  simp only [Base.unpack]
  repeat' split
  all_goals first
    | (simp; done)
    | (rename_i e h; have := structUnpackFrom_error _ _ _ _ h; subst this; simp)

theorem IENA_unpack_payload_le (t : Base) (buf : Bytes) : (Base.unpack t buf).1.payload.length ≤ max t.payload.length buf.length := by
  simp only [Base.unpack]
  repeat' split
  all_goals simp [slice]
  all_goals omega

/-- every iteration of the IENA-M parameter loop consumes at least the 6-byte parameter header,
    never reports `fuel`, and fails on an empty remainder -/
theorem decM_progress : Progress decM where
  pos := by
    intro b x n h
    simp only [decM, structUnpack] at h
    repeat' split at h
    all_goals simp_all [IENAM_FORMAT_LEN]
    all_goals omega
  nofuel := by
    intro b h
    simp only [decM] at h
    repeat' split at h
    all_goals first
      | (simp at h; done)
      | (rename_i e he; have := structUnpack_error _ _ _ he; subst this; simp at h)
  empty := by
    intro x n h
    simp [decM, structUnpack, IENAM_FORMAT, IENAM_FORMAT_LEN, Fmt.size, codesSize, Code.size] at h

/-- `IENAM.unpack` terminates on every buffer: the fuel the model gives the loop (payload length + 1)
    is never exhausted; the result is a value or an ordinary exception -/
theorem IENAM_unpack_total (t : MState) (buf : Bytes) : (MState.unpack t buf).2 ≠ .error .fuel := by
  simp only [MState.unpack]
  have hb := IENA_unpack_nofuel t.base buf
  cases hu : Base.unpack t.base buf with
  | mk b' r =>
    rw [hu] at hb
    cases r with
    | error e => simpa using hb
    | ok u =>
      simp only
      have := decOff_fuel_sufficient decM moreRem b'.payload decM_progress (b'.payload.length + 1) 0 (by omega)
      cases hd : decOff decM moreRem b'.payload (b'.payload.length + 1) 0 with
      | ok ps => simp
      | error e => simp; intro he; exact this (he ▸ hd)

/-- work bound: at most one parameter per byte of payload -/
theorem IENAM_items_le (t : MState) (buf : Bytes) (h : (MState.unpack t buf).2 = .ok ()) :
    (MState.unpack t buf).1.parameters.length ≤ (MState.unpack t buf).1.base.payload.length := by
  revert h
  simp only [MState.unpack]
  cases hu : Base.unpack t.base buf with
  | mk b' r =>
    cases r with
    | error e => simp
    | ok u =>
      simp only
      cases hd : decOff decM moreRem b'.payload (b'.payload.length + 1) 0 with
      | error e => simp
      | ok ps =>
        simp only
        intro _
        have h1 := decOff_items_le decM moreRem b'.payload decM_progress _ 0 ps hd
        omega

end Acra.Props.C08
