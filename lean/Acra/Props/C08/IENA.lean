import Acra.Model.IENA
import Acra.Lemmas.ReviewC08Records
namespace Acra.Props.C08
open Acra.Py Acra.Model.IENA Acra.Gen.IENA

theorem IENA_unpack_nofuel (t : Base) (buf : Bytes) : (Base.unpack t buf).2 ≠ .error .fuel := by
  simp only [Base.unpack]
  repeat' split
  all_goals first
    | (simp; done)
    | (rename_i e h; have := structUnpackFrom_error _ _ _ _ h; subst this; simp)

theorem IENA_unpack_payload_le (t : Base) (buf : Bytes) : (Base.unpack t buf).1.payload.length ≤ max t.payload.length buf.length := by
  simp only [Base.unpack]
  repeat' split
  all_goals simp [slice]
  all_goals omega

/-- [review] the ordinary exceptions of the straight-line base decoder, listed: `ValueError` (shorter than
    the header), bare `Exception` (length field ≠ buffer length), `struct.error` -/
theorem IENA_unpack_outcomes (t : Base) (buf : Bytes) :
    (Base.unpack t buf).2 = .ok () ∨ (Base.unpack t buf).2 = .error .value ∨
    (Base.unpack t buf).2 = .error .generic ∨ (Base.unpack t buf).2 = .error .struct := by
  simp only [Base.unpack]
  repeat' split
  all_goals first
    | (simp; done)
    | (rename_i e h; have := structUnpackFrom_error _ _ _ _ h; subst this; simp)

/-- [review] an accepted packet: the payload is `buf[14:-2]`, so `|payload| = |buf| − 16` (this ties the
    payload-relative work bounds below to the input length; `IENA_unpack_payload_le` alone allows the
    prior state's payload) -/
theorem IENA_unpack_ok_payload (t : Base) (buf : Bytes) (h : (Base.unpack t buf).2 = .ok ()) :
    (Base.unpack t buf).1.payload = slice buf 14 (buf.length - 2) ∧
    (Base.unpack t buf).1.payload.length = buf.length - 16 ∧ 14 ≤ buf.length := by
  generalize hr : Base.unpack t buf = r at h ⊢
  simp only [Base.unpack] at hr
  repeat' split at hr
  all_goals subst hr
  all_goals simp_all [slice, IENA_HEADER_LENGTH]
  all_goals omega

/-- [review] witness buffer: IENA-M packet, two parameters (3-byte dataset + pad, empty dataset) -/
def wIENAM : Bytes :=
  [0, 1, 0, 16, 0, 0, 0, 0, 0, 0, 0, 0, 0, 0,  0, 1, 0, 2, 0, 3, 0xAA, 0xBB, 0xCC, 0,  0, 3, 0, 4, 0, 0,  0xDE, 0xAD]

example : (Base.unpack Base.fresh wIENAM).2 = .ok () ∧ (Base.unpack Base.fresh wIENAM).1.payload.length = 16 :=
  ⟨by rfl, by rfl⟩

/-- every iteration of the IENA-M parameter loop consumes at least the 6-byte parameter header,
    never reports `fuel`, and fails on an empty remainder -/
theorem decM_progress : Progress decM where
  pos := by
    intro b x n h
    simp only [decM, structUnpack] at h
    repeat' split at h
    all_goals simp_all [IENAM_FORMAT_LEN]
    all_goals omega
  nofuel := by
    intro b h
    simp only [decM] at h
    repeat' split at h
    all_goals first
      | (simp at h; done)
      | (rename_i e he; have := structUnpack_error _ _ _ he; subst this; simp at h)
  empty := by
    intro x n h
    simp [decM, structUnpack, IENAM_FORMAT, IENAM_FORMAT_LEN, Fmt.size, codesSize, Code.size] at h

/-- [review] the per-iteration bound of DESIGN §5 C08, stated (Progress only records `0 < n`): an accepted
    IENA-M parameter advances the offset by the 6-byte header + the dataset + one pad byte when the
    dataset is odd — at least 6 bytes; header and dataset lie inside the remaining bytes -/
theorem decM_advance_ge (b : Bytes) (p : MParam) (n : Nat) (h : decM b = .ok (p, n)) :
    6 ≤ n ∧ n = 6 + p.dataset.length + p.dataset.length % 2 ∧ 6 + p.dataset.length ≤ b.length := by
  simp only [decM] at h
  split at h
  · rename_i pid dl m hh
    have hl := structUnpack_ok_length _ _ _ hh
    simp only [IENAM_FORMAT, IENAM_FORMAT_LEN, Fmt.size, codesSize, Code.size, List.length_take] at hl
    split at h
    · simp at h
    · rename_i hlt
      simp only [IENAM_FORMAT_LEN, List.length_drop] at hlt
      simp only [Except.ok.injEq, Prod.mk.injEq, IENAM_FORMAT_LEN] at h
      obtain ⟨rfl, rfl⟩ := h
      simp only [slice_length]
      have : min (6 + m) b.length - 6 = m := by omega
      rw [this]
      refine ⟨by omega, ?_, by omega⟩
      rcases Nat.mod_two_eq_zero_or_one m with h2 | h2 <;> simp [h2]
  · simp at h
  · simp at h

example : decM [0, 1, 0, 2, 0, 3, 0xAA, 0xBB, 0xCC, 0, 9, 9] = .ok (⟨1, 2, [0xAA, 0xBB, 0xCC]⟩, 10) := by rfl

/-- `IENAM.unpack` terminates on every buffer: the fuel the model gives the loop (payload length + 1)
    is never exhausted; the result is a value or an ordinary exception -/
theorem IENAM_unpack_total (t : MState) (buf : Bytes) : (MState.unpack t buf).2 ≠ .error .fuel := by
  simp only [MState.unpack]
  have hb := IENA_unpack_nofuel t.base buf
  cases hu : Base.unpack t.base buf with
  | mk b' r =>
    rw [hu] at hb
    cases r with
    | error e => simpa using hb
    | ok u =>
      simp only
      have := decOff_fuel_sufficient decM moreRem b'.payload decM_progress (b'.payload.length + 1) 0 (by omega)
      cases hd : decOff decM moreRem b'.payload (b'.payload.length + 1) 0 with
      | ok ps => simp
      | error e => simp; intro he; exact this (he ▸ hd)

/-- work bound: at most one parameter per byte of payload -/
theorem IENAM_items_le (t : MState) (buf : Bytes) (h : (MState.unpack t buf).2 = .ok ()) :
    (MState.unpack t buf).1.parameters.length ≤ (MState.unpack t buf).1.base.payload.length := by
  revert h
  simp only [MState.unpack]
  cases hu : Base.unpack t.base buf with
  | mk b' r =>
    cases r with
    | error e => simp
    | ok u =>
      simp only
      cases hd : decOff decM moreRem b'.payload (b'.payload.length + 1) 0 with
      | error e => simp
      | ok ps =>
        simp only
        intro _
        have h1 := decOff_items_le decM moreRem b'.payload decM_progress _ 0 ps hd
        omega

example : (MState.unpack MState.fresh wIENAM).2 = .ok () ∧
    (MState.unpack MState.fresh wIENAM).1.parameters = [⟨1, 2, [0xAA, 0xBB, 0xCC]⟩, ⟨3, 4, []⟩] := ⟨by rfl, by rfl⟩

/-- [review] work bound with the real stride, relative to the INPUT: an accepted IENA-M packet of `|buf|`
    bytes has at most ⌈(|buf| − 16)/6⌉ parameters (in particular fewer than `|buf|`) -/
theorem IENAM_items_stride (t : MState) (buf : Bytes) (h : (MState.unpack t buf).2 = .ok ()) :
    (MState.unpack t buf).1.parameters.length * 6 ≤ (buf.length - 16) + 5 := by
  revert h
  simp only [MState.unpack]
  cases hu : Base.unpack t.base buf with
  | mk b' r =>
    cases r with
    | error e => simp
    | ok u =>
      have hpl := (IENA_unpack_ok_payload t.base buf (by rw [hu])).2.1
      rw [hu] at hpl
      simp only at hpl ⊢
      cases hd : decOff decM moreRem b'.payload (b'.payload.length + 1) 0 with
      | error e => simp
      | ok ps =>
        simp only
        intro _
        have h1 := Acra.Lemmas.ReviewC08.decOff_items_stride decM moreRem b'.payload decM_progress 6
          (fun b x n hb => (decM_advance_ge b x n hb).1) _ 0 ps hd
        omega

/-- [review] the exceptions `IENAM.unpack` can end with: those of the base decoder, or those of one
    parameter step (`struct.error`, bare `Exception`) — never `fuel` -/
theorem IENAM_unpack_outcomes (t : MState) (buf : Bytes) :
    (MState.unpack t buf).2 = .ok () ∨ (MState.unpack t buf).2 = .error .value ∨
    (MState.unpack t buf).2 = .error .generic ∨ (MState.unpack t buf).2 = .error .struct := by
  have hf := IENAM_unpack_total t buf
  have hb := IENA_unpack_outcomes t.base buf
  revert hf
  simp only [MState.unpack]
  cases hu : Base.unpack t.base buf with
  | mk b' r =>
    rw [hu] at hb
    cases r with
    | error e => intro _; simpa using hb
    | ok u =>
      simp only
      cases hd : decOff decM moreRem b'.payload (b'.payload.length + 1) 0 with
      | ok ps => simp
      | error e =>
        simp only
        intro hf
        rcases Acra.Lemmas.ReviewC08.decOff_error_source _ _ _ _ _ _ hd with rfl | ⟨o, ho⟩
        · exact absurd rfl hf
        · simp only [decM] at ho
          split at ho
          · split at ho
            · simp at ho; subst ho; simp
            · simp at ho
          · simp at ho; subst ho; simp
          · rename_i e' he
            have := structUnpack_error _ _ _ he
            subst this; simp at ho; subst ho; simp

end Acra.Props.C08
