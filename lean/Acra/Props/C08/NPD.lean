import Acra.Model.NPD
import Acra.Lemmas.ReviewC08Records
import Acra.Props.C09.NPD
namespace Acra.Props.C08
open Acra.Py Acra.Model.NPD Acra.Gen.NPD

/-- `NPDSegment.unpack` is straight-line code: the rest of the buffer or struct.error -/
theorem NPDSegment_unpackBase_total (t : Seg) (buf : Bytes) :
    (∃ r, (Seg.unpackBase t buf).2 = .ok r) ∨ (Seg.unpackBase t buf).2 = .error .struct := by
  simp only [Seg.unpackBase]
  repeat' split
  all_goals first
    | (simp; done)
    | (rename_i e h; have := structUnpackFrom_error _ _ _ _ h; subst this; simp)

/-- after the base unpack the `payload` setter has rewritten `segmentlen` to 8 + |payload| ≥ 8: this is
    why the NPD segment loop always advances, whatever length the segment header declares -/
theorem NPDSegment_unpackBase_segmentlen (t : Seg) (buf r : Bytes) (h : (Seg.unpackBase t buf).2 = .ok r) :
    (Seg.unpackBase t buf).1.segmentlen = (Seg.unpackBase t buf).1.payload.length + 8 ∧ 8 ≤ buf.length := by
  revert h
  simp only [Seg.unpackBase]
  split
  · rename_i td sl ec fl hh
    have := structUnpackFrom_ok_length _ _ _ _ hh
    simp only [NPD_SEGMENT_HDR_FORMAT, Fmt.size, codesSize, Code.size] at this
    intro _
    exact ⟨rfl, by omega⟩
  · simp
  · simp

theorem typed_nofuel_acq (s : Seg) : s.unpackACQ.2 ≠ .error .fuel ∧ s.unpackACQ.1.segmentlen = s.segmentlen := by
  simp only [Seg.unpackACQ]
  repeat' split
  all_goals first
    | (simp; done)
    | (rename_i e h; have := structUnpackFrom_error _ _ _ _ h; subst this; simp)

theorem typed_nofuel_rs232 (s : Seg) : s.unpackRS232.2 ≠ .error .fuel ∧ s.unpackRS232.1.segmentlen = s.segmentlen := by
  simp only [Seg.unpackRS232]
  repeat' split
  all_goals first
    | (simp; done)
    | (rename_i e h; have := structUnpackFrom_error _ _ _ _ h; subst this; simp)

theorem typed_nofuel_1553 (s : Seg) : s.unpack1553.2 ≠ .error .fuel ∧ s.unpack1553.1.segmentlen = s.segmentlen := by
  simp only [Seg.unpack1553]
  repeat' split
  all_goals first
    | (simp; done)
    | (rename_i e h; have := structUnpackFrom_error _ _ _ _ h; subst this; simp)

/-- every segment class: `unpack` never reports `fuel`, and an accepted segment has `segmentlen ≥ 8` -/
theorem Segment_unpack_total (t : Seg) (buf : Bytes) :
    (Seg.unpack t buf).2 ≠ .error .fuel ∧
    (∀ r, (Seg.unpack t buf).2 = .ok r → 8 ≤ (Seg.unpack t buf).1.segmentlen ∧ 8 ≤ buf.length) := by
  simp only [Seg.unpack]
  rcases NPDSegment_unpackBase_total t buf with ⟨r, hr⟩ | he
  · have hsl := NPDSegment_unpackBase_segmentlen t buf r hr
    cases hb : Seg.unpackBase t buf with
    | mk s1 rr =>
      rw [hb] at hr hsl
      simp only at hr hsl
      subst hr
      simp only
      cases t.kind <;> simp only
      · exact ⟨by simp, fun _ _ => by omega⟩
      · have := typed_nofuel_acq s1
        cases hu : s1.unpackACQ with
        | mk s2 r2 =>
          rw [hu] at this
          cases r2 with
          | ok u => cases u; exact ⟨by simp, fun _ _ => by simp only at this ⊢; omega⟩
          | error e => exact ⟨by simpa using this.1, fun _ h => by simp at h⟩
      · exact ⟨by simp, fun _ _ => by omega⟩
      · exact ⟨by simp, fun _ _ => by omega⟩
      · have := typed_nofuel_rs232 s1
        cases hu : s1.unpackRS232 with
        | mk s2 r2 =>
          rw [hu] at this
          cases r2 with
          | ok u => cases u; exact ⟨by simp, fun _ _ => by simp only at this ⊢; omega⟩
          | error e => exact ⟨by simpa using this.1, fun _ h => by simp at h⟩
      · have := typed_nofuel_1553 s1
        cases hu : s1.unpack1553 with
        | mk s2 r2 =>
          rw [hu] at this
          cases r2 with
          | ok u => cases u; exact ⟨by simp, fun _ _ => by simp only at this ⊢; omega⟩
          | error e => exact ⟨by simpa using this.1, fun _ h => by simp at h⟩
  · cases hb : Seg.unpackBase t buf with
    | mk s1 rr =>
      rw [hb] at he
      simp only at he
      subst he
      exact ⟨by simp, fun _ h => by simp at h⟩

/-- every iteration of the NPD segment loop consumes at least 8 bytes (the setter resets `segmentlen`
    to ≥ 8), never reports `fuel`, and fails on an empty remainder -/
theorem decSeg_progress (k : Kind) : Progress (decSeg k) where
  pos := by
    intro b x n h
    simp only [decSeg] at h
    split at h
    · rename_i g r hg
      simp only [Except.ok.injEq, Prod.mk.injEq] at h
      have := (Segment_unpack_total (Seg.fresh k) b).2 r (by rw [hg])
      rw [hg] at this
      obtain ⟨h1, h2⟩ := h
      subst h1
      simp only at this
      omega
    · simp at h
  nofuel := by
    intro b h
    simp only [decSeg] at h
    split at h
    · simp at h
    · rename_i g e he
      simp only [Except.error.injEq] at h
      subst h
      have := (Segment_unpack_total (Seg.fresh k) b).1
      rw [he] at this
      simp at this
  empty := by
    intro x n h
    simp only [decSeg] at h
    split at h
    · rename_i g r hg
      have := (Segment_unpack_total (Seg.fresh k) []).2 r (by rw [hg])
      simp at this
    · simp at h

/-- [review] the per-iteration bound of DESIGN §5 C08, stated for the loop step itself: an accepted segment
    advances the offset by its (rewritten) `segmentlen` rounded up to a multiple of 4 — at least 8 bytes -/
theorem decSeg_advance_ge (k : Kind) (b : Bytes) (g : Seg) (n : Nat) (h : decSeg k b = .ok (g, n)) :
    8 ≤ n ∧ n % 4 = 0 ∧ g.segmentlen ≤ n ∧ n < g.segmentlen + 4 ∧ 8 ≤ b.length := by
  simp only [decSeg] at h
  split at h
  · rename_i g' r hg
    simp only [Except.ok.injEq, Prod.mk.injEq] at h
    have := (Segment_unpack_total (Seg.fresh k) b).2 r (by rw [hg])
    rw [hg] at this
    obtain ⟨h1, h2⟩ := h
    subst h1
    simp only at this
    subst h2
    by_cases hm : g'.segmentlen % 4 = 0
    · simp [hm]; omega
    · simp [hm]; omega
  · simp at h

/-- `NPD.unpack` terminates on every buffer -/
theorem NPD_unpack_total (t : State) (buf : Bytes) : (unpack t buf).2 ≠ .error .fuel := by
  simp only [unpack]
  split
  · rename_i vh dt pl cc fl sq ds mc ts hh
    split
    · simp
    · generalize hp : List.drop _ buf = payload
      have := decOff_fuel_sufficient (decSeg (kindOf dt)) moreNe payload (decSeg_progress _) (payload.length + 1) 0 (by omega)
      split
      · simp
      · rename_i hd; exact absurd hd this
      · simp
  · simp
  · rename_i e he
    have := structUnpackFrom_error _ _ _ _ he
    subst this
    simp

/-- work bound: at most one segment per byte of the buffer -/
theorem NPD_items_le (t : State) (buf : Bytes) (h : (unpack t buf).2 = .ok ()) :
    (unpack t buf).1.segments.length ≤ buf.length := by
  revert h
  simp only [unpack]
  split
  · rename_i vh dt pl cc fl sq ds mc ts hh
    split
    · simp
    · generalize hp : List.drop _ buf = payload
      have hpl : payload.length ≤ buf.length := by rw [← hp]; simp
      split
      · rename_i gs hd
        intro _
        have := decOff_items_le (decSeg (kindOf dt)) moreNe payload (decSeg_progress _) _ 0 gs hd
        simp only
        omega
      · simp
      · simp
  · simp
  · simp

/-- [review] witness: NPD packet (header 20 bytes) with two segments, payloads of 6 bytes (+2 pad) and 1 byte (+3 pad) -/
def wNPD : Bytes :=
  [53, 16, 0, 12, 0, 0, 0, 0, 0, 0, 0, 0, 235, 0, 0, 1, 0, 0, 0, 7,  0, 0, 0, 1, 0, 14, 2, 3, 0, 5, 1, 2, 9, 9, 255, 255,
   0, 0, 0, 1, 0, 9, 2, 3, 7, 255, 255, 255]

example : (unpack fresh wNPD).2 = .ok () ∧ (unpack fresh wNPD).1.segments.length = 2 := ⟨by rfl, by rfl⟩
example : decSeg .base (wNPD.drop 20) = .ok ({ Seg.fresh .base with timedelta := 1, segmentlen := 14, errorcode := 2, flags := 3, payload := [0, 5, 1, 2, 9, 9] }, 16) := by rfl

/-- [review] work bound with the real stride: at most ⌈|buf|/8⌉ segments -/
theorem NPD_items_stride (t : State) (buf : Bytes) (h : (unpack t buf).2 = .ok ()) :
    (unpack t buf).1.segments.length * 8 ≤ buf.length + 7 := by
  revert h
  simp only [unpack]
  split
  · rename_i vh dt pl cc fl sq ds mc ts hh
    split
    · simp
    · generalize hp : List.drop _ buf = payload
      have hpl : payload.length ≤ buf.length := by rw [← hp]; simp
      split
      · rename_i gs hd
        intro _
        have := Acra.Lemmas.ReviewC08.decOff_items_stride (decSeg (kindOf dt)) moreNe payload (decSeg_progress _) 8
          (fun b x n hb => (decSeg_advance_ge _ b x n hb).1) _ 0 gs hd
        simp only
        omega
      · simp
      · simp
  · simp
  · simp
-- joint witnesses for the hypotheses `(Seg.unpackBase t buf).2 = .ok r` / `(Seg.unpack t buf).2 = .ok r`
example : (Seg.unpackBase (Seg.fresh .base) (wNPD.drop 20)).2 = .ok (wNPD.drop 36) ∧
    (Seg.unpackBase (Seg.fresh .base) (wNPD.drop 20)).1.segmentlen = 14 := ⟨by rfl, by rfl⟩
example : (Seg.unpack (Seg.fresh .mil1553) (wNPD.drop 20)).2 = .ok (wNPD.drop 36) := by rfl
/-- a declared segment length of 0 (or anything below 8) still advances by 8: the setter rewrote it -/
example : decSeg .base [0, 0, 0, 1, 0, 0, 2, 3, 9, 9, 9, 9] =
    .ok ({ Seg.fresh .base with timedelta := 1, segmentlen := 8, errorcode := 2, flags := 3 }, 8) := by rfl

/-! ### packet-level outcome list (review B4) -/

/-- `NPD.unpack` returns, or raises `struct.error`, or a bare `Exception` — nothing else; and each kind is
    characterised on the bytes: `struct.error` iff the 20-byte header is incomplete; `Exception` iff the header is
    complete and the declared total length (32-bit words) is not the real one, or the declarative segment walk of
    `Acra.Lemmas.NPD.SegsReject` meets an incomplete segment header / typed header (the segment decoders'
    `struct.error` re-raised by `except Exception as e: raise Exception(e)`); a value otherwise
    (`Acra.Props.C09.NPD_accepts_iff_fits`). -/
theorem NPD_unpack_outcomes (t : State) (buf : Bytes) :
    ((unpack t buf).2 = .ok () ∨ (unpack t buf).2 = .error .struct ∨ (unpack t buf).2 = .error .generic) ∧
    ((unpack t buf).2 = .error .struct ↔ buf.length < 20) ∧
    ((unpack t buf).2 = .error .generic ↔ 20 ≤ buf.length ∧ (Acra.Props.C09.declaredWords buf * 4 ≠ buf.length ∨
      Acra.Lemmas.NPD.SegsReject (kindOf (Acra.Props.C09.declaredType buf))
        (buf.drop (Acra.Props.C09.declaredHdrlen buf * 4)))) :=
  ⟨(Acra.Props.C09.NPD_rejects_iff t buf).2.2, (Acra.Props.C09.NPD_rejects_iff t buf).1,
   (Acra.Props.C09.NPD_rejects_iff t buf).2.1⟩

/-- the segment decoders raise nothing but `struct.error` (which is what the packet decoder wraps) -/
theorem Segment_unpack_outcomes (k : Kind) (buf : Bytes) :
    (∃ g r, Seg.unpack (Seg.fresh k) buf = (g, .ok r)) ∨ (Seg.unpack (Seg.fresh k) buf).2 = .error .struct := by
  cases hd : decSeg k buf with
  | ok r =>
    left
    simp only [decSeg] at hd
    split at hd
    · rename_i g r' hg; exact ⟨g, r', hg⟩
    · cases hd
  | error e =>
    right
    have he := Acra.Lemmas.NPD.decSeg_error_struct k buf e hd
    subst he
    simp only [decSeg] at hd
    split at hd
    · cases hd
    · rename_i g e' hg
      rw [hg]
      simp only [Except.error.injEq] at hd
      simp [hd]

/-- every outcome is reachable: `wNPD` accepted; 19 bytes → `struct.error`; length word off by one → `Exception`;
    total length right but the last segment header cut (4 stray bytes, 13 words) → `Exception` from the segment walk;
    an ACQ packet (data type 0xA1) whose segment is too short for the typed header → `Exception` -/
example : (unpack fresh wNPD).2 = .ok () := by rfl
example : (unpack fresh (wNPD.take 19)).2 = .error .struct := by rfl
example : (unpack fresh (wNPD.set 3 13)).2 = .error .generic := by rfl
example : (unpack fresh ((wNPD.set 3 13) ++ [0, 0, 0, 1])).2 = .error .generic ∧
    Acra.Props.C09.declaredWords ((wNPD.set 3 13) ++ [0, 0, 0, 1]) * 4 = ((wNPD.set 3 13) ++ [0, 0, 0, 1]).length :=
  ⟨by rfl, by decide⟩
example : (unpack fresh ([53, 161, 0, 8, 0, 0, 0, 0, 0, 0, 0, 0, 235, 0, 0, 1, 0, 0, 0, 7] ++
    [0, 0, 0, 1, 0, 10, 0, 0, 1, 2, 255, 255])).2 = .error .generic := by rfl
example : (unpack fresh ([53, 161, 0, 8, 0, 0, 0, 0, 0, 0, 0, 0, 235, 0, 0, 1, 0, 0, 0, 7] ++
    [0, 0, 0, 1, 0, 12, 0, 0, 1, 2, 3, 4])).2 = .ok () := by rfl
example : (Seg.unpack (Seg.fresh .acq) [0, 0, 0, 1, 0, 10, 0, 0, 1, 2, 255, 255]).2 = .error .struct := by rfl

end Acra.Props.C08
