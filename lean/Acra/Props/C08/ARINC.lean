import Acra.Lemmas.Ch11ARINC
namespace Acra.Props.C08
open Acra.Py Acra.Model.Ch11Pay Acra.Model.Ch11Pay.ARINC Acra.Gen.Ch11ARINC Acra.Lemmas.Ch11ARINC

theorem ARINCWord_unpack_total (t : Word) (buf : Bytes) : (Word.unpack t buf).2 ≠ .error .fuel := by
  simp only [Word.unpack]
  repeat' split
  all_goals first
    | (simp; done)
    | (rename_i e h; have := structUnpackFrom_error _ _ _ _ h; subst this; simp)

/-- `ARINC429DataPacket.unpack` has a `for` loop over `(len-4)//8` slices: it returns or raises an
    ordinary exception on every buffer, and the words it returns number at most len/8 -/
theorem ARINC_unpack_total (t : Packet) (buf : Bytes) : (Packet.unpack t buf).2 ≠ .error .fuel := by
  by_cases h4 : 4 ≤ buf.length
  · obtain ⟨ws, hws, hl, _⟩ := decWords_ok buf ((buf.length - 4) / 8) 0 (by omega)
    simp only [Packet.unpack, structUnpackFrom, PKT_unpack_fmt0, Fmt.size, codesSize, Code.size, Nat.zero_add,
      Nat.add_zero, h4, if_true, unpackCodes, hws]
    split <;> simp
  · simp [Packet.unpack, structUnpackFrom, PKT_unpack_fmt0, Fmt.size, codesSize, Code.size, h4]

theorem ARINC_items_le (t : Packet) (buf : Bytes) (h : (Packet.unpack t buf).2 = .ok ()) :
    (Packet.unpack t buf).1.arincwords.length ≤ buf.length / 8 := by
  by_cases h4 : 4 ≤ buf.length
  · obtain ⟨ws, hws, hl, _⟩ := decWords_ok buf ((buf.length - 4) / 8) 0 (by omega)
    revert h
    simp only [Packet.unpack, structUnpackFrom, PKT_unpack_fmt0, Fmt.size, codesSize, Code.size, Nat.zero_add,
      Nat.add_zero, h4, if_true, unpackCodes, hws]
    split
    · simp
    · intro _; simp only; omega
  · revert h
    simp [Packet.unpack, structUnpackFrom, PKT_unpack_fmt0, Fmt.size, codesSize, Code.size, h4]


/-- [review] the `for` loop of ARINC429DataPacket.unpack has no fuel in the model, so the explicit count IS the
    C08 content: an accepted buffer yields exactly `(|buf| − 4) / 8` words, equal to the declared count -/
theorem ARINC_items_eq (t : Packet) (buf : Bytes) (h : (Packet.unpack t buf).2 = .ok ()) :
    (Packet.unpack t buf).1.arincwords.length = (buf.length - 4) / 8 ∧
    (Packet.unpack t buf).1.msgcount = (buf.length - 4) / 8 ∧ 4 ≤ buf.length := by
  by_cases h4 : 4 ≤ buf.length
  · obtain ⟨ws, hws, hl, _⟩ := decWords_ok buf ((buf.length - 4) / 8) 0 (by omega)
    revert h
    simp only [Packet.unpack, structUnpackFrom, PKT_unpack_fmt0, Fmt.size, codesSize, Code.size, Nat.zero_add,
      Nat.add_zero, h4, if_true, unpackCodes, hws]
    split
    · simp
    · rename_i hc
      intro _; simp only
      simp only [ne_eq, Decidable.not_not] at hc
      exact ⟨hl, by rw [hc, hl], trivial⟩
  · revert h
    simp [Packet.unpack, structUnpackFrom, PKT_unpack_fmt0, Fmt.size, codesSize, Code.size, h4]
/-- [review] witness: two ARINC-429 words -/
def wARINC : Bytes := [2, 0, 0, 0,  14, 16, 160, 200, 1, 2, 3, 4,  255, 255, 79, 255, 9, 8, 7, 6]
example : (Packet.unpack Packet.fresh wARINC).2 = .ok () ∧ (Packet.unpack Packet.fresh wARINC).1.arincwords.length = 2 :=
  ⟨by rfl, by rfl⟩
/-! ### review additions (rev1-C08): outcome lists — the element decoders have no loop and no fuel in their models, so
    `≠ .error .fuel` holds by construction; what C08 says about them is which ordinary exceptions can occur -/

theorem ARINCWord_unpack_outcomes (t : Word) (buf : Bytes) :
    (Word.unpack t buf).2 = .ok () ∨ (Word.unpack t buf).2 = .error .struct := by
  simp only [Word.unpack]
  repeat' split
  all_goals first
    | (simp; done)
    | (rename_i e h; have := structUnpackFrom_error _ _ _ _ h; subst this; simp)

end Acra.Props.C08
