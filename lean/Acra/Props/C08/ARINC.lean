import Acra.Lemmas.Ch11ARINC
namespace Acra.Props.C08
open Acra.Py Acra.Model.Ch11Pay Acra.Model.Ch11Pay.ARINC Acra.Gen.Ch11ARINC Acra.Lemmas.Ch11ARINC

theorem ARINCWord_unpack_total (t : Word) (buf : Bytes) : (Word.unpack t buf).2 ≠ .error .fuel := by
  simp only [Word.unpack]
  repeat' split
  all_goals first
    | (simp; done)
    | (rename_i e h; have := structUnpackFrom_error _ _ _ _ h; subst this; simp)

/-- `ARINC429DataPacket.unpack` has a `for` loop over `(len-4)//8` slices: it returns or raises an
    ordinary exception on every buffer, and the words it returns number at most len/8 -/
theorem ARINC_unpack_total (t : Packet) (buf : Bytes) : (Packet.unpack t buf).2 ≠ .error .fuel := by
  by_cases h4 : 4 ≤ buf.length
  · obtain ⟨ws, hws, hl, _⟩ := decWords_ok buf ((buf.length - 4) / 8) 0 (by omega)
    simp only [Packet.unpack, structUnpackFrom, PKT_unpack_fmt0, Fmt.size, codesSize, Code.size, Nat.zero_add,
      Nat.add_zero, h4, if_true, unpackCodes, hws]
    split <;> simp
  · simp [Packet.unpack, structUnpackFrom, PKT_unpack_fmt0, Fmt.size, codesSize, Code.size, h4]

theorem ARINC_items_le (t : Packet) (buf : Bytes) (h : (Packet.unpack t buf).2 = .ok ()) :
    (Packet.unpack t buf).1.arincwords.length ≤ buf.length / 8 := by
  by_cases h4 : 4 ≤ buf.length
  · obtain ⟨ws, hws, hl, _⟩ := decWords_ok buf ((buf.length - 4) / 8) 0 (by omega)
    revert h
    simp only [Packet.unpack, structUnpackFrom, PKT_unpack_fmt0, Fmt.size, codesSize, Code.size, Nat.zero_add,
      Nat.add_zero, h4, if_true, unpackCodes, hws]
    split
    · simp
    · intro _; simp only; omega
  · revert h
    simp [Packet.unpack, structUnpackFrom, PKT_unpack_fmt0, Fmt.size, codesSize, Code.size, h4]

end Acra.Props.C08
