import Acra.Lemmas.AFDX
namespace Acra.Props.C08
open Acra.Py Acra.Model.AFDX Acra.Gen.AFDX Acra.Lemmas.AFDX Acra.Lemmas.Net

/-! `AFDX.unpack` is a straight-line function of the buffer (no loop, no fuel parameter in the model): on any bytes,
    into an object in any state, it raises one of two ordinary exceptions — and it never returns normally. -/

/-- exactly which exception, by buffer length: `struct.error` under 14 bytes, `TypeError` from 14 bytes on -/
theorem AFDX_unpack_outcome (t : AFDX) (buf : Bytes) :
    (AFDX.unpack t buf).2 = if buf.length < 14 then .error .struct else .error .type := by
  by_cases h14 : buf.length < 14
  · by_cases h6 : buf.length < 6
    · simp [unpack_lt6 t buf h6, h14]
    · simp [unpack_lt14 t buf (by omega) h14, h14]
  · simp [unpack_ge14 t buf (by omega), h14]

/-- totality: any bytes, any prior state, an ordinary exception (no `.fuel`, nothing else) -/
theorem AFDX_unpack_total (t : AFDX) (buf : Bytes) :
    (AFDX.unpack t buf).2 = .error .struct ∨ (AFDX.unpack t buf).2 = .error .type := by
  rw [AFDX_unpack_outcome]; split <;> simp

/-- OBSERVATION about the code: the decoder decodes nothing — there is no buffer and no object state on which
    `AFDX.unpack` returns normally (its last statement applies `struct.unpack` to the int `buf[-1]`) -/
theorem AFDX_unpack_never_decodes (t : AFDX) (buf : Bytes) : (AFDX.unpack t buf).2 ≠ .ok () := by
  rw [AFDX_unpack_outcome]; split <;> simp

/-- the helper `set_dstmac` alone is total as well: six bytes or more assign the virtual link, fewer raise `struct.error` -/
theorem AFDX_set_dstmac_total (t : AFDX) (mac : Bytes) :
    (AFDX.set_dstmac t mac).2 = .ok () ∨ (AFDX.set_dstmac t mac).2 = .error .struct := by
  by_cases h : mac.length < 6
  · right; rw [set_dstmac_short t mac h]
  · left; rw [set_dstmac_eq t mac (by omega)]

end Acra.Props.C08
