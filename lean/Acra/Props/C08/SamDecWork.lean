/-
  C08 — work bound of the SAM/DEC decommutator (`decom_total` in Search.lean says only that no loop of
  `list(SamDecPcap(file).frames())` runs out of fuel).  For EVERY byte string taken as a capture file, whether the
  iteration ends normally or with an exception (`No Frame sync found`, the `int + None` TypeError, …):
  * every frame yielded starts with the 4-byte sync word (so it has ≥ 4 bytes);
  * the frames yielded hold, together, no more bytes than the file has after its 24-byte global header — they are
    disjoint slices of the record payloads (memory clause: what the consumer accumulates is bounded by the file);
  * hence at most (file length − 24)/4 frames are yielded.
  Nothing is assumed about the contents: frame length inferred from garbage, foreign packets, truncated records included.
-/
import Acra.Lemmas.SamDecWork
namespace Acra.Props.C08
open Acra.Py Acra.Model.SamDec Acra.Spec Acra.Spec.SamDec Acra.Lemmas.SamDec

/-- bytes yielded ≤ bytes of the file after the global header; every frame starts with the sync word -/
theorem decom_work_bound (file : Bytes) :
    ((decom file).1.map List.length).sum ≤ file.length - 24 ∧ ∀ f ∈ (decom file).1, f.take 4 = syncWord :=
  decom_work file

/-- frames yielded ≤ (file length − 24) / 4 -/
theorem decom_frames_le (file : Bytes) : 4 * (decom file).1.length ≤ file.length - 24 := by
  obtain ⟨h1, h2⟩ := decom_work file
  have : ∀ fs : List Bytes, (∀ f ∈ fs, f.take 4 = syncWord) → 4 * fs.length ≤ (fs.map List.length).sum := by
    intro fs
    induction fs with
    | nil => simp
    | cons f fs ih =>
      intro h
      have hf : 4 ≤ f.length := by
        have := congrArg List.length (h f (by simp))
        simp only [List.length_take, syncWord, List.length_cons, List.length_nil] at this
        omega
      have := ih (fun g hg => h g (by simp [hg]))
      simp only [List.length_cons, List.map_cons, List.sum_cons]
      omega
  have := this _ h2
  omega

/-- per datagram, for ANY fuel of the slicing loop and any non-negative frame length and offset: the frames cut from a
    payload are disjoint slices of it after the offset, each of the frame length and starting with the sync word -/
theorem sliceLoop_work_bound (sync payload : Bytes) (L fuel o : Nat) :
    ((sliceLoop sync payload fuel (o : Int) (some (L : Int))).1.map List.length).sum ≤ payload.length - o ∧
    ∀ f ∈ (sliceLoop sync payload fuel (o : Int) (some (L : Int))).1, f.take 4 = sync ∧ f.length = L :=
  sliceLoop_work sync payload L fuel o

/-- a file that is only a global header: nothing yielded, no exception -/
example : decom (List.replicate 24 0) = ([], none) := by decide +kernel

end Acra.Props.C08
