import Acra.Lemmas.Extra
namespace Acra.Props.C08
open Acra.Py Acra.Model.Extra Acra.Lemmas.Extra
open Acra.Gen.ExtraH264 Acra.Gen.ExtraADTS Acra.Gen.ExtraSEI Acra.Gen.ExtraPA Acra.Gen.ExtraNet

/-! Totality of the decoders of the `extra` family.  None of the models has a loop with a fuel parameter
    (`utf8Len` is structural recursion on the buffer; `SEI.unpack`, `ADTS.unpack`, `NAL.unpack`,
    `ARINC429.unpack` are straight-line code), so on ANY bytes and ANY prior state each returns a value or one
    of the listed ordinary exceptions. -/

/-- the signed-time part of `STANAG4609_SEI.unpack`: a value or the `ValueError` of `datetime.fromtimestamp` -/
theorem SEI_signed_total (p q a b c d e f g h i j : Nat) :
    (SEI.signed p q a b c d e f g h i j).2 = .ok () ∨ (SEI.signed p q a b c d e f g h i j).2 = .error .value := by
  unfold SEI.signed
  split
  · split
    · rename_i e he; right; rw [fromTimestampF_error _ _ he]
    · left; rfl
  · left; rfl

/-- `STANAG4609_SEI.unpack`: a value, `struct.error` (fewer than 2 bytes, or an unregistered-data payload
    shorter than 28 bytes) or `ValueError` (a signed time beyond year 9999) -/
theorem SEI_unpack_total (t : SEI) (buf : Bytes) :
    (SEI.unpack t buf).2 = .ok () ∨ (SEI.unpack t buf).2 = .error .struct ∨ (SEI.unpack t buf).2 = .error .value := by
  unfold SEI.unpack
  split
  · rename_i e h; have := structUnpack_error _ _ _ h; subst this; simp
  · split
    · split
      · rename_i e h; have := structUnpackFrom_error _ _ _ _ h; subst this; simp
      · rcases SEI_signed_total _ _ _ _ _ _ _ _ _ _ _ _ with h | h
        · left; exact h
        · right; right; exact h
    · simp

/-- fewer than two bytes: `struct.error` from the first read -/
theorem SEI_unpack_short (t : SEI) (buf : Bytes) (h : buf.length < 2) :
    (SEI.unpack t buf).2 = .error .struct := by
  have : ¬ (min 2 buf.length = 2) := by omega
  simp [SEI.unpack, structUnpack, SEI_unpack_fmt0, Fmt.size, codesSize, Code.size, this]

/-- `ADTS.unpack`: a value, `struct.error` (fewer than 7 bytes) or the bare `Exception` of the sync check -/
theorem ADTS_unpack_total (t : ADTS) (buf : Bytes) :
    (ADTS.unpack t buf).2 = .ok () ∨ (ADTS.unpack t buf).2 = .error .struct ∨ (ADTS.unpack t buf).2 = .error .generic := by
  simp only [ADTS.unpack]
  repeat' split
  all_goals first
    | (simp; done)
    | (rename_i e h; have := structUnpackFrom_error _ _ _ _ h; subst this; simp; done)

/-- the acceptance condition, exactly: at least 7 bytes, first byte 0xFF, high nibble of the second 0xF -/
theorem ADTS_accepts_iff (t : ADTS) (buf : Bytes) :
    (ADTS.unpack t buf).2 = .ok () ↔
      match buf with
      | b0 :: b1 :: _ :: _ :: _ :: _ :: _ :: _ => b0.toNat = 0xFF ∧ b1.toNat / 16 = 0xF
      | _ => False := by
  match buf with
  | b0 :: b1 :: b2 :: b3 :: b4 :: b5 :: b6 :: rest =>
    rw [ADTS_unpack_cons]
    simp only [adtsFinish, ADTS_SYNC, Nat.shiftRight_eq_div_pow, Nat.shiftLeft_eq]
    have h0 := b0.toNat_lt
    have h1 := b1.toNat_lt
    split
    · rename_i hs; simp only [reduceCtorEq, false_iff]; intro hc; apply hs; omega
    · rename_i hs; simp only [true_iff]; omega
  | [] | [_] | [_, _] | [_, _, _] | [_, _, _, _] | [_, _, _, _, _] | [_, _, _, _, _, _] =>
    rw [ADTS_unpack_short _ _ (by simp)]; simp

/-- `NAL.unpack`: a value, `struct.error` (no type byte, or the SEI payload is short) or the SEI's `ValueError` -/
theorem NAL_unpack_total (t : NAL) (buf : Bytes) :
    (NAL.unpack t buf).2 = .ok () ∨ (NAL.unpack t buf).2 = .error .struct ∨ (NAL.unpack t buf).2 = .error .value := by
  unfold NAL.unpack
  split
  · rename_i e h; have := structUnpackFrom_error _ _ _ _ h; subst this; simp
  · simp only
    split
    · have := SEI_unpack_total SEI.fresh (List.drop (NAL_HEADER_LEN + 1) buf)
      split
      · rename_i e he; rw [he] at this; simpa using this
      · simp
    · simp

/-- fewer than five bytes: `struct.error` from the read of the type byte -/
theorem NAL_unpack_short (t : NAL) (buf : Bytes) (h : buf.length < 5) : (NAL.unpack t buf).2 = .error .struct := by
  have : ¬ (NAL_HEADER_LEN + 1 ≤ buf.length) := by simp [NAL_HEADER_LEN]; omega
  simp [NAL.unpack, structUnpackFrom, NAL_unpack_fmt0, Fmt.size, codesSize, Code.size, this]

/-- `H264.unpack` on every buffer: `True`, `UnicodeDecodeError` (a `ValueError`) or `TypeError` — and
    which of the three is decided by the UTF-8 reading of the buffer alone -/
theorem H264_unpack_result (t : H264) (buf : Bytes) :
    (H264.unpack t buf).2 =
      match utf8Len buf with
      | none => .error .value
      | some n => if n < 4 then .ok true else .error .type := by
  simp only [H264.unpack, horspoolStr, NAL_HEADER_TEXT_LEN, PY3]
  cases utf8Len buf with
  | none => rfl
  | some n => by_cases h : n < 4 <;> simp [h]

theorem H264_unpack_total (t : H264) (buf : Bytes) :
    (H264.unpack t buf).2 = .ok true ∨ (H264.unpack t buf).2 = .error .value ∨ (H264.unpack t buf).2 = .error .type := by
  rw [H264_unpack_result]
  cases utf8Len buf with
  | none => simp
  | some n => by_cases h : n < 4 <;> simp [h]

/-- no buffer is ever decoded into a NAL: whatever the object held, it holds the empty list afterwards
    (`self.nals = []` is the first statement, and the loop over the offsets never runs) -/
theorem H264_unpack_never_decodes (t : H264) (buf : Bytes) : (H264.unpack t buf).1 = H264.fresh := by
  simp only [H264.unpack, H264.fresh]
  repeat' split
  all_goals rfl

/-- `utf8Len` counts at most one character per byte (the work bound of the decode step) -/
theorem H264_utf8_chars_le (buf : Bytes) (n : Nat) (h : utf8Len buf = some n) : n ≤ buf.length :=
  utf8Len_le buf n h

/-- `ParserAligned.ARINC429.unpack`: a value or the `ValueError` of the length check; the label table has
    an entry for every byte value, so the `IndexError` branch of the model is dead -/
theorem PA429_unpack_total (t : A429) (buf : Bytes) :
    (A429.unpack t buf).2 = .ok () ∨ (A429.unpack t buf).2 = .error .value := by
  by_cases h : buf.length = 4
  · left
    obtain ⟨b1, b2, b3, b4, rfl⟩ := len4 buf h
    obtain ⟨l, _, hu⟩ := A429_unpack_cons t b1 b2 b3 b4
    rw [hu]
  · right; rw [A429_unpack_badlen t buf h]

/-- the length check is the only one: exactly the four-byte buffers are accepted -/
theorem PA429_accepts_iff (t : A429) (buf : Bytes) : (A429.unpack t buf).2 = .ok () ↔ buf.length = 4 := by
  by_cases h : buf.length = 4
  · obtain ⟨b1, b2, b3, b4, rfl⟩ := len4 buf h
    obtain ⟨l, _, hu⟩ := A429_unpack_cons t b1 b2 b3 b4
    simp [hu]
  · rw [A429_unpack_badlen t buf h]; simp [h]

/-- `IPv6.unpack` is a stub: a bare `Exception` on every input -/
theorem IPv6_unpack_total (t : IPv6) (buf : Bytes) : (IPv6.unpack t buf).2 = .error .generic := rfl

/-! non-vacuity of the hypotheses above -/
example : ([5] : Bytes).length < 2 := by decide
example : ([0, 0, 0, 1] : Bytes).length < 5 := by decide
example : utf8Len [0xC3, 0xA9, 0x61] = some 2 := by decide
example : (H264.unpack H264.fresh [0x61, 0x62, 0x63, 0x64]).2 = .error .type := by rfl
example : (H264.unpack H264.fresh [0x61, 0x62, 0x63]).2 = .ok true := by rfl
example : (H264.unpack H264.fresh [0xFF]).2 = .error .value := by rfl

end Acra.Props.C08
