/-
  C08, memory clause — `Pcap.next` reads the data of a record in bounded pieces (fix 0e0a76e: a corrupt `incl_len` of
  0xFFFFFFFF in a 41-byte file made `read(incl_len)` allocate 4 GiB before discovering that one byte is left).

  `Model.Pcap.readLoop` is the loop `_todo = incl_len; while _todo > 0: _chunk = read(min(_todo, 1 << 20)); if not
  _chunk: break; _chunks.append(_chunk); _todo -= len(_chunk)` statement by statement; it records the argument of every
  `read()`.  `READ_CHUNK` (= 1 << 20) is regenerated from the source (`Gen/Pcap.lean`).  For ANY file contents after
  the file position and ANY `incl_len`:
  * `Pcap_readLoop_eq_take` — the loop terminates (fuel `bytes left + 1`) and `b"".join(_chunks)` is exactly what ONE
    `read(incl_len)` would have returned (`take`), the file position ends where it would have ended (`drop`);
  * … no single `read()` asks for more than the piece size (nor for more than is still wanted, nor for 0 bytes), and
    at most `min incl_len (bytes left) / piece + 2` calls are made;
  * `Pcap_next_chunked_eq` — `Pcap.next` with the loop spelled out (`nextRecChunked`) IS `nextRec`, the one-`take`
    model that `next`, the driver and the C05 theorems use; every `read()` of record data asks for ≤ `READ_CHUNK`;
  * `Pcap_next_memory` — what `next` holds afterwards is bounded by the bytes of the FILE, whatever `incl_len` says.
-/
import Acra.Lemmas.PcapChunk
import Acra.Lemmas.Pcap
namespace Acra.Props.C08
open Acra.Py Acra.Model.Pcap Acra.Gen.Pcap Acra.Lemmas.Pcap

/-- the bounded-piece loop from ANY loop state equals one `take` / `drop`; every request is positive, at most the
    piece size and at most what is still wanted; the number of requests is bounded by the bytes delivered -/
theorem Pcap_readLoop_eq_take (chunk : Nat) (hc : 0 < chunk) (rest : Bytes) (todo : Nat) (acc : Bytes) (asks : List Nat) :
    ∃ asks', readLoop chunk (rest.length + 1) rest todo acc asks = .ok (acc ++ rest.take todo, rest.drop todo, asks ++ asks') ∧
      (∀ a ∈ asks', 0 < a ∧ a ≤ chunk ∧ a ≤ todo) ∧
      asks'.length ≤ min todo rest.length / chunk + 2 := by
  obtain ⟨asks', h, hall, hcnt, _⟩ := readLoop_spec chunk hc (rest.length + 1) rest todo acc asks (Nat.le_refl _)
  refine ⟨asks', h, hall, Nat.le_trans hcnt ?_⟩
  unfold readCalls
  generalize min todo rest.length / chunk = q
  split <;> omega

/-- the piece size the library uses is positive -/
example : 0 < READ_CHUNK := by decide
/-- … and at most 1 MiB: with the bound below, no `read()` of record data allocates more than that, whatever the file
    says (`READ_CHUNK` is regenerated from the literal in `Pcap.next`; a larger literal fails this theorem) -/
theorem Pcap_read_chunk_le : READ_CHUNK ≤ 1048576 := by decide
/-- the hypothesis is needed: with a piece size of 0 the first `read(0)` returns nothing and the loop gives up -/
example : (readLoop 0 4 [1, 2, 3] 2 [] []).toOption = some ([], [1, 2, 3], [0]) := by decide

/-- `Pcap.next` with the read loop spelled out is the one-`take` model; every `read()` of record data asks for at most
    `READ_CHUNK` bytes; at most `(bytes after the header) / READ_CHUNK + 2` such calls -/
theorem Pcap_next_chunked_eq (rest : Bytes) :
    ∃ asks, nextRecChunked rest = .ok (nextRec rest, asks) ∧ (∀ a ∈ asks, 0 < a ∧ a ≤ READ_CHUNK) ∧
      asks.length ≤ (rest.length - 16) / READ_CHUNK + 2 :=
  nextRecChunked_spec rest

/-- memory after `next`: the record data held is at most the bytes the file has after the 16-byte record header —
    never `incl_len` bytes when the file is shorter — and the length fields are reset to it -/
theorem Pcap_next_memory (rest : Bytes) (r : Rec) (n : Nat) (h : nextRec rest = some (r, n)) :
    r.payload.length + 16 ≤ rest.length ∧ r.incl_len = r.payload.length ∧ n = 16 + r.payload.length := by
  obtain ⟨_, h2, h3, h4, _⟩ := nextRec_some rest r n h
  omega

/-- the file of the fix: a record header announcing 0xFFFFFFFF bytes, one byte of data.  Two `read()` calls of 1 MiB
    each (the second returns nothing), one byte held — where `read(incl_len)` asked for 4 GiB -/
example : (nextRecChunked ([0, 0, 0, 0, 0, 0, 0, 0, 0xFF, 0xFF, 0xFF, 0xFF, 0xFF, 0xFF, 0xFF, 0xFF] ++ [7])).toOption =
    some (some ({ sec := 0, usec := 0, incl_len := 1, orig_len := 1, payload := [7] }, 17), [1048576, 1048576]) := by
  decide +kernel
/-- … and it satisfies the hypothesis of `Pcap_next_memory` -/
example : nextRec ([0, 0, 0, 0, 0, 0, 0, 0, 0xFF, 0xFF, 0xFF, 0xFF, 0xFF, 0xFF, 0xFF, 0xFF] ++ [7]) =
    some ({ sec := 0, usec := 0, incl_len := 1, orig_len := 1, payload := [7] }, 17) := by decide +kernel
/-- data longer than one piece is read in several: 10 bytes wanted and there, piece size 4 → requests 4, 4, 2;
    12 wanted, 10 there → 4, 4, 4 (2 delivered), 2 (nothing delivered: stop) -/
example : (readLoop 4 (10 + 1) [0, 1, 2, 3, 4, 5, 6, 7, 8, 9] 10 [] []).toOption = some ([0, 1, 2, 3, 4, 5, 6, 7, 8, 9], [], [4, 4, 2]) ∧
    (readLoop 4 (10 + 1) [0, 1, 2, 3, 4, 5, 6, 7, 8, 9] 12 [] []).toOption = some ([0, 1, 2, 3, 4, 5, 6, 7, 8, 9], [], [4, 4, 4, 2]) := by
  decide

end Acra.Props.C08
