/-
  C08 — work bound of `get_aligned_payload` by the STRIDE of its loop (the existing `gap_items_le` bounds the number
  of yielded tuples by the model's fuel `len(payload) + len(remainder) + 2`, which says something about the real code
  only together with `gap_fuel_sufficient`).

  Every iteration yields one tuple.  A normal iteration consumes a whole PTDP, ≥ 6 bytes (`PTDP_unpack_progress`); a
  low-latency iteration consumes the PTDP and its continuation byte, ≥ 7 bytes of the frame payload.  The loop makes at
  most TWO passes: the low-latency prefix of the payload, then — after the single switch — either the payload again
  from `ptdp_offset` or `remainder ++ rest of the payload`.  Hence, for ANY frame object, flag and remainder
  (`remainder=None` counts as 0 bytes):
      tuples ≤ (|payload| + |remainder|)/6 + 1                       frame without the LLP flag
      tuples ≤ |payload|/7 + 1 + (|payload| + |remainder|)/6 + 1     frame with the LLP flag.
  The bound does not mention the fuel and holds for every fuel (`gapLoop_items_need`).
  The second pass is real: on the first frame (or with an empty remainder) the loop, after the low-latency prefix,
  restarts from `payload[ptdp_offset:]` wherever the offset field points — also back INTO the low-latency prefix.  Witness
  on the real code (/repo, checked by running it; not kernel-checkable because of the Golay tables): the 7-byte unit
  `BA FE 0A 08 00 10 FF` is an empty low-latency PTDP + continuation byte, and read from its second byte (wrapping into
  the next unit) it is a 1-byte normal PTDP; the frame `unit × 6` (last byte 00), 42 bytes, LLP flag set,
  `ptdp_offset = 1`, `get_aligned_payload(True, b"")` yields 13 tuples (6 low-latency + 6 normal + the closing one);
  `unit × 30`, 210 bytes: 61.  So the single-pass figure `(|payload| + |remainder|)/6 + 2` (review-rev1, C08 item 4:
  9 resp. 37) is FALSE for flagged frames; the two-pass bound below gives 15 resp. 67.
-/
import Acra.Lemmas.Chapter7GapStride
namespace Acra.Props.C08
open Acra.Py Acra.Model Acra.Model.Chapter7 Acra.Lemmas.Chapter7

/-- work bound by stride: 6 bytes per normal PTDP, 7 per low-latency PTDP, at most two passes -/
theorem gap_items_le_stride (self : PTFR.State) (first : Bool) (rem : Option Bytes) :
    (getAlignedPayload self first rem).items.length ≤
      (if self.llp then self.payload.length / 7 + 1 else 0) + (self.payload.length + (rem.getD []).length) / 6 + 1 :=
  gap_items_stride self first rem

/-- the same from any loop state and for ANY fuel (not only the one `get_aligned_payload` passes): the tuples still to
    come are bounded by the bytes still to be parsed, 7 per low-latency PTDP / 6 per normal PTDP -/
theorem gapLoop_items_le_stride (self : PTFR.State) (first : Bool) (rem : Option Bytes) (fuel : Nat) (st : GapSt)
    (hinv : st.isLlp = true → st.buf.length ≤ self.payload.length) :
    (gapLoop self first rem fuel st).items.length ≤
      if st.isLlp then st.buf.length / 7 + (self.payload.length + (rem.getD []).length) / 6 + 2
      else st.buf.length / 6 + 1 :=
  gapLoop_items_need self first rem fuel st hinv

/-- `hinv` holds in the start state of `get_aligned_payload` on a flagged frame (buffer = payload) and in a normal-phase state -/
example : (({ buf := [1, 2, 3], isLlp := true, byteOffset := 0, doCheck := true, checkCount := 0 } : GapSt).isLlp = true →
    ({ buf := [1, 2, 3], isLlp := true, byteOffset := 0, doCheck := true, checkCount := 0 } : GapSt).buf.length ≤
      ({ PTFR.fresh with payload := [1, 2, 3], llp := true } : PTFR.State).payload.length) := fun _ => Nat.le_refl _

/-- a 2047-byte frame with a 2047-byte remainder: at most 683 tuples (fuel bound: 4096); flagged: 976 -/
example : (2047 + 2047) / 6 + 1 = 683 ∧ 2047 / 7 + 1 + (2047 + 2047) / 6 + 1 = 976 := by decide

end Acra.Props.C08
