import Acra.Model.ParserAligned
import Acra.Lemmas.Bits
import Acra.Lemmas.ReviewC08Records
import Acra.Lemmas.RecordsErr
namespace Acra.Props.C08
open Acra.Py Acra.Model.ParserAligned Acra.Gen.ParserAligned

/-- `ParserAlignedBlock.unpack` is straight-line code: a value, ValueError or struct.error -/
theorem ParserAlignedBlock_unpack_total (t : Block) (buf : Bytes) :
    (∃ n, (Block.unpack t buf).2 = .ok n) ∨ (Block.unpack t buf).2 = .error .value ∨
      (Block.unpack t buf).2 = .error .struct := by
  simp only [Block.unpack]
  repeat' split
  all_goals first
    | (simp; done)
    | (rename_i e h; have := structUnpackFrom_error _ _ _ _ h; subst this; simp)

/-- an accepted block is at least the 8-byte header long (`quadbytes ≥ 2` is checked before use) -/
theorem ParserAlignedBlock_advance (t : Block) (buf : Bytes) (n : Nat) (h : (Block.unpack t buf).2 = .ok n) :
    8 ≤ n ∧ n ≤ buf.length := by
  simp only [Block.unpack, PAB_HEADERLEN] at h
  split at h
  · split at h
    · simp at h
    · rename_i q mc bi et _ hq
      by_cases hc : buf.length < 8 + ((q &&& 511) - 2) * 4
      · simp [hc] at h
      · simp only [hc, if_false, Except.ok.injEq] at h
        subst h
        omega
  · simp at h
  · simp at h

/-- every iteration of the packet loop consumes at least 8 bytes, never reports `fuel`, and fails on
    an empty remainder -/
theorem decBlock_progress : Progress decBlock where
  pos := by
    intro b x n h
    simp only [decBlock] at h
    split at h
    · rename_i blk m hm
      simp only [Except.ok.injEq, Prod.mk.injEq] at h
      have := ParserAlignedBlock_advance Block.fresh b m (by rw [hm])
      omega
    · simp at h
  nofuel := by
    intro b h
    simp only [decBlock] at h
    split at h
    · simp at h
    · rename_i blk e he
      simp only [Except.error.injEq] at h
      subst h
      rcases ParserAlignedBlock_unpack_total Block.fresh b with ⟨n, hn⟩ | hv | hs
      · rw [he] at hn; simp at hn
      · rw [he] at hv; simp at hv
      · rw [he] at hs; simp at hs
  empty := by
    intro x n h
    simp [decBlock, Block.unpack, structUnpackFrom, PAB_FORMAT, Fmt.size, codesSize, Code.size] at h

/-- `ParserAlignedPacket.unpack` terminates on every buffer -/
theorem ParserAlignedPacket_unpack_total (t : Packet) (buf : Bytes) : (Packet.unpack t buf).2 ≠ .error .fuel := by
  simp only [Packet.unpack]
  have := decOff_fuel_sufficient decBlock moreLt buf decBlock_progress (buf.length + 1) 0 (by omega)
  cases hd : decOff decBlock moreLt buf (buf.length + 1) 0 with
  | ok bs => simp
  | error e => simp; intro he; exact this (he ▸ hd)

/-- work bound: at most one block per byte of the buffer -/
theorem ParserAlignedPacket_items_le (t : Packet) (buf : Bytes) (h : (Packet.unpack t buf).2 = .ok ()) :
    (Packet.unpack t buf).1.parserblocks.length ≤ buf.length := by
  revert h
  simp only [Packet.unpack]
  cases hd : decOff decBlock moreLt buf (buf.length + 1) 0 with
  | error e => simp
  | ok bs =>
    intro _
    have := decOff_items_le decBlock moreLt buf decBlock_progress _ 0 bs hd
    simpa using this

/-- [review] the per-iteration bound for the loop step: an accepted block advances by `4·quadbytes`, at least
    the 8-byte header and never past the end of the buffer -/
theorem decBlock_advance_ge (b : Bytes) (x : Block) (n : Nat) (h : decBlock b = .ok (x, n)) :
    8 ≤ n ∧ n ≤ b.length := by
  simp only [decBlock] at h
  split at h
  · rename_i blk m hm
    simp only [Except.ok.injEq, Prod.mk.injEq] at h
    have := ParserAlignedBlock_advance Block.fresh b m (by rw [hm])
    omega
  · simp at h

/-- [review] witness: two blocks (quadbytes 3 with a 4-byte payload, quadbytes 2) -/
def wPAP : Bytes := [0, 3, 0, 1, 0, 2, 0, 5, 1, 2, 3, 4,  0, 2, 0, 0, 0, 0, 0, 0]
example : (Packet.unpack Packet.fresh wPAP).2 = .ok () ∧ (Packet.unpack Packet.fresh wPAP).1.parserblocks.length = 2 := ⟨by rfl, by rfl⟩
example : (Block.unpack Block.fresh wPAP).2 = .ok 12 := by rfl
example : decBlock wPAP = .ok ({ Block.fresh with quadbytes := 3, messagecount := 0, busid := 1, elapsedtime := 131077, payload := [1, 2, 3, 4] }, 12) := by rfl

/-- [review] work bound with the real stride: at most `|buf| / 8` blocks -/
theorem ParserAlignedPacket_items_stride (t : Packet) (buf : Bytes) (h : (Packet.unpack t buf).2 = .ok ()) :
    (Packet.unpack t buf).1.parserblocks.length * 8 ≤ buf.length := by
  revert h
  simp only [Packet.unpack]
  cases hd : decOff decBlock moreLt buf (buf.length + 1) 0 with
  | error e => simp
  | ok bs =>
    intro _
    have := Acra.Lemmas.ReviewC08.decOff_items_stride_exact decBlock moreLt buf 8 decBlock_advance_ge _ 0 bs hd
    simpa using this
/-! ### packet-level outcome list (review B4): `ParserAlignedPacket.unpack` returns, or raises `ValueError` or
    `struct.error`; each kind is the exception of the FIRST block that fails, and the block-level kinds are
    characterised on the bytes -/

/-- the block decoder's exceptions, on the bytes (`q` = the low nine bits of the first half word):
    `struct.error` iff the 8-byte header is incomplete; `ValueError` iff it is complete and `q < 2` or the
    `4·q` bytes of the block are not all there -/
theorem ParserAlignedBlock_error_iff (t : Block) (buf : Bytes) :
    ((Block.unpack t buf).2 = .error .struct ↔ buf.length < 8) ∧
    ((Block.unpack t buf).2 = .error .value ↔
      8 ≤ buf.length ∧ (beNat (buf.take 2) % 512 < 2 ∨ buf.length < 4 * (beNat (buf.take 2) % 512))) := by
  by_cases h8 : 8 ≤ buf.length
  · have hh : ∃ mc bi et, structUnpackFrom PAB_FORMAT buf 0 = .ok [beNat (buf.take 2), mc, bi, et] := by
      simp only [structUnpackFrom, PAB_FORMAT, Fmt.size, codesSize, Code.size, unpackCodes, decInt, List.drop_zero]
      have : 0 + (2 + (1 + (1 + (4 + 0)))) ≤ buf.length := by omega
      simp only [this, if_true]
      exact ⟨_, _, _, rfl⟩
    obtain ⟨mc, bi, et, hh⟩ := hh
    by_cases hq : beNat (buf.take 2) % 512 < 2
    · have hr : (Block.unpack t buf).2 = .error .value := by
        simp only [Block.unpack, hh, Acra.Lemmas.Bits.and_1FF, PAB_HEADERLEN, hq, if_true]
      rw [hr]
      exact ⟨⟨fun h => (by cases h), fun h => (by omega)⟩, fun _ => ⟨h8, Or.inl hq⟩, fun _ => rfl⟩
    · by_cases hc : buf.length < 8 + (beNat (buf.take 2) % 512 - 2) * 4
      · have hr : (Block.unpack t buf).2 = .error .value := by
          simp only [Block.unpack, hh, Acra.Lemmas.Bits.and_1FF, PAB_HEADERLEN, hq, if_false, hc, if_true]
        rw [hr]
        exact ⟨⟨fun h => (by cases h), fun h => (by omega)⟩, fun _ => ⟨h8, Or.inr (by omega)⟩, fun _ => rfl⟩
      · have hr : (Block.unpack t buf).2 = .ok (beNat (buf.take 2) % 512 * 4) := by
          simp only [Block.unpack, hh, Acra.Lemmas.Bits.and_1FF, PAB_HEADERLEN, hq, if_false, hc]
        rw [hr]
        exact ⟨⟨fun h => (by cases h), fun h => (by omega)⟩, fun h => (by cases h), fun h => (by omega)⟩
  · have : structUnpackFrom PAB_FORMAT buf 0 = .error .struct := by
      simp only [structUnpackFrom, PAB_FORMAT, Fmt.size, codesSize, Code.size]
      have : ¬ (0 + (2 + (1 + (1 + (4 + 0)))) ≤ buf.length) := by omega
      simp [this]
    have hr : (Block.unpack t buf).2 = .error .struct := by simp only [Block.unpack, this]
    rw [hr]
    exact ⟨⟨fun _ => (by omega), fun _ => rfl⟩, fun h => (by cases h), fun h => absurd h.1 h8⟩

/-- `ParserAlignedPacket.unpack` ends with exception `e` exactly when, after decoding the blocks `bs` one after
    the other from offset 0, it stands at an offset `o` inside the buffer where the block decoder raises `e` -/
theorem ParserAlignedPacket_unpack_error_iff (t : Packet) (buf : Bytes) (e : Err) :
    (Packet.unpack t buf).2 = .error e ↔
      ∃ bs o, Acra.Lemmas.RecordsErr.Reach decBlock moreLt buf 0 bs o ∧ o < buf.length ∧
        (Block.unpack Block.fresh (buf.drop o)).2 = .error e := by
  have key := Acra.Lemmas.RecordsErr.decOff_error_iff decBlock moreLt buf decBlock_progress (buf.length + 1) 0 (by omega) e
  have hstep : ∀ o, decBlock (buf.drop o) = .error e ↔ (Block.unpack Block.fresh (buf.drop o)).2 = .error e := by
    intro o
    simp only [decBlock]
    cases Block.unpack Block.fresh (buf.drop o) with
    | mk b r => cases r <;> simp
  simp only [Packet.unpack]
  cases hd : decOff decBlock moreLt buf (buf.length + 1) 0 with
  | ok bs =>
    simp only [reduceCtorEq, false_iff]
    rintro ⟨bs', o, hr, ho, he⟩
    have := key.2 ⟨bs', o, hr, by simpa [moreLt] using ho, (hstep o).2 he⟩
    rw [hd] at this; cases this
  | error e' =>
    simp only [Except.error.injEq]
    constructor
    · rintro rfl
      obtain ⟨bs, o, hr, hm, he⟩ := key.1 hd
      exact ⟨bs, o, hr, by simpa [moreLt] using hm, (hstep o).1 he⟩
    · rintro ⟨bs, o, hr, ho, he⟩
      have := key.2 ⟨bs, o, hr, by simpa [moreLt] using ho, (hstep o).2 he⟩
      rw [hd] at this
      cases this; rfl

/-- the outcome list: a value, `ValueError`, or `struct.error` — nothing else, in particular never `fuel` -/
theorem ParserAlignedPacket_unpack_outcomes (t : Packet) (buf : Bytes) :
    (Packet.unpack t buf).2 = .ok () ∨ (Packet.unpack t buf).2 = .error .value ∨
    (Packet.unpack t buf).2 = .error .struct := by
  cases hr : (Packet.unpack t buf).2 with
  | ok u => exact Or.inl rfl
  | error e =>
    obtain ⟨bs, o, _, _, he⟩ := (ParserAlignedPacket_unpack_error_iff t buf e).1 hr
    rcases ParserAlignedBlock_unpack_total Block.fresh (buf.drop o) with ⟨n, hn⟩ | hv | hs
    · rw [he] at hn; cases hn
    · rw [he] at hv; cases hv; exact Or.inr (Or.inl rfl)
    · rw [he] at hs; cases hs; exact Or.inr (Or.inr rfl)

/-- every outcome is reachable: `wPAP` is accepted; a second block of three quadbytes cut by one byte / declaring one quadbyte →
    `ValueError`; three stray bytes after the first block → `struct.error`.  In each case the failing block is the
    SECOND one (the first was decoded: `Reach` with one block, offset 12). -/
example : (Packet.unpack Packet.fresh wPAP).2 = .ok () := by rfl
example : (Packet.unpack Packet.fresh (wPAP.take 12 ++ [0, 3, 0, 0, 0, 0, 0, 0, 1, 2, 3])).2 = .error .value := by rfl
example : (Packet.unpack Packet.fresh (wPAP.take 12 ++ [0, 1, 0, 0, 0, 0, 0, 0])).2 = .error .value := by rfl
example : (Packet.unpack Packet.fresh (wPAP.take 15)).2 = .error .struct := by rfl
example : Acra.Lemmas.RecordsErr.Reach decBlock moreLt (wPAP.take 15) 0
    [{ Block.fresh with quadbytes := 3, messagecount := 0, busid := 1, elapsedtime := 131077, payload := [1, 2, 3, 4] }] 12 ∧
    (Block.unpack Block.fresh ((wPAP.take 15).drop 12)).2 = .error .struct :=
  ⟨⟨by rfl, 12, by rfl, by rfl⟩, by rfl⟩

end Acra.Props.C08
