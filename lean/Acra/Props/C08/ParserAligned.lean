import Acra.Model.ParserAligned
import Acra.Lemmas.Bits
import Acra.Lemmas.ReviewC08Records
namespace Acra.Props.C08
open Acra.Py Acra.Model.ParserAligned Acra.Gen.ParserAligned

/-- `ParserAlignedBlock.unpack` is straight-line code: a value, ValueError or struct.error -/
theorem ParserAlignedBlock_unpack_total (t : Block) (buf : Bytes) :
    (∃ n, (Block.unpack t buf).2 = .ok n) ∨ (Block.unpack t buf).2 = .error .value ∨
      (Block.unpack t buf).2 = .error .struct := by
  simp only [Block.unpack]
  repeat' split
  all_goals first
    | (simp; done)
    | (rename_i e h; have := structUnpackFrom_error _ _ _ _ h; subst this; simp)

/-- an accepted block is at least the 8-byte header long (`quadbytes ≥ 2` is checked before use) -/
theorem ParserAlignedBlock_advance (t : Block) (buf : Bytes) (n : Nat) (h : (Block.unpack t buf).2 = .ok n) :
    8 ≤ n ∧ n ≤ buf.length := by
  simp only [Block.unpack, PAB_HEADERLEN] at h
  split at h
  · split at h
    · simp at h
    · rename_i q mc bi et _ hq
      by_cases hc : buf.length < 8 + ((q &&& 511) - 2) * 4
      · simp [hc] at h
      · simp only [hc, if_false, Except.ok.injEq] at h
        subst h
        omega
  · simp at h
  · simp at h

/-- every iteration of the packet loop consumes at least 8 bytes, never reports `fuel`, and fails on
    an empty remainder -/
theorem decBlock_progress : Progress decBlock where
  pos := by
    intro b x n h
    simp only [decBlock] at h
    split at h
    · rename_i blk m hm
      simp only [Except.ok.injEq, Prod.mk.injEq] at h
      have := ParserAlignedBlock_advance Block.fresh b m (by rw [hm])
      omega
    · simp at h
  nofuel := by
    intro b h
    simp only [decBlock] at h
    split at h
    · simp at h
    · rename_i blk e he
      simp only [Except.error.injEq] at h
      subst h
      rcases ParserAlignedBlock_unpack_total Block.fresh b with ⟨n, hn⟩ | hv | hs
      · rw [he] at hn; simp at hn
      · rw [he] at hv; simp at hv
      · rw [he] at hs; simp at hs
  empty := by
    intro x n h
    simp [decBlock, Block.unpack, structUnpackFrom, PAB_FORMAT, Fmt.size, codesSize, Code.size] at h

/-- `ParserAlignedPacket.unpack` terminates on every buffer -/
theorem ParserAlignedPacket_unpack_total (t : Packet) (buf : Bytes) : (Packet.unpack t buf).2 ≠ .error .fuel := by
  simp only [Packet.unpack]
  have := decOff_fuel_sufficient decBlock moreLt buf decBlock_progress (buf.length + 1) 0 (by omega)
  cases hd : decOff decBlock moreLt buf (buf.length + 1) 0 with
  | ok bs => simp
  | error e => simp; intro he; exact this (he ▸ hd)

/-- work bound: at most one block per byte of the buffer -/
theorem ParserAlignedPacket_items_le (t : Packet) (buf : Bytes) (h : (Packet.unpack t buf).2 = .ok ()) :
    (Packet.unpack t buf).1.parserblocks.length ≤ buf.length := by
  revert h
  simp only [Packet.unpack]
  cases hd : decOff decBlock moreLt buf (buf.length + 1) 0 with
  | error e => simp
  | ok bs =>
    intro _
    have := decOff_items_le decBlock moreLt buf decBlock_progress _ 0 bs hd
    simpa using this

/-- [review] the per-iteration bound for the loop step: an accepted block advances by `4·quadbytes`, at least
    the 8-byte header and never past the end of the buffer -/
theorem decBlock_advance_ge (b : Bytes) (x : Block) (n : Nat) (h : decBlock b = .ok (x, n)) :
    8 ≤ n ∧ n ≤ b.length := by
  simp only [decBlock] at h
  split at h
  · rename_i blk m hm
    simp only [Except.ok.injEq, Prod.mk.injEq] at h
    have := ParserAlignedBlock_advance Block.fresh b m (by rw [hm])
    omega
  · simp at h

/-- [review] witness: two blocks (quadbytes 3 with a 4-byte payload, quadbytes 2) -/
def wPAP : Bytes := [0, 3, 0, 1, 0, 2, 0, 5, 1, 2, 3, 4,  0, 2, 0, 0, 0, 0, 0, 0]
example : (Packet.unpack Packet.fresh wPAP).2 = .ok () ∧ (Packet.unpack Packet.fresh wPAP).1.parserblocks.length = 2 := ⟨by rfl, by rfl⟩
example : (Block.unpack Block.fresh wPAP).2 = .ok 12 := by rfl
example : decBlock wPAP = .ok ({ Block.fresh with quadbytes := 3, messagecount := 0, busid := 1, elapsedtime := 131077, payload := [1, 2, 3, 4] }, 12) := by rfl

/-- [review] work bound with the real stride: at most `|buf| / 8` blocks -/
theorem ParserAlignedPacket_items_stride (t : Packet) (buf : Bytes) (h : (Packet.unpack t buf).2 = .ok ()) :
    (Packet.unpack t buf).1.parserblocks.length * 8 ≤ buf.length := by
  revert h
  simp only [Packet.unpack]
  cases hd : decOff decBlock moreLt buf (buf.length + 1) 0 with
  | error e => simp
  | ok bs =>
    intro _
    have := Acra.Lemmas.ReviewC08.decOff_items_stride_exact decBlock moreLt buf 8 decBlock_advance_ge _ 0 bs hd
    simpa using this
end Acra.Props.C08
