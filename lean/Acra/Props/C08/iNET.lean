import Acra.Model.iNET
import Acra.Lemmas.ReviewC08Records
import Acra.Props.C09.iNET
namespace Acra.Props.C08
open Acra.Py Acra.Model.iNET Acra.Gen.iNET

/-- `iNETPackage.unpack` is straight-line code: the rest of the buffer, ValueError (length field
    shorter than the header) or struct.error (header incomplete) -/
theorem iNETPackage_unpack_total (t : Pkg) (buf : Bytes) :
    (∃ r, (Pkg.unpack t buf).2 = .ok r) ∨ (Pkg.unpack t buf).2 = .error .value ∨
      (Pkg.unpack t buf).2 = .error .struct := by
  simp only [Pkg.unpack]
  repeat' split
  all_goals first
    | (simp; done)
    | (rename_i e h; have := structUnpackFrom_error _ _ _ _ h; subst this; simp)

/-- an accepted package declares at least the 12-byte header: the loop always advances (this is the
    check that `fix: iNETPackage.unpack rejects a length field shorter than the package header` added;
    without it a length field of 0 consumed nothing and `iNET.unpack` never returned) -/
theorem iNETPackage_accepted_length (t : Pkg) (buf r : Bytes) (h : (Pkg.unpack t buf).2 = .ok r) :
    12 ≤ (Pkg.unpack t buf).1.length ∧ 12 ≤ buf.length := by
  revert h
  simp only [Pkg.unpack, PKG_FORMAT_LEN]
  split
  · rename_i d l res f td hh
    have := structUnpackFrom_ok_length _ _ _ _ hh
    simp only [PKG_FORMAT, Fmt.size, codesSize, Code.size] at this
    by_cases hl : l < 12
    · simp [hl]
    · simp [hl]; omega
  · simp
  · simp

theorem decPkg_progress : Progress decPkg where
  pos := by
    intro b x n h
    simp only [decPkg] at h
    split at h
    · rename_i p r hp
      simp only [Except.ok.injEq, Prod.mk.injEq] at h
      have := iNETPackage_accepted_length Pkg.fresh b r (by rw [hp])
      rw [hp] at this
      obtain ⟨h1, h2⟩ := h
      subst h1
      simp only at this
      omega
    · simp at h
  nofuel := by
    intro b h
    simp only [decPkg] at h
    split at h
    · simp at h
    · rename_i p e he
      simp only [Except.error.injEq] at h
      subst h
      rcases iNETPackage_unpack_total Pkg.fresh b with ⟨r, hr⟩ | hv | hs
      · rw [he] at hr; simp at hr
      · rw [he] at hv; simp at hv
      · rw [he] at hs; simp at hs
  empty := by
    intro x n h
    simp [decPkg, Pkg.unpack, structUnpackFrom, PKG_FORMAT, Fmt.size, codesSize, Code.size] at h

/-- [review] the per-iteration bound, stated for the loop step: an accepted package advances the offset by
    its declared length (≥ 12, the check added for D10) rounded up to a multiple of 4 -/
theorem decPkg_advance_ge (b : Bytes) (p : Pkg) (n : Nat) (h : decPkg b = .ok (p, n)) :
    12 ≤ n ∧ n % 4 = 0 ∧ p.length ≤ n ∧ n < p.length + 4 ∧ 12 ≤ b.length := by
  simp only [decPkg] at h
  split at h
  · rename_i p' r hp
    simp only [Except.ok.injEq, Prod.mk.injEq] at h
    have := iNETPackage_accepted_length Pkg.fresh b r (by rw [hp])
    rw [hp] at this
    obtain ⟨h1, h2⟩ := h
    subst h1
    simp only at this
    subst h2
    by_cases hm : p'.length % 4 = 0
    · simp [hm]; omega
    · simp [hm]; omega
  · simp at h

/-- `iNET.unpack` terminates on every buffer: the fuel the model gives the package loop is never exhausted -/
theorem iNET_unpack_total (t : State) (buf : Bytes) : (unpack t buf).2 ≠ .error .fuel := by
  simp only [unpack]
  split
  · simp
  · split
    · split
      · rename_i e he
        intro h
        simp only [Except.error.injEq] at h
        subst h
        split at he
        · have := structUnpackFrom_error _ _ _ _ he; simp at this
        · simp at he
      · rename_i af haf
        generalize hp : List.drop (INET_HEADER_LENGTH + _) buf = pl
        have := decOff_fuel_sufficient decPkg moreRem pl decPkg_progress (pl.length + 1) 0 (by omega)
        cases hd : decOff decPkg moreRem pl (pl.length + 1) 0 with
        | ok pk => simp
        | error e => simp; intro he; exact this (he ▸ hd)
    · simp
    · rename_i e he
      have := structUnpackFrom_error _ _ _ _ he
      subst this
      simp

/-- work bound: at most one package per byte of the package area -/
theorem iNET_items_le (t : State) (buf : Bytes) (h : (unpack t buf).2 = .ok ()) :
    (unpack t buf).1.packages.length ≤ buf.length := by
  revert h
  simp only [unpack]
  split
  · simp
  · split
    · split
      · simp
      · rename_i af haf
        generalize hp : List.drop (INET_HEADER_LENGTH + _) buf = pl
        have hpl : pl.length ≤ buf.length := by rw [← hp]; simp
        cases hd : decOff decPkg moreRem pl (pl.length + 1) 0 with
        | error e => simp
        | ok pk =>
          simp only
          intro _
          have := decOff_items_le decPkg moreRem pl decPkg_progress _ 0 pk hd
          omega
    · simp
    · simp

/-- [review] witness: iNET packet, two application fields, packages of 17 (+3 pad) and 12 bytes -/
def wINET : Bytes :=
  [18, 3, 0, 0, 0, 0, 0, 0, 0, 0, 0, 0, 0, 0, 0, 64, 0, 0, 0, 0, 0, 0, 0, 0,  0, 0, 0, 1, 0, 0, 0, 2,
   0, 0, 0, 7, 0, 17, 0, 0, 0, 0, 0, 0, 1, 2, 3, 4, 5, 0, 0, 0,  0, 0, 0, 0, 0, 12, 0, 0, 0, 0, 0, 0]
example : (unpack fresh wINET).2 = .ok () ∧ (unpack fresh wINET).1.packages.length = 2 := ⟨by rfl, by rfl⟩
example : (Pkg.unpack Pkg.fresh (wINET.drop 32)).2 = .ok (wINET.drop 52) ∧ (Pkg.unpack Pkg.fresh (wINET.drop 32)).1.length = 17 := ⟨by rfl, by rfl⟩
example : decPkg (wINET.drop 32) = .ok ({ Pkg.fresh with definitionID := 7, length := 17, payload := [1, 2, 3, 4, 5] }, 20) := by rfl
example : decPkg [0, 0, 0, 7, 0, 0, 0, 0, 0, 0, 0, 0] = .error .value := by rfl

/-- [review] work bound with the real stride: at most ⌈(|buf| − 24)/12⌉ packages -/
theorem iNET_items_stride (t : State) (buf : Bytes) (h : (unpack t buf).2 = .ok ()) :
    (unpack t buf).1.packages.length * 12 ≤ (buf.length - 24) + 11 := by
  revert h
  simp only [unpack]
  split
  · simp
  · split
    · split
      · simp
      · rename_i af haf
        generalize hp : List.drop (INET_HEADER_LENGTH + _) buf = pl
        have hpl : pl.length ≤ buf.length - 24 := by rw [← hp]; simp only [List.length_drop, INET_HEADER_LENGTH]; omega
        cases hd : decOff decPkg moreRem pl (pl.length + 1) 0 with
        | error e => simp
        | ok pk =>
          simp only
          intro _
          have := Acra.Lemmas.ReviewC08.decOff_items_stride decPkg moreRem pl decPkg_progress 12
            (fun b x n hb => (decPkg_advance_ge b x n hb).1) _ 0 pk hd
          omega
    · simp
    · simp
/-! ### packet-level outcome list (review B4) -/

/-- `iNET.unpack` returns, or raises `ValueError`, or `struct.error` — nothing else; and each kind is characterised
    on the bytes (`wc` = low nibble of byte 0, the declared number of option words):
    `ValueError` iff the buffer is shorter than 24 bytes, or — past the option words — the declarative package walk
    reaches a complete package header declaring fewer than 12 bytes (`PkgsReject .value`);
    `struct.error` iff the 24 bytes are there but not all `wc` option words, or the walk reaches, with bytes left, an
    incomplete package header (`PkgsReject .struct`); a value otherwise (`Acra.Props.C09.iNET_accepts_iff_fits`). -/
theorem iNET_unpack_outcomes (t : State) (buf : Bytes) :
    ((unpack t buf).2 = .ok () ∨ (unpack t buf).2 = .error .value ∨ (unpack t buf).2 = .error .struct) ∧
    ((unpack t buf).2 = .error .value ↔ buf.length < 24 ∨
      (24 + 4 * Acra.Props.C09.declaredWc buf ≤ buf.length ∧
        Acra.Lemmas.iNET.PkgsReject .value (buf.drop (24 + 4 * Acra.Props.C09.declaredWc buf)))) ∧
    ((unpack t buf).2 = .error .struct ↔ 24 ≤ buf.length ∧ (buf.length < 24 + 4 * Acra.Props.C09.declaredWc buf ∨
      Acra.Lemmas.iNET.PkgsReject .struct (buf.drop (24 + 4 * Acra.Props.C09.declaredWc buf)))) :=
  ⟨(Acra.Props.C09.iNET_rejects_iff t buf).2.2, (Acra.Props.C09.iNET_rejects_iff t buf).1,
   (Acra.Props.C09.iNET_rejects_iff t buf).2.1⟩

/-- every outcome is reachable, each error kind by both of its causes: `wINET` accepted; 23 bytes → `ValueError`;
    second package declaring 11 → `ValueError`; one of the two option words missing → `struct.error`;
    second package header cut → `struct.error` -/
example : (unpack fresh wINET).2 = .ok () := by rfl
example : (unpack fresh (wINET.take 23)).2 = .error .value := by rfl
example : (unpack fresh (wINET.set 57 11)).2 = .error .value := by rfl
example : (unpack fresh (wINET.take 28)).2 = .error .struct := by rfl
example : (unpack fresh (wINET.take 63)).2 = .error .struct := by rfl

end Acra.Props.C08
