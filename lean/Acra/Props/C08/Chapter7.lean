/-
  C08 — the decoders of the golay7 family are total.
  PTDP.unpack, PTFR.unpack and Golay.decode have no loops; `get_aligned_payload` is a `while` loop
  ended only by a PTDP exception (or a struct.error on the continuation byte): the model gives it
  fuel `len(payload) + len(remainder) + 2` and the fuel never runs out, for ANY frame object,
  remainder and flag.  Work bound: at most that many tuples are yielded.
  (`datapkts_to_ptfr` with `ptfr_len = 0` never terminates; frame lengths start at 1 in C10 and the
  encoder is not a decoder, so that is noted in notes/golay7.md, not stated here.)
-/
import Acra.Lemmas.Chapter7Gap
namespace Acra.Props.C08
open Acra.Py Acra.Model Acra.Model.Chapter7 Acra.Lemmas.Chapter7 Acra.Lemmas.Golay

/-- decode of an int never raises; decode of a byte string raises only for a length other than 3 -/
theorem Golay_decode_total (v : Nat) : ∃ r, Golay.decodeInt v = .ok r := decodeInt_ok v

theorem Golay_decode_bytes_total (b : Bytes) :
    (∃ r, Golay.decodeBytes b = .ok r) ∨ Golay.decodeBytes b = .error .generic := by
  by_cases h : b.length = 3
  · left; exact ⟨_, decodeBytes_gval b h⟩
  · right; exact decodeBytes_bad b h

theorem PTDP_unpack_total (t : PTDP.State) (b : Bytes) :
    (∃ rest, (PTDP.unpack t b).2 = .ok rest) ∨ (PTDP.unpack t b).2 = .error .ptdpRemaining ∨
    (PTDP.unpack t b).2 = .error .ptdpLength := ptdp_unpack_total t b

/-- a successful PTDP.unpack consumes at least its 6 header bytes: the progress fact behind the loop -/
theorem PTDP_unpack_progress (t p : PTDP.State) (b rest : Bytes) (h : PTDP.unpack t b = (p, .ok rest)) :
    rest.length + 6 ≤ b.length := (ptdp_unpack_ok_len t p b rest h).1

theorem PTFR_unpack_total (t : PTFR.State) (b : Bytes) :
    (PTFR.unpack t b).2 = .ok () ∨ (PTFR.unpack t b).2 = .error .struct ∨
    (PTFR.unpack t b).2 = .error .generic := by
  simp only [PTFR.unpack, PTFR.setPayload]
  split
  · rename_i e h
    have := structUnpackFrom_error _ _ _ _ h
    subst this; simp
  · split
    · rename_i e h
      have : e = .generic := by
        rcases Golay_decode_bytes_total (slice b 1 4) with ⟨r, hr⟩ | hr
        · rw [hr] at h; cases h
        · rw [hr] at h; injection h with h; exact h.symm
      subst this; simp
    · split
      · right; right; rfl
      · left; rfl
  · right; left; rfl

/-- `get_aligned_payload` never runs out of fuel -/
theorem gap_fuel_sufficient (self : PTFR.State) (first : Bool) (rem : Option Bytes) :
    (getAlignedPayload self first rem).raised ≠ some .fuel := by
  unfold getAlignedPayload
  simp only
  apply gapLoop_fuel
  · simp only [gapNeed]
    cases hl : self.llp with
    | true => simp only [if_true]; omega
    | false =>
      simp only [Bool.false_eq_true, if_false]
      split
      · simp only [List.length_drop]; omega
      · split
        · simp only [List.length_drop]; omega
        · cases rem with
          | none =>
            simp only [Option.getD_none, List.length_nil]
            split
            · simp only [List.length_nil]; omega
            · omega
          | some r => simp only [Option.getD_some, List.length_append]; omega
  · intro h; simp only at h; simp [h]

/-- work bound: one yielded tuple per iteration, at most `len(payload) + len(remainder) + 2` of them -/
theorem gap_items_le (self : PTFR.State) (first : Bool) (rem : Option Bytes) :
    (getAlignedPayload self first rem).items.length ≤ self.payload.length + (rem.getD []).length + 2 :=
  gapLoop_items_le _ _ _ _ _

/-- the consumer loop makes one `get_aligned_payload` call per frame: it stops after the last frame
    (the model is a fold over the list of frames) and never reports fuel -/
theorem decap_no_fuel (L : Nat) (frames : List Bytes) (st : DecSt) : (decFold L frames st).2 ≠ some .fuel := by
  induction frames generalizing st with
  | nil => simp [decFold]
  | cons f fs ih =>
    unfold decFold
    cases hs : decStep L st f with
    | mk st' e =>
      cases e with
      | none => exact ih st'
      | some e =>
        simp only
        intro h
        injection h with h
        subst h
        unfold decStep at hs
        split at hs
        · rename_i e' he
          injection hs with _ h2
          injection h2 with h2
          rcases PTFR_unpack_total { PTFR.fresh with length := L } f with h | h | h <;>
            rw [he] at h <;> simp at h <;> simp_all
        · injection hs with _ h2
          exact gap_fuel_sufficient _ _ _ h2

/-! ### review additions (rev1-C08) -/

/-- [review] joint witness for `PTDP_unpack_progress` (hypothesis `PTDP.unpack t b = (p, .ok rest)`): a PTDP with a
    3-byte payload followed by two more bytes, decoded into an object in a non-trivial prior state -/
example : ∃ b p rest, PTDP.unpack { PTDP.fresh with payload := [7], content := 2 } b = (p, .ok rest) ∧
    p.payload = [1, 2, 3] ∧ rest = [9, 9] ∧ rest.length + 6 ≤ b.length :=
  ⟨_, _, _, ptdp_unpack_noisy { PTDP.fresh with payload := [1, 2, 3], fragment := 1, content := 4 }
      { PTDP.fresh with payload := [7], content := 2 } (by simp [PTDP_WF]) 0 0 (by decide) (by decide)
      wt_zero_le wt_zero_le [9, 9], rfl, rfl, by simp⟩

/-- [review] both error outcomes of `PTDP_unpack_total` occur: fewer than 6 bytes is "remaining data" -/
example : (PTDP.unpack PTDP.fresh [17, 4, 211]).2 = .error .ptdpRemaining := by
  rw [ptdp_unpack_short _ _ (by decide)]
/-- [review] hidden fuel: the model of Python's `bin()` inside `Golay._onesincode` (`Golay.binDigitsAux`) returns its
    accumulator SILENTLY when the fuel is used up (no `Err.fuel`).  One binary digit is consumed per step, so the fuel
    `n + 1` that `binDigits` passes always suffices: any larger fuel gives the same digits. -/
theorem binDigitsAux_fuel (n : Nat) : ∀ f acc, n ≤ f → Golay.binDigitsAux f n acc = Golay.binDigitsAux n n acc := by
  induction n using Nat.strongRecOn with
  | _ n ih =>
    intro f acc hf
    cases f with
    | zero =>
      have : n = 0 := by omega
      subst this; rfl
    | succ f =>
      cases n with
      | zero => simp [Golay.binDigitsAux]
      | succ n =>
        have h2 : (n + 1) / 2 ≤ n := by omega
        have h1 := ih ((n + 1) / 2) (by omega) f (((n + 1) % 2 == 1) :: acc) (by omega)
        have h3 := ih ((n + 1) / 2) (by omega) n (((n + 1) % 2 == 1) :: acc) h2
        simp only [Golay.binDigitsAux, Nat.succ_ne_zero, if_false, h1, h3]

/-- the fuel `binDigits` actually passes (`n + 1`) is on the stable side -/
theorem binDigits_fuel_sufficient (n f : Nat) (acc : List Bool) (hf : n + 1 ≤ f) :
    Golay.binDigitsAux f n acc = Golay.binDigitsAux (n + 1) n acc := by
  rw [binDigitsAux_fuel n f acc (by omega), binDigitsAux_fuel n (n + 1) acc (by omega)]

example : Golay.binDigits 0b101101 = [true, false, true, true, false, true] := by decide
end Acra.Props.C08
