import Acra.Model.IENAQDN
import Acra.Props.C08.IENA
namespace Acra.Props.C08
open Acra.Py Acra.Model.IENA Acra.Gen.IENA

/-- every iteration of the IENA-Q parameter loop consumes at least the 4-byte parameter header,
    never reports `fuel`, and fails on an empty remainder -/
theorem decQ_progress : Progress decQ where
  pos := by
    intro b x n h
    simp only [decQ, structUnpack] at h
    repeat' split at h
    all_goals simp_all [IENAQ_FORMAT_LEN]
    all_goals omega
  nofuel := by
    intro b h
    simp only [decQ] at h
    repeat' split at h
    all_goals first
      | (simp at h; done)
      | (rename_i e he; have := structUnpack_error _ _ _ he; subst this; simp at h)
  empty := by
    intro x n h
    simp [decQ, structUnpack, IENAQ_FORMAT, IENAQ_FORMAT_LEN, Fmt.size, codesSize, Code.size] at h

/-- [review] the per-iteration bound, stated: an accepted IENA-Q parameter advances the offset by the 4-byte
    header (DESIGN §5 says "IENAM/Q ≥ 6"; for Q the header format `>HH` is 4 bytes) + dataset + pad byte -/
theorem decQ_advance_ge (b : Bytes) (p : QParam) (n : Nat) (h : decQ b = .ok (p, n)) :
    4 ≤ n ∧ n = 4 + p.dataset.length + p.dataset.length % 2 ∧ 4 + p.dataset.length ≤ b.length := by
  simp only [decQ] at h
  split at h
  · rename_i pid m hh
    have hl := structUnpack_ok_length _ _ _ hh
    simp only [IENAQ_FORMAT, IENAQ_FORMAT_LEN, Fmt.size, codesSize, Code.size, List.length_take] at hl
    split at h
    · simp at h
    · rename_i hlt
      simp only [IENAQ_FORMAT_LEN, List.length_drop] at hlt
      simp only [Except.ok.injEq, Prod.mk.injEq, IENAQ_FORMAT_LEN] at h
      obtain ⟨rfl, rfl⟩ := h
      simp only [slice_length]
      have : min (4 + m) b.length - 4 = m := by omega
      rw [this]
      refine ⟨by omega, ?_, by omega⟩
      rcases Nat.mod_two_eq_zero_or_one m with h2 | h2 <;> simp [h2]
  · simp at h
  · simp at h

example : decQ [0, 1, 0, 3, 0xAA, 0xBB, 0xCC, 0, 9, 9] = .ok (⟨1, [0xAA, 0xBB, 0xCC]⟩, 8) := by rfl

/-- `IENAQ.unpack` terminates on every buffer: the fuel the model gives the loop (payload length + 1)
    is never exhausted -/
theorem IENAQ_unpack_total (t : QState) (buf : Bytes) : (QState.unpack t buf).2 ≠ .error .fuel := by
  simp only [QState.unpack]
  have hb := IENA_unpack_nofuel t.base buf
  cases hu : Base.unpack t.base buf with
  | mk b' r =>
    rw [hu] at hb
    cases r with
    | error e => simpa using hb
    | ok u =>
      simp only
      have := decOff_fuel_sufficient decQ moreRem b'.payload decQ_progress (b'.payload.length + 1) 0 (by omega)
      cases hd : decOff decQ moreRem b'.payload (b'.payload.length + 1) 0 with
      | ok ps => simp
      | error e => simp; intro he; exact this (he ▸ hd)

/-- work bound: at most one parameter per byte of payload -/
theorem IENAQ_items_le (t : QState) (buf : Bytes) (h : (QState.unpack t buf).2 = .ok ()) :
    (QState.unpack t buf).1.parameters.length ≤ (QState.unpack t buf).1.base.payload.length := by
  revert h
  simp only [QState.unpack]
  cases hu : Base.unpack t.base buf with
  | mk b' r =>
    cases r with
    | error e => simp
    | ok u =>
      simp only
      cases hd : decOff decQ moreRem b'.payload (b'.payload.length + 1) 0 with
      | error e => simp
      | ok ps =>
        simp only
        intro _
        have h1 := decOff_items_le decQ moreRem b'.payload decQ_progress _ 0 ps hd
        omega

/-- [review] witness: IENA-Q packet with two parameters -/
def wIENAQ : Bytes :=
  [0, 1, 0, 14, 0, 0, 0, 0, 0, 0, 0, 0, 0, 0,  0, 1, 0, 3, 0xAA, 0xBB, 0xCC, 0,  0, 3, 0, 0,  0xDE, 0xAD]

example : (QState.unpack QState.fresh wIENAQ).2 = .ok () ∧
    (QState.unpack QState.fresh wIENAQ).1.parameters = [⟨1, [0xAA, 0xBB, 0xCC]⟩, ⟨3, []⟩] := ⟨by rfl, by rfl⟩

/-- [review] work bound with the real stride, relative to the input length -/
theorem IENAQ_items_stride (t : QState) (buf : Bytes) (h : (QState.unpack t buf).2 = .ok ()) :
    (QState.unpack t buf).1.parameters.length * 4 ≤ (buf.length - 16) + 3 := by
  revert h
  simp only [QState.unpack]
  cases hu : Base.unpack t.base buf with
  | mk b' r =>
    cases r with
    | error e => simp
    | ok u =>
      have hpl := (IENA_unpack_ok_payload t.base buf (by rw [hu])).2.1
      rw [hu] at hpl
      simp only at hpl ⊢
      cases hd : decOff decQ moreRem b'.payload (b'.payload.length + 1) 0 with
      | error e => simp
      | ok ps =>
        simp only
        intro _
        have h1 := Acra.Lemmas.ReviewC08.decOff_items_stride decQ moreRem b'.payload decQ_progress 4
          (fun b x n hb => (decQ_advance_ge b x n hb).1) _ 0 ps hd
        omega

/-- the IENA-D parameter loop is a `for` over a range computed from the payload length: it has no
    fuel to run out of, and returns one parameter per index -/
theorem decD1_error (dwc : Nat) (payload : Bytes) (off : Nat) (e : Err) (h : decD1 dwc payload off = .error e) :
    e = .index := by
  simp only [decD1] at h
  split at h <;> simp_all

theorem decDAll_nofuel (dwc : Nat) (payload : Bytes) (l : List Nat) : decDAll dwc payload l ≠ .error .fuel := by
  induction l with
  | nil => simp [decDAll]
  | cons i is ih =>
    simp only [decDAll]
    cases hd : decD1 dwc payload (i * (dwc * 2 + 4)) with
    | error e => have := decD1_error _ _ _ _ hd; subst this; simp
    | ok p =>
      simp only
      cases hr : decDAll dwc payload is with
      | ok ps => simp
      | error e => simp; intro h; exact ih (h ▸ hr)

theorem decDAll_length (dwc : Nat) (payload : Bytes) (l : List Nat) (ps : List DParam)
    (h : decDAll dwc payload l = .ok ps) : ps.length = l.length := by
  induction l generalizing ps with
  | nil => simp [decDAll] at h; subst h; rfl
  | cons i is ih =>
    simp only [decDAll] at h
    split at h
    · simp at h
    · split at h
      · rename_i ps' hps
        simp only [Except.ok.injEq] at h; subst h
        simp [ih ps' hps]
      · simp at h

theorem IENAD_unpack_total (t : DState) (buf : Bytes) : (DState.unpack t buf).2 ≠ .error .fuel := by
  simp only [DState.unpack]
  have hb := IENA_unpack_nofuel t.base buf
  cases hu : Base.unpack t.base buf with
  | mk b' r =>
    rw [hu] at hb
    cases r with
    | error e => simpa using hb
    | ok u =>
      simp only
      split
      · simp
      · have := decDAll_nofuel (b'.keystatus &&& 0x7) b'.payload (List.range (b'.payload.length / ((b'.keystatus &&& 0x7) * 2 + 4)))
        split
        · simp
        · rename_i e he; simp; intro h; exact this (h ▸ he)

/-- work bound: the number of parameters returned is `|payload| / (2n + 4)`, at most one per byte -/
theorem IENAD_items_le (t : DState) (buf : Bytes) (h : (DState.unpack t buf).2 = .ok ()) :
    (DState.unpack t buf).1.parameters.length ≤ (DState.unpack t buf).1.base.payload.length := by
  revert h
  simp only [DState.unpack]
  cases hu : Base.unpack t.base buf with
  | mk b' r =>
    cases r with
    | error e => simp
    | ok u =>
      simp only
      split
      · simp
      · split
        · rename_i ps hps
          intro _
          have := decDAll_length _ _ _ _ hps
          simp only [List.length_range] at this
          simp only [this]
          exact Nat.div_le_self _ _
        · simp

/-- [review] witness: IENA-D packet, `keystatus & 7 = 1` (6 bytes per parameter), two parameters -/
def wIENAD : Bytes :=
  [0, 1, 0, 14, 0, 0, 0, 0, 0, 0, 1, 0, 0, 0,  0, 1, 0, 2, 0, 3,  0, 4, 0, 5, 0, 6,  0xDE, 0xAD]

example : (DState.unpack DState.fresh wIENAD).2 = .ok () ∧
    (DState.unpack DState.fresh wIENAD).1.parameters = [⟨1, 2, [3]⟩, ⟨4, 5, [6]⟩] := ⟨by rfl, by rfl⟩

example : decDAll 1 [0, 1, 0, 2, 0, 3] [0] = .ok [⟨1, 2, [3]⟩] := by rfl   -- hypothesis of `decDAll_length`
example : decD1 1 [0, 1, 0, 2, 0] 0 = .error .index := by rfl               -- hypothesis of `decD1_error`

/-- [review] the exact count (the `for` loop has no fuel, so the explicit bound is the whole content of C08
    here): an accepted IENA-D packet has exactly `|payload| / (2n+4)` parameters, `n = keystatus & 7`, and
    the payload is a whole number of them — so at most `|payload| / 4 = (|buf| − 16)/4` parameters -/
theorem IENAD_items_eq (t : DState) (buf : Bytes) (h : (DState.unpack t buf).2 = .ok ()) :
    (DState.unpack t buf).1.parameters.length * (((DState.unpack t buf).1.base.keystatus &&& 0x7) * 2 + 4) =
      (DState.unpack t buf).1.base.payload.length ∧
    (DState.unpack t buf).1.base.payload.length = buf.length - 16 := by
  revert h
  simp only [DState.unpack]
  cases hu : Base.unpack t.base buf with
  | mk b' r =>
    cases r with
    | error e => simp
    | ok u =>
      have hpl := (IENA_unpack_ok_payload t.base buf (by rw [hu])).2.1
      rw [hu] at hpl
      simp only at hpl ⊢
      split
      · simp
      · rename_i hrem
        split
        · rename_i ps hps
          intro _
          have := decDAll_length _ _ _ _ hps
          simp only [List.length_range] at this
          simp only [this]
          refine ⟨?_, hpl⟩
          have hdm := Nat.div_add_mod b'.payload.length ((b'.keystatus &&& 0x7) * 2 + 4)
          have hml := Nat.div_mul_le_self b'.payload.length ((b'.keystatus &&& 0x7) * 2 + 4)
          simp only [ne_eq, Decidable.not_not] at hrem
          omega
        · simp

theorem decN1_error (dwc : Nat) (payload : Bytes) (off : Nat) (e : Err) (h : decN1 dwc payload off = .error e) :
    e = .index := by
  simp only [decN1] at h
  split at h <;> simp_all

theorem decNAll_nofuel (dwc : Nat) (payload : Bytes) (l : List Nat) : decNAll dwc payload l ≠ .error .fuel := by
  induction l with
  | nil => simp [decNAll]
  | cons i is ih =>
    simp only [decNAll]
    cases hd : decN1 dwc payload (i * (dwc * 2 + 2)) with
    | error e => have := decN1_error _ _ _ _ hd; subst this; simp
    | ok p =>
      simp only
      cases hr : decNAll dwc payload is with
      | ok ps => simp
      | error e => simp; intro h; exact ih (h ▸ hr)

theorem decNAll_length (dwc : Nat) (payload : Bytes) (l : List Nat) (ps : List NParam)
    (h : decNAll dwc payload l = .ok ps) : ps.length = l.length := by
  induction l generalizing ps with
  | nil => simp [decNAll] at h; subst h; rfl
  | cons i is ih =>
    simp only [decNAll] at h
    split at h
    · simp at h
    · split at h
      · rename_i ps' hps
        simp only [Except.ok.injEq] at h; subst h
        simp [ih ps' hps]
      · simp at h

theorem IENAN_unpack_total (t : NState) (buf : Bytes) : (NState.unpack t buf).2 ≠ .error .fuel := by
  simp only [NState.unpack]
  have hb := IENA_unpack_nofuel t.base buf
  cases hu : Base.unpack t.base buf with
  | mk b' r =>
    rw [hu] at hb
    cases r with
    | error e => simpa using hb
    | ok u =>
      simp only
      split
      · simp
      · have := decNAll_nofuel (b'.keystatus &&& 0x7) b'.payload (List.range (b'.payload.length / ((b'.keystatus &&& 0x7) * 2 + 2)))
        split
        · simp
        · rename_i e he; simp; intro h; exact this (h ▸ he)

theorem IENAN_items_le (t : NState) (buf : Bytes) (h : (NState.unpack t buf).2 = .ok ()) :
    (NState.unpack t buf).1.parameters.length ≤ (NState.unpack t buf).1.base.payload.length := by
  revert h
  simp only [NState.unpack]
  cases hu : Base.unpack t.base buf with
  | mk b' r =>
    cases r with
    | error e => simp
    | ok u =>
      simp only
      split
      · simp
      · split
        · rename_i ps hps
          intro _
          have := decNAll_length _ _ _ _ hps
          simp only [List.length_range] at this
          simp only [this]
          exact Nat.div_le_self _ _
        · simp

/-- [review] witness: IENA-N packet, `keystatus & 7 = 1` (4 bytes per parameter), three parameters -/
def wIENAN : Bytes :=
  [0, 1, 0, 14, 0, 0, 0, 0, 0, 0, 1, 0, 0, 0,  0, 1, 0, 2,  0, 3, 0, 4,  0, 5, 0, 6,  0xDE, 0xAD]

example : (NState.unpack NState.fresh wIENAN).2 = .ok () ∧
    (NState.unpack NState.fresh wIENAN).1.parameters = [⟨1, [2]⟩, ⟨3, [4]⟩, ⟨5, [6]⟩] := ⟨by rfl, by rfl⟩

example : decNAll 1 [0, 1, 0, 2] [0] = .ok [⟨1, [2]⟩] := by rfl   -- hypothesis of `decNAll_length`
example : decN1 1 [0, 1, 0] 0 = .error .index := by rfl            -- hypothesis of `decN1_error`

/-- [review] exact count for IENA-N: `|payload| / (2n+2)` parameters, payload a whole number of them -/
theorem IENAN_items_eq (t : NState) (buf : Bytes) (h : (NState.unpack t buf).2 = .ok ()) :
    (NState.unpack t buf).1.parameters.length * (((NState.unpack t buf).1.base.keystatus &&& 0x7) * 2 + 2) =
      (NState.unpack t buf).1.base.payload.length ∧
    (NState.unpack t buf).1.base.payload.length = buf.length - 16 := by
  revert h
  simp only [NState.unpack]
  cases hu : Base.unpack t.base buf with
  | mk b' r =>
    cases r with
    | error e => simp
    | ok u =>
      have hpl := (IENA_unpack_ok_payload t.base buf (by rw [hu])).2.1
      rw [hu] at hpl
      simp only at hpl ⊢
      split
      · simp
      · rename_i hrem
        split
        · rename_i ps hps
          intro _
          have := decNAll_length _ _ _ _ hps
          simp only [List.length_range] at this
          simp only [this]
          refine ⟨?_, hpl⟩
          have hdm := Nat.div_add_mod b'.payload.length ((b'.keystatus &&& 0x7) * 2 + 2)
          have hml := Nat.div_mul_le_self b'.payload.length ((b'.keystatus &&& 0x7) * 2 + 2)
          simp only [ne_eq, Decidable.not_not] at hrem
          omega
        · simp

end Acra.Props.C08
