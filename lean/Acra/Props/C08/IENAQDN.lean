import Acra.Model.IENAQDN
import Acra.Props.C08.IENA
namespace Acra.Props.C08
open Acra.Py Acra.Model.IENA Acra.Gen.IENA

/-- every iteration of the IENA-Q parameter loop consumes at least the 4-byte parameter header,
    never reports `fuel`, and fails on an empty remainder -/
theorem decQ_progress : Progress decQ where
  pos := by
    intro b x n h
    simp only [decQ, structUnpack] at h
    repeat' split at h
    all_goals simp_all [IENAQ_FORMAT_LEN]
    all_goals omega
  nofuel := by
    intro b h
    simp only [decQ] at h
    repeat' split at h
    all_goals first
      | (simp at h; done)
      | (rename_i e he; have := structUnpack_error _ _ _ he; subst this; simp at h)
  empty := by
    intro x n h
    simp [decQ, structUnpack, IENAQ_FORMAT, IENAQ_FORMAT_LEN, Fmt.size, codesSize, Code.size] at h

/-- `IENAQ.unpack` terminates on every buffer: the fuel the model gives the loop (payload length + 1)
    is never exhausted -/
theorem IENAQ_unpack_total (t : QState) (buf : Bytes) : (QState.unpack t buf).2 ≠ .error .fuel := by
  simp only [QState.unpack]
  have hb := IENA_unpack_nofuel t.base buf
  cases hu : Base.unpack t.base buf with
  | mk b' r =>
    rw [hu] at hb
    cases r with
    | error e => simpa using hb
    | ok u =>
      simp only
      have := decOff_fuel_sufficient decQ moreRem b'.payload decQ_progress (b'.payload.length + 1) 0 (by omega)
      cases hd : decOff decQ moreRem b'.payload (b'.payload.length + 1) 0 with
      | ok ps => simp
      | error e => simp; intro he; exact this (he ▸ hd)

/-- work bound: at most one parameter per byte of payload -/
theorem IENAQ_items_le (t : QState) (buf : Bytes) (h : (QState.unpack t buf).2 = .ok ()) :
    (QState.unpack t buf).1.parameters.length ≤ (QState.unpack t buf).1.base.payload.length := by
  revert h
  simp only [QState.unpack]
  cases hu : Base.unpack t.base buf with
  | mk b' r =>
    cases r with
    | error e => simp
    | ok u =>
      simp only
      cases hd : decOff decQ moreRem b'.payload (b'.payload.length + 1) 0 with
      | error e => simp
      | ok ps =>
        simp only
        intro _
        have h1 := decOff_items_le decQ moreRem b'.payload decQ_progress _ 0 ps hd
        omega

/-- the IENA-D parameter loop is a `for` over a range computed from the payload length: it has no
    fuel to run out of, and returns one parameter per index -/
theorem decD1_error (dwc : Nat) (payload : Bytes) (off : Nat) (e : Err) (h : decD1 dwc payload off = .error e) :
    e = .index := by
  simp only [decD1] at h
  split at h <;> simp_all

theorem decDAll_nofuel (dwc : Nat) (payload : Bytes) (l : List Nat) : decDAll dwc payload l ≠ .error .fuel := by
  induction l with
  | nil => simp [decDAll]
  | cons i is ih =>
    simp only [decDAll]
    cases hd : decD1 dwc payload (i * (dwc * 2 + 4)) with
    | error e => have := decD1_error _ _ _ _ hd; subst this; simp
    | ok p =>
      simp only
      cases hr : decDAll dwc payload is with
      | ok ps => simp
      | error e => simp; intro h; exact ih (h ▸ hr)

theorem decDAll_length (dwc : Nat) (payload : Bytes) (l : List Nat) (ps : List DParam)
    (h : decDAll dwc payload l = .ok ps) : ps.length = l.length := by
  induction l generalizing ps with
  | nil => simp [decDAll] at h; subst h; rfl
  | cons i is ih =>
    simp only [decDAll] at h
    split at h
    · simp at h
    · split at h
      · rename_i ps' hps
        simp only [Except.ok.injEq] at h; subst h
        simp [ih ps' hps]
      · simp at h

theorem IENAD_unpack_total (t : DState) (buf : Bytes) : (DState.unpack t buf).2 ≠ .error .fuel := by
  simp only [DState.unpack]
  have hb := IENA_unpack_nofuel t.base buf
  cases hu : Base.unpack t.base buf with
  | mk b' r =>
    rw [hu] at hb
    cases r with
    | error e => simpa using hb
    | ok u =>
      simp only
      split
      · simp
      · have := decDAll_nofuel (b'.keystatus &&& 0x7) b'.payload (List.range (b'.payload.length / ((b'.keystatus &&& 0x7) * 2 + 4)))
        split
        · simp
        · rename_i e he; simp; intro h; exact this (h ▸ he)

/-- work bound: the number of parameters returned is `|payload| / (2n + 4)`, at most one per byte -/
theorem IENAD_items_le (t : DState) (buf : Bytes) (h : (DState.unpack t buf).2 = .ok ()) :
    (DState.unpack t buf).1.parameters.length ≤ (DState.unpack t buf).1.base.payload.length := by
  revert h
  simp only [DState.unpack]
  cases hu : Base.unpack t.base buf with
  | mk b' r =>
    cases r with
    | error e => simp
    | ok u =>
      simp only
      split
      · simp
      · split
        · rename_i ps hps
          intro _
          have := decDAll_length _ _ _ _ hps
          simp only [List.length_range] at this
          simp only [this]
          exact Nat.div_le_self _ _
        · simp

theorem decN1_error (dwc : Nat) (payload : Bytes) (off : Nat) (e : Err) (h : decN1 dwc payload off = .error e) :
    e = .index := by
  simp only [decN1] at h
  split at h <;> simp_all

theorem decNAll_nofuel (dwc : Nat) (payload : Bytes) (l : List Nat) : decNAll dwc payload l ≠ .error .fuel := by
  induction l with
  | nil => simp [decNAll]
  | cons i is ih =>
    simp only [decNAll]
    cases hd : decN1 dwc payload (i * (dwc * 2 + 2)) with
    | error e => have := decN1_error _ _ _ _ hd; subst this; simp
    | ok p =>
      simp only
      cases hr : decNAll dwc payload is with
      | ok ps => simp
      | error e => simp; intro h; exact ih (h ▸ hr)

theorem decNAll_length (dwc : Nat) (payload : Bytes) (l : List Nat) (ps : List NParam)
    (h : decNAll dwc payload l = .ok ps) : ps.length = l.length := by
  induction l generalizing ps with
  | nil => simp [decNAll] at h; subst h; rfl
  | cons i is ih =>
    simp only [decNAll] at h
    split at h
    · simp at h
    · split at h
      · rename_i ps' hps
        simp only [Except.ok.injEq] at h; subst h
        simp [ih ps' hps]
      · simp at h

theorem IENAN_unpack_total (t : NState) (buf : Bytes) : (NState.unpack t buf).2 ≠ .error .fuel := by
  simp only [NState.unpack]
  have hb := IENA_unpack_nofuel t.base buf
  cases hu : Base.unpack t.base buf with
  | mk b' r =>
    rw [hu] at hb
    cases r with
    | error e => simpa using hb
    | ok u =>
      simp only
      split
      · simp
      · have := decNAll_nofuel (b'.keystatus &&& 0x7) b'.payload (List.range (b'.payload.length / ((b'.keystatus &&& 0x7) * 2 + 2)))
        split
        · simp
        · rename_i e he; simp; intro h; exact this (h ▸ he)

theorem IENAN_items_le (t : NState) (buf : Bytes) (h : (NState.unpack t buf).2 = .ok ()) :
    (NState.unpack t buf).1.parameters.length ≤ (NState.unpack t buf).1.base.payload.length := by
  revert h
  simp only [NState.unpack]
  cases hu : Base.unpack t.base buf with
  | mk b' r =>
    cases r with
    | error e => simp
    | ok u =>
      simp only
      split
      · simp
      · split
        · rename_i ps hps
          intro _
          have := decNAll_length _ _ _ _ hps
          simp only [List.length_range] at this
          simp only [this]
          exact Nat.div_le_self _ _
        · simp

end Acra.Props.C08
