import Acra.Lemmas.Ch11UART
import Acra.Props.C08.MIL1553
import Acra.Lemmas.ReviewC08Records
import Acra.Lemmas.RecordsErr
namespace Acra.Props.C08
open Acra.Py Acra.Model.Ch11Pay Acra.Model.Ch11Pay.UART Acra.Gen.Ch11UART Acra.Lemmas.Ch11UART

theorem unpackTs_nofuel (i : Ipts) (buf : Bytes) : unpackTs i buf ≠ .error .fuel := by
  unfold unpackTs
  have := Ipts_unpack_nofuel i (buf.take 8)
  repeat' split
  all_goals first
    | (simp; done)
    | (rename_i e h; simp only [ne_eq, Except.error.injEq]; intro he; subst he; exact this h)

theorem unpackTs_off (i : Ipts) (buf : Bytes) (j : Ipts) (off : Nat) (h : unpackTs i buf = .ok (j, off)) : off = 0 ∨ off = 8 := by
  unfold unpackTs at h
  repeat' split at h
  all_goals simp_all

theorem UARTWord_unpack_total (t : Word) (buf : Bytes) : (Word.unpack t buf).2 ≠ .error .fuel := by
  simp only [Word.unpack]
  have := unpackTs_nofuel t.ipts buf
  repeat' split
  all_goals first
    | (simp; done)
    | (rename_i e h; simp only [ne_eq, Except.error.injEq]; intro he; subst he; exact this h)
    | (rename_i e h; have := structUnpackFrom_error _ _ _ _ h; subst this; simp)

/-- a decoded word consumes its 4-byte intra-packet header at least -/
theorem UARTWord_unpack_consumes (t : Word) (buf : Bytes) (w : Word) (n : Nat) (h : Word.unpack t buf = (w, .ok n)) :
    4 ≤ n := by
  simp only [Word.unpack] at h
  repeat' split at h
  all_goals simp_all
  all_goals omega

theorem decWord_progress (proto : Word) : Progress (decWord proto) where
  pos := by
    intro b x n h
    simp only [decWord] at h
    cases hu : Word.unpack proto b with
    | mk w r =>
      rw [hu] at h
      cases r with
      | error e => simp at h
      | ok k =>
        simp only [Except.ok.injEq, Prod.mk.injEq] at h
        have := UARTWord_unpack_consumes proto b w k hu
        omega
  nofuel := by
    intro b h
    have := UARTWord_unpack_total proto b
    simp only [decWord] at h
    split at h
    · simp at h
    · rename_i e he
      simp only [Except.error.injEq] at h
      subst h
      rw [he] at this
      exact this rfl
  empty := by
    intro x n h
    simp only [decWord] at h
    cases hu : Word.unpack proto [] with
    | mk w r =>
      rw [hu] at h
      cases r with
      | error e => simp at h
      | ok k =>
        simp only [Word.unpack] at hu
        cases hts : unpackTs proto.ipts [] with
        | error e => simp [hts] at hu
        | ok io =>
          obtain ⟨i, off⟩ := io
          simp [hts, structUnpackFrom, UW_unpack_fmt0, Fmt.size, codesSize, Code.size] at hu

/-- `UARTDataPacket.unpack` terminates on every buffer (`abs(offset - len) > 4` with at least four
    bytes consumed per word): the fuel len + 1 is never exhausted -/
theorem UART_unpack_total (t : Packet) (buf : Bytes) : (Packet.unpack t buf).2 ≠ .error .fuel := by
  simp only [Packet.unpack]
  cases hc : structUnpackFrom UP_unpack_fmt0 buf 0 with
  | error e => have := structUnpackFrom_error _ _ _ _ hc; subst this; simp
  | ok v =>
    cases hp : t.proto with
    | none => simp
    | some proto =>
      have := decOff_fuel_sufficient (decWord proto) moreUART buf (decWord_progress proto) (buf.length + 1) 4 (by omega)
      cases hd : decOff (decWord proto) moreUART buf (buf.length + 1) 4 with
      | ok ws => simp [hd]
      | error e => simp only [hd, ne_eq, Except.error.injEq]; intro he; subst he; exact this hd

/-- work bound: at most one word per byte after the channel-specific word -/
theorem UART_items_le (t : Packet) (buf : Bytes) (h : (Packet.unpack t buf).2 = .ok ()) :
    (Packet.unpack t buf).1.uartwords.length ≤ buf.length - 4 := by
  revert h
  simp only [Packet.unpack]
  cases hc : structUnpackFrom UP_unpack_fmt0 buf 0 with
  | error e => simp
  | ok v =>
    cases hp : t.proto with
    | none => simp
    | some proto =>
      cases hd : decOff (decWord proto) moreUART buf (buf.length + 1) 4 with
      | error e => simp [hd]
      | ok ws =>
        simp only [hd]
        intro _
        exact decOff_items_le (decWord proto) moreUART buf (decWord_progress proto) _ 4 ws hd

/-- [review] the per-iteration bound for the loop step: an accepted word advances by at least its 4-byte
    intra-packet data header -/
theorem decWord_advance_ge (proto : Word) (b : Bytes) (w : Word) (n : Nat) (h : decWord proto b = .ok (w, n)) :
    4 ≤ n := by
  simp only [decWord] at h
  cases hu : Word.unpack proto b with
  | mk w' r =>
    rw [hu] at h
    cases r with
    | error e => simp at h
    | ok k =>
      simp only [Except.ok.injEq, Prod.mk.injEq] at h
      have := UARTWord_unpack_consumes proto b w' k hu
      omega

/-- [review] work bound with the real stride: at most ⌈(|buf| − 4)/4⌉ words -/
theorem UART_items_stride (t : Packet) (buf : Bytes) (h : (Packet.unpack t buf).2 = .ok ()) :
    (Packet.unpack t buf).1.uartwords.length * 4 ≤ (buf.length - 4) + 3 := by
  revert h
  simp only [Packet.unpack]
  cases hc : structUnpackFrom UP_unpack_fmt0 buf 0 with
  | error e => simp
  | ok v =>
    cases hp : t.proto with
    | none => simp
    | some proto =>
      cases hd : decOff (decWord proto) moreUART buf (buf.length + 1) 4 with
      | error e => simp [hd]
      | ok ws =>
        simp only [hd]
        intro _
        exact Acra.Lemmas.ReviewC08.decOff_items_stride (decWord proto) moreUART buf (decWord_progress proto) 4
          (decWord_advance_ge proto) _ 4 ws hd
/-- [review] witness: PTP-stamped little-endian packet with two words (payloads of 3 and 2 bytes) -/
def wUART : Bytes :=
  [0, 0, 0, 128,  255, 201, 154, 59, 5, 0, 0, 0, 3, 0, 0, 0, 2, 1, 255, 3,  255, 201, 154, 59, 5, 0, 0, 0, 2, 0, 0, 0, 8, 7]

example : (Packet.unpack (Packet.fresh (some 1) 1) wUART).2 = .ok () ∧
    (Packet.unpack (Packet.fresh (some 1) 1) wUART).1.uartwords.map (fun w => (w.ipts, w.payload)) =
      [(.ptp 5 999999999, [1, 2, 3]), (.ptp 5 999999999, [7, 8])] := ⟨by rfl, by rfl⟩
example : (Word.unpack (Word.fresh (.ptp 0 0) 1) (wUART.drop 4)).2 = .ok 16 := by rfl
example : unpackTs (.ptp 0 0) (wUART.drop 4) = .ok (.ptp 5 999999999, 8) := by rfl
example : (decWord (Word.fresh (.ptp 0 0) 1) (wUART.drop 4)).map (·.2) = .ok 16 := by rfl
/-! ### review additions (rev1-C08): outcome lists — the element decoders have no loop and no fuel in their models, so
    `≠ .error .fuel` holds by construction; what C08 says about them is which ordinary exceptions can occur -/

theorem unpackTs_outcomes (i : Ipts) (buf : Bytes) :
    (∃ r, unpackTs i buf = .ok r) ∨ unpackTs i buf = .error .struct ∨ unpackTs i buf = .error .attribute := by
  unfold unpackTs
  have := Ipts_unpack_outcomes i (buf.take 8)
  repeat' split
  all_goals first
    | (simp; done)
    | (rename_i e h; rw [h] at this; simpa using this)

theorem UARTWord_unpack_outcomes (t : Word) (buf : Bytes) :
    (∃ n, (Word.unpack t buf).2 = .ok n) ∨ (Word.unpack t buf).2 = .error .struct ∨
    (Word.unpack t buf).2 = .error .attribute := by
  simp only [Word.unpack]
  have := unpackTs_outcomes t.ipts buf
  repeat' split
  all_goals first
    | (simp; done)
    | (rename_i e h; rw [h] at this; simpa using this)
    | (rename_i e h; have := structUnpackFrom_error _ _ _ _ h; subst this; simp)

/-! ### packet-level outcome list (review B4): `UARTDataPacket.unpack` returns, or raises `struct.error` or
    `AttributeError`; each kind characterised -/

/-- the time-stamp step fails only with `struct.error`, and exactly when a time stamp is expected and fewer than
    8 bytes are there (`AttributeError` is guarded away by `if self.ipts is not None`) -/
theorem unpackTs_error_iff (i : Ipts) (buf : Bytes) (e : Err) :
    unpackTs i buf = .error e ↔ e = .struct ∧ i ≠ .none ∧ buf.length < 8 := by
  cases i with
  | none => simp [unpackTs]
  | rtc c =>
    by_cases h8 : 8 ≤ buf.length
    · have : (buf.take 8).length = 8 := by simp; omega
      simp only [unpackTs, reduceCtorEq, if_false, Ipts.unpack, structUnpack, this, Acra.Gen.Ch11PayTs.RTC_unpack_fmt0,
        Fmt.size, codesSize, Code.size, unpackCodes, if_true, false_iff]
      omega
    · have : ¬ (buf.take 8).length = 8 := by simp; omega
      simp only [unpackTs, reduceCtorEq, if_false, Ipts.unpack, structUnpack, this, Acra.Gen.Ch11PayTs.RTC_unpack_fmt0,
        Fmt.size, codesSize, Code.size, Except.error.injEq, ne_eq, not_false_eq_true, true_and]
      constructor
      · rintro rfl; exact ⟨rfl, by omega⟩
      · rintro ⟨rfl, _⟩; rfl
  | ptp a b =>
    by_cases h8 : 8 ≤ buf.length
    · have : (buf.take 8).length = 8 := by simp; omega
      simp only [unpackTs, reduceCtorEq, if_false, Ipts.unpack, structUnpack, this, Acra.Gen.Ch11PayTs.PTP_unpack_fmt0,
        Fmt.size, codesSize, Code.size, unpackCodes, if_true, false_iff]
      omega
    · have : ¬ (buf.take 8).length = 8 := by simp; omega
      simp only [unpackTs, reduceCtorEq, if_false, Ipts.unpack, structUnpack, this, Acra.Gen.Ch11PayTs.PTP_unpack_fmt0,
        Fmt.size, codesSize, Code.size, Except.error.injEq, ne_eq, not_false_eq_true, true_and]
      constructor
      · rintro rfl; exact ⟨rfl, by omega⟩
      · rintro ⟨rfl, _⟩; rfl

/-- `UARTDataWord.unpack` fails only with `struct.error`, and exactly when the (optional) 8-byte time stamp and the
    4-byte word header are not all there -/
theorem UARTWord_unpack_error_iff (t : Word) (buf : Bytes) (e : Err) :
    (Word.unpack t buf).2 = .error e ↔ e = .struct ∧ buf.length < (if t.ipts = .none then 4 else 12) := by
  simp only [Word.unpack]
  cases hts : unpackTs t.ipts buf with
  | error e' =>
    obtain ⟨rfl, hn, hl⟩ := (unpackTs_error_iff _ _ _).1 hts
    simp only [hn, if_false, Except.error.injEq]
    constructor
    · rintro rfl; exact ⟨rfl, by omega⟩
    · rintro ⟨rfl, _⟩; rfl
  | ok r =>
    obtain ⟨i, off⟩ := r
    have hoff : off = (if t.ipts = .none then 0 else 8) ∧ (t.ipts ≠ .none → 8 ≤ buf.length) := by
      by_cases hn : t.ipts = .none
      · simp only [unpackTs, hn, if_true, Except.ok.injEq, Prod.mk.injEq] at hts
        exact ⟨by simp [hn, hts.2.symm], fun h => absurd hn h⟩
      · have hoff := unpackTs_off _ _ _ _ hts
        have : ¬ buf.length < 8 := by
          intro hl
          have := (unpackTs_error_iff t.ipts buf .struct).2 ⟨rfl, hn, hl⟩
          rw [hts] at this; cases this
        refine ⟨?_, fun _ => by omega⟩
        simp only [hn, if_false]
        rcases hoff with h0 | h8
        · simp only [unpackTs, hn, if_false] at hts
          split at hts
          · simp only [Except.ok.injEq, Prod.mk.injEq] at hts; omega
          · cases hts
        · exact h8
    simp only
    by_cases hl : off + 4 ≤ buf.length
    · have : structUnpackFrom UW_unpack_fmt0 buf off =
          .ok [decInt false ((buf.drop off).take 2), decInt false (((buf.drop off).drop 2).take 2)] := by
        simp only [structUnpackFrom, UW_unpack_fmt0, Fmt.size, codesSize, Code.size, unpackCodes]
        have : off + (2 + (2 + 0)) ≤ buf.length := by omega
        simp only [this, if_true]
      simp only [this, reduceCtorEq, false_iff, not_and]
      intro _
      by_cases hn : t.ipts = .none
      · simp only [hn, if_true] at hoff ⊢; omega
      · have := hoff.2 hn
        simp only [hn, if_false] at hoff ⊢; omega
    · have : structUnpackFrom UW_unpack_fmt0 buf off = .error .struct := by
        simp only [structUnpackFrom, UW_unpack_fmt0, Fmt.size, codesSize, Code.size]
        have : ¬ off + (2 + (2 + 0)) ≤ buf.length := by omega
        simp only [this, if_false]
      simp only [this, Except.error.injEq]
      constructor
      · rintro rfl
        refine ⟨rfl, ?_⟩
        by_cases hn : t.ipts = .none
        · simp only [hn, if_true] at hoff ⊢; omega
        · simp only [hn, if_false] at hoff ⊢; omega
      · rintro ⟨rfl, _⟩; rfl

/-- the channel-specific word is complete, so the loop is entered or the prototype is missing -/
theorem UART_unpack_error_iff (t : Packet) (buf : Bytes) (e : Err) :
    (Packet.unpack t buf).2 = .error e ↔
      (buf.length < 4 ∧ e = .struct) ∨
      (4 ≤ buf.length ∧ t.proto = Option.none ∧ e = .attribute) ∨
      (4 ≤ buf.length ∧ ∃ proto, t.proto = some proto ∧ e = .struct ∧ ∃ ws o,
        Acra.Lemmas.RecordsErr.Reach (decWord proto) moreUART buf 4 ws o ∧ moreUART o buf.length = true ∧
        buf.length - o < (if proto.ipts = .none then 4 else 12)) := by
  simp only [Packet.unpack]
  by_cases h4 : 4 ≤ buf.length
  · have hc : ∃ v, structUnpackFrom UP_unpack_fmt0 buf 0 = .ok v := by
      simp only [structUnpackFrom, UP_unpack_fmt0, Fmt.size, codesSize, Code.size]
      have : 0 + (4 + 0) ≤ buf.length := by omega
      simp only [this, if_true]
      exact ⟨_, rfl⟩
    obtain ⟨v, hc⟩ := hc
    simp only [hc]
    cases hp : t.proto with
    | none =>
      simp only [Except.error.injEq]
      constructor
      · rintro rfl; exact Or.inr (Or.inl ⟨h4, trivial, rfl⟩)
      · rintro (⟨h, _⟩ | ⟨_, _, h⟩ | ⟨_, proto, h, _⟩)
        · omega
        · exact h.symm
        · cases h
    | some proto =>
      have key := Acra.Lemmas.RecordsErr.decOff_error_iff (decWord proto) moreUART buf (decWord_progress proto)
        (buf.length + 1) 4 (by omega) e
      have hstep : ∀ o e', decWord proto (buf.drop o) = .error e' ↔
          e' = .struct ∧ buf.length - o < (if proto.ipts = .none then 4 else 12) := by
        intro o e'
        rw [← List.length_drop, ← UARTWord_unpack_error_iff proto (buf.drop o) e']
        simp only [decWord]
        cases Word.unpack proto (buf.drop o) with
        | mk b r => cases r <;> simp
      simp only [reduceCtorEq, false_and, false_or, Option.some.injEq, exists_eq_left', h4, true_and]
      cases hd : decOff (decWord proto) moreUART buf (buf.length + 1) 4 with
      | ok ws =>
        simp only [reduceCtorEq, false_iff]
        rintro (⟨h, _⟩ | ⟨rfl, ws', o, hr, hm, hl⟩)
        · omega
        · have := key.2 ⟨ws', o, hr, hm, (hstep o _).2 ⟨rfl, hl⟩⟩
          rw [hd] at this; cases this
      | error e' =>
        simp only [Except.error.injEq]
        constructor
        · rintro rfl
          obtain ⟨ws, o, hr, hm, he⟩ := key.1 hd
          obtain ⟨rfl, hl⟩ := (hstep o _).1 he
          exact Or.inr ⟨rfl, ws, o, hr, hm, hl⟩
        · rintro (⟨h, _⟩ | ⟨rfl, ws, o, hr, hm, hl⟩)
          · omega
          · have := key.2 ⟨ws, o, hr, hm, (hstep o _).2 ⟨rfl, hl⟩⟩
            rw [hd] at this
            cases this; rfl
  · have hc : structUnpackFrom UP_unpack_fmt0 buf 0 = .error .struct := by
      simp only [structUnpackFrom, UP_unpack_fmt0, Fmt.size, codesSize, Code.size]
      have : ¬ 0 + (4 + 0) ≤ buf.length := by omega
      simp only [this, if_false]
    simp only [hc, Except.error.injEq, h4, false_and, or_false]
    constructor
    · rintro rfl; exact ⟨by omega, rfl⟩
    · rintro ⟨_, rfl⟩; rfl

/-- the outcome list: a value, `struct.error`, or `AttributeError` (only for an `ipts_source` that is neither
    `TS_CH4` nor `TS_IEEE1558`) — nothing else -/
theorem UART_unpack_outcomes (t : Packet) (buf : Bytes) :
    (Packet.unpack t buf).2 = .ok () ∨ (Packet.unpack t buf).2 = .error .struct ∨
    ((Packet.unpack t buf).2 = .error .attribute ∧ t.proto = Option.none) := by
  cases hr : (Packet.unpack t buf).2 with
  | ok u => exact Or.inl rfl
  | error e =>
    rcases (UART_unpack_error_iff t buf e).1 hr with ⟨_, rfl⟩ | ⟨_, hp, rfl⟩ | ⟨_, _, _, rfl, _⟩
    · exact Or.inr (Or.inl rfl)
    · exact Or.inr (Or.inr ⟨rfl, hp⟩)
    · exact Or.inr (Or.inl rfl)

/-- every outcome is reachable: `wUART` accepted; 3 bytes → `struct.error` (channel-specific word); the second word's
    header cut (5 bytes too few… the loop condition `abs(offset − len) > 4` still holds) → `struct.error`;
    `ipts_source = 7` → `AttributeError` -/
example : (Packet.unpack (Packet.fresh (some 1) 1) wUART).2 = .ok () := by rfl
example : (Packet.unpack (Packet.fresh (some 1) 1) (wUART.take 3)).2 = .error .struct := by rfl
example : (Packet.unpack (Packet.fresh (some 1) 1) (wUART.take 29)).2 = .error .struct := by rfl
example : (Packet.unpack (Packet.fresh (some 7) 1) wUART).2 = .error .attribute ∧
    (Packet.fresh (some 7) 1).proto = Option.none := ⟨by rfl, by rfl⟩

end Acra.Props.C08
