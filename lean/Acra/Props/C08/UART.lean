import Acra.Lemmas.Ch11UART
import Acra.Props.C08.MIL1553
import Acra.Lemmas.ReviewC08Records
namespace Acra.Props.C08
open Acra.Py Acra.Model.Ch11Pay Acra.Model.Ch11Pay.UART Acra.Gen.Ch11UART Acra.Lemmas.Ch11UART

theorem unpackTs_nofuel (i : Ipts) (buf : Bytes) : unpackTs i buf ≠ .error .fuel := by
  unfold unpackTs
  have := Ipts_unpack_nofuel i (buf.take 8)
  repeat' split
  all_goals first
    | (simp; done)
    | (rename_i e h; simp only [ne_eq, Except.error.injEq]; intro he; subst he; exact this h)

theorem unpackTs_off (i : Ipts) (buf : Bytes) (j : Ipts) (off : Nat) (h : unpackTs i buf = .ok (j, off)) : off = 0 ∨ off = 8 := by
  unfold unpackTs at h
  repeat' split at h
  all_goals simp_all

theorem UARTWord_unpack_total (t : Word) (buf : Bytes) : (Word.unpack t buf).2 ≠ .error .fuel := by
  simp only [Word.unpack]
  have := unpackTs_nofuel t.ipts buf
  repeat' split
  all_goals first
    | (simp; done)
    | (rename_i e h; simp only [ne_eq, Except.error.injEq]; intro he; subst he; exact this h)
    | (rename_i e h; have := structUnpackFrom_error _ _ _ _ h; subst this; simp)

/-- a decoded word consumes its 4-byte intra-packet header at least -/
theorem UARTWord_unpack_consumes (t : Word) (buf : Bytes) (w : Word) (n : Nat) (h : Word.unpack t buf = (w, .ok n)) :
    4 ≤ n := by
  simp only [Word.unpack] at h
  repeat' split at h
  all_goals simp_all
  all_goals omega

theorem decWord_progress (proto : Word) : Progress (decWord proto) where
  pos := by
    intro b x n h
    simp only [decWord] at h
    cases hu : Word.unpack proto b with
    | mk w r =>
      rw [hu] at h
      cases r with
      | error e => simp at h
      | ok k =>
        simp only [Except.ok.injEq, Prod.mk.injEq] at h
        have := UARTWord_unpack_consumes proto b w k hu
        omega
  nofuel := by
    intro b h
    have := UARTWord_unpack_total proto b
    simp only [decWord] at h
    split at h
    · simp at h
    · rename_i e he
      simp only [Except.error.injEq] at h
      subst h
      rw [he] at this
      exact this rfl
  empty := by
    intro x n h
    simp only [decWord] at h
    cases hu : Word.unpack proto [] with
    | mk w r =>
      rw [hu] at h
      cases r with
      | error e => simp at h
      | ok k =>
        simp only [Word.unpack] at hu
        cases hts : unpackTs proto.ipts [] with
        | error e => simp [hts] at hu
        | ok io =>
          obtain ⟨i, off⟩ := io
          simp [hts, structUnpackFrom, UW_unpack_fmt0, Fmt.size, codesSize, Code.size] at hu

/-- `UARTDataPacket.unpack` terminates on every buffer (`abs(offset - len) > 4` with at least four
    bytes consumed per word): the fuel len + 1 is never exhausted -/
theorem UART_unpack_total (t : Packet) (buf : Bytes) : (Packet.unpack t buf).2 ≠ .error .fuel := by
  simp only [Packet.unpack]
  cases hc : structUnpackFrom UP_unpack_fmt0 buf 0 with
  | error e => have := structUnpackFrom_error _ _ _ _ hc; subst this; simp
  | ok v =>
    cases hp : t.proto with
    | none => simp
    | some proto =>
      have := decOff_fuel_sufficient (decWord proto) moreUART buf (decWord_progress proto) (buf.length + 1) 4 (by omega)
      cases hd : decOff (decWord proto) moreUART buf (buf.length + 1) 4 with
      | ok ws => simp [hd]
      | error e => simp only [hd, ne_eq, Except.error.injEq]; intro he; subst he; exact this hd

/-- work bound: at most one word per byte after the channel-specific word -/
theorem UART_items_le (t : Packet) (buf : Bytes) (h : (Packet.unpack t buf).2 = .ok ()) :
    (Packet.unpack t buf).1.uartwords.length ≤ buf.length - 4 := by
  revert h
  simp only [Packet.unpack]
  cases hc : structUnpackFrom UP_unpack_fmt0 buf 0 with
  | error e => simp
  | ok v =>
    cases hp : t.proto with
    | none => simp
    | some proto =>
      cases hd : decOff (decWord proto) moreUART buf (buf.length + 1) 4 with
      | error e => simp [hd]
      | ok ws =>
        simp only [hd]
        intro _
        exact decOff_items_le (decWord proto) moreUART buf (decWord_progress proto) _ 4 ws hd

/-- [review] the per-iteration bound for the loop step: an accepted word advances by at least its 4-byte
    intra-packet data header -/
theorem decWord_advance_ge (proto : Word) (b : Bytes) (w : Word) (n : Nat) (h : decWord proto b = .ok (w, n)) :
    4 ≤ n := by
  simp only [decWord] at h
  cases hu : Word.unpack proto b with
  | mk w' r =>
    rw [hu] at h
    cases r with
    | error e => simp at h
    | ok k =>
      simp only [Except.ok.injEq, Prod.mk.injEq] at h
      have := UARTWord_unpack_consumes proto b w' k hu
      omega

/-- [review] work bound with the real stride: at most ⌈(|buf| − 4)/4⌉ words -/
theorem UART_items_stride (t : Packet) (buf : Bytes) (h : (Packet.unpack t buf).2 = .ok ()) :
    (Packet.unpack t buf).1.uartwords.length * 4 ≤ (buf.length - 4) + 3 := by
  revert h
  simp only [Packet.unpack]
  cases hc : structUnpackFrom UP_unpack_fmt0 buf 0 with
  | error e => simp
  | ok v =>
    cases hp : t.proto with
    | none => simp
    | some proto =>
      cases hd : decOff (decWord proto) moreUART buf (buf.length + 1) 4 with
      | error e => simp [hd]
      | ok ws =>
        simp only [hd]
        intro _
        exact Acra.Lemmas.ReviewC08.decOff_items_stride (decWord proto) moreUART buf (decWord_progress proto) 4
          (decWord_advance_ge proto) _ 4 ws hd
/-- [review] witness: PTP-stamped little-endian packet with two words (payloads of 3 and 2 bytes) -/
def wUART : Bytes :=
  [0, 0, 0, 128,  255, 201, 154, 59, 5, 0, 0, 0, 3, 0, 0, 0, 2, 1, 255, 3,  255, 201, 154, 59, 5, 0, 0, 0, 2, 0, 0, 0, 8, 7]

example : (Packet.unpack (Packet.fresh (some 1) 1) wUART).2 = .ok () ∧
    (Packet.unpack (Packet.fresh (some 1) 1) wUART).1.uartwords.map (fun w => (w.ipts, w.payload)) =
      [(.ptp 5 999999999, [1, 2, 3]), (.ptp 5 999999999, [7, 8])] := ⟨by rfl, by rfl⟩
example : (Word.unpack (Word.fresh (.ptp 0 0) 1) (wUART.drop 4)).2 = .ok 16 := by rfl
example : unpackTs (.ptp 0 0) (wUART.drop 4) = .ok (.ptp 5 999999999, 8) := by rfl
example : (decWord (Word.fresh (.ptp 0 0) 1) (wUART.drop 4)).map (·.2) = .ok 16 := by rfl
/-! ### review additions (rev1-C08): outcome lists — the element decoders have no loop and no fuel in their models, so
    `≠ .error .fuel` holds by construction; what C08 says about them is which ordinary exceptions can occur -/

theorem unpackTs_outcomes (i : Ipts) (buf : Bytes) :
    (∃ r, unpackTs i buf = .ok r) ∨ unpackTs i buf = .error .struct ∨ unpackTs i buf = .error .attribute := by
  unfold unpackTs
  have := Ipts_unpack_outcomes i (buf.take 8)
  repeat' split
  all_goals first
    | (simp; done)
    | (rename_i e h; rw [h] at this; simpa using this)

theorem UARTWord_unpack_outcomes (t : Word) (buf : Bytes) :
    (∃ n, (Word.unpack t buf).2 = .ok n) ∨ (Word.unpack t buf).2 = .error .struct ∨
    (Word.unpack t buf).2 = .error .attribute := by
  simp only [Word.unpack]
  have := unpackTs_outcomes t.ipts buf
  repeat' split
  all_goals first
    | (simp; done)
    | (rename_i e h; rw [h] at this; simpa using this)
    | (rename_i e h; have := structUnpackFrom_error _ _ _ _ h; subst this; simp)

end Acra.Props.C08
