import Acra.Lemmas.Ch11MIL1553
import Acra.Lemmas.ReviewC08Records
import Acra.Lemmas.RecordsErr
namespace Acra.Props.C08
open Acra.Py Acra.Model.Ch11Pay Acra.Model.Ch11Pay.MIL1553 Acra.Gen.Ch11MIL1553 Acra.Lemmas.Ch11MIL1553

theorem Ipts_unpack_nofuel (t : Ipts) (buf : Bytes) : Ipts.unpack t buf ≠ .error .fuel := by
  cases t <;> simp only [Ipts.unpack]
  · repeat' split
    all_goals first
      | (simp; done)
      | (rename_i e h; have := structUnpack_error _ _ _ h; subst this; simp)
  · repeat' split
    all_goals first
      | (simp; done)
      | (rename_i e h; have := structUnpack_error _ _ _ h; subst this; simp)
  · simp

theorem MILMsg_unpack_total (t : Msg) (buf : Bytes) : (Msg.unpack t buf).2 ≠ .error .fuel := by
  simp only [Msg.unpack]
  have hi := Ipts_unpack_nofuel t.ipts (buf.take 8)
  repeat' split
  all_goals first
    | (simp; done)
    | (rename_i e h; simp only [ne_eq, Except.error.injEq]; intro he; subst he; exact hi h)
    | (rename_i e h; have := structUnpackFrom_error _ _ _ _ h; subst this; simp)

theorem MILMsg_unpack_consumes (t : Msg) (buf : Bytes) (m : Msg) (n : Nat) (h : Msg.unpack t buf = (m, .ok n)) : 14 ≤ n := by
  simp only [Msg.unpack] at h
  repeat' split at h
  all_goals simp_all
  all_goals omega

/-- every iteration of the message loop consumes the 14-byte intra-packet header at least -/
theorem decMsg_progress (proto : R Msg) (hp : proto ≠ .error .fuel) : Progress (decMsg proto) where
  pos := by
    intro b x n h
    cases proto with
    | error e => simp [decMsg] at h
    | ok m0 =>
      simp only [decMsg] at h
      cases hu : Msg.unpack m0 b with
      | mk m r =>
        rw [hu] at h
        cases r with
        | error e => simp at h
        | ok k =>
          simp only [Except.ok.injEq, Prod.mk.injEq] at h
          have := MILMsg_unpack_consumes m0 b m k hu
          omega
  nofuel := by
    intro b h
    cases proto with
    | error e => simp only [decMsg, Except.error.injEq] at h; subst h; exact hp rfl
    | ok m0 =>
      have := MILMsg_unpack_total m0 b
      simp only [decMsg] at h
      split at h
      · simp at h
      · rename_i e he
        simp only [Except.error.injEq] at h
        subst h
        rw [he] at this
        exact this rfl
  empty := by
    intro x n h
    cases proto with
    | error e => simp [decMsg] at h
    | ok m0 =>
      simp only [decMsg, Msg.unpack, List.take_nil] at h
      cases hi : m0.ipts <;>
        simp [hi, Ipts.unpack, structUnpack, Acra.Gen.Ch11PayTs.RTC_unpack_fmt0, Acra.Gen.Ch11PayTs.PTP_unpack_fmt0,
          Fmt.size, codesSize, Code.size] at h

theorem MIL_proto_nofuel (p : Packet) : p.proto ≠ .error .fuel := by
  unfold Packet.proto
  repeat' split
  all_goals simp

/-- `MILSTD1553DataPacket.unpack` terminates on every buffer: the fuel (len + 1) is never exhausted -/
theorem MIL_unpack_total (t : Packet) (buf : Bytes) : (Packet.unpack t buf).2 ≠ .error .fuel := by
  simp only [Packet.unpack]
  have := decOff_fuel_sufficient (decMsg t.proto) more1553 buf (decMsg_progress _ (MIL_proto_nofuel t))
    (buf.length + 1) 4 (by omega)
  repeat' split
  all_goals first
    | (simp; done)
    | (rename_i e h; simp only [ne_eq, Except.error.injEq]; intro he; subst he; exact this h)
    | (rename_i e h; have := structUnpackFrom_error _ _ _ _ h; subst this; simp)

/-- work bound: at most one message per byte after the channel-specific word -/
theorem MIL_items_le (t : Packet) (buf : Bytes) (h : (Packet.unpack t buf).2 = .ok ()) :
    (Packet.unpack t buf).1.messages.length ≤ buf.length - 4 := by
  revert h
  simp only [Packet.unpack]
  repeat' split
  all_goals try (simp; done)
  rename_i ms hd
  intro _
  exact decOff_items_le (decMsg t.proto) more1553 buf (decMsg_progress _ (MIL_proto_nofuel t)) _ 4 ms hd

/-- [review] the per-iteration bound for the loop step: an accepted message advances by the 14-byte
    intra-packet header plus the declared length -/
theorem decMsg_advance_ge (proto : R Msg) (b : Bytes) (m : Msg) (n : Nat) (h : decMsg proto b = .ok (m, n)) :
    14 ≤ n ∧ n = 14 + m.length ∧ 14 ≤ b.length := by
  cases proto with
  | error e => simp [decMsg] at h
  | ok m0 =>
    simp only [decMsg] at h
    cases hu : Msg.unpack m0 b with
    | mk m' r =>
      rw [hu] at h
      cases r with
      | error e => simp at h
      | ok k =>
        simp only [Except.ok.injEq, Prod.mk.injEq] at h
        obtain ⟨rfl, rfl⟩ := h
        simp only [Msg.unpack] at hu
        repeat' split at hu
        all_goals simp_all
        rename_i hh
        have := structUnpackFrom_ok_length _ _ _ _ hh
        simp only [MSG_unpack_fmt0, Fmt.size, codesSize, Code.size] at this
        obtain ⟨h1, h2⟩ := hu
        subst h1
        simp only
        omega

/-- [review] witness: RTC-stamped packet with two messages (lengths 0 and 3) -/
def wMIL : Bytes :=
  [2, 0, 0, 192,  1, 0, 0, 0, 0, 0, 0, 0, 0, 0, 0, 0, 0, 0,  77, 0, 0, 0, 0, 0, 0, 0, 255, 255, 3, 0, 3, 0, 1, 2, 3]

example : (Packet.unpack ⟨[], 0, 0, some 0⟩ wMIL).2 = .ok () ∧
    (Packet.unpack ⟨[], 0, 0, some 0⟩ wMIL).1.messages = [⟨.rtc 1, 0, 0, 0, []⟩, ⟨.rtc 77, 0xFFFF, 3, 3, [1, 2, 3]⟩] := ⟨by rfl, by rfl⟩
example : Msg.unpack (Msg.fresh (.rtc 0)) (wMIL.drop 18) = (⟨.rtc 77, 0xFFFF, 3, 3, [1, 2, 3]⟩, .ok 17) := by rfl
example : Packet.proto ⟨[], 0, 0, some 0⟩ = .ok (Msg.fresh (.rtc 0)) ∧
    decMsg (Packet.proto ⟨[], 0, 0, some 0⟩) (wMIL.drop 18) = .ok (⟨.rtc 77, 0xFFFF, 3, 3, [1, 2, 3]⟩, 17) := ⟨by rfl, by rfl⟩

/-- [review] work bound with the real stride: at most ⌈(|buf| − 4)/14⌉ messages -/
theorem MIL_items_stride (t : Packet) (buf : Bytes) (h : (Packet.unpack t buf).2 = .ok ()) :
    (Packet.unpack t buf).1.messages.length * 14 ≤ (buf.length - 4) + 13 := by
  revert h
  simp only [Packet.unpack]
  repeat' split
  all_goals try (simp; done)
  rename_i ms hd
  intro _
  exact Acra.Lemmas.ReviewC08.decOff_items_stride (decMsg t.proto) more1553 buf (decMsg_progress _ (MIL_proto_nofuel t)) 14
    (fun b x n hb => (decMsg_advance_ge _ b x n hb).1) _ 4 ms hd
/-! ### review additions (rev1-C08): outcome lists — the element decoders have no loop and no fuel in their models, so
    `≠ .error .fuel` holds by construction; what C08 says about them is which ordinary exceptions can occur -/

theorem Ipts_unpack_outcomes (t : Ipts) (buf : Bytes) :
    (∃ i, Ipts.unpack t buf = .ok i) ∨ Ipts.unpack t buf = .error .struct ∨ Ipts.unpack t buf = .error .attribute := by
  cases t <;> simp only [Ipts.unpack]
  · repeat' split
    all_goals first
      | (simp; done)
      | (rename_i e h; have := structUnpack_error _ _ _ h; subst this; simp)
  · repeat' split
    all_goals first
      | (simp; done)
      | (rename_i e h; have := structUnpack_error _ _ _ h; subst this; simp)
  · simp

theorem MILMsg_unpack_outcomes (t : Msg) (buf : Bytes) :
    (∃ n, (Msg.unpack t buf).2 = .ok n) ∨ (Msg.unpack t buf).2 = .error .struct ∨
    (Msg.unpack t buf).2 = .error .attribute := by
  simp only [Msg.unpack]
  have hi := Ipts_unpack_outcomes t.ipts (buf.take 8)
  repeat' split
  all_goals first
    | (simp; done)
    | (rename_i e h; rw [h] at hi; simpa using hi)
    | (rename_i e h; have := structUnpackFrom_error _ _ _ _ h; subst this; simp)

/-! ### packet-level outcome list (review B4): `MILSTD1553DataPacket.unpack` returns, or raises `struct.error`
    (channel-specific word incomplete), a bare `Exception` (`ipts_source=None`) or `AttributeError` (an
    `ipts_source` that is neither `TS_CH4` nor `TS_IEEE1558`); each kind characterised on the bytes -/

/-- the time-stamp decoder succeeds on exactly 8 bytes when a time stamp kind is set -/
theorem Ipts_unpack_ok8 (t : Ipts) (hn : t ≠ .none) (b : Bytes) (h : b.length = 8) : ∃ i, Ipts.unpack t b = .ok i := by
  cases t with
  | none => exact absurd rfl hn
  | rtc c =>
    simp only [Ipts.unpack, structUnpack, h, Acra.Gen.Ch11PayTs.RTC_unpack_fmt0, Fmt.size, codesSize, Code.size,
      unpackCodes, if_true]
    exact ⟨_, rfl⟩
  | ptp a c =>
    simp only [Ipts.unpack, structUnpack, h, Acra.Gen.Ch11PayTs.PTP_unpack_fmt0, Fmt.size, codesSize, Code.size,
      unpackCodes, if_true]
    exact ⟨_, rfl⟩

/-- a message decoder with a time-stamp kind accepts every buffer that holds the 14 header bytes
    (the loop condition `offset + 14 < len` guarantees 15) -/
theorem MILMsg_unpack_ok_of_len (m : Msg) (hn : m.ipts ≠ .none) (b : Bytes) (h : 14 ≤ b.length) :
    ∃ m' n, Msg.unpack m b = (m', .ok n) := by
  obtain ⟨i, hi⟩ := Ipts_unpack_ok8 m.ipts hn (b.take 8) (by simp; omega)
  have : structUnpackFrom MSG_unpack_fmt0 b 8 =
      .ok [decInt false ((b.drop 8).take 2), decInt false (((b.drop 8).drop 2).take 2),
           decInt false ((((b.drop 8).drop 2).drop 2).take 2)] := by
    simp only [structUnpackFrom, MSG_unpack_fmt0, Fmt.size, codesSize, Code.size, unpackCodes]
    have : 8 + (2 + (2 + (2 + 0))) ≤ b.length := by omega
    simp only [this, if_true]
  simp only [Msg.unpack, hi, this]
  exact ⟨_, _, rfl⟩

/-- the prototype message the packet decoder creates carries a time-stamp kind -/
theorem MIL_proto_ipts (p : Packet) (m0 : Msg) (h : p.proto = .ok m0) : m0.ipts ≠ .none := by
  simp only [Packet.proto] at h
  split at h
  · cases h
  · rename_i s _
    split at h
    · rename_i i hi
      simp only [Except.ok.injEq] at h
      subst h
      simp only [iptsOfSource] at hi
      split at hi
      · cases hi; simp [Msg.fresh]
      · split at hi
        · cases hi; simp [Msg.fresh]
        · cases hi
    · cases h

/-- exactly: `struct.error` iff fewer than 4 bytes; otherwise the exception of the constructor call
    `MILSTD1553Message(self._ipts_source)` — raised iff the loop is entered at all (more than 18 bytes) —
    and a value in every other case: the message decoder itself cannot fail inside the loop -/
theorem MIL_unpack_error_iff (t : Packet) (buf : Bytes) (e : Err) :
    (Packet.unpack t buf).2 = .error e ↔
      (buf.length < 4 ∧ e = .struct) ∨ (18 < buf.length ∧ t.proto = .error e) := by
  simp only [Packet.unpack]
  by_cases h4 : 4 ≤ buf.length
  · have hc : structUnpackFrom PKT_unpack_fmt0 buf 0 = .ok [decInt false ((buf.drop 0).take 4)] := by
      simp only [structUnpackFrom, PKT_unpack_fmt0, Fmt.size, codesSize, Code.size, unpackCodes]
      have : 0 + (4 + 0) ≤ buf.length := by omega
      simp only [this, if_true]
    simp only [hc]
    cases hp : t.proto with
    | error e0 =>
      by_cases h18 : 18 < buf.length
      · have hd : decOff (decMsg (.error e0)) more1553 buf (buf.length + 1) 4 = .error e0 := by
          unfold decOff
          have : more1553 4 buf.length = true := by simp [more1553]; omega
          simp only [this, if_true, decMsg]
        simp only [hd, Except.error.injEq]
        constructor
        · rintro rfl; exact Or.inr ⟨h18, rfl⟩
        · rintro (⟨h, _⟩ | ⟨_, h⟩)
          · omega
          · exact h
      · have hd : decOff (decMsg (.error e0)) more1553 buf (buf.length + 1) 4 = .ok [] := by
          unfold decOff
          have : more1553 4 buf.length = false := by simp [more1553]; omega
          simp only [this, Bool.false_eq_true, if_false]
        simp only [hd, reduceCtorEq, false_iff]
        rintro (⟨h, _⟩ | ⟨h, _⟩) <;> omega
    | ok m0 =>
      have hn := MIL_proto_ipts t m0 hp
      have key := Acra.Lemmas.RecordsErr.decOff_error_iff (decMsg (.ok m0)) more1553 buf
        (decMsg_progress _ (by simp)) (buf.length + 1) 4 (by omega)
      cases hd : decOff (decMsg (.ok m0)) more1553 buf (buf.length + 1) 4 with
      | ok ms =>
        simp only [reduceCtorEq, false_iff]
        rintro (⟨h, _⟩ | ⟨_, h⟩)
        · omega
        · cases h
      | error e' =>
        exfalso
        obtain ⟨ms, o, _, hm, he⟩ := (key e').1 hd
        simp only [more1553, decide_eq_true_eq] at hm
        obtain ⟨m', n, hok⟩ := MILMsg_unpack_ok_of_len m0 hn (buf.drop o) (by simp; omega)
        simp only [decMsg, hok] at he
        cases he
  · have hc : structUnpackFrom PKT_unpack_fmt0 buf 0 = .error .struct := by
      simp only [structUnpackFrom, PKT_unpack_fmt0, Fmt.size, codesSize, Code.size]
      have : ¬ 0 + (4 + 0) ≤ buf.length := by omega
      simp only [this, if_false]
    simp only [hc, Except.error.injEq]
    constructor
    · rintro rfl; exact Or.inl ⟨by omega, rfl⟩
    · rintro (⟨_, rfl⟩ | ⟨h, _⟩)
      · rfl
      · omega

/-- the outcome list — nothing else, in particular never `fuel` -/
theorem MIL_unpack_outcomes (t : Packet) (buf : Bytes) :
    (Packet.unpack t buf).2 = .ok () ∨ (Packet.unpack t buf).2 = .error .struct ∨
    ((Packet.unpack t buf).2 = .error .generic ∧ t.ipts_source = Option.none) ∨
    ((Packet.unpack t buf).2 = .error .attribute ∧ ∃ s, t.ipts_source = some s ∧ iptsOfSource s = Option.none) := by
  cases hr : (Packet.unpack t buf).2 with
  | ok u => exact Or.inl rfl
  | error e =>
    rcases (MIL_unpack_error_iff t buf e).1 hr with ⟨_, rfl⟩ | ⟨_, hp⟩
    · exact Or.inr (Or.inl rfl)
    · simp only [Packet.proto] at hp
      split at hp
      · rename_i hs
        cases hp
        exact Or.inr (Or.inr (Or.inl ⟨rfl, hs⟩))
      · rename_i s hs
        split at hp
        · cases hp
        · rename_i hi
          cases hp
          exact Or.inr (Or.inr (Or.inr ⟨rfl, s, hs, hi⟩))

/-- every outcome is reachable: `wMIL` accepted; 3 bytes → `struct.error`; `ipts_source=None` → bare `Exception`;
    `ipts_source=7` → `AttributeError`; and with `ipts_source=None` a buffer of at most 18 bytes is ACCEPTED (the
    loop body, and with it the failing constructor call, is never reached) -/
example : (Packet.unpack ⟨[], 0, 0, some 0⟩ wMIL).2 = .ok () := by rfl
example : (Packet.unpack ⟨[], 0, 0, some 0⟩ (wMIL.take 3)).2 = .error .struct := by rfl
example : (Packet.unpack ⟨[], 0, 0, Option.none⟩ wMIL).2 = .error .generic := by rfl
example : (Packet.unpack ⟨[], 0, 0, some 7⟩ wMIL).2 = .error .attribute := by rfl
example : (Packet.unpack ⟨[], 0, 0, Option.none⟩ (wMIL.take 18)).2 = .ok () := by rfl

/-- joint witnesses for the helper lemmas above: `Ipts_unpack_ok8` (a PTP stamp decoder on 8 bytes), `MILMsg_unpack_ok_of_len`
    (an RTC message decoder on the 15 bytes the loop condition guarantees), `MIL_proto_ipts` (the prototype for source 1) -/
example : (Ipts.ptp 0 0 ≠ .none) ∧ ([1, 0, 0, 0, 2, 0, 0, 0] : Bytes).length = 8 ∧
    Ipts.unpack (.ptp 0 0) [1, 0, 0, 0, 2, 0, 0, 0] = .ok (.ptp 2 1) := ⟨by decide, rfl, rfl⟩
example : (Msg.fresh (.rtc 0)).ipts ≠ .none ∧ 14 ≤ (wMIL.drop 18).length ∧
    (Msg.unpack (Msg.fresh (.rtc 0)) ((wMIL.drop 18).take 15)).2 = .ok 17 := ⟨by decide, by decide, rfl⟩
example : Packet.proto ⟨[], 0, 0, some 1⟩ = .ok (Msg.fresh (.ptp 0 0)) ∧ (Msg.fresh (.ptp 0 0)).ipts ≠ .none := ⟨rfl, by decide⟩

end Acra.Props.C08
