import Acra.Lemmas.Ch11MIL1553
import Acra.Lemmas.ReviewC08Records
namespace Acra.Props.C08
open Acra.Py Acra.Model.Ch11Pay Acra.Model.Ch11Pay.MIL1553 Acra.Gen.Ch11MIL1553 Acra.Lemmas.Ch11MIL1553

theorem Ipts_unpack_nofuel (t : Ipts) (buf : Bytes) : Ipts.unpack t buf ≠ .error .fuel := by
  cases t <;> simp only [Ipts.unpack]
  · repeat' split
    all_goals first
      | (simp; done)
      | (rename_i e h; have := structUnpack_error _ _ _ h; subst this; simp)
  · repeat' split
    all_goals first
      | (simp; done)
      | (rename_i e h; have := structUnpack_error _ _ _ h; subst this; simp)
  · simp

theorem MILMsg_unpack_total (t : Msg) (buf : Bytes) : (Msg.unpack t buf).2 ≠ .error .fuel := by
  simp only [Msg.unpack]
  have hi := Ipts_unpack_nofuel t.ipts (buf.take 8)
  repeat' split
  all_goals first
    | (simp; done)
    | (rename_i e h; simp only [ne_eq, Except.error.injEq]; intro he; subst he; exact hi h)
    | (rename_i e h; have := structUnpackFrom_error _ _ _ _ h; subst this; simp)

theorem MILMsg_unpack_consumes (t : Msg) (buf : Bytes) (m : Msg) (n : Nat) (h : Msg.unpack t buf = (m, .ok n)) : 14 ≤ n := by
  simp only [Msg.unpack] at h
  repeat' split at h
  all_goals simp_all
  all_goals omega

/-- every iteration of the message loop consumes the 14-byte intra-packet header at least -/
theorem decMsg_progress (proto : R Msg) (hp : proto ≠ .error .fuel) : Progress (decMsg proto) where
  pos := by
    intro b x n h
    cases proto with
    | error e => simp [decMsg] at h
    | ok m0 =>
      simp only [decMsg] at h
      cases hu : Msg.unpack m0 b with
      | mk m r =>
        rw [hu] at h
        cases r with
        | error e => simp at h
        | ok k =>
          simp only [Except.ok.injEq, Prod.mk.injEq] at h
          have := MILMsg_unpack_consumes m0 b m k hu
          omega
  nofuel := by
    intro b h
    cases proto with
    | error e => simp only [decMsg, Except.error.injEq] at h; subst h; exact hp rfl
    | ok m0 =>
      have := MILMsg_unpack_total m0 b
      simp only [decMsg] at h
      split at h
      · simp at h
      · rename_i e he
        simp only [Except.error.injEq] at h
        subst h
        rw [he] at this
        exact this rfl
  empty := by
    intro x n h
    cases proto with
    | error e => simp [decMsg] at h
    | ok m0 =>
      simp only [decMsg, Msg.unpack, List.take_nil] at h
      cases hi : m0.ipts <;>
        simp [hi, Ipts.unpack, structUnpack, Acra.Gen.Ch11PayTs.RTC_unpack_fmt0, Acra.Gen.Ch11PayTs.PTP_unpack_fmt0,
          Fmt.size, codesSize, Code.size] at h

theorem MIL_proto_nofuel (p : Packet) : p.proto ≠ .error .fuel := by
  unfold Packet.proto
  repeat' split
  all_goals simp

/-- `MILSTD1553DataPacket.unpack` terminates on every buffer: the fuel (len + 1) is never exhausted -/
theorem MIL_unpack_total (t : Packet) (buf : Bytes) : (Packet.unpack t buf).2 ≠ .error .fuel := by
  simp only [Packet.unpack]
  have := decOff_fuel_sufficient (decMsg t.proto) more1553 buf (decMsg_progress _ (MIL_proto_nofuel t))
    (buf.length + 1) 4 (by omega)
  repeat' split
  all_goals first
    | (simp; done)
    | (rename_i e h; simp only [ne_eq, Except.error.injEq]; intro he; subst he; exact this h)
    | (rename_i e h; have := structUnpackFrom_error _ _ _ _ h; subst this; simp)

/-- work bound: at most one message per byte after the channel-specific word -/
theorem MIL_items_le (t : Packet) (buf : Bytes) (h : (Packet.unpack t buf).2 = .ok ()) :
    (Packet.unpack t buf).1.messages.length ≤ buf.length - 4 := by
  revert h
  simp only [Packet.unpack]
  repeat' split
  all_goals try (simp; done)
  rename_i ms hd
  intro _
  exact decOff_items_le (decMsg t.proto) more1553 buf (decMsg_progress _ (MIL_proto_nofuel t)) _ 4 ms hd

/-- [review] the per-iteration bound for the loop step: an accepted message advances by the 14-byte
    intra-packet header plus the declared length -/
theorem decMsg_advance_ge (proto : R Msg) (b : Bytes) (m : Msg) (n : Nat) (h : decMsg proto b = .ok (m, n)) :
    14 ≤ n ∧ n = 14 + m.length ∧ 14 ≤ b.length := by
  cases proto with
  | error e => simp [decMsg] at h
  | ok m0 =>
    simp only [decMsg] at h
    cases hu : Msg.unpack m0 b with
    | mk m' r =>
      rw [hu] at h
      cases r with
      | error e => simp at h
      | ok k =>
        simp only [Except.ok.injEq, Prod.mk.injEq] at h
        obtain ⟨rfl, rfl⟩ := h
        simp only [Msg.unpack] at hu
        repeat' split at hu
        all_goals simp_all
        rename_i hh
        have := structUnpackFrom_ok_length _ _ _ _ hh
        simp only [MSG_unpack_fmt0, Fmt.size, codesSize, Code.size] at this
        obtain ⟨h1, h2⟩ := hu
        subst h1
        simp only
        omega

/-- [review] witness: RTC-stamped packet with two messages (lengths 0 and 3) -/
def wMIL : Bytes :=
  [2, 0, 0, 192,  1, 0, 0, 0, 0, 0, 0, 0, 0, 0, 0, 0, 0, 0,  77, 0, 0, 0, 0, 0, 0, 0, 255, 255, 3, 0, 3, 0, 1, 2, 3]

example : (Packet.unpack ⟨[], 0, 0, some 0⟩ wMIL).2 = .ok () ∧
    (Packet.unpack ⟨[], 0, 0, some 0⟩ wMIL).1.messages = [⟨.rtc 1, 0, 0, 0, []⟩, ⟨.rtc 77, 0xFFFF, 3, 3, [1, 2, 3]⟩] := ⟨by rfl, by rfl⟩
example : Msg.unpack (Msg.fresh (.rtc 0)) (wMIL.drop 18) = (⟨.rtc 77, 0xFFFF, 3, 3, [1, 2, 3]⟩, .ok 17) := by rfl
example : Packet.proto ⟨[], 0, 0, some 0⟩ = .ok (Msg.fresh (.rtc 0)) ∧
    decMsg (Packet.proto ⟨[], 0, 0, some 0⟩) (wMIL.drop 18) = .ok (⟨.rtc 77, 0xFFFF, 3, 3, [1, 2, 3]⟩, 17) := ⟨by rfl, by rfl⟩

/-- [review] work bound with the real stride: at most ⌈(|buf| − 4)/14⌉ messages -/
theorem MIL_items_stride (t : Packet) (buf : Bytes) (h : (Packet.unpack t buf).2 = .ok ()) :
    (Packet.unpack t buf).1.messages.length * 14 ≤ (buf.length - 4) + 13 := by
  revert h
  simp only [Packet.unpack]
  repeat' split
  all_goals try (simp; done)
  rename_i ms hd
  intro _
  exact Acra.Lemmas.ReviewC08.decOff_items_stride (decMsg t.proto) more1553 buf (decMsg_progress _ (MIL_proto_nofuel t)) 14
    (fun b x n hb => (decMsg_advance_ge _ b x n hb).1) _ 4 ms hd
/-! ### review additions (rev1-C08): outcome lists — the element decoders have no loop and no fuel in their models, so
    `≠ .error .fuel` holds by construction; what C08 says about them is which ordinary exceptions can occur -/

theorem Ipts_unpack_outcomes (t : Ipts) (buf : Bytes) :
    (∃ i, Ipts.unpack t buf = .ok i) ∨ Ipts.unpack t buf = .error .struct ∨ Ipts.unpack t buf = .error .attribute := by
  cases t <;> simp only [Ipts.unpack]
  · repeat' split
    all_goals first
      | (simp; done)
      | (rename_i e h; have := structUnpack_error _ _ _ h; subst this; simp)
  · repeat' split
    all_goals first
      | (simp; done)
      | (rename_i e h; have := structUnpack_error _ _ _ h; subst this; simp)
  · simp

theorem MILMsg_unpack_outcomes (t : Msg) (buf : Bytes) :
    (∃ n, (Msg.unpack t buf).2 = .ok n) ∨ (Msg.unpack t buf).2 = .error .struct ∨
    (Msg.unpack t buf).2 = .error .attribute := by
  simp only [Msg.unpack]
  have hi := Ipts_unpack_outcomes t.ipts (buf.take 8)
  repeat' split
  all_goals first
    | (simp; done)
    | (rename_i e h; rw [h] at hi; simpa using hi)
    | (rename_i e h; have := structUnpackFrom_error _ _ _ _ h; subst this; simp)

end Acra.Props.C08
