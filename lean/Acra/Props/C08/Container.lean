import Acra.Model.Container
/-!
  C08 for the container protocol: `len(obj)` and `obj[i]` are total — no loop at all in the element-counting classes
  (the model functions have no fuel parameter), and the three packing `__len__` terminate because `pack` does.
  On ANY object state (in particular whatever an `unpack` of arbitrary bytes produced or left behind) and ANY integer
  index the result is a value or one ordinary exception, named here.
-/
namespace Acra.Props.C08
open Acra.Py

/-- `obj[i]` of every list-backed container: the element, or `IndexError`, nothing else -/
theorem getitem_total :
    (∀ (s : Acra.Model.IENA.MState) i, (∃ x, s.getitem i = .ok x) ∨ s.getitem i = .error .index) ∧
    (∀ (s : Acra.Model.IENA.QState) i, (∃ x, s.getitem i = .ok x) ∨ s.getitem i = .error .index) ∧
    (∀ (s : Acra.Model.IENA.DState) i, (∃ x, s.getitem i = .ok x) ∨ s.getitem i = .error .index) ∧
    (∀ (s : Acra.Model.IENA.NState) i, (∃ x, s.getitem i = .ok x) ∨ s.getitem i = .error .index) ∧
    (∀ (s : Acra.Model.NPD.State) i, (∃ x, Acra.Model.NPD.getitem s i = .ok x) ∨ Acra.Model.NPD.getitem s i = .error .index) ∧
    (∀ (s : Acra.Model.ParserAligned.Packet) i, (∃ x, s.getitem i = .ok x) ∨ s.getitem i = .error .index) ∧
    (∀ (s : Acra.Model.Ch11Pay.ARINC.Packet) i, (∃ x, s.getitem i = .ok x) ∨ s.getitem i = .error .index) ∧
    (∀ (s : Acra.Model.Ch11Pay.MIL1553.Packet) i, (∃ x, s.getitem i = .ok x) ∨ s.getitem i = .error .index) ∧
    (∀ (s : Acra.Model.Ch11Pay.UART.Packet) i, (∃ x, s.getitem i = .ok x) ∨ s.getitem i = .error .index) ∧
    (∀ (s : Acra.Model.Ch11Pay.PCM.Packet) i, (∃ x, s.getitem i = .ok x) ∨ s.getitem i = .error .index) :=
  ⟨fun _ _ => listGet_total _ _, fun _ _ => listGet_total _ _, fun _ _ => listGet_total _ _,
   fun _ _ => listGet_total _ _, fun _ _ => listGet_total _ _, fun _ _ => listGet_total _ _,
   fun _ _ => listGet_total _ _, fun _ _ => listGet_total _ _, fun _ _ => listGet_total _ _,
   fun _ _ => listGet_total _ _⟩

open Acra.Model.MPEGTS in
/-- `MPEGTS.__getitem__` (its own range test first, then the list): the packet or `IndexError` -/
theorem MPEGTS_getitem_total (t : TS) (i : Int) : (∃ x, t.getitem i = .ok x) ∨ t.getitem i = .error .index := by
  simp only [TS.getitem]
  split
  · exact Or.inr rfl
  · exact listGet_total _ _

open Acra.Model.MPEGTS in
/-- … and it answers exactly on `-n ≤ i < n`, like the plain list classes (the extra test changes nothing) -/
theorem MPEGTS_getitem_eq_list (t : TS) (i : Int) : t.getitem i = listGet t.blocks i := by
  simp only [TS.getitem]
  split
  · rename_i h
    exact ((listGet_error_iff t.blocks i).2 (by omega)).symm
  · rfl

open Acra.Model.iNetX in
/-- `len(inetx)`: a number, or `struct.error` (a field that does not fit 32 bits) — on every state -/
theorem iNetX_len_total (s : State) : (∃ n, (len s).2 = .ok n) ∨ (len s).2 = .error .struct := by
  show (∃ n, (pack s).2.map List.length = .ok n) ∨ (pack s).2.map List.length = .error .struct
  cases h : (pack s).2 with
  | ok b => exact Or.inl ⟨b.length, rfl⟩
  | error e =>
    right
    have : e = .struct := by
      revert h
      simp only [pack]
      split
      · intro h; cases h
      · rename_i e' he
        intro h
        cases h
        exact structPack_error _ _ _ he
    rw [this]; rfl

open Acra.Model.IENA in
theorem IENA_len_total (s : Base) : (∃ n, (Base.len s).2 = .ok n) ∨ (Base.len s).2 = .error .struct := by
  show (∃ n, (Base.pack s).2.map List.length = .ok n) ∨ (Base.pack s).2.map List.length = .error .struct
  cases h : (Base.pack s).2 with
  | ok b => exact Or.inl ⟨b.length, rfl⟩
  | error e =>
    right
    have : e = .struct := by
      revert h
      simp only [Base.pack]
      split
      · rename_i e' he
        intro h; cases h
        exact structPack_error _ _ _ he
      · split
        · rename_i e' he
          intro h; cases h
          exact structPack_error _ _ _ he
        · intro h; cases h
    rw [this]; rfl

/-- `len(inet)` terminates with a number or with the exception `pack` raises (the model's `pack` is structural
    recursion over the package list: no fuel) -/
theorem iNET_len_total (s : Acra.Model.iNET.State) :
    (∃ n, (Acra.Model.iNET.len s).2 = .ok n) ∨ ∃ e, (Acra.Model.iNET.pack s).2 = .error e ∧ (Acra.Model.iNET.len s).2 = .error e := by
  show (∃ n, (Acra.Model.iNET.pack s).2.map List.length = .ok n) ∨
    ∃ e, (Acra.Model.iNET.pack s).2 = .error e ∧ (Acra.Model.iNET.pack s).2.map List.length = .error e
  cases h : (Acra.Model.iNET.pack s).2 with
  | ok b => exact Or.inl ⟨b.length, rfl⟩
  | error e => exact Or.inr ⟨e, rfl, rfl⟩

/-- witnesses: states on which each branch is taken -/
example : (Acra.Model.iNetX.len { Acra.Model.iNetX.fresh with streamid := 2 ^ 32 }).2 = .error .struct ∧
    (Acra.Model.iNetX.len Acra.Model.iNetX.fresh).2 = .ok 28 ∧
    (Acra.Model.IENA.Base.len { Acra.Model.IENA.Base.fresh with key := 65536 }).2 = .error .struct ∧
    (Acra.Model.IENA.MState.getitem Acra.Model.IENA.MState.fresh 0) = .error .index ∧
    (Acra.Model.MPEGTS.TS.getitem Acra.Model.MPEGTS.TS.fresh (-1)) = .error .index := ⟨rfl, rfl, rfl, rfl, rfl⟩

end Acra.Props.C08
