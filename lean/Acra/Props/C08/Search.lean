/-
  C08 for the `search` family: the search helpers and the SAM/DEC decommutator terminate.
  Every `while` loop of the models carries fuel; the theorems say the fuel the model starts with
  (text length + 1, `j + 1`, file length + 1, payload length + 2) is never exhausted — for *arbitrary*
  input bytes in the case of the decommutator, for every non-empty pattern in the case of the search
  helpers (Horspool with an empty pattern on a non-empty text does not terminate: see Props/C17/Horspool).
-/
import Acra.Lemmas.KMP
import Acra.Lemmas.SamDecTotal
namespace Acra.Props.C08
open Acra.Py Acra.Model.Search Acra.Model.SamDec Acra.Gen.SamDec Acra.Spec Acra.Lemmas.SamDec

/-- Horspool returns a list for every text and non-empty pattern -/
theorem BMH_total (text pat : Bytes) (hp : pat ≠ []) : ∃ r, bmh text pat = .ok r :=
  ⟨_, Acra.Lemmas.Search.bmh_eq_occ text pat hp⟩

/-- KMP returns a list for every text and non-empty pattern -/
theorem KMP_total (t p : Bytes) (hp : p ≠ []) : ∃ r, kmpSearch t p = .ok r :=
  ⟨_, Acra.Lemmas.KMP.kmpSearch_eq_occ t p hp⟩

/-- `endianness_swap` is loop-free: it returns bytes or raises Exception / ZeroDivisionError -/
theorem swap_total (b : Bytes) (n : Int) :
    (∃ r, endiannessSwap b n = .ok r) ∨ endiannessSwap b n = .error .generic ∨ endiannessSwap b n = .error .zeroDiv := by
  unfold endiannessSwap
  split
  · simp
  · split
    · simp
    · split
      · exact Or.inl ⟨_, rfl⟩
      · split
        · exact Or.inl ⟨_, rfl⟩
        · simp

/-- iterating the records of any byte string as a pcap file terminates, and yields at most one record
    per byte after the global header (work bound) -/
theorem pcapRecords_total (file : Bytes) :
    pcapRecords file ≠ .error .fuel ∧ ∀ recs, pcapRecords file = .ok recs → recs.length ≤ file.length - 24 :=
  ⟨decOff_fuel_sufficient pcapRec pcapMore file pcapRec_progress _ _ (by omega),
   fun recs h => decOff_items_le pcapRec pcapMore file pcapRec_progress _ _ recs h⟩

/-- `list(SamDecPcap(file).frames())` terminates for every file: the iteration ends normally or with an
    exception, never by exhausting the fuel of a loop -/
theorem decom_total (file : Bytes) : (decom file).2 ≠ some .fuel := by
  unfold decom
  cases hg : getData file with
  | error e =>
    simp only
    unfold getData at hg
    split at hg
    · rename_i e' he
      have := structUnpack_error _ _ _ he
      injection hg with hg
      subst hg
      simp [this]
    · split at hg
      · rename_i e' he
        injection hg with hg
        subst hg
        intro h
        injection h with h
        exact (pcapRecords_total file).1 (h ▸ he)
      · simp at hg
  | ok udps =>
    simp only
    unfold frames
    rw [sync_packed]
    exact framesLoop_no_fuel udps none (Or.inl rfl)

/-! ### review additions (rev1-C08): joint witnesses -/

-- `BMH_total` / `KMP_total` (hypothesis: non-empty pattern), overlapping occurrences
example : ([1, 2, 1] : Bytes) ≠ [] ∧ bmh [1, 2, 1, 2, 1, 3] [1, 2, 1] = .ok [0, 2] ∧
    kmpSearch [1, 2, 1, 2, 1, 3] [1, 2, 1] = .ok [0, 2] := ⟨by decide, by rfl, by rfl⟩
/-- the excluded input: Horspool with an EMPTY pattern on a non-empty text exhausts the fuel (the real code never
    returns); KMP raises IndexError -/
example : bmh [1, 2, 3] [] = .error .fuel ∧ kmpSearch [1, 2, 3] [] = .error .index := ⟨by rfl, by rfl⟩
-- `pcapRecords_total` (inner hypothesis `pcapRecords file = .ok recs`): a global header and two records
example : (pcapRecords (List.replicate 24 0 ++ [0, 0, 0, 0, 0, 0, 0, 0, 2, 0, 0, 0, 2, 0, 0, 0, 7, 8] ++
    [0, 0, 0, 0, 0, 0, 0, 0, 0, 0, 0, 0, 0, 0, 0, 0])).map List.length = .ok 2 := by rfl
end Acra.Props.C08
