import Acra.Model.Ch11Video
namespace Acra.Props.C08
open Acra.Py Acra.Model.Ch11Pay Acra.Model.Ch11Pay.Video Acra.Gen.Ch11Video

/-- the transport-stream loop advances by 188 bytes per chunk: fuel len − off + 1 is never exhausted -/
theorem splitTS_fuel_sufficient (buf : Bytes) (fuel off : Nat) (hf : buf.length - off + 1 ≤ fuel) :
    splitTS buf fuel off ≠ .error .fuel := by
  induction fuel generalizing off with
  | zero => omega
  | succ fuel ih =>
    by_cases hlt : off < buf.length
    · cases hok : chunkOk (slice buf off (off + 188)) with
      | false => simp [splitTS, hlt, hok]
      | true =>
        have := ih (off + 188) (by omega)
        cases hr : splitTS buf fuel (off + 188) with
        | ok cs => simp [splitTS, hlt, hok, hr]
        | error e =>
          simp only [splitTS, hlt, if_true, hok, hr, ne_eq, Except.error.injEq]
          intro he; subst he; exact this hr
    · simp [splitTS, hlt]

theorem splitTS_items_le (buf : Bytes) (fuel off : Nat) (cs : List Bytes) (h : splitTS buf fuel off = .ok cs) :
    cs.length ≤ buf.length - off := by
  induction fuel generalizing off cs with
  | zero => simp [splitTS] at h
  | succ fuel ih =>
    by_cases hlt : off < buf.length
    · cases hok : chunkOk (slice buf off (off + 188)) with
      | false => simp [splitTS, hlt, hok] at h
      | true =>
        cases hr : splitTS buf fuel (off + 188) with
        | error e => simp [splitTS, hlt, hok, hr] at h
        | ok ds =>
          simp only [splitTS, hlt, if_true, hok, hr, Except.ok.injEq] at h
          subst h
          have := ih (off + 188) ds hr
          simp only [List.length_cons]; omega
    · simp only [splitTS, hlt, if_false, Except.ok.injEq] at h
      subst h; simp

/-- `VideoFormat2.unpack` (and the `MPEGTS.unpack` loop inside it) terminates on every buffer -/
theorem Video_unpack_total (t : State) (buf : Bytes) : (unpack t buf).2 ≠ .error .fuel := by
  simp only [unpack]
  cases hc : structUnpackFrom VID_unpack_fmt0 buf 0 with
  | error e => have := structUnpackFrom_error _ _ _ _ hc; subst this; simp
  | ok v =>
    match v with
    | [csw] =>
      simp only
      split
      · simp
      · have := splitTS_fuel_sufficient (buf.drop 4) ((buf.drop 4).length + 1) 0 (by omega)
        cases hr : splitTS (buf.drop 4) ((buf.drop 4).length + 1) 0 with
        | ok cs => simp
        | error e => simp only [ne_eq, Except.error.injEq]; intro he; subst he; exact this hr
    | [] => simp
    | _ :: _ :: _ => simp

/-! ### review additions (rev1-C08) -/

/-- [review] work bound with the real stride (`splitTS_items_le` only says one chunk per byte): at most
    ⌈(len − off)/188⌉ chunks, each non-empty and at most 188 bytes -/
theorem splitTS_items_stride (buf : Bytes) (fuel off : Nat) (cs : List Bytes) (h : splitTS buf fuel off = .ok cs) :
    cs.length * 188 ≤ (buf.length - off) + 187 ∧ ∀ c ∈ cs, 0 < c.length ∧ c.length ≤ 188 := by
  induction fuel generalizing off cs with
  | zero => simp [splitTS] at h
  | succ fuel ih =>
    by_cases hlt : off < buf.length
    · cases hok : chunkOk (slice buf off (off + 188)) with
      | false => simp [splitTS, hlt, hok] at h
      | true =>
        cases hr : splitTS buf fuel (off + 188) with
        | error e => simp [splitTS, hlt, hok, hr] at h
        | ok ds =>
          simp only [splitTS, hlt, if_true, hok, hr, Except.ok.injEq] at h
          subst h
          have := ih (off + 188) ds hr
          refine ⟨by simp only [List.length_cons, Nat.succ_mul]; omega, ?_⟩
          intro c hc
          simp only [List.mem_cons] at hc
          rcases hc with rfl | hc
          · simp only [slice_length]; omega
          · exact this.2 c hc
    · simp only [splitTS, hlt, if_false, Except.ok.injEq] at h
      subst h; simp

/-- [review] witness: channel-specific word 0x1000 and two 188-byte transport packets -/
def wVideo : Bytes :=
  [0, 0x10, 0, 0] ++ ([0x47, 0x01, 0x00, 0x10] ++ List.replicate 184 0xAB) ++ ([0x47, 0x01, 0x00, 0x11] ++ List.replicate 184 0xCD)

set_option maxRecDepth 20000 in
example : (unpack fresh wVideo).2 = .ok () ∧ (unpack fresh wVideo).1.blocks.length = 2 := ⟨by rfl, by rfl⟩
set_option maxRecDepth 20000 in
example : wVideo.length - 4 + 1 ≤ 400 ∧ (splitTS wVideo 400 4).map List.length = .ok 2 := ⟨by decide, by rfl⟩

/-- [review] packet-level work bound (missing before): an accepted buffer yields at most ⌈(|buf| − 4)/188⌉ blocks -/
theorem Video_items_le (t : State) (buf : Bytes) (h : (unpack t buf).2 = .ok ()) :
    (unpack t buf).1.blocks.length * 188 ≤ (buf.length - 4) + 187 := by
  revert h
  simp only [unpack]
  cases hc : structUnpackFrom VID_unpack_fmt0 buf 0 with
  | error e => simp
  | ok v =>
    match v with
    | [csw] =>
      simp only
      split
      · simp
      · cases hr : splitTS (buf.drop 4) ((buf.drop 4).length + 1) 0 with
        | ok cs =>
          simp only
          intro _
          have := (splitTS_items_stride _ _ _ _ hr).1
          simp only [List.length_drop] at this
          omega
        | error e => simp
    | [] => simp
    | _ :: _ :: _ => simp
/-! ### packet-level outcome list (review B4): `VideoFormat2.unpack` returns, or raises `struct.error` (fewer than
    4 bytes) or a bare `Exception` (intra-packet-header bit set, or a 188-byte chunk the transport-stream decoder
    refuses); each kind characterised on the bytes -/

/-- the chunk loop ends with an exception — always a bare `Exception` — exactly when some chunk
    `buf[off + 188·k : off + 188·k + 188]` that starts inside the buffer is refused -/
theorem splitTS_error_iff (buf : Bytes) (fuel off : Nat) (hf : buf.length - off + 1 ≤ fuel) (e : Err) :
    splitTS buf fuel off = .error e ↔
      e = .generic ∧ ∃ k, off + 188 * k < buf.length ∧ chunkOk (slice buf (off + 188 * k) (off + 188 * k + 188)) = false := by
  induction fuel generalizing off with
  | zero => omega
  | succ fuel ih =>
    unfold splitTS
    by_cases hlt : off < buf.length
    · simp only [hlt, if_true]
      by_cases hok : chunkOk (slice buf off (off + 188)) = true
      · simp only [hok, if_true]
        have := ih (off + 188) (by omega)
        cases hr : splitTS buf fuel (off + 188) with
        | ok cs =>
          rw [hr] at this
          simp only [reduceCtorEq, false_iff]
          rintro ⟨he, k, hk, hc⟩
          cases k with
          | zero => simp only [Nat.mul_zero, Nat.add_zero] at hc; rw [hok] at hc; cases hc
          | succ k =>
            exact absurd (this.2 ⟨he, k, by omega, by rw [← hc]; congr 2 <;> omega⟩) (by simp)
        | error e' =>
          rw [hr] at this
          simp only [Except.error.injEq]
          constructor
          · rintro rfl
            obtain ⟨he, k, hk, hc⟩ := this.1 rfl
            exact ⟨he, k + 1, by omega, by rw [← hc]; congr 2 <;> omega⟩
          · rintro ⟨he, k, hk, hc⟩
            cases k with
            | zero => simp only [Nat.mul_zero, Nat.add_zero] at hc; rw [hok] at hc; cases hc
            | succ k =>
              have := this.2 ⟨he, k, by omega, by rw [← hc]; congr 2 <;> omega⟩
              simpa using this
      · simp only [hok, Bool.false_eq_true, if_false, Except.error.injEq]
        constructor
        · rintro rfl
          exact ⟨rfl, 0, by omega, by simpa using hok⟩
        · rintro ⟨rfl, _⟩; rfl
    · simp only [hlt, if_false, reduceCtorEq, false_iff]
      rintro ⟨_, k, hk, _⟩
      omega

/-- the channel-specific word (little-endian 32 bits) of a buffer holding it -/
def videoCsw (buf : Bytes) : Nat := decInt false (buf.take 4)

/-- exactly which exception, and when -/
theorem Video_unpack_error_iff (t : State) (buf : Bytes) (e : Err) :
    (unpack t buf).2 = .error e ↔
      (buf.length < 4 ∧ e = .struct) ∨
      (4 ≤ buf.length ∧ e = .generic ∧ ((videoCsw buf / 2 ^ 19) % 2 = 1 ∨
        ∃ k, 188 * k < buf.length - 4 ∧ chunkOk (slice (buf.drop 4) (188 * k) (188 * k + 188)) = false)) := by
  simp only [unpack]
  by_cases h4 : 4 ≤ buf.length
  · have hc : structUnpackFrom VID_unpack_fmt0 buf 0 = .ok [videoCsw buf] := by
      simp only [structUnpackFrom, VID_unpack_fmt0, Fmt.size, codesSize, Code.size, unpackCodes, videoCsw, List.drop_zero]
      have : 0 + (4 + 0) ≤ buf.length := by omega
      simp only [this, if_true]
    simp only [hc, IPH_OFFSET]
    by_cases hiph : (videoCsw buf / 2 ^ 19) % 2 = 1
    · simp only [hiph, if_true, Except.error.injEq]
      constructor
      · rintro rfl; exact Or.inr ⟨h4, rfl, Or.inl trivial⟩
      · rintro (⟨h, _⟩ | ⟨_, rfl, _⟩)
        · omega
        · rfl
    · simp only [hiph, if_false]
      have key := splitTS_error_iff (buf.drop 4) ((buf.drop 4).length + 1) 0 (by omega) e
      simp only [Nat.zero_add, List.length_drop] at key
      cases hr : splitTS (buf.drop 4) (buf.length - 4 + 1) 0 with
      | ok cs =>
        rw [hr] at key
        simp only [List.length_drop, hr, reduceCtorEq, false_iff]
        rintro (⟨h, _⟩ | ⟨_, he, h | h⟩)
        · omega
        · exact h
        · exact absurd (key.2 ⟨he, h⟩) (by simp)
      | error e' =>
        rw [hr] at key
        simp only [List.length_drop, hr, Except.error.injEq]
        constructor
        · rintro rfl
          obtain ⟨he, h⟩ := key.1 rfl
          exact Or.inr ⟨h4, he, Or.inr h⟩
        · rintro (⟨h, _⟩ | ⟨_, he, h | h⟩)
          · omega
          · exact absurd h (by simp)
          · have := key.2 ⟨he, h⟩
            simpa using this
  · have hc : structUnpackFrom VID_unpack_fmt0 buf 0 = .error .struct := by
      simp only [structUnpackFrom, VID_unpack_fmt0, Fmt.size, codesSize, Code.size]
      have : ¬ 0 + (4 + 0) ≤ buf.length := by omega
      simp only [this, if_false]
    simp only [hc, Except.error.injEq]
    constructor
    · rintro rfl; exact Or.inl ⟨by omega, rfl⟩
    · rintro (⟨_, rfl⟩ | ⟨h, _⟩)
      · rfl
      · omega

/-- the outcome list — nothing else, in particular never `fuel` -/
theorem Video_unpack_outcomes (t : State) (buf : Bytes) :
    (unpack t buf).2 = .ok () ∨ (unpack t buf).2 = .error .struct ∨ (unpack t buf).2 = .error .generic := by
  cases hr : (unpack t buf).2 with
  | ok u => exact Or.inl rfl
  | error e =>
    rcases (Video_unpack_error_iff t buf e).1 hr with ⟨_, rfl⟩ | ⟨_, rfl, _⟩
    · exact Or.inr (Or.inl rfl)
    · exact Or.inr (Or.inr rfl)

/-- every outcome is reachable: `wVideo` accepted; 3 bytes → `struct.error`; intra-packet-header bit (bit 19 of the
    channel-specific word) set → `Exception`; the SECOND chunk's sync byte wrong → `Exception`; a trailing chunk of
    three bytes (shorter than the 4-byte transport header) → `Exception` -/
example : (unpack fresh (wVideo.take 3)).2 = .error .struct := by rfl
set_option maxRecDepth 20000 in
example : (unpack fresh (wVideo.set 2 8)).2 = .error .generic := by rfl
set_option maxRecDepth 20000 in
example : (unpack fresh (wVideo.set 192 0x46)).2 = .error .generic := by rfl
set_option maxRecDepth 20000 in
example : (unpack fresh (wVideo ++ [0x47, 0, 0])).2 = .error .generic := by rfl

/-- witness for `splitTS_error_iff` (fuel hypothesis and both sides): a 5-byte stream whose only chunk has the wrong sync byte -/
example : ([0x46, 0, 0, 0x10, 1] : Bytes).length - 0 + 1 ≤ 6 ∧ splitTS [0x46, 0, 0, 0x10, 1] 6 0 = .error .generic ∧
    0 + 188 * 0 < ([0x46, 0, 0, 0x10, 1] : Bytes).length ∧
    chunkOk (slice [0x46, 0, 0, 0x10, 1] (0 + 188 * 0) (0 + 188 * 0 + 188)) = false := ⟨by decide, rfl, by decide, rfl⟩

end Acra.Props.C08
