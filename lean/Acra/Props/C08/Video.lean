import Acra.Model.Ch11Video
namespace Acra.Props.C08
open Acra.Py Acra.Model.Ch11Pay Acra.Model.Ch11Pay.Video Acra.Gen.Ch11Video

/-- the transport-stream loop advances by 188 bytes per chunk: fuel len − off + 1 is never exhausted -/
theorem splitTS_fuel_sufficient (buf : Bytes) (fuel off : Nat) (hf : buf.length - off + 1 ≤ fuel) :
    splitTS buf fuel off ≠ .error .fuel := by
  induction fuel generalizing off with
  | zero => omega
  | succ fuel ih =>
    by_cases hlt : off < buf.length
    · cases hok : chunkOk (slice buf off (off + 188)) with
      | false => simp [splitTS, hlt, hok]
      | true =>
        have := ih (off + 188) (by omega)
        cases hr : splitTS buf fuel (off + 188) with
        | ok cs => simp [splitTS, hlt, hok, hr]
        | error e =>
          simp only [splitTS, hlt, if_true, hok, hr, ne_eq, Except.error.injEq]
          intro he; subst he; exact this hr
    · simp [splitTS, hlt]

theorem splitTS_items_le (buf : Bytes) (fuel off : Nat) (cs : List Bytes) (h : splitTS buf fuel off = .ok cs) :
    cs.length ≤ buf.length - off := by
  induction fuel generalizing off cs with
  | zero => simp [splitTS] at h
  | succ fuel ih =>
    by_cases hlt : off < buf.length
    · cases hok : chunkOk (slice buf off (off + 188)) with
      | false => simp [splitTS, hlt, hok] at h
      | true =>
        cases hr : splitTS buf fuel (off + 188) with
        | error e => simp [splitTS, hlt, hok, hr] at h
        | ok ds =>
          simp only [splitTS, hlt, if_true, hok, hr, Except.ok.injEq] at h
          subst h
          have := ih (off + 188) ds hr
          simp only [List.length_cons]; omega
    · simp only [splitTS, hlt, if_false, Except.ok.injEq] at h
      subst h; simp

/-- `VideoFormat2.unpack` (and the `MPEGTS.unpack` loop inside it) terminates on every buffer -/
theorem Video_unpack_total (t : State) (buf : Bytes) : (unpack t buf).2 ≠ .error .fuel := by
  simp only [unpack]
  cases hc : structUnpackFrom VID_unpack_fmt0 buf 0 with
  | error e => have := structUnpackFrom_error _ _ _ _ hc; subst this; simp
  | ok v =>
    match v with
    | [csw] =>
      simp only
      split
      · simp
      · have := splitTS_fuel_sufficient (buf.drop 4) ((buf.drop 4).length + 1) 0 (by omega)
        cases hr : splitTS (buf.drop 4) ((buf.drop 4).length + 1) 0 with
        | ok cs => simp
        | error e => simp only [ne_eq, Except.error.injEq]; intro he; subst he; exact this hr
    | [] => simp
    | _ :: _ :: _ => simp

/-! ### review additions (rev1-C08) -/

/-- [review] work bound with the real stride (`splitTS_items_le` only says one chunk per byte): at most
    ⌈(len − off)/188⌉ chunks, each non-empty and at most 188 bytes -/
theorem splitTS_items_stride (buf : Bytes) (fuel off : Nat) (cs : List Bytes) (h : splitTS buf fuel off = .ok cs) :
    cs.length * 188 ≤ (buf.length - off) + 187 ∧ ∀ c ∈ cs, 0 < c.length ∧ c.length ≤ 188 := by
  induction fuel generalizing off cs with
  | zero => simp [splitTS] at h
  | succ fuel ih =>
    by_cases hlt : off < buf.length
    · cases hok : chunkOk (slice buf off (off + 188)) with
      | false => simp [splitTS, hlt, hok] at h
      | true =>
        cases hr : splitTS buf fuel (off + 188) with
        | error e => simp [splitTS, hlt, hok, hr] at h
        | ok ds =>
          simp only [splitTS, hlt, if_true, hok, hr, Except.ok.injEq] at h
          subst h
          have := ih (off + 188) ds hr
          refine ⟨by simp only [List.length_cons, Nat.succ_mul]; omega, ?_⟩
          intro c hc
          simp only [List.mem_cons] at hc
          rcases hc with rfl | hc
          · simp only [slice_length]; omega
          · exact this.2 c hc
    · simp only [splitTS, hlt, if_false, Except.ok.injEq] at h
      subst h; simp

/-- [review] witness: channel-specific word 0x1000 and two 188-byte transport packets -/
def wVideo : Bytes :=
  [0, 0x10, 0, 0] ++ ([0x47, 0x01, 0x00, 0x10] ++ List.replicate 184 0xAB) ++ ([0x47, 0x01, 0x00, 0x11] ++ List.replicate 184 0xCD)

set_option maxRecDepth 20000 in
example : (unpack fresh wVideo).2 = .ok () ∧ (unpack fresh wVideo).1.blocks.length = 2 := ⟨by rfl, by rfl⟩
set_option maxRecDepth 20000 in
example : wVideo.length - 4 + 1 ≤ 400 ∧ (splitTS wVideo 400 4).map List.length = .ok 2 := ⟨by decide, by rfl⟩

/-- [review] packet-level work bound (missing before): an accepted buffer yields at most ⌈(|buf| − 4)/188⌉ blocks -/
theorem Video_items_le (t : State) (buf : Bytes) (h : (unpack t buf).2 = .ok ()) :
    (unpack t buf).1.blocks.length * 188 ≤ (buf.length - 4) + 187 := by
  revert h
  simp only [unpack]
  cases hc : structUnpackFrom VID_unpack_fmt0 buf 0 with
  | error e => simp
  | ok v =>
    match v with
    | [csw] =>
      simp only
      split
      · simp
      · cases hr : splitTS (buf.drop 4) ((buf.drop 4).length + 1) 0 with
        | ok cs =>
          simp only
          intro _
          have := (splitTS_items_stride _ _ _ _ hr).1
          simp only [List.length_drop] at this
          omega
        | error e => simp
    | [] => simp
    | _ :: _ :: _ => simp
end Acra.Props.C08
