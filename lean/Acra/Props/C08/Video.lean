import Acra.Model.Ch11Video
import Acra.Props.C08.Mpeg
namespace Acra.Props.C08
open Acra.Py Acra.Model.Ch11Pay.Video Acra.Model.MPEGTS Acra.Gen.Ch11Video

/-! `VideoFormat2.unpack` hands `buffer[4:]` to `MPEGTS.unpack`; since the C04 extension the model does the same (the
    former private chunk loop `splitTS` is gone), so totality and the work bound are those of the MPEG family's loop:
    `MPEGTS_unpack_total`, `mpegBlock_progress`, `mpegBlock_advance`, `MPEGTS_items_stride` (Props/C08/Mpeg.lean). -/

/-- `VideoFormat2.unpack` (and the `MPEGTS.unpack` loop inside it) terminates on every buffer, whatever the prior state -/
theorem Video_unpack_total (t : State) (buf : Bytes) : (unpack t buf).2 ≠ .error .fuel := by
  simp only [unpack]
  cases hc : structUnpackFrom VID_unpack_fmt0 buf 0 with
  | error e => have := structUnpackFrom_error _ _ _ _ hc; subst this; simp
  | ok v =>
    match v with
    | [csw] =>
      simp only
      split
      · simp
      · have := MPEGTS_unpack_total TS.fresh (buf.drop 4)
        cases hr : TS.unpack TS.fresh (buf.drop 4) with
        | mk ts r =>
          rw [hr] at this
          cases r with
          | ok b => simp
          | error e => simp only [ne_eq, Except.error.injEq]; intro he; subst he; exact this rfl
    | [] => simp
    | _ :: _ :: _ => simp

/-- packet-level work bound: an accepted buffer yields at most ⌈(|buf| − 4)/188⌉ blocks -/
theorem Video_items_le (t : State) (buf : Bytes) (h : (unpack t buf).2 = .ok ()) :
    (unpack t buf).1.mpegts.blocks.length * 188 ≤ (buf.length - 4) + 187 := by
  revert h
  simp only [unpack]
  cases hc : structUnpackFrom VID_unpack_fmt0 buf 0 with
  | error e => simp
  | ok v =>
    match v with
    | [csw] =>
      simp only
      split
      · simp
      · cases hr : TS.unpack TS.fresh (buf.drop 4) with
        | mk ts r =>
          cases r with
          | ok b =>
            simp only
            intro _
            have hb : b = true := by
              simp only [TS.unpack] at hr
              split at hr <;> simp_all
            have := MPEGTS_items_stride TS.fresh (buf.drop 4) (by rw [hr, hb])
            rw [hr] at this
            simp only [List.length_drop] at this
            exact this
          | error e => simp
    | [] => simp
    | _ :: _ :: _ => simp

/-- an accepted buffer: no decoded block is empty-handed — every block comes from a chunk of at most 188 bytes that
    `MPEGPacket.unpack` accepted, in order (`MPEGTS_unpack_n` of C06 states the converse for whole chunks) -/
theorem Video_ok_is_ts_ok (t : State) (buf : Bytes) (h : (unpack t buf).2 = .ok ()) :
    (TS.unpack TS.fresh (buf.drop 4)).2 = .ok true ∧ (unpack t buf).1.mpegts = (TS.unpack TS.fresh (buf.drop 4)).1 := by
  revert h
  simp only [unpack]
  cases hc : structUnpackFrom VID_unpack_fmt0 buf 0 with
  | error e => simp
  | ok v =>
    match v with
    | [csw] =>
      simp only
      split
      · simp
      · cases hr : TS.unpack TS.fresh (buf.drop 4) with
        | mk ts r =>
          cases r with
          | ok b =>
            simp only
            intro _
            have hb : b = true := by
              simp only [TS.unpack] at hr
              split at hr <;> simp_all
            exact ⟨by rw [hb], trivial⟩
          | error e => simp
    | [] => simp
    | _ :: _ :: _ => simp

/-- witness: channel-specific word 0x1000, a payload-only packet and a packet with a 7-byte adaptation field (PCR)
    followed by payload -/
def wVideo : Bytes :=
  [0, 0x10, 0, 0] ++ ([0x47, 0x01, 0x00, 0x10] ++ List.replicate 184 0xAB) ++
    ([0x47, 0x01, 0x00, 0x31, 7, 0x10, 1, 2, 3, 4, 5, 6] ++ List.replicate 176 0xCD)

set_option maxRecDepth 20000 in
example : (unpack fresh wVideo).2.toOption = some () ∧ (unpack fresh wVideo).1.mpegts.blocks.length = 2 ∧
    ((unpack fresh wVideo).1.mpegts.blocks.map fun p => p.adaption_field.map fun a => a.pcr) = [none, some [1, 2, 3, 4, 5, 6]] ∧
    wVideo.length = 380 := by decide +kernel

end Acra.Props.C08
