import Acra.Model.Ch11Video
import Acra.Props.C08.Mpeg
namespace Acra.Props.C08
open Acra.Py Acra.Model.Ch11Pay.Video Acra.Model.MPEGTS Acra.Gen.Ch11Video

/-! `VideoFormat2.unpack` hands `buffer[4:]` to `MPEGTS.unpack`; since the C04 extension the model does the same (the
    former private chunk loop `splitTS` is gone), so totality and the work bound are those of the MPEG family's loop:
    `MPEGTS_unpack_total`, `mpegBlock_progress`, `mpegBlock_advance`, `MPEGTS_items_stride` (Props/C08/Mpeg.lean). -/

/-- `VideoFormat2.unpack` (and the `MPEGTS.unpack` loop inside it) terminates on every buffer, whatever the prior state -/
theorem Video_unpack_total (t : State) (buf : Bytes) : (unpack t buf).2 ≠ .error .fuel := by
  simp only [unpack]
  cases hc : structUnpackFrom VID_unpack_fmt0 buf 0 with
  | error e => have := structUnpackFrom_error _ _ _ _ hc; subst this; simp
  | ok v =>
    match v with
    | [csw] =>
      simp only
      split
      · simp
      · have := MPEGTS_unpack_total TS.fresh (buf.drop 4)
        cases hr : TS.unpack TS.fresh (buf.drop 4) with
        | mk ts r =>
          rw [hr] at this
          cases r with
          | ok b => simp
          | error e => simp only [ne_eq, Except.error.injEq]; intro he; subst he; exact this rfl
    | [] => simp
    | _ :: _ :: _ => simp

/-- packet-level work bound: an accepted buffer yields at most ⌈(|buf| − 4)/188⌉ blocks -/
theorem Video_items_le (t : State) (buf : Bytes) (h : (unpack t buf).2 = .ok ()) :
    (unpack t buf).1.mpegts.blocks.length * 188 ≤ (buf.length - 4) + 187 := by
  revert h
  simp only [unpack]
  cases hc : structUnpackFrom VID_unpack_fmt0 buf 0 with
  | error e => simp
  | ok v =>
    match v with
    | [csw] =>
      simp only
      split
      · simp
      · cases hr : TS.unpack TS.fresh (buf.drop 4) with
        | mk ts r =>
          cases r with
          | ok b =>
            simp only
            intro _
            have hb : b = true := by
              simp only [TS.unpack] at hr
              split at hr <;> simp_all
            have := MPEGTS_items_stride TS.fresh (buf.drop 4) (by rw [hr, hb])
            rw [hr] at this
            simp only [List.length_drop] at this
            exact this
          | error e => simp
    | [] => simp
    | _ :: _ :: _ => simp

/-- an accepted buffer: no decoded block is empty-handed — every block comes from a chunk of at most 188 bytes that
    `MPEGPacket.unpack` accepted, in order (`MPEGTS_unpack_n` of C06 states the converse for whole chunks) -/
theorem Video_ok_is_ts_ok (t : State) (buf : Bytes) (h : (unpack t buf).2 = .ok ()) :
    (TS.unpack TS.fresh (buf.drop 4)).2 = .ok true ∧ (unpack t buf).1.mpegts = (TS.unpack TS.fresh (buf.drop 4)).1 := by
  revert h
  simp only [unpack]
  cases hc : structUnpackFrom VID_unpack_fmt0 buf 0 with
  | error e => simp
  | ok v =>
    match v with
    | [csw] =>
      simp only
      split
      · simp
      · cases hr : TS.unpack TS.fresh (buf.drop 4) with
        | mk ts r =>
          cases r with
          | ok b =>
            simp only
            intro _
            have hb : b = true := by
              simp only [TS.unpack] at hr
              split at hr <;> simp_all
            exact ⟨by rw [hb], trivial⟩
          | error e => simp
    | [] => simp
    | _ :: _ :: _ => simp

/-- witness: channel-specific word 0x1000, a payload-only packet and a packet with a 7-byte adaptation field (PCR)
    followed by payload -/
def wVideo : Bytes :=
  [0, 0x10, 0, 0] ++ ([0x47, 0x01, 0x00, 0x10] ++ List.replicate 184 0xAB) ++
    ([0x47, 0x01, 0x00, 0x31, 7, 0x10, 1, 2, 3, 4, 5, 6] ++ List.replicate 176 0xCD)

set_option maxRecDepth 20000 in
example : (unpack fresh wVideo).2.toOption = some () ∧ (unpack fresh wVideo).1.mpegts.blocks.length = 2 ∧
    ((unpack fresh wVideo).1.mpegts.blocks.map fun p => p.adaption_field.map fun a => a.pcr) = [none, some [1, 2, 3, 4, 5, 6]] ∧
    wVideo.length = 380 := by decide +kernel

/-! ### packet-level outcome list (review B4), on the transport-stream model: `VideoFormat2.unpack` returns, or raises
    `struct.error` (fewer than 4 bytes) or a bare `Exception` (intra-packet-header bit set, or `MPEGTS.unpack` refuses
    `buffer[4:]`); each kind characterised -/

/-- the channel-specific word (little-endian 32 bits) of a buffer holding it -/
def videoCsw (buf : Bytes) : Nat := decInt false (buf.take 4)

/-- exactly which exception, and when -/
theorem Video_unpack_error_iff (t : State) (buf : Bytes) (e : Err) :
    (unpack t buf).2 = .error e ↔
      (buf.length < 4 ∧ e = .struct) ∨
      (4 ≤ buf.length ∧ e = .generic ∧ ((videoCsw buf / 2 ^ 19) % 2 = 1 ∨
        (TS.unpack TS.fresh (buf.drop 4)).2 = .error .generic)) := by
  simp only [unpack]
  by_cases h4 : 4 ≤ buf.length
  · have hc : structUnpackFrom VID_unpack_fmt0 buf 0 = .ok [videoCsw buf] := by
      simp only [structUnpackFrom, VID_unpack_fmt0, Fmt.size, codesSize, Code.size, unpackCodes, videoCsw, List.drop_zero]
      have : 0 + (4 + 0) ≤ buf.length := by omega
      simp only [this, if_true]
    simp only [hc, IPH_OFFSET]
    by_cases hiph : (videoCsw buf / 2 ^ 19) % 2 = 1
    · simp only [hiph, if_true, Except.error.injEq]
      constructor
      · rintro rfl; exact Or.inr ⟨h4, rfl, Or.inl trivial⟩
      · rintro (⟨h, _⟩ | ⟨_, rfl, _⟩)
        · omega
        · rfl
    · simp only [hiph, if_false]
      have ho := MPEGTS_unpack_outcomes TS.fresh (buf.drop 4)
      cases hr : TS.unpack TS.fresh (buf.drop 4) with
      | mk ts r =>
        rw [hr] at ho
        cases r with
        | ok b =>
          simp only [reduceCtorEq, false_iff]
          rintro (⟨h, _⟩ | ⟨_, _, h | h⟩)
          · omega
          · exact h
          · cases h
        | error e' =>
          have he' : e' = .generic := by
            rcases ho with h | h
            · cases h
            · simpa using h
          subst he'
          simp only [Except.error.injEq]
          constructor
          · rintro rfl; exact Or.inr ⟨h4, rfl, Or.inr trivial⟩
          · rintro (⟨h, _⟩ | ⟨_, rfl, _⟩)
            · omega
            · rfl
  · have hc : structUnpackFrom VID_unpack_fmt0 buf 0 = .error .struct := by
      simp only [structUnpackFrom, VID_unpack_fmt0, Fmt.size, codesSize, Code.size]
      have : ¬ 0 + (4 + 0) ≤ buf.length := by omega
      simp only [this, if_false]
    simp only [hc, Except.error.injEq]
    constructor
    · rintro rfl; exact Or.inl ⟨by omega, rfl⟩
    · rintro (⟨_, rfl⟩ | ⟨h, _⟩)
      · rfl
      · omega

/-- the outcome list — nothing else, in particular never `fuel` -/
theorem Video_unpack_outcomes (t : State) (buf : Bytes) :
    (unpack t buf).2 = .ok () ∨ (unpack t buf).2 = .error .struct ∨ (unpack t buf).2 = .error .generic := by
  cases hr : (unpack t buf).2 with
  | ok u => exact Or.inl rfl
  | error e =>
    rcases (Video_unpack_error_iff t buf e).1 hr with ⟨_, rfl⟩ | ⟨_, rfl, _⟩
    · exact Or.inr (Or.inl rfl)
    · exact Or.inr (Or.inr rfl)

/-- every outcome is reachable: `wVideo` accepted; 3 bytes → `struct.error`; intra-packet-header bit (bit 19 of the
    channel-specific word) set → `Exception`; the SECOND packet's sync byte wrong → `Exception`; a trailing chunk of
    three bytes (shorter than the 4-byte transport header) → `Exception` -/
example : (unpack fresh (wVideo.take 3)).2 = .error .struct := by rfl
set_option maxRecDepth 20000 in
example : (unpack fresh (wVideo.set 2 8)).2 = .error .generic := by rfl
set_option maxRecDepth 20000 in
example : (unpack fresh (wVideo.set 192 0x46)).2 = .error .generic := by rfl
set_option maxRecDepth 20000 in
example : (unpack fresh (wVideo ++ [0x47, 0, 0])).2 = .error .generic := by rfl

end Acra.Props.C08
