import Acra.Model.Ch11Video
namespace Acra.Props.C08
open Acra.Py Acra.Model.Ch11Pay Acra.Model.Ch11Pay.Video Acra.Gen.Ch11Video

/-- the transport-stream loop advances by 188 bytes per chunk: fuel len − off + 1 is never exhausted -/
theorem splitTS_fuel_sufficient (buf : Bytes) (fuel off : Nat) (hf : buf.length - off + 1 ≤ fuel) :
    splitTS buf fuel off ≠ .error .fuel := by
  induction fuel generalizing off with
  | zero => omega
  | succ fuel ih =>
    by_cases hlt : off < buf.length
    · cases hok : chunkOk (slice buf off (off + 188)) with
      | false => simp [splitTS, hlt, hok]
      | true =>
        have := ih (off + 188) (by omega)
        cases hr : splitTS buf fuel (off + 188) with
        | ok cs => simp [splitTS, hlt, hok, hr]
        | error e =>
          simp only [splitTS, hlt, if_true, hok, hr, ne_eq, Except.error.injEq]
          intro he; subst he; exact this hr
    · simp [splitTS, hlt]

theorem splitTS_items_le (buf : Bytes) (fuel off : Nat) (cs : List Bytes) (h : splitTS buf fuel off = .ok cs) :
    cs.length ≤ buf.length - off := by
  induction fuel generalizing off cs with
  | zero => simp [splitTS] at h
  | succ fuel ih =>
    by_cases hlt : off < buf.length
    · cases hok : chunkOk (slice buf off (off + 188)) with
      | false => simp [splitTS, hlt, hok] at h
      | true =>
        cases hr : splitTS buf fuel (off + 188) with
        | error e => simp [splitTS, hlt, hok, hr] at h
        | ok ds =>
          simp only [splitTS, hlt, if_true, hok, hr, Except.ok.injEq] at h
          subst h
          have := ih (off + 188) ds hr
          simp only [List.length_cons]; omega
    · simp only [splitTS, hlt, if_false, Except.ok.injEq] at h
      subst h; simp

/-- `VideoFormat2.unpack` (and the `MPEGTS.unpack` loop inside it) terminates on every buffer -/
theorem Video_unpack_total (t : State) (buf : Bytes) : (unpack t buf).2 ≠ .error .fuel := by
  simp only [unpack]
  cases hc : structUnpackFrom VID_unpack_fmt0 buf 0 with
  | error e => have := structUnpackFrom_error _ _ _ _ hc; subst this; simp
  | ok v =>
    match v with
    | [csw] =>
      simp only
      split
      · simp
      · have := splitTS_fuel_sufficient (buf.drop 4) ((buf.drop 4).length + 1) 0 (by omega)
        cases hr : splitTS (buf.drop 4) ((buf.drop 4).length + 1) 0 with
        | ok cs => simp
        | error e => simp only [ne_eq, Except.error.injEq]; intro he; subst he; exact this hr
    | [] => simp
    | _ :: _ :: _ => simp

end Acra.Props.C08
