import Acra.Model.Ch11Misc
import Acra.Model.Ch11TimeFmt
namespace Acra.Props.C08
open Acra.Py Acra.Model.Ch11Pay

/-- the loop-free decoders: one `struct.unpack_from`, a slice, bit arithmetic — total on every buffer -/
theorem Analog_unpack_total (t : Analog.State) (buf : Bytes) : (Analog.unpack t buf).2 ≠ .error .fuel := by
  simp only [Analog.unpack]
  repeat' split
  all_goals first
    | (simp; done)
    | (rename_i e h; have := structUnpackFrom_error _ _ _ _ h; subst this; simp)

theorem CG0_unpack_total (t : Computer.State0) (buf : Bytes) : (Computer.State0.unpack t buf).2 ≠ .error .fuel := by
  simp only [Computer.State0.unpack]
  repeat' split
  all_goals first
    | (simp; done)
    | (rename_i e h; have := structUnpackFrom_error _ _ _ _ h; subst this; simp)

theorem CG1_unpack_total (t : Computer.State1) (buf : Bytes) : (Computer.State1.unpack t buf).2 ≠ .error .fuel := by
  simp only [Computer.State1.unpack]
  have := CG0_unpack_total t.base buf
  split
  · rename_i b e he; rw [he] at this; simpa using this
  · simp

theorem TDF1_unpack_total (t : TimeFmt.State1) (buf : Bytes) : (TimeFmt.State1.unpack t buf).2 ≠ .error .fuel := by
  simp only [TimeFmt.State1.unpack]
  repeat' split
  all_goals first
    | (simp; done)
    | (rename_i e h; have := structUnpackFrom_error _ _ _ _ h; subst this; simp)

theorem TDF2_unpack_total (fl : Rat → Rat) (t : TimeFmt.State2) (buf : Bytes) :
    (TimeFmt.State2.unpackWith fl t buf).2 ≠ .error .fuel := by
  simp only [TimeFmt.State2.unpackWith]
  repeat' split
  all_goals first
    | (simp; done)
    | (rename_i e h; have := structUnpack_error _ _ _ h; subst this; simp)

/-- `bcd_to_int` consumes one nibble per step: the fuel `v` the model gives it suffices for every `v`
    (a value with k nibbles is at least 16^(k-1) ≥ k) — the result does not change with more fuel -/
theorem bcdToIntF_fuel (v : Nat) : ∀ f, v ≤ f → TimeFmt.bcdToIntF f v = TimeFmt.bcdToIntF v v := by
  induction v using Nat.strongRecOn with
  | _ v ih =>
    intro f hf
    cases f with
    | zero =>
      have : v = 0 := by omega
      subst this; rfl
    | succ f =>
      cases v with
      | zero => simp [TimeFmt.bcdToIntF]
      | succ v =>
        have h16 : (v + 1) / 16 ≤ v := by omega
        have h1 := ih ((v + 1) / 16) (by omega) f (by omega)
        have h2 := ih ((v + 1) / 16) (by omega) v h16
        simp only [TimeFmt.bcdToIntF, Nat.succ_ne_zero, if_false, h1, h2]

/-! ### review additions (rev1-C08)
  The five decoders of this file have NO loop and NO fuel parameter in their models (`grep fuel` on
  Model/Ch11Misc.lean and on the `unpack` functions of Model/Ch11TimeFmt.lean finds nothing), so `≠ .error .fuel`
  above holds by construction of the model and carries no information.  What C08 says about them is "returns or raises
  an ordinary exception": the outcome lists below. -/

theorem Analog_unpack_outcomes (t : Analog.State) (buf : Bytes) :
    (Analog.unpack t buf).2 = .ok () ∨ (Analog.unpack t buf).2 = .error .struct := by
  simp only [Analog.unpack]
  repeat' split
  all_goals first
    | (simp; done)
    | (rename_i e h; have := structUnpackFrom_error _ _ _ _ h; subst this; simp)

theorem Analog_unpack_ok_iff (t : Analog.State) (buf : Bytes) :
    (Analog.unpack t buf).2 = .ok () ↔ 4 ≤ buf.length := by
  by_cases h : 4 ≤ buf.length
  · simp [Analog.unpack, structUnpackFrom, Acra.Gen.Ch11Analog.AN_unpack_fmt0, Fmt.size, codesSize, Code.size, unpackCodes, h]
  · simp [Analog.unpack, structUnpackFrom, Acra.Gen.Ch11Analog.AN_unpack_fmt0, Fmt.size, codesSize, Code.size, h]

theorem CG0_unpack_outcomes (t : Computer.State0) (buf : Bytes) :
    (Computer.State0.unpack t buf).2 = .ok () ∨ (Computer.State0.unpack t buf).2 = .error .struct := by
  simp only [Computer.State0.unpack]
  repeat' split
  all_goals first
    | (simp; done)
    | (rename_i e h; have := structUnpackFrom_error _ _ _ _ h; subst this; simp)

theorem CG1_unpack_outcomes (t : Computer.State1) (buf : Bytes) :
    (Computer.State1.unpack t buf).2 = .ok () ∨ (Computer.State1.unpack t buf).2 = .error .struct := by
  simp only [Computer.State1.unpack]
  have := CG0_unpack_outcomes t.base buf
  split
  · rename_i b e he; rw [he] at this; simpa using this
  · simp

theorem TDF1_unpack_outcomes (t : TimeFmt.State1) (buf : Bytes) :
    (TimeFmt.State1.unpack t buf).2 = .ok () ∨ (TimeFmt.State1.unpack t buf).2 = .error .struct ∨
    (TimeFmt.State1.unpack t buf).2 = .error .value := by
  simp only [TimeFmt.State1.unpack]
  repeat' split
  all_goals first
    | (simp; done)
    | (rename_i e h; have := structUnpackFrom_error _ _ _ _ h; subst this; simp)

theorem TDF2_unpack_outcomes (fl : Rat → Rat) (t : TimeFmt.State2) (buf : Bytes) :
    (TimeFmt.State2.unpackWith fl t buf).2 = .ok () ∨ (TimeFmt.State2.unpackWith fl t buf).2 = .error .struct := by
  simp only [TimeFmt.State2.unpackWith]
  repeat' split
  all_goals first
    | (simp; done)
    | (rename_i e h; have := structUnpack_error _ _ _ h; subst this; simp)

/-- the theorem above is about `unpackWith fl` for every rounding function; the driver's `State2.unpack` is the
    instance `fl = Float.rne` -/
theorem TDF2_unpack_driver_outcomes (t : TimeFmt.State2) (buf : Bytes) :
    (TimeFmt.State2.unpack t buf).2 = .ok () ∨ (TimeFmt.State2.unpack t buf).2 = .error .struct :=
  TDF2_unpack_outcomes _ t buf

-- `bcdToIntF_fuel` (hypothesis `v ≤ f`): 0x1234 with more fuel than digits gives the same value as with fuel `v`
example : (0x1234 : Nat) ≤ 5000 ∧ TimeFmt.bcdToIntF 5000 0x1234 = 1234 ∧ TimeFmt.bcdToInt 0x1234 = 1234 := by decide +kernel
end Acra.Props.C08
