import Acra.Model.MPEGTS
import Acra.Model.PMT
import Acra.Model.PES
namespace Acra.Props.C08
open Acra.Py Acra.Model.MPEGTS Acra.Model.PMT Acra.Model.PES

/-! Totality of the MPEG decoders: every `unpack` model is a function that, on ANY bytes and ANY prior
    state, returns a value or an ordinary exception; the loops never exhaust the fuel the model gives
    them (buffer length + 1), which is the termination half of C08. -/

theorem Ext_unpack_total (t : Ext) (buf : Bytes) : (Ext.unpack t buf).2 ≠ .error .fuel := by
  simp only [Ext.unpack]
  repeat' split
  all_goals first
    | (simp; done)
    | (rename_i e h; have := structUnpackFrom_error _ _ _ _ h; subst this; simp)

theorem ite_read_error (c : Prop) [Decidable c] (f : Fmt) (b : Bytes) (o : Nat) (v : List Nat) (e : Err)
    (h : (if c then structUnpackFrom f b o else .ok v) = .error e) : e = .struct := by
  split at h
  · exact structUnpackFrom_error _ _ _ _ h
  · simp at h

theorem AF_unpack_total (t : AF) (buf : Bytes) : (AF.unpack t buf).2 ≠ .error .fuel := by
  simp only [AF.unpack]
  split
  · rename_i e h; have := structUnpackFrom_error _ _ _ _ h; subst this; simp
  · split
    · rename_i e h; have := ite_read_error _ _ _ _ _ _ h; subst this; simp
    · split
      · rename_i e h; have := ite_read_error _ _ _ _ _ _ h; subst this; simp
      · split <;> simp
      · simp
    · simp
  · simp

theorem Pkt_unpack_total (t : Pkt) (buf : Bytes) : (Pkt.unpack t buf).2 ≠ .error .fuel := by
  simp only [Pkt.unpack]
  repeat' split
  all_goals first
    | (simp; done)
    | (rename_i e h; have := structUnpackFrom_error _ _ _ _ h; subst this; simp)

/-- every iteration of the MPEGTS loop consumes 188 bytes, reports only a bare `Exception`, and
    fails on an empty remainder -/
theorem mpegBlock_progress : Progress decBlock where
  pos := by
    intro b x n h
    simp only [decBlock] at h
    split at h <;> simp_all <;> omega
  nofuel := by
    intro b h
    simp only [decBlock] at h
    split at h <;> simp_all
  empty := by
    intro x n h
    simp [decBlock, Pkt.unpack, structUnpackFrom, Acra.Gen.MPEGTS.Pkt_unpack_fmt0, Fmt.size, codesSize, Code.size] at h

/-- `MPEGTS.unpack` terminates on every buffer -/
theorem MPEGTS_unpack_total (t : TS) (buf : Bytes) : (TS.unpack t buf).2 ≠ .error .fuel := by
  simp only [TS.unpack]
  have := decOff_fuel_sufficient decBlock moreBlocks buf mpegBlock_progress (buf.length + 1) 0 (by omega)
  cases hd : decOff decBlock moreBlocks buf (buf.length + 1) 0 with
  | ok bs => simp
  | error e => simp; intro he; exact this (he ▸ hd)

/-- work bound: at most one packet per byte (in fact per 188 bytes) -/
theorem MPEGTS_items_le (t : TS) (buf : Bytes) (h : (TS.unpack t buf).2 = .ok true) :
    (TS.unpack t buf).1.blocks.length ≤ buf.length := by
  revert h
  simp only [TS.unpack]
  cases hd : decOff decBlock moreBlocks buf (buf.length + 1) 0 with
  | error e => simp
  | ok bs =>
    simp only
    intro _
    have := decOff_items_le decBlock moreBlocks buf mpegBlock_progress _ 0 bs hd
    omega

/-! ### PMT loops -/

theorem Desc_unpack_shorter (buf rest : Bytes) (d : Desc) (h : Desc.unpack buf = .ok (d, rest)) :
    rest.length < buf.length := by
  simp only [Desc.unpack] at h
  cases hu : structUnpackFrom Acra.Gen.PMT.DescriptorTag_FMT buf 0 with
  | error e => simp [hu] at h
  | ok vs =>
    have hlen := structUnpackFrom_ok_length _ _ _ _ hu
    simp only [Acra.Gen.PMT.DescriptorTag_FMT, Fmt.size, codesSize, Code.size] at hlen
    rw [hu] at h
    split at h
    · simp at h
    · simp only [Except.ok.injEq, Prod.mk.injEq] at h
      obtain ⟨_, rfl⟩ := h
      simp only [List.length_drop, Acra.Gen.PMT.DescriptorTag_FMT, Fmt.size, codesSize, Code.size]
      omega
    · simp at h

theorem Desc_unpack_nofuel (buf : Bytes) : Desc.unpack buf ≠ .error .fuel := by
  simp only [Desc.unpack]
  repeat' split
  all_goals first
    | (simp; done)
    | (rename_i e h; have := structUnpackFrom_error _ _ _ _ h; subst this; simp)

/-- the descriptor loop consumes at least 2 bytes per iteration: fuel `length + 1` suffices -/
theorem decDescs_fuel_sufficient (fuel : Nat) (buf : Bytes) (h : buf.length < fuel) :
    decDescs fuel buf ≠ .error .fuel := by
  induction fuel generalizing buf with
  | zero => omega
  | succ fuel ih =>
    unfold decDescs
    split
    · cases hd : Desc.unpack buf with
      | error e =>
        simp only
        intro he; injection he with he
        exact Desc_unpack_nofuel buf (he ▸ hd)
      | ok r =>
        obtain ⟨d, rest⟩ := r
        have hs := Desc_unpack_shorter buf rest d hd
        have := ih rest (by omega)
        simp only
        cases hr : decDescs fuel rest with
        | ok ds => simp
        | error e => simp; intro he; exact this (he ▸ hr)
    · simp

theorem Stream_unpack_shorter (buf rest : Bytes) (d : Stream) (h : Stream.unpack buf = .ok (d, rest)) :
    rest.length < buf.length := by
  simp only [Stream.unpack] at h
  cases hu : structUnpackFrom Acra.Gen.PMT.PMTStream_FMT buf 0 with
  | error e => simp [hu] at h
  | ok vs =>
    have hlen := structUnpackFrom_ok_length _ _ _ _ hu
    simp only [Acra.Gen.PMT.PMTStream_FMT, Fmt.size, codesSize, Code.size] at hlen
    rw [hu] at h
    split at h
    · simp at h
    · simp only [Except.ok.injEq, Prod.mk.injEq] at h
      obtain ⟨_, rfl⟩ := h
      simp only [List.length_drop, Acra.Gen.PMT.PMTStream_FMT, Fmt.size, codesSize, Code.size]
      omega
    · simp at h

theorem Stream_unpack_nofuel (buf : Bytes) : Stream.unpack buf ≠ .error .fuel := by
  simp only [Stream.unpack]
  repeat' split
  all_goals first
    | (simp; done)
    | (rename_i e h; have := structUnpackFrom_error _ _ _ _ h; subst this; simp)

/-- the stream loop consumes at least 5 bytes per iteration: fuel `length + 1` suffices -/
theorem decStreams_fuel_sufficient (fuel : Nat) (buf : Bytes) (h : buf.length < fuel) :
    decStreams fuel buf ≠ .error .fuel := by
  induction fuel generalizing buf with
  | zero => omega
  | succ fuel ih =>
    unfold decStreams
    split
    · cases hd : Stream.unpack buf with
      | error e =>
        simp only
        intro he; injection he with he
        exact Stream_unpack_nofuel buf (he ▸ hd)
      | ok r =>
        obtain ⟨d, rest⟩ := r
        have hs := Stream_unpack_shorter buf rest d hd
        have := ih rest (by omega)
        simp only
        cases hr : decStreams fuel rest with
        | ok ds => simp
        | error e => simp; intro he; exact this (he ▸ hr)
    · simp

/-- `MPEGPacketPMT.unpack` terminates on every buffer and from every prior state -/
theorem PMT_unpack_total (t : PMT) (buf : Bytes) : (PMT.unpack t buf).2 ≠ .error .fuel := by
  have hp := Pkt_unpack_total t.pkt buf
  simp only [PMT.unpack]
  cases hu : Pkt.unpack t.pkt buf with
  | mk p r =>
    rw [hu] at hp
    cases r with
    | error e => simpa using hp
    | ok u =>
      simp only
      repeat' split
      all_goals first
        | (simp; done)
        | (rename_i e h; have := structUnpackFrom_error _ _ _ _ h; subst this; simp)
        | (rename_i e h; have := structUnpack_error _ _ _ h; subst this; simp)
        | (rename_i e h
           intro he; simp only at he; injection he with he; subst he
           first
             | exact decStreams_fuel_sufficient _ _ (by omega) h
             | (split at h
                · exact decDescs_fuel_sufficient _ _ (by omega) h
                · simp at h))

/-- `PES.unpack` and `STANAG4609.unpack`: straight-line code after the packet decoder -/
theorem PES_unpack_total (t : PES) (buf : Bytes) : (PES.unpack t buf).2 ≠ .error .fuel := by
  have hp := Pkt_unpack_total t.pkt buf
  simp only [PES.unpack]
  cases hu : Pkt.unpack t.pkt buf with
  | mk p r =>
    rw [hu] at hp
    cases r with
    | error e => simpa using hp
    | ok u =>
      simp only
      repeat' split
      all_goals first
        | (simp; done)
        | (rename_i e h; have := structUnpackFrom_error _ _ _ _ h; subst this; simp)

theorem STANAG_unpack_total (t : STANAG) (buf : Bytes) : (STANAG.unpack t buf).2 ≠ .error .fuel := by
  have hp := PES_unpack_total t.pes buf
  simp only [STANAG.unpack]
  cases hu : PES.unpack t.pes buf with
  | mk p r =>
    rw [hu] at hp
    cases r with
    | error e => simpa using hp
    | ok u =>
      simp only
      repeat' split
      all_goals first
        | (simp; done)
        | (rename_i e h; have := structUnpackFrom_error _ _ _ _ h; subst this; simp)

end Acra.Props.C08
