import Acra.Model.MPEGTS
import Acra.Model.PMT
import Acra.Model.PES
import Acra.Lemmas.ReviewC08Records
namespace Acra.Props.C08
open Acra.Py Acra.Model.MPEGTS Acra.Model.PMT Acra.Model.PES

/-! Totality of the MPEG decoders: every `unpack` model is a function that, on ANY bytes and ANY prior
    state, returns a value or an ordinary exception; the loops never exhaust the fuel the model gives
    them (buffer length + 1), which is the termination half of C08. -/

theorem Ext_unpack_total (t : Ext) (buf : Bytes) : (Ext.unpack t buf).2 ≠ .error .fuel := by
  simp only [Ext.unpack]
  repeat' split
  all_goals first
    | (simp; done)
    | (rename_i e h; have := structUnpackFrom_error _ _ _ _ h; subst this; simp)

theorem ite_read_error (c : Prop) [Decidable c] (f : Fmt) (b : Bytes) (o : Nat) (v : List Nat) (e : Err)
    (h : (if c then structUnpackFrom f b o else .ok v) = .error e) : e = .struct := by
  split at h
  · exact structUnpackFrom_error _ _ _ _ h
  · simp at h

theorem AF_unpack_total (t : AF) (buf : Bytes) : (AF.unpack t buf).2 ≠ .error .fuel := by
  simp only [AF.unpack]
  split
  · rename_i e h; have := structUnpackFrom_error _ _ _ _ h; subst this; simp
  · split
    · rename_i e h; have := ite_read_error _ _ _ _ _ _ h; subst this; simp
    · split
      · rename_i e h; have := ite_read_error _ _ _ _ _ _ h; subst this; simp
      · split <;> simp
      · simp
    · simp
  · simp

theorem Pkt_unpack_total (t : Pkt) (buf : Bytes) : (Pkt.unpack t buf).2 ≠ .error .fuel := by
  simp only [Pkt.unpack]
  repeat' split
  all_goals first
    | (simp; done)
    | (rename_i e h; have := structUnpackFrom_error _ _ _ _ h; subst this; simp)

/-- every iteration of the MPEGTS loop consumes 188 bytes, reports only a bare `Exception`, and
    fails on an empty remainder -/
theorem mpegBlock_progress : Progress decBlock where
  pos := by
    intro b x n h
    simp only [decBlock] at h
    split at h <;> simp_all <;> omega
  nofuel := by
    intro b h
    simp only [decBlock] at h
    split at h <;> simp_all
  empty := by
    intro x n h
    simp [decBlock, Pkt.unpack, structUnpackFrom, Acra.Gen.MPEGTS.Pkt_unpack_fmt0, Fmt.size, codesSize, Code.size] at h

/-- `MPEGTS.unpack` terminates on every buffer -/
theorem MPEGTS_unpack_total (t : TS) (buf : Bytes) : (TS.unpack t buf).2 ≠ .error .fuel := by
  simp only [TS.unpack]
  have := decOff_fuel_sufficient decBlock moreBlocks buf mpegBlock_progress (buf.length + 1) 0 (by omega)
  cases hd : decOff decBlock moreBlocks buf (buf.length + 1) 0 with
  | ok bs => simp
  | error e => simp; intro he; exact this (he ▸ hd)

/-- work bound: at most one packet per byte (in fact per 188 bytes) -/
theorem MPEGTS_items_le (t : TS) (buf : Bytes) (h : (TS.unpack t buf).2 = .ok true) :
    (TS.unpack t buf).1.blocks.length ≤ buf.length := by
  revert h
  simp only [TS.unpack]
  cases hd : decOff decBlock moreBlocks buf (buf.length + 1) 0 with
  | error e => simp
  | ok bs =>
    simp only
    intro _
    have := decOff_items_le decBlock moreBlocks buf mpegBlock_progress _ 0 bs hd
    omega

/-! ### PMT loops -/

theorem Desc_unpack_shorter (buf rest : Bytes) (d : Desc) (h : Desc.unpack buf = .ok (d, rest)) :
    rest.length < buf.length := by
  simp only [Desc.unpack] at h
  cases hu : structUnpackFrom Acra.Gen.PMT.DescriptorTag_FMT buf 0 with
  | error e => simp [hu] at h
  | ok vs =>
    have hlen := structUnpackFrom_ok_length _ _ _ _ hu
    simp only [Acra.Gen.PMT.DescriptorTag_FMT, Fmt.size, codesSize, Code.size] at hlen
    rw [hu] at h
    split at h
    · simp at h
    · simp only [Except.ok.injEq, Prod.mk.injEq] at h
      obtain ⟨_, rfl⟩ := h
      simp only [List.length_drop, Acra.Gen.PMT.DescriptorTag_FMT, Fmt.size, codesSize, Code.size]
      omega
    · simp at h

theorem Desc_unpack_nofuel (buf : Bytes) : Desc.unpack buf ≠ .error .fuel := by
  simp only [Desc.unpack]
  repeat' split
  all_goals first
    | (simp; done)
    | (rename_i e h; have := structUnpackFrom_error _ _ _ _ h; subst this; simp)

/-- the descriptor loop consumes at least 2 bytes per iteration: fuel `length + 1` suffices -/
theorem decDescs_fuel_sufficient (fuel : Nat) (buf : Bytes) (h : buf.length < fuel) :
    decDescs fuel buf ≠ .error .fuel := by
  induction fuel generalizing buf with
  | zero => omega
  | succ fuel ih =>
    unfold decDescs
    split
    · cases hd : Desc.unpack buf with
      | error e =>
        simp only
        intro he; injection he with he
        exact Desc_unpack_nofuel buf (he ▸ hd)
      | ok r =>
        obtain ⟨d, rest⟩ := r
        have hs := Desc_unpack_shorter buf rest d hd
        have := ih rest (by omega)
        simp only
        cases hr : decDescs fuel rest with
        | ok ds => simp
        | error e => simp; intro he; exact this (he ▸ hr)
    · simp

theorem Stream_unpack_shorter (buf rest : Bytes) (d : Stream) (h : Stream.unpack buf = .ok (d, rest)) :
    rest.length < buf.length := by
  simp only [Stream.unpack] at h
  cases hu : structUnpackFrom Acra.Gen.PMT.PMTStream_FMT buf 0 with
  | error e => simp [hu] at h
  | ok vs =>
    have hlen := structUnpackFrom_ok_length _ _ _ _ hu
    simp only [Acra.Gen.PMT.PMTStream_FMT, Fmt.size, codesSize, Code.size] at hlen
    rw [hu] at h
    split at h
    · simp at h
    · simp only [Except.ok.injEq, Prod.mk.injEq] at h
      obtain ⟨_, rfl⟩ := h
      simp only [List.length_drop, Acra.Gen.PMT.PMTStream_FMT, Fmt.size, codesSize, Code.size]
      omega
    · simp at h

theorem Stream_unpack_nofuel (buf : Bytes) : Stream.unpack buf ≠ .error .fuel := by
  simp only [Stream.unpack]
  repeat' split
  all_goals first
    | (simp; done)
    | (rename_i e h; have := structUnpackFrom_error _ _ _ _ h; subst this; simp)

/-- the stream loop consumes at least 5 bytes per iteration: fuel `length + 1` suffices -/
theorem decStreams_fuel_sufficient (fuel : Nat) (buf : Bytes) (h : buf.length < fuel) :
    decStreams fuel buf ≠ .error .fuel := by
  induction fuel generalizing buf with
  | zero => omega
  | succ fuel ih =>
    unfold decStreams
    split
    · cases hd : Stream.unpack buf with
      | error e =>
        simp only
        intro he; injection he with he
        exact Stream_unpack_nofuel buf (he ▸ hd)
      | ok r =>
        obtain ⟨d, rest⟩ := r
        have hs := Stream_unpack_shorter buf rest d hd
        have := ih rest (by omega)
        simp only
        cases hr : decStreams fuel rest with
        | ok ds => simp
        | error e => simp; intro he; exact this (he ▸ hr)
    · simp

/-- `MPEGPacketPMT.unpack` terminates on every buffer and from every prior state -/
theorem PMT_unpack_total (t : PMT) (buf : Bytes) : (PMT.unpack t buf).2 ≠ .error .fuel := by
  have hp := Pkt_unpack_total t.pkt buf
  simp only [PMT.unpack]
  cases hu : Pkt.unpack t.pkt buf with
  | mk p r =>
    rw [hu] at hp
    cases r with
    | error e => simpa using hp
    | ok u =>
      simp only
      repeat' split
      all_goals first
        | (simp; done)
        | (rename_i e h; have := structUnpackFrom_error _ _ _ _ h; subst this; simp)
        | (rename_i e h; have := structUnpack_error _ _ _ h; subst this; simp)
        | (rename_i e h
           intro he; simp only at he; injection he with he; subst he
           first
             | exact decStreams_fuel_sufficient _ _ (by omega) h
             | (split at h
                · exact decDescs_fuel_sufficient _ _ (by omega) h
                · simp at h))

/-- `PES.unpack` and `STANAG4609.unpack`: straight-line code after the packet decoder -/
theorem PES_unpack_total (t : PES) (buf : Bytes) : (PES.unpack t buf).2 ≠ .error .fuel := by
  have hp := Pkt_unpack_total t.pkt buf
  simp only [PES.unpack]
  cases hu : Pkt.unpack t.pkt buf with
  | mk p r =>
    rw [hu] at hp
    cases r with
    | error e => simpa using hp
    | ok u =>
      simp only
      repeat' split
      all_goals first
        | (simp; done)
        | (rename_i e h; have := structUnpackFrom_error _ _ _ _ h; subst this; simp)

theorem STANAG_unpack_total (t : STANAG) (buf : Bytes) : (STANAG.unpack t buf).2 ≠ .error .fuel := by
  have hp := PES_unpack_total t.pes buf
  simp only [STANAG.unpack]
  cases hu : PES.unpack t.pes buf with
  | mk p r =>
    rw [hu] at hp
    cases r with
    | error e => simpa using hp
    | ok u =>
      simp only
      repeat' split
      all_goals first
        | (simp; done)
        | (rename_i e h; have := structUnpackFrom_error _ _ _ _ h; subst this; simp)

/-! ### review additions (rev1-C08): the strides claimed in DESIGN §5 stated (188 per MPEG-TS packet, ≥ 2 per PMT
    descriptor, ≥ 5 per PMT stream), work bounds for the PMT loops, joint witnesses -/

/-- [review] the MPEG-TS loop advances by exactly 188 bytes per accepted packet -/
theorem mpegBlock_advance (b : Bytes) (p : Pkt) (n : Nat) (h : decBlock b = .ok (p, n)) : n = 188 := by
  simp only [decBlock] at h
  split at h <;> simp_all

/-- [review] work bound with the real stride: at most ⌈|buf|/188⌉ packets -/
theorem MPEGTS_items_stride (t : TS) (buf : Bytes) (h : (TS.unpack t buf).2 = .ok true) :
    (TS.unpack t buf).1.blocks.length * 188 ≤ buf.length + 187 := by
  revert h
  simp only [TS.unpack]
  cases hd : decOff decBlock moreBlocks buf (buf.length + 1) 0 with
  | error e => simp
  | ok bs =>
    simp only
    intro _
    have := Acra.Lemmas.ReviewC08.decOff_items_stride decBlock moreBlocks buf mpegBlock_progress 188
      (fun b x n hb => by rw [mpegBlock_advance b x n hb]; exact Nat.le_refl _) _ 0 bs hd
    omega

/-- [review] a decoded descriptor consumes its 2-byte header (and its data, as far as present) -/
theorem Desc_unpack_consumes (buf rest : Bytes) (d : Desc) (h : Desc.unpack buf = .ok (d, rest)) :
    rest.length + 2 ≤ buf.length ∧ d.data.length + rest.length + 2 ≤ buf.length := by
  simp only [Desc.unpack] at h
  cases hu : structUnpackFrom Acra.Gen.PMT.DescriptorTag_FMT buf 0 with
  | error e => simp [hu] at h
  | ok vs =>
    have hlen := structUnpackFrom_ok_length _ _ _ _ hu
    simp only [Acra.Gen.PMT.DescriptorTag_FMT, Fmt.size, codesSize, Code.size] at hlen
    rw [hu] at h
    split at h
    · simp at h
    · simp only [Except.ok.injEq, Prod.mk.injEq] at h
      obtain ⟨rfl, rfl⟩ := h
      simp only [List.length_drop, slice_length, Acra.Gen.PMT.DescriptorTag_FMT, Fmt.size, codesSize, Code.size]
      omega
    · simp at h

/-- [review] a decoded stream entry consumes its 5-byte header -/
theorem Stream_unpack_consumes (buf rest : Bytes) (d : Stream) (h : Stream.unpack buf = .ok (d, rest)) :
    rest.length + 5 ≤ buf.length ∧ d.elementary_stream_descriptors.length + rest.length + 5 ≤ buf.length := by
  simp only [Stream.unpack] at h
  cases hu : structUnpackFrom Acra.Gen.PMT.PMTStream_FMT buf 0 with
  | error e => simp [hu] at h
  | ok vs =>
    have hlen := structUnpackFrom_ok_length _ _ _ _ hu
    simp only [Acra.Gen.PMT.PMTStream_FMT, Fmt.size, codesSize, Code.size] at hlen
    rw [hu] at h
    split at h
    · simp at h
    · simp only [Except.ok.injEq, Prod.mk.injEq] at h
      obtain ⟨rfl, rfl⟩ := h
      simp only [List.length_drop, slice_length, Acra.Gen.PMT.PMTStream_FMT, Fmt.size, codesSize, Code.size]
      omega
    · simp at h

/-- [review] work bound of the descriptor loop: at most `|buf|/2` descriptors -/
theorem decDescs_items_le (fuel : Nat) (buf : Bytes) (ds : List Desc) (h : decDescs fuel buf = .ok ds) :
    ds.length * 2 ≤ buf.length := by
  induction fuel generalizing buf ds with
  | zero => simp [decDescs] at h
  | succ fuel ih =>
    unfold decDescs at h
    split at h
    · cases hd : Desc.unpack buf with
      | error e => simp [hd] at h
      | ok r =>
        obtain ⟨d, rest⟩ := r
        have hs := (Desc_unpack_consumes buf rest d hd).1
        simp only [hd] at h
        cases hr : decDescs fuel rest with
        | error e => simp [hr] at h
        | ok es =>
          simp only [hr, Except.ok.injEq] at h
          subst h
          have := ih rest es hr
          simp only [List.length_cons, Nat.succ_mul]
          omega
    · simp at h; subst h; simp

/-- [review] work bound of the stream loop: at most `|buf|/5` streams, and what is left over was not consumed -/
theorem decStreams_items_le (fuel : Nat) (buf : Bytes) (ss : List Stream) (left : Bytes)
    (h : decStreams fuel buf = .ok (ss, left)) : ss.length * 5 + left.length ≤ buf.length := by
  induction fuel generalizing buf ss left with
  | zero => simp [decStreams] at h
  | succ fuel ih =>
    unfold decStreams at h
    split at h
    · cases hd : Stream.unpack buf with
      | error e => simp [hd] at h
      | ok r =>
        obtain ⟨d, rest⟩ := r
        have hs := (Stream_unpack_consumes buf rest d hd).1
        simp only [hd] at h
        cases hr : decStreams fuel rest with
        | error e => simp [hr] at h
        | ok es =>
          obtain ⟨es, l⟩ := es
          simp only [hr, Except.ok.injEq, Prod.mk.injEq] at h
          obtain ⟨rfl, rfl⟩ := h
          have := ih rest es l hr
          simp only [List.length_cons, Nat.succ_mul]
          omega
    · simp only [Except.ok.injEq, Prod.mk.injEq] at h
      obtain ⟨rfl, rfl⟩ := h
      simp

/-- [review] packet-level work bound for `MPEGPacketPMT.unpack` (missing before): the numbers of descriptors and
    streams returned are bounded by the length of the transport packet's payload -/
theorem PMT_items_le (t : PMT) (buf : Bytes) (b : Bool) (h : (PMT.unpack t buf).2 = .ok b) :
    (PMT.unpack t buf).1.descriptor_tags.length * 2 ≤ (PMT.unpack t buf).1.pkt.payload.length ∧
    (PMT.unpack t buf).1.streams.length * 5 ≤ (PMT.unpack t buf).1.pkt.payload.length := by
  revert h
  simp only [PMT.unpack]
  cases hu : Pkt.unpack t.pkt buf with
  | mk p r =>
    cases r with
    | error e => simp
    | ok u =>
      simp only
      repeat' split
      all_goals try (simp; done)
      rename_i ds hds hcrc _ ss left hss _ _ _
      intro _
      simp only
      have h1 : ds.length * 2 ≤ p.payload.length := by
        split at hds
        · have := decDescs_items_le _ _ _ hds
          simp only [slice_length] at this
          omega
        · simp only [Except.ok.injEq] at hds
          subst hds; simp
      have h2 := decStreams_items_le _ _ _ _ hss
      simp only [slice_length] at h2
      exact ⟨h1, by omega⟩

/-- [review] witness: two transport packets -/
def wTS : Bytes := ([0x47, 0x01, 0x00, 0x10] ++ List.replicate 184 0xAB) ++ ([0x47, 0x01, 0x00, 0x11] ++ List.replicate 184 0xCD)

set_option maxRecDepth 20000 in
example : (TS.unpack ⟨[]⟩ wTS).2 = .ok true ∧ (TS.unpack ⟨[]⟩ wTS).1.blocks.length = 2 := ⟨by rfl, by rfl⟩
set_option maxRecDepth 20000 in
example : (decBlock wTS).map (·.2) = .ok 188 := by rfl

/-- [review] witness: the PMT packet of `Props/C06/PMT.pmtExample` (one descriptor, two streams, valid CRC) -/
def wPMT : Bytes :=
  [71, 64, 0, 16, 0, 0, 48, 30, 0, 1, 198, 0, 0, 225, 0, 240, 4, 5, 2, 1, 2, 27, 225, 0, 240, 0, 15, 225, 1,
   240, 3, 9, 9, 9, 21, 232, 116, 73] ++ List.replicate 150 0xFF

set_option maxRecDepth 20000 in
example : (PMT.unpack PMT.fresh wPMT).2 = .ok true ∧ (PMT.unpack PMT.fresh wPMT).1.descriptor_tags.length = 1 ∧
    (PMT.unpack PMT.fresh wPMT).1.streams.length = 2 := ⟨by rfl, by rfl, by rfl⟩
example : Desc.unpack [5, 2, 1, 2, 9] = .ok (⟨some 5, [1, 2]⟩, [9]) := by rfl
example : Stream.unpack [15, 225, 1, 240, 3, 9, 9, 9, 7, 7] = .ok (⟨15, 0x101, [9, 9, 9]⟩, [7, 7]) := by rfl
example : decDescs 7 [5, 2, 1, 2, 6, 0] = .ok [⟨some 5, [1, 2]⟩, ⟨some 6, []⟩] := by rfl
example : decStreams 20 [27, 225, 0, 240, 0, 15, 225, 1, 240, 3, 9, 9, 9, 1, 2, 3, 4] =
    .ok ([⟨27, 0x100, []⟩, ⟨15, 0x101, [9, 9, 9]⟩], [1, 2, 3, 4]) := by rfl
-- `ite_read_error`: both branches of the hypothesis occur
example : (if (1 : Nat) = 1 then structUnpackFrom ⟨true, [.u16]⟩ [7] 0 else .ok []) = .error .struct := by rfl
/-! ### review additions (rev1-C08): outcome lists for the straight-line decoders
  `Ext.unpack`, `AF.unpack`, `Pkt.unpack`, `PES.unpack`, `STANAG.unpack` contain no loop and their models no fuel
  (Model/MPEGTS.lean and Model/PES.lean mention `fuel` nowhere): the `… ≠ .error .fuel` theorems above hold by
  construction of the model.  The content of C08 for them is the list of ordinary exceptions. -/

/-- a value, `struct.error` or a bare `Exception` -/
abbrev okOrSG (r : R α) : Prop := (∃ a, r = .ok a) ∨ r = .error .struct ∨ r = .error .generic

theorem Ext_unpack_outcomes (t : Ext) (buf : Bytes) : okOrSG (Ext.unpack t buf).2 := by
  simp only [Ext.unpack, okOrSG]
  repeat' split
  all_goals first
    | (simp; done)
    | (rename_i e h; have := structUnpackFrom_error _ _ _ _ h; subst this; simp)

theorem AF_unpack_outcomes (t : AF) (buf : Bytes) : okOrSG (AF.unpack t buf).2 := by
  simp only [AF.unpack, okOrSG]
  split
  · rename_i e h; have := structUnpackFrom_error _ _ _ _ h; subst this; simp
  · split
    · rename_i e h; have := ite_read_error _ _ _ _ _ _ h; subst this; simp
    · split
      · rename_i e h; have := ite_read_error _ _ _ _ _ _ h; subst this; simp
      · split <;> simp
      · simp
    · simp
  · simp

theorem Pkt_unpack_outcomes (t : Pkt) (buf : Bytes) : okOrSG (Pkt.unpack t buf).2 := by
  simp only [Pkt.unpack, okOrSG]
  repeat' split
  all_goals first
    | (simp; done)
    | (rename_i e h; have := structUnpackFrom_error _ _ _ _ h; subst this; simp)

theorem PES_unpack_outcomes (t : PES) (buf : Bytes) : okOrSG (PES.unpack t buf).2 := by
  have hp := Pkt_unpack_outcomes t.pkt buf
  simp only [PES.unpack, okOrSG] at hp ⊢
  cases hu : Pkt.unpack t.pkt buf with
  | mk p r =>
    rw [hu] at hp
    cases r with
    | error e => simpa using hp
    | ok u =>
      simp only
      repeat' split
      all_goals first
        | (simp; done)
        | (rename_i e h; have := structUnpackFrom_error _ _ _ _ h; subst this; simp)

theorem STANAG_unpack_outcomes (t : STANAG) (buf : Bytes) : okOrSG (STANAG.unpack t buf).2 := by
  have hp := PES_unpack_outcomes t.pes buf
  simp only [STANAG.unpack, okOrSG] at hp ⊢
  cases hu : PES.unpack t.pes buf with
  | mk p r =>
    rw [hu] at hp
    cases r with
    | error e => simpa using hp
    | ok u =>
      simp only
      repeat' split
      all_goals first
        | (simp; done)
        | (rename_i e h; have := structUnpackFrom_error _ _ _ _ h; subst this; simp)

theorem MPEGTS_unpack_outcomes (t : TS) (buf : Bytes) :
    (TS.unpack t buf).2 = .ok true ∨ (TS.unpack t buf).2 = .error .generic := by
  have hf := MPEGTS_unpack_total t buf
  revert hf
  simp only [TS.unpack]
  cases hd : decOff decBlock moreBlocks buf (buf.length + 1) 0 with
  | ok bs => simp
  | error e =>
    simp only
    intro hf
    rcases Acra.Lemmas.ReviewC08.decOff_error_source _ _ _ _ _ _ hd with rfl | ⟨o, ho⟩
    · exact absurd rfl hf
    · simp only [decBlock] at ho
      split at ho
      · simp at ho
      · simp at ho; subst ho; simp
theorem Desc_unpack_outcomes (buf : Bytes) :
    (∃ r, Desc.unpack buf = .ok r) ∨ Desc.unpack buf = .error .struct := by
  simp only [Desc.unpack]
  repeat' split
  all_goals first
    | (simp; done)
    | (rename_i e h; have := structUnpackFrom_error _ _ _ _ h; subst this; simp)

theorem Stream_unpack_outcomes (buf : Bytes) :
    (∃ r, Stream.unpack buf = .ok r) ∨ Stream.unpack buf = .error .struct := by
  simp only [Stream.unpack]
  repeat' split
  all_goals first
    | (simp; done)
    | (rename_i e h; have := structUnpackFrom_error _ _ _ _ h; subst this; simp)
/-! ### packet-level outcome list for `MPEGPacketPMT.unpack` (review B4) -/

/-- the descriptor loop raises nothing but `struct.error` -/
theorem decDescs_error_struct (fuel : Nat) (buf : Bytes) (e : Err) (hf : buf.length < fuel)
    (h : decDescs fuel buf = .error e) : e = .struct := by
  induction fuel generalizing buf with
  | zero => omega
  | succ fuel ih =>
    unfold decDescs at h
    split at h
    · cases hd : Desc.unpack buf with
      | error e' =>
        simp only [hd, Except.error.injEq] at h
        subst h
        rcases Desc_unpack_outcomes buf with ⟨r, hr⟩ | hs
        · rw [hd] at hr; cases hr
        · rw [hd] at hs; cases hs; rfl
      | ok r =>
        obtain ⟨d, rest⟩ := r
        simp only [hd] at h
        have hs := Desc_unpack_shorter buf rest d hd
        cases hr : decDescs fuel rest with
        | ok ds => simp only [hr] at h; cases h
        | error e' =>
          simp only [hr, Except.error.injEq] at h
          subst h
          exact ih rest (by omega) hr
    · cases h

/-- the stream loop cannot fail at all: its condition `len(stream_buf) > CRC_LEN` leaves at least the five bytes a stream
    header needs -/
theorem decStreams_total (fuel : Nat) (buf : Bytes) (hf : buf.length < fuel) : ∃ r, decStreams fuel buf = .ok r := by
  induction fuel generalizing buf with
  | zero => omega
  | succ fuel ih =>
    unfold decStreams
    by_cases hlt : Acra.Gen.PMT.PMT_CRC_LEN < buf.length
    · rw [if_pos hlt]
      simp only [Acra.Gen.PMT.PMT_CRC_LEN] at hlt
      have hh : ∃ a b c, structUnpackFrom Acra.Gen.PMT.PMTStream_FMT buf 0 = .ok [a, b, c] := by
        simp only [structUnpackFrom, Acra.Gen.PMT.PMTStream_FMT, Fmt.size, codesSize, Code.size, unpackCodes]
        have : 0 + (1 + (2 + (2 + 0))) ≤ buf.length := by omega
        simp only [this, if_true]
        exact ⟨_, _, _, rfl⟩
      obtain ⟨a, b, c, hh⟩ := hh
      have hd : ∃ d rest, Stream.unpack buf = .ok (d, rest) := by
        simp only [Stream.unpack, hh]
        exact ⟨_, _, rfl⟩
      obtain ⟨d, rest, hd⟩ := hd
      have hs := Stream_unpack_shorter buf rest d hd
      obtain ⟨r, hr⟩ := ih rest (by omega)
      obtain ⟨ss, left⟩ := r
      simp only [hd, hr]
      exact ⟨_, rfl⟩
    · rw [if_neg hlt]
      exact ⟨_, rfl⟩

/-- past the transport-packet layer only `struct.error` and `IndexError` are possible -/
theorem PMT_unpack_after_pkt (t : PMT) (buf : Bytes) (h : (Pkt.unpack t.pkt buf).2 = .ok ()) :
    (∃ b, (PMT.unpack t buf).2 = .ok b) ∨ (PMT.unpack t buf).2 = .error .struct ∨
    (PMT.unpack t buf).2 = .error .index := by
  simp only [PMT.unpack]
  cases hu : Pkt.unpack t.pkt buf with
  | mk p r =>
    rw [hu] at h
    simp only at h
    subst h
    simp only
    repeat' split
    all_goals first
      | (simp; done)
      | (rename_i e h; have := structUnpackFrom_error _ _ _ _ h; subst this; simp)
      | (rename_i e h; have := structUnpack_error _ _ _ h; subst this; simp)
      | (rename_i e h
         obtain ⟨r, hr⟩ := decStreams_total _ _ (Nat.lt_succ_self _)
         rw [hr] at h; cases h)
      | (rename_i e h
         split at h
         · have := decDescs_error_struct _ _ _ (by omega) h
           subst this; simp
         · simp at h)

/-- the outcome list: a Boolean (False = CRC mismatch), `struct.error`, a bare `Exception`, or `IndexError` —
    nothing else; the bare `Exception` comes from the transport-packet layer and only from there (sync byte ≠ 0x47) -/
theorem PMT_unpack_outcomes (t : PMT) (buf : Bytes) :
    ((∃ b, (PMT.unpack t buf).2 = .ok b) ∨ (PMT.unpack t buf).2 = .error .struct ∨
      (PMT.unpack t buf).2 = .error .generic ∨ (PMT.unpack t buf).2 = .error .index) ∧
    ((PMT.unpack t buf).2 = .error .generic ↔ (Pkt.unpack t.pkt buf).2 = .error .generic) := by
  have hp := Pkt_unpack_outcomes t.pkt buf
  have ha := PMT_unpack_after_pkt t buf
  simp only [okOrSG] at hp
  cases hu : Pkt.unpack t.pkt buf with
  | mk p r =>
    rw [hu] at hp ha
    cases r with
    | error e =>
      have hr : (PMT.unpack t buf).2 = .error e := by simp only [PMT.unpack, hu]
      rw [hr]
      simp only [reduceCtorEq, exists_false, false_or, Except.error.injEq] at hp ⊢
      refine ⟨?_, ?_⟩
      · rcases hp with rfl | rfl <;> simp
      · first | trivial | exact Iff.rfl
    | ok u =>
      cases u
      rcases ha rfl with ⟨b, hb⟩ | hs | hi
      · rw [hb]; exact ⟨Or.inl ⟨b, rfl⟩, by simp⟩
      · rw [hs]; exact ⟨Or.inr (Or.inl rfl), by simp⟩
      · rw [hi]; exact ⟨Or.inr (Or.inr (Or.inr rfl)), by simp⟩

/-- the pointer byte and the 12-bit section length of a PMT payload (bytes 0 and `pointer + 2 .. pointer + 3`) -/
def pmtPointer (pl : Bytes) : Nat := decInt true (pl.take 1)
def pmtSectionLength (pl : Bytes) : Nat := decInt true (((pl.drop (1 + pmtPointer pl)).drop 1).take 2) % 4096

/-- `IndexError` (raised by the debug line that reads `crc_buffer[0]`) occurs only when the transport packet was
    accepted, the pointer byte and the 12 header bytes after it are there, and the section length field is 0 or 1 —
    the CRC-protected region `payload[pointer+1 : pointer+section_length]` is then empty -/
theorem PMT_unpack_index_imp (t : PMT) (buf : Bytes) (h : (PMT.unpack t buf).2 = .error .index) :
    (Pkt.unpack t.pkt buf).2 = .ok () ∧
    13 + pmtPointer (Pkt.unpack t.pkt buf).1.payload ≤ (Pkt.unpack t.pkt buf).1.payload.length ∧
    pmtSectionLength (Pkt.unpack t.pkt buf).1.payload ≤ 1 := by
  have hp := Pkt_unpack_outcomes t.pkt buf
  simp only [okOrSG] at hp
  revert h
  simp only [PMT.unpack]
  cases hu : Pkt.unpack t.pkt buf with
  | mk p r =>
    rw [hu] at hp
    cases r with
    | error e =>
      simp only [reduceCtorEq, exists_false, false_or, Except.error.injEq] at hp ⊢
      rcases hp with rfl | rfl <;> simp
    | ok u =>
      cases u
      simp only [true_and]
      by_cases h1 : 1 ≤ p.payload.length
      · have hh1 : structUnpackFrom Acra.Gen.PMT.PMT_FMT_POINTER p.payload 0 = .ok [pmtPointer p.payload] := by
          simp only [structUnpackFrom, Acra.Gen.PMT.PMT_FMT_POINTER, Fmt.size, codesSize, Code.size, unpackCodes,
            pmtPointer, List.drop_zero]
          have : 0 + (1 + 0) ≤ p.payload.length := by omega
          simp only [this, if_true]
        simp only [hh1]
        generalize hptr : pmtPointer p.payload = ptr
        by_cases h13 : 13 + ptr ≤ p.payload.length
        · have hh2 : ∃ a c d f g i j, structUnpackFrom Acra.Gen.PMT.PMT_FMT p.payload (Acra.Gen.PMT.PMT_FMT_POINTER.size + ptr) =
              .ok [a, decInt true (((p.payload.drop (1 + ptr)).drop 1).take 2), c, d, f, g, i, j] := by
            simp only [structUnpackFrom, Acra.Gen.PMT.PMT_FMT, Acra.Gen.PMT.PMT_FMT_POINTER, Fmt.size, codesSize, Code.size,
              unpackCodes]
            have : 1 + 0 + ptr + (1 + (2 + (2 + (1 + (1 + (1 + (2 + (2 + 0)))))))) ≤ p.payload.length := by omega
            simp only [this, if_true]
            have : 1 + 0 + ptr = 1 + ptr := by omega
            rw [this]
            exact ⟨_, _, _, _, _, _, _, rfl⟩
          obtain ⟨a, c, d, f, g, i, j, hh2⟩ := hh2
          have hsl : pmtSectionLength p.payload = decInt true (((p.payload.drop (1 + ptr)).drop 1).take 2) % 4096 := by
            simp only [pmtSectionLength, hptr]
          simp only [hh2]
          intro h
          refine ⟨h13, ?_⟩
          rw [hsl]
          generalize decInt true (((p.payload.drop (1 + ptr)).drop 1).take 2) % 4096 = len at h ⊢
          revert h
          repeat' split
          all_goals first
            | (rename_i hcrc; intro _
               simp only [slice_length, Acra.Gen.PMT.PMT_FMT, Acra.Gen.PMT.PMT_FMT_POINTER, Fmt.size, codesSize, Code.size,
                 Acra.Gen.PMT.PMT_HDR_LEN_NOT_INCL_IN_LEN, Acra.Gen.PMT.PMT_CRC_LEN] at hcrc
               omega)
            | (intro h; simp at h; done)
            | (rename_i e he; intro h; simp only [Except.error.injEq] at h; subst h
               first
                 | (have := structUnpackFrom_error _ _ _ _ he; cases this)
                 | (have := structUnpack_error _ _ _ he; cases this)
                 | (obtain ⟨r, hr⟩ := decStreams_total _ _ (Nat.lt_succ_self _); rw [hr] at he; cases he)
                 | (split at he
                    · have := decDescs_error_struct _ _ _ (by omega) he; cases this
                    · simp at he))
        · have hh2 : structUnpackFrom Acra.Gen.PMT.PMT_FMT p.payload (Acra.Gen.PMT.PMT_FMT_POINTER.size + ptr) = .error .struct := by
            simp only [structUnpackFrom, Acra.Gen.PMT.PMT_FMT, Acra.Gen.PMT.PMT_FMT_POINTER, Fmt.size, codesSize, Code.size]
            have : ¬ 1 + 0 + ptr + (1 + (2 + (2 + (1 + (1 + (1 + (2 + (2 + 0)))))))) ≤ p.payload.length := by omega
            simp only [this, if_false]
          simp [hh2]
      · have hh1 : structUnpackFrom Acra.Gen.PMT.PMT_FMT_POINTER p.payload 0 = .error .struct := by
          simp only [structUnpackFrom, Acra.Gen.PMT.PMT_FMT_POINTER, Fmt.size, codesSize, Code.size]
          have : ¬ 0 + (1 + 0) ≤ p.payload.length := by omega
          simp only [this, if_false]
        simp [hh1]

/-- every outcome is reachable: `wPMT` → True; one CRC byte changed → False; 3 bytes → `struct.error`; sync byte
    0x46 → bare `Exception`; section length forced to 1 → `IndexError` -/
example : (PMT.unpack PMT.fresh (wPMT.take 3)).2 = .error .struct := by rfl
set_option maxRecDepth 20000 in
example : (PMT.unpack PMT.fresh (wPMT.set 37 74)).2 = .ok false := by rfl
set_option maxRecDepth 20000 in
example : (PMT.unpack PMT.fresh (wPMT.set 0 0x46)).2 = .error .generic := by rfl
set_option maxRecDepth 20000 in
example : (PMT.unpack PMT.fresh ((wPMT.set 6 0).set 7 1)).2 = .error .index := by rfl

/-- joint witnesses for the helper lemmas above: a descriptor loop / stream loop that runs into a cut element with enough
    fuel (`decDescs_error_struct`); the stream loop stops before a cut element (`decStreams_total`); `PMT_unpack_after_pkt`: `wPMT` passes the transport-packet layer -/
example : ([5, 2, 1, 2, 6] : Bytes).length < 7 ∧ decDescs 7 [5, 2, 1, 2, 6] = .error .struct := ⟨by decide, rfl⟩
example : ([27, 225, 0, 240, 0, 15, 225, 1, 240] : Bytes).length < 20 ∧
    decStreams 20 [27, 225, 0, 240, 0, 15, 225, 1, 240] = .ok ([⟨27, 0x100, []⟩], [15, 225, 1, 240]) := ⟨by decide, rfl⟩
set_option maxRecDepth 20000 in
example : (Pkt.unpack PMT.fresh.pkt wPMT).2 = .ok () := by rfl

end Acra.Props.C08
