import Acra.Gen.Src.SimpleEthernet
import Acra.Model.Net
import Acra.Lemmas.SrcTie
namespace Acra.Props.C02
open Acra Acra.Py Acra.Lemmas.SrcTie

/-! Source ties (C02): the 48-bit MAC address helpers, regenerated from the current Python source by
    `harness/translate.py` on every run (see `Props/C07/SrcTie.lean`). -/

/-- `unpack48` as written today = the model, for every byte string (`struct.error` unless six bytes) -/
theorem src_unpack48 (x : Bytes) :
    Gen.Src.SimpleEthernet.unpack48 x = (Model.Net.unpack48 x).map Int.ofNat := by
  unfold Gen.Src.SimpleEthernet.unpack48 Model.Net.unpack48
  simp only [structUnpackI_eq, Gen.Net.unpack48_fmt0]
  cases hs : structUnpack ⟨true, [.u16, .u32]⟩ x with
  | error e => rfl
  | ok vs =>
    have hl := structUnpack_vals_length _ _ _ hs
    match vs, hl with
    | [a, b], _ => rfl

/-- `pack48` as written today = the model, for every non-negative address (`struct.error` from 2^48 on) -/
theorem src_pack48 (x : Nat) :
    Gen.Src.SimpleEthernet.pack48 x = Model.Net.pack48 x := by
  unfold Gen.Src.SimpleEthernet.pack48 Model.Net.pack48
  simp only [shr_natCast, band_natCast_lit, toNat_lit, Gen.Net.pack48_fmt0]
  have := structPackI_natCast ⟨true, [.u16, .u32]⟩ [x >>> 32, x &&& 4294967295]
  simp only [List.map_cons, List.map_nil] at this
  rw [show ([((x >>> 32 : Nat) : Int), ((x &&& 4294967295 : Nat) : Int)] : List Int)
      = [Int.ofNat (x >>> 32), Int.ofNat (x &&& 4294967295)] from rfl, this]
  cases structPack ⟨true, [.u16, .u32]⟩ [x >>> 32, x &&& 4294967295] <;> rfl

/-- outside the model's domain: a negative address is refused by `struct.pack` (`x >> 32` is negative) -/
theorem src_pack48_negative (x : Int) (h : x < 0) :
    Gen.Src.SimpleEthernet.pack48 x = .error .struct := by
  unfold Gen.Src.SimpleEthernet.pack48 structPackI
  have : ¬ (0 ≤ shr x 32) := by
    rw [shr_eq_div]; simp only [toNat_lit]; omega
  simp [this]
  rfl

example : Gen.Src.SimpleEthernet.pack48 (-1) = .error .struct := src_pack48_negative (-1) (by decide)

end Acra.Props.C02
