import Acra.Lemmas.Net
import Acra.Lemmas.Pcap
import Acra.Spec.Net
namespace Acra.Props.C02
open Acra.Py Acra.Model.Net Acra.Gen.Net Acra.Lemmas.Net

/-! ### pack48 / unpack48 -/

/-- a 48-bit value is laid out as six big-endian bytes -/
theorem pack48_layout (x : Nat) (h : x < 2 ^ 48) : pack48 x = .ok (beBytes 6 x) := pack48_eq x h

theorem unpack48_pack48 (x : Nat) (h : x < 2 ^ 48) : ∃ b, pack48 x = .ok b ∧ unpack48 b = .ok x :=
  ⟨_, pack48_eq x h, unpack48_beBytes x h⟩

theorem pack48_unpack48 (b : Bytes) (h : b.length = 6) : ∃ x, unpack48 b = .ok x ∧ pack48 x = .ok b := by
  refine ⟨beNat b, unpack48_eq b h, ?_⟩
  have hlt : beNat b < 2 ^ 48 := by have := beNat_lt b; rw [h] at this; simpa using this
  rw [pack48_eq _ hlt]
  have := beBytes_beNat b
  rw [h] at this; rw [this]

/-- values that do not fit 48 bits, and buffers that are not six bytes, are refused with struct.error -/
theorem pack48_refuses (x : Nat) (h : 2 ^ 48 ≤ x) : pack48 x = .error .struct := pack48_error x h
theorem unpack48_refuses (b : Bytes) (h : b.length ≠ 6) : unpack48 b = .error .struct := unpack48_error b h

example : pack48 0x01005E000001 = .ok [0x01, 0x00, 0x5E, 0x00, 0x00, 0x01] ∧
    unpack48 [0x01, 0x00, 0x5E, 0x00, 0x00, 0x01] = .ok 0x01005E000001 := ⟨rfl, rfl⟩

/-! ### Ethernet, every (vlan × fcs) nesting -/

/-- `Ethernet.pack(fcs)` emits dst, src, [0x8100, tag], type, payload, [FCS = little-endian CRC-32 of everything
    before it] — for VLAN on/off and FCS on/off -/
theorem Ethernet_pack_layout (s : Eth) (fcs : Bool) (h : Eth_WF s) :
    (Eth.pack s fcs).2 =
      .ok (Spec.Ethernet.encode s.dstmac s.srcmac (if s.vlan then some s.vlantag else none) s.type s.payload fcs) := by
  rw [Eth_pack_eq s fcs h, ethFrame_eq_spec]

example : Eth_WF { Eth.fresh with dstmac := 0x01005E000001, srcmac := 0x000C4D000A6C, vlan := true, vlantag := 5,
                                  payload := [1, 2, 3] } := by
  simp [Eth_WF, Eth.fresh, ETH_TYPE_IP, ETH_TYPE_VLAN]

/-- decoding (into an object in any prior state, with the same `fcs` argument) returns the fields — an
    untagged frame decodes with the tag sentinel 0xFFFF — and re-encoding reproduces the bytes -/
theorem Ethernet_roundtrip (s t : Eth) (fcs : Bool) (h : Eth_WF s) :
    ∃ b, (Eth.pack s fcs).2 = .ok b ∧
      Eth.unpack t b fcs = ({ s with vlantag := if s.vlan then s.vlantag else 0xFFFF }, .ok ()) ∧
      (Eth.pack (Eth.unpack t b fcs).1 fcs).2 = .ok b := by
  refine ⟨ethFrame s fcs, by rw [Eth_pack_eq s fcs h], Eth_unpack_frame s t fcs h, ?_⟩
  rw [Eth_unpack_frame s t fcs h]
  have hwf : Eth_WF (ethDecoded s) := by
    obtain ⟨h1, h2, h3, h4, h5⟩ := h
    refine ⟨h1, h2, h3, ?_, h5⟩
    intro hv; simp only [ethDecoded] at hv ⊢; simp [hv]; exact h4 hv
  rw [Eth_pack_eq _ fcs hwf]
  have e : ethFrame (ethDecoded s) fcs = ethFrame s fcs := by
    cases hv : s.vlan <;> simp [ethFrame, ethHdr, ethTypePart, ethFcs, ethDecoded, hv]
  rw [e]

/-- an untagged frame cannot carry ethertype 0x8100: the code's own decoder reads the payload as a tag -/
example : (Eth.unpack Eth.fresh
    (match (Eth.pack { Eth.fresh with type := 0x8100, payload := [0, 5, 8, 0, 9] } false).2 with
     | .ok b => b | .error _ => []) false).1.vlan = true := by decide

/-! ### IPv4 -/

/-- `IP.pack` emits the RFC 791 option-less header — version/IHL 0x45, total length 20+|payload|, flags in the top
    three bits of byte 6, fragment offset / 8 in the remaining 13 bits, RFC 1071 header checksum — and the payload -/
theorem IP_pack_layout (s : IP) (src dst : Nat) (h : IP_WF s src dst) :
    (IP.pack s).2 = .ok (Spec.IPv4.encode s.dscp s.ident s.flags s.fragment_offset s.ttl s.protocol src dst s.payload) := by
  rw [IP_pack_eq s src dst h]
  simp only [Spec.IPv4.encode]
  have h0 : ipHeader s [0, 0] src dst =
      Spec.IPv4.header s.dscp (20 + s.payload.length) s.ident s.flags (s.fragment_offset / 8) s.ttl s.protocol 0 src dst := by
    have := ipHeader_eq_spec s src dst 0 h
    rwa [show beBytes 2 0 = [0, 0] by decide] at this
  rw [← h0, ← ipHeader_eq_spec s src dst _ h]
  simp only [ipCksum]
  rw [Lemmas.Sum16.stored_bytes_eq _ (by rw [ipHeader_length _ _ _ _ rfl]; omega)]

example : IP_WF { IP.fresh with srcip := some 0xC0A81C10, dstip := some 0xEB000001, flags := 2, fragment_offset := 1480,
                                payload := [1, 2, 3] } 0xC0A81C10 0xEB000001 := by
  simp [IP_WF, IP.fresh, IP_PROTOCOL_UDP, IP_DEFAULT_TTL]

/-- decoding the datagram — followed by any link-layer padding, into an object in any prior state — returns the
    fields (flags and fragment offset included; version 4, IHL 5, computed total length) and exactly the payload;
    re-encoding the decoded object reproduces the bytes -/
theorem IP_roundtrip (s t : IP) (src dst : Nat) (pad : Bytes) (h : IP_WF s src dst) :
    ∃ b, (IP.pack s).2 = .ok b ∧
      IP.unpack t (b ++ pad) = ({ s with len := 20 + s.payload.length, version := 4, ihl := 5 }, .ok ()) ∧
      (IP.pack (IP.unpack t (b ++ pad)).1).2 = .ok b := by
  refine ⟨_, by rw [IP_pack_eq s src dst h], ?_, ?_⟩
  · rw [List.append_assoc]; exact IP_unpack_packed s t src dst _ pad (by simp) h
  · rw [List.append_assoc, IP_unpack_packed s t src dst _ pad (by simp) h]
    have hwf : IP_WF { s with len := 20 + s.payload.length, version := 4, ihl := 5 } src dst := h
    rw [IP_pack_eq _ src dst hwf]
    rfl

/-- **re-encode**: a 20-byte option-less header from the wire (first byte 0x45, RFC 1071 checksum, total length
    20+|p|), decoded together with its payload and any trailing padding and packed again, gives the same 20 bytes
    and the payload — for all 8 flag values and all 8192 fragment offsets (a statement over all headers) -/
theorem IP_reencode (t : IP) (h p pad : Bytes) (hlen : h.length = 20) (h0 : beNat (slice h 0 1) = 0x45)
    (hck : slice h 10 12 = beBytes 2 (Spec.rfc1071 (List.take 10 h ++ ([0, 0] ++ List.drop 12 h))))
    (htot : beNat (slice h 2 4) = 20 + p.length) :
    (IP.pack (IP.unpack t (h ++ (p ++ pad))).1).2 = .ok (h ++ p) :=
  Lemmas.Net.IP_reencode t h p pad hlen h0 hck htot

/-- … and the decode step of `IP_reencode` succeeds and yields exactly the wire fields: flags = top three bits of
    byte 6, fragment offset = the remaining 13 bits × 8, the payload `p` without the padding — whatever the
    object held before (only its un-decoded attributes survive) -/
theorem IP_reencode_decoded (t : IP) (h p pad : Bytes) (hlen : h.length = 20)
    (htot : beNat (slice h 2 4) = 20 + p.length) :
    (IP.unpack t (h ++ (p ++ pad))).2 = .ok () ∧
    (IP.unpack t (h ++ (p ++ pad))).1.payload = p ∧
    (IP.unpack t (h ++ (p ++ pad))).1.flags = beNat (slice h 6 7) / 32 ∧
    (IP.unpack t (h ++ (p ++ pad))).1.fragment_offset = (beNat (slice h 6 7) % 32 * 256 + beNat (slice h 7 8)) * 8 ∧
    (IP.unpack t (h ++ (p ++ pad))).1.len = 20 + p.length := by
  have hb : ∀ a b, b ≤ 20 → fld (h ++ (p ++ pad)) a b = fld h a b := by
    intro a b hb; simp only [fld]; rw [slice_append_left _ _ (by omega)]
  have htot' : fld h 2 4 = 20 + p.length := htot
  have hp : slice (h ++ (p ++ pad)) 20 (fld h 2 4) = p := by
    rw [htot']; exact slice_mid _ _ _ _ _ hlen.symm (by rw [hlen])
  rw [IP_unpack_eq _ _ (by simp [hlen])]
  simp only [hb 2 4 (by omega), hb 6 7 (by omega), hb 7 8 (by omega), hp]
  exact ⟨trivial, trivial, rfl, rfl, htot'⟩

/-- joint witness for `IP_reencode` / `IP_reencode_decoded`: a wire header with flags 5 (both DF-side bits and
    the reserved bit pattern `101`), fragment offset 8, a 3-byte payload and 2 bytes of link padding -/
example :
    let h : Bytes := [69, 0, 0, 23, 0, 1, 160, 1, 64, 17, 19, 26, 192, 168, 28, 16, 235, 0, 0, 1]
    let p : Bytes := [1, 2, 3]
    h.length = 20 ∧ beNat (slice h 0 1) = 0x45 ∧
    slice h 10 12 = beBytes 2 (Spec.rfc1071 (List.take 10 h ++ ([0, 0] ++ List.drop 12 h))) ∧
    beNat (slice h 2 4) = 20 + p.length ∧
    (IP.unpack IP.fresh (h ++ (p ++ [0, 0]))).1.flags = 5 ∧
    (IP.unpack IP.fresh (h ++ (p ++ [0, 0]))).1.fragment_offset = 8 := by decide

/-! ### UDP -/

theorem UDP_pack_layout (s : UDP) (h : UDP_WF s) :
    (UDP.pack s).2 = .ok (Spec.UDP.encode s.srcport s.dstport s.payload) := by
  rw [UDP_pack_eq s h]
  simp [udpBytes, Spec.UDP.encode, encInt, Nat.add_comm]

theorem UDP_roundtrip (s t : UDP) (h : UDP_WF s) :
    ∃ b, (UDP.pack s).2 = .ok b ∧ UDP.unpack t b = ({ s with len := s.payload.length + 8 }, .ok ()) ∧
      (UDP.pack (UDP.unpack t b).1).2 = .ok b := by
  refine ⟨udpBytes s, by rw [UDP_pack_eq s h], UDP_unpack_packed s t h, ?_⟩
  rw [UDP_unpack_packed s t h]
  have hwf : UDP_WF { s with len := s.payload.length + 8 } := h
  rw [UDP_pack_eq _ hwf]
  rfl

example : UDP_WF { UDP.fresh with srcport := 4400, dstport := 5500, payload := [5] } := by simp [UDP_WF, UDP.fresh]

/-! ### ARP -/

/-- 28 bytes: hardware type, protocol type, the two address lengths, operation, sender MAC / IP, target MAC / IP -/
theorem ARP_pack_layout (s : ARP) (sip dip : Nat) (h : ARP_WF s sip dip) :
    (ARP.pack s).2 = .ok (Spec.ARP.encode s.hardware_type s.protocol_type s.hardware_length s.protocol_length
      s.operation s.srcmac sip s.dstmac dip) ∧
    (Spec.ARP.encode s.hardware_type s.protocol_type s.hardware_length s.protocol_length
      s.operation s.srcmac sip s.dstmac dip).length = 28 := by
  rw [ARP_pack_eq s sip dip h]
  constructor
  · simp [arpBytes, Spec.ARP.encode, encInt]
  · simp [Spec.ARP.encode]

theorem ARP_roundtrip (s t : ARP) (sip dip : Nat) (h : ARP_WF s sip dip) :
    ∃ b, (ARP.pack s).2 = .ok b ∧ ARP.unpack t b = (s, .ok ()) ∧ (ARP.pack (ARP.unpack t b).1).2 = .ok b := by
  refine ⟨arpBytes s sip dip, by rw [ARP_pack_eq s sip dip h], ARP_unpack_packed s t sip dip h, ?_⟩
  rw [ARP_unpack_packed s t sip dip h, ARP_pack_eq s sip dip h]

example : ARP_WF { ARP.fresh with dstip := some 0xC0A81C02 } 0 0xC0A81C02 := by
  simp [ARP_WF, ARP.fresh, ARP_DEFAULT_HARDWARE_TYPE, ETH_TYPE_IP, ETH_ADDR_LENGTH, IP_ADDR_LENGTH, ARP_OPER_REQUEST]

/-! ### PcapRecord -/
open Acra.Model.Pcap Acra.Lemmas.Pcap in
theorem PcapRecord_pack_layout (r : Rec) (h : Rec_fits r) :
    (Rec.pack r).2 = .ok (Spec.Pcap.record r.sec r.usec r.incl_len r.orig_len r.payload) := by
  rw [Rec_pack_eq r h]
  simp [recBytes, recHdr, Spec.Pcap.record, encInt]

open Acra.Model.Pcap Acra.Lemmas.Pcap in
/-- the reader's step (header through `unpack`, payload through the setter) returns the record that was packed -/
theorem PcapRecord_roundtrip (r : Rec) (rest : Bytes) (h : Rec_WF r) :
    ∃ b, (Rec.pack r).2 = .ok b ∧ nextRec (b ++ rest) = some (r, b.length) := by
  refine ⟨recBytes r, by rw [Rec_pack_eq r h.fits], ?_⟩
  rw [nextRec_recBytes r rest h]; simp

open Acra.Model.Pcap Acra.Lemmas.Pcap in
/-- witnesses: a record whose length fields are in step with a non-empty payload (`Rec_WF`, hence `Rec_fits`);
    `Rec_fits` alone also allows a record whose `orig_len` exceeds the captured length (a snapped packet) -/
example : Rec_WF { Rec.fresh with sec := 0x5F000000, usec := 999999, incl_len := 3, orig_len := 3, payload := [1, 2, 3] } ∧
    Rec_fits { Rec.fresh with sec := 1, usec := 2, incl_len := 3, orig_len := 1500, payload := [1, 2, 3] } := by
  simp [Rec_WF, Rec_fits]

end Acra.Props.C02
