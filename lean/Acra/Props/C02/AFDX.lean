import Acra.Lemmas.AFDX
namespace Acra.Props.C02
open Acra.Py Acra.Model.AFDX Acra.Gen.AFDX Acra.Lemmas.AFDX Acra.Lemmas.Net

/-! `SimpleEthernet.AFDX` — the class "will unpack an AFDX packet" according to its docstring.  As the code stands:
    its constructor raises unconditionally, its decoder raises on every buffer, its encoder works (on an instance
    made behind the constructor's back whose seven attributes were assigned).  C02's statement does not name AFDX,
    so the missing decode is recorded as an observation (`notes/foreign.md`), not as a failure of C02. -/

/-- `AFDX(buf)` raises `Exception("No working")` for every argument: no object can be made through the constructor -/
theorem AFDX_init_raises (buf : Option Bytes) : AFDX.new buf = .error .generic := rfl

/-- … and `AFDX.__init__` called on an existing instance assigns nothing -/
theorem AFDX_init_assigns_nothing (s : AFDX) (buf : Option Bytes) : AFDX.init s buf = (s, .error .generic) := rfl

/-- `AFDX.pack()` emits the ARINC 664 part 7 layout: destination 03 00 00 00 + virtual link, source 02 00 00 +
    network, equipment, interface·32, ethertype, payload, sequence number; the object is unchanged -/
theorem AFDX_pack_layout (s : AFDX) (ty net equip iface vlink : Nat) (payload : Bytes) (sq : Nat)
    (h : WF s ty net equip iface vlink payload sq) :
    AFDX.pack s = (s, .ok (Spec.AFDX.encode vlink net equip iface ty payload sq)) := by
  rw [pack_eq s h, frame_eq_spec]

/-- non-vacuity: virtual link 0x1234, network 1, equipment 2, interface 3, 42 payload bytes -/
example : WF (full 0x0800 1 2 3 0x1234 (List.replicate 42 0x22) 9) 0x0800 1 2 3 0x1234 (List.replicate 42 0x22) 9 := by
  constructor <;> first | rfl | decide

/-- the encoder refuses what the layout cannot carry: a payload under 42 bytes (ValueError) … -/
theorem AFDX_pack_refuses_short (s : AFDX) (p : Bytes) (hp : s.payload = some p) (h : p.length < AFDX_MIN_PAYLOAD_LEN) :
    AFDX.pack s = (s, .error .value) := by
  simp [AFDX.pack, hp, h]

example : (full 0x0800 1 2 3 0x1234 (List.replicate 41 0x22) 9).payload = some (List.replicate 41 0x22) ∧
    (List.replicate 41 (0x22 : UInt8)).length < AFDX_MIN_PAYLOAD_LEN := by decide

/-- … and an interface ID beyond 3 bits (`struct.error`: `interfaceID << 5` does not fit the byte) -/
theorem AFDX_pack_refuses_iface (ty net equip iface vlink : Nat) (payload : Bytes) (sq : Nat)
    (hp : AFDX_MIN_PAYLOAD_LEN ≤ payload.length) (h : 8 ≤ iface) :
    (AFDX.pack (full ty net equip iface vlink payload sq)).2 = .error .struct := by
  have hp' : ¬ payload.length < AFDX_MIN_PAYLOAD_LEN := by omega
  cases hh : structPack AFDX_pack_fmt0 [AFDX_DSTMAC_CONST, vlink, AFDX_SRCMAC_CONST >>> 8, 0, net, equip, iface <<< 5, ty] with
  | ok b =>
    exfalso
    have hf := (structPack_ok_iff _ _).1 ⟨b, hh⟩
    simp only [Fits, AFDX_pack_fmt0, Code.bound, shl5] at hf
    omega
  | error e =>
    have := structPack_error _ _ _ hh; subst this
    simp [AFDX.pack, full, hp', hh]

example : AFDX_MIN_PAYLOAD_LEN ≤ (List.replicate 42 (0 : UInt8)).length ∧ 8 ≤ 8 := by decide

/-
  FULL STATEMENT (fails of the code as it stands): for a well-formed object `a` and any object `t`,
      ∃ b, (AFDX.pack a).2 = .ok b ∧ AFDX.unpack t b = (a, .ok ())
  i.e. the frame decodes back to the seven field values.  What holds instead: the decoder recovers the virtual link,
  the ethertype and the payload (without the trailing sequence-number byte) and then raises TypeError at
  `struct.unpack("B", buf[-1])`; network, equipment and interface ID are never decoded (`unpacksrcmac` is commented
  out), the sequence number is never assigned.
-/
theorem AFDX_roundtrip_partial (s t : AFDX) (ty net equip iface vlink : Nat) (payload : Bytes) (sq : Nat)
    (h : WF s ty net equip iface vlink payload sq) :
    ∃ b, (AFDX.pack s).2 = .ok b ∧
      AFDX.unpack t b = ({ t with vlink := some vlink, type := some ty, payload := some payload }, .error .type) := by
  refine ⟨frame ty net equip iface vlink payload sq, by rw [pack_eq s h], ?_⟩
  have hl := frame_length ty net equip iface vlink payload sq
  rw [unpack_ge14 _ _ (by omega)]
  rw [fld_frame_vlink _ _ _ _ _ _ _ h.hvlink, fld_frame_type _ _ _ _ _ _ _ h.hty, slice_frame_payload]

end Acra.Props.C02
